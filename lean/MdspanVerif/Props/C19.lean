import MdspanVerif.Model.Conc
import MdspanVerif.Props.C01
/-!
# C19 — concurrent disjoint access through a shared view is schedule independent
-/
namespace Mdspan

/-- an element access through a shared view: thread, kind, multi-index, value -/
structure Acc where
  tid : Nat
  isWrite : Bool
  idx : List Nat
  val : Int

/-- the address is a pure function of the (immutable) view state and the index -/
def Acc.toEv (h : Nat) (L : Layout) (a : Acc) : Ev :=
  ⟨a.tid, a.isWrite, h + L.offset a.idx, a.val⟩

/-- threads work on disjoint index sets: an index written by a thread is touched by it only -/
def DisjointIdx (s : List Acc) : Prop :=
  ∀ a1 ∈ s, ∀ a2 ∈ s, a1.isWrite = true → a1.idx = a2.idx → a1.tid = a2.tid

/-- disjoint index sets give race freedom, by injectivity of the mapping (C01) -/
theorem raceFree_of_disjoint (h : Nat) (L : Layout) (hv : L.Valid) (s : List Acc)
    (hb : ∀ a ∈ s, InB a.idx L.extents) (hd : DisjointIdx s) :
    RaceFree (s.map (Acc.toEv h L)) := by
  intro e1 he1 e2 he2 hw ha
  obtain ⟨a1, ha1, rfl⟩ := List.mem_map.mp he1
  obtain ⟨a2, ha2, rfl⟩ := List.mem_map.mp he2
  simp only [Acc.toEv] at hw ha ⊢
  have hoff : L.offset a1.idx = L.offset a2.idx := by omega
  exact hd a1 ha1 a2 ha2 hw (C01_inj L hv a1.idx a2.idx (hb a1 ha1) (hb a2 ha2) hoff)

/-- **C19**: for any two schedules of the same per-thread access sequences over disjoint index
    sets of one shared valid view, the final buffer contents coincide and every thread reads the
    same values. -/
theorem C19_schedule_indep (h : Nat) (L : Layout) (hv : L.Valid) (s1 s2 : List Acc) (m : Mem)
    (hb1 : ∀ a ∈ s1, InB a.idx L.extents) (hb2 : ∀ a ∈ s2, InB a.idx L.extents)
    (hd1 : DisjointIdx s1) (hd2 : DisjointIdx s2)
    (hp : ∀ t, prog t (s1.map (Acc.toEv h L)) = prog t (s2.map (Acc.toEv h L))) :
    runMem m (s1.map (Acc.toEv h L)) = runMem m (s2.map (Acc.toEv h L)) ∧
    ∀ t, readLog t m (s1.map (Acc.toEv h L)) = readLog t m (s2.map (Acc.toEv h L)) := by
  have r1 := raceFree_of_disjoint h L hv s1 hb1 hd1
  have r2 := raceFree_of_disjoint h L hv s2 hb2 hd2
  exact ⟨runMem_schedule_indep _ _ m r1 r2 hp, fun t => readLog_schedule_indep t _ _ m r1 r2 (hp t)⟩

end Mdspan
