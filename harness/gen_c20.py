from vf.common import ITYPES
from harness.gen_map import cxx_extents, KINDS
PAIRS = [(t, t) for t in ITYPES] + [('i32', 'u64'), ('u64', 'i32'), ('i8', 'i32'), ('i32', 'i8'), ('u8', 'i16'), ('i16', 'u8'), ('u16', 'i64'), ('i64', 'u32'),
                                    ('u32', 'i32'), ('i32', 'u32'), ('i64', 'u64'), ('u64', 'i64'), ('i8', 'u8'), ('u8', 'i8'), ('i16', 'u64'), ('u16', 'u8')]
def instances():
    return [(k, t, u, r) for (t, u) in PAIRS for k in ('left', 'right') for r in range(0, 5)]
def key(i): return 'c20:%s:%s:%s:%d' % (i[0], i[1], i[2], i[3])
def line(i): return 'c20 %s %s k=%s:%d' % (i[0], i[1], i[2], i[3])
STATIC = [(k, t, s0, s1) for t in ('i32', 'i64') for (k, s0, s1) in (('left', 1, 3), ('left', 1, 5), ('left', 4, 1), ('right', 4, 1), ('right', 5, 1), ('right', 1, 3))]
def skey(i): return 'c20s:%s:%s:%d_%d' % i
def sline(i): return 'c20s %s %s k=%d_%d ext=3,4 str=%d,%d' % (i[0], i[1], i[2], i[3], i[2], i[3])
def sources(ntu=8):
    tus = [[] for _ in range(ntu)]
    for n, i in enumerate(STATIC):
        from vf.common import ITYPES as _IT
        tus[n % ntu].append('  regC20Static<%s, %s, %d, %d>("%s");' % (KINDS[i[0]], _IT[i[1]][2], i[2], i[3], skey(i)))
    for n, i in enumerate(instances()):
        k, t, u, r = i
        tus[n % ntu].append('  regC20<%s, %s, %s>("%s");' % (KINDS[k], cxx_extents(t, [None] * r), cxx_extents(u, [None] * r), key(i)))
    srcs = [('c20_tu%d.cpp' % i, '#include "c20srv.hpp"\nusing namespace vh;\nvoid reg_c20_%d() {\n%s\n}\n' % (i, '\n'.join(b))) for i, b in enumerate(tus)]
    srcs.append(('c20_main.cpp', '#include "vh.hpp"\n' + ''.join('void reg_c20_%d();\n' % i for i in range(ntu)) + 'int main() {\n' + ''.join('  reg_c20_%d();\n' % i for i in range(ntu)) + '  return vh::serve();\n}\n'))
    return srcs
