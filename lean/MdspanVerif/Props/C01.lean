import MdspanVerif.Lemmas.Padded
/-!
# C01 — layout offsets are in range and collision-free for every valid mapping

`Layout.Valid` is the precondition under which the library promises a unique
mapping: nothing for left/right, the stride precondition for layout_stride (in
the generalised chain form implied by the standard's), "padded stride ≥ padded
extent" for the padded layouts.
-/
namespace Mdspan

def Layout.Valid : Layout → Prop
  | .left _ | .right _ => True
  | .stride es ss => ValidStrides es ss
  | .lpad es ps => PadOKLeft ps es
  | .rpad es ps => PadOKRight ps es

/-- every mapping is strided with its own `strides()` (C02 / C07 `is_strided`) -/
theorem offset_eq_dot (L : Layout) (is : List Nat) (h : is.length = L.extents.length) :
    L.offset is = dot is L.strides := by
  cases L with
  | left es => exact leftOff_eq_dot es is h
  | right es => exact rightOff_eq_dot es is h
  | stride es ss => rfl
  | lpad es ps => exact lpadOff_eq_dot ps es is h
  | rpad es ps => exact rpadOff_eq_dot ps es is h

/-- the strides of a valid mapping over a non-empty index space satisfy the generalised chain -/
theorem valid_strides (L : Layout) (hv : L.Valid) (hpos : ∀ e ∈ L.extents, 0 < e) :
    ValidStrides L.extents L.strides := by
  cases L with
  | left es => exact valid_left_le es es (leL_refl es) hpos
  | right es => exact valid_right_le es es (leL_refl es) hpos
  | stride es ss => exact hv
  | lpad es ps =>
    match es, hv, hpos with
    | [], _, _ => exact ⟨rfl, [], List.Perm.refl _, trivial⟩
    | [e], _, hpos =>
      exact ⟨rfl, [(e, 1)], List.Perm.refl _, ⟨Or.inr (by simp [spanM1]), trivial⟩⟩
    | e :: e' :: es, hv, hpos =>
      have hle : LeL (e :: e' :: es) (replaceHead ps (e :: e' :: es)) := by
        rcases hv with h | h
        · simp at h; omega
        · exact h
      show ValidStrides (e :: e' :: es) (lpadStrides ps (e :: e' :: es))
      rw [lpadStrides_eq]
      exact valid_left_le _ _ hle hpos
  | rpad es ps =>
    match es, hv, hpos with
    | [], _, _ => exact ⟨rfl, [], List.Perm.refl _, trivial⟩
    | [e], _, hpos =>
      exact ⟨rfl, [(e, 1)], List.Perm.refl _, ⟨Or.inr (by simp [spanM1]), trivial⟩⟩
    | e :: e' :: es, hv, hpos =>
      have hle : LeL (e :: e' :: es) (replaceLast ps (e :: e' :: es)) := by
        rcases hv with h | h
        · simp at h; omega
        · exact h
      show ValidStrides (e :: e' :: es) (rpadStrides ps (e :: e' :: es))
      exact valid_right_le _ _ hle hpos

/-- **C01 (injectivity).** Two different multi-indices inside the extents are never mapped
    to the same offset — every layout, every rank, every extents, every valid stride tuple
    and padding. -/
theorem C01_inj (L : Layout) (hv : L.Valid) (is js : List Nat)
    (hi : InB is L.extents) (hj : InB js L.extents) (h : L.offset is = L.offset js) : is = js := by
  have hpos := inB_pos is L.extents hi
  rw [offset_eq_dot L is (inB_length _ _ hi), offset_eq_dot L js (inB_length _ _ hj)] at h
  exact dot_inj L.extents L.strides is js (valid_strides L hv hpos) hi hj h

/-- the span every layout reports covers `1 + Σ (e-1)·s` of its own strides -/
theorem span_ge (L : Layout) (hv : L.Valid) (hpos : ∀ e ∈ L.extents, 0 < e) :
    spanM1 (List.zip L.extents L.strides) + 1 ≤ L.span := by
  cases L with
  | left es =>
    have := span_left_le 1 es es (leL_refl es) hpos
    simpa [Layout.span, spanLR, Layout.strides, Layout.extents, leftStrides] using this
  | right es =>
    exact span_right_le es es (leL_refl es) hpos
  | stride es ss =>
    have := spanStrideGo_pos 1 es ss hpos hv.1
    simp only [Layout.span, Layout.extents, Layout.strides, spanStride, this]; omega
  | lpad es ps =>
    match es, hv, hpos with
    | [], _, _ => simp [Layout.span, Layout.extents, Layout.strides, lpadSpan, lpadStrides, spanM1]
    | [e], _, hpos =>
      have := hpos e (by simp [Layout.extents])
      simp [Layout.span, Layout.extents, Layout.strides, lpadSpan, lpadStrides, spanM1]; omega
    | e :: e' :: es, hv, hpos =>
      have hle : LeL (e :: e' :: es) (replaceHead ps (e :: e' :: es)) := by
        rcases hv with h | h
        · simp at h; omega
        · exact h
      have := span_left_le 1 _ _ hle hpos
      simp only [Layout.span, Layout.extents, Layout.strides, lpadSpan]
      rw [lpadStrides_eq]
      simpa [leftStrides, replaceHead, prod] using this
  | rpad es ps =>
    match es, hv, hpos with
    | [], _, _ => simp [Layout.span, Layout.extents, Layout.strides, rpadSpan, rpadStrides, spanM1]
    | [e], _, hpos =>
      have := hpos e (by simp [Layout.extents])
      simp [Layout.span, Layout.extents, Layout.strides, rpadSpan, rpadStrides, spanM1]; omega
    | e :: e' :: es, hv, hpos =>
      have hle : LeL (e :: e' :: es) (replaceLast ps (e :: e' :: es)) := by
        rcases hv with h | h
        · simp at h; omega
        · exact h
      have := span_right_le _ _ hle hpos
      simp only [Layout.span, Layout.extents, Layout.strides, rpadSpan, rpadStrides]
      rw [prod_replaceLast ps 1 (e :: e' :: es) (by simp)]
      simpa using this

/-- **C01 (range).** Every multi-index inside the extents is mapped below
    `required_span_size()`. -/
theorem C01_range (L : Layout) (hv : L.Valid) (is : List Nat) (hi : InB is L.extents) :
    L.offset is < L.span := by
  have hpos := inB_pos is L.extents hi
  have hvs := valid_strides L hv hpos
  rw [offset_eq_dot L is (inB_length _ _ hi)]
  have h1 := dot_le_spanM1 is L.extents L.strides hi hvs.1
  have h2 := span_ge L hv hpos
  omega

/-! Non-vacuity: concrete valid mappings with non-trivial index spaces. -/
example : (Layout.stride [2, 3, 2] [20, 1, 5]).Valid := by
  refine ⟨rfl, [(2, 20), (2, 5), (3, 1)], ?_, ?_⟩
  · decide
  · simp [DescC, spanM1]
example : InB [1, 2, 1] (Layout.stride [2, 3, 2] [20, 1, 5]).extents := by simp [Layout.extents, InB]
example : (Layout.lpad [5, 2, 3] 8).Valid := by simp [Layout.Valid, padOKLeft_iff]
example : (Layout.rpad [2, 3, 5] 8).Valid := by
  simp [Layout.Valid, PadOKRight, replaceLast, LeL]

end Mdspan
