import MdspanVerif.Model.Types
/-!
# C16 (extents part) — participation and explicitness follow the specification, and
# "explicit" means exactly "the conversion has a precondition"
-/
namespace Mdspan

/-- spec: equal rank and compatible static extents -/
def Spec.extConstructible (dst src : ExtT) : Prop :=
  dst.pat.length = src.pat.length ∧
  ∀ (r a b : Nat), dst.pat[r]? = some (some a) → src.pat[r]? = some (some b) → a = b

theorem checkCompatible_iff : ∀ (l r : Pattern), l.length = r.length →
    (Impl.checkCompatible l r = true ↔
      ∀ (k a b : Nat), l[k]? = some (some a) → r[k]? = some (some b) → a = b)
  | [], [], _ => by simp [Impl.checkCompatible]
  | x :: l, y :: r, h => by
    have ih := checkCompatible_iff l r (by simpa using h)
    simp only [Impl.checkCompatible, Bool.and_eq_true, ih]
    constructor
    · intro ⟨h0, hr⟩ k a b ha hb
      cases k with
      | zero =>
        simp at ha hb; subst ha; subst hb
        simpa [Impl.compatible1] using h0
      | succ k => exact hr k a b (by simpa using ha) (by simpa using hb)
    · intro hall
      constructor
      · cases x with
        | none => rfl
        | some a => cases y with
          | none => rfl
          | some b => simp [Impl.compatible1, hall 0 a b (by simp) (by simp)]
      · intro k a b ha hb; exact hall (k + 1) a b (by simpa using ha) (by simpa using hb)
  | [], _ :: _, h => by simp at h
  | _ :: _, [], h => by simp at h

/-- **C16 (extents, participation)** for every rank -/
theorem C16_ext_constructible (dst src : ExtT) :
    Impl.extConstructible dst src = true ↔ Spec.extConstructible dst src := by
  unfold Impl.extConstructible Spec.extConstructible
  by_cases h : dst.pat.length = src.pat.length
  · simp only [h, beq_self_eq_true, if_true, true_and]
    exact checkCompatible_iff _ _ h
  · have : (dst.pat.length == src.pat.length) = false := by simp [h]
    simp [this, h]

/-- spec: a dynamic extent becomes static, or the index range narrows -/
def Spec.extExplicit (dst src : ExtT) : Prop :=
  (∃ r : Nat, (∃ s : Nat, dst.pat[r]? = some (some s)) ∧ src.pat[r]? = some none) ∨ dst.idx.hi < src.idx.hi

theorem explicitFold_iff : ∀ (l r : Pattern),
    (Impl.explicitFold l r = true ↔ ∃ k : Nat, (∃ s : Nat, l[k]? = some (some s)) ∧ r[k]? = some none)
  | [], r => by simp [Impl.explicitFold]
  | _ :: _, [] => by simp [Impl.explicitFold]
  | x :: l, y :: r => by
    have ih := explicitFold_iff l r
    simp only [Impl.explicitFold, Bool.or_eq_true, Bool.and_eq_true, ih]
    constructor
    · rintro (⟨hx, hy⟩ | ⟨k, hk⟩)
      · refine ⟨0, ?_, ?_⟩
        · cases x <;> simp at hx ⊢
        · cases y <;> simp at hy ⊢
      · exact ⟨k + 1, by simpa using hk.1, by simpa using hk.2⟩
    · rintro ⟨k, ⟨s, hs⟩, hn⟩
      cases k with
      | zero => left; simp at hs hn; subst hs; subst hn; simp
      | succ k => right; exact ⟨k, ⟨s, by simpa using hs⟩, by simpa using hn⟩

/-- **C16 (extents, explicitness)** for every rank -/
theorem C16_ext_explicit (dst src : ExtT) :
    Impl.extExplicit dst src = true ↔ Spec.extExplicit dst src := by
  unfold Impl.extExplicit Spec.extExplicit
  simp only [Bool.or_eq_true, decide_eq_true_eq, explicitFold_iff]

/-- **why implicit is safe**: among constructible pairs, an implicit conversion has no
    precondition — every extents value of the source type is a value of the target type.
    (The converse does not hold: a narrowing conversion from an all-static source is explicit
    although it cannot fail.) -/
theorem implicit_total (dst src : ExtT) (hc : Spec.extConstructible dst src)
    (hne : ¬ Spec.extExplicit dst src) (vals : List Nat) (hv : src.Holds vals) : dst.Holds vals := by
  have hno : ∀ (r s : Nat), dst.pat[r]? = some (some s) → ∃ b, src.pat[r]? = some (some b) := by
    intro r s hs
    have hlt : r < src.pat.length := by
      rw [← hc.1]; exact (List.getElem?_eq_some_iff.mp hs).1
    cases hsr : src.pat[r]? with
    | none => simp [List.getElem?_eq_none_iff] at hsr; omega
    | some o =>
      cases o with
      | none => exact absurd (Or.inl ⟨r, ⟨s, hs⟩, hsr⟩) hne
      | some b => exact ⟨b, rfl⟩
  refine ⟨by rw [hv.1, hc.1], ?_, ?_⟩
  · intro r s hs
    obtain ⟨b, hb⟩ := hno r s hs
    rw [hv.2.1 r b hb, hc.2 r s b hs hb]
  · intro v hvm
    have := hv.2.2 v hvm
    have hidx : src.idx.hi ≤ dst.idx.hi := by
      by_cases h : dst.idx.hi < src.idx.hi
      · exact absurd (Or.inr h) hne
      · omega
    omega

end Mdspan
