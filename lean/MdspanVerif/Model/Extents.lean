/-!
# Pure mirror of `extents<IndexType, Extents...>` (maybe_static_array)

Only the run-time values of the dynamic positions are stored; position `r` finds its slot by
counting the dynamic positions before it (`index_sequence_scan_impl`).
-/
namespace Mdspan

/-- `none` = `dynamic_extent` -/
abbrev Pattern := List (Option Nat)

def rankDyn (p : Pattern) : Nat := (p.filter Option.isNone).length

/-- `dyn_map_t::get(r)`: number of dynamic positions before `r` -/
def dynSlot (p : Pattern) (r : Nat) : Nat := ((p.take r).filter Option.isNone).length

structure Ext where
  pat : Pattern
  dyn : List Int
deriving Repr, DecidableEq

def Ext.rank (x : Ext) : Nat := x.pat.length
def Ext.staticExtent (x : Ext) (r : Nat) : Option Nat := (x.pat[r]?).getD none

/-- `maybe_static_array::value(r)` -/
def Ext.extent (x : Ext) (r : Nat) : Int :=
  match x.pat[r]? with
  | some (some s) => s
  | some none => x.dyn.getD (dynSlot x.pat r) 0
  | none => 0

/-- constructor from the dynamic values only -/
def Ext.fromDyn (p : Pattern) (vals : List Int) : Ext := ⟨p, vals⟩

/-- the "all values" constructors: `for r: if static(r)==dyn: m_dyn_vals[dyn_map(r)] = values[r]`,
    the scan value carried along as `k` -/
def fillGo : Pattern → List Int → Nat → List Int → List Int
  | none :: p, v :: vs, k, dyn => fillGo p vs (k + 1) (dyn.set k v)
  | some _ :: p, _ :: vs, k, dyn => fillGo p vs k dyn
  | _, _, _, dyn => dyn
def Ext.fromAll (p : Pattern) (vals : List Int) : Ext :=
  ⟨p, fillGo p vals 0 (List.replicate (rankDyn p) 0)⟩

/-- constructor selection by argument count, as the `requires` clauses do -/
def Ext.ctor (p : Pattern) (vals : List Int) : Ext :=
  if vals.length = rankDyn p then Ext.fromDyn p vals else Ext.fromAll p vals

/-- converting constructor: gathers `other.extent(R)` at the dynamic positions of the target -/
def convGo (src : Ext) : Pattern → Nat → List Int
  | [], _ => []
  | none :: p, r => src.extent r :: convGo src p (r + 1)
  | some _ :: p, r => convGo src p (r + 1)
def Ext.conv (p : Pattern) (src : Ext) : Ext := ⟨p, convGo src p 0⟩

end Mdspan
