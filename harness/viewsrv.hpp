// mdspan op family: construction paths, copy/move/assign/swap/convert on a pool, observers, access forms
#pragma once
#include "mapsrv.hpp"
#include <optional>
#include <sys/mman.h>
#if defined(__cpp_lib_span) || __cplusplus >= 202002L
#include <span>
#define VH_HAS_SPAN 1
#endif
namespace vh {

// ---- element storage: one mmap'ed region, optionally PROT_NONE while no access is expected
struct Arena {
  int* base = nullptr; size_t n = 2048; size_t bytes = 0; bool prot = false;
  Arena() { bytes = ((n * sizeof(int) + 4095) / 4096) * 4096; base = static_cast<int*>(mmap(nullptr, bytes, PROT_READ | PROT_WRITE, MAP_PRIVATE | MAP_ANONYMOUS, -1, 0)); reset(); }
  void reset() { unprotect(); for (size_t i = 0; i < n; i++) base[i] = static_cast<int>(1000000 + i); }
  void protect() { mprotect(base, bytes, PROT_NONE); prot = true; }
  void unprotect() { mprotect(base, bytes, PROT_READ | PROT_WRITE); prot = false; }
};
inline Arena& arena() { static Arena a; return a; }
inline std::vector<std::pair<long long, long long>>& accessLog() { static std::vector<std::pair<long long, long long>> l; return l; }

// ---- a stateful accessor that logs every access()/offset() call
template <class T> struct StAcc {
  using offset_policy = StAcc; using element_type = T; using reference = T&; using data_handle_type = T*;
  int id = 0;
  constexpr StAcc() noexcept = default;
  constexpr explicit StAcc(int i) noexcept : id(i) {}
  template <class U, class = std::enable_if_t<std::is_convertible<U (*)[], T (*)[]>::value>> constexpr StAcc(const StAcc<U>& o) noexcept : id(o.id) {}
  reference access(data_handle_type p, size_t i) const noexcept { accessLog().push_back({static_cast<long long>(p - const_cast<const int*>(arena().base)), static_cast<long long>(i)}); return p[i]; }
  data_handle_type offset(data_handle_type p, size_t i) const noexcept { accessLog().push_back({-1 - static_cast<long long>(p - const_cast<const int*>(arena().base)), static_cast<long long>(i)}); return p + i; }
};
template <class A> int accId(const A&) { return -1; }
template <class T> int accId(const StAcc<T>& a) { return a.id; }

// a class type convertible to an index type (nothrow)
template <class I> struct IdxLike { I v; constexpr operator I() const noexcept { return v; } };

#if MDSPAN_USE_BRACKET_OPERATOR
#define VH_AT(m, ...) m[__VA_ARGS__]
#else
#define VH_AT(m, ...) m(__VA_ARGS__)
#endif

template <class MDS> std::string obsView(const MDS& m) {
  using I = typename MDS::index_type; constexpr size_t R = MDS::rank();
  std::string s = "h=" + std::to_string(static_cast<long long>(m.data_handle() - const_cast<const int*>(arena().base)));
  s += " e=" + extList(m.extents()) + " s=";
  std::array<I, R> st{}; if constexpr (R > 0) for (size_t r = 0; r < R; r++) st[r] = m.stride(r);
  s += list(st) + " acc=" + std::to_string(accId(m.accessor()));
  s += " sz=" + num(m.size()) + " emp=" + num(m.empty());
  s += " fl=" + num(m.is_unique()) + num(m.is_exhaustive()) + num(m.is_strided()) + num(MDS::is_always_unique()) + num(MDS::is_always_exhaustive()) + num(MDS::is_always_strided());
  s += " rk=" + std::to_string(MDS::rank()) + "," + std::to_string(MDS::rank_dynamic());
  // forwarders must agree with the mapping / extents
  bool fw = true;
  if constexpr (R > 0) for (size_t r = 0; r < R; r++) fw = fw && m.extent(r) == m.extents().extent(r) && MDS::static_extent(r) == MDS::extents_type::static_extent(r) && m.stride(r) == m.mapping().stride(r);
  fw = fw && m.is_exhaustive() == m.mapping().is_exhaustive() && m.is_unique() == m.mapping().is_unique() && m.is_strided() == m.mapping().is_strided();
  s += " fw=" + num(fw);
  return s;
}

template <class MDS, class S, size_t... K> auto atPack(const MDS& m, const std::vector<long long>& v, std::index_sequence<K...>) -> decltype(&VH_AT(m, static_cast<S>(v[K])...)) {
  return &VH_AT(m, static_cast<S>(v[K])...);
}
template <class MDS, class S, size_t... K> auto atCls(const MDS& m, const std::vector<long long>& v, std::index_sequence<K...>) {
  return &VH_AT(m, IdxLike<S>{static_cast<S>(v[K])}...);
}
template <class MDS, class S> const int* atForm(const MDS& m, const std::string& form, const std::vector<long long>& v) {
  constexpr size_t R = MDS::rank();
  if (form == "pack") return atPack<MDS, S>(m, v, std::make_index_sequence<R>());
  if (form == "cls") return atCls<MDS, S>(m, v, std::make_index_sequence<R>());
  std::array<S, R> a{}; for (size_t k = 0; k < R; k++) a[k] = static_cast<S>(v[k]);
  if (form == "arr") {
#if MDSPAN_USE_BRACKET_OPERATOR
    return &m[a];
#else
    return &m(a);
#endif
  }
#ifdef VH_HAS_SPAN
  if (form == "span") {
    std::span<S, R> sp(a.data(), R);
#if MDSPAN_USE_BRACKET_OPERATOR
    return &m[sp];
#else
    return &m(sp);
#endif
  }
#endif
  return nullptr;
}
template <class MDS> const int* atTyped(const MDS& m, const std::string& form, const std::string& ity, const std::vector<long long>& v) {
  if (ity == "i8") return atForm<MDS, signed char>(m, form, v);
  if (ity == "u8") return atForm<MDS, unsigned char>(m, form, v);
  if (ity == "i16") return atForm<MDS, short>(m, form, v);
  if (ity == "u16") return atForm<MDS, unsigned short>(m, form, v);
  if (ity == "i32") return atForm<MDS, int>(m, form, v);
  if (ity == "u32") return atForm<MDS, unsigned>(m, form, v);
  if (ity == "i64") return atForm<MDS, long>(m, form, v);
  if (ity == "u64") return atForm<MDS, unsigned long>(m, form, v);
  return nullptr;
}

template <class E, class S, size_t... K> auto packExt(const std::vector<long long>& v, std::index_sequence<K...>) { return std::make_tuple(static_cast<S>(v[K])...); }


template <Kind K, class E, size_t SP, class A, class MDS2> void regView(const std::string& key) {
  using M = typename MapOf<K, E, SP>::type; using I = typename E::index_type;
  using L = typename M::layout_type; using MDS = md::mdspan<int, E, L, A>;
  registry()[key] = [](const Op& o) -> std::string {
    std::optional<MDS> pool[4]; std::optional<MDS2> pool2[2];
    arena().reset(); accessLog().clear();
    std::string out; bool first = true;
    auto emit = [&](const std::string& s) { if (!first) out += " | "; out += s; first = false; };
    int* base = arena().base;
    for (const std::string& cmd : splitStr(o.get("seq"), '/')) {
      auto a = splitStr(cmd, ':'); const std::string& c = a[0];
      auto num_ = [&](size_t k) { return k < a.size() ? parseNum(a[k]) : 0LL; };
      auto lst = [&](size_t k) { return k < a.size() ? parseList(a[k]) : std::vector<long long>(); };
      if (c == "pr") { arena().protect(); continue; }
      if (c == "un") { arena().unprotect(); continue; }
      if (c == "cpd" || c == "cpa" || c == "cad" || c == "caa" || c == "csd" || c == "csa") {
        if constexpr (std::is_constructible_v<M, E> && std::is_default_constructible_v<A>) {
          size_t s = num_(1); int* p = base + num_(2); auto v = lst(3);
          constexpr size_t ND = E::rank_dynamic(), NA = E::rank();
          bool dyn = c[2] == 'd'; if (v.size() != (dyn ? ND : NA)) { emit("bad-args"); continue; }
          if (c[1] == 'p') {
            if (dyn) std::apply([&](auto... x) { pool[s].emplace(p, x...); }, packExt<E, I>(v, std::make_index_sequence<ND>()));
            else std::apply([&](auto... x) { pool[s].emplace(p, x...); }, packExt<E, long>(v, std::make_index_sequence<NA>()));
          } else if (c[1] == 'a') {
            if (dyn) { std::array<I, ND> ar{}; for (size_t k = 0; k < ND; k++) ar[k] = static_cast<I>(v[k]); pool[s].emplace(p, ar); }
            else { std::array<int, NA> ar{}; for (size_t k = 0; k < NA; k++) ar[k] = static_cast<int>(v[k]); pool[s].emplace(MDS(p, ar)); }
          } else {
#ifdef VH_HAS_SPAN
            if (dyn) { std::array<I, ND> ar{}; for (size_t k = 0; k < ND; k++) ar[k] = static_cast<I>(v[k]); pool[s].emplace(p, std::span<I, ND>(ar.data(), ND)); }
            else { std::array<unsigned, NA> ar{}; for (size_t k = 0; k < NA; k++) ar[k] = static_cast<unsigned>(v[k]); pool[s].emplace(MDS(p, std::span<unsigned, NA>(ar.data(), NA))); }
#else
            emit("no-op");
#endif
          }
        } else emit("no-ctor");
        continue;
      }
      if (c == "cex") { if constexpr (std::is_constructible_v<M, const E&> && std::is_default_constructible_v<A>) pool[num_(1)].emplace(base + num_(2), makeExt<E>(o.ext)); else emit("no-ctor"); continue; }
      if (c == "cmp") { if constexpr (std::is_default_constructible_v<A>) pool[num_(1)].emplace(base + num_(2), makeMap<K, E, SP>(o)); continue; }
      if (c == "cma") {
        if constexpr (std::is_constructible_v<A, int>) pool[num_(1)].emplace(base + num_(2), makeMap<K, E, SP>(o), A(static_cast<int>(num_(3))));
        else pool[num_(1)].emplace(base + num_(2), makeMap<K, E, SP>(o), A());
        continue;
      }
      if (c == "cp") { if (pool[num_(2)]) pool[num_(1)].emplace(*pool[num_(2)]); else pool[num_(1)].reset(); continue; }
      if (c == "mv") { if (pool[num_(2)]) pool[num_(1)].emplace(std::move(*pool[num_(2)])); else pool[num_(1)].reset(); continue; }
      if (c == "as") { if (pool[num_(1)] && pool[num_(2)]) *pool[num_(1)] = *pool[num_(2)]; else emit("skip"); continue; }
      if (c == "ma") { if (pool[num_(1)] && pool[num_(2)]) *pool[num_(1)] = std::move(*pool[num_(2)]); else emit("skip"); continue; }
      if (c == "sw") { if (pool[num_(1)] && pool[num_(2)]) swap(*pool[num_(1)], *pool[num_(2)]); else emit("skip"); continue; }
      if (c == "cv") { if (pool[num_(2)]) pool2[num_(1)].emplace(*pool[num_(2)]); else pool2[num_(1)].reset(); continue; }
      if (c == "ob") { emit(pool[num_(1)] ? obsView(*pool[num_(1)]) : "none"); continue; }
      if (c == "o2") { emit(pool2[num_(1)] ? obsView(*pool2[num_(1)]) : "none"); continue; }
      if (c == "at") {
        if (!pool[num_(1)]) { emit("none"); continue; }
        accessLog().clear();
        const int* p = atTyped(*pool[num_(1)], a[2], a[3], lst(4));
        std::string s = p ? "a=" + std::to_string(static_cast<long long>(p - base)) : std::string("no-form");
        if (!accessLog().empty()) s += " log=" + std::to_string(accessLog()[0].first) + "," + std::to_string(accessLog()[0].second) + " n=" + std::to_string(accessLog().size());
        emit(s); continue;
      }
      if (c == "wr") {
        if (!pool[num_(1)]) { emit("none"); continue; }
        int* p = const_cast<int*>(atTyped(*pool[num_(1)], "pack", "i64", lst(3))); *p = static_cast<int>(num_(2)); continue;
      }
      if (c == "df") {
        std::string s = "df="; bool any = false;
        for (size_t i = 0; i < arena().n; i++) if (base[i] != static_cast<int>(1000000 + i)) { if (any) s += ","; s += std::to_string(i) + ":" + std::to_string(base[i]); any = true; }
        if (!any) s += "-";
        emit(s); continue;
      }
      emit("bad-cmd");
    }
    arena().unprotect();
    return out.empty() ? "ok" : out;
  };
}
} // namespace vh
