import MdspanVerif.Model.ElemCv
/-!
# C16 — `default_accessor<T>` converts from `default_accessor<U>` iff `U(*)[]` converts to `T(*)[]`, for every cv combination
-/
namespace Mdspan

/-- the specification: same type up to cv, and no qualifier is dropped -/
def SpecAccCv (d s : ElemCv) : Prop :=
  s.base = d.base ∧ (s.isConst = true → d.isConst = true) ∧ (s.isVolatile = true → d.isVolatile = true)

theorem C16_acc_cv (d s : ElemCv) : accCvConstructible d s = true ↔ SpecAccCv d s := by
  unfold accCvConstructible arrPtrConvertible SpecAccCv
  cases hc : s.isConst <;> cases hv : s.isVolatile <;> cases hdc : d.isConst <;> cases hdv : d.isVolatile <;> simp

/-- implicit whenever it exists (the constructor is not `explicit`) -/
theorem C16_acc_cv_implicit (d s : ElemCv) : accCvConvertible d s = accCvConstructible d s := rfl

/-- reflexive and transitive: a preorder, as a qualification conversion must be -/
theorem accCv_refl (a : ElemCv) : accCvConstructible a a = true := by
  simp [accCvConstructible, arrPtrConvertible]
theorem accCv_trans (a b c : ElemCv) (h1 : accCvConstructible b a = true) (h2 : accCvConstructible c b = true) :
    accCvConstructible c a = true := by
  rw [C16_acc_cv] at *
  obtain ⟨e1, c1, v1⟩ := h1; obtain ⟨e2, c2, v2⟩ := h2
  exact ⟨e1.trans e2, fun h => c2 (c1 h), fun h => v2 (v1 h)⟩

/-- adding `volatile` is accepted, dropping it is not; another base type never converts -/
example : accCvConstructible ⟨0, true, true⟩ ⟨0, false, false⟩ = true ∧ accCvConstructible ⟨0, false, true⟩ ⟨0, false, false⟩ = true ∧
    accCvConstructible ⟨0, true, false⟩ ⟨0, false, true⟩ = false ∧ accCvConstructible ⟨1, true, true⟩ ⟨0, false, false⟩ = false := by decide

end Mdspan
