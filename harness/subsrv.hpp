// submdspan_mapping op family: one closure per (source layout, index type, tuple of slice kinds).
#pragma once
#include "mapsrv.hpp"
#include "viewsrv.hpp"
#include <tuple>
namespace vh {
// slice kinds: i = run-time index, r = std::pair<I,I>, t = std::tuple<I,I>, f = full_extent,
//              s = strided_slice<I,I,I>, I = integral_constant index 1, R = tuple<IC<1>,IC<3>>,
//              S = strided_slice<I, IC<4>, IC<2>> (run-time offset), Q = strided_slice<I, IC<5>, IC<2>>
struct SEN {}; struct SCL {};      // E = unscoped enum index, C = class-type index (convertible to index_type)
enum AxisIdx : int { AxisZero = 0 };
struct SI {}; struct SR {}; struct ST {}; struct SF {}; struct SS {}; struct SCI {}; struct SCR {}; struct SCS {}; struct SCQ {}; struct SCU {}; struct SCZ {};
template <class I> using icI = std::integral_constant<I, 1>;
template <class I> auto mkSlice(SI, const std::vector<long long>& a, size_t& p) { return static_cast<I>(a[p++]); }
template <class I> auto mkSlice(SEN, const std::vector<long long>& a, size_t& p) { return static_cast<AxisIdx>(a[p++]); }
template <class I> auto mkSlice(SCL, const std::vector<long long>& a, size_t& p) { return IdxLike<I>{static_cast<I>(a[p++])}; }
template <class I> auto mkSlice(SR, const std::vector<long long>& a, size_t& p) { I b = static_cast<I>(a[p++]); I e = static_cast<I>(a[p++]); return std::pair<I, I>{b, e}; }
template <class I> auto mkSlice(ST, const std::vector<long long>& a, size_t& p) { I b = static_cast<I>(a[p++]); I e = static_cast<I>(a[p++]); return std::tuple<I, I>{b, e}; }
template <class I> auto mkSlice(SF, const std::vector<long long>&, size_t&) { return md::full_extent; }
template <class I> auto mkSlice(SS, const std::vector<long long>& a, size_t& p) { I o = static_cast<I>(a[p++]); I x = static_cast<I>(a[p++]); I s = static_cast<I>(a[p++]); return md::strided_slice<I, I, I>{o, x, s}; }
template <class I> auto mkSlice(SCI, const std::vector<long long>& a, size_t& p) { p++; return std::integral_constant<I, 1>{}; }
template <class I> auto mkSlice(SCR, const std::vector<long long>& a, size_t& p) { p += 2; return std::tuple<std::integral_constant<I, 1>, std::integral_constant<I, 3>>{}; }
template <class I> auto mkSlice(SCS, const std::vector<long long>& a, size_t& p) { I o = static_cast<I>(a[p++]); p += 2; return md::strided_slice<I, std::integral_constant<I, 4>, std::integral_constant<I, 2>>{o, {}, {}}; }

template <class I> auto mkSlice(SCQ, const std::vector<long long>& a, size_t& p) { I o = static_cast<I>(a[p++]); p += 2; return md::strided_slice<I, std::integral_constant<I, 5>, std::integral_constant<I, 2>>{o, {}, {}}; }
template <class I> auto mkSlice(SCU, const std::vector<long long>& a, size_t& p) { I o = static_cast<I>(a[p++]); I x = static_cast<I>(a[p++]); p++; return md::strided_slice<I, I, std::integral_constant<I, 1>>{o, x, {}}; }
template <class I> auto mkSlice(SCZ, const std::vector<long long>& a, size_t& p) { I o = static_cast<I>(a[p++]); p += 2; return md::strided_slice<I, std::integral_constant<I, 0>, std::integral_constant<I, 2>>{o, {}, {}}; }
template <class MP> struct submdspan_mapping_result_view { MP mapping; size_t offset; };
// ---- a user layout that PROVIDES THE CUSTOMIZATION POINT submdspan_mapping: row-major, and its sub-mapping is the library's result for
//      layout_right with the offset shifted by 7 elements (a decoy: submdspan must use exactly what the customization point returns)
struct ShiftLayout {
  template <class E> struct mapping {
    using extents_type = E; using index_type = typename E::index_type; using size_type = typename E::size_type; using rank_type = typename E::rank_type; using layout_type = ShiftLayout;
    md::layout_right::mapping<E> inner;
    constexpr mapping() noexcept = default;
    constexpr mapping(const E& e) noexcept : inner(e) {}
    constexpr const E& extents() const noexcept { return inner.extents(); }
    constexpr index_type required_span_size() const noexcept { return inner.required_span_size(); }
    template <class... I> constexpr index_type operator()(I... i) const noexcept { return inner(i...); }
    static constexpr bool is_always_unique() noexcept { return true; } static constexpr bool is_always_exhaustive() noexcept { return true; } static constexpr bool is_always_strided() noexcept { return true; }
    static constexpr bool is_unique() noexcept { return true; } static constexpr bool is_exhaustive() noexcept { return true; } static constexpr bool is_strided() noexcept { return true; }
    constexpr index_type stride(rank_type r) const noexcept { return inner.stride(r); }
    template <class F> friend constexpr bool operator==(const mapping& a, const mapping<F>& b) noexcept { return a.inner == b.inner; }
    template <class... Slices> friend constexpr auto submdspan_mapping(const mapping& m, Slices... slices) {
      auto r = submdspan_mapping(m.inner, slices...);
      return md::submdspan_mapping_result<decltype(r.mapping)>{r.mapping, r.offset + 7};
    }
  };
};
template <class E, size_t SP> struct MapOf<KShift, E, SP> { using type = ShiftLayout::mapping<E>; };
template <class M> const char* layoutName() {
  using L = typename M::layout_type;
  return std::is_same_v<L, md::layout_left> ? "left" : std::is_same_v<L, md::layout_right> ? "right" : std::is_same_v<L, md::layout_stride> ? "stride" : "other";
}
template <class E> std::string staticPat() {
  if (E::rank() == 0) return "-";
  std::string s; for (size_t k = 0; k < E::rank(); k++) { if (k) s += ","; s += E::static_extent(k) == md::dynamic_extent ? std::string("D") : std::to_string(E::static_extent(k)); } return s;
}
// enumerate the multi-indices of the result in row-major order (at most cap of them)
template <class SM, size_t... Q> unsigned long long subAt(const SM& sm, const std::vector<long long>& js, std::index_sequence<Q...>) {
  using I = typename SM::index_type; return static_cast<unsigned long long>(static_cast<size_t>(sm(static_cast<I>(js[Q])...)));
}
template <class R> std::string fmtRes(const R& r, const Op& o) {
  using M = decltype(r.mapping); using E = typename M::extents_type; using I = typename M::index_type;
  constexpr size_t N = E::rank();
  if (o.op == "alias") {
    // address (offset from the source handle) of every element of the view, row-major over the result extents
    std::vector<long long> js(N, 0); std::string s = "ok "; size_t count = 0; bool empty = false;
    for (size_t k = 0; k < N; k++) if (r.mapping.extents().extent(k) == 0) empty = true;
    if (empty) return "ok -";
    while (true) {
      unsigned long long a = static_cast<unsigned long long>(r.offset) + subAt(r.mapping, js, std::make_index_sequence<N>());
      if (count) s += ","; s += std::to_string(a); count++;
      if (count >= 4096) break;
      size_t k = N; bool done = true;
      while (k > 0) { k--; if (static_cast<unsigned long long>(++js[k]) < static_cast<unsigned long long>(r.mapping.extents().extent(k))) { done = false; break; } js[k] = 0; }
      if (done) break;
    }
    return s;
  }
  std::string s = "off=" + std::to_string(static_cast<unsigned long long>(r.offset)) + " ext=" + extList(r.mapping.extents());
  s += std::string(" kind=") + layoutName<M>() + " str=";
  std::array<I, N> st{}; if constexpr (N > 0) for (size_t k = 0; k < N; k++) st[k] = r.mapping.stride(k);
  s += list(st);
  s += " span=" + num(static_cast<I>(r.mapping.required_span_size()));
  if (o.op == "type") s += " pat=" + staticPat<E>();
  return s;
}
// arg of a sub line: all slice values flattened, taken from sl=...
inline std::vector<long long> sliceValues(const std::string& sl) {
  std::vector<long long> v; std::stringstream s2(sl); std::string one;
  while (std::getline(s2, one, ';')) { std::stringstream s3(one.size() > 1 ? one.substr(2) : std::string()); std::string x; while (std::getline(s3, x, ':')) if (!x.empty()) v.push_back(parseNum(x)); }
  return v;
}
template <class I, class R1T, size_t... P> std::string chain2(const R1T& r1, const std::vector<long long>& b, const Op& o, std::index_sequence<P...>) {
  auto r2 = submdspan_mapping(r1.mapping, md::strided_slice<I, I, I>{static_cast<I>(b[3 * P]), static_cast<I>(b[3 * P + 1]), static_cast<I>(b[3 * P + 2])}...);
  // report the final view relative to the ROOT handle
  submdspan_mapping_result_view<decltype(r2.mapping)> v{r2.mapping, static_cast<size_t>(r1.offset) + static_cast<size_t>(r2.offset)};
  Op o2 = o; o2.op = "alias"; std::string al = fmtRes(v, o2);
  Op o3 = o; o3.op = "info";
  return fmtRes(v, o3) + " l1off=" + std::to_string(static_cast<unsigned long long>(r1.offset)) + " l1span=" + num(static_cast<I>(r1.mapping.required_span_size())) +
         " l2off=" + std::to_string(static_cast<unsigned long long>(r2.offset)) + " " + al;
}
template <class M, class... K, size_t... Q> std::string doSub(const M& m, const Op& o, std::index_sequence<Q...>) {
  using I = typename M::index_type; size_t p = 0;
  std::vector<long long> a = o.arg;
  // braced initialisation evaluates the slices left to right
  std::tuple<decltype(mkSlice<I>(K{}, a, p))...> tup{mkSlice<I>(K{}, a, p)...};
  if (o.op == "mds") {
    // the mdspan-level submdspan: new handle only through accessor.offset(), accessor = offset_policy(accessor)
    using L = typename M::layout_type; using V = md::mdspan<int, typename M::extents_type, L, StAcc<int>>;
    const long h = static_cast<long>(parseNum(o.get("h"))); const int id = static_cast<int>(parseNum(o.get("id")));
    V src(arena().base + h, m, StAcc<int>(id));
    accessLog().clear();
    auto sub = md::submdspan(src, std::get<Q>(tup)...);
    auto r0 = submdspan_mapping(m, std::get<Q>(tup)...);
    std::string s = "h=" + std::to_string(hOff(sub.data_handle())) + " acc=" + std::to_string(accId(sub.accessor())) + " n=" + std::to_string(accessLog().size());
    if (!accessLog().empty()) s += " log=" + std::to_string(accessLog()[0].first) + "," + std::to_string(accessLog()[0].second);
    s += " same=" + num(sub.mapping() == r0.mapping) + " ext=" + extList(sub.extents());
    return s;
  }
  if (o.op == "ch") {
    // a view of a view: second level = one strided_slice per dimension of the first result (values from sl2=)
    auto r1 = submdspan_mapping(m, std::get<Q>(tup)...);
    using M1 = decltype(r1.mapping); constexpr size_t R1 = M1::extents_type::rank();
    std::vector<long long> b = sliceValues(o.get("sl2"));
    return chain2<I>(r1, b, o, std::make_index_sequence<R1>());
  }
  auto r = submdspan_mapping(m, std::get<Q>(tup)...);
  std::string s = fmtRes(r, o);
  if (o.op != "alias") s += " sspan=" + num(static_cast<I>(m.required_span_size()));
  return s;
}
template <Kind KD, class E, class... K> void regSub(const std::string& key) {
  registry()[key] = [](const Op& o0) -> std::string {
    Op o = o0; o.arg = sliceValues(o.get("sl"));
    auto m = makeMap<KD, E, md::dynamic_extent>(o);
    return doSub<decltype(m), K...>(m, o, std::make_index_sequence<sizeof...(K)>());
  };
}
} // namespace vh
