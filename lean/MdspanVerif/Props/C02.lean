import MdspanVerif.Props.C01
/-!
# C02 — each layout computes exactly its specified offset formula and strides
-/
namespace Mdspan

/-- `stride(r)` of layout_right is the product of the extents to the right of `r` -/
theorem rightStrides_get : ∀ (es : List Nat) (r : Nat), r < es.length →
    (rightStrides es)[r]? = some (prod (es.drop (r + 1)))
  | e :: es, 0, _ => by simp [rightStrides]
  | e :: es, r + 1, h => by
    simp only [rightStrides, List.getElem?_cons_succ, List.drop_succ_cons]
    exact rightStrides_get es r (by simpa using h)
  | [], _, h => by simp at h

theorem leftStridesFrom_get : ∀ (p : Nat) (es : List Nat) (r : Nat), r < es.length →
    (leftStridesFrom p es)[r]? = some (p * prod (es.take r))
  | p, e :: es, 0, _ => by simp [leftStridesFrom, prod]
  | p, e :: es, r + 1, h => by
    simp only [leftStridesFrom, List.getElem?_cons_succ, List.take_succ_cons, prod]
    rw [leftStridesFrom_get (p * e) es r (by simpa using h), Nat.mul_assoc]
  | _, [], _, h => by simp at h

/-- `stride(r)` of layout_left is the product of the extents to the left of `r` -/
theorem leftStrides_get (es : List Nat) (r : Nat) (h : r < es.length) :
    (leftStrides es)[r]? = some (prod (es.take r)) := by
  rw [leftStrides, leftStridesFrom_get 1 es r h, Nat.one_mul]

/-- the `stride(r)` member functions agree with `strides()` -/
theorem rightStride_eq (es : List Nat) (r : Nat) (h : r < es.length) :
    (rightStrides es)[r]? = some (rightStride es r) := rightStrides_get es r h
theorem leftStride_eq (es : List Nat) (r : Nat) (h : r < es.length) :
    (leftStrides es)[r]? = some (leftStride es r) := leftStrides_get es r h

/-- **C02, layout_right**: offset = Σ_r i_r · Π_{k>r} e_k -/
theorem C02_right (es is : List Nat) (h : is.length = es.length) :
    (Layout.right es).offset is = dot is (rightStrides es) := rightOff_eq_dot es is h
/-- **C02, layout_left**: offset = Σ_r i_r · Π_{k<r} e_k -/
theorem C02_left (es is : List Nat) (h : is.length = es.length) :
    (Layout.left es).offset is = dot is (leftStrides es) := leftOff_eq_dot es is h
/-- **C02, layout_stride** uses exactly the strides it was given -/
theorem C02_stride (es ss is : List Nat) : (Layout.stride es ss).offset is = dot is ss := rfl

/-! ### the padded stride: least multiple of the padding not smaller than the extent -/

theorem findNextMultiple_zero_pad (o : Nat) : findNextMultiple 0 o = 0 := by simp [findNextMultiple]

theorem findNextMultiple_spec (a o : Nat) (ha : 0 < a) :
    a ∣ findNextMultiple a o ∧ o ≤ findNextMultiple a o ∧
      ∀ m, a ∣ m → o ≤ m → findNextMultiple a o ≤ m := by
  have hne : a ≠ 0 := by omega
  have hdm := Nat.div_add_mod o a
  have hml := Nat.mod_lt o ha
  simp only [findNextMultiple, hne, if_false]
  refine ⟨Nat.dvd_mul_left _ _, ?_, ?_⟩
  · by_cases hm : o % a = 0
    · simp only [hm, ne_eq, not_true_eq_false, if_false, Nat.add_zero]
      rw [Nat.mul_comm]; omega
    · simp only [hm, ne_eq, not_false_eq_true, if_true, Nat.add_mul, Nat.one_mul]
      rw [Nat.mul_comm]; omega
  · intro m ⟨k, hk⟩ hle
    subst hk
    by_cases hm : o % a = 0
    · simp only [hm, ne_eq, not_true_eq_false, if_false, Nat.add_zero]
      rw [Nat.mul_comm]
      exact Nat.mul_le_mul_left _ (by
        apply (Nat.div_le_iff_le_mul_add_pred ha).mpr
        omega)
    · simp only [hm, ne_eq, not_false_eq_true, if_true]
      rw [Nat.mul_comm]
      apply Nat.mul_le_mul_left
      -- o / a < k because a*k ≥ o > a*(o/a)
      have hne' : o ≠ a * k := fun h => hm (by rw [h]; exact Nat.mul_mod_right a k)
      have : o / a < k := by
        apply (Nat.div_lt_iff_lt_mul ha).mpr
        rw [Nat.mul_comm]; omega
      omega

/-- padding an empty extent gives an empty padded stride (used by C05) -/
theorem findNextMultiple_zero (a : Nat) : findNextMultiple a 0 = 0 := by
  simp [findNextMultiple]

/-- the expression on the pinned tree agrees with the repaired one on unbounded naturals;
    they differ only in machine arithmetic (F3) -/
theorem findNextMultipleOrig_eq (a o : Nat) : findNextMultipleOrig a o = findNextMultiple a o := by
  by_cases ha : a = 0
  · simp [findNextMultipleOrig, findNextMultiple, ha]
  · have hpos : 0 < a := Nat.pos_of_ne_zero ha
    simp only [findNextMultipleOrig, findNextMultiple, ha, if_false]
    congr 1
    have hdm := Nat.div_add_mod o a
    have hml := Nat.mod_lt o hpos
    by_cases hm : o % a = 0
    · simp only [hm, ne_eq, not_true_eq_false, if_false, Nat.add_zero]
      have h1 : o + a - 1 = a * (o / a) + (a - 1) := by omega
      have h2 : (a - 1) / a = 0 := Nat.div_eq_of_lt (by omega)
      rw [h1, Nat.mul_add_div hpos, h2]; omega
    · simp only [hm, ne_eq, not_false_eq_true, if_true]
      have hp : 0 < o % a := Nat.pos_of_ne_zero hm
      have h0 : a * (o / a + 1) = a * (o / a) + a := by rw [Nat.mul_add, Nat.mul_one]
      have h1 : o + a - 1 = a * (o / a + 1) + (o % a - 1) := by omega
      have h2 : (o % a - 1) / a = 0 := Nat.div_eq_of_lt (by omega)
      rw [h1, Nat.mul_add_div hpos, h2]

/-- **C02, padded layouts**: same products with the padded extent replaced by `ps`;
    no padding for rank 0 and 1. -/
theorem C02_lpad (ps : Nat) (es is : List Nat) (h : is.length = es.length) :
    (Layout.lpad es ps).offset is = dot is (lpadStrides ps es) := lpadOff_eq_dot ps es is h
theorem C02_rpad (ps : Nat) (es is : List Nat) (h : is.length = es.length) :
    (Layout.rpad es ps).offset is = dot is (rpadStrides ps es) := rpadOff_eq_dot ps es is h
theorem C02_lpad_rank1 (ps e i : Nat) : (Layout.lpad [e] ps).offset [i] = i := rfl
theorem C02_rpad_rank1 (ps e i : Nat) : (Layout.rpad [e] ps).offset [i] = i := rfl
theorem lpadStrides_ge2 (ps e e' : Nat) (es : List Nat) :
    lpadStrides ps (e :: e' :: es) = leftStrides (ps :: e' :: es) := lpadStrides_eq ps e e' es

end Mdspan
