"""Generates the extents op server: construction paths x patterns x index types, conversion / comparison pairs."""
import itertools, random
from vf.common import ITYPES
from harness.gen_map import cxx_extents, pat_str

PATHS = {'pack_dyn': 'PackDyn', 'pack_all': 'PackAll', 'array_dyn': 'ArrayDyn', 'array_all': 'ArrayAll', 'span_dyn': 'SpanDyn', 'span_all': 'SpanAll'}

def all_patterns(r):
    return [tuple((k + 2) if b else None for k, b in enumerate(bits)) for bits in itertools.product([0, 1], repeat=r)]

def ctor_instances():
    out = []
    for t in ITYPES:
        srcs = [t, 'i64' if t == 'i32' else 'i32', 'u8' if t == 'u64' else 'u64']
        for r in range(0, 4):
            for pat in all_patterns(r):
                for s in srcs:
                    for path in PATHS: out.append((t, s, pat, path))
    for t in ('i32', 'u8'):
        for pat in all_patterns(4):
            for path in PATHS: out.append((t, t, pat, path))
    r5 = random.Random(505)
    for r in (5, 6):
        for pat in r5.sample(all_patterns(r), 7) + [tuple([None] * r)]:
            for path in PATHS: out.append(('i32', 'i32', pat, path))
    # static extents equal to the largest value of a narrow index type
    from vf.common import hi
    for t in ('u8', 'u16', 'u32', 'i8', 'i16'):
        H = hi(t)
        for pat in ((H,), (H, None), (None, H, None), (H, H)):
            for path in PATHS: out.append((t, t, pat, path))
    return out

def pair_instances():
    """ordered pairs ((T, patT), (U, patU)); fixed pseudo-random selection so that the build is cacheable"""
    rnd = random.Random(606)
    types = []
    for r in range(0, 4):
        for pat in all_patterns(r):
            for t in ITYPES: types.append((t, pat))
    out = set()
    while len(out) < 420:
        a = rnd.choice(types)
        if rnd.random() < 0.75:
            # same rank, compatible statics (b static where a static => same value by construction of all_patterns)
            r = len(a[1]); b = (rnd.choice(list(ITYPES)), rnd.choice(all_patterns(r)))
        else: b = rnd.choice(types)
        out.add((a, b))
    res = sorted(out, key=str)
    # higher ranks (4-7): the slot bookkeeping of the converting constructor and of operator== over many dynamic positions
    r2 = random.Random(707); hi_ = []
    for r in (4, 5, 6, 7):
        pats = all_patterns(r)
        for _ in range(9):
            pa = r2.choice(pats); pb = r2.choice(pats + [tuple([None] * r)] * 8)
            if r2.random() < 0.5: pa = tuple(x if r2.random() < 0.25 else None for x in pa)      # mostly dynamic target with a few statics
            hi_.append(((r2.choice(['i32', 'u8', 'i64']), pa), (r2.choice(['i32', 'u16', 'i64']), pb)))
        hi_.append((('i32', tuple([2] + [None] * (r - 1))), ('i32', tuple([None] * r))))
        hi_.append((('i64', tuple([None, 3] + [None] * (r - 2))), ('i32', tuple([None] * r))))
    seen = set(res)
    for p in hi_:
        if p not in seen: seen.add(p); res.append(p)
    return res

def ckey(i): return 'ext:%s:%s:%s:%s' % (i[0], i[1], pat_str(i[2]), i[3])
def cline(i): return 'ext %s %s pat=%s k=%s' % (i[0], i[1], pat_str(i[2]), i[3])
def pkey(kind, p): return '%s:%s:%s:%s:%s' % (kind, p[0][0], p[1][0], pat_str(p[0][1]), pat_str(p[1][1]))
def pline(kind, p): return '%s %s %s pat=%s spat=%s' % (kind, p[0][0], p[1][0], pat_str(p[0][1]), pat_str(p[1][1]))

def sources(ntu=16):
    tus = [[] for _ in range(ntu)]
    for n, i in enumerate(ctor_instances()):
        tus[n % ntu].append('  regExt<%s, %s, %s>("%s");' % (cxx_extents(i[0], i[2]), ITYPES[i[1]][2], PATHS[i[3]], ckey(i)))
    for n, p in enumerate(pair_instances()):
        tus[n % ntu].append('  regExtPair<%s, %s>("%s", "%s");' % (cxx_extents(p[0][0], p[0][1]), cxx_extents(p[1][0], p[1][1]), pkey('extconv', p), pkey('exteq', p)))
    srcs = []
    for i, body in enumerate(tus):
        srcs.append(('ext_tu%d.cpp' % i, '#include "extsrv.hpp"\nusing namespace vh;\nvoid reg_ext_%d() {\n%s\n}\n' % (i, '\n'.join(body))))
    main = '#include "vh.hpp"\n' + ''.join('void reg_ext_%d();\n' % i for i in range(ntu)) + 'int main() {\n' + ''.join('  reg_ext_%d();\n' % i for i in range(ntu)) + '  return vh::serve();\n}\n'
    srcs.append(('ext_main.cpp', main))
    return srcs
