import MdspanVerif.Model.Mdarray
import MdspanVerif.Props.C07
/-!
# C12 — mdarray owns a large-enough container, accesses it through its mapping, aliases with
its own views only, copies deeply and moves by transfer
-/
namespace Mdspan

/-! ## value layer -/

/-- size-constructible container: exactly `required_span_size()` elements -/
theorem C12_ctor_size_vector (L : Layout) :
    (Mdarray.ofMapping .vector L).containerSize = L.span := by
  simp [Mdarray.ofMapping, Mdarray.containerSize, CtrKind.initLen]

/-- `std::array<T,N>` container: `N` elements, which is enough *provided* `N ≥ span`; the
    code does not check that proviso (see `C12_array_unchecked`) -/
theorem C12_ctor_size_array (L : Layout) (n : Nat) (h : L.span ≤ n) :
    (Mdarray.ofMapping (.array n) L).containerSize = n ∧
    L.span ≤ (Mdarray.ofMapping (.array n) L).containerSize := by
  simp [Mdarray.ofMapping, Mdarray.containerSize, CtrKind.initLen, h]

/-- the elements are value-initialised, whichever container kind -/
theorem C12_ctor_value_init (k : CtrKind) (L : Layout) :
    (∀ x ∈ (Mdarray.ofMapping k L).ctr, x = 0) ∧ ∀ is, (Mdarray.ofMapping k L).get is = 0 := by
  constructor
  · intro x hx
    exact (List.mem_replicate.mp hx).2
  · intro is
    simp only [Mdarray.get, Mdarray.ofMapping, List.getD_eq_getElem?_getD, List.getElem?_replicate]
    split <;> rfl

/-- the mapping is the one supplied and the kind the one of the type -/
theorem C12_ctor_mapping (k : CtrKind) (L : Layout) :
    (Mdarray.ofMapping k L).map = L ∧ (Mdarray.ofMapping k L).kind = k := ⟨rfl, rfl⟩

/-- **finding**: with a `std::array` container nothing relates `N` to the span: the object is
    constructed, reports `size() = 10`, and owns 4 elements -/
theorem C12_array_unchecked :
    let a := Mdarray.ofMapping (.array 4) (.right [10])
    a.containerSize = 4 ∧ a.map.span = 10 ∧ a.size = 10 := by decide

theorem C12_adopt_keeps (L : Layout) (c : List Int) (k : CtrKind) :
    (Mdarray.adopt L c k).ctr = c ∧ (Mdarray.adopt L c k).map = L := ⟨rfl, rfl⟩

/-- the converting constructor copies the container unchanged and installs the converted mapping -/
theorem C12_convert_keeps (L' : Layout) (a : Mdarray) :
    (Mdarray.convert L' a).ctr = a.ctr ∧ (Mdarray.convert L' a).map = L' := ⟨rfl, rfl⟩

/-- element access addresses exactly the container cell `mapping()(is...)`, and for an index
    inside the extents of a valid mapping that cell exists: no access outside the container -/
theorem C12_access (a : Mdarray) (is : List Nat) (v : Int) :
    a.get is = a.ctr.getD (a.map.offset is) 0 ∧
    (a.set is v).ctr = a.ctr.set (a.map.offset is) v ∧
    (a.set is v).map = a.map ∧ (a.set is v).kind = a.kind ∧
    (a.map.Valid → InB is a.map.extents → a.map.span ≤ a.ctr.length →
      ∃ h : a.map.offset is < a.ctr.length, a.get is = a.ctr[a.map.offset is]) := by
  refine ⟨rfl, rfl, rfl, rfl, ?_⟩
  intro hv hb hs
  have h : a.map.offset is < a.ctr.length := Nat.lt_of_lt_of_le (C01_range a.map hv is hb) hs
  exact ⟨h, by simp [Mdarray.get, h]⟩

theorem C12_access_inb (a : Mdarray) (is : List Nat) (hv : a.map.Valid)
    (hb : InB is a.map.extents) (hs : a.map.span ≤ a.ctr.length) :
    a.map.offset is < a.containerSize :=
  Nat.lt_of_lt_of_le (C01_range a.map hv is hb) hs

/-- a write changes the addressed element and no other element of the index space -/
theorem C12_write_frame (a : Mdarray) (is : List Nat) (v : Int) (hv : a.map.Valid)
    (hb : InB is a.map.extents) (hs : a.map.span ≤ a.ctr.length) :
    (a.set is v).get is = v ∧
    (∀ js, InB js a.map.extents → js ≠ is → (a.set is v).get js = a.get js) ∧
    (a.set is v).containerSize = a.containerSize := by
  have h : a.map.offset is < a.ctr.length := Nat.lt_of_lt_of_le (C01_range a.map hv is hb) hs
  refine ⟨?_, ?_, ?_⟩
  · simp [Mdarray.get, Mdarray.set, h]
  · intro js hj hne
    have hoff : a.map.offset is ≠ a.map.offset js :=
      fun he => hne (C01_inj a.map hv is js hb hj he).symm
    simp [Mdarray.get, Mdarray.set, hoff]
  · simp [Mdarray.containerSize, Mdarray.set]

/-- `size()` is the product of the extents -/
theorem C12_size (a : Mdarray) : a.size = prod a.map.extents := rfl

/-- the index space of a valid mapping never has more elements than its span -/
theorem C12_prod_le_span (L : Layout) (hv : L.Valid) : prod L.extents ≤ L.span := by
  by_cases h0 : 0 ∈ L.extents
  · rw [(prod_eq_zero_iff _).mpr h0]; exact Nat.zero_le _
  · have hpos : ∀ e ∈ L.extents, 0 < e := by
      intro e he
      cases e with
      | zero => exact absurd he h0
      | succ n => exact Nat.succ_pos n
    obtain ⟨hl, l, hperm, hdesc⟩ := valid_strides L hv hpos
    have hposl : ∀ d ∈ l, 0 < d.1 := by
      intro d hd
      have : d ∈ List.zip L.extents L.strides := hperm.mem_iff.mp hd
      exact hpos d.1 (List.of_mem_zip this).1
    have h1 := prodP_le_span l hposl hdesc
    rw [spanM1_perm hperm, prodP_perm hperm, prodP_zip _ _ hl] at h1
    exact Nat.le_trans h1 (span_ge L hv hpos)

/-- `size() ≤ required_span_size() ≤ container().size()` -/
theorem C12_size_le_container (a : Mdarray) (hv : a.map.Valid) (hs : a.map.span ≤ a.ctr.length) :
    a.size ≤ a.map.span ∧ a.map.span ≤ a.containerSize ∧ a.size ≤ a.containerSize :=
  ⟨C12_prod_le_span a.map hv, hs, Nat.le_trans (C12_prod_le_span a.map hv) hs⟩

/-- value-level copy: the defaulted copy constructor copies both members; later writes to either
    object do not show in the other (values have no shared state) -/
theorem C12_copy_value (a : Mdarray) (is : List Nat) (v : Int) :
    let b := a
    (b.set is v).ctr = a.ctr.set (a.map.offset is) v ∧ b.ctr = a.ctr := ⟨rfl, rfl⟩

/-! ## pool layer: storage identity -/

theorem AHeap.put_same (h : AHeap) (a : Nat) (c : List Int) : (h.put a c) a = c := by
  simp [AHeap.put]
theorem AHeap.put_other (h : AHeap) (a b : Nat) (c : List Int) (hne : b ≠ a) : (h.put a c) b = h b := by
  simp [AHeap.put, hne]
theorem APool.putSlot_same (f : Nat → Option ASlot) (i : Nat) (v : Option ASlot) :
    APool.putSlot f i v i = v := by simp [APool.putSlot]
theorem APool.putSlot_other (f : Nat → Option ASlot) (i k : Nat) (v : Option ASlot) (hne : k ≠ i) :
    APool.putSlot f i v k = f k := by simp [APool.putSlot, hne]

/-- what holds of one live object -/
def ASlot.Ok (s : APool) (sl : ASlot) : Prop :=
  sl.cid < s.next ∧ sl.map.Valid ∧ sl.kind.Fits (s.heap sl.cid).length ∧
  (sl.moved = false → sl.map.span ≤ (s.heap sl.cid).length) ∧
  (sl.moved = true → sl.kind = .vector ∧ s.heap sl.cid = [])

/-- the invariant: every object is `Ok` (in particular: not moved-from ⇒ container at least as
    long as the span of its mapping) and no two objects share a buffer -/
def APool.Inv (s : APool) : Prop :=
  (∀ i sl, s.slots i = some sl → sl.Ok s) ∧
  (∀ i j si sj, s.slots i = some si → s.slots j = some sj → si.cid = sj.cid → i = j)

/-- a view into the buffer of a live, not moved-from object that stays inside that buffer
    (`to_mdspan()` is one: `C12_toMdspan_into`) -/
def MdView.Into (s : APool) (v : MdView) : Prop :=
  ∃ i si, s.slots i = some si ∧ si.moved = false ∧ v.base = si.cid ∧ v.map.Valid ∧
    v.map.span ≤ (s.heap v.base).length

/-- preconditions of the operations (those of the C++ constructors / operators) -/
def APool.Pre (s : APool) : AOp → Prop
  | .ofMapping _ k L => L.Valid ∧ ∀ n, k = .array n → L.span ≤ n     -- second conjunct: NOT checked by the code
  | .adopt _ k L c => L.Valid ∧ L.span ≤ c.length ∧ k.Fits c.length   -- the `assert`
  | .copyCons i j => i ≠ j ∧ ∃ sj, s.slots j = some sj
  | .convCons i j L' => i ≠ j ∧ L'.Valid ∧ ∃ sj, s.slots j = some sj ∧ L'.span ≤ sj.map.span
  | .moveCons i j => i ≠ j ∧ ∃ sj, s.slots j = some sj
  | .copyAssign i j => ∃ si sj, s.slots i = some si ∧ s.slots j = some sj ∧ si.kind = sj.kind
  | .moveAssign i j => i ≠ j ∧ ∃ si sj, s.slots i = some si ∧ s.slots j = some sj ∧ si.kind = sj.kind
  | .writeArr i is _ => ∃ si, s.slots i = some si ∧ si.moved = false ∧ InB is si.map.extents
  | .writeView v is _ => v.Into s ∧ InB is v.map.extents

/-- the preconditions hold along the whole history -/
def APool.PreAll : APool → List AOp → Prop
  | _, [] => True
  | s, op :: ops => s.Pre op ∧ (s.step op).PreAll ops

theorem C12_inv_init : APool.init.Inv := by
  constructor
  · intro i sl h; simp [APool.init] at h
  · intro i j si sj h; simp [APool.init] at h

theorem APool.inv_construct (s : APool) (hI : s.Inv) (i : Nat) (L : Layout) (k : CtrKind)
    (c : List Int) (mv : Bool) (hv : L.Valid) (hf : k.Fits c.length)
    (hs : mv = false → L.span ≤ c.length) (hm : mv = true → k = .vector ∧ c = []) :
    (s.construct i L k c mv).Inv := by
  obtain ⟨hok, hd⟩ := hI
  constructor
  · intro k' sl h
    by_cases hk : k' = i
    · subst hk
      simp only [APool.construct, APool.putSlot_same, Option.some.injEq] at h
      subst h
      simp only [ASlot.Ok, APool.construct, AHeap.put_same]
      exact ⟨Nat.lt_succ_self _, hv, hf, hs, hm⟩
    · simp only [APool.construct, APool.putSlot_other _ _ _ _ hk] at h
      obtain ⟨h1, h2, h3, h4, h5⟩ := hok k' sl h
      have hne : sl.cid ≠ s.next := Nat.ne_of_lt h1
      simp only [ASlot.Ok, APool.construct, AHeap.put_other _ _ _ _ hne]
      exact ⟨Nat.lt_succ_of_lt h1, h2, h3, h4, h5⟩
  · intro a b sa sb ha hb hab
    by_cases hai : a = i <;> by_cases hbi : b = i
    · rw [hai, hbi]
    · subst hai
      simp only [APool.construct, APool.putSlot_same, Option.some.injEq] at ha
      simp only [APool.construct, APool.putSlot_other _ _ _ _ hbi] at hb
      have := (hok b sb hb).1
      subst ha; simp at hab; omega
    · subst hbi
      simp only [APool.construct, APool.putSlot_same, Option.some.injEq] at hb
      simp only [APool.construct, APool.putSlot_other _ _ _ _ hai] at ha
      have := (hok a sa ha).1
      subst hb; simp at hab; omega
    · simp only [APool.construct, APool.putSlot_other _ _ _ _ hai] at ha
      simp only [APool.construct, APool.putSlot_other _ _ _ _ hbi] at hb
      exact hd a b sa sb ha hb hab


theorem APool.inv_steal (s : APool) (hI : s.Inv) (i j : Nat) (sj : ASlot) (hij : i ≠ j)
    (hj : s.slots j = some sj) (hk : sj.kind = .vector) : (s.steal i j sj).Inv := by
  obtain ⟨hok, hd⟩ := hI
  obtain ⟨j1, j2, j3, j4, j5⟩ := hok j sj hj
  have hji : j ≠ i := fun h => hij h.symm
  have hne : sj.cid ≠ s.next := Nat.ne_of_lt j1
  -- the three kinds of slots after the move
  have hsl : ∀ k sl, (s.steal i j sj).slots k = some sl →
      (k = i ∧ sl = sj) ∨ (k = j ∧ sl = { sj with cid := s.next, moved := true }) ∨
      (k ≠ i ∧ k ≠ j ∧ s.slots k = some sl) := by
    intro k sl h
    by_cases hki : k = i
    · subst hki
      simp only [APool.steal, APool.putSlot_same, Option.some.injEq] at h
      exact Or.inl ⟨rfl, h.symm⟩
    · by_cases hkj : k = j
      · subst hkj
        simp only [APool.steal, APool.putSlot_other _ _ _ _ hki, APool.putSlot_same,
          Option.some.injEq] at h
        exact Or.inr (Or.inl ⟨rfl, h.symm⟩)
      · simp only [APool.steal, APool.putSlot_other _ _ _ _ hki, APool.putSlot_other _ _ _ _ hkj] at h
        exact Or.inr (Or.inr ⟨hki, hkj, h⟩)
  constructor
  · intro k sl h
    rcases hsl k sl h with ⟨_, rfl⟩ | ⟨_, rfl⟩ | ⟨_, _, h'⟩
    · simp only [ASlot.Ok, APool.steal, AHeap.put_other _ _ _ _ hne]
      exact ⟨Nat.lt_succ_of_lt j1, j2, j3, j4, j5⟩
    · simp only [ASlot.Ok, APool.steal, AHeap.put_same]
      refine ⟨Nat.lt_succ_self _, j2, ?_, ?_, ?_⟩
      · rw [hk]; trivial
      · intro h; cases h
      · intro _; exact ⟨hk, trivial⟩
    · obtain ⟨h1, h2, h3, h4, h5⟩ := hok k sl h'
      have hne' : sl.cid ≠ s.next := Nat.ne_of_lt h1
      simp only [ASlot.Ok, APool.steal, AHeap.put_other _ _ _ _ hne']
      exact ⟨Nat.lt_succ_of_lt h1, h2, h3, h4, h5⟩
  · intro a b sa sb ha hb hab
    rcases hsl a sa ha with ⟨ra, rfl⟩ | ⟨ra, rfl⟩ | ⟨ra1, ra2, ha'⟩ <;>
      rcases hsl b sb hb with ⟨rb, rfl⟩ | ⟨rb, rfl⟩ | ⟨rb1, rb2, hb'⟩
    · rw [ra, rb]
    · exact absurd hab hne
    · exact absurd (hd j b _ _ hj hb' hab).symm rb2
    · exact absurd hab.symm hne
    · rw [ra, rb]
    · have := (hok b sb hb').1; simp at hab; omega
    · exact absurd (hd a j _ _ ha' hj hab) ra2
    · have := (hok a sa ha').1; simp at hab; omega
    · exact hd a b sa sb ha' hb' hab

theorem APool.inv_overwrite (s : APool) (hI : s.Inv) (i j : Nat) (si sj : ASlot)
    (hi : s.slots i = some si) (hj : s.slots j = some sj) (hk : si.kind = sj.kind) :
    (s.overwrite i si sj).Inv := by
  obtain ⟨hok, hd⟩ := hI
  obtain ⟨i1, i2, i3, i4, i5⟩ := hok i si hi
  obtain ⟨j1, j2, j3, j4, j5⟩ := hok j sj hj
  constructor
  · intro k sl h
    by_cases hki : k = i
    · subst hki
      simp only [APool.overwrite, APool.putSlot_same, Option.some.injEq] at h
      subst h
      simp only [ASlot.Ok, APool.overwrite, AHeap.put_same]
      exact ⟨i1, j2, hk ▸ j3, j4, fun h => hk ▸ j5 h⟩
    · simp only [APool.overwrite, APool.putSlot_other _ _ _ _ hki] at h
      have hne : sl.cid ≠ si.cid := fun he => hki (hd k i sl si h hi he)
      simp only [ASlot.Ok, APool.overwrite, AHeap.put_other _ _ _ _ hne]
      exact hok k sl h
  · intro a b sa sb ha hb hab
    have hcid : ∀ k sl, (s.overwrite i si sj).slots k = some sl → ∃ sl', s.slots k = some sl' ∧ sl'.cid = sl.cid := by
      intro k sl h
      by_cases hki : k = i
      · subst hki
        simp only [APool.overwrite, APool.putSlot_same, Option.some.injEq] at h
        exact ⟨si, hi, by rw [← h]⟩
      · simp only [APool.overwrite, APool.putSlot_other _ _ _ _ hki] at h
        exact ⟨sl, h, rfl⟩
    obtain ⟨sa', ha', ea⟩ := hcid a sa ha
    obtain ⟨sb', hb', eb⟩ := hcid b sb hb
    exact hd a b sa' sb' ha' hb' (by rw [ea, eb, hab])

/-- element writes (through an array or through any view) keep the invariant: the buffer keeps
    its length -/
theorem APool.inv_write (s : APool) (hI : s.Inv) (a o : Nat) (x : Int) :
    ({ s with heap := s.heap.put a ((s.heap a).set o x) } : APool).Inv := by
  obtain ⟨hok, hd⟩ := hI
  have hlen : ∀ b, ((s.heap.put a ((s.heap a).set o x)) b).length = (s.heap b).length := by
    intro b
    by_cases hb : b = a
    · subst hb; simp [AHeap.put_same]
    · rw [AHeap.put_other _ _ _ _ hb]
  have hnil : ∀ b, s.heap b = [] → (s.heap.put a ((s.heap a).set o x)) b = [] := by
    intro b h
    by_cases hb : b = a
    · subst hb; simp [AHeap.put_same, h]
    · rw [AHeap.put_other _ _ _ _ hb, h]
  constructor
  · intro k sl h
    obtain ⟨h1, h2, h3, h4, h5⟩ := hok k sl h
    simp only [ASlot.Ok, hlen]
    exact ⟨h1, h2, h3, h4, fun hm => ⟨(h5 hm).1, hnil _ (h5 hm).2⟩⟩
  · exact hd

/-- **C12 (one step)**: every operation, under its precondition, preserves the invariant -/
theorem C12_step_inv (s : APool) (op : AOp) (hI : s.Inv) (hp : s.Pre op) : (s.step op).Inv := by
  cases op with
  | ofMapping i k L =>
    obtain ⟨hv, hn⟩ := hp
    apply APool.inv_construct s hI _ _ _ _ _ hv
    · cases k <;> simp [CtrKind.Fits, CtrKind.initLen]
    · intro _
      cases k with
      | vector => simp [CtrKind.initLen]
      | array n => simpa [CtrKind.initLen] using hn n rfl
    · intro h; cases h
  | adopt i k L c =>
    obtain ⟨hv, hs, hf⟩ := hp
    exact APool.inv_construct s hI _ _ _ _ _ hv hf (fun _ => hs) (fun h => by cases h)
  | copyCons i j =>
    obtain ⟨_, sj, hj⟩ := hp
    obtain ⟨j1, j2, j3, j4, j5⟩ := hI.1 j sj hj
    simp only [APool.step, hj]
    exact APool.inv_construct s hI _ _ _ _ _ j2 j3 j4 j5
  | convCons i j L' =>
    obtain ⟨_, hv, sj, hj, hs⟩ := hp
    obtain ⟨j1, j2, j3, j4, j5⟩ := hI.1 j sj hj
    simp only [APool.step, hj]
    exact APool.inv_construct s hI _ _ _ _ _ hv j3 (fun h => Nat.le_trans hs (j4 h)) j5
  | moveCons i j =>
    obtain ⟨hij, sj, hj⟩ := hp
    obtain ⟨j1, j2, j3, j4, j5⟩ := hI.1 j sj hj
    simp only [APool.step, hj]
    split
    · next hk => exact APool.inv_steal s hI i j sj hij hj hk
    · exact APool.inv_construct s hI _ _ _ _ _ j2 j3 j4 j5
  | copyAssign i j =>
    obtain ⟨si, sj, hi, hj, hk⟩ := hp
    obtain ⟨j1, j2, j3, j4, j5⟩ := hI.1 j sj hj
    simp only [APool.step, hi, hj]
    split
    · exact APool.inv_construct s hI _ _ _ _ _ j2 j3 j4 j5
    · exact APool.inv_overwrite s hI i j si sj hi hj hk
  | moveAssign i j =>
    obtain ⟨hij, si, sj, hi, hj, hk⟩ := hp
    simp only [APool.step, hi, hj]
    split
    · next hv => exact APool.inv_steal s hI i j sj hij hj (hk ▸ hv)
    · exact APool.inv_overwrite s hI i j si sj hi hj hk
  | writeArr i is v =>
    obtain ⟨si, hi, _, _⟩ := hp
    simp only [APool.step, hi]
    exact APool.inv_write s hI _ _ _
  | writeView v is x =>
    exact APool.inv_write s hI _ _ _

/-- **C12 (histories)**: from the empty pool — or any state satisfying the invariant — every
    sequence of operations whose preconditions hold leads to a state satisfying the invariant:
    every live, not moved-from mdarray owns at least `required_span_size()` elements, and no two
    mdarrays ever share storage -/
theorem C12_run (ops : List AOp) (s : APool) (hI : s.Inv) (hp : s.PreAll ops) : (s.run ops).Inv := by
  induction ops generalizing s with
  | nil => exact hI
  | cons op ops ih =>
    simp only [APool.run, List.foldl] at *
    exact ih (s.step op) (C12_step_inv s op hI hp.1) hp.2

/-- ... and so does every intermediate state -/
theorem C12_run_prefix (ops : List AOp) (s : APool) (hI : s.Inv) (hp : s.PreAll ops) (n : Nat) :
    (s.run (ops.take n)).Inv := by
  induction ops generalizing s n with
  | nil => simpa [APool.run] using hI
  | cons op ops ih =>
    cases n with
    | zero => simpa [APool.run] using hI
    | succ n =>
      simp only [APool.run, List.take_succ_cons, List.foldl] at *
      exact ih (s.step op) (C12_step_inv s op hI hp.1) hp.2 n

theorem C12_run_init (ops : List AOp) (hp : APool.init.PreAll ops) : (APool.init.run ops).Inv :=
  C12_run ops _ C12_inv_init hp


/-! ## what the operations do to the mdarray values -/

theorem APool.arr_construct_self (s : APool) (i : Nat) (L : Layout) (k : CtrKind) (c : List Int) (mv : Bool) :
    (s.construct i L k c mv).arr i = some ⟨L, c, k⟩ := by
  simp [APool.arr, APool.construct, APool.putSlot_same, AHeap.put_same]

theorem APool.arr_construct_other (s : APool) (hI : s.Inv) (i k' : Nat) (L : Layout) (k : CtrKind)
    (c : List Int) (mv : Bool) (hne : k' ≠ i) : (s.construct i L k c mv).arr k' = s.arr k' := by
  simp only [APool.arr, APool.construct, APool.putSlot_other _ _ _ _ hne]
  cases h : s.slots k' with
  | none => rfl
  | some sl =>
    have hc : sl.cid ≠ s.next := Nat.ne_of_lt (hI.1 k' sl h).1
    simp [AHeap.put_other _ _ _ _ hc]

theorem APool.arr_steal_target (s : APool) (hI : s.Inv) (i j : Nat) (sj : ASlot) (hj : s.slots j = some sj) :
    (s.steal i j sj).arr i = s.arr j ∧ (s.steal i j sj).slots i = some sj := by
  have hc : sj.cid ≠ s.next := Nat.ne_of_lt (hI.1 j sj hj).1
  simp [APool.arr, APool.steal, APool.putSlot_same, AHeap.put_other _ _ _ _ hc, hj]

theorem APool.arr_steal_source (s : APool) (i j : Nat) (sj : ASlot) (hij : i ≠ j) :
    (s.steal i j sj).arr j = some ⟨sj.map, [], sj.kind⟩ := by
  have hji : j ≠ i := fun h => hij h.symm
  simp [APool.arr, APool.steal, APool.putSlot_other _ _ _ _ hji, APool.putSlot_same, AHeap.put_same]

theorem APool.arr_steal_other (s : APool) (hI : s.Inv) (i j k : Nat) (sj : ASlot) (hki : k ≠ i) (hkj : k ≠ j) :
    (s.steal i j sj).arr k = s.arr k := by
  simp only [APool.arr, APool.steal, APool.putSlot_other _ _ _ _ hki, APool.putSlot_other _ _ _ _ hkj]
  cases h : s.slots k with
  | none => rfl
  | some sl =>
    have hc : sl.cid ≠ s.next := Nat.ne_of_lt (hI.1 k sl h).1
    simp [AHeap.put_other _ _ _ _ hc]

theorem APool.arr_overwrite_self (s : APool) (i : Nat) (si sj : ASlot) :
    (s.overwrite i si sj).arr i = some ⟨sj.map, s.heap sj.cid, si.kind⟩ := by
  simp [APool.arr, APool.overwrite, APool.putSlot_same, AHeap.put_same]

theorem APool.arr_overwrite_other (s : APool) (hI : s.Inv) (i k : Nat) (si sj : ASlot)
    (hi : s.slots i = some si) (hki : k ≠ i) : (s.overwrite i si sj).arr k = s.arr k := by
  simp only [APool.arr, APool.overwrite, APool.putSlot_other _ _ _ _ hki]
  cases h : s.slots k with
  | none => rfl
  | some sl =>
    have hc : sl.cid ≠ si.cid := fun he => hki (hI.2 k i sl si h hi he)
    simp [AHeap.put_other _ _ _ _ hc]

/-- construction from extents / a mapping, and from a container, produce the value-layer objects -/
theorem C12_step_ctor (s : APool) (i : Nat) (k : CtrKind) (L : Layout) (c : List Int) :
    (s.step (.ofMapping i k L)).arr i = some (Mdarray.ofMapping k L) ∧
    (s.step (.adopt i k L c)).arr i = some (Mdarray.adopt L c k) :=
  ⟨APool.arr_construct_self .., APool.arr_construct_self ..⟩

/-- ... and leave every other mdarray alone -/
theorem C12_step_ctor_frame (s : APool) (hI : s.Inv) (i k' : Nat) (k : CtrKind) (L : Layout)
    (c : List Int) (hne : k' ≠ i) :
    (s.step (.ofMapping i k L)).arr k' = s.arr k' ∧ (s.step (.adopt i k L c)).arr k' = s.arr k' :=
  ⟨APool.arr_construct_other s hI i k' L k _ false hne, APool.arr_construct_other s hI i k' L k c false hne⟩

/-- the converting constructor: converted mapping, same elements, fresh storage -/
theorem C12_step_conv (s : APool) (i j : Nat) (L' : Layout) (sj : ASlot) (hj : s.slots j = some sj) :
    (s.step (.convCons i j L')).arr i = (s.arr j).map (Mdarray.convert L') := by
  simp only [APool.step, hj, APool.arr_construct_self]
  simp [APool.arr, hj, Mdarray.convert]

/-- a write through the mdarray is `Mdarray.set` on its value -/
theorem C12_step_write (s : APool) (i : Nat) (is : List Nat) (v : Int) :
    (s.step (.writeArr i is v)).arr i = (s.arr i).map (·.set is v) := by
  cases h : s.slots i with
  | none => simp [APool.step, APool.arr, h]
  | some si => simp [APool.step, APool.arr, h, AHeap.put_same, Mdarray.set]

/-- **frame**: a write through mdarray `i` changes no other mdarray of the pool -/
theorem C12_write_other (s : APool) (hI : s.Inv) (i k : Nat) (is : List Nat) (v : Int) (hne : k ≠ i) :
    (s.step (.writeArr i is v)).arr k = s.arr k := by
  cases hi : s.slots i with
  | none => simp [APool.step, hi]
  | some si =>
    simp only [APool.step, hi, APool.arr]
    cases hk : s.slots k with
    | none => rfl
    | some sl =>
      have hc : sl.cid ≠ si.cid := fun he => hne (hI.2 k i sl si hk hi he)
      simp [AHeap.put_other _ _ _ _ hc]

/-! ## views -/

/-- `to_mdspan()` / conversion operators: `data_handle() == data()`, same mapping, and the view
    reads exactly the mdarray's elements -/
theorem C12_toMdspan (s : APool) (i : Nat) (si : ASlot) (hi : s.slots i = some si) :
    si.toMdspan.base = si.cid ∧ si.toMdspan.map = si.map ∧
    ∀ a, s.arr i = some a → ∀ is, si.toMdspan.get s.heap is = a.get is := by
  refine ⟨rfl, rfl, ?_⟩
  intro a ha is
  simp only [APool.arr, hi, Option.map, Option.some.injEq] at ha
  subst ha
  rfl

/-- the view obtained from a live mdarray stays inside its container -/
theorem C12_toMdspan_into (s : APool) (hI : s.Inv) (i : Nat) (si : ASlot) (hi : s.slots i = some si)
    (hm : si.moved = false) : si.toMdspan.Into s := by
  obtain ⟨_, h2, _, h4, _⟩ := hI.1 i si hi
  exact ⟨i, si, hi, hm, rfl, h2, h4 hm⟩

/-- **aliasing**: writing through the view of mdarray `i` *is* writing through mdarray `i`
    (the same state results), hence each sees the other's writes -/
theorem C12_view_alias (s : APool) (i : Nat) (si : ASlot) (hi : s.slots i = some si)
    (is : List Nat) (x : Int) :
    s.step (.writeView si.toMdspan is x) = s.step (.writeArr i is x) := by
  simp only [APool.step, hi, MdView.set, ASlot.toMdspan]

/-- a write through the view is read back through the mdarray, a write through the mdarray is read
    back through the view, and either write leaves all other elements of the index space as
    they were, seen from both sides -/
theorem C12_view_alias_rw (s : APool) (hI : s.Inv) (i : Nat) (si : ASlot) (hi : s.slots i = some si)
    (hm : si.moved = false) (is : List Nat) (x : Int) (hb : InB is si.map.extents) (a : Mdarray)
    (ha : s.arr i = some a) :
    (s.step (.writeView si.toMdspan is x)).arr i = some (a.set is x) ∧
    (a.set is x).get is = x ∧
    si.toMdspan.get (s.step (.writeArr i is x)).heap is = x ∧
    (∀ js, InB js si.map.extents → js ≠ is →
      si.toMdspan.get (s.step (.writeArr i is x)).heap js = a.get js ∧
      si.toMdspan.get (s.step (.writeView si.toMdspan is x)).heap js = a.get js) := by
  obtain ⟨_, h2, _, h4, _⟩ := hI.1 i si hi
  have hmap : a.map = si.map := by
    simp only [APool.arr, hi, Option.map, Option.some.injEq] at ha; rw [← ha]
  have hctr : a.ctr = s.heap si.cid := by
    simp only [APool.arr, hi, Option.map, Option.some.injEq] at ha; rw [← ha]
  have hfr := C12_write_frame a is x (hmap ▸ h2) (hmap ▸ hb) (by rw [hmap, hctr]; exact h4 hm)
  have hw : (s.step (.writeArr i is x)).arr i = some (a.set is x) := by
    rw [C12_step_write, ha]; rfl
  have hsl : (s.step (.writeArr i is x)).slots i = some si := by simp [APool.step, hi]
  have hrd := (C12_toMdspan _ i si hsl).2.2 _ hw
  refine ⟨by rw [C12_view_alias s i si hi]; exact hw, hfr.1, ?_, ?_⟩
  · rw [hrd]; exact hfr.1
  · intro js hj hne
    rw [C12_view_alias s i si hi, hrd]
    exact ⟨hfr.2.1 js (hmap ▸ hj) hne, hfr.2.1 js (hmap ▸ hj) hne⟩

/-- a write through a view into mdarray `i` changes no other mdarray -/
theorem C12_view_write_other (s : APool) (hI : s.Inv) (i k : Nat) (si : ASlot) (hi : s.slots i = some si)
    (v : MdView) (hv : v.base = si.cid) (is : List Nat) (x : Int) (hne : k ≠ i) :
    (s.step (.writeView v is x)).arr k = s.arr k := by
  simp only [APool.step, APool.arr, MdView.set]
  cases hk : s.slots k with
  | none => rfl
  | some sl =>
    have hc : sl.cid ≠ v.base := fun he => hne (hI.2 k i sl si hk hi (he.trans hv))
    simp [AHeap.put_other _ _ _ _ hc]

/-- **no out-of-bounds access**: under the invariant and the precondition of an element write
    (through the mdarray or through a view into it) the addressed cell exists -/
theorem C12_access_safe (s : APool) (hI : s.Inv) :
    (∀ i is x, s.Pre (.writeArr i is x) → ∀ si, s.slots i = some si →
      si.map.offset is < (s.heap si.cid).length) ∧
    (∀ v is x, s.Pre (.writeView v is x) → v.map.offset is < (s.heap v.base).length) := by
  constructor
  · intro i is x ⟨si', hi', hm, hb⟩ si hi
    rw [hi'] at hi; cases hi
    obtain ⟨_, h2, _, h4, _⟩ := hI.1 i si' hi'
    exact Nat.lt_of_lt_of_le (C01_range _ h2 is hb) (h4 hm)
  · intro v is x ⟨⟨i, si, hi, hm, hbase, hv, hs⟩, hb⟩
    exact Nat.lt_of_lt_of_le (C01_range _ hv is hb) hs

/-- ... in every state reachable from the empty pool -/
theorem C12_run_access_safe (ops : List AOp) (i : Nat) (is : List Nat) (x : Int)
    (hp : APool.init.PreAll ops) (hw : (APool.init.run ops).Pre (.writeArr i is x)) (si : ASlot)
    (hi : (APool.init.run ops).slots i = some si) :
    si.map.offset is < ((APool.init.run ops).heap si.cid).length :=
  (C12_access_safe _ (C12_run_init ops hp)).1 i is x hw si hi

/-! ## copies and moves -/

/-- copy construction and copy assignment `i ← j`: `i` holds `j`'s former value, `j` is
    unchanged, the two have different `data()`, the invariant still holds, and from then on a
    write to either is invisible in the other -/
theorem C12_copy_independent (s : APool) (hI : s.Inv) (i j : Nat) (hij : i ≠ j) (op : AOp)
    (hop : op = .copyCons i j ∨ op = .copyAssign i j) (hp : s.Pre op) :
    let s1 := s.step op
    s1.Inv ∧ s1.arr i = s.arr j ∧ s1.arr j = s.arr j ∧
    (∀ si sj, s1.slots i = some si → s1.slots j = some sj → si.cid ≠ sj.cid) ∧
    (∀ is v, ((s1.step (.writeArr i is v)).arr j = s.arr j) ∧
             ((s1.step (.writeArr j is v)).arr i = s.arr j)) := by
  intro s1
  have hI1 : s1.Inv := C12_step_inv s op hI hp
  have hji : j ≠ i := fun h => hij h.symm
  have hval : s1.arr i = s.arr j ∧ s1.arr j = s.arr j := by
    rcases hop with rfl | rfl
    · obtain ⟨_, sj, hj⟩ := hp
      simp only [s1, APool.step, hj]
      exact ⟨by rw [APool.arr_construct_self]; simp [APool.arr, hj],
             APool.arr_construct_other s hI _ _ _ _ _ _ hji⟩
    · obtain ⟨si, sj, hi, hj, hk⟩ := hp
      simp only [s1, APool.step, hi, hj]
      split
      · exact ⟨by rw [APool.arr_construct_self]; simp [APool.arr, hj],
               APool.arr_construct_other s hI _ _ _ _ _ _ hji⟩
      · exact ⟨by rw [APool.arr_overwrite_self]; simp [APool.arr, hj, hk],
               APool.arr_overwrite_other s hI _ _ _ _ hi hji⟩
  refine ⟨hI1, hval.1, hval.2, ?_, ?_⟩
  · intro si sj hi hj he
    exact hij (hI1.2 i j si sj hi hj he)
  · intro is v
    exact ⟨(C12_write_other s1 hI1 i j is v hji).trans hval.2,
           (C12_write_other s1 hI1 j i is v hij).trans hval.1⟩

/-- move construction and move assignment `i ← j` of a `std::vector` container: `i` holds `j`'s
    former elements *in j's former buffer* (same `data()`, nothing copied, views of `j` taken
    before now view `i`), `j` keeps its mapping but owns an empty container -/
theorem C12_move_transfers (s : APool) (hI : s.Inv) (i j : Nat) (hij : i ≠ j) (op : AOp)
    (hop : op = .moveCons i j ∨ op = .moveAssign i j) (hp : s.Pre op)
    (sj : ASlot) (hj : s.slots j = some sj) (hk : sj.kind = .vector) :
    let s1 := s.step op
    s1.Inv ∧ s1.arr i = s.arr j ∧ s1.slots i = some sj ∧
    s1.arr j = some ⟨sj.map, [], .vector⟩ ∧
    (∀ a, s1.arr j = some a → a.size = prod sj.map.extents ∧ a.containerSize = 0) := by
  intro s1
  have hI1 : s1.Inv := C12_step_inv s op hI hp
  have hst : s1 = s.steal i j sj := by
    rcases hop with rfl | rfl
    · simp only [s1, APool.step, hj, hk]
    · obtain ⟨_, si, sj', hi, hj', hkk⟩ := hp
      rw [hj] at hj'; cases hj'
      have : si.kind = .vector := hkk.trans hk
      simp only [s1, APool.step, hi, hj, this]
  have h1 := APool.arr_steal_target s hI i j sj hj
  have h2 := APool.arr_steal_source s i j sj hij
  rw [hk] at h2
  refine ⟨hI1, hst ▸ h1.1, hst ▸ h1.2, hst ▸ h2, ?_⟩
  intro a ha
  rw [hst, h2] at ha; cases ha
  exact ⟨rfl, rfl⟩

/-- move of a `std::array` container: element-wise, so the target holds the source's elements
    and the source keeps them -/
theorem C12_move_array (s : APool) (hI : s.Inv) (i j : Nat) (hij : i ≠ j) (op : AOp)
    (hop : op = .moveCons i j ∨ op = .moveAssign i j) (hp : s.Pre op)
    (sj : ASlot) (hj : s.slots j = some sj) (n : Nat) (hk : sj.kind = .array n) :
    let s1 := s.step op
    s1.Inv ∧ s1.arr i = s.arr j ∧ s1.arr j = s.arr j := by
  intro s1
  have hji : j ≠ i := fun h => hij h.symm
  refine ⟨C12_step_inv s op hI hp, ?_⟩
  rcases hop with rfl | rfl
  · simp only [s1, APool.step, hj, hk]
    exact ⟨by rw [APool.arr_construct_self]; simp [APool.arr, hj, hk],
           APool.arr_construct_other s hI _ _ _ _ _ _ hji⟩
  · obtain ⟨_, si, sj', hi, hj', hkk⟩ := hp
    rw [hj] at hj'; cases hj'
    have hki : si.kind = .array n := hkk.trans hk
    simp only [s1, APool.step, hi, hj, hki]
    exact ⟨by rw [APool.arr_overwrite_self]; simp [APool.arr, hj, hk, hki],
           APool.arr_overwrite_other s hI _ _ _ _ hi hji⟩


/-! ## non-vacuity: a rank-2 layout_stride mdarray with strides (10, 3) -/
def c12L : Layout := .stride [2, 3] [10, 3]

example : c12L.Valid := by
  refine ⟨rfl, [(2, 10), (3, 3)], List.Perm.refl _, ?_⟩
  simp [DescC, spanM1]
example : InB [1, 2] c12L.extents ∧ InB [0, 1] c12L.extents := by simp [c12L, Layout.extents, InB]
example : c12L.span = 17 ∧ prod c12L.extents = 6 ∧ c12L.offset [1, 2] = 16 := by decide
example : (Mdarray.ofMapping .vector c12L).containerSize = 17 ∧ (Mdarray.ofMapping .vector c12L).size = 6 := by decide
example : ((Mdarray.ofMapping .vector c12L).set [1, 2] 7).get [1, 2] = 7 ∧
    ((Mdarray.ofMapping .vector c12L).set [1, 2] 7).get [0, 1] = 0 := by decide

def c12Ops : List AOp :=
  [ .ofMapping 0 .vector c12L,
    .writeArr 0 [1, 2] 7,
    .copyCons 1 0,
    .writeArr 1 [1, 2] 9,
    .writeView ⟨0, c12L⟩ [0, 1] 5,
    .moveCons 2 0,
    .adopt 3 (.array 20) c12L (List.replicate 20 1),
    .ofMapping 4 (.array 20) c12L,
    .copyAssign 4 3,
    .writeArr 3 [0, 0] 2,
    .copyAssign 0 1 ]

theorem c12L_valid : c12L.Valid := ⟨rfl, [(2, 10), (3, 3)], List.Perm.refl _, by simp [DescC, spanM1]⟩

example : APool.init.PreAll c12Ops := by
  simp only [c12Ops, APool.PreAll]
  refine ⟨⟨c12L_valid, by simp⟩, ⟨_, rfl, rfl, by simp [c12L, Layout.extents, InB]⟩, ⟨by decide, _, rfl⟩,
    ⟨_, rfl, rfl, by simp [c12L, Layout.extents, InB]⟩,
    ⟨⟨0, _, rfl, rfl, rfl, c12L_valid, by decide⟩, by simp [c12L, Layout.extents, InB]⟩,
    ⟨by decide, _, rfl⟩,
    ⟨c12L_valid, by decide, by simp [CtrKind.Fits]⟩,
    ⟨c12L_valid, fun n h => by cases h; decide⟩,
    ⟨_, _, rfl, rfl, rfl⟩,
    ⟨_, rfl, rfl, by simp [c12L, Layout.extents, InB]⟩,
    ⟨_, _, rfl, rfl, rfl⟩, trivial⟩

/-- what the history leaves behind: slot 2 received slot 0's elements (including the write made
    through the view), slot 1 is an independent copy, slot 0 was empty after the move (with
    `size() = 6`) until it was assigned to, the `std::array` copy 4 does not see the later write
    to 3 -/
example :
    ((APool.init.run c12Ops).arr 2).map (fun a => (a.get [1, 2], a.get [0, 1])) = some (7, 5) ∧
    ((APool.init.run c12Ops).arr 1).map (·.get [1, 2]) = some 9 ∧
    ((APool.init.run (c12Ops.take 6)).arr 0).map (fun a => (a.containerSize, a.size)) = some (0, 6) ∧
    ((APool.init.run c12Ops).arr 0).map (fun a => (a.containerSize, a.get [1, 2])) = some (17, 9) ∧
    ((APool.init.run c12Ops).arr 3).map (·.get [0, 0]) = some 2 ∧
    ((APool.init.run c12Ops).arr 4).map (fun a => (a.containerSize, a.get [0, 0])) = some (20, 1) := by
  decide
end Mdspan
