"""C08: mapping conversions preserve the mapping; mapping equality is sound."""
import random, itertools
from . import common as C
from . import mapfam as F
import harness.gen_conv as G
from .mapfam import canon

def build(cfg): return C.cxx_build('convsrv', G.sources(), config=cfg)
def warm(prop): build('gcc20-ubsan')

def lstr(es): return [C.prod(es[:k]) for k in range(len(es))]
def rstr(es): return [C.prod(es[k + 1:]) for k in range(len(es))]
def lpstr(ps, es): return lstr([ps] + es[1:]) if len(es) >= 2 else [1] * len(es)
def rpstr(ps, es): return rstr(es[:-1] + [ps]) if len(es) >= 2 else [1] * len(es)
def lm(p, e): return -(-e // p) * p

def spec_strides(kind, sp, es, ss, pv):
    if kind == 'left': return lstr(es)
    if kind == 'right': return rstr(es)
    if kind == 'stride': return list(ss)
    if len(es) < 2: return [1] * len(es)
    e = es[0] if kind == 'lpad' else es[-1]
    ps = lm(pv, e) if pv is not None else (e if sp in ('D', None) else lm(sp, e))
    return lpstr(ps, es) if kind == 'lpad' else rpstr(ps, es)

def stride_candidates(rnd, es):
    c = [lstr(es), rstr(es)]
    if len(es) >= 2:
        c.append(lpstr(es[0] + rnd.choice([0, 1, 2]), es)); c.append(rpstr(es[-1] + rnd.choice([0, 1, 3]), es))
    c.append(F.chain_strides(rnd, es))
    if len(es) >= 3:      # exhaustive strides of a permuted dimension order (first or last stride may still be 1)
        perm = list(range(len(es))); rnd.shuffle(perm); s = [0] * len(es); cur = 1
        for dpos in perm: s[dpos] = cur; cur *= max(es[dpos], 1)
        c.append(s)
    return c

def gen(seed, tier, insts, replay=None):
    """conversion lines and comparison lines (with their meta data) for a list of instantiations"""
    rnd = random.Random(seed); thorough = tier == 'thorough'
    conv = []; eqs = []
    if replay:
        (conv if replay['fam'] == 'conv' else eqs).append(replay['line'] if replay['fam'] == 'conv' else (replay['line'], replay['meta']))
        conv = [(l, None) for l in conv]
    else:
        for i in insts:
            sk, ssp, t, dk, dsp, u, r, spat, dpat = i
            exts = list(itertools.product(range(0, 4), repeat=r)); n = 3 if not thorough else 12
            if spat is not None:
                # static / mixed patterns: values must agree with every static extent on either side; positions dynamic on both sides vary
                shp = G.shape_of(i)
                exts = [tuple(x if x is not None else rnd.choice([0, 1, 2, 3, 4]) for x in shp) for _ in range(2 if not thorough else 5)]
                exts = list(dict.fromkeys(exts))
            sel = [list(x) for x in (exts if len(exts) <= n else rnd.sample(exts, n))]
            if spat is None and r in (1, 2) and sk in ('left', 'right', 'stride') and dk in ('left', 'right', 'stride'):
                # the index space exactly fills the narrower of the two index types (required_span_size() == its maximum): still a valid conversion
                Hm = min(C.hi(t), C.hi(u)); dv = next((q for q in range(2, 70000) if Hm % q == 0), None)
                sel.append([Hm] if r == 1 else ([dv, Hm // dv] if dv else [Hm, 1])); sel[-1] = sel[-1] + ['top']
            for es in sel:
                top = es[-1:] == ['top']; es = list(es[:-1]) if top else list(es)
                if top:      # corners and unit vectors only
                    pts = [[0] * r, [e - 1 for e in es]] + [[1 if k == j else 0 for k in range(r)] for j in range(r) if es[j] > 1]
                    idx = ';'.join(C.fmt(x) for x in pts)
                else: idx = ';'.join(C.fmt(list(x)) if r else 'e' for x in itertools.product(*[range(e) for e in es])) or '-'
                variants = []
                if sk == 'stride': variants = [dict(str=s) for s in stride_candidates(rnd, es)]
                elif sk in ('lpad', 'rpad'):
                    pe = (es[0] if sk == 'lpad' else es[-1]) if r else 1
                    variants = [dict()] + ([dict(pv=p) for p in {1, 2, max(pe, 1)}] if ssp == 'D' else [])
                else: variants = [dict()]
                for v in variants:
                    # every value of a line, and the span of the mapping it denotes, must be representable in BOTH index types
                    st_ = spec_strides(sk, ssp, es, v.get('str'), v.get('pv')); Hm = min(C.hi(t), C.hi(u))
                    if max(st_ + es + [0]) > Hm or 1 + sum((max(e, 1) - 1) * s for e, s in zip(es, st_)) > Hm: continue
                    if sk in ('lpad', 'rpad') and r >= 2 and (st_[1] if sk == 'lpad' else st_[-2]) * C.prod([max(e, 1) for e in (es[1:] if sk == 'lpad' else es[:-1])]) > Hm: continue
                    l = G.line('conv', i) + ' ext=%s' % C.fmt(es) + (' str=%s' % C.fmt(v['str']) if 'str' in v else '') + (' pv=%d' % v['pv'] if 'pv' in v else '') + ' idx=%s' % idx
                    conv.append((l, dict(inst=list(i), ext=es, **v)))
                    if top: continue      # huge index space: conversions only (the comparison oracle enumerates the index space)
                    # comparison operand of the target type
                    a_str = spec_strides(sk, ssp, es, v.get('str'), v.get('pv'))
                    es2 = list(es)
                    mode = rnd.choice(['same', 'same', 'ext', 'str', 'wrap'])
                    wrapv = 2 ** min(C.ITYPES[t][0], C.ITYPES[u][0])      # congruent modulo the narrower index type: must compare unequal
                    if mode == 'ext' and r:
                        kx = rnd.randrange(r)
                        if dpat is None or dpat[kx] is None: es2[kx] += 1
                    b = dict(ext2=es2)
                    if dk == 'stride':
                        s2 = list(a_str) if len(a_str) == len(es2) else lstr(es2)
                        if mode == 'str' and r: s2[rnd.randrange(r)] += 1
                        if mode == 'wrap' and r:
                            k = rnd.randrange(r)
                            if s2[k] + wrapv <= C.hi(u): s2[k] += wrapv
                        b['str2'] = s2
                    elif dk in ('lpad', 'rpad') and dsp == 'D' and 'pv' in v:
                        b['pv2'] = v['pv'] if mode not in ('str', 'wrap') else (v['pv'] + 1 if mode == 'str' else (v['pv'] + wrapv if v['pv'] + wrapv <= C.hi(u) else v['pv'] + 1))
                    l2 = G.line('mapeq', i) + ' ext=%s' % C.fmt(es) + (' str=%s' % C.fmt(v['str']) if 'str' in v else '') + (' pv=%d' % v['pv'] if 'pv' in v else '') + \
                         ' ext2=%s' % C.fmt(b['ext2']) + (' str2=%s' % C.fmt(b['str2']) if 'str2' in b else '') + (' pv2=%d' % b['pv2'] if 'pv2' in b else '')
                    eqs.append((l2, dict(inst=list(i), a=dict(ext=es, **v), b=b)))
                    # two values of ONE mapping type with a mixed pattern: a second operand that differs in exactly one dynamic extent, for every dynamic position
                    if spat is not None and spat == dpat and sk == dk and ssp == dsp and t == u and sk != 'stride' and 'pv' not in v:
                        for kx in range(r):
                            if dpat[kx] is not None: continue
                            e3 = list(es); e3[kx] += 1
                            l3 = G.line('mapeq', i) + ' ext=%s ext2=%s' % (C.fmt(es), C.fmt(e3))
                            eqs.append((l3, dict(inst=list(i), a=dict(ext=es), b=dict(ext2=e3))))
    return conv, eqs

def check(prop, tier, seed, replay=None):
    rep = C.Report(prop, tier, seed); audit = C.proof_audit(prop); rnd = random.Random(seed); thorough = tier == 'thorough'
    rep.cov['rule'] = ('ordered pairs of mapping types: 9 layouts (left, right, stride, left/right_padded with dynamic, 2, 4 padding) x 6 index-type pairs x rank 0-3, all-dynamic extents, plus 654 instantiations with static / mixed extents patterns on source and target (values consistent with the static extents); '
                       'extents in {0..3}, strides canonical for every target layout and generic chains, paddings none/1/2/extent; every multi-index of the small index space evaluated on source and target; '
                       'comparison (== and !=) for every pair with a direct operator==; conversions are executed only where the Lean predicate ConvPre holds; non-trivial = rank>=1 and non-empty index space')
    conv, eqs = gen(seed, tier, G.instances(), replay)
    pre = C.driver([l + ' pre' for l, _ in conv])
    # pairs of mapping types for which the model has no converting constructor: the library must not offer one that changes the mapping
    noconv = [c for c, p in zip(conv, pre) if p == 'none']
    conv = [c for c, p in zip(conv, pre) if p == 'ok 1']
    rep.notes['conversions_with_precondition'] = len(conv); rep.notes['comparisons'] = len(eqs); rep.notes['pairs_without_conversion_probed'] = len(noconv)
    lines = [l for l, _ in conv] + [l for l, _ in eqs]
    mout = [canon(x) for x in C.driver(lines)]
    configs = ['gcc20-ubsan', 'gcc17-ubsan'] + (['clang20-ubsan', 'clang17-O0-ndebug-emul'] if thorough else [])      # C++17: hand-written operator!=
    pairs_seen = {}
    for cfg in configs:
        try: exe, secs, cached = build(cfg)
        except C.BuildError as e:
            rep.broke(dict(correspondence='conv op server build (%s)' % cfg, why=str(e), log=e.log[-3000:])); continue
        rep.notes.setdefault('server_build_s', {})[cfg] = round(secs, 1)
        partial = C.report_dropped(rep, exe, 'conv op server', cfg)
        for (line, meta), xi in zip(noconv, [canon(x) for x in C.pipe(exe, [l for l, _ in noconv])]):
            rep.cov['evaluations'] += 1
            if not xi.startswith('src '): continue       # 'no-ctor' (as specified), or the instantiation was dropped
            s_, d_ = xi[4:].split(' dst '); d_ = d_.split(' impl=')[0]
            sd = dict(x.split('=') for x in s_.split()); dd = dict(x.split('=') for x in d_.split())
            if sd['ext'] != dd['ext'] or sd['offs'] != dd['offs']:
                rep.violation(dict(kind='library-offers-a-conversion-that-does-not-preserve-the-mapping (no such constructor is specified)', line=line, meta=meta, impl=xi, config=cfg))
        iout = [canon(x) for x in C.pipe_resilient(exe, lines)]
        for k, ((line, meta), xi, xm) in enumerate(zip(conv + eqs, iout, mout)):
            if partial and xi == 'no-inst': continue
            if xi.startswith('died'):
                # every line sent has its precondition satisfied (ConvPreG) and representable values: the process must not end here
                if 'not run' not in xi: rep.violation(dict(kind='valid-conversion-or-comparison-terminates-the-program (debug check / crash)', line=line, fam='conv' if k < len(conv) else 'eq', meta=meta, impl=xi, config=cfg))
                continue
            rep.cov['evaluations'] += 1; rep.cov['traces_validated_against_impl'] += 1
            fam = 'conv' if k < len(conv) else 'eq'
            pub = dict(line=line, fam=fam, meta=meta, config=cfg)
            core = xi.split(' impl=')[0]
            if core != xm:
                rep.broke(dict(correspondence='%s family vs Convert.lean (%s)' % (fam, 'convert' if fam == 'conv' else 'eqMap/neMap'), impl=xi, model=xm, **pub))
            if fam == 'conv':
                if xi == 'no-ctor': continue
                if not xi.startswith('src '):
                    rep.violation(dict(kind='conversion-undefined-although-precondition-holds', impl=xi, **pub)); continue
                s, d = xi[4:].split(' dst '); d = d.split(' impl=')[0]
                sd = dict(x.split('=') for x in s.split()); dd = dict(x.split('=') for x in d.split())
                if meta:
                    kk = (meta['inst'][0], meta['inst'][3]); pairs_seen[kk] = pairs_seen.get(kk, 0) + 1
                if sd['offs'] not in ('-', ''): rep.nontrivial(line)
                if sd['ext'] != dd['ext']: rep.violation(dict(kind='converted-mapping-has-different-extents', impl=xi, **pub)); continue
                if sd['offs'] != dd['offs']:
                    rep.violation(dict(kind='converted-mapping-maps-a-multi-index-to-a-different-offset', source_offsets=sd['offs'], target_offsets=dd['offs'], **pub)); continue
                if sd['offs'].count(',') >= 3: rep.sample(dict(line=line, result=xi))
            else:
                if xi == 'no-op' or not meta: continue
                d = dict(x.split('=') for x in xi.split())
                if (d['eq'] == '1') == (d['ne'] == '1'):
                    rep.violation(dict(kind='operator!=-is-not-the-negation-of-operator==', impl=xi, **pub)); continue
                i = meta['inst']; a, b = meta['a'], meta['b']
                sa = spec_strides(i[0], i[1], a['ext'], a.get('str'), a.get('pv')); sb = spec_strides(i[3], i[4], b['ext2'], b.get('str2'), b.get('pv2'))
                rep.nontrivial(line)
                if d['eq'] == '1':
                    offs = lambda es, st: [sum(x * y for x, y in zip(ix, st)) for ix in itertools.product(*[range(e) for e in es])]
                    if a['ext'] != b['ext2'] or offs(a['ext'], sa) != offs(b['ext2'], sb):
                        rep.violation(dict(kind='mappings-compare-equal-but-differ-in-extents-or-offsets', impl=xi, **pub)); continue
                if i[0] == i[3] and i[0] in ('left', 'right') and (d['eq'] == '1') != (a['ext'] == b['ext2']):
                    rep.violation(dict(kind='left/right-mappings-equality-differs-from-extents-equality', impl=xi, **pub)); continue
                if a['ext'] == b['ext2'] and sa == sb and d['eq'] != '1' and i[0] == i[3] and i[1] == i[4]:
                    rep.violation(dict(kind='a-mapping-does-not-equal-an-identically-constructed-one', impl=xi, **pub)); continue
                if a['ext'] == b['ext2'] and sa == sb and d['eq'] != '1' and 'stride' in (i[0], i[3]):
                    # b is what converting a to the other mapping type yields (same extents, same strides): "a mapping equals its conversion"
                    rep.violation(dict(kind='a-mapping-does-not-equal-its-conversion-to-layout_stride (same extents and strides)', impl=xi, **pub)); continue
    rep.notes['conversion_pairs_exercised'] = {'%s->%s' % k: v for k, v in sorted(pairs_seen.items())}
    rep.notes['configs'] = configs
    rep.assumptions = ['rejected static combinations (Mandates) are a C16 matter; the static-pattern instantiations here use values that satisfy them', 'values small enough to be representable in both index types']
    return rep.finish(audit)
