// mapping conversion / comparison op family (C08)
#pragma once
#include "mapsrv.hpp"
namespace vh {
template <class A, class B, class = void> struct hasEq : std::false_type {};
template <class A, class B> struct hasEq<A, B, std::void_t<decltype(std::declval<const A&>() == std::declval<const B&>())>> : std::true_type {};
// direct operator== only: exclude comparisons that exist merely through an implicit conversion of one operand
template <class A, class B> constexpr bool directEq() {
  using LA = typename A::layout_type; using LB = typename B::layout_type;
  constexpr bool sameLay = std::is_same_v<LA, LB> ||
      (mdx::detail::is_layout_left_padded_mapping<A>::value && mdx::detail::is_layout_left_padded_mapping<B>::value) ||
      (mdx::detail::is_layout_right_padded_mapping<A>::value && mdx::detail::is_layout_right_padded_mapping<B>::value);
  constexpr bool strideInvolved = std::is_same_v<LA, md::layout_stride> || std::is_same_v<LB, md::layout_stride>;
  return (sameLay || strideInvolved) && A::extents_type::rank() == B::extents_type::rank();
}
template <class M> std::string descMap(const M& m, const std::vector<std::vector<long long>>& idx) {
  using I = typename M::index_type; constexpr size_t R = M::extents_type::rank();
  std::array<I, R> st{}; if constexpr (R > 0) for (size_t r = 0; r < R; r++) st[r] = m.stride(r);
  std::string s = "ext=" + extList(m.extents()) + " str=" + list(st) + " offs=";
  if (idx.empty()) s += "-";
  for (size_t k = 0; k < idx.size(); k++) { if (k) s += ","; s += num(static_cast<I>(callMap(m, idx[k]))); }
  return s;
}
inline std::vector<std::vector<long long>> parseIdxList(const std::string& s) {
  std::vector<std::vector<long long>> out; if (s.empty() || s == "-") return out;
  std::stringstream ss(s); std::string one;
  while (std::getline(ss, one, ';')) out.push_back(one == "e" ? std::vector<long long>{} : parseList(one));
  return out;
}
template <Kind SK, class SE, size_t SSP, Kind DK, class DE, size_t DSP> void regConv(const std::string& kconv, const std::string& keq) {
  using SM = typename MapOf<SK, SE, SSP>::type; using DM = typename MapOf<DK, DE, DSP>::type;
  registry()[kconv] = [](const Op& o) -> std::string {
    if constexpr (std::is_constructible_v<DM, const SM&>) {
      SM sm = makeMap<SK, SE, SSP>(o);
      auto idx = parseIdxList(o.get("idx"));
      DM dm(sm);
      return "src " + descMap(sm, idx) + " dst " + descMap(dm, idx) + " impl=" + num(std::is_convertible_v<const SM&, DM>);
    } else return "no-ctor";
  };
  registry()[keq] = [](const Op& o) -> std::string {
    if constexpr (directEq<SM, DM>() && hasEq<SM, DM>::value) {
      SM a = makeMap<SK, SE, SSP>(o);
      Op o2 = o; o2.ext = parseList(o.get("ext2")); o2.str = parseList(o.get("str2")); o2.kv.erase("pv");
      if (o.kv.count("pv2")) { o2.kv["pv"] = o.get("pv2"); o2.pv = parseNum(o.get("pv2")); }
      DM b = makeMap<DK, DE, DSP>(o2);
      return std::string("eq=") + num(a == b) + " ne=" + num(a != b);
    } else return "no-op";
  };
}
} // namespace vh
