import MdspanVerif.Props.C13
import MdspanVerif.Props.C14
import MdspanVerif.Model.LayoutI
/-!
# C13 — machine level: `mdspan::size()` and `mdspan::empty()`

`size()` folds the extents in `size_t` and returns the result as `size_type`
(`make_unsigned_t<index_type>`).  Both steps are modular, so the machine value is the
mathematical product reduced modulo 2⁶⁴ and then modulo the width of `size_type` — without
any precondition — and it *is* the product whenever the product is representable in `size_type`.
-/
namespace Mdspan

theorem u64_wrap_eq (x : Int) : ITy.u64.wrap x = x % 18446744073709551616 := by
  simp [ITy.wrap, ITy.sgn, ITy.modulus]

/-- the `size_t` fold computes the product modulo 2⁶⁴, whatever the extents are -/
theorem sizeFoldM_eq (es : List Nat) : sizeFoldM (toI es) = ITy.u64.wrap ((prod es : Nat) : Int) := by
  induction es with
  | nil => simp only [toI_nil, sizeFoldM, prod]; decide
  | cons e es ih =>
    simp only [toI_cons, sizeFoldM, prod, ih, u64_wrap_eq]
    rw [Int.natCast_mul, ← Int.mul_emod]

/-- **C13 (machine level), size()**: unconditional — no hypothesis on the extents is needed -/
theorem C13_sizeM_any (T : ITy) (es : List Nat) :
    mdsSizeM T (toI es) = T.toUnsigned.wrap (ITy.u64.wrap ((prod es : Nat) : Int)) := by
  simp only [mdsSizeM, sizeFoldM_eq]

/-- **C13 (machine level), size()** in the form used by the checks (the representability of the
    extents is what the driver guarantees; the proof does not use it) -/
theorem C13_sizeM (T : ITy) (es : List Nat) (_hre : ∀ e ∈ es, (e : Int) ≤ T.hi) :
    mdsSizeM T (toI es) = T.toUnsigned.wrap (ITy.u64.wrap ((prod es : Nat) : Int)) :=
  C13_sizeM_any T es

theorem ITy.toUnsigned_hi_le_u64 (T : ITy) : T.toUnsigned.hi ≤ ITy.u64.hi := by cases T <;> decide

/-- … and the exact product whenever it is representable in `size_type` -/
theorem C13_sizeM_exact (T : ITy) (es : List Nat) (h : ((prod es : Nat) : Int) ≤ T.toUnsigned.hi) :
    mdsSizeM T (toI es) = ((prod es : Nat) : Int) := by
  rw [C13_sizeM_any, ITy.wrap_id .u64 _ (Int.natCast_nonneg _) (Int.le_trans h T.toUnsigned_hi_le_u64),
    ITy.wrap_id _ _ (Int.natCast_nonneg _) h]

/-- in terms of the pure `mdsSize` of C13 -/
theorem C13_sizeM_mdsSize (T : ITy) (es : List Nat) (h : ((mdsSize es : Nat) : Int) ≤ T.toUnsigned.hi) :
    mdsSizeM T (toI es) = ((mdsSize es : Nat) : Int) := by
  rw [C13_size] at h ⊢; exact C13_sizeM_exact T es h

theorem toI_any_zero (es : List Nat) : (toI es).any (· == 0) = foldOr (es.map (· == 0)) := by
  induction es with
  | nil => rfl
  | cons e es ih =>
    have h : ((e : Int) == 0) = (e == 0) := by
      rw [Bool.eq_iff_iff]; simp only [beq_iff_eq]; omega
    simp only [toI_cons, List.any_cons, List.map_cons, foldOr, List.foldr_cons, h] at ih ⊢
    rw [ih]

/-- **C13 (machine level), empty()** -/
theorem C13_emptyM (es : List Nat) : mdsEmptyM (toI es) = mdsEmpty es := by
  simp only [mdsEmptyM, mdsEmpty, toI_any_zero]
  simp [toI]

/-- the wrap is real: 2³² · 2³² in `size_t` is 0; a `signed char` mdspan of 16×16 has size() 0 -/
example : mdsSizeM .u64 (toI [4294967296, 4294967296]) = 0 := by decide
example : mdsSizeM .i8 (toI [16, 16]) = 0 ∧ mdsSizeM .i8 (toI [15, 17]) = 255 := by decide

end Mdspan
