// C++14-only op server (no if constexpr, no fold expressions, no *_v traits): mappings of
// layout_left/right/stride with dynamic extents of rank 0-3 and mdspan observers / access through
// operator() — the configuration in which the fold-expression and concept emulations of the
// library are compiled.
#include <mdspan/mdspan.hpp>
#include <cstdio>
#include <cstdlib>
#include <cstring>
#include <string>
#include <vector>
#include <map>
#include <sstream>
#include <iostream>
#include <functional>
#include <array>
#include <csetjmp>
#include <csignal>
namespace md = Kokkos;
static sigjmp_buf g_jb; static void onTrap(int) { siglongjmp(g_jb, 1); }
typedef std::vector<long long> LL;
static long long parseNum(const std::string& t) { if (t.empty()) return 0; if (t[0] == '-') return (long long)(0ull - std::stoull(t.substr(1))); return (long long)std::stoull(t); }
static LL parseList(const std::string& s) { LL v; if (s == "-" || s.empty()) return v; std::stringstream ss(s); std::string t; while (std::getline(ss, t, ',')) v.push_back(parseNum(t)); return v; }
template <class T> std::string num(T v) { return std::is_signed<T>::value ? std::to_string((long long)v) : std::to_string((unsigned long long)v); }
static std::string numb(bool b) { return b ? "1" : "0"; }
struct Op { std::map<std::string, std::string> kv; std::vector<std::string> tok, plain; LL ext, str, arg; std::string op;
  std::string get(const std::string& k) const { std::map<std::string, std::string>::const_iterator it = kv.find(k); return it == kv.end() ? std::string() : it->second; } };
typedef std::function<std::string(const Op&)> Fn;
static std::map<std::string, Fn>& registry() { static std::map<std::string, Fn> r; return r; }

template <class I, size_t R> struct Dext;
template <class I> struct Dext<I, 0> { typedef md::extents<I> type; static type make(const LL&) { return type(); } template <class M> static I call(const M& m, const LL&) { return (I)m(); } template <class V> static int& ref(const V& v, const LL&) { return v(); } };
template <class I> struct Dext<I, 1> { typedef md::extents<I, md::dynamic_extent> type; static type make(const LL& e) { return type((I)e[0]); } template <class M> static I call(const M& m, const LL& a) { return (I)m((I)a[0]); } template <class V> static int& ref(const V& v, const LL& a) { return v((I)a[0]); } };
template <class I> struct Dext<I, 2> { typedef md::extents<I, md::dynamic_extent, md::dynamic_extent> type; static type make(const LL& e) { return type((I)e[0], (I)e[1]); } template <class M> static I call(const M& m, const LL& a) { return (I)m((I)a[0], (I)a[1]); } template <class V> static int& ref(const V& v, const LL& a) { return v((I)a[0], (I)a[1]); } };
template <class I> struct Dext<I, 3> { typedef md::extents<I, md::dynamic_extent, md::dynamic_extent, md::dynamic_extent> type; static type make(const LL& e) { return type((I)e[0], (I)e[1], (I)e[2]); } template <class M> static I call(const M& m, const LL& a) { return (I)m((I)a[0], (I)a[1], (I)a[2]); } template <class V> static int& ref(const V& v, const LL& a) { return v((I)a[0], (I)a[1], (I)a[2]); } };

template <class I, size_t R> struct StrideList { template <class M> static std::string get(const M& m) { std::string s; for (size_t r = 0; r < R; r++) { if (r) s += ","; s += num<I>(m.stride(r)); } return s; } };
template <class I> struct StrideList<I, 0> { template <class M> static std::string get(const M&) { return "-"; } };
template <class E> std::string extList(const E& e) { if (E::rank() == 0) return "-"; std::string s; for (size_t r = 0; r < E::rank(); r++) { if (r) s += ","; s += num<typename E::index_type>(e.extent(r)); } return s; }

template <class M, class I, size_t R> std::string mapOps(const M& m, const Op& o) {
  if (o.op == "off") return "ok " + num<I>(Dext<I, R>::call(m, o.arg));
  if (o.op == "span") return "ok " + num<I>(m.required_span_size());
  if (o.op == "strides") return "ok " + StrideList<I, R>::get(m);
  if (o.op == "ext") return "ok " + extList(m.extents());
  if (o.op == "flags") return "ok " + numb(m.is_unique()) + "," + numb(m.is_exhaustive()) + "," + numb(m.is_strided()) + "," + numb(M::is_always_unique()) + "," + numb(M::is_always_exhaustive()) + "," + numb(M::is_always_strided());
  return "bad-op";
}
template <class I, size_t R, class L> struct MakeMap { typedef typename L::template mapping<typename Dext<I, R>::type> M; static M make(const Op& o) { return M(Dext<I, R>::make(o.ext)); } };
template <class I, size_t R> struct MakeMap<I, R, md::layout_stride> { typedef md::layout_stride::mapping<typename Dext<I, R>::type> M;
  static M make(const Op& o) { std::array<I, R> s; for (size_t r = 0; r < R; r++) s[r] = (I)o.str[r]; return M(Dext<I, R>::make(o.ext), s); } };
template <class I> struct MakeMap<I, 0, md::layout_stride> { typedef md::layout_stride::mapping<md::extents<I> > M; static M make(const Op&) { return M(md::extents<I>(), std::array<I, 0>()); } };

static int g_buf[2048];
template <class I, size_t R, class L> void reg(const std::string& kind, const std::string& tn) {
  std::string pat = R == 0 ? "-" : R == 1 ? "D" : R == 2 ? "D,D" : "D,D,D";
  registry()["map:" + kind + ":" + tn + ":" + pat] = [](const Op& o) { typedef MakeMap<I, R, L> MM; typename MM::M m = MM::make(o); return mapOps<typename MM::M, I, R>(m, o); };
  // mdspan observers and access through operator(): size() / empty() use the C++14 fold emulations
  registry()["v14:" + kind + ":" + tn + ":" + pat] = [](const Op& o) {
    typedef MakeMap<I, R, L> MM; typedef md::mdspan<int, typename Dext<I, R>::type, L> V;
    V v(g_buf + 5, MM::make(o));
    std::string s = "sz=" + num<typename V::size_type>(v.size()) + " emp=" + numb(v.empty()) + " e=" + extList(v.extents()) + " s=" + StrideList<I, R>::get(v.mapping()) + " rk=" + std::to_string(V::rank()) + "," + std::to_string(V::rank_dynamic());
    if (!o.arg.empty() || R == 0) s += " a=" + std::to_string((long long)(&Dext<I, R>::ref(v, o.arg) - g_buf));
    return s; };
}
template <class I> void regT(const std::string& tn) {
  reg<I, 0, md::layout_left>("left", tn); reg<I, 1, md::layout_left>("left", tn); reg<I, 2, md::layout_left>("left", tn); reg<I, 3, md::layout_left>("left", tn);
  reg<I, 0, md::layout_right>("right", tn); reg<I, 1, md::layout_right>("right", tn); reg<I, 2, md::layout_right>("right", tn); reg<I, 3, md::layout_right>("right", tn);
  reg<I, 0, md::layout_stride>("stride", tn); reg<I, 1, md::layout_stride>("stride", tn); reg<I, 2, md::layout_stride>("stride", tn); reg<I, 3, md::layout_stride>("stride", tn);
}
// ---- extents with mixed static / dynamic patterns, built from all values or from the dynamic values only, as an integer pack or a
//      std::array (C++14: the comma / and folds of the constructors are the emulations of macros.hpp)
template <class E> std::string obsExt(const E& e) {
  std::string s = "rank=" + std::to_string(E::rank()) + " rd=" + std::to_string(E::rank_dynamic()) + " se=";
  if (E::rank() == 0) s += "-";
  for (size_t k = 0; k < E::rank(); k++) { if (k) s += ","; s += E::static_extent(k) == md::dynamic_extent ? std::string("D") : std::to_string(E::static_extent(k)); }
  return s + " e=" + extList(e);
}
template <class E, class S, size_t N> struct FromPack;
template <class E, class S> struct FromPack<E, S, 0> { static E make(const LL&) { return E(); } };
template <class E, class S> struct FromPack<E, S, 1> { static E make(const LL& v) { return E((S)v[0]); } };
template <class E, class S> struct FromPack<E, S, 2> { static E make(const LL& v) { return E((S)v[0], (S)v[1]); } };
template <class E, class S> struct FromPack<E, S, 3> { static E make(const LL& v) { return E((S)v[0], (S)v[1], (S)v[2]); } };
template <class E, class S> struct FromPack<E, S, 4> { static E make(const LL& v) { return E((S)v[0], (S)v[1], (S)v[2], (S)v[3]); } };
template <class E, class S, size_t N> E fromArray(const LL& v) { std::array<S, N> a; for (size_t k = 0; k < N; k++) a[k] = (S)v[k]; return E(a); }
template <class E, class S> void regE(const std::string& tn, const std::string& pat) {
  const std::string base = "ext:" + tn + ":" + tn + ":" + pat;
  registry()[base + ":pack_all"] = [](const Op& o) { LL v = parseList(o.get("vals")); if (v.size() != E::rank()) return std::string("bad-op"); return obsExt(FromPack<E, S, E::rank()>::make(v)); };
  registry()[base + ":pack_dyn"] = [](const Op& o) { LL v = parseList(o.get("vals")); if (v.size() != E::rank_dynamic()) return std::string("bad-op"); return obsExt(FromPack<E, S, E::rank_dynamic()>::make(v)); };
  registry()[base + ":array_all"] = [](const Op& o) { LL v = parseList(o.get("vals")); if (v.size() != E::rank()) return std::string("bad-op"); return obsExt(fromArray<E, S, E::rank()>(v)); };
  registry()[base + ":array_dyn"] = [](const Op& o) { LL v = parseList(o.get("vals")); if (v.size() != E::rank_dynamic()) return std::string("bad-op"); return obsExt(fromArray<E, S, E::rank_dynamic()>(v)); };
}
template <class I> void regET(const std::string& tn) {
  const size_t D = md::dynamic_extent;
  regE<md::extents<I, D, 3, D>, I>(tn, "D,3,D"); regE<md::extents<I, 2, D, D>, I>(tn, "2,D,D"); regE<md::extents<I, D, D, 4>, I>(tn, "D,D,4");
  regE<md::extents<I, D, 3>, I>(tn, "D,3"); regE<md::extents<I, D, D, D>, I>(tn, "D,D,D"); regE<md::extents<I, D, 3, D, D>, I>(tn, "D,3,D,D"); regE<md::extents<I, 2, 3>, I>(tn, "2,3");
}
int main() {
  regET<int>("i32"); regET<unsigned char>("u8"); regET<long>("i64");
  regT<int>("i32"); regT<unsigned char>("u8"); regT<long>("i64"); regT<short>("i16"); regT<unsigned long>("u64");
  struct sigaction sa; memset(&sa, 0, sizeof sa); sa.sa_handler = onTrap; sigemptyset(&sa.sa_mask); sa.sa_flags = SA_NODEFER;
  sigaction(SIGILL, &sa, nullptr); sigaction(SIGFPE, &sa, nullptr); sigaction(SIGTRAP, &sa, nullptr);
  std::string line; setvbuf(stdout, nullptr, _IOLBF, 1 << 16);
  while (std::getline(std::cin, line)) {
    Op o; std::stringstream ss(line); std::string t;
    while (ss >> t) o.tok.push_back(t);
    for (size_t i = 0; i < o.tok.size(); i++) { const std::string& x = o.tok[i]; size_t p = x.find('='); if (p != std::string::npos) o.kv[x.substr(0, p)] = x.substr(p + 1); else if (i >= 3) o.plain.push_back(x); }
    o.ext = parseList(o.get("ext")); o.str = parseList(o.get("str"));
    if (!o.plain.empty()) o.op = o.plain[0]; if (o.plain.size() >= 2) o.arg = parseList(o.plain[1]);
    std::string key = o.tok.size() >= 3 ? o.tok[0] + ":" + o.tok[1] + ":" + o.tok[2] + ":" + o.get("pat") : std::string();
    if (o.kv.count("k")) key += ":" + o.get("k");
    std::map<std::string, Fn>::iterator it = registry().find(key);
    if (it == registry().end()) { puts("no-inst"); continue; }
    if (sigsetjmp(g_jb, 1) == 0) puts(it->second(o).c_str()); else puts("ub");
  }
  return 0;
}
