import MdspanVerif.Model.Int
import MdspanVerif.Model.Extents
/-!
# Object sizes of the vocabulary types under `[[no_unique_address]]` (Itanium ABI, LP64)

Closed formulas — the ABI model of C18.  `z = sizeof(index_type)`, `d = rank_dynamic()`,
`r = rank()`.  They are not derived from the ABI in Lean: they are the model, and the
correspondence compares them with `sizeof` / `is_empty_v` on the real types.
-/
namespace Mdspan

def ITy.size : ITy → Nat
  | .i8 | .u8 => 1 | .i16 | .u16 => 2 | .i32 | .u32 => 4 | .i64 | .u64 => 8

/-- round `x` up to a multiple of `a` -/
def upTo (x a : Nat) : Nat := ((x + a - 1) / a) * a

/-- `extents<I, E...>`: only the dynamic values are stored (`possibly_empty_array`) -/
def sizeofExt (T : ITy) (p : Pattern) : Nat := max 1 (rankDyn p * T.size)
def isEmptyExt (p : Pattern) : Bool := rankDyn p == 0

/-- `layout_left/right::mapping<E>`: the extents and nothing else -/
def sizeofLR (T : ITy) (p : Pattern) : Nat := sizeofExt T p
def isEmptyLR (p : Pattern) : Bool := isEmptyExt p

/-- `layout_stride::mapping<E>`: `__compressed_pair<extents, strides>`: `rank()` more index values;
    rank 0 is an empty class -/
def sizeofStride (T : ITy) (p : Pattern) : Nat :=
  if p.length = 0 then 2 else (rankDyn p + p.length) * T.size
def isEmptyStride (p : Pattern) : Bool := p.length == 0

/-- padded mappings: members `padded_stride` (a one-element `maybe_static_array`, empty when the
    padded stride is static or rank ≤ 1) and `exts`, neither `[[no_unique_address]]`:
    `psDyn` = the padded stride is a run-time value -/
def sizeofPadded (T : ITy) (p : Pattern) (psDyn : Bool) : Nat :=
  if psDyn then upTo (T.size + max 1 (rankDyn p * T.size)) T.size
  else if rankDyn p = 0 then 2 else upTo (1 + rankDyn p * T.size) T.size

/-- the padded stride is a run-time value iff rank > 1 and (padding dynamic or extent-to-pad dynamic) -/
def paddedStrideDyn (sp se : Option Nat) (rank : Nat) : Bool :=
  decide (rank > 1) && (sp.isNone || se.isNone)

/-- data size (size without tail padding) of a padded mapping: only the combination "run-time
    padded stride, no dynamic extent" ends in padding bytes that a following member may reuse -/
def dsizePadded (T : ITy) (p : Pattern) (psDyn : Bool) : Nat :=
  if psDyn && rankDyn p == 0 then T.size + 1 else sizeofPadded T p psDyn

/-- `mdspan<T, E, L, A>` with a pointer handle: handle, then the non-empty mapping
    (`[[no_unique_address]]`: its tail padding may hold the accessor), then the non-empty accessor -/
def sizeofMds (mapDsize : Nat) (mapEmpty : Bool) (accSize accAlign : Nat) (accEmpty : Bool) : Nat :=
  let afterMap := 8 + (if mapEmpty then 0 else mapDsize)
  upTo (if accEmpty then afterMap else upTo afterMap accAlign + accSize) 8

end Mdspan
