#!/bin/bash
# usage: tools/with_patch.sh <patch.diff> <cmd...>   applies the patch to /repo, runs cmd, always reverts
P=$1; shift
git -C /repo apply "$P" || { echo "patch does not apply"; exit 3; }
"$@"; rc=$?
git -C /repo checkout -- . ; exit $rc
