import MdspanVerif.Model.Types2
/-!
# C17 — deduction guides, `dextents`, member types (type-level rules)

The class-template-argument-deduction results and the member types are compile-time facts about
C++ types; the model states the rules on descriptors and proves the parts that are computed by
recursion (`__make_dextents`) or that relate two rules (`size_type`).
-/
namespace Mdspan

/-- `detail::__make_dextents<I, Rank, extents<I, Pack...>>`: prepends `dynamic_extent`, `Rank` times -/
def makeDextentsGo : Nat → Pattern → Pattern
  | 0, pack => pack
  | n + 1, pack => makeDextentsGo n (none :: pack)
/-- `dextents<I, Rank>` -/
def makeDextents (rank : Nat) : Pattern := makeDextentsGo rank []

theorem makeDextentsGo_eq : ∀ (n : Nat) (pack : Pattern), makeDextentsGo n pack = List.replicate n none ++ pack
  | 0, pack => by simp [makeDextentsGo]
  | n + 1, pack => by
    rw [makeDextentsGo, makeDextentsGo_eq n (none :: pack), List.replicate_succ']
    simp

/-- **C17 (`dextents`)**: `dextents<I, N>` is `extents<I, dynamic_extent × N>`, for every `N` -/
theorem C17_dextents (n : Nat) : makeDextents n = List.replicate n none := by
  simp [makeDextents, makeDextentsGo_eq]
theorem C17_dextents_rank (n : Nat) : (makeDextents n).length = n ∧ rankDyn (makeDextents n) = n := by
  rw [C17_dextents]; simp [rankDyn]

/-- the deduction guides as functions of what the arguments' types say: the deduced extents type
    is `(index type, pattern)`, `u64` standing for `size_t` -/
def ctadExtentsFromInts (nargs : Nat) : ExtT := ⟨.u64, List.replicate nargs none⟩       -- extents(ints...)
def ctadMdspanFromInts (nargs : Nat) : ExtT := ⟨.u64, makeDextents nargs⟩              -- mdspan(ptr, ints...)
def ctadMdspanFromArray (n : Nat) : ExtT := ⟨.u64, makeDextents n⟩                     -- mdspan(ptr, array<T,N>) / span
def ctadMdspanFromPointer : ExtT := ⟨.u64, []⟩                                         -- mdspan(ptr): rank 0
def ctadMdspanFromCArray (n : Nat) : ExtT := ⟨.u64, [some n]⟩                           -- mdspan(T(&)[N])
def ctadMdspanFromExtents (e : ExtT) : ExtT := e                                        -- mdspan(ptr, extents)
def ctadMdspanFromMapping (m : MapT) : MapT := m                                        -- mdspan(ptr, mapping): extents and layout of the mapping

/-- **C17 (CTAD)**: `extents(ints...)` and `mdspan(ptr, ints...)` deduce `dextents<size_t, N>` -/
theorem C17_ctad_ints (n : Nat) :
    ctadExtentsFromInts n = ⟨.u64, List.replicate n none⟩ ∧ ctadMdspanFromInts n = ctadExtentsFromInts n ∧
    (ctadMdspanFromInts n).pat.length = n := by
  simp [ctadExtentsFromInts, ctadMdspanFromInts, C17_dextents]

/-- `size_type` is the unsigned counterpart of `index_type`: same width, unsigned, idempotent -/
theorem C17_size_type (T : ITy) :
    T.toUnsigned.bits = T.bits ∧ T.toUnsigned.sgn = false ∧ T.toUnsigned.toUnsigned = T.toUnsigned ∧
    (T.sgn = false → T.toUnsigned = T) := by
  cases T <;> simp [ITy.toUnsigned, ITy.bits, ITy.sgn]
/-- every non-negative `index_type` value is a `size_type` value -/
theorem C17_size_type_holds (T : ITy) : T.hi ≤ T.toUnsigned.hi := by cases T <;> decide

example : makeDextents 3 = [none, none, none] := by decide
example : ctadMdspanFromCArray 7 = ⟨.u64, [some 7]⟩ := rfl

end Mdspan
