import MdspanVerif.Model.Types
import MdspanVerif.Model.Layout
/-!
# Type-level rules (C16, part 2): mappings, accessors, mdspan, index/extent argument packs

Descriptors of the *types* involved (`MapT`, `AccT`, `MdsT`) and, for each converting constructor,

* `Impl.*`: the constraint (`requires` / `MDSPAN_TEMPLATE_REQUIRES`) and the `explicit(...)`
  (`MDSPAN_CONDITIONAL_EXPLICIT`) expression **as the headers write them**, overload by overload;
  the `static_assert`s in the constructor bodies are a separate predicate (`Impl.mapHardError`):
  a failing `static_assert` is a hard error, not a substitution failure, so
  `std::is_constructible_v` / `std::is_convertible_v` do not see it.
* `Spec.*`: the rules as the specification (DESIGN.md, appendix B) states them.

Sources mirrored (`/repo/include/experimental`):
* `__p0009_bits/layout_left.hpp` 79-171, `layout_right.hpp` 82-172
* `__p0009_bits/layout_stride.hpp` 351-377 (the "any unique strided mapping" constructor)
* `__p2642_bits/layout_padded.hpp` 43-62 (`get_actual_static_padding_value`), 149-152 / 482-485
  (class-level `static_assert`), 248-323 and 578-652 (converting constructors)
* `__p2642_bits/layout_padded_fwd.hpp` 36-103 (`layout_padded_constants`,
  `is_layout_{left,right}_padded_mapping`, `check_padded_layout_converting_constructor_mandates`)
* `__p0009_bits/mdspan.hpp` 116-206 (constructors), 220-320 (`operator[]`, `operator()`)
* `__p0009_bits/default_accessor.hpp` 34-41
* `__p0009_bits/extents.hpp` 58-64 (`are_valid_indices`), 423-460 (`extents(ints…)`, array, span)

Everything is for C++17 and later (the padded layouts and the `padded → left/right` constructors do
not exist before); `explicit(...)` is only honoured from C++20 on (`MDSPAN_CONDITIONAL_EXPLICIT`
expands to nothing before), i.e. before C++20 `is_convertible = is_constructible`.
-/
namespace Mdspan

/-! ## descriptors -/

/-- a layout policy; the padding value of the padded layouts is `none` for `dynamic_extent` -/
inductive LayK
  | left | right | stride
  | lpad (p : Option Nat)
  | rpad (p : Option Nat)
deriving DecidableEq, Repr

/-- `Layout::mapping<Extents>` -/
structure MapT where
  lay : LayK
  ext : ExtT
deriving DecidableEq, Repr

/-- an element type: an opaque, non-class, non-array object type `base` (a type id), possibly
    `const`-qualified (no `volatile`) -/
structure ElemT where
  base : Nat
  isConst : Bool
deriving DecidableEq, Repr

/-- `default_accessor<elem>` -/
structure AccT where
  elem : ElemT
deriving DecidableEq, Repr

/-- `mdspan<elem, map.ext, map.lay, acc>` -/
structure MdsT where
  elem : ElemT
  map : MapT
  acc : AccT
deriving DecidableEq, Repr

/-- the class-level `static_assert(is_same_v<ElementType, typename AccessorPolicy::element_type>)` -/
def MdsT.WF (m : MdsT) : Prop := m.acc.elem = m.elem
instance (m : MdsT) : Decidable m.WF := by unfold MdsT.WF; infer_instance

/-- `extents::rank()` -/
def ExtT.rank (t : ExtT) : Nat := t.pat.length
/-- `extents::rank_dynamic()` -/
def ExtT.rankDynamic (t : ExtT) : Nat := rankDyn t.pat
/-- `extents::static_extent(r)`, `none` = `dynamic_extent` (also out of range; the library only
    evaluates it in range, or for rank 0 where the padded layouts read a harmless value) -/
def ExtT.staticExtent (t : ExtT) (r : Nat) : Option Nat := (t.pat[r]?).getD none
def MapT.rank (m : MapT) : Nat := m.ext.rank

/-- is the layout one of the two padded families -/
def LayK.isPadded : LayK → Bool
  | .lpad _ | .rpad _ => true
  | _ => false
/-- `padding_value` of a padded layout (`none` for `dynamic_extent`; `none` for the others too) -/
def LayK.padding : LayK → Option Nat
  | .lpad p | .rpad p => p
  | _ => none
/-- both `layout_left_padded<_>` or both `layout_right_padded<_>` -/
def LayK.samePaddedFamily : LayK → LayK → Bool
  | .lpad _, .lpad _ | .rpad _, .rpad _ => true
  | _, _ => false

/-- `layout_padded_constants<Layout, Extents>::extent_to_pad_idx`: 0 for left_padded,
    `rank - 1` for right_padded (only used for rank > 1) -/
def LayK.extentToPadIdx : LayK → Nat → Nat
  | .rpad _, rank => rank - 1
  | _, _ => 0

namespace Impl

/-! ## padded layouts: static padding stride, well-formed types -/

/-- `get_actual_static_padding_value<Extents, PaddingValue, ExtentToPadIdx>()`
    (= `static_padding_stride`), `none` = `dynamic_extent`:
    `rank <= 1 → 0`; both static → `find_next_multiple(padding, static_extent(idx))`; else dynamic.
    (`size_t` arithmetic is taken to be exact.) -/
def staticPaddingStride (P : Option Nat) (E : ExtT) (idx : Nat) : Option Nat :=
  if E.rank ≤ 1 then some 0
  else match P, E.staticExtent idx with
    | some p, some e => some (findNextMultiple p e)
    | _, _ => none

/-- the class-level `static_assert((padding_value != 0) || (static_extent(extent_to_pad_idx) == 0)
    || (static_extent(extent_to_pad_idx) == dynamic_extent))` of the padded mappings
    (layout_padded.hpp 149-152, 482-485); every other mapping type is well-formed -/
def mapTypeOK (m : MapT) : Bool :=
  match m.lay with
  | .lpad P | .rpad P =>
    P != some 0 ||
      (match m.ext.staticExtent (m.lay.extentToPadIdx m.ext.rank) with
       | none => true
       | some e => e == 0)
  | _ => true

/-! ## converting constructors, overload by overload

Each function returns `(constraint, explicit-expression)` of the constructor template of the
destination class that can bind the given source mapping type (`(false, false)` where the
destination has no constructor taking that source).  `std::is_constructible<extents_type,
OtherExtents>` is `extConstructible`, `std::is_convertible<OtherExtents, extents_type>` is
`extConvertible`. -/

/-- `layout_left::mapping<E>` (layout_left.hpp) -/
def leftCtor (E : ExtT) (s : MapT) : Bool × Bool :=
  match s.lay with
  | .left =>     -- 79-87: `mapping(mapping<OtherExtents> const&)`
    (extConstructible E s.ext, !extConvertible E s.ext)
  | .right =>    -- 96-105: `mapping(layout_right::mapping<OtherExtents> const&)`
    (extConstructible E s.ext && decide (E.rank ≤ 1), !extConvertible E s.ext)
  | .lpad _ =>   -- 124-133: `is_layout_left_padded_mapping<_Mapping>::value && is_constructible_v<…>`
    (true && extConstructible E s.ext, !extConvertible E s.ext)
  | .stride =>   -- 145-153: `mapping(layout_stride::mapping<OtherExtents> const&)`
    (extConstructible E s.ext, decide (E.rank > 0))
  | .rpad _ => (false, false)

/-- `layout_right::mapping<E>` (layout_right.hpp) -/
def rightCtor (E : ExtT) (s : MapT) : Bool × Bool :=
  match s.lay with
  | .right =>    -- 82-90
    (extConstructible E s.ext, !extConvertible E s.ext)
  | .left =>     -- 99-108
    (extConstructible E s.ext && decide (E.rank ≤ 1), !extConvertible E s.ext)
  | .rpad _ =>   -- 127-134
    (true && extConstructible E s.ext, !extConvertible E s.ext)
  | .stride =>   -- 146-154
    (extConstructible E s.ext, decide (E.rank > 0))
  | .lpad _ => (false, false)

/-- `M::is_always_unique()` / `M::is_always_strided()` of the five mappings: all `true` -/
def alwaysUnique (_ : LayK) : Bool := true
def alwaysStrided (_ : LayK) : Bool := true
/-- `detail::__is_mapping_of<Layout, Mapping>` -/
def isMappingOf (l : LayK) (m : MapT) : Bool := decide (m.lay = l)

/-- `layout_stride::mapping<E>(StridedLayoutMapping const&)` (layout_stride.hpp 351-377).
    Constraint (pre-concepts spelling; the C++20 spelling replaces the second conjunct by
    `__layout_mapping_alike<M>`, true for the five mappings):
    `is_constructible<extents_type, M::extents_type> && __is_mapping_of<M::layout_type, M> &&
     M::is_always_unique() && M::is_always_strided()`;
    explicit: `!(is_convertible<M::extents_type, extents_type> &&
      (__is_mapping_of<layout_left, M> || __is_mapping_of<layout_right, M> ||
       __is_mapping_of<layout_stride, M>))` -/
def strideCtor (E : ExtT) (s : MapT) : Bool × Bool :=
  (extConstructible E s.ext && isMappingOf s.lay s && alwaysUnique s.lay && alwaysStrided s.lay,
   !(extConvertible E s.ext &&
      (isMappingOf .left s || isMappingOf .right s || isMappingOf .stride s)))

/-- `layout_left_padded<P>::mapping<E>` (layout_padded.hpp 248-323) -/
def lpadCtor (P : Option Nat) (E : ExtT) (s : MapT) : Bool × Bool :=
  match s.lay with
  | .left =>     -- 248-255
    (extConstructible E s.ext, !extConvertible E s.ext)
  | .stride =>   -- 268-275
    (extConstructible E s.ext, decide (E.rank > 0))
  | .lpad Q =>   -- 287-296: `rank() > 1 && (padding_value == dyn || _Mapping::padding_value == dyn)`
    (true && extConstructible E s.ext, decide (E.rank > 1) && (P.isNone || Q.isNone))
  | .rpad _ =>   -- 310-320: `is_layout_right_padded_mapping && rank() <= 1 && is_constructible_v`
    (true && decide (E.rank ≤ 1) && extConstructible E s.ext, !extConvertible E s.ext)
  | .right => (false, false)

/-- `layout_right_padded<P>::mapping<E>` (layout_padded.hpp 578-652) -/
def rpadCtor (P : Option Nat) (E : ExtT) (s : MapT) : Bool × Bool :=
  match s.lay with
  | .right =>    -- 578-585
    (extConstructible E s.ext, !extConvertible E s.ext)
  | .stride =>   -- 598-605
    (extConstructible E s.ext, decide (E.rank > 0))
  | .rpad Q =>   -- 616-626
    (true && extConstructible E s.ext, decide (E.rank > 1) && (P.isNone || Q.isNone))
  | .lpad _ =>   -- 640-649
    (true && decide (E.rank ≤ 1) && extConstructible E s.ext, !extConvertible E s.ext)
  | .left => (false, false)

/-- the converting-constructor template of `dst` that can bind a `src` -/
def mapCtor (d s : MapT) : Bool × Bool :=
  match d.lay with
  | .left => leftCtor d.ext s
  | .right => rightCtor d.ext s
  | .stride => strideCtor d.ext s
  | .lpad P => lpadCtor P d.ext s
  | .rpad P => rpadCtor P d.ext s

/-- `std::is_constructible_v<Dst, const Src&>`.  `dst = src` selects the (non-template, implicit,
    defaulted) copy constructor, which overload resolution prefers to any template. -/
def mapConstructible (d s : MapT) : Bool :=
  if d = s then true else (mapCtor d s).1
/-- a converting constructor is selected and it is `explicit` (C++20 and later) -/
def mapExplicit (d s : MapT) : Bool :=
  if d = s then false else (mapCtor d s).1 && (mapCtor d s).2
/-- `std::is_convertible_v<const Src&, Dst>` (C++20 and later) -/
def mapConvertible (d s : MapT) : Bool := mapConstructible d s && !mapExplicit d s

/-! ## the `static_assert`s in the constructor bodies (Mandates) -/

/-- `check_padded_layout_converting_constructor_mandates<E, PaddedMapping>()` **fails**
    (layout_padded_fwd.hpp 85-103), called by `layout_left(left_padded)` / `layout_right(right_padded)`:
    for `rank > 1`, if `E::static_extent(idx)`, `F::static_extent(idx)` and the source's
    `padding_value` are all static: `padding_value == 0 ? E_idx == 0 : E_idx % padding_value == 0` -/
def paddedToPlainMandateFails (E F : ExtT) (Q : Option Nat) (idx : Nat) : Bool :=
  decide (E.rank > 1) &&
    match E.staticExtent idx, F.staticExtent idx, Q with
    | some e, some _, some q => if q = 0 then e != 0 else e % q != 0
    | _, _, _ => false

/-- the `static_assert` of `left_padded<P>::mapping<E>(layout_left::mapping<F> const&)` **fails**
    (layout_padded.hpp 259-260, 589-590, as corrected):
    `(F::rank() <= 1) || (static_padding_stride == dyn) || (F::static_extent(idx) == dyn) ||
     (static_padding_stride == F::static_extent(idx))` -/
def plainToPaddedAssertFails (P : Option Nat) (E F : ExtT) (idx : Nat) : Bool :=
  !(decide (F.rank ≤ 1) || (staticPaddingStride P E idx).isNone || (F.staticExtent idx).isNone ||
    (staticPaddingStride P E idx == F.staticExtent idx))

/-- the `static_assert` of `left_padded<P>(left_padded<Q>)` **fails** (300-302, 630-632):
    `padding_value == dyn || _Mapping::padding_value == dyn || padding_value == _Mapping::padding_value` -/
def paddedToPaddedAssertFails (P Q : Option Nat) : Bool :=
  !(P.isNone || Q.isNone || P == Q)

/-- the selected converting constructor exists but instantiating its body is a hard error.
    (The copy constructor has no body; the other constructors have no `static_assert`.) -/
def mapHardError (d s : MapT) : Bool :=
  if d = s then false
  else mapConstructible d s &&
    match d.lay, s.lay with
    | .left, .lpad Q => paddedToPlainMandateFails d.ext s.ext Q (s.lay.extentToPadIdx d.ext.rank)
    | .right, .rpad Q => paddedToPlainMandateFails d.ext s.ext Q (s.lay.extentToPadIdx d.ext.rank)
    | .lpad P, .left => plainToPaddedAssertFails P d.ext s.ext (d.lay.extentToPadIdx d.ext.rank)
    | .rpad P, .right => plainToPaddedAssertFails P d.ext s.ext (d.lay.extentToPadIdx d.ext.rank)
    | .lpad P, .lpad Q => paddedToPaddedAssertFails P Q
    | .rpad P, .rpad Q => paddedToPaddedAssertFails P Q
    | _, _ => false

/-! ## accessor and mdspan -/

/-- `default_accessor<T>(default_accessor<U>)`: `is_convertible<U(*)[], T(*)[]>` — a qualification
    conversion of a pointer to array of unknown bound: same type up to added `const`.  The
    constructor is not `explicit`. -/
def accConstructible (d s : AccT) : Bool :=
  decide (s.elem.base = d.elem.base) && (!s.elem.isConst || d.elem.isConst)
def accExplicit (_ _ : AccT) : Bool := false
def accConvertible (d s : AccT) : Bool := accConstructible d s && !accExplicit d s

/-- `is_constructible<T*, U*>` for the opaque non-class element types of `ElemT` -/
def handleConstructible (d s : ElemT) : Bool :=
  decide (s.base = d.base) && (!s.isConst || d.isConst)

/-- `mdspan(const mdspan<OtherElementType, OtherExtents, OtherLayoutPolicy, OtherAccessor>&)`
    (mdspan.hpp 185-197): `is_constructible<mapping_type, const OtherMapping&> &&
    is_constructible<accessor_type, const OtherAccessor&>`.  For `dst = src` (copy constructor)
    both conjuncts hold anyway. -/
def mdsConstructible (d s : MdsT) : Bool :=
  mapConstructible d.map s.map && accConstructible d.acc s.acc
/-- `explicit(!is_convertible<const OtherMapping&, mapping_type> ||
             !is_convertible<const OtherAccessor&, accessor_type>)`, when the constructor is viable -/
def mdsExplicit (d s : MdsT) : Bool :=
  mdsConstructible d s && (!mapConvertible d.map s.map || !accConvertible d.acc s.acc)
def mdsConvertible (d s : MdsT) : Bool := mdsConstructible d s && !mdsExplicit d s

/-- hard errors of the mdspan converting constructor: its two `static_assert`s (200-201:
    data handle constructible, extents constructible) and the body of the mapping constructor it
    calls -/
def mdsHardError (d s : MdsT) : Bool :=
  decide (d ≠ s) && mdsConstructible d s &&
    (!handleConstructible d.acc.elem s.acc.elem || !extConstructible d.map.ext s.map.ext ||
      mapHardError d.map s.map)

/-! ## index / extent argument packs

`allConvertible` = every argument type is `is_convertible` to `index_type`, `allNothrow` = every one
is `is_nothrow_constructible` into it (`detail::are_valid_indices` is exactly that conjunction). -/

/-- `extents(OtherIndexTypes...)` (extents.hpp 423-434), for at least one argument (with none the
    defaulted default constructor is used) -/
def indexArgsOK (rank rankDyn nargs : Nat) (allConvertible allNothrow : Bool) : Bool :=
  allConvertible && allNothrow && (nargs == rank || nargs == rankDyn)

/-- `mapping::operator()(Indices...)` of the five mappings, `mdspan::operator[](SizeTypes...)`
    (C++23), `mdspan::operator()(SizeTypes...)`: `sizeof...(Indices) == rank() && are_valid_indices` -/
def indexCallOK (rank nargs : Nat) (allConvertible allNothrow : Bool) : Bool :=
  nargs == rank && (allConvertible && allNothrow)

/-- `extents(const array<T, N>&)` / `extents(span<T, N>)` (436-460): `T const&` convertible and
    nothrow-constructible, `N == rank() || N == rank_dynamic()` -/
def arrayArgOK (rank rankDyn N : Nat) (convertible nothrow : Bool) : Bool :=
  convertible && nothrow && (N == rank || N == rankDyn)
/-- `explicit(N != rank_dynamic())` of the array / span constructors of `extents` and `mdspan` -/
def arrayArgExplicit (rankDyn N : Nat) : Bool := N != rankDyn

/-- `is_constructible<mapping_type, extents_type>`: `layout_stride::mapping` has no constructor from
    extents alone, the other four have -/
def mapFromExtents : LayK → Bool
  | .stride => false
  | _ => true

/-- `mdspan(data_handle_type, SizeTypes...)` (mdspan.hpp 116-129; always `explicit`):
    count, `are_valid_indices`, `is_constructible<mapping_type, extents_type>` and a default
    constructible accessor (true for `default_accessor`) -/
def mdsIndexCtorOK (m : MdsT) (nargs : Nat) (allConvertible allNothrow : Bool) : Bool :=
  (nargs == m.map.ext.rank || nargs == m.map.ext.rankDynamic) && (allConvertible && allNothrow) &&
    mapFromExtents m.map.lay && true
/-- `mdspan(data_handle_type, const array<T,N>&)` / `span` (131-162) -/
def mdsArrayCtorOK (m : MdsT) (N : Nat) (convertible nothrow : Bool) : Bool :=
  convertible && nothrow && (N == m.map.ext.rank || N == m.map.ext.rankDynamic) &&
    mapFromExtents m.map.lay && true

end Impl

/-! ## the specification (DESIGN.md appendix B) -/

namespace Spec

/-- `E ⊑ F`: equal rank and pointwise `E_k = dyn ∨ F_k = dyn ∨ E_k = F_k` -/
def extSub (E F : ExtT) : Bool :=
  E.pat.length == F.pat.length &&
    (E.pat.zip F.pat).all (fun ab => ab.1.isNone || ab.2.isNone || ab.1 == ab.2)
/-- `expl(E,F)`: some dynamic extent becomes static, or the index range narrows -/
def extExpl (E F : ExtT) : Bool :=
  (E.pat.zip F.pat).any (fun ab => ab.1.isSome && ab.2.isNone) || decide (E.idx.hi < F.idx.hi)
/-- `E ⊑ᵢ F` -/
def extSubI (E F : ExtT) : Bool := extSub E F && !extExpl E F

/-- a table row: participates iff `part`, and then explicit iff `expl` -/
def row (part expl : Bool) : Option Bool := if part then some expl else none

/-- the rule table: `none` = no conversion, `some true` = explicit, `some false` = implicit -/
def mapRule (d s : MapT) : Option Bool :=
  let E := d.ext
  let F := s.ext
  let r := E.pat.length
  if d = s then some false   -- identity: the copy constructor
  else match d.lay, s.lay with
    -- left / right from the same layout
    | .left, .left | .right, .right => row (extSub E F) (!extSubI E F)
    -- from the other of left / right
    | .left, .right | .right, .left => row (extSub E F && decide (r ≤ 1)) (!extSubI E F)
    -- from stride
    | .left, .stride | .right, .stride => row (extSub E F) (decide (r > 0))
    -- left from left_padded, right from right_padded
    | .left, .lpad _ | .right, .rpad _ => row (extSub E F) (!extSubI E F)
    -- stride from any unique strided mapping
    | .stride, k =>
      row (extSub E F) (!(extSubI E F && (k == .left || k == .right || k == .stride)))
    -- left_padded from left, right_padded from right
    | .lpad _, .left | .rpad _, .right => row (extSub E F) (!extSubI E F)
    | .lpad _, .stride | .rpad _, .stride => row (extSub E F) (decide (r > 0))
    -- same padded family
    | .lpad P, .lpad Q | .rpad P, .rpad Q =>
      row (extSub E F) (decide (r > 1) && (P == none || Q == none))
    -- the other padded family
    | .lpad _, .rpad _ | .rpad _, .lpad _ => row (extSub E F && decide (r ≤ 1)) (!extSubI E F)
    | _, _ => none

def mapConstructible (d s : MapT) : Bool := (mapRule d s).isSome
def mapExplicit (d s : MapT) : Bool := mapRule d s == some true
def mapConvertible (d s : MapT) : Bool := mapRule d s == some false

/-- static padded stride of a padded mapping type (P2642 *static-padding-stride*) -/
def staticPaddingStride (P : Option Nat) (E : ExtT) (idx : Nat) : Option Nat :=
  if E.pat.length ≤ 1 then some 0
  else match P, (E.pat[idx]?).getD none with
    | some p, some e => some (if p = 0 then 0 else (e + p - 1) / p * p)   -- least multiple of p ≥ e
    | _, _ => none

/-- Mandates violated (the conversion participates but the program is ill-formed):
    * left ← left_padded⟨Q⟩ (right ← right_padded): rank > 1, `E_pad`, `F_pad`, `Q` static and
      `E_pad mod Q ≠ 0` (`Q = 0`: `E_pad ≠ 0`);
    * left_padded⟨P⟩ ← left: rank > 1, the static padded stride of the target and `F_pad` both
      static and different;
    * left_padded⟨P⟩ ← left_padded⟨Q⟩: `P`, `Q` static and different. -/
def mapMandateViolated (d s : MapT) : Bool :=
  let E := d.ext
  let F := s.ext
  let r := E.pat.length
  let idx : Nat := match d.lay, s.lay with
    | .right, _ | .rpad _, _ => r - 1
    | _, _ => 0
  decide (d ≠ s) && mapConstructible d s &&
    match d.lay, s.lay with
    | .left, .lpad Q | .right, .rpad Q =>
      decide (r > 1) &&
        (match (E.pat[idx]?).getD none, (F.pat[idx]?).getD none, Q with
         | some e, some _, some q => e % q != 0
         | _, _, _ => false)
    | .lpad P, .left | .rpad P, .right =>
      decide (r > 1) &&
        (match staticPaddingStride P E idx, (F.pat[idx]?).getD none with
         | some a, some b => a != b
         | _, _ => false)
    | .lpad P, .lpad Q | .rpad P, .rpad Q =>
      (match P, Q with
       | some p, some q => p != q
       | _, _ => false)
    | _, _ => false

/-- `default_accessor<T>` from `default_accessor<U>` iff `U(*)[] → T(*)[]`: same type up to added
    `const` -/
def accConstructible (d s : AccT) : Prop :=
  s.elem.base = d.elem.base ∧ (s.elem.isConst = true → d.elem.isConst = true)

/-- index / extent packs: every argument convertible and nothrow-constructible, count `= rank` or
    `rank_dynamic` -/
def indexArgsOK (rank rankDyn nargs : Nat) (allConvertible allNothrow : Bool) : Prop :=
  allConvertible = true ∧ allNothrow = true ∧ (nargs = rank ∨ nargs = rankDyn)
/-- calls (`operator()`, `operator[]`): count `= rank` -/
def indexCallOK (rank nargs : Nat) (allConvertible allNothrow : Bool) : Prop :=
  allConvertible = true ∧ allNothrow = true ∧ nargs = rank
/-- array / span: explicit iff `N ≠ rank_dynamic` -/
def arrayArgExplicit (rankDyn N : Nat) : Prop := N ≠ rankDyn

end Spec

end Mdspan
