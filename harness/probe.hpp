// compile-time probes: canonical strings for types produced by the library
#pragma once
#include "vh.hpp"
#include <tuple>
namespace vh {
template <class L> const char* layName() {
  return std::is_same_v<L, md::layout_left> ? "left" : std::is_same_v<L, md::layout_right> ? "right" : std::is_same_v<L, md::layout_stride> ? "stride" : "other";
}
template <class E> std::string patOf() {
  if (E::rank() == 0) return "-";
  std::string s; for (size_t k = 0; k < E::rank(); k++) { if (k) s += ","; s += E::static_extent(k) == md::dynamic_extent ? std::string("D") : std::to_string(E::static_extent(k)); } return s;
}
// an accessor whose offset_policy is a different type
template <class T> struct OffAcc;
template <class T> struct OffPol {
  using offset_policy = OffPol; using element_type = T; using reference = T&; using data_handle_type = T*;
  constexpr OffPol() noexcept = default;
  constexpr OffPol(const OffAcc<T>&) noexcept {}
  constexpr reference access(data_handle_type p, size_t i) const noexcept { return p[i]; }
  constexpr data_handle_type offset(data_handle_type p, size_t i) const noexcept { return p + i; }
};
template <class T> struct OffAcc {
  using offset_policy = OffPol<T>; using element_type = T; using reference = T&; using data_handle_type = T*;
  constexpr reference access(data_handle_type p, size_t i) const noexcept { return p[i]; }
  constexpr data_handle_type offset(data_handle_type p, size_t i) const noexcept { return p + i; }
};
template <class M, class... S> std::string subTypeProbe() {
  using E = typename M::extents_type; using I = typename M::index_type; using L = typename M::layout_type;
  using R = decltype(submdspan_mapping(std::declval<const M&>(), std::declval<S>()...));
  using SM = decltype(std::declval<R>().mapping); using SE = typename SM::extents_type;
  using XE = decltype(md::submdspan_extents(std::declval<const E&>(), std::declval<S>()...));
  using V1 = md::mdspan<const double, E, L>;
  using W1 = decltype(md::submdspan(std::declval<const V1&>(), std::declval<S>()...));
  using V2 = md::mdspan<int, E, L, OffAcc<int>>;
  using W2 = decltype(md::submdspan(std::declval<const V2&>(), std::declval<S>()...));
  bool mds = std::is_same_v<typename W1::mapping_type, SM> && std::is_same_v<typename W1::element_type, const double> &&
             std::is_same_v<typename W1::accessor_type, md::default_accessor<const double>> &&
             std::is_same_v<typename W2::mapping_type, SM> && std::is_same_v<typename W2::element_type, int> &&
             std::is_same_v<typename W2::accessor_type, OffPol<int>>;
  std::string s = "rank=" + std::to_string(SE::rank()) + " layout=" + layName<typename SM::layout_type>() + " pat=" + patOf<SE>();
  s += " xpat=" + patOf<XE>() + " idx=" + num(std::is_same_v<typename SE::index_type, I> && std::is_same_v<typename XE::index_type, I>) + " mds=" + num(mds);
  return s;
}
} // namespace vh
