import MdspanVerif.Props.C04b
/-!
# C09 — the layout-preservation predicates follow the slicing rule, for every rank
-/
namespace Mdspan

theorem subRank_cons (sl : Slice) (sls : List Slice) :
    subRank (sl :: sls) = (if sl.isIdx then 0 else 1) + subRank sls := by
  cases h : sl.isIdx <;> simp [subRank, h] <;> omega

theorem subRank_zero_iff : ∀ sls : List Slice, subRank sls = 0 ↔ sls.all Slice.isIdx = true
  | [] => by simp [subRank]
  | sl :: sls => by
    rw [subRank_cons]
    have := subRank_zero_iff sls
    cases h : sl.isIdx <;> simp [h, this] <;> omega

/-- past the last non-index position every condition of the fold is true -/
theorem preserveLeftAt_past (sr : Nat) (hsr : 0 < sr) : ∀ (i : Nat) (sls : List Slice), sr ≤ i →
    preserveLeftAt sr i sls = true
  | _, [], _ => rfl
  | i, sl :: sls, h => by
    simp only [preserveLeftAt]
    have : decide (i > sr - 1) = true := by simp; omega
    rw [this, preserveLeftAt_past sr hsr (i + 1) sls (by omega)]; simp

/-- in the leading block (all slices so far were `full`, so `sr = i + subRank rest`) the fold
    expression agrees with the prose rule -/
theorem preserveLeftAt_eq (sr : Nat) : ∀ (i : Nat) (sls : List Slice), 0 < sr → sr = i + subRank sls →
    preserveLeftAt sr i sls = presLeftSpec sls
  | i, [], hpos, h => by simp [preserveLeftAt, presLeftSpec]
  | i, sl :: sls, hpos, h => by
    rw [subRank_cons] at h
    simp only [preserveLeftAt, presLeftSpec]
    cases sl with
    | full =>
      simp only [Slice.isIdx, Slice.isFull, Slice.isRange] at h ⊢
      simp only [Bool.false_eq_true, if_false] at h
      rw [preserveLeftAt_eq sr (i + 1) sls hpos (by omega)]; simp
    | range b e =>
      simp only [Slice.isIdx, Slice.isFull, Slice.isRange] at h ⊢
      simp only [Bool.false_eq_true, if_false] at h
      by_cases hz : subRank sls = 0
      · have hall := (subRank_zero_iff sls).mp hz
        have h1 : ¬ (i > sr - 1) := by omega
        have h2 : (i == sr - 1) = true := by simp; omega
        rw [preserveLeftAt_past sr hpos (i + 1) sls (by omega)]
        simp [h1, h2, hall]
      · have hall : sls.all Slice.isIdx = false := by
          cases hh : sls.all Slice.isIdx
          · rfl
          · exact absurd ((subRank_zero_iff sls).mpr hh) hz
        have h1 : ¬ (i > sr - 1) := by omega
        have h2 : (i == sr - 1) = false := by simp; omega
        simp [h1, h2, hall]
    | idx k =>
      simp only [Slice.isIdx, Slice.isFull, Slice.isRange] at h ⊢
      simp only [if_true] at h
      by_cases hz : subRank sls = 0
      · have hall := (subRank_zero_iff sls).mp hz
        have h1 : i > sr - 1 := by omega
        rw [preserveLeftAt_past sr hpos (i + 1) sls (by omega)]
        simp [h1, hall]
      · have hall : sls.all Slice.isIdx = false := by
          cases hh : sls.all Slice.isIdx
          · rfl
          · exact absurd ((subRank_zero_iff sls).mpr hh) hz
        have h1 : ¬ (i > sr - 1) := by omega
        simp [h1, hall]
    | strided o x s =>
      simp only [Slice.isIdx, Slice.isFull, Slice.isRange] at h ⊢
      simp only [Bool.false_eq_true, if_false] at h
      have h1 : ¬ (i > sr - 1) := by omega
      simp [h1]

theorem presLeftSpec_allIdx : ∀ sls : List Slice, sls.all Slice.isIdx = true → presLeftSpec sls = true
  | [], _ => rfl
  | sl :: sls, h => by
    simp only [List.all_cons, Bool.and_eq_true] at h
    obtain ⟨h1, h2⟩ := h
    cases sl with
    | idx k => simp [presLeftSpec, Slice.isFull, Slice.isRange, Slice.isIdx, h2]
    | range _ _ => simp [Slice.isIdx] at h1
    | full => simp [Slice.isIdx] at h1
    | strided _ _ _ => simp [Slice.isIdx] at h1

/-- **C09 (layout_left)**: `preserve_layout_left_mapping` is true exactly for
    `full* (full | pair)? index*`, for slice lists of every length. -/
theorem C09_preserveLeft (sls : List Slice) : preserveLeft sls = presLeftSpec sls := by
  unfold preserveLeft
  by_cases hz : subRank sls = 0
  · have hall := (subRank_zero_iff sls).mp hz
    simp [hz, presLeftSpec_allIdx sls hall]
  · have hpos : 0 < subRank sls := Nat.pos_of_ne_zero hz
    have : (subRank sls == 0) = false := by simp [hz]
    rw [this, Bool.false_or]
    exact preserveLeftAt_eq (subRank sls) 0 sls hpos (by omega)

end Mdspan
