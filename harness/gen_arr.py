"""mdarray op server: layouts x index types x patterns x container kinds (std::vector<int>, std::array<int,64>)."""
from vf.common import ITYPES
from harness.gen_map import cxx_extents, KINDS, pat_str
PATS = [(), (None,), (None, None), (3, None), (2, 3), (None, 2, None)]
def instances():
    out = []
    for t in ('i32', 'u8', 'i64'):
        for pat in PATS:
            for kind, sp in (('left', None), ('right', None), ('stride', None), ('lpad', 'D'), ('rpad', 'D'), ('lpad', 4), ('rpad', 4)):
                if t != 'i32' and sp == 4: continue
                for ck in ('vec', 'arr'): out.append((kind, sp, t, pat, ck))
    return out
def fw_instances():
    """mdarray over user layouts whose flags differ from one another (the forwarders must report the mapping's own answers)"""
    out = []
    for kind in ('urev', 'ubc', 'ulog'):
        for t in ('i32', 'u8'):
            for pat in ((None,), (None, None), (3, None)): out.append((kind, None, t, pat, 'vec'))
    return out
def key(i):
    kind, sp, t, pat, ck = i
    return 'arr:%s:%s:%s%s:%s' % (kind, t, pat_str(pat), (':%s' % sp) if sp is not None else '', ck)
def line(i):
    kind, sp, t, pat, ck = i
    return 'arr %s %s pat=%s%s k=%s' % (kind, t, pat_str(pat), (' sp=%s' % sp) if sp is not None else '', ck)
def sources(ntu=16):
    tus = [[] for _ in range(ntu)]
    for n, i in enumerate(instances() + fw_instances()):
        kind, sp, t, pat, ck = i
        spv = 'md::dynamic_extent' if sp in (None, 'D') else str(sp)
        ctr = 'std::vector<int>' if ck == 'vec' else 'std::array<int, 64>'
        tus[n % ntu].append('  regArr<%s, %s, %s, %s>("%s");' % (KINDS[kind], cxx_extents(t, pat), spv, ctr, key(i)))
    srcs = [('arr_tu%d.cpp' % i, '#include "arrsrv.hpp"\nusing namespace vh;\nvoid reg_arr_%d() {\n%s\n}\n' % (i, '\n'.join(b))) for i, b in enumerate(tus)]
    srcs.append(('arr_main.cpp', '#include "vh.hpp"\n' + ''.join('void reg_arr_%d();\n' % i for i in range(ntu)) + 'int main() {\n' + ''.join('  reg_arr_%d();\n' % i for i in range(ntu)) + '  return vh::serve();\n}\n'))
    return srcs
