import MdspanVerif.Props.C04
namespace Mdspan

theorem subStrides_allFull_right : ∀ (sls : List Slice) (es : List Nat), sls.length = es.length →
    sls.all Slice.isFull = true →
    subStrides sls (rightStrides es) = rightStrides es ∧ subExts sls es = es
  | [], [], _, _ => by simp [subStrides, subExts, rightStrides]
  | sl :: sls, e :: es, hl, h => by
    simp only [List.all_cons, Bool.and_eq_true] at h
    obtain ⟨h1, h2⟩ := subStrides_allFull_right sls es (by simpa using hl) h.2
    cases sl <;> simp [Slice.isFull] at h
    simp [subStrides, subExts, rightStrides, Slice.isIdx, Slice.step, Slice.ext, h1, h2]
  | [], _ :: _, hl, _ => by simp at hl
  | _ :: _, [], hl, _ => by simp at hl

/-- soundness of "keep layout_right": the surviving source strides are the row-major strides
    of the result extents -/
theorem presRight_strides : ∀ (sls : List Slice) (es : List Nat), sls.length = es.length →
    presRightSpec sls = true →
    subStrides sls (rightStrides es) = rightStrides (subExts sls es)
  | [], [], _, _ => by simp [subStrides, subExts, rightStrides]
  | sl :: sls, e :: es, hl, h => by
    have hl' : sls.length = es.length := by simpa using hl
    cases sl with
    | idx i =>
      simp only [presRightSpec, Slice.isIdx, if_true] at h
      simp only [subStrides, rightStrides, Slice.isIdx, subExts, Slice.ext, if_true]
      exact presRight_strides sls es hl' h
    | range b e' =>
      simp only [presRightSpec, Slice.isIdx, Slice.isRange, Bool.false_eq_true, if_false,
        Bool.true_or, if_true] at h
      obtain ⟨h1, h2⟩ := subStrides_allFull_right sls es hl' h
      simp [subStrides, rightStrides, Slice.isIdx, subExts, Slice.ext, Slice.step, h1, h2]
    | full =>
      simp only [presRightSpec, Slice.isIdx, Slice.isRange, Slice.isFull, Bool.false_eq_true, if_false,
        Bool.or_true, if_true] at h
      obtain ⟨h1, h2⟩ := subStrides_allFull_right sls es hl' h
      simp [subStrides, rightStrides, Slice.isIdx, subExts, Slice.ext, Slice.step, h1, h2]
    | strided o x s =>
      simp [presRightSpec, Slice.isFull, Slice.isRange, Slice.isIdx] at h
  | [], _ :: _, hl, _ => by simp at hl
  | _ :: _, [], hl, _ => by simp at hl

theorem subExts_length_le : ∀ (sls : List Slice) (es : List Nat), (subExts sls es).length ≤ sls.length
  | [], _ => by simp [subExts]
  | _ :: _, [] => by simp [subExts]
  | sl :: sls, e :: es => by
    simp only [subExts]
    have := subExts_length_le sls es
    split <;> simp <;> omega

theorem subStrides_length : ∀ (sls : List Slice) (es ss : List Nat), sls.length = es.length →
    es.length = ss.length → (subStrides sls ss).length = (subExts sls es).length
  | [], [], [], _, _ => rfl
  | sl :: sls, e :: es, s :: ss, h1, h2 => by
    have ih := subStrides_length sls es ss (by simpa using h1) (by simpa using h2)
    simp only [subStrides, subExts]
    cases hx : sl.ext e with
    | none => have := (ext_none_iff sl e).mp hx; simp [this, ih]
    | some x =>
      have : sl.isIdx = false := by
        cases h' : sl.isIdx
        · rfl
        · have := (ext_none_iff sl e).mpr h'; rw [hx] at this; cases this
      simp [this, ih]
  | [], _ :: _, _, h, _ => by simp at h
  | _ :: _, [], _, h, _ => by simp at h
  | [], [], _ :: _, _, h => by simp at h
  | _ :: _, _ :: _, [], _, h => by simp at h

/-- strides of every layout have the length of its extents -/
theorem strides_length (L : Layout) (hv : L.Valid) : L.strides.length = L.extents.length := by
  cases L with
  | left es => simp [Layout.strides, Layout.extents, leftStrides, leftStridesFrom_length]
  | right es => simp [Layout.strides, Layout.extents, rightStrides_length]
  | stride es ss => exact hv.1.symm
  | lpad es ps =>
    match es with
    | [] => rfl
    | [_] => rfl
    | _ :: _ :: es => simp [Layout.strides, Layout.extents, lpadStrides, leftStridesFrom_length]
  | rpad es ps =>
    match es with
    | [] => rfl
    | [_] => rfl
    | e :: e' :: es =>
      simp only [Layout.strides, Layout.extents, rpadStrides]
      rw [rightStrides_length, replaceLast_length]

/-- **C04**: element `js` of the view returned by submdspan is the very same element as the
    source element `compose sls js` (= `first_k + j·step_k` on the sliced dimensions), for
    left / right / stride / padded sources, kept or strided result layout, any rank. -/
theorem C04_alias (L : Layout) (hsl : L.strides.length = L.extents.length) (sls : List Slice) (js : List Nat)
    (hsv : SlicesValid sls L.extents) (hj : InB js (subExts sls L.extents))
    (hpl : ∀ es, L = .left es → preserveLeft sls = presLeftSpec sls)
    (hpr : ∀ es, L = .right es → preserveRight sls = presRightSpec sls) :
    subOffsetOrig L sls + (subLayout L sls).offset js = L.offset (compose sls js) := by
  have hl := slicesValid_length sls L.extents hsv
  have hjl := inB_length _ _ hj
  have key := sub_alias_dot sls L.strides js (by rw [hl, hsl])
  have hoff1 : L.offset (firsts sls) = dot (firsts sls) L.strides :=
    offset_eq_dot L _ (by rw [firsts_length, hl])
  have hoff2 : L.offset (compose sls js) = dot (compose sls js) L.strides :=
    offset_eq_dot L _ (by rw [compose_length, hl])
  simp only [subOffsetOrig]
  rw [hoff1, hoff2, ← key]
  congr 1
  -- the result layout computes `dot js (subStrides …)`
  cases L with
  | left es =>
    simp only [subLayout]
    by_cases hp : preserveLeft sls = true
    · simp only [hp, if_true]
      rw [hpl es rfl] at hp
      have := presLeft_strides 1 sls es hl hp
      simp only [Layout.strides, leftStrides] at this ⊢
      rw [this]
      exact leftOff_eq_dot _ js hjl
    · simp only [hp, Bool.false_eq_true, if_false]; rfl
  | right es =>
    simp only [subLayout]
    by_cases hp : preserveRight sls = true
    · simp only [hp, if_true]
      rw [hpr es rfl] at hp
      have := presRight_strides sls es hl hp
      simp only [Layout.strides] at this ⊢
      rw [this]
      exact rightOff_eq_dot _ js hjl
    · simp only [hp, Bool.false_eq_true, if_false]; rfl
  | stride es ss => rfl
  | lpad es ps => rfl
  | rpad es ps => rfl

end Mdspan
