import Driver.Util
import Driver.Ext
import MdspanVerif.Props.C17
open Mdspan
namespace Drv
def tyName : ITy → String
  | .i8 => "i8" | .u8 => "u8" | .i16 => "i16" | .u16 => "u16" | .i32 => "i32" | .u32 => "u32" | .i64 => "i64" | .u64 => "u64"
def showExtT (e : ExtT) : String := s!"idx={tyName e.idx} pat={fmtPatE e.pat}"
/-- `c17 ctad <guide> n=<k>` / `c17 member <T>` -/
def c17Line (fam : String) (rest : List String) : String :=
  let n : Nat := (((getKey rest "n").getD "0").toNat?).getD 0
  match fam, plainToks rest with
  | "ctad", ["extints"] => showExtT (ctadExtentsFromInts n)
  | "ctad", ["mdsints"] => showExtT (ctadMdspanFromInts n)
  | "ctad", ["mdsarray"] => showExtT (ctadMdspanFromArray n)
  | "ctad", ["mdsptr"] => showExtT ctadMdspanFromPointer
  | "ctad", ["mdscarray"] => showExtT (ctadMdspanFromCArray n)
  | "ctad", ["dextents", t] => match parseTy t with
      | some T => showExtT ⟨T, makeDextents n⟩
      | none => "bad-op"
  | "member", [t] => match parseTy t with
      | some T => s!"size_type={tyName T.toUnsigned}"
      | none => "bad-op"
  | _, _ => "bad-op"
end Drv
