import MdspanVerif.Model.LayoutM
import MdspanVerif.Model.PaddedM
/-!
# A layout mapping as a run-time value of the machine layer

What a mapping object holds: its extents (as `index_type` values) and, depending on the layout,
the strides or the padded stride.  The member functions dispatch to the mirrors of
`Model/LayoutM.lean` / `Model/PaddedM.lean`.
-/
namespace Mdspan

inductive LayoutI
  | left (es : List Int)
  | right (es : List Int)
  | stride (es ss : List Int)
  | lpad (es : List Int) (ps : Int)
  | rpad (es : List Int) (ps : Int)
deriving DecidableEq, Repr

namespace LayoutI
def extents : LayoutI → List Int
  | left es | right es | stride es _ | lpad es _ | rpad es _ => es
def kindStr : LayoutI → String
  | left _ => "left" | right _ => "right" | stride _ _ => "stride" | lpad _ _ => "lpad" | rpad _ _ => "rpad"
/-- `mapping::operator()` -/
def offM (T : ITy) : LayoutI → List Int → M Int
  | left es, is => leftOffM T es is
  | right es, is => rightOffM T es is
  | stride _ ss, is => strideOffM T is ss
  | lpad es ps, is => lpadOffM T ps es is
  | rpad es ps, is => rpadOffM T ps es is
def spanM (T : ITy) : LayoutI → M Int
  | left es | right es => spanLRM T es
  | stride es ss => spanStrideM T es ss
  | lpad es ps => lpadSpanM T ps es
  | rpad es ps => rpadSpanM T ps es
def strideM (T : ITy) : LayoutI → Nat → M Int
  | left es, r => leftStrideM T es r
  | right es, r => rightStrideM T es r
  | stride _ ss, r => pure (ss.getD r 0)
  | lpad es ps, r => lpadStrideM T ps es r
  | rpad es ps, r => rpadStrideM T ps es r
def stridesM (T : ITy) (L : LayoutI) : M (List Int) := (List.range L.extents.length).mapM (L.strideM T)
def exhM (T : ITy) : LayoutI → M Bool
  | stride es ss => isExhStrideM T es ss
  | lpad es ps => pure (padIsExh es.length (es.headD 0) ps)
  | rpad es ps => pure (padIsExh es.length (es.getLastD 0) ps)
  | _ => pure true
/-- conversion of every stored value to another index type (converting constructors) -/
def cast (T : ITy) : LayoutI → LayoutI
  | left es => left (es.map T.wrap)
  | right es => right (es.map T.wrap)
  | stride es ss => stride (es.map T.wrap) (ss.map T.wrap)
  | lpad es ps => lpad (es.map T.wrap) (T.wrap ps)
  | rpad es ps => rpad (es.map T.wrap) (T.wrap ps)
end LayoutI

/-- `mdspan::size()`: `e0 * (e1 * (… * size_t(1)))` evaluated in `size_t`, returned as `size_type` -/
def sizeFoldM : List Int → Int
  | [] => 1
  | e :: es => ITy.u64.wrap (ITy.u64.wrap e * sizeFoldM es)
def mdsSizeM (T : ITy) (es : List Int) : Int := T.toUnsigned.wrap (sizeFoldM es)
/-- `mdspan::empty()`: `rank() > 0 && (… || extent(r) == index_type(0))` -/
def mdsEmptyM (es : List Int) : Bool := decide (es.length > 0) && es.any (· == 0)

end Mdspan
