import Driver.Conv
import MdspanVerif.Model.Mdarray
/-! `arr` op family (C12): a pool of mdarrays and of views obtained from them. -/
open Mdspan
namespace Drv

structure AState where
  pool : APool
  views : List (Option MdView)
  out : List String

def arrLine (kind : String) (rest : List String) : String :=
  let sp := (getKey rest "sp").getD "D"
  let es := natL ((getKey rest "ext").getD "-")
  let ss := natL ((getKey rest "str").getD "-")
  let pv := (getKey rest "pv").bind String.toNat?
  let ck : CtrKind := if ((getKey rest "k").getD "vec") == "arr" then .array 64 else .vector
  let isArr : Bool := ((getKey rest "k").getD "vec") == "arr"
  -- the line's second mapping of the same type (`ext2=` / `str2=` / `pv2=`), used by `cm2` / `ad2` / `am2`
  let L2? : Option Layout := match getKey rest "ext2" with
    | some e2 => mkLayoutN kind sp (natL e2) (natL ((getKey rest "str2").getD "-")) ((getKey rest "pv2").bind String.toNat?)
    | none => none
  match mkLayoutN kind sp es ss pv with
  | none => "bad-op"
  | some L =>
    let L2 := L2?.getD L
    let cmds := ((getKey rest "seq").getD "").splitOn "/"
    let stepc (s : AState) (cmd : String) : AState :=
      let a := cmd.splitOn ":"
      let n (k : Nat) : Int := ((a.getD k "0").toInt?).getD 0
      let nn (k : Nat) : Nat := (n k).toNat
      let l (k : Nat) : List Nat := natL (a.getD k "-")
      let emit (x : String) : AState := { s with out := s.out ++ [x] }
      let live (j : Nat) : Option ASlot := s.pool.slots j
      match a.headD "" with
      | "cm" => { s with pool := s.pool.step (.ofMapping (nn 1) ck L) }
      | "cm2" => { s with pool := s.pool.step (.ofMapping (nn 1) ck L2) }
      | "ad2" | "am2" =>
        let vals := (parseList (a.getD 2 "-"))
        let c : List Int := match ck with
          | .vector => vals
          | .array m => (vals ++ List.replicate m 0).take m
        { s with pool := s.pool.step (.adopt (nn 1) ck L2 c) }
      | "rc" =>
        match s.pool.arr (nn 1), live (nn 1) with
        | some x, some sl =>
          -- all four view-producing members return `mdspan(data(), map_)`: `ASlot.toMdspan`
          let v := MdView.get s.pool.heap sl.toMdspan (l 2)
          let _ := x
          emit s!"tm={v} tc={v} om={v} oc={v} same=1"
        | _, _ => emit "none"
      | "ce" => if kind == "stride" then emit "no-ctor" else { s with pool := s.pool.step (.ofMapping (nn 1) ck L) }
      | "ad" | "am" =>
        let vals := (parseList (a.getD 2 "-"))
        let c : List Int := match ck with
          | .vector => vals
          | .array m => (vals ++ List.replicate m 0).take m
        { s with pool := s.pool.step (.adopt (nn 1) ck L c) }
      -- the remaining constructor spellings collapse to `ofMapping` / `adopt` / `convCons`
      | "ci" => if kind == "stride" then emit "no-ctor" else { s with pool := s.pool.step (.ofMapping (nn 1) ck L) }
      | "cea" | "cma" =>
        if isArr then emit "no-ctor"
        else if (a.headD "") == "cea" && kind == "stride" then emit "no-ctor"
        else { s with pool := s.pool.step (.ofMapping (nn 1) ck L) }
      | "ade" | "ame" | "adea" | "amea" | "adma" | "amma" =>
        let c0 := a.headD ""
        let withAlloc := c0.length == 4
        let fromExt := (c0.toList.getD 2 'm') == 'e'
        if (!withAlloc && kind == "stride") then emit "no-ctor"
        else if withAlloc && isArr then emit "no-ctor"
        else if withAlloc && fromExt && kind == "stride" then emit "no-ctor"
        else
          let vals := (parseList (a.getD 2 "-"))
          let c : List Int := match ck with
            | .vector => vals
            | .array m => (vals ++ List.replicate m 0).take m
          { s with pool := s.pool.step (.adopt (nn 1) ck L c) }
      | "cv" | "cva" =>
        match live (nn 2) with
        | none => emit "skip"
        | some sj =>
          if (a.headD "") == "cva" && isArr then emit "no-ctor"
          else { s with pool := s.pool.step (.convCons (nn 1) (nn 2) sj.map) }
      | "cc" => if (live (nn 2)).isSome then { s with pool := s.pool.step (.copyCons (nn 1) (nn 2)) } else emit "skip"
      | "mc" => if (live (nn 2)).isSome then { s with pool := s.pool.step (.moveCons (nn 1) (nn 2)) } else emit "skip"
      | "ca" => if (live (nn 1)).isSome && (live (nn 2)).isSome then { s with pool := s.pool.step (.copyAssign (nn 1) (nn 2)) } else emit "skip"
      | "ma" => if (live (nn 1)).isSome && (live (nn 2)).isSome then { s with pool := s.pool.step (.moveAssign (nn 1) (nn 2)) } else emit "skip"
      | "wa" => if (live (nn 1)).isSome then { s with pool := s.pool.step (.writeArr (nn 1) (l 3) (n 2)) } else emit "none"
      | "ra" =>
        match s.pool.arr (nn 1) with
        | some x => let v := x.get (l 2); emit s!"v={v} cv={v} pos={x.map.offset (l 2)}"
        | none => emit "none"
      | "vw" | "vc" =>
        match live (nn 2) with
        | some sl => { s with views := s.views.set (nn 1) (some sl.toMdspan) }
        | none => emit "none"
      | "wv" =>
        match (s.views[nn 1]?).getD none with
        | some v => { s with pool := s.pool.step (.writeView v (l 3) (n 2)) }
        | none => emit "none"
      | "rv" =>
        match (s.views[nn 1]?).getD none with
        | some v => emit s!"v={MdView.get s.pool.heap v (l 2)}"
        | none => emit "none"
      | "ob" =>
        match live (nn 1) with
        | none => emit "none"
        | some sl =>
          let content := s.pool.heap sl.cid
          let al := (List.range 4).filter (fun j => j != nn 1 && (match live j with
            | some sj => sj.cid == sl.cid && !content.isEmpty
            | none => false))
          emit (s!"e={fmtN sl.map.extents} s={fmtN sl.map.strides} csz={content.length} sz={prod sl.map.extents} " ++
                s!"al={if al.isEmpty then "-" else String.join (al.map toString)} dh=1 fw=1")
      | "ov" =>
        match (s.views[nn 1]?).getD none with
        | none => emit "none"
        | some v =>
          let bs := (List.range 4).filter (fun j => match live j with
            | some sj => sj.cid == v.base && !(s.pool.heap sj.cid).isEmpty
            | none => false)
          emit s!"base={if bs.isEmpty then "-" else String.join (bs.map toString)} e={fmtN v.map.extents}"
      | "el" =>
        match s.pool.arr (nn 1) with
        | some x => emit ("el=" ++ fmtL (x.ctr.take 256))
        | none => emit "none"
      | _ => emit "bad-cmd"
    let fin := cmds.foldl stepc { pool := APool.init, views := [none, none], out := [] }
    if fin.out.isEmpty then "ok" else " | ".intercalate fin.out

end Drv
