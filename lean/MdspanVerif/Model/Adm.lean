import MdspanVerif.Model.Int
import MdspanVerif.Model.ValidB
/-!
# Admissible inputs (C14) as an executable predicate

"Extents, strides, padding whose span size, with zero extents counted as one, is
representable in the index type" — and, for layout_stride, strides that satisfy the layout's
own precondition (positive, and the generalised chain over the extents with zeros counted
as one).  The driver prints this predicate for every op line (`adm`), so the generators and
the checks take admissibility from the model instead of re-implementing it.
-/
namespace Mdspan

def one0 (e : Nat) : Nat := if e = 0 then 1 else e

/-- required span size with zero extents (and a zero padded stride) counted as one -/
def Layout.span1 : Layout → Nat
  | .left es | .right es => prod (es.map one0)
  | .stride es ss => spanStride (es.map one0) ss
  | .lpad es ps => lpadSpan (one0 ps) (es.map one0)
  | .rpad es ps => rpadSpan (one0 ps) (es.map one0)

def allLe (hi : Int) (l : List Nat) : Bool := l.all (fun x => (x : Int) ≤ hi)

/-- the mapping's own precondition, decidable form -/
def Layout.validB : Layout → Bool
  | .left _ | .right _ => true
  | .stride es ss => es.length == ss.length && ss.all (0 < ·) && validStridesB (es.map one0) ss
  | .lpad es ps => es.length < 2 || es.headD 0 ≤ ps
  | .rpad es ps => es.length < 2 || es.getLastD 0 ≤ ps

def Layout.admB (T : ITy) (L : Layout) : Bool :=
  L.validB && ((L.span1 : Nat) : Int) ≤ T.hi && allLe T.hi L.extents && allLe T.hi L.strides

end Mdspan
