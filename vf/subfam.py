"""The `sub` op family (submdspan_mapping): generators, execution, and the executable statements of
C04 (aliasing), C10 (fit) on the implementation's outputs."""
import itertools, random, math
from . import common as C
from .mapfam import chain_strides, canon, val, vals
import harness.gen_sub as G

class SCase:
    __slots__ = ('inst', 'ext', 'str', 'sl', 'stream', 'ops', 'impl', 'model', 'adm', 'h', 'id', 'sl2')
    def __init__(self, inst, ext, strides, sl, stream=''):
        self.inst, self.ext, self.str, self.sl, self.stream = inst, list(ext), strides, list(sl), stream
        self.ops = ['info']; self.impl = []; self.model = []; self.adm = None; self.h = 0; self.id = 0
        self.sl2 = None      # second-level slices (one strided_slice per dimension of the first result): a view of a view
    @property
    def kind(self): return self.inst[0]
    @property
    def T(self): return self.inst[1]
    def base(self):
        s = G.line_prefix(self.inst) + ' ext=%s' % C.fmt(self.ext)
        if self.str is not None: s += ' str=%s' % C.fmt(self.str)
        return s + ' sl=' + ';'.join(self.sl) + (' sl2=%s' % (';'.join(self.sl2) or '-') if self.sl2 is not None else '') + ' h=%d id=%d' % (self.h, self.id)
    def pub(self):
        return dict(line=self.base(), source_layout=self.kind, index_type=self.T, extents=self.ext, strides=self.str, slices=self.sl, second_level_slices=self.sl2, slice_kinds=self.inst[3], stream=self.stream)
    def out(self, op, side='impl'):
        for o, x in zip(self.ops, getattr(self, side)):
            if o == op: return x
        return None

def slice_values(kind, e, rnd=None):
    """all valid slice strings of the kind for source extent e (small e)"""
    out = []
    if kind == 'i': out = ['i:%d' % i for i in range(e)]
    elif kind in 'rt': out = ['%s:%d:%d' % (kind, b, x) for b in range(e + 1) for x in range(b, e + 1)]
    elif kind == 'f': out = ['f']
    elif kind == 's': out = ['s:%d:%d:%d' % (o, x, s) for o in range(e + 1) for x in range(0, e - o + 1) for s in (1, 2, 3, 5)]
    elif kind == 'I': out = ['I:1'] if e >= 2 else []
    elif kind in 'EC': out = ['%s:%d' % (kind, i) for i in range(e)]      # index given as an unscoped enum / a class type convertible to index_type
    elif kind == 'R': out = ['R:1:3'] if e >= 3 else []
    elif kind == 'S': out = ['S:%d:4:2' % o for o in range(0, e - 4 + 1)]
    elif kind == 'Q': out = ['Q:%d:5:2' % o for o in range(0, e - 5 + 1)]
    elif kind == 'U': out = ['U:%d:%d:1' % (o, x) for o in range(e + 1) for x in range(0, e - o + 1)]
    elif kind == 'Z': out = ['Z:%d:0:2' % o for o in range(e + 1)]
    return out

def parse_slice(s):
    p = s.split(':'); return p[0], [int(x) for x in p[1:]]

# ---------------------------------------------------------------- specification side (C04 / C10 statements)
def spec_sub(c):
    """result extents, and per source dimension (first, step or None for index) per the property text"""
    exts = []; dims = []
    for s, e in zip(c.sl, c.ext):
        k, v = parse_slice(s)
        if k in 'iIEC': dims.append((v[0], None))
        elif k in 'rtR': exts.append(v[1] - v[0]); dims.append((v[0], 1))
        elif k == 'f': exts.append(e); dims.append((0, 1))
        else:
            o, x, st = v; exts.append(0 if x == 0 else -(-x // st)); dims.append((o, st))
    return exts, dims

def src_strides(c):
    e = c.ext; r = len(e)
    if c.kind == 'left': return [C.prod(e[:k]) for k in range(r)]
    if c.kind in ('right', 'ushift'): return [C.prod(e[k + 1:]) for k in range(r)]
    return list(c.str)

def src_span(c):
    if any(x == 0 for x in c.ext): return 0
    if c.kind in ('left', 'right', 'ushift'): return C.prod(c.ext)
    return 1 + sum((e - 1) * s for e, s in zip(c.ext, c.str))

def spec_alias(c, cap=4096):
    """addresses (offsets from the source handle) of the result's elements, row-major: source element first_k + j*step_k"""
    exts, dims = spec_sub(c); ss = src_strides(c)
    if any(x == 0 for x in exts): return []
    out = []
    for js in itertools.islice(itertools.product(*[range(x) for x in exts]), cap):
        it = iter(js); a = 0
        for (first, step), s in zip(dims, ss):
            a += (first if step is None else first + next(it) * step) * s
        out.append(a)
    return out

def spec_chain(c, cap=4096):
    """a view of a view (second level: strided slices): final extents and the root-relative address of every element, per the
    property text applied twice (element j of the inner view = element o2 + j*s2 of the outer one = source element first + (o2+j*s2)*step)"""
    exts1, dims = spec_sub(c); ss = src_strides(c)
    l2 = [parse_slice(s)[1] for s in c.sl2]
    fin = [0 if x == 0 else -(-x // st) for (o, x, st) in l2]
    if any(x == 0 for x in fin): return fin, []
    out = []
    for js in itertools.islice(itertools.product(*[range(x) for x in fin]), cap):
        it = iter(zip(js, l2)); a = 0
        for (first, step), s in zip(dims, ss):
            if step is None: a += first * s
            else:
                j, (o2, x2, s2) = next(it); a += (first + (o2 + j * s2) * step) * s
        out.append(a)
    return fin, out

def parse_info(s):
    if s is None or not s.startswith('off='): return None
    d = dict(x.split('=') for x in s.split())
    f = lambda t: [] if t == '-' else [int(x) for x in t.split(',')]
    return dict(off=int(d['off']), ext=f(d['ext']), kind=d['kind'], str=f(d['str']), span=int(d['span']), sspan=int(d['sspan']), pat=d.get('pat'))

# ---------------------------------------------------------------- generators
def gen_cases(seed, tier, insts):
    rnd = random.Random(seed); cases = []; thorough = tier == 'thorough'
    for inst in insts:
        kind, t, pat, ks = inst; r = len(ks); H = C.hi(t)
        # extents domain: small; larger where compile-time valued slices need room
        small = range(0, 4)
        doms = []
        for p, k in zip(pat, ks):
            if p is not None: doms.append([p])
            elif k == 'R': doms.append([3, 4])
            elif k == 'S': doms.append([4, 5, 6])
            elif k == 'Q': doms.append([5, 6, 7])
            elif k == 'I': doms.append([2, 3])
            else: doms.append(list(small))
        exts = list(itertools.product(*doms))
        cap = 6 if not thorough else 40
        if len(exts) > cap: exts = rnd.sample(exts, cap)
        for ext in exts:
            per = [slice_values(k, e) for k, e in zip(ks, ext)]
            if any(len(p) == 0 for p in per): continue
            total = C.prod([len(p) for p in per]); n = 6 if not thorough else 30
            if total <= n: combos = list(itertools.product(*per))
            else:
                combos = [tuple(rnd.choice(p) for p in per) for _ in range(n)]
                # bias: empty slices starting at the end of the extent
                end = []
                for k, e in zip(ks, ext):
                    if k in 'rt': end.append('%s:%d:%d' % (k, e, e))
                    elif k == 's': end.append('s:%d:0:1' % e)
                    else: end.append(None)
                b = list(combos[0])
                for q, x in enumerate(end):
                    if x is not None and rnd.random() < 0.7: b[q] = x
                combos.append(tuple(b))
            for sl in combos:
                st = chain_strides(rnd, ext) if kind == 'stride' else None
                if st is not None and max(st + [0]) > H: continue
                c = SCase(inst, ext, st, sl, 'exhaustive-small'); c.ops = ['info', 'alias', 'mds'] if kind != 'ushift' else ['info', 'mds']; c.h = rnd.choice([0, 10, 100]); c.id = rnd.randint(1, 9); cases.append(c)
    # boundary: large extents, boundary starts, huge slice strides (all-dynamic instances, run-time slice kinds)
    dyn = [i for i in insts if all(p is None for p in i[2]) and all(k in 'irfst' for k in i[3]) and i[0] != 'ushift']
    nb = 500 if not thorough else 6000
    for _ in range(nb):
        inst = rnd.choice(dyn); kind, t, pat, ks = inst; r = len(ks); H = C.hi(t)
        target = rnd.choice([H, H // 2, H - 1, math.isqrt(H) ** 2, H // 3, H + 1, H * 2])
        ext = []; rem = max(target, 1)
        for k in range(r - 1):
            e = rnd.randint(1, max(1, min(int(rem ** (1.0 / (r - k))) * 2, H))); ext.append(e); rem = max(rem // e, 1)
        ext.append(max(1, min(rem, H))); rnd.shuffle(ext)
        if rnd.random() < 0.1: ext[rnd.randrange(r)] = 0
        sl = []; ok = True; size = 1
        for k, e in zip(ks, ext):
            if k == 'i':
                if e == 0: ok = False; break
                sl.append('i:%d' % rnd.choice([0, e - 1, rnd.randrange(e)]))
            elif k in 'rt':
                b = rnd.choice([0, e, rnd.randint(0, e)]); x = rnd.choice([b, e, rnd.randint(b, e)]); sl.append('%s:%d:%d' % (k, b, x)); size *= max(x - b, 0)
            elif k == 'f': sl.append('f'); size *= e
            else:
                o = rnd.choice([0, e, rnd.randint(0, e)]); x = rnd.choice([0, e - o, rnd.randint(0, e - o)])
                s = rnd.choice([1, 2, 3, max(1, x), max(1, x) + 1, rnd.randint(1, H), H, max(1, x - 1)])
                sl.append('s:%d:%d:%d' % (o, x, s)); size *= (0 if x == 0 else -(-x // s))
        if not ok: continue
        st = chain_strides(rnd, ext) if kind == 'stride' else None
        if st is not None and max(st) > H: continue
        c = SCase(inst, ext, st, sl, 'boundary'); c.ops = ['info'] + (['alias'] if size <= 64 else []); cases.append(c)
    # views of views: a second submdspan (strided slices) applied to the result of the first
    run_time = [i for i in insts if all(k in 'irfst' for k in i[3]) and len(i[3]) >= 1 and i[0] != 'ushift']
    # first levels whose result has a COMPILE-TIME empty or unit-stride extent (strided_slice with constant extent 0 / constant stride 1)
    ct_first = [i for i in insts if any(k in 'ZU' for k in i[3]) and all(k in 'irfstZU' for k in i[3]) and i[0] != 'ushift']
    for n_ in range(700 if not thorough else 6000):
        inst = rnd.choice(ct_first if (ct_first and n_ % 5 == 0) else run_time); kind, t, pat, ks = inst; H = C.hi(t)
        ext = [p if p is not None else rnd.choice([0, 1, 2, 3, 4, 5, 6, 7]) for p in pat]
        per = [slice_values(k, e) for k, e in zip(ks, ext)]
        if any(len(p) == 0 for p in per): continue
        sl = [rnd.choice(p) for p in per]
        st = chain_strides(rnd, ext) if kind == 'stride' else None
        if st is not None and max(st + [0]) > H: continue
        c = SCase(inst, ext, st, sl, 'chain'); exts1, _ = spec_sub(c)
        sl2 = []
        for x1 in exts1:
            m = rnd.random()
            if m < 0.2: o, x = x1, 0                                       # empty, at the end of the first view's extent
            elif m < 0.4 and x1 >= 2: o = rnd.randint(1, x1 // 2); x = o      # offset == extent != 0
            else: o = rnd.randint(0, x1); x = rnd.randint(0, x1 - o)
            sl2.append('s:%d:%d:%d' % (o, x, rnd.choice([1, 1, 2, 3])))
        c.sl2 = sl2; c.ops = ['ch']; cases.append(c)
    # boundary, empty slice at the end of one extent while the other slices start at the far end of a source whose span is at the
    # top of the index type: the start offset of such a view is the span itself, not a sum that leaves the index type
    ne = 150 if not thorough else 1500
    dyn2 = [i for i in dyn if len(i[3]) >= 2 and any(k in 'rts' for k in i[3])]
    for _ in range(ne):
        inst = rnd.choice(dyn2); kind, t, pat, ks = inst; r = len(ks); H = C.hi(t)
        ext = []; rem = H
        for k in range(r - 1):
            e = max(1, int(rem ** (1.0 / (r - k)))); e = max(1, e - rnd.choice([0, 0, 1])); ext.append(e); rem = max(rem // e, 1)
        ext.append(max(1, rem)); rnd.shuffle(ext)
        q = rnd.choice([k for k in range(r) if ks[k] in 'rts'])
        sl = []
        for k, (kk, e) in enumerate(zip(ks, ext)):
            if k == q: sl.append('%s:%d:%d' % (kk, e, e) if kk in 'rt' else 's:%d:0:1' % e)
            elif kk == 'i': sl.append('i:%d' % (e - 1))
            elif kk in 'rt': b = rnd.choice([e - 1, e - 1, e // 2, 0]); sl.append('%s:%d:%d' % (kk, b, rnd.choice([b, e])))
            elif kk == 'f': sl.append('f')
            else: o = rnd.choice([e - 1, e // 2]); sl.append('s:%d:%d:%d' % (o, rnd.choice([0, e - o]), rnd.choice([1, 2])))
        st = None
        if kind == 'stride':
            st = chain_strides(rnd, ext, (1,))
            if max(st) > H: continue
        c = SCase(inst, ext, st, sl, 'boundary-end'); c.ops = ['info']; cases.append(c)
    # empty layout_stride sources with several zero extents and strides at the top of the type (admissible: zero extents count as one)
    for _ in range(60 if not thorough else 600):
        inst = rnd.choice([i for i in dyn if i[0] == 'stride' and len(i[3]) >= 2]); kind, t, pat, ks = inst; r = len(ks); H = C.hi(t)
        ext = [rnd.choice([0, 0, 1]) for _ in range(r)]
        if ext.count(0) < 2: ext[0] = ext[-1] = 0
        st = [rnd.choice([H, H - 1, H // 2 + 1]) for _ in ext]
        sl = []
        for kk, e in zip(ks, ext):
            if kk == 'i':
                if e == 0: sl = None; break
                sl.append('i:0')
            elif kk in 'rt': sl.append('%s:0:%d' % (kk, e))
            elif kk == 'f': sl.append('f')
            else: sl.append('s:0:%d:1' % e)
        if sl is None: continue
        c = SCase(inst, ext, st, sl, 'empty-huge-strides'); c.ops = ['info']; cases.append(c)
    return cases

def build_server(config='gcc20-ubsan', full=False):
    insts = G.instances(full=full)
    exe, secs, cached = C.cxx_build('subsrv', G.sources(insts), config=config)
    return insts, exe, secs, cached

def run_cases(cases, exe):
    il = []; ml = []
    for c in cases:
        b = c.base(); ml.append(b + (' adm' if c.sl2 is None else ' chadm'))
        for op in c.ops: il.append(b + ' ' + op); ml.append(b + ' ' + op)
    io = C.pipe(exe, il); mo = C.driver(ml); pi = pm = 0
    for c in cases:
        c.adm = mo[pm] == 'ok 1'; pm += 1; n = len(c.ops)
        c.impl = [canon(x) for x in io[pi:pi + n]]; c.model = [canon(x) for x in mo[pm:pm + n]]; pi += n; pm += n
    return len(il)
