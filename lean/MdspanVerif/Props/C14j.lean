import MdspanVerif.Props.C14h
import MdspanVerif.Props.C02b
/-!
# C14 — default construction of `layout_stride::mapping` (`strides_storage(true_type)`)

`index_type stride = 1; for (r = rank-1; r >= 0; r--) { s[r] = stride; stride *= extent(r); }`:
the running product is also formed in the *last* iteration (its value is discarded), so the loop is
free of undefined behaviour exactly when the product of all extents - zero extents counted as one -
is representable.  Under that hypothesis the machine loop returns the row-major strides of the
(default) extents (`C02_default_stride`).
-/
namespace Mdspan

theorem defaultStridesGoM_refines (T : ITy) : ∀ (acc : Nat) (es : List Nat),
    (∀ e ∈ es, (e : Int) ≤ T.hi) → (((if acc = 0 then 1 else acc) * prod1 es : Nat) : Int) ≤ T.hi →
    defaultStridesGoM T acc (toI es) = .ok (toI (leftStridesFrom acc es))
  | acc, [], _, _ => by simp [defaultStridesGoM, leftStridesFrom]; rfl
  | acc, e :: es, hrep, hadm => by
    have he := hrep e (by simp)
    have hp1 := prod1_pos es
    simp only [prod1] at hadm
    have hacc : (acc : Int) ≤ T.hi := by
      have h1 : acc ≤ (if acc = 0 then 1 else acc) := by split <;> omega
      have h2 : 1 ≤ (if e = 0 then 1 else e) * prod1 es := Nat.mul_pos (by split <;> omega) hp1
      have h3 : acc ≤ (if acc = 0 then 1 else acc) * ((if e = 0 then 1 else e) * prod1 es) :=
        Nat.le_trans h1 (Nat.le_mul_of_pos_right _ h2)
      have : (acc : Int) ≤ (((if acc = 0 then 1 else acc) * ((if e = 0 then 1 else e) * prod1 es) : Nat) : Int) :=
        Int.ofNat_le.mpr h3
      omega
    have hmulN : (if acc * e = 0 then 1 else acc * e) * prod1 es ≤
        (if acc = 0 then 1 else acc) * ((if e = 0 then 1 else e) * prod1 es) := by
      rw [← Nat.mul_assoc]
      apply Nat.mul_le_mul_right
      by_cases ha : acc = 0
      · simp [ha]; split <;> omega
      · by_cases he0 : e = 0
        · simp [ha, he0]; omega
        · have : acc * e ≠ 0 := Nat.mul_ne_zero ha he0
          simp [ha, he0, this]
    have hmul : ((acc * e : Nat) : Int) ≤ T.hi := by
      have h1 : acc * e ≤ (if acc * e = 0 then 1 else acc * e) := by split <;> omega
      have h3 : acc * e ≤ (if acc * e = 0 then 1 else acc * e) * prod1 es :=
        Nat.le_trans h1 (Nat.le_mul_of_pos_right _ hp1)
      have : ((acc * e : Nat) : Int) ≤ (((if acc = 0 then 1 else acc) * ((if e = 0 then 1 else e) * prod1 es) : Nat) : Int) :=
        Int.ofNat_le.mpr (Nat.le_trans h3 hmulN)
      omega
    simp only [toI_cons, defaultStridesGoM, leftStridesFrom]
    rw [mulAssignM_ok T acc e hacc he hmul]
    simp only [bind, Except.bind]
    rw [defaultStridesGoM_refines T (acc * e) es (fun x hx => hrep x (List.mem_cons_of_mem _ hx)) (by
      have : (((if acc * e = 0 then 1 else acc * e) * prod1 es : Nat) : Int) ≤
          (((if acc = 0 then 1 else acc) * ((if e = 0 then 1 else e) * prod1 es) : Nat) : Int) :=
        Int.ofNat_le.mpr hmulN
      omega)]
    rfl

/-- **C14 (default construction of layout_stride)**: no undefined behaviour, and the strides are the
    row-major strides of the extents, whenever the index space (zero extents counted as one) is
    representable in the index type. -/
theorem C14_default_strides (T : ITy) (es : List Nat) (hrep : ∀ e ∈ es, (e : Int) ≤ T.hi)
    (hadm : ((prod1 es : Nat) : Int) ≤ T.hi) :
    defaultStridesM T (toI es) = .ok (toI (rightStrides es)) := by
  unfold defaultStridesM
  rw [toI_reverse]
  have hgo := defaultStridesGoM_refines T 1 es.reverse (fun e he => hrep e (List.mem_reverse.mp he))
    (by simp only [Nat.one_ne_zero, if_false, Nat.one_mul]; rw [prod1_reverse]; exact hadm)
  simp only [Int.natCast_one] at hgo
  rw [hgo]
  simp only [bind, Except.bind, pure, Except.pure]
  have h := C02_default_stride es
  unfold defaultStrides at h
  rw [toI_reverse, h]

/-- the loop multiplies once more than the strides need: `extents<int, 65536, 65536>` default-constructs
    with undefined behaviour (its index space is not representable), `extents<int, 65536, 32767>` does not -/
example : defaultStridesM .i32 [65536, 65536] = .error .overflow ∧
    defaultStridesM .i32 [65536, 32767] = .ok [32767, 1] := by decide

end Mdspan
