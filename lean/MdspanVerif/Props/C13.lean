import MdspanVerif.Props.C05
/-!
# C13 — mdspan size/empty agree with the extents; the C++14 fold emulations equal the folds
-/
namespace Mdspan

/-- `_MDSPAN_FOLD_TIMES_RIGHT(extent(Idxs), size_t(1))` = `(e0 * (e1 * (… * 1)))` -/
def foldTimesRight (es : List Nat) (init : Nat) : Nat := es.foldr (· * ·) init
/-- C++14: `__fold_right_times_impl(e0, e1, …, init)` (last argument returned as is) -/
def foldTimesEmu : List Nat → Nat
  | [] => 1
  | [x] => x
  | x :: xs => x * foldTimesEmu xs
/-- `_MDSPAN_FOLD_OR(extent(Idxs) == 0)` and its C++14 emulation `__fold_right_or_impl` -/
def foldOr (bs : List Bool) : Bool := bs.foldr (· || ·) false
def foldOrEmu : List Bool → Bool
  | [] => false
  | b :: bs => b || foldOrEmu bs
/-- `_MDSPAN_FOLD_AND` and `__fold_right_and_impl` -/
def foldAnd (bs : List Bool) : Bool := bs.foldr (· && ·) true
def foldAndEmu : List Bool → Bool
  | [] => true
  | b :: bs => b && foldAndEmu bs

theorem foldTimesEmu_eq : ∀ (es : List Nat) (init : Nat),
    foldTimesEmu (es ++ [init]) = foldTimesRight es init
  | [], init => rfl
  | [e], init => by simp [foldTimesEmu, foldTimesRight]
  | e :: e' :: es, init => by
    have := foldTimesEmu_eq (e' :: es) init
    simp only [List.cons_append, foldTimesEmu, foldTimesRight, List.foldr] at this ⊢
    rw [this]
theorem foldOrEmu_eq (bs : List Bool) : foldOrEmu bs = foldOr bs := by
  induction bs with
  | nil => rfl
  | cons b bs ih => simp [foldOrEmu, foldOr, ih] at *
theorem foldAndEmu_eq (bs : List Bool) : foldAndEmu bs = foldAnd bs := by
  induction bs with
  | nil => rfl
  | cons b bs ih => simp [foldAndEmu, foldAnd, ih] at *

/-- `mdspan::size()` and `mdspan::empty()` -/
def mdsSize (es : List Nat) : Nat := foldTimesRight es 1
def mdsEmpty (es : List Nat) : Bool := decide (es.length > 0) && foldOr (es.map (· == 0))

/-- **C13**: size() is the product of all extents (1 for rank 0) -/
theorem C13_size (es : List Nat) : mdsSize es = prod es := by
  induction es with
  | nil => rfl
  | cons e es ih => simp only [mdsSize, foldTimesRight, List.foldr, prod] at *; rw [ih]

/-- **C13**: empty() is true exactly when some extent is 0; never for rank 0 -/
theorem C13_empty (es : List Nat) : mdsEmpty es = true ↔ 0 ∈ es := by
  induction es with
  | nil => simp [mdsEmpty]
  | cons e es ih =>
    simp only [mdsEmpty, List.length_cons, List.map, foldOr, List.foldr] at *
    constructor
    · intro h
      simp only [Bool.and_eq_true, decide_eq_true_eq, Bool.or_eq_true, beq_iff_eq] at h
      rcases h.2 with h0 | h0
      · simp [h0]
      · cases es with
        | nil => simp at h0
        | cons e' es' =>
          have := ih.mp (by simp only [Bool.and_eq_true, decide_eq_true_eq]; exact ⟨by simp, h0⟩)
          exact List.mem_cons_of_mem _ this
    · intro h
      simp only [Bool.and_eq_true, decide_eq_true_eq, Bool.or_eq_true, beq_iff_eq]
      refine ⟨by omega, ?_⟩
      rcases List.mem_cons.mp h with h0 | h0
      · exact Or.inl h0.symm
      · right
        have := ih.mpr h0
        simp only [Bool.and_eq_true] at this
        exact this.2

theorem C13_empty_iff_size_zero (es : List Nat) : mdsEmpty es = true ↔ mdsSize es = 0 := by
  rw [C13_empty, C13_size, prod_eq_zero_iff]

theorem C13_rank0 : mdsSize [] = 1 ∧ mdsEmpty [] = false := ⟨rfl, rfl⟩

end Mdspan
