import Driver.Util
import MdspanVerif.Model.Sizes
open Mdspan
namespace Drv
/-- `c18 <lay> <T> pat= sp=` -/
def c18Line (lay ty : String) (rest : List String) : String :=
  match parseTy ty with
  | none => "bad-op"
  | some T =>
    let p := parsePat ((getKey rest "pat").getD "-")
    let sp := parseOptNat ((getKey rest "sp").getD "D")
    let r := p.length
    let (ms, ds, me) : Nat × Nat × Bool := match lay with
      | "left" | "right" => (sizeofLR T p, sizeofLR T p, isEmptyLR p)
      | "stride" => (sizeofStride T p, sizeofStride T p, isEmptyStride p)
      | "lpad" => let b := paddedStrideDyn sp (p.headD none) r; (sizeofPadded T p b, dsizePadded T p b, false)
      | "rpad" => let b := paddedStrideDyn sp (p.getLastD none) r; (sizeofPadded T p b, dsizePadded T p b, false)
      | _ => (0, 0, false)
    s!"ext={sizeofExt T p},{fmtB (isEmptyExt p)} map={ms},{fmtB me} mds={sizeofMds ds me 1 1 true} mdst={sizeofMds ds me 4 4 false} triv=1111"
end Drv
