import MdspanVerif.Props.C14e
import MdspanVerif.Props.C07
/-!
# C14 — layout_stride::operator(), `__get_size` and layout_stride::is_exhaustive
-/
namespace Mdspan

/-- the type of a right fold `(x₀ ∘ (x₁ ∘ (… ∘ int_literal)))` over `index_type` operands:
    `int` for an empty pack, otherwise the promoted index type -/
def foldTy (T : ITy) {α : Type} (l : List α) : ITy := if l.isEmpty then .i32 else T.promote

theorem foldTy_cases (T : ITy) {α : Type} (l : List α) : foldTy T l = .i32 ∨ foldTy T l = T.promote := by
  unfold foldTy; split <;> simp

theorem ITy.common_promote_of (T P : ITy) (h : P = .i32 ∨ P = T.promote) :
    ITy.common T.promote P = T.promote := by
  rcases h with rfl | rfl
  · exact ITy.common_promote_i32 T
  · exact ITy.common_promote_both T

theorem ITy.common_of (T P : ITy) (h : P = .i32 ∨ P = T.promote) :
    ITy.common T P = T.promote := by
  rcases h with rfl | rfl
  · exact ITy.common_i32_right T
  · exact ITy.common_promote_right T

/-- add a promoted value and the value of an inner fold -/
theorem addPF_ok (T P : ITy) (hP : P = .i32 ∨ P = T.promote) (a b : Nat)
    (h : ((a + b : Nat) : Int) ≤ T.hi) :
    V.add ⟨T.promote, a⟩ ⟨P, b⟩ = .ok ⟨T.promote, ((a + b : Nat) : Int)⟩ := by
  have hp := T.hi_le_promote
  have hc := ITy.common_promote_of T P hP
  have hab : ((a + b : Nat) : Int) = (a : Int) + b := by simp
  have := V.arith_ok (· + ·) ⟨T.promote, a⟩ ⟨P, b⟩ (Int.natCast_nonneg _)
    (by rw [hc]; show (a : Int) ≤ T.promote.hi; omega)
    (Int.natCast_nonneg _) (by rw [hc]; show (b : Int) ≤ T.promote.hi; omega)
    (by show 0 ≤ (a : Int) + b; omega) (by rw [hc]; show (a : Int) + b ≤ T.promote.hi; omega)
  rw [hab]
  simpa only [V.add, hc] using this

/-- multiply an index value with the value of an inner fold -/
theorem mulTF_ok (T P : ITy) (hP : P = .i32 ∨ P = T.promote) (a b : Nat)
    (ha : (a : Int) ≤ T.hi) (hb : (b : Int) ≤ T.hi) (h : ((a * b : Nat) : Int) ≤ T.hi) :
    V.mul ⟨T, a⟩ ⟨P, b⟩ = .ok ⟨T.promote, ((a * b : Nat) : Int)⟩ := by
  have hp := T.hi_le_promote
  have hc := ITy.common_of T P hP
  have hab : ((a * b : Nat) : Int) = (a : Int) * b := by simp
  have := V.arith_ok (· * ·) ⟨T, a⟩ ⟨P, b⟩ (Int.natCast_nonneg _)
    (by rw [hc]; show (a : Int) ≤ T.promote.hi; omega)
    (Int.natCast_nonneg _) (by rw [hc]; show (b : Int) ≤ T.promote.hi; omega)
    (by show 0 ≤ (a : Int) * b; rw [← hab]; exact Int.natCast_nonneg _)
    (by rw [hc]; show (a : Int) * b ≤ T.promote.hi; omega)
  rw [hab]
  simpa only [V.mul, hc] using this

/-! ### layout_stride::operator() -/

theorem dotGoM_refines (T : ITy) : ∀ (is ss : List Nat), is.length = ss.length →
    (∀ i ∈ is, (i : Int) ≤ T.hi) → (∀ s ∈ ss, (s : Int) ≤ T.hi) →
    ((dot is ss : Nat) : Int) ≤ T.hi →
    dotGoM T (toI is) (toI ss) = .ok ⟨foldTy T is, ((dot is ss : Nat) : Int)⟩
  | [], [], _, _, _, _ => by simp [dotGoM, dot, foldTy]; rfl
  | i :: is, s :: ss, hl, hri, hrs, hadm => by
    have hi := hri i (by simp)
    have hs := hrs s (by simp)
    simp only [dot] at hadm
    have hmul : ((i * s : Nat) : Int) ≤ T.hi := natCast_le_of_le (by omega) hadm
    have hrest : ((dot is ss : Nat) : Int) ≤ T.hi := natCast_le_of_le (by omega) hadm
    have ih := dotGoM_refines T is ss (by simpa using hl)
      (fun x hx => hri x (List.mem_cons_of_mem _ hx)) (fun x hx => hrs x (List.mem_cons_of_mem _ hx)) hrest
    simp only [toI_cons, dotGoM, dot]
    rw [mulT_ok T i s hi hs hmul, ih]
    simp only [bind, Except.bind]
    rw [addPF_ok T _ (foldTy_cases T is) _ _ hadm]
    simp [foldTy]
  | [], _ :: _, hl, _, _, _ => by simp at hl
  | _ :: _, [], hl, _, _, _ => by simp at hl

theorem inB_mem_lt : ∀ (is es : List Nat), InB is es → ∀ i ∈ is, ∃ e ∈ es, i < e
  | [], [], _, i, hi => by cases hi
  | j :: is, e :: es, hb, i, hi => by
    rcases List.mem_cons.mp hi with rfl | hi
    · exact ⟨e, by simp, hb.1⟩
    · obtain ⟨e', he', hlt⟩ := inB_mem_lt is es hb.2 i hi
      exact ⟨e', List.mem_cons_of_mem _ he', hlt⟩
  | [], _ :: _, hb, _, _ => by simp [InB] at hb
  | _ :: _, [], hb, _, _ => by simp [InB] at hb

theorem u64_wrap_id (T : ITy) (a : Nat) (h : (a : Int) ≤ T.hi) : ITy.u64.wrap (a : Int) = a :=
  ITy.wrap_id .u64 a (Int.natCast_nonneg _) (by cases T <;> simp [ITy.hi] at * <;> omega)

/-- **C14, layout_stride::operator()**: no UB and the exact offset `Σ i_r·s_r` whenever the index
    is inside the extents and `1 + Σ (e_r-1)·s_r` is representable. -/
theorem C14_stride_offset (T : ITy) (es ss is : List Nat) (hb : InB is es) (hl : es.length = ss.length)
    (hre : ∀ e ∈ es, (e : Int) ≤ T.hi) (hrs : ∀ s ∈ ss, (s : Int) ≤ T.hi)
    (hadm : ((1 + spanM1 (List.zip es ss) : Nat) : Int) ≤ T.hi) :
    strideOffM T (toI is) (toI ss) = .ok (((Layout.stride es ss).offset is : Nat) : Int) := by
  have hlen := inB_length _ _ hb
  have hdot := dot_le_spanM1 is es ss hb hl
  have hd : ((dot is ss : Nat) : Int) ≤ T.hi := natCast_le_of_le (by omega) hadm
  have hri : ∀ i ∈ is, (i : Int) ≤ T.hi := by
    intro i hi
    obtain ⟨e, he, hlt⟩ := inB_mem_lt is es hb i hi
    exact natCast_le_of_le (Nat.le_of_lt hlt) (hre e he)
  unfold strideOffM
  rw [dotGoM_refines T is ss (by omega) hri hrs hd]
  simp only [bind, Except.bind, pure, Except.pure, Layout.offset]
  rw [u64_wrap_id T _ hd, ITy.wrap_id T _ (Int.natCast_nonneg _) hd]

example : InB [2, 0, 3] [3, 1, 4] ∧ (∀ e ∈ [3, 1, 4], ((e : Nat) : Int) ≤ ITy.i8.hi) ∧
    (∀ s ∈ [40, 100, 5], ((s : Nat) : Int) ≤ ITy.i8.hi) ∧
    ((1 + spanM1 (List.zip [3, 1, 4] [40, 100, 5]) : Nat) : Int) ≤ ITy.i8.hi := by
  refine ⟨by simp [InB], by decide, by decide, by decide⟩
example : strideOffM .i8 (toI [2, 0, 3]) (toI [40, 100, 5]) = .ok 95 := by decide

/-! ### `__get_size` -/

theorem getSizeM_refines (T : ITy) : ∀ (es : List Nat), (∀ e ∈ es, (e : Int) ≤ T.hi) →
    ((prod1 es : Nat) : Int) ≤ T.hi →
    getSizeM T (toI es) = .ok ⟨foldTy T es, ((prod es : Nat) : Int)⟩
  | [], _, _ => by simp [getSizeM, prod, foldTy]; rfl
  | e :: es, hrep, hadm => by
    have he := hrep e (by simp)
    simp only [prod1] at hadm
    have hnz : 0 < (if e = 0 then 1 else e) := by split <;> omega
    have hadm' : ((prod1 es : Nat) : Int) ≤ T.hi := natCast_le_of_le (Nat.le_mul_of_pos_left _ hnz) hadm
    have hrest : ((prod es : Nat) : Int) ≤ T.hi := natCast_le_of_le (prod_le_prod1 es) hadm'
    have hmul : ((e * prod es : Nat) : Int) ≤ T.hi :=
      natCast_le_of_le (Nat.mul_le_mul (by split <;> omega) (prod_le_prod1 es)) hadm
    have ih := getSizeM_refines T es (fun x hx => hrep x (List.mem_cons_of_mem _ hx)) hadm'
    simp only [toI_cons, getSizeM, prod]
    rw [ih]
    simp only [bind, Except.bind]
    rw [mulTF_ok T _ (foldTy_cases T es) e _ he hrest hmul]
    simp [foldTy]

/-- **C14, `__get_size`** (the `size()` fold used by `layout_stride::is_exhaustive`): no UB and the
    exact product when the size with zero extents counted as one is representable. -/
theorem C14_get_size (T : ITy) (es : List Nat) (hrep : ∀ e ∈ es, (e : Int) ≤ T.hi)
    (hadm : ((prod1 es : Nat) : Int) ≤ T.hi) :
    getSizeM T (toI es) = .ok ⟨foldTy T es, ((prod es : Nat) : Int)⟩ := getSizeM_refines T es hrep hadm

example : (∀ e ∈ [3, 0, 5, 4], ((e : Nat) : Int) ≤ ITy.i8.hi) ∧ ((prod1 [3, 0, 5, 4] : Nat) : Int) ≤ ITy.i8.hi := by
  decide
example : getSizeM .i8 (toI [3, 2, 5, 4]) = .ok ⟨.i32, 120⟩ ∧ foldTy .i8 [3, 2, 5, 4] = .i32 := by decide

/-! ### layout_stride::is_exhaustive -/

theorem natCast_beq (a b : Nat) : ((a : Int) == (b : Int)) = (a == b) := by
  rw [Bool.eq_iff_iff]; simp only [beq_iff_eq]; omega
theorem natCast_beq0 (a : Nat) : ((a : Int) == 0) = (a == 0) := by
  rw [Bool.eq_iff_iff]; simp only [beq_iff_eq]; omega
theorem natCast_beq1 (a : Nat) : ((a : Int) == 1) = (a == 1) := by
  rw [Bool.eq_iff_iff]; simp only [beq_iff_eq]; omega

theorem argmaxStrideI_toI : ∀ (best bv r : Nat) (ss : List Nat),
    argmaxStrideI best (bv : Int) r (toI ss) = argmaxStride best bv r ss
  | _, _, _, [] => rfl
  | best, bv, r, s :: ss => by
    simp only [toI_cons, argmaxStrideI, argmaxStride]
    by_cases h : s > bv
    · have h' : (s : Int) > (bv : Int) := by omega
      rw [if_pos h, if_pos h']; exact argmaxStrideI_toI r s (r + 1) ss
    · have h' : ¬ (s : Int) > (bv : Int) := by omega
      rw [if_neg h, if_neg h']; exact argmaxStrideI_toI best bv (r + 1) ss

theorem zeroOtherThanI_toI (rl : Nat) : ∀ (r : Nat) (es : List Nat),
    zeroOtherThanI rl r (toI es) = zeroOtherThan rl r es
  | _, [] => rfl
  | r, e :: es => by
    have := natCast_beq0 e
    simp only [toI_cons, zeroOtherThanI, zeroOtherThan, this, zeroOtherThanI_toI rl (r + 1) es]

theorem V_eq_ok (T : ITy) (a b : Nat) (ha : (a : Int) ≤ T.hi) (hb : (b : Int) ≤ T.hi) :
    V.eq ⟨T, a⟩ ⟨T, b⟩ = (a == b) := by
  have hp := T.hi_le_promote
  unfold V.eq
  simp only [ITy.common_self]
  rw [ITy.wrap_id _ a (Int.natCast_nonneg _) (by omega), ITy.wrap_id _ b (Int.natCast_nonneg _) (by omega)]
  exact natCast_beq a b

theorem spanStride_ne_zero_pos (es ss : List Nat) (hl : es.length = ss.length)
    (h : spanStride es ss ≠ 0) : ∀ e ∈ es, 0 < e := by
  intro e he
  rcases Nat.eq_zero_or_pos e with h0 | h0
  · subst h0; exact absurd (spanStrideGo_zero 1 es ss he hl) h
  · exact h0

/-- **C14, layout_stride::is_exhaustive**: no UB and the exact answer whenever the span
    `1 + Σ (e_r-1)·s_r` (zero extents counted as one) and the size `Π e_r` are representable. -/
theorem C14_is_exhaustive (T : ITy) (es ss : List Nat) (hl : es.length = ss.length)
    (hre : ∀ e ∈ es, (e : Int) ≤ T.hi) (hrs : ∀ s ∈ ss, (s : Int) ≤ T.hi)
    (hadm : ((1 + spanM1 (List.zip es ss) : Nat) : Int) ≤ T.hi)
    (hsz : ((prod es : Nat) : Int) ≤ T.hi) :
    isExhStrideM T (toI es) (toI ss) = .ok (isExhStride es ss) := by
  match es, ss, hl with
  | [], _, _ => simp [isExhStrideM, isExhStride]; rfl
  | e :: es, s :: ss, hl =>
    have hspan : spanStrideM T ((e : Int) :: toI es) ((s : Int) :: toI ss) =
        .ok ((spanStride (e :: es) (s :: ss) : Nat) : Int) :=
      C14_span_stride T (e :: es) (s :: ss) hl hre hrs hadm
    simp only [toI_cons, isExhStrideM, isExhStride]
    rw [hspan]
    simp only [bind, Except.bind]
    by_cases h0 : spanStride (e :: es) (s :: ss) = 0
    · have h0' : ((spanStride (e :: es) (s :: ss) : Nat) : Int) = 0 := by omega
      rw [if_pos h0']
      simp only [h0, beq_self_eq_true, if_true]
      match es, ss, hl with
      | [], [], _ =>
        have := natCast_beq1 s
        simp only [toI_nil, this]; rfl
      | e' :: es, s' :: ss, _ =>
        simp only [toI_cons]
        have h1 := argmaxStrideI_toI 0 s 1 (s' :: ss)
        have h2 := zeroOtherThanI_toI (argmaxStride 0 s 1 (s' :: ss)) 0 (e :: e' :: es)
        simp only [toI_cons] at h1 h2
        rw [h1, h2]; rfl
    · have h0' : ¬ ((spanStride (e :: es) (s :: ss) : Nat) : Int) = 0 := by omega
      have hb0 : (spanStride (e :: es) (s :: ss) == 0) = false := by simp [h0]
      rw [if_neg h0']
      simp only [hb0, Bool.false_eq_true, if_false]
      have hpos := spanStride_ne_zero_pos (e :: es) (s :: ss) hl h0
      have hsz1 : ((prod1 (e :: es) : Nat) : Int) ≤ T.hi := by rw [prod1_eq_prod _ hpos]; exact hsz
      have hgs : getSizeM T ((e : Int) :: toI es) =
          .ok ⟨foldTy T (e :: es), ((prod (e :: es) : Nat) : Int)⟩ := getSizeM_refines T (e :: es) hre hsz1
      rw [hgs]
      simp only [pure, Except.pure]
      rw [ITy.wrap_id T _ (Int.natCast_nonneg _) hsz]
      have hsp : ((spanStride (e :: es) (s :: ss) : Nat) : Int) ≤ T.hi := by
        have := spanStrideGo_pos 1 (e :: es) (s :: ss) hpos hl
        rw [spanStride, this]; exact hadm
      rw [V_eq_ok T _ _ hsp hsz]

/-- the same under the hypothesis in the form `Π max(e_r,1) ≤ max` -/
theorem C14_is_exhaustive' (T : ITy) (es ss : List Nat) (hl : es.length = ss.length)
    (hre : ∀ e ∈ es, (e : Int) ≤ T.hi) (hrs : ∀ s ∈ ss, (s : Int) ≤ T.hi)
    (hadm : ((1 + spanM1 (List.zip es ss) : Nat) : Int) ≤ T.hi)
    (hsz : ((prod1 es : Nat) : Int) ≤ T.hi) :
    isExhStrideM T (toI es) (toI ss) = .ok (isExhStride es ss) :=
  C14_is_exhaustive T es ss hl hre hrs hadm (natCast_le_of_le (prod_le_prod1 es) hsz)

/-- for strides that satisfy the constructor's precondition (unique mapping) the size never
    exceeds the span, so the span admissibility alone suffices -/
theorem C14_is_exhaustive_valid (T : ITy) (es ss : List Nat) (hv : ValidStrides es ss)
    (hre : ∀ e ∈ es, (e : Int) ≤ T.hi) (hrs : ∀ s ∈ ss, (s : Int) ≤ T.hi)
    (hadm : ((1 + spanM1 (List.zip es ss) : Nat) : Int) ≤ T.hi) :
    isExhStrideM T (toI es) (toI ss) = .ok (isExhStride es ss) := by
  apply C14_is_exhaustive T es ss hv.1 hre hrs hadm
  by_cases h0 : 0 ∈ es
  · rw [(prod_eq_zero_iff es).mpr h0]; exact T.hi_nonneg
  · have hpos : ∀ e ∈ es, 0 < e := by
      intro e he
      rcases Nat.eq_zero_or_pos e with h | h
      · subst h; exact absurd he h0
      · exact h
    obtain ⟨hl, l, hperm, hdesc⟩ := hv
    have hposl : ∀ d ∈ l, 0 < d.1 := by
      intro d hd
      have : d ∈ List.zip es ss := hperm.mem_iff.mp hd
      exact hpos d.1 (List.of_mem_zip this).1
    have := prodP_le_span l hposl hdesc
    rw [spanM1_perm hperm, prodP_perm hperm, prodP_zip es ss hl] at this
    exact natCast_le_of_le (by omega) hadm

example : (∀ e ∈ [3, 2, 4], ((e : Nat) : Int) ≤ ITy.i8.hi) ∧ (∀ s ∈ [1, 12, 3], ((s : Nat) : Int) ≤ ITy.i8.hi) ∧
    ((1 + spanM1 (List.zip [3, 2, 4] [1, 12, 3]) : Nat) : Int) ≤ ITy.i8.hi ∧
    ((prod [3, 2, 4] : Nat) : Int) ≤ ITy.i8.hi := by decide
example : isExhStrideM .i8 (toI [3, 2, 4]) (toI [1, 12, 3]) = .ok true ∧
    isExhStrideM .i8 (toI [3, 0, 4]) (toI [1, 3, 12]) = .ok false := by decide

/-- the size hypothesis cannot be dropped for strides that violate the precondition of the
    constructor (here: all strides zero, span 1, size 2³²) -/
example : isExhStrideM .i32 (toI [65536, 65536]) (toI [0, 0]) = .error .overflow := by decide

end Mdspan
