import MdspanVerif.Model.Layout
/-!
# Pure mirror of submdspan_extents / submdspan_mapping

Slices carry values only; whether a value is a compile-time constant is a matter of the
result *type* (C09), not of the result value.
-/
namespace Mdspan

inductive Slice
  | idx (i : Nat)               -- integral (rank-reducing)
  | range (b e : Nat)           -- pair / tuple [b, e)
  | full                        -- full_extent
  | strided (o x s : Nat)       -- strided_slice{offset, extent, stride}
deriving DecidableEq, Repr

namespace Slice
def isIdx : Slice → Bool | idx _ => true | _ => false
def isFull : Slice → Bool | full => true | _ => false
def isRange : Slice → Bool | range _ _ => true | _ => false
/-- `first_of` -/
def first : Slice → Nat
  | idx i => i | range b _ => b | full => 0 | strided o _ _ => o
/-- `stride_of` as repaired (F4): a stride not smaller than the extent selects one element -/
def step : Slice → Nat
  | strided _ x s => if s < x then s else 1
  | _ => 1
/-- result extent of the dimension, `none` for an index slice -/
def ext (e : Nat) : Slice → Option Nat
  | idx _ => none
  | range b e' => some (e' - b)
  | full => some e
  | strided _ x s => some (if x > 0 then 1 + (x - 1) / s else 0)
/-- validity of a slice for a source extent `e` -/
def Valid (e : Nat) : Slice → Prop
  | idx i => i < e
  | range b e' => b ≤ e' ∧ e' ≤ e
  | full => True
  | strided o x s => o + x ≤ e ∧ (x = 0 ∨ 0 < s)
end Slice

/-- `submdspan_extents` -/
def subExts : List Slice → List Nat → List Nat
  | sl :: sls, e :: es =>
    match sl.ext e with
    | none => subExts sls es
    | some x => x :: subExts sls es
  | _, _ => []

/-- `construct_sub_strides`: source stride × slice stride on the surviving dimensions -/
def subStrides : List Slice → List Nat → List Nat
  | sl :: sls, s :: ss => if sl.isIdx then subStrides sls ss else (s * sl.step) :: subStrides sls ss
  | _, _ => []

def firsts (sls : List Slice) : List Nat := sls.map Slice.first

/-- the source multi-index designated by element `js` of the result -/
def compose : List Slice → List Nat → List Nat
  | sl :: sls, js =>
    if sl.isIdx then sl.first :: compose sls js
    else match js with
      | j :: js => (sl.first + j * sl.step) :: compose sls js
      | [] => sl.first :: compose sls []
  | [], _ => []

/-- result rank -/
def subRank (sls : List Slice) : Nat := (sls.filter (fun s => !s.isIdx)).length

/-- `preserve_layout_left_mapping`: the fold expression, position by position -/
def preserveLeftAt (sr : Nat) : Nat → List Slice → Bool
  | _, [] => true
  | i, sl :: sls =>
    ((i > sr - 1) || sl.isFull || (i == sr - 1 && sl.isRange)) && preserveLeftAt sr (i + 1) sls
def preserveLeft (sls : List Slice) : Bool :=
  subRank sls == 0 || preserveLeftAt (subRank sls) 0 sls

/-- `preserve_layout_right_mapping` -/
def preserveRightAt (n sr : Nat) : Nat → List Slice → Bool
  | _, [] => true
  | i, sl :: sls =>
    ((i < n - sr) || sl.isFull || (i == n - sr && sl.isRange)) && preserveRightAt n sr (i + 1) sls
def preserveRight (sls : List Slice) : Bool :=
  subRank sls == 0 || preserveRightAt sls.length (subRank sls) 0 sls

/-- some slice starts at the end of its extent (an empty slice at the boundary) -/
def anyAtEnd : List Slice → List Nat → Bool
  | sl :: sls, e :: es => sl.first == e || anyAtEnd sls es
  | _, _ => false

/-- `submdspan_mapping(...).offset` as repaired (F1) -/
def subOffset (L : Layout) (sls : List Slice) : Nat :=
  if anyAtEnd sls L.extents then L.span else L.offset (firsts sls)
/-- … and on the pinned tree -/
def subOffsetOrig (L : Layout) (sls : List Slice) : Nat := L.offset (firsts sls)

/-- the mapping of the result view -/
def subLayout (L : Layout) (sls : List Slice) : Layout :=
  match L with
  | .left es => if preserveLeft sls then .left (subExts sls es) else .stride (subExts sls es) (subStrides sls (leftStrides es))
  | .right es => if preserveRight sls then .right (subExts sls es) else .stride (subExts sls es) (subStrides sls (rightStrides es))
  | L => .stride (subExts sls L.extents) (subStrides sls L.strides)

def SlicesValid : List Slice → List Nat → Prop
  | [], [] => True
  | sl :: sls, e :: es => sl.Valid e ∧ SlicesValid sls es
  | _, _ => False

end Mdspan
