"""Shared machinery of the property checks: tree hash + cache, Lean build + proof audit,
C++ op-server builds, line-protocol execution, evidence and violation reporting."""
import os, sys, json, hashlib, subprocess, time, shutil, fcntl, random, re, concurrent.futures

HERE = os.path.dirname(os.path.dirname(os.path.abspath(__file__)))          # /verif
REPO = os.environ.get('VERIF_REPO', '/repo')
LEAN = os.path.join(HERE, 'lean')
HARNESS = os.path.join(HERE, 'harness')
CACHE_ROOT = os.environ.get('VERIF_CACHE_ROOT') or os.path.join(HERE, '.cache')
EVID = os.environ.get('VERIF_EVIDENCE_DIR') or os.path.join(HERE, 'evidence')      # tools/run_seeded.py redirects it: committed evidence comes from the unchanged tree only
REPLAYS = os.environ.get('VERIF_REPLAY_DIR') or os.path.join(HERE, 'replays')
JOBS = int(os.environ.get('VERIF_JOBS', '16'))
ALLOWED_AXIOMS = {'propext', 'Classical.choice', 'Quot.sound'}
FORBIDDEN_RE = r'sorry|admit|^axiom |native_decide|bv_decide|implemented_by|unsafe |maxHeartbeats 0'

ITYPES = {'i8': (8, 1, 'signed char'), 'u8': (8, 0, 'unsigned char'), 'i16': (16, 1, 'short'), 'u16': (16, 0, 'unsigned short'),
          'i32': (32, 1, 'int'), 'u32': (32, 0, 'unsigned int'), 'i64': (64, 1, 'long'), 'u64': (64, 0, 'unsigned long')}
def hi(t): b, s, _ = ITYPES[t]; return 2 ** (b - 1) - 1 if s else 2 ** b - 1
def lo(t): b, s, _ = ITYPES[t]; return -(2 ** (b - 1)) if s else 0
def wrap(t, x):
    b, s, _ = ITYPES[t]; r = x % (2 ** b)
    return r - 2 ** b if s and r > hi(t) else r
def fmt(l): return ','.join(str(x) for x in l) if len(l) else '-'
def prod(l):
    p = 1
    for x in l: p *= x
    return p

class Infra(Exception):
    """infrastructure failure (toolchain, disk): exit 2, never a VIOLATION"""

def run(cmd, **kw):
    return subprocess.run(cmd, capture_output=True, text=True, **kw)

# ---------------------------------------------------------------- tree hash / cache
_tree_hash = None
def tree_hash():
    global _tree_hash
    if _tree_hash is None:
        h = hashlib.sha256()
        inc = os.path.join(REPO, 'include')
        for root, dirs, files in os.walk(inc):
            dirs.sort()
            for f in sorted(files):
                p = os.path.join(root, f)
                h.update(os.path.relpath(p, inc).encode()); h.update(b'\0'); h.update(open(p, 'rb').read()); h.update(b'\0')
        _tree_hash = h.hexdigest()[:16]
    return _tree_hash

def harness_hash():
    h = hashlib.sha256()
    for root, dirs, files in os.walk(HARNESS):
        dirs.sort()
        for f in sorted(files):
            if f.endswith(('.hpp', '.cpp', '.py', '.h')):
                h.update(f.encode()); h.update(open(os.path.join(root, f), 'rb').read())
    return h.hexdigest()[:12]

class Lock:
    def __init__(self, name):
        os.makedirs(CACHE_ROOT, exist_ok=True); self.p = os.path.join(CACHE_ROOT, name + '.lock')
    def __enter__(self):
        self.f = open(self.p, 'w'); fcntl.flock(self.f, fcntl.LOCK_EX); return self
    def __exit__(self, *a):
        fcntl.flock(self.f, fcntl.LOCK_UN); self.f.close()

def cache_dir():
    """cache directory of the current /repo tree; directories of other trees are removed (disk)."""
    d = os.path.join(CACHE_ROOT, tree_hash())
    if not os.path.isdir(d):
        with Lock('cache'):
            os.makedirs(d, exist_ok=True)
            keep = {tree_hash()}
            # keep the five most recently used other trees (mutation runs flip between trees; a tree's cache is ~15-50 MB)
            others = sorted([x for x in os.listdir(CACHE_ROOT) if os.path.isdir(os.path.join(CACHE_ROOT, x)) and x not in keep and re.fullmatch(r'[0-9a-f]{16}', x)],
                            key=lambda x: os.path.getmtime(os.path.join(CACHE_ROOT, x)), reverse=True)
            for x in others[5:]:
                shutil.rmtree(os.path.join(CACHE_ROOT, x), ignore_errors=True)
    os.utime(d, None)
    return d

# ---------------------------------------------------------------- Lean
_lean_built = False
def lean_build(force=False):
    """lake build of the library and the native driver; returns (ok, log)."""
    global _lean_built
    if _lean_built and not force: return True, ''
    with Lock('lake'):
        t0 = time.time()
        b = run(['lake', 'build', 'MdspanVerif', 'mddriver'], cwd=LEAN)
        log = (b.stdout + b.stderr)
        if b.returncode != 0:
            return False, log[-6000:]
    _lean_built = True
    return True, 'lake build ok in %.1fs' % (time.time() - t0)

def driver_path(): return os.path.join(LEAN, '.lake', 'build', 'bin', 'mddriver')

def load_index():
    return json.load(open(os.path.join(LEAN, 'Index.json')))

STMT_CMD = '''open Lean Elab Command Meta in
elab "#stmt " id:ident : command => do
  let n := id.getId
  let c ← getConstInfo n
  let f ← liftTermElabM (ppExpr c.type)
  IO.println s!"STMT {n} :: {f.pretty 1000000}"
'''

def _lean_query(imports, body, tag):
    d = os.path.join(CACHE_ROOT, 'audit'); os.makedirs(d, exist_ok=True)
    f = os.path.join(d, '%s_%d.lean' % (tag, os.getpid()))
    open(f, 'w').write('import Lean\n' + ''.join('import %s\n' % m for m in imports) + STMT_CMD + body)
    a = run(['lake', 'env', 'lean', f], cwd=LEAN)
    try: os.remove(f)
    except OSError: pass
    return a.stdout + a.stderr

def parse_statements(out):
    res = {}
    for l in out.split('\n'):
        m = re.match(r'STMT (\S+) :: (.*)$', l)
        if m: res[m.group(1)] = (hashlib.sha256(m.group(2).strip().encode()).hexdigest()[:16], m.group(2).strip())
    return res

def statement_hashes(modules, names):
    """pretty-printed statements of the theorems -> (sha256 prefix, text)"""
    return parse_statements(_lean_query(modules, ''.join('#stmt %s\n' % n for n in names), 'stmt'))

def proof_audit(prop):
    """builds the library, then for every theorem the index lists for the property: exists, statement
    unchanged (hash), axioms within the allowed three; plus the forbidden-token grep."""
    t0 = time.time()
    idx = load_index()[prop]
    names = [e['name'] for e in idx['theorems']]
    res = dict(ok=False, obligations=len(names), discharged=0, theorems=names, modules=idx['modules'], axioms={}, problems=[])
    ok, log = lean_build()
    if not ok:
        res['problems'].append('lake build failed: ' + log[-1500:]); res['wall'] = time.time() - t0; return res
    body = ''.join('#print axioms %s\n#stmt %s\n' % (n, n) for n in names)
    out = _lean_query(idx['modules'], body, 'ax_' + prop)
    hashes = parse_statements(out)
    for e in idx['theorems']:
        n = e['name']
        m = re.search(r"'%s' (does not depend on any axioms|depends on axioms: \[([^\]]*)\])" % re.escape(n), out, re.S)
        if not m:
            res['problems'].append('theorem %s not found' % n); continue
        ax = set() if m.group(2) is None else set(x.strip() for x in m.group(2).split(','))
        res['axioms'][n] = sorted(ax)
        if not ax <= ALLOWED_AXIOMS:
            res['problems'].append('theorem %s depends on %s' % (n, sorted(ax - ALLOWED_AXIOMS))); continue
        if n not in hashes or hashes[n][0] != e['hash']:
            res['problems'].append('statement of %s changed (hash %s, committed %s)' % (n, hashes.get(n, ('?',))[0], e['hash'])); continue
        res['discharged'] += 1
    g = run(['grep', '-rnE', FORBIDDEN_RE, os.path.join(LEAN, 'MdspanVerif'), os.path.join(LEAN, 'Driver')])
    hits = []
    for l in g.stdout.split('\n'):
        if not l: continue
        text = l.split(':', 2)[-1]
        if text.lstrip().startswith('--') or text.lstrip().startswith('/-'): continue
        code = text.split('--')[0]
        if re.search(FORBIDDEN_RE, code): hits.append(l)
    res['forbidden_hits'] = hits
    # thorough tier: independent re-check of the compiled .olean files of the property's modules
    if os.environ.get('VERIF_TIER_EFFECTIVE') == 'thorough':
        res['leanchecker'] = {}
        for m in idx['modules']:
            okc, logc = leanchecker(m)
            res['leanchecker'][m] = 'ok' if okc else logc[-300:]
            if not okc: res['problems'].append('leanchecker rejected %s' % m)
        if any(v != 'ok' for v in res['leanchecker'].values()): res['discharged'] = 0
    if hits: res['problems'].append('forbidden tokens: ' + '; '.join(hits[:3]))
    res['ok'] = res['discharged'] == len(names) and not hits and not any('leanchecker' in x for x in res['problems'])
    res['wall'] = round(time.time() - t0, 2)
    return res

def leanchecker(module):
    with Lock('lake'):
        r = run(['lake', 'env', 'leanchecker', module], cwd=LEAN)
    return r.returncode == 0, (r.stdout + r.stderr)[-2000:]

# ---------------------------------------------------------------- C++ builds
CONFIGS = {
    # name: (compiler, [flags])
    'gcc20-ubsan': ('g++', ['-std=c++20', '-O0', '-fsanitize=undefined', '-fsanitize-undefined-trap-on-error']),
    'gcc23-ubsan': ('g++', ['-std=c++23', '-O0', '-fsanitize=undefined', '-fsanitize-undefined-trap-on-error']),
    'gcc17-ubsan': ('g++', ['-std=c++17', '-O0', '-fsanitize=undefined', '-fsanitize-undefined-trap-on-error']),
    'gcc23-O0-assert': ('g++', ['-std=c++23', '-O0']),
    'gcc20-O2-ndebug-emul': ('g++', ['-std=c++20', '-O2', '-DNDEBUG', '-DKOKKOS_MDSPAN_VERIF', '-DKOKKOS_MDSPAN_VERIF_FORCE_NUA_EMULATION']),
    'gcc17-O2-assert': ('g++', ['-std=c++17', '-O2']),
    'gcc14-O0-assert-emul': ('g++', ['-std=c++14', '-O0', '-DKOKKOS_MDSPAN_VERIF', '-DKOKKOS_MDSPAN_VERIF_FORCE_NUA_EMULATION']),
    'clang23-O2-ndebug': ('clang++-14', ['-std=c++2b', '-O2', '-DNDEBUG']),
    'clang20-O0-assert': ('clang++-14', ['-std=c++20', '-O0']),
    'clang20-ubsan': ('clang++-14', ['-std=c++20', '-O0', '-fsanitize=undefined', '-fsanitize-trap=undefined']),
    'clang17-O0-ndebug-emul': ('clang++-14', ['-std=c++17', '-O0', '-DNDEBUG', '-DKOKKOS_MDSPAN_VERIF', '-DKOKKOS_MDSPAN_VERIF_FORCE_NUA_EMULATION']),
    'clang14-O2-ndebug': ('clang++-14', ['-std=c++14', '-O2', '-DNDEBUG']),
    'gcc23-asan': ('g++', ['-std=c++23', '-O1', '-g', '-fsanitize=address,undefined', '-fno-sanitize-recover=all']),
    'gcc20-tsan': ('g++', ['-std=c++20', '-O1', '-g', '-fsanitize=thread']),
    'gcc23-O0-assert-mdspandebug': ('g++', ['-std=c++23', '-O0', '-D_MDSPAN_DEBUG']),
    'clang14-O0-assert': ('clang++-14', ['-std=c++14', '-O0']),
    'gcc14-ubsan': ('g++', ['-std=c++14', '-O0', '-fsanitize=undefined', '-fsanitize-undefined-trap-on-error']),
    'clang14-ubsan': ('clang++-14', ['-std=c++14', '-O0', '-fsanitize=undefined', '-fsanitize-trap=undefined']),
    'gcc14-O2-ndebug': ('g++', ['-std=c++14', '-O2', '-DNDEBUG']),
    'clang17-O2-ndebug': ('clang++-14', ['-std=c++17', '-O2', '-DNDEBUG']),
    'gcc17-O0-assert': ('g++', ['-std=c++17', '-O0']),
    'gcc20-O2-ndebug-mdspandebug': ('g++', ['-std=c++20', '-O2', '-DNDEBUG', '-D_MDSPAN_DEBUG']),
    'gcc23-paren-bracket': ('g++', ['-std=c++23', '-O0', '-DMDSPAN_USE_PAREN_OPERATOR=1', '-DMDSPAN_USE_BRACKET_OPERATOR=1']),
}

class BuildError(Exception):
    def __init__(self, msg, log): super().__init__(msg); self.log = log

def cxx_build(name, sources, config='gcc20-ubsan', extra=(), gen=None, tolerant=True):
    """compile `sources` (list of (filename, text) generated TUs, or paths) against /repo/include into
    <cache>/<name>-<config>-<key>/exe; TUs compiled in parallel. Returns (exe, seconds, cached).
    tolerant: when a generated TU of registration lines does not compile, the registrations that do not compile are
    dropped (recorded in <dir>/dropped.json, see `dropped_of`) and the server is built from the rest; the server then
    answers `no-inst` for the dropped instantiations.  Callers report the dropped registrations as a broken correspondence."""
    comp, flags = CONFIGS[config]
    key = hashlib.sha256()
    srcs = []
    for s in sources:
        if isinstance(s, tuple): fn, text = s
        else: fn, text = os.path.basename(s), open(s).read()
        srcs.append((fn, text)); key.update(fn.encode()); key.update(text.encode())
    key.update(harness_hash().encode()); key.update(' '.join(flags + list(extra)).encode())
    d = os.path.join(cache_dir(), '%s-%s-%s' % (name, config, key.hexdigest()[:10]))
    exe = os.path.join(d, 'exe')
    with Lock('build-' + name + '-' + config):
        if os.path.exists(exe): return exe, 0.0, True
        t0 = time.time(); os.makedirs(d, exist_ok=True)
        base = [comp] + flags + list(extra) + ['-w', '-I' + os.path.join(REPO, 'include'), '-I' + HARNESS]
        objs = []
        def one(ft):
            fn, text = ft; p = os.path.join(d, fn); open(p, 'w').write(text); o = p + '.o'
            r = run(base + ['-c', p, '-o', o])
            return fn, o, r
        failed = []
        with concurrent.futures.ThreadPoolExecutor(JOBS) as ex:
            for fn, o, r in ex.map(one, srcs):
                if r.returncode != 0: failed.append((fn, r)); continue
                objs.append(o)
        dropped = []
        if failed:
            # Some instantiations do not compile.  To keep searching for a failing input, rebuild the failing TUs with
            # one registration line per file and drop exactly the lines that do not compile (the caller reports them).
            fn0, r0 = failed[0]
            first_log = r0.stderr if len(r0.stderr) < 14000 else r0.stderr[:9000] + '\n[...]\n' + r0.stderr[-4000:]
            pieces = []; splittable = tolerant
            for fn, r in failed:
                text = dict(srcs)[fn]; m = re.search(r'^void (reg_\w+)\(\) \{\n(.*?)\n\}\n', text, re.S | re.M)
                if not m or not all(l.startswith('  reg') for l in m.group(2).split('\n') if l.strip()): splittable = False; break
                head = text[:m.start()]; fname = m.group(1); body = [l for l in m.group(2).split('\n') if l.strip()]
                pieces.append((fn, head, fname, body))
            if not splittable:
                shutil.rmtree(d, ignore_errors=True)
                raise BuildError('compile of %s failed (%s)' % (fn0, config), first_log)
            jobs = []
            for fn, head, fname, body in pieces:
                for k, l in enumerate(body): jobs.append(('%s_p%d.cpp' % (fn[:-4], k), '%svoid %s_p%d() {\n%s\n}\n' % (head, fname, k, l), fn, fname, k, l))
            with concurrent.futures.ThreadPoolExecutor(JOBS) as ex:
                res = list(ex.map(lambda j: one((j[0], j[1])), jobs))
            okparts = {}
            for j, (fnp, o, r) in zip(jobs, res):
                if r.returncode == 0: objs.append(o); okparts.setdefault(j[3], []).append(j[4])
                else: dropped.append(dict(registration=j[5].strip(), error=[x for x in r.stderr.split('\n') if 'error' in x][:3]))
            for fn, head, fname, body in pieces:
                ks = okparts.get(fname, [])
                glue = ''.join('void %s_p%d();\n' % (fname, k) for k in ks) + 'void %s() {\n%s}\n' % (fname, ''.join('  %s_p%d();\n' % (fname, k) for k in ks))
                fng, o, r = one((fn[:-4] + '_glue.cpp', glue))
                if r.returncode != 0:
                    shutil.rmtree(d, ignore_errors=True); raise BuildError('compile of %s failed (%s)' % (fn0, config), first_log)
                objs.append(o)
            json.dump(dict(dropped=dropped, first_log=first_log[-6000:]), open(os.path.join(d, 'dropped.json'), 'w'))
        link_flags = [f for f in flags if f.startswith('-fsanitize') or f.startswith('-std')]
        r = run([comp] + link_flags + objs + ['-o', exe + '.tmp', '-lpthread'])
        if r.returncode != 0:
            shutil.rmtree(d, ignore_errors=True)
            raise BuildError('link failed (%s)' % config, r.stderr[-4000:])
        os.rename(exe + '.tmp', exe)
        for o in objs:
            try: os.remove(o)
            except OSError: pass
        return exe, time.time() - t0, False

def dropped_of(exe):
    """registrations that did not compile when `exe` was built (empty list for a complete build)"""
    p = os.path.join(os.path.dirname(exe), 'dropped.json')
    return json.load(open(p)) if os.path.exists(p) else None

def report_dropped(rep, exe, what, cfg):
    """standard report of a partially built op server; returns True when instantiations were dropped"""
    dj = dropped_of(exe)
    if not dj: return False
    rep.broke(dict(correspondence='%s build (%s): %d instantiation(s) do not compile against the current tree' % (what, cfg, len(dj['dropped'])),
                   dropped=dj['dropped'][:12], log=dj['first_log'][-3000:]))
    return True

def pipe(exe, lines, timeout=1800, env=None):
    if not lines: return []
    p = subprocess.run([exe], input='\n'.join(lines) + '\n', capture_output=True, text=True, timeout=timeout, env=env)
    out = p.stdout.split('\n')
    if out and out[-1] == '': out.pop()
    if len(out) != len(lines):
        # the server died (abort / sanitizer report): pad with a marker carrying the reason
        out += ['died rc=%d %s' % (p.returncode, p.stderr.strip().split('\n')[-1][:200] if p.stderr.strip() else '')] * (len(lines) - len(out))
    return out

def pipe_resilient(exe, lines, max_restarts=40, **kw):
    """like pipe, but when the server dies on a line (abort / assertion / sanitizer report) that line gets the `died ...` marker and the
    server is restarted on the lines after it, so that one dying input does not hide the others"""
    out = []; rest = list(lines); n = 0
    while rest:
        o = pipe(exe, rest, **kw)
        k = next((i for i, x in enumerate(o) if x.startswith('died rc=')), None)
        if k is None: out += o; break
        out += o[:k + 1]; rest = rest[k + 1:]; n += 1
        if n >= max_restarts: out += ['died (not run: too many restarts)'] * len(rest); break
    return out

def driver(lines):
    return pipe(driver_path(), lines)

# ---------------------------------------------------------------- findings / reporting
def known_findings():
    p = os.path.join(HERE, 'known_findings.json')
    return json.load(open(p)) if os.path.exists(p) else {'open': [], 'fixed': []}

class Report:
    def __init__(self, prop, tier, seed):
        self.prop, self.tier, self.seed = prop, tier, seed
        self.t0 = time.time()
        self.violations = []      # concrete failing inputs: dict(kind, ... )
        self.breaks = []          # broken proof / correspondence without failing input
        self.known = []
        self.cov = dict(evaluations=0, distinct_nontrivial=0, samples=[], traces_validated_against_impl=0)
        self.assumptions = []
        self.notes = {}
        self._nontrivial = set()
    def nontrivial(self, key): self._nontrivial.add(key)
    def sample(self, s, cap=8):
        if len(self.cov['samples']) < cap: self.cov['samples'].append(s)
    def violation(self, payload):
        # open known findings are matched by their 'match' dict: every key must be equal in the payload
        for k in known_findings().get('open', []):
            if k['property'] == self.prop and all(payload.get(a) == b for a, b in k['match'].items()):
                if k not in self.known: self.known.append(k)
                return
        self.violations.append(payload)
    def broke(self, payload): self.breaks.append(payload)
    def finish(self, audit):
        os.makedirs(EVID, exist_ok=True); os.makedirs(REPLAYS, exist_ok=True)
        self.cov['distinct_nontrivial'] = max(self.cov.get('distinct_nontrivial', 0), len(self._nontrivial))
        cov = dict(obligations=audit['obligations'], discharged=audit['discharged'],
                   checker_cmd='cd lean && lake build MdspanVerif mddriver && lake env lean <generated: #print axioms / #check of every listed theorem> (python3 check.py %s)' % self.prop,
                   trusted_base=['Lean 4.33.0 kernel', 'axioms used: ' + ', '.join(sorted(set(a for v in audit['axioms'].values() for a in v)) or ['none']),
                                 'hand-written Lean model of the C++ (tied to /repo by the correspondence counted below)',
                                 'g++ 12.2 / clang++ 14, UBSan trap builds, python harness'],
                   theorems=audit['theorems'], axioms=audit['axioms'], proof_audit_problems=audit['problems'], leanchecker=audit.get('leanchecker', 'thorough tier only'), tree_hash=tree_hash())
        cov.update(self.cov); cov.update(self.notes)
        nviol = len(self.violations) + len(self.breaks) + (0 if audit['ok'] else 1)
        ev = dict(property_id=self.prop, tier=self.tier, seed=self.seed, level='proof', coverage=cov, assumptions=self.assumptions,
                  wall_s=round(time.time() - self.t0, 2), violations=nviol)
        json.dump(ev, open(os.path.join(EVID, self.prop + '.json'), 'w'), indent=1, default=str)
        rc = 0
        stamp = '%s_%s_%d' % (self.prop, self.tier, self.seed)
        for k in self.known:
            print('KNOWN-FINDING: property=%s %s' % (self.prop, k['what']))
        for i, v in enumerate(self.violations[:5]):
            p = os.path.join(REPLAYS, '%s_input_%d.json' % (stamp, i)); json.dump(dict(v, property=self.prop, record='failing-input'), open(p, 'w'), indent=1, default=str)
            print('VIOLATION property=%s replay=%s' % (self.prop, p)); rc = 1
        if not self.violations:
            for i, v in enumerate(self.breaks[:3]):
                p = os.path.join(REPLAYS, '%s_corr_%d.json' % (stamp, i)); json.dump(dict(v, property=self.prop, record='correspondence-broken'), open(p, 'w'), indent=1, default=str)
                print('VIOLATION property=%s replay=%s no-failing-input-found' % (self.prop, p)); rc = 1
            if not audit['ok'] and not self.breaks:
                p = os.path.join(REPLAYS, '%s_proof.json' % stamp); json.dump(dict(property=self.prop, record='proof-broken', theorems=audit['theorems'], problems=audit['problems']), open(p, 'w'), indent=1)
                print('VIOLATION property=%s replay=%s no-failing-input-found' % (self.prop, p)); rc = 1
        print('%s %s tier=%s seed=%d: proofs %d/%d, evaluations=%d, nontrivial=%d, violations=%d, breaks=%d, known=%d, %.1fs' % (
            self.prop, 'FAIL' if rc else 'ok', self.tier, self.seed, audit['discharged'], audit['obligations'], self.cov['evaluations'],
            self.cov['distinct_nontrivial'], len(self.violations), len(self.breaks), len(self.known), time.time() - self.t0))
        return rc
