import MdspanVerif.Props.C14d
import MdspanVerif.Props.C20
import MdspanVerif.Model.PaddedM
/-!
# C14 — stride(r) loops of layout_left / layout_right and the padded layouts
-/
namespace Mdspan

/-! ### list helpers -/

theorem toI_take (es : List Nat) (i : Nat) : (toI es).take i = toI (es.take i) := by
  simp [toI, List.map_take]
theorem toI_drop (es : List Nat) (i : Nat) : (toI es).drop i = toI (es.drop i) := by
  simp [toI, List.map_drop]
theorem toI_reverse (es : List Nat) : (toI es).reverse = toI es.reverse := by
  simp [toI, List.map_reverse]
theorem toI_dropLast (es : List Nat) : (toI es).dropLast = toI es.dropLast := by
  simp [toI, List.map_dropLast]
theorem toI_length (es : List Nat) : (toI es).length = es.length := by simp [toI]

theorem prod1_append (a b : List Nat) : prod1 (a ++ b) = prod1 a * prod1 b := by
  induction a with
  | nil => simp [prod1]
  | cons x xs ih => simp [prod1, ih, Nat.mul_assoc]

theorem prod1_reverse (l : List Nat) : prod1 l.reverse = prod1 l := by
  induction l with
  | nil => rfl
  | cons x xs ih => simp [prod1, prod1_append, ih, Nat.mul_comm]

theorem prod1_take_le (es : List Nat) (i : Nat) : prod1 (es.take i) ≤ prod1 es := by
  have h := prod1_append (es.take i) (es.drop i)
  rw [List.take_append_drop] at h
  rw [h]; exact Nat.le_mul_of_pos_right _ (prod1_pos _)

theorem prod1_drop_le (es : List Nat) (i : Nat) : prod1 (es.drop i) ≤ prod1 es := by
  have h := prod1_append (es.take i) (es.drop i)
  rw [List.take_append_drop] at h
  rw [h]; exact Nat.le_mul_of_pos_left _ (prod1_pos _)

theorem prod1_eq_prod : ∀ es : List Nat, (∀ e ∈ es, 0 < e) → prod1 es = prod es
  | [], _ => rfl
  | e :: es, h => by
    have he : e ≠ 0 := by have := h e (by simp); omega
    simp only [prod1, prod, he, if_false]
    rw [prod1_eq_prod es (fun x hx => h x (List.mem_cons_of_mem _ hx))]

theorem natCast_le_of_le {a b : Nat} {c : Int} (h : a ≤ b) (hb : (b : Int) ≤ c) : (a : Int) ≤ c :=
  Int.le_trans (Int.ofNat_le.mpr h) hb

/-- a running product seeded with `p`: no UB when `p · Π e`, zeros counted as one, fits -/
theorem prodGoM_seed (T : ITy) (p : Nat) (es : List Nat) (hrep : ∀ e ∈ es, (e : Int) ≤ T.hi)
    (hadm : ((prod1 (p :: es) : Nat) : Int) ≤ T.hi) :
    prodGoM T p (toI es) = .ok ((p * prod es : Nat) : Int) :=
  prodGoM_refines T p es hrep (by simpa [prod1] using hadm)

/-! ### layout_left::stride(r), layout_right::stride(r) -/

/-- **C14, layout_left::stride(i)** -/
theorem C14_left_stride (T : ITy) (es : List Nat) (i : Nat) (hrep : ∀ e ∈ es, (e : Int) ≤ T.hi)
    (hadm : ((prod1 es : Nat) : Int) ≤ T.hi) :
    leftStrideM T (toI es) i = .ok ((leftStride es i : Nat) : Int) := by
  unfold leftStrideM leftStride
  rw [toI_take]
  have := prodGoM_refines T 1 (es.take i) (fun e he => hrep e (List.mem_of_mem_take he))
    (by simp only [Nat.one_ne_zero, if_false, Nat.one_mul]
        exact natCast_le_of_le (prod1_take_le es i) hadm)
  simpa using this

/-- **C14, layout_right::stride(i)** (the loop runs from the last extent down to `i+1`) -/
theorem C14_right_stride (T : ITy) (es : List Nat) (i : Nat) (hrep : ∀ e ∈ es, (e : Int) ≤ T.hi)
    (hadm : ((prod1 es : Nat) : Int) ≤ T.hi) :
    rightStrideM T (toI es) i = .ok ((rightStride es i : Nat) : Int) := by
  unfold rightStrideM rightStride
  rw [toI_drop, toI_reverse]
  have := prodGoM_refines T 1 (es.drop (i + 1)).reverse
    (fun e he => hrep e (List.mem_of_mem_drop (List.mem_reverse.mp he)))
    (by simp only [Nat.one_ne_zero, if_false, Nat.one_mul]
        rw [prod1_reverse]
        exact natCast_le_of_le (prod1_drop_le es (i + 1)) hadm)
  simpa [prod_reverse] using this

example : (∀ e ∈ [3, 0, 5, 4], ((e : Nat) : Int) ≤ ITy.i8.hi) ∧ ((prod1 [3, 0, 5, 4] : Nat) : Int) ≤ ITy.i8.hi := by
  decide
example : leftStrideM .i8 (toI [3, 0, 5, 4]) 3 = .ok 0 ∧ rightStrideM .i8 (toI [3, 0, 5, 4]) 1 = .ok 20 := by
  decide

/-! ### layout_left_padded::operator() -/

/-- the loop `res = idx[k] + ext(k) * res` from the last index down, over arbitrary
    (allocation) extents: it computes the column-major offset -/
theorem lpadGoM_refines (T : ITy) (ps : Int) : ∀ (es is : List Nat), InB is es →
    (∀ e ∈ es, (e : Int) ≤ T.hi) → ((prod es : Nat) : Int) ≤ T.hi + 1 →
    lpadGoM T ps (toI es) (toI is) = .ok ((leftOff es is : Nat) : Int)
  | [], [], _, _, _ => by simp [lpadGoM, leftOff]; rfl
  | e :: es, i :: is, hb, hrep, hadm => by
    have hb' : InB is es := hb.2
    have hpos' : 0 < prod es := prod_pos _ (inB_pos _ _ hb')
    have hrest_lt := leftOff_lt es is hb'
    have he := hrep e (by simp)
    have hi := hb.1
    have hadm2 : ((e * prod es : Nat) : Int) ≤ T.hi + 1 := hadm
    have hadm' : ((prod es : Nat) : Int) ≤ T.hi + 1 :=
      natCast_le_of_le (Nat.le_mul_of_pos_left _ (by omega)) hadm2
    have ih := lpadGoM_refines T ps es is hb' (fun x hx => hrep x (List.mem_cons_of_mem _ hx)) hadm'
    have hfin : i + e * leftOff es is < e * prod es := by
      have : (leftOff es is + 1) * e ≤ prod es * e := Nat.mul_le_mul_right _ hrest_lt
      rw [Nat.add_mul, Nat.one_mul] at this
      rw [Nat.mul_comm e (prod es), Nat.mul_comm e]; omega
    have hsum : ((i + e * leftOff es is : Nat) : Int) ≤ T.hi := by
      have : ((i + e * leftOff es is + 1 : Nat) : Int) ≤ T.hi + 1 := natCast_le_of_le hfin hadm2
      have h2 : ((i + e * leftOff es is + 1 : Nat) : Int) = ((i + e * leftOff es is : Nat) : Int) + 1 := by simp
      omega
    have hmul : ((e * leftOff es is : Nat) : Int) ≤ T.hi := natCast_le_of_le (by omega) hsum
    have hrest : ((leftOff es is : Nat) : Int) ≤ T.hi :=
      natCast_le_of_le (Nat.le_mul_of_pos_left _ (by omega)) hmul
    have hi' : (i : Int) ≤ T.hi := natCast_le_of_le (by omega) hsum
    show lpadGoM T ps ((e : Int) :: toI es) ((i : Int) :: toI is) = _
    unfold lpadGoM
    rw [ih]
    simp only [bind, Except.bind]
    rw [mulT_ok T e _ he hrest hmul]
    simp only
    rw [addTP_ok T i _ hi' hsum]
    simp only [pure, Except.pure]
    rw [narrow_id T _ _ hsum]
    simp only [leftOff]
    rw [Nat.mul_comm e, Nat.add_comm]
  | [], _ :: _, hb, _, _ => by simp [InB] at hb
  | _ :: _, [], hb, _, _ => by simp [InB] at hb

theorem inB_leL : ∀ (is es fs : List Nat), InB is es → LeL es fs → InB is fs
  | [], [], [], _, _ => trivial
  | i :: is, e :: es, f :: fs, hb, hle => ⟨Nat.lt_of_lt_of_le hb.1 hle.1, inB_leL is es fs hb.2 hle.2⟩
  | [], _ :: _, _, hb, _ => by simp [InB] at hb
  | _ :: _, [], _, hb, _ => by simp [InB] at hb
  | [], [], _ :: _, _, hle => by simp [LeL] at hle
  | _ :: _, _ :: _, [], _, hle => by simp [LeL] at hle

/-- **C14, layout_left_padded::operator()**: no UB and the exact offset whenever the index is
    inside the extents, the padded stride is not smaller than the extent it pads and the span
    `ps · Π_{r>0} e_r` is representable. -/
theorem C14_lpad_offset (T : ITy) (ps : Nat) (es is : List Nat) (hb : InB is es)
    (hpad : PadOKLeft ps es) (hrep : ∀ e ∈ es, (e : Int) ≤ T.hi)
    (hadm : ((lpadSpan ps es : Nat) : Int) ≤ T.hi) :
    lpadOffM T ps (toI es) (toI is) = .ok (((Layout.lpad es ps).offset is : Nat) : Int) := by
  match es, is, hb with
  | [], [], _ => simp [lpadOffM, Layout.offset, lpadOff]; rfl
  | [e], [i], _ => simp [lpadOffM, Layout.offset, lpadOff]; rfl
  | e :: e' :: es, i :: i' :: is, hb =>
    have hle : e ≤ ps := (padOKLeft_iff ps e e' es).mp hpad
    have hb2 : InB (i :: i' :: is) (ps :: e' :: es) := ⟨Nat.lt_of_lt_of_le hb.1 hle, hb.2⟩
    have hpos : 0 < prod (e' :: es) := prod_pos _ (inB_pos _ _ hb.2)
    have hadm2 : ((ps * prod (e' :: es) : Nat) : Int) ≤ T.hi := hadm
    have hps : (ps : Int) ≤ T.hi := natCast_le_of_le (Nat.le_mul_of_pos_right _ hpos) hadm2
    have := lpadGoM_refines T ps (ps :: e' :: es) (i :: i' :: is) hb2
      (by intro x hx
          rcases List.mem_cons.mp hx with rfl | hx
          · exact hps
          · exact hrep x (List.mem_cons_of_mem _ hx))
      (by show ((ps * prod (e' :: es) : Nat) : Int) ≤ T.hi + 1; omega)
    simp only [toI_cons, lpadOffM, Layout.offset, lpadOff] at this ⊢
    rw [this]; simp only [leftOff]

example : InB [5, 2, 3] [6, 3, 4] ∧ PadOKLeft 8 [6, 3, 4] ∧ (∀ e ∈ [6, 3, 4], ((e : Nat) : Int) ≤ ITy.i8.hi) ∧
    ((lpadSpan 8 [6, 3, 4] : Nat) : Int) ≤ ITy.i8.hi := by
  refine ⟨by simp [InB], Or.inr (by simp [LeL, replaceHead]), by decide, by decide⟩
example : lpadOffM .i8 8 (toI [6, 3, 4]) (toI [5, 2, 3]) = .ok 93 := by decide
/-- `PadOKLeft` (an invariant of every constructed mapping) cannot be dropped: with a padded stride
    below the extent the span bound no longer bounds the offset (162 wraps in `signed char`) -/
example : ((lpadSpan 63 [100, 2] : Nat) : Int) ≤ ITy.i8.hi ∧
    lpadOffM .i8 63 (toI [100, 2]) (toI [99, 1]) = .ok (-94) := by decide

/-! ### layout_right_padded::operator() -/

/-- one Horner step `idx + ext * res`, narrowed to `index_type` -/
theorem hornerStepM (T : ITy) (acc e i : Nat) (he : (e : Int) ≤ T.hi) (hi : i < e)
    (hb : (((acc + 1) * e : Nat) : Int) ≤ T.hi + 1) :
    (do let m ← V.mul ⟨T, e⟩ ⟨T, acc⟩
        let s ← V.add ⟨T, i⟩ m
        pure (narrow T s) : M Int) = .ok ((acc * e + i : Nat) : Int) := by
  have hlt : i + e * acc + 1 ≤ (acc + 1) * e := by rw [Nat.add_mul, Nat.mul_comm e acc]; omega
  have hsum : ((i + e * acc : Nat) : Int) ≤ T.hi := by
    have : ((i + e * acc + 1 : Nat) : Int) ≤ T.hi + 1 := natCast_le_of_le hlt hb
    have h2 : ((i + e * acc + 1 : Nat) : Int) = ((i + e * acc : Nat) : Int) + 1 := by simp
    omega
  have hmul : ((e * acc : Nat) : Int) ≤ T.hi := natCast_le_of_le (by omega) hsum
  have hacc : (acc : Int) ≤ T.hi := natCast_le_of_le (Nat.le_mul_of_pos_left _ (by omega)) hmul
  have hi' : (i : Int) ≤ T.hi := natCast_le_of_le (by omega) hsum
  rw [mulT_ok T e acc he hacc hmul]
  simp only [bind, Except.bind]
  rw [addTP_ok T i _ hi' hsum]
  simp only [pure, Except.pure]
  rw [narrow_id T _ _ hsum, Nat.mul_comm e, Nat.add_comm]

theorem rpadGoM_refines (T : ITy) (ps : Nat) : ∀ (acc : Nat) (es is : List Nat), es ≠ [] →
    InB is (replaceLast ps es) → (∀ e ∈ replaceLast ps es, (e : Int) ≤ T.hi) →
    (((acc + 1) * prod (replaceLast ps es) : Nat) : Int) ≤ T.hi + 1 →
    rpadGoM T ps acc (toI es) (toI is) = .ok ((rpadGo ps acc es is : Nat) : Int)
  | acc, [e], [i], _, hb, hrep, hadm => by
    simp only [replaceLast, prod, Nat.mul_one] at hadm hb hrep
    have hps := hrep ps (by simp)
    have := hornerStepM T acc ps i hps hb.1 hadm
    simp only [toI_cons, toI_nil, rpadGoM, rpadGo]
    exact this
  | acc, e :: e' :: es, i :: i' :: is, _, hb, hrep, hadm => by
    simp only [replaceLast] at hb hrep hadm
    have he := hrep e (by simp)
    have hpos : 0 < prod (replaceLast ps (e' :: es)) := prod_pos _ (inB_pos _ _ hb.2)
    have hadm2 : (((acc + 1) * (e * prod (replaceLast ps (e' :: es))) : Nat) : Int) ≤ T.hi + 1 := hadm
    have hstepb : (((acc + 1) * e : Nat) : Int) ≤ T.hi + 1 := by
      refine natCast_le_of_le ?_ hadm2
      rw [← Nat.mul_assoc]; exact Nat.le_mul_of_pos_right _ hpos
    have hstep := hornerStepM T acc e i he hb.1 hstepb
    have hnext : (((acc * e + i + 1) * prod (replaceLast ps (e' :: es)) : Nat) : Int) ≤ T.hi + 1 := by
      refine natCast_le_of_le ?_ hadm2
      have : acc * e + i + 1 ≤ (acc + 1) * e := by rw [Nat.add_mul]; have := hb.1; omega
      rw [← Nat.mul_assoc]; exact Nat.mul_le_mul_right _ this
    have ih := rpadGoM_refines T ps (acc * e + i) (e' :: es) (i' :: is) (by simp) hb.2
      (fun x hx => hrep x (List.mem_cons_of_mem _ hx)) hnext
    show rpadGoM T ps acc ((e : Int) :: (e' : Int) :: toI es) ((i : Int) :: (i' : Int) :: toI is) = _
    unfold rpadGoM
    simp only [bind, Except.bind, pure, Except.pure] at hstep ⊢
    revert hstep
    cases V.mul ⟨T, (e : Int)⟩ ⟨T, (acc : Int)⟩ with
    | error u => intro h; simp at h
    | ok m =>
      simp only
      cases V.add ⟨T, (i : Int)⟩ m with
      | error u => intro h; simp at h
      | ok s =>
        simp only
        intro h
        have h' : narrow T s = ((acc * e + i : Nat) : Int) := by injection h
        rw [h']
        simp only [rpadGo]
        exact ih
  | _, [], _, h, _, _, _ => absurd rfl h
  | _, [_], [], _, hb, _, _ => by have := inB_length _ _ hb; simp [replaceLast_length] at this
  | _, [_], _ :: _ :: _, _, hb, _, _ => by have := inB_length _ _ hb; simp [replaceLast_length] at this
  | _, _ :: _ :: _, [], _, hb, _, _ => by have := inB_length _ _ hb; simp [replaceLast_length] at this
  | _, _ :: _ :: _, [_], _, hb, _, _ => by have := inB_length _ _ hb; simp [replaceLast_length] at this

theorem le_prod_of_mem : ∀ (es : List Nat), (∀ e ∈ es, 0 < e) → ∀ x ∈ es, x ≤ prod es
  | [], _, x, hx => by cases hx
  | e :: es, h, x, hx => by
    have hp : 0 < prod es := prod_pos _ (fun y hy => h y (List.mem_cons_of_mem _ hy))
    have he := h e (by simp)
    simp only [prod]
    rcases List.mem_cons.mp hx with rfl | hx
    · exact Nat.le_mul_of_pos_right _ hp
    · exact Nat.le_trans (le_prod_of_mem es (fun y hy => h y (List.mem_cons_of_mem _ hy)) x hx)
        (Nat.le_mul_of_pos_left _ he)

/-- **C14, layout_right_padded::operator()** -/
theorem C14_rpad_offset (T : ITy) (ps : Nat) (es is : List Nat) (hb : InB is es)
    (hpad : PadOKRight ps es) (hrep : ∀ e ∈ es, (e : Int) ≤ T.hi)
    (hadm : ((rpadSpan ps es : Nat) : Int) ≤ T.hi) :
    rpadOffM T ps (toI es) (toI is) = .ok (((Layout.rpad es ps).offset is : Nat) : Int) := by
  match es, is, hb with
  | [], [], _ => simp [rpadOffM, Layout.offset, rpadOff]; rfl
  | [e], [i], _ => simp [rpadOffM, Layout.offset, rpadOff]; rfl
  | e :: e' :: es, i :: i' :: is, hb =>
    have hle : LeL (e :: e' :: es) (replaceLast ps (e :: e' :: es)) := by
      rcases hpad with h | h
      · simp at h; omega
      · exact h
    have hb2 := inB_leL _ _ _ hb hle
    have hadm2 : ((prod (replaceLast ps (e :: e' :: es)) : Nat) : Int) ≤ T.hi := by
      have := prod_replaceLast ps 1 (e :: e' :: es) (by simp)
      simp only [rpadSpan, this, Nat.one_mul] at hadm
      exact hadm
    have hrep2 : ∀ x ∈ replaceLast ps (e :: e' :: es), (x : Int) ≤ T.hi := by
      intro x hx
      have hp := prod_pos _ (inB_pos _ _ hb2)
      exact natCast_le_of_le (le_prod_of_mem _ (inB_pos _ _ hb2) x hx) hadm2
    have := rpadGoM_refines T ps 0 (e :: e' :: es) (i :: i' :: is) (by simp) hb2 hrep2
      (by rw [Nat.zero_add, Nat.one_mul]; omega)
    simp only [toI_cons, rpadOffM, Layout.offset, rpadOff] at this ⊢
    exact this

example : InB [2, 3, 5] [3, 4, 6] ∧ PadOKRight 8 [3, 4, 6] ∧ (∀ e ∈ [3, 4, 6], ((e : Nat) : Int) ≤ ITy.i8.hi) ∧
    ((rpadSpan 8 [3, 4, 6] : Nat) : Int) ≤ ITy.i8.hi := by
  refine ⟨by simp [InB], Or.inr (by simp [LeL, replaceLast]), by decide, by decide⟩
example : rpadOffM .i8 8 (toI [3, 4, 6]) (toI [2, 3, 5]) = .ok 93 := by decide

/-! ### required_span_size of the padded layouts -/

/-- `layout_left_padded::required_span_size` with zero extents (and a zero padded stride)
    counted as one -/
def lpadSpan1 (ps : Nat) : List Nat → Nat
  | [] => 1
  | [e] => if e = 0 then 1 else e
  | _ :: es => prod1 (ps :: es)
/-- the same for `layout_right_padded` -/
def rpadSpan1 (ps : Nat) : List Nat → Nat
  | [] => 1
  | [e] => if e = 0 then 1 else e
  | es => prod1 (replaceLast ps es)

/-- **C14, layout_left_padded::required_span_size** -/
theorem C14_lpad_span (T : ITy) (ps : Nat) (es : List Nat) (hrep : ∀ e ∈ es, (e : Int) ≤ T.hi)
    (hadm : ((lpadSpan1 ps es : Nat) : Int) ≤ T.hi) :
    lpadSpanM T ps (toI es) = .ok (((Layout.lpad es ps).span : Nat) : Int) := by
  match es with
  | [] => simp [lpadSpanM, Layout.span, lpadSpan]; rfl
  | [e] => simp [lpadSpanM, Layout.span, lpadSpan]; rfl
  | e :: e' :: es =>
    simp only [toI_cons, lpadSpanM, Layout.span, lpadSpan]
    exact prodGoM_seed T ps (e' :: es) (fun x hx => hrep x (List.mem_cons_of_mem _ hx)) hadm

theorem replaceLast_eq (ps : Nat) : ∀ es : List Nat, es ≠ [] → replaceLast ps es = es.dropLast ++ [ps]
  | [_], _ => rfl
  | e :: e' :: es, _ => by
    simp only [replaceLast, List.dropLast_cons_cons, List.cons_append]
    rw [replaceLast_eq ps (e' :: es) (by simp)]
  | [], h => absurd rfl h

theorem ITy.one_le_hi' (T : ITy) : (((1 : Nat) : Int)) ≤ T.hi := by cases T <;> decide

theorem nz_le_hi (T : ITy) (a : Nat) (h : ((if a = 0 then 1 else a : Nat) : Int) ≤ T.hi) : (a : Int) ≤ T.hi :=
  natCast_le_of_le (by split <;> omega) h

/-- **C14, layout_right_padded::required_span_size** -/
theorem C14_rpad_span (T : ITy) (ps : Nat) (es : List Nat) (hrep : ∀ e ∈ es, (e : Int) ≤ T.hi)
    (hadm : ((rpadSpan1 ps es : Nat) : Int) ≤ T.hi) :
    rpadSpanM T ps (toI es) = .ok (((Layout.rpad es ps).span : Nat) : Int) := by
  match es with
  | [] => simp [rpadSpanM, Layout.span, rpadSpan]; rfl
  | [e] => simp [rpadSpanM, Layout.span, rpadSpan]; rfl
  | e :: e' :: es =>
    have hne : e :: e' :: es ≠ [] := by simp
    have hadm2 : ((prod1 (e :: e' :: es).dropLast * (if ps = 0 then 1 else ps) : Nat) : Int) ≤ T.hi := by
      have : rpadSpan1 ps (e :: e' :: es) = prod1 (replaceLast ps (e :: e' :: es)) := rfl
      rw [this, replaceLast_eq ps _ hne, prod1_append] at hadm
      simpa [prod1] using hadm
    have hnz : 0 < (if ps = 0 then 1 else ps) := by split <;> omega
    have hps : (ps : Int) ≤ T.hi :=
      nz_le_hi T ps (natCast_le_of_le (Nat.le_mul_of_pos_left _ (prod1_pos _)) hadm2)
    have hv : prodGoM T 1 (toI (e :: e' :: es).dropLast) =
        .ok ((prod (e :: e' :: es).dropLast : Nat) : Int) := by
      have := prodGoM_refines T 1 (e :: e' :: es).dropLast
        (fun x hx => hrep x (List.dropLast_subset _ hx))
        (by simp only [Nat.one_ne_zero, if_false, Nat.one_mul]
            exact natCast_le_of_le (Nat.le_mul_of_pos_right _ hnz) hadm2)
      rw [Nat.one_mul] at this
      exact this
    have hpv : ((prod (e :: e' :: es).dropLast : Nat) : Int) ≤ T.hi :=
      natCast_le_of_le (Nat.le_trans (prod_le_prod1 _) (Nat.le_mul_of_pos_right _ hnz)) hadm2
    have hm : ((prod (e :: e' :: es).dropLast * ps : Nat) : Int) ≤ T.hi :=
      natCast_le_of_le (Nat.mul_le_mul (prod_le_prod1 _) (by split <;> omega)) hadm2
    have hpure : (Layout.rpad (e :: e' :: es) ps).span = prod (e :: e' :: es).dropLast * ps := by
      show rpadSpanGo ps 1 (e :: e' :: es) = _
      rw [prod_replaceLast ps 1 _ hne, replaceLast_eq ps _ hne, prod_append, Nat.one_mul]
      simp [prod]
    rw [hpure]
    show rpadSpanM T ps ((e : Int) :: (e' : Int) :: toI es) = _
    simp only [rpadSpanM]
    have hl : ((e : Int) :: (e' : Int) :: toI es) = toI (e :: e' :: es) := rfl
    rw [hl, toI_dropLast, hv]
    simp only [bind, Except.bind]
    rw [mulT_ok T _ ps hpv hps hm]
    simp only [pure, Except.pure]
    rw [narrow_id T _ _ hm]

example : (∀ e ∈ [6, 0, 4], ((e : Nat) : Int) ≤ ITy.i8.hi) ∧ ((lpadSpan1 8 [6, 0, 4] : Nat) : Int) ≤ ITy.i8.hi ∧
    ((rpadSpan1 8 [3, 0, 6] : Nat) : Int) ≤ ITy.i8.hi := by decide
example : lpadSpanM .i8 8 (toI [6, 3, 4]) = .ok 96 ∧ rpadSpanM .i8 8 (toI [3, 4, 6]) = .ok 96 := by decide

/-! ### stride(r) of the padded layouts -/

/-- `layout_left_padded::stride(r)` -/
def lpadStrideP (ps : Nat) (es : List Nat) (r : Nat) : Nat :=
  if r = 0 then 1 else ps * prod ((es.drop 1).take (r - 1))
/-- `layout_right_padded::stride(r)` -/
def rpadStrideP (ps : Nat) (es : List Nat) (r : Nat) : Nat :=
  if r + 1 = es.length then 1 else ps * prod (es.dropLast.drop (r + 1))

/-- the `stride(r)` member functions agree with `strides()` -/
theorem lpadStride_eq (ps : Nat) (es : List Nat) (r : Nat) (h : r < es.length) :
    (lpadStrides ps es)[r]? = some (lpadStrideP ps es r) := by
  match es, r, h with
  | [e], 0, _ => simp [lpadStrides, lpadStrideP]
  | e :: e' :: es, 0, _ => simp [lpadStrides, lpadStrideP]
  | e :: e' :: es, r + 1, h =>
    simp only [lpadStrides, lpadStrideP, List.getElem?_cons_succ, List.drop_succ_cons, List.drop_zero]
    rw [leftStridesFrom_get ps (e' :: es) r (by simpa using h)]
    simp

theorem rpadStride_eq (ps : Nat) (es : List Nat) (r : Nat) (h : r < es.length) :
    (rpadStrides ps es)[r]? = some (rpadStrideP ps es r) := by
  match es, h with
  | [e], h =>
    have : r = 0 := by simpa using h
    subst this; simp [rpadStrides, rpadStrideP]
  | e :: e' :: es, h =>
    have hne : e :: e' :: es ≠ [] := by simp
    show (rightStrides (replaceLast ps (e :: e' :: es)))[r]? = _
    rw [rightStrides_get _ r (by rw [replaceLast_length]; exact h), replaceLast_eq ps _ hne]
    have hlen : (e :: e' :: es).dropLast.length = es.length + 1 := by simp
    unfold rpadStrideP
    by_cases hr : r + 1 = (e :: e' :: es).length
    · rw [if_pos hr]
      have : r + 1 = (e :: e' :: es).dropLast.length + 1 := by rw [hlen]; simpa using hr
      rw [List.drop_append, List.drop_eq_nil_of_le (by omega)]
      simp [this, prod]
    · rw [if_neg hr]
      have hlt : r + 1 ≤ (e :: e' :: es).dropLast.length := by
        rw [hlen]; simp at h hr; omega
      rw [List.drop_append_of_le_length hlt, prod_append]
      simp [prod, Nat.mul_comm]

theorem prod1_mul_take_le (p : Nat) (es : List Nat) (k : Nat) :
    prod1 (p :: es.take k) ≤ prod1 (p :: es) := by
  simp only [prod1]; exact Nat.mul_le_mul_left _ (prod1_take_le es k)
theorem prod1_mul_drop_le (p : Nat) (es : List Nat) (k : Nat) :
    prod1 (p :: es.drop k) ≤ prod1 (p :: es) := by
  simp only [prod1]; exact Nat.mul_le_mul_left _ (prod1_drop_le es k)

/-- **C14, layout_left_padded::stride(r)** -/
theorem C14_lpad_stride (T : ITy) (ps : Nat) (es : List Nat) (r : Nat) (hr : r < es.length)
    (hrep : ∀ e ∈ es, (e : Int) ≤ T.hi) (hadm : ((lpadSpan1 ps es : Nat) : Int) ≤ T.hi) :
    lpadStrideM T ps (toI es) r = .ok ((lpadStrideP ps es r : Nat) : Int) := by
  unfold lpadStrideM lpadStrideP
  by_cases h0 : r = 0
  · simp [h0]; rfl
  · rw [if_neg h0, if_neg h0, toI_drop, toI_take]
    match es, hr with
    | [e], hr => simp at hr; omega
    | e :: e' :: es, _ =>
      simp only [List.drop_succ_cons, List.drop_zero]
      exact prodGoM_seed T ps ((e' :: es).take (r - 1))
        (fun x hx => hrep x (List.mem_cons_of_mem _ (List.mem_of_mem_take hx)))
        (natCast_le_of_le (prod1_mul_take_le ps (e' :: es) (r - 1)) hadm)

theorem prod1_replaceLast (ps : Nat) (es : List Nat) (h : es ≠ []) :
    prod1 (replaceLast ps es) = prod1 (ps :: es.dropLast) := by
  rw [replaceLast_eq ps es h, prod1_append]; simp [prod1, Nat.mul_comm]

/-- **C14, layout_right_padded::stride(r)** -/
theorem C14_rpad_stride (T : ITy) (ps : Nat) (es : List Nat) (r : Nat) (hr : r < es.length)
    (hrep : ∀ e ∈ es, (e : Int) ≤ T.hi) (hadm : ((rpadSpan1 ps es : Nat) : Int) ≤ T.hi) :
    rpadStrideM T ps (toI es) r = .ok ((rpadStrideP ps es r : Nat) : Int) := by
  unfold rpadStrideM rpadStrideP
  rw [toI_length]
  by_cases h0 : r + 1 = es.length
  · simp [h0]; rfl
  · rw [if_neg h0, if_neg h0, toI_dropLast, toI_drop, toI_reverse]
    match es, hr with
    | [e], hr => simp at hr h0; omega
    | e :: e' :: es, _ =>
      have hadm2 : ((prod1 (ps :: (e :: e' :: es).dropLast) : Nat) : Int) ≤ T.hi := by
        rw [← prod1_replaceLast ps _ (by simp)]; exact hadm
      have := prodGoM_seed T ps ((e :: e' :: es).dropLast.drop (r + 1)).reverse
        (fun x hx => hrep x (List.dropLast_subset _ (List.mem_of_mem_drop (List.mem_reverse.mp hx))))
        (by refine natCast_le_of_le ?_ hadm2
            have h1 := prod1_mul_drop_le ps (e :: e' :: es).dropLast (r + 1)
            simp only [prod1, prod1_reverse] at h1 ⊢
            exact h1)
      rw [prod_reverse] at this
      exact this

example : (∀ e ∈ [6, 3, 0, 4], ((e : Nat) : Int) ≤ ITy.i8.hi) ∧ ((lpadSpan1 8 [6, 3, 0, 4] : Nat) : Int) ≤ ITy.i8.hi ∧
    ((rpadSpan1 8 [4, 0, 3, 6] : Nat) : Int) ≤ ITy.i8.hi := by decide
example : lpadStrideM .i8 8 (toI [6, 3, 2, 4]) 3 = .ok 48 ∧ rpadStrideM .i8 8 (toI [4, 2, 3, 6]) 0 = .ok 48 := by
  decide

/-! ### strides() of the padded layouts -/

theorem mulAssignM_ok (T : ITy) (v x : Nat) (hv : (v : Int) ≤ T.hi) (hx : (x : Int) ≤ T.hi)
    (h : ((v * x : Nat) : Int) ≤ T.hi) : mulAssignM T v x = .ok ((v * x : Nat) : Int) := by
  unfold mulAssignM
  rw [mulT_ok T v x hv hx h]
  simp only [bind, Except.bind, pure, Except.pure]
  rw [narrow_id T _ _ h]

/-- the running product of `strides()`; the last extent is never multiplied in -/
theorem lpadStridesGoM_refines (T : ITy) : ∀ (v : Nat) (es : List Nat), (∀ e ∈ es, (e : Int) ≤ T.hi) →
    ((prod1 (v :: es.dropLast) : Nat) : Int) ≤ T.hi →
    lpadStridesGoM T v (toI es) = .ok (toI (leftStridesFrom v es))
  | _, [], _, _ => rfl
  | v, [e], _, _ => rfl
  | v, e :: e' :: es, hrep, hadm => by
    have he := hrep e (by simp)
    simp only [List.dropLast_cons_cons, prod1] at hadm
    have hp1 := prod1_pos (e' :: es).dropLast
    have hnzv : v ≤ (if v = 0 then 1 else v) := by split <;> omega
    have hnze : e ≤ (if e = 0 then 1 else e) := by split <;> omega
    have hnze1 : 0 < (if e = 0 then 1 else e) := by split <;> omega
    have hnzv1 : 0 < (if v = 0 then 1 else v) := by split <;> omega
    have hv : (v : Int) ≤ T.hi :=
      natCast_le_of_le (Nat.le_trans hnzv (Nat.le_mul_of_pos_right _ (Nat.mul_pos hnze1 hp1))) hadm
    have hve : ((v * e : Nat) : Int) ≤ T.hi := by
      refine natCast_le_of_le ?_ hadm
      rw [← Nat.mul_assoc]
      exact Nat.le_trans (Nat.mul_le_mul hnzv hnze) (Nat.le_mul_of_pos_right _ hp1)
    have hnext : ((prod1 (v * e :: (e' :: es).dropLast) : Nat) : Int) ≤ T.hi := by
      refine natCast_le_of_le ?_ hadm
      simp only [prod1]
      rw [← Nat.mul_assoc]
      apply Nat.mul_le_mul_right
      by_cases h0 : v * e = 0
      · rw [if_pos h0]; exact Nat.mul_pos hnzv1 hnze1
      · rw [if_neg h0]; exact Nat.mul_le_mul hnzv hnze
    have ih := lpadStridesGoM_refines T (v * e) (e' :: es)
      (fun x hx => hrep x (List.mem_cons_of_mem _ hx)) hnext
    show lpadStridesGoM T v ((e : Int) :: (e' : Int) :: toI es) = _
    unfold lpadStridesGoM
    rw [mulAssignM_ok T v e hv he hve]
    simp only [bind, Except.bind]
    have ih' : lpadStridesGoM T ((v * e : Nat) : Int) ((e' : Int) :: toI es) =
        .ok (toI (leftStridesFrom (v * e) (e' :: es))) := ih
    rw [ih']
    simp only [pure, Except.pure, leftStridesFrom, toI_cons]

/-- **C14, layout_left_padded::strides()** -/
theorem C14_lpad_strides (T : ITy) (ps : Nat) (es : List Nat) (hrep : ∀ e ∈ es, (e : Int) ≤ T.hi)
    (hadm : ((lpadSpan1 ps es : Nat) : Int) ≤ T.hi) :
    lpadStridesArrM T ps (toI es) = .ok (toI (Layout.lpad es ps).strides) := by
  match es with
  | [] => rfl
  | [e] => rfl
  | e :: e' :: es =>
    have hadm2 : ((prod1 (ps :: e' :: es) : Nat) : Int) ≤ T.hi := hadm
    have hps : (ps : Int) ≤ T.hi := by
      refine nz_le_hi T ps (natCast_le_of_le ?_ hadm2)
      simp only [prod1]; exact Nat.le_mul_of_pos_right _ (prod1_pos (e' :: es))
    have h1 := mulAssignM_ok T 1 ps T.one_le_hi' hps (by rw [Nat.one_mul]; exact hps)
    rw [Nat.one_mul] at h1
    have h2 := lpadStridesGoM_refines T ps (e' :: es) (fun x hx => hrep x (List.mem_cons_of_mem _ hx))
      (natCast_le_of_le (by
        have := prod1_take_le (e' :: es) ((e' :: es).length - 1)
        simp only [prod1, List.dropLast_eq_take] at this ⊢
        exact Nat.mul_le_mul_left _ this) hadm2)
    show lpadStridesArrM T ps ((e : Int) :: (e' : Int) :: toI es) = _
    unfold lpadStridesArrM
    have h1' : mulAssignM T 1 (ps : Int) = .ok (ps : Int) := h1
    rw [h1']
    simp only [bind, Except.bind]
    have h2' : lpadStridesGoM T (ps : Int) ((e' : Int) :: toI es) = .ok (toI (leftStridesFrom ps (e' :: es))) := h2
    rw [h2']
    rfl

theorem rpadStrides_eq_rev (ps : Nat) (es : List Nat) (h : es ≠ []) :
    rightStrides (replaceLast ps es) = (leftStridesFrom ps es.dropLast.reverse).reverse ++ [1] := by
  have h1 := rightStrides_reverse (replaceLast ps es)
  rw [replaceLast_eq ps es h, List.reverse_append, List.reverse_singleton, List.singleton_append,
    leftStrides, leftStridesFrom, Nat.one_mul] at h1
  have h2 := congrArg List.reverse h1
  rw [List.reverse_reverse, List.reverse_cons] at h2
  rw [replaceLast_eq ps es h]; exact h2

/-- **C14, layout_right_padded::strides()** -/
theorem C14_rpad_strides (T : ITy) (ps : Nat) (es : List Nat) (hrep : ∀ e ∈ es, (e : Int) ≤ T.hi)
    (hadm : ((rpadSpan1 ps es : Nat) : Int) ≤ T.hi) :
    rpadStridesArrM T ps (toI es) = .ok (toI (Layout.rpad es ps).strides) := by
  match es with
  | [] => rfl
  | [e] => rfl
  | e :: e' :: es =>
    have hne : e :: e' :: es ≠ [] := by simp
    have hadm2 : ((prod1 (ps :: (e :: e' :: es).dropLast) : Nat) : Int) ≤ T.hi := by
      rw [← prod1_replaceLast ps _ hne]; exact hadm
    have hps : (ps : Int) ≤ T.hi := by
      refine nz_le_hi T ps (natCast_le_of_le ?_ hadm2)
      simp only [prod1]; exact Nat.le_mul_of_pos_right _ (prod1_pos _)
    have h1 := mulAssignM_ok T 1 ps T.one_le_hi' hps (by rw [Nat.one_mul]; exact hps)
    rw [Nat.one_mul] at h1
    have h2 := lpadStridesGoM_refines T ps (e :: e' :: es).dropLast.reverse
      (fun x hx => hrep x (List.dropLast_subset _ (List.mem_reverse.mp hx)))
      (natCast_le_of_le (by
        have := prod1_take_le (e :: e' :: es).dropLast.reverse ((e :: e' :: es).dropLast.reverse.length - 1)
        rw [prod1_reverse] at this
        simp only [prod1, List.dropLast_eq_take] at this ⊢
        exact Nat.mul_le_mul_left _ this) hadm2)
    have hpure : (Layout.rpad (e :: e' :: es) ps).strides =
        (leftStridesFrom ps (e :: e' :: es).dropLast.reverse).reverse ++ [1] :=
      rpadStrides_eq_rev ps _ hne
    rw [hpure]
    show rpadStridesArrM T ps ((e : Int) :: (e' : Int) :: toI es) = _
    simp only [rpadStridesArrM]
    have h1' : mulAssignM T 1 (ps : Int) = .ok (ps : Int) := h1
    have hl : ((e : Int) :: (e' : Int) :: toI es) = toI (e :: e' :: es) := rfl
    rw [h1', hl, toI_dropLast, toI_reverse]
    simp only [bind, Except.bind]
    rw [h2]
    simp only [pure, Except.pure, toI, List.map_append, List.map_reverse]
    rfl

example : lpadStridesArrM .i8 8 (toI [6, 3, 2, 4]) = .ok [1, 8, 24, 48] ∧
    rpadStridesArrM .i8 8 (toI [4, 2, 3, 6]) = .ok [48, 24, 8, 1] := by decide

/-! ### the padded stride computed by the constructors -/

/-- pure mirror of `padStrideCtorM` -/
def padStrideCtor (sp se pv : Option Nat) (rank epad : Nat) : Nat :=
  if rank < 2 then 0
  else match sp, se with
    | some p, some e => findNextMultiple p e
    | _, _ =>
      match pv with
      | some v => findNextMultiple v epad
      | none =>
        match sp with
        | none => epad
        | some p => findNextMultiple p epad

theorem ITy.hi_le_u64 (T : ITy) : T.hi ≤ ITy.u64.hi := by cases T <;> decide

/-- **C14, padded-stride computation of the padded mappings' constructors** (with the repaired
    `find_next_multiple`): no UB and the exact least multiple whenever the padding value, the
    extent to pad and the resulting padded stride are representable. -/
theorem C14_pad_ctor (T : ITy) (sp se pv : Option Nat) (rank epad : Nat)
    (hep : (epad : Int) ≤ T.hi) (hsp : ∀ p, sp = some p → (p : Int) ≤ T.hi)
    (hse : ∀ e, se = some e → (e : Int) ≤ T.hi) (hpv : ∀ v, pv = some v → (v : Int) ≤ T.hi)
    (hres : ((padStrideCtor sp se pv rank epad : Nat) : Int) ≤ T.hi) :
    padStrideCtorM T sp se (pv.map Int.ofNat) rank epad =
      .ok ((padStrideCtor sp se pv rank epad : Nat) : Int) := by
  unfold padStrideCtorM
  unfold padStrideCtor at hres ⊢
  by_cases hr : rank < 2
  · simp only [hr, if_true]; rfl
  · simp only [hr, if_false] at hres ⊢
    have dyn : ∀ (a : Nat), (a : Int) ≤ T.hi → ((findNextMultiple a epad : Nat) : Int) ≤ T.hi →
        findNextMultipleM T (T.wrap (a : Int)) epad = .ok ((findNextMultiple a epad : Nat) : Int) := by
      intro a ha hr
      rw [ITy.wrap_id T a (Int.natCast_nonneg _) ha]
      exact findNextMultipleM_refines T a epad ha hep hr
    match sp, se, pv with
    | some p, some e, _ =>
      simp only at hres ⊢
      have hp := hsp p rfl
      have he := hse e rfl
      have h64 := T.hi_le_u64
      have := findNextMultipleM_refines .u64 p e (by omega) (by omega) (by omega)
      simp only [staticPaddedStride, this, pure, Except.pure]
      rw [ITy.wrap_id T _ (Int.natCast_nonneg _) hres]
    | some p, none, some v => exact dyn v (hpv v rfl) hres
    | none, some e, some v => exact dyn v (hpv v rfl) hres
    | none, none, some v => exact dyn v (hpv v rfl) hres
    | some p, none, none => exact dyn p (hsp p rfl) hres
    | none, some e, none => rfl
    | none, none, none => rfl

example : ((padStrideCtor none none (some 8) 3 100 : Nat) : Int) ≤ ITy.i8.hi ∧
    padStrideCtorM .i8 none none (some 8) 3 100 = .ok 104 ∧
    padStrideCtorM .i8 (some 8) (some 100) none 3 100 = .ok 104 := by decide

end Mdspan
