import MdspanVerif.Props.C20
/-!
# C02 — a default-constructed layout_stride mapping has the row-major strides of its default extents
-/
namespace Mdspan

/-- pure mirror of `strides_storage(true_type)`: the running product from the last dimension -/
def defaultStrides (es : List Nat) : List Nat := (leftStridesFrom 1 es.reverse).reverse

/-- **C02 (default construction)**: the loop yields exactly the `layout_right` strides of the
    (default) extents, for every rank -/
theorem C02_default_stride (es : List Nat) : defaultStrides es = rightStrides es := by
  unfold defaultStrides
  have h := rightStrides_reverse es
  have : leftStridesFrom 1 es.reverse = leftStrides es.reverse := rfl
  rw [this, ← h, List.reverse_reverse]

example : defaultStrides [4, 65536, 32768] = [2147483648, 32768, 1] := by decide

end Mdspan
