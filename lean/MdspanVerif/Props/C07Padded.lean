import MdspanVerif.Props.C07
namespace Mdspan

/-- no offset of a mapping exceeds Σ(e-1)s of its strides -/
theorem offset_le_spanM1 (L : Layout) (hlen : L.strides.length = L.extents.length) (is : List Nat)
    (hi : InB is L.extents) : L.offset is ≤ spanM1 (List.zip L.extents L.strides) := by
  rw [offset_eq_dot L is (inB_length _ _ hi)]
  exact dot_le_spanM1 is _ _ hi hlen.symm

theorem lpadStrides_length (ps : Nat) : ∀ es : List Nat, (lpadStrides ps es).length = es.length
  | [] => rfl
  | [_] => rfl
  | _ :: e :: es => by simp [lpadStrides, leftStridesFrom_length]

theorem rpadStrides_length (ps : Nat) : ∀ es : List Nat, (rpadStrides ps es).length = es.length
  | [] => rfl
  | [_] => rfl
  | e :: e' :: es => by
    simp only [rpadStrides]; rw [rightStrides_length, replaceLast_length]

/-- **C07, layout_left_padded**, rank ≥ 2, valid, non-empty index space -/
theorem C07_lpad (ps e e' : Nat) (es : List Nat) (hv : (Layout.lpad (e :: e' :: es) ps).Valid)
    (hpos : ∀ x ∈ e :: e' :: es, 0 < x) :
    (Layout.lpad (e :: e' :: es) ps).isExhaustive = true ↔ (Layout.lpad (e :: e' :: es) ps).Covers := by
  have hle : e ≤ ps := (padOKLeft_iff ps e e' es).mp hv
  have hex : (Layout.lpad (e :: e' :: es) ps).isExhaustive = true ↔ e = ps := by
    simp only [Layout.isExhaustive, List.length_cons, List.head?_cons, Bool.or_eq_true,
      decide_eq_true_eq, beq_iff_eq, Option.some.injEq]
    constructor
    · rintro (h | h)
      · omega
      · exact h
    · intro h; exact Or.inr h
  rw [hex]
  constructor
  · intro h; subst h
    -- identical to layout_left on the same extents
    have := C07_left (e :: e' :: es)
    intro o ho
    obtain ⟨is, hb, hd⟩ := this o (by
      simp only [Layout.span, lpadSpan, spanLR, prod] at ho ⊢; exact ho)
    refine ⟨is, hb, ?_⟩
    match is, hb with
    | i :: i' :: is', _ =>
      simp only [Layout.offset, lpadOff, leftOff] at hd ⊢; exact hd
  · intro hc
    rcases Nat.lt_or_ge e ps with hlt | hge
    · exfalso
      have hrest : ∀ x ∈ e' :: es, 0 < x := fun x hx => hpos x (List.mem_cons_of_mem _ hx)
      have hpp := prod_pos (e' :: es) hrest
      have hsp := span_left_eq ps (e' :: es) hrest
      have he := hpos e (by simp)
      -- span - 1 is not attained
      have hspan : (Layout.lpad (e :: e' :: es) ps).span = ps * prod (e' :: es) := rfl
      have hbig : 0 < ps * prod (e' :: es) := Nat.mul_pos (by omega) hpp
      obtain ⟨is, hb, hd⟩ := hc (ps * prod (e' :: es) - 1) (by rw [hspan]; omega)
      have hmax := offset_le_spanM1 (Layout.lpad (e :: e' :: es) ps)
        (by simp [Layout.strides, Layout.extents, lpadStrides_length]) is hb
      simp only [Layout.extents, Layout.strides, lpadStrides, List.zip_cons_cons, spanM1] at hmax
      omega
    · omega

theorem rpad_span_formula (ps : Nat) : ∀ (es : List Nat), es ≠ [] → (∀ x ∈ es, 0 < x) →
    ∃ el, es.getLast? = some el ∧
      spanM1 (List.zip es (rightStrides (replaceLast ps es))) + 1 + ps = prod (replaceLast ps es) + el
  | [el], _, h => by
    refine ⟨el, rfl, ?_⟩
    have := h el (by simp)
    simp [replaceLast, rightStrides, spanM1, prod]; omega
  | e :: e' :: es, _, h => by
    obtain ⟨el, hl, hf⟩ := rpad_span_formula ps (e' :: es) (by simp) (fun x hx => h x (List.mem_cons_of_mem _ hx))
    refine ⟨el, by simpa using hl, ?_⟩
    have he := h e (by simp)
    simp only [replaceLast, rightStrides, List.zip_cons_cons, spanM1, prod] at hf ⊢
    have h1 := pred_mul_add e (prod (replaceLast ps (e' :: es))) he
    rw [Nat.mul_comm (prod (replaceLast ps (e' :: es))) e] at h1
    omega
  | [], h, _ => absurd rfl h

end Mdspan
