import Driver.Util
import MdspanVerif.Model.LayoutM
import MdspanVerif.Model.PaddedM
import MdspanVerif.Model.LayoutI
import MdspanVerif.Model.Adm
/-! `map` op family: the machine-layer mirror of the five layout mappings. -/
open Mdspan

namespace Drv

structure MapCtx where
  T : ITy
  kind : String
  pat : List (Option Nat)
  sp : Option Nat
  es : List Int
  ss : List Int
  pv : Option Int

/-- padded stride held by the mapping object -/
def MapCtx.ps (c : MapCtx) : M Int :=
  let left := c.kind == "lpad"
  let n := c.es.length
  let epad := if left then c.es.headD 0 else c.es.getLastD 0
  let se : Option Nat := if left then (c.pat.headD none) else (c.pat.getLastD none)
  padStrideCtorM c.T c.sp se c.pv n epad

/-- the mapping object as a value of the machine layer (`Model/LayoutI.lean`); constructing a padded mapping computes its padded
    stride (`padStrideCtorM`), which may already be undefined -/
def MapCtx.layoutI (c : MapCtx) : M (Option LayoutI) :=
  match c.kind with
  | "right" => pure (some (.right c.es))
  | "left" => pure (some (.left c.es))
  | "stride" => pure (some (.stride c.es c.ss))
  | "lpad" => do let ps ← c.ps; pure (some (.lpad c.es ps))
  | "rpad" => do let ps ← c.ps; pure (some (.rpad c.es ps))
  | _ => pure none

-- the four member functions are `LayoutI.offM / spanM / strideM / exhM`, the functions the umbrella theorems
-- `C14_adm_offset / _span / _stride / _exh` (Props/C14h.lean) are about
def mapOff (c : MapCtx) (is : List Int) : M Int := do
  match (← c.layoutI) with
  | some L => L.offM c.T is
  | none => pure 0

def mapSpan (c : MapCtx) : M Int := do
  match (← c.layoutI) with
  | some L => L.spanM c.T
  | none => pure 0

def mapStride (c : MapCtx) (r : Nat) : M Int := do
  match (← c.layoutI) with
  | some L => L.strideM c.T r
  | none => pure 0

def mapExh (c : MapCtx) : M Bool := do
  match (← c.layoutI) with
  | some L => L.exhM c.T
  | none => pure true

def mapAlwaysExh (c : MapCtx) : Bool :=
  match c.kind with
  | "stride" => false
  | "lpad" => padIsAlwaysExh c.sp (c.pat.headD none) c.es.length
  | "rpad" => padIsAlwaysExh c.sp (c.pat.getLastD none) c.es.length
  | _ => true

/-- the mapping as a value of the pure layer (`none` if some input is negative) -/
def MapCtx.pure? (c : MapCtx) : Option Layout :=
  if c.es.any (· < 0) || c.ss.any (· < 0) then none else
  let es := c.es.map Int.toNat
  let ss := c.ss.map Int.toNat
  let left := c.kind == "lpad"
  let epad := if left then es.headD 0 else es.getLastD 0
  let se : Option Nat := if left then (c.pat.headD none) else (c.pat.getLastD none)
  let ps? : Option Nat :=
    match c.sp, se with
    | some p, some e => some (findNextMultiple p e)
    | _, _ =>
      match c.pv with
      | some v => if v ≤ 0 then none else some (findNextMultiple v.toNat epad)
      | none => match c.sp with
        | none => some epad
        | some p => if p = 0 then none else some (findNextMultiple p epad)
  match c.kind with
  | "left" => some (.left es)
  | "right" => some (.right es)
  | "stride" => some (.stride es ss)
  | "lpad" => ps?.map (fun ps => .lpad es ps)
  | "rpad" => ps?.map (fun ps => .rpad es ps)
  | _ => none

def mapAdm (c : MapCtx) : Bool :=
  match c.pure? with
  | none => false
  | some L => L.admB c.T && (match c.pv with | some v => v ≤ c.T.hi | none => true)

def mapOp (c : MapCtx) (op : String) (arg : String) : String :=
  let n := c.es.length
  match op with
  | "off" => showM (mapOff c (wrapL c.T (parseList arg)))
  | "span" => showM (mapSpan c)
  | "stride" => if n = 0 then "no-op" else showM (mapStride c ((parseList arg).headD 0).toNat)
  | "strides" => showL ((List.range n).mapM (fun r => mapStride c r))
  | "stridesarr" =>
    match c.kind with
    | "stride" => showL (pure c.ss)
    | "lpad" => showL (do let ps ← c.ps; lpadStridesArrM c.T ps c.es)
    | "rpad" => showL (do let ps ← c.ps; rpadStridesArrM c.T ps c.es)
    | _ => "no-op"
  | "cvs" => showL ((List.range n).mapM (fun r => mapStride c r))      -- conversion to another extents type keeps every stride
  | "exh" => showS (do let b ← mapExh c; pure s!"ok {fmtB b}")
  | "flags" => showS (do
      let b ← mapExh c
      pure s!"ok 1,{fmtB b},1,1,{fmtB (mapAlwaysExh c)},1")
  | "ext" => "ok " ++ fmtL c.es
  | "dflt" =>
    -- default construction: extents are the static values, 0 at the dynamic positions
    let es0 : List Int := c.pat.map (fun p => match p with | some v => c.T.wrap v | none => 0)
    let d : MapCtx := { c with es := es0, pv := none }
    showS (do
      let st ← (if c.kind == "stride" then defaultStridesM c.T es0 else (List.range es0.length).mapM (fun r => mapStride d r))
      let sp ← (if c.kind == "stride" then spanStrideM c.T es0 st else mapSpan d)
      pure s!"ok e={fmtL es0} s={fmtL st} span={sp}")
  | "dfltoff" =>
    -- `M{}(idx...)` of the default-constructed mapping
    let es0 : List Int := c.pat.map (fun p => match p with | some v => c.T.wrap v | none => 0)
    showM (do
      let st ← (if c.kind == "stride" then defaultStridesM c.T es0 else pure [])
      let d : MapCtx := { c with es := es0, ss := st, pv := none }
      mapOff d (wrapL c.T (parseList arg)))
  | "adm" => s!"ok {fmtB (mapAdm c)}"
  | _ => "bad-op"

def mapLine (kind ty : String) (rest : List String) : String :=
  match parseTy ty with
  | none => "bad-op"
  | some T =>
    let es := wrapL T (parseList ((getKey rest "ext").getD "-"))
    let ss := wrapL T (parseList ((getKey rest "str").getD "-"))
    let pat := match getKey rest "pat" with
      | some p => parsePat p
      | none => es.map (fun _ => none)
    let c : MapCtx := { T := T, kind := kind, pat := pat, sp := parseOptNat ((getKey rest "sp").getD "D"),
                        es := es, ss := ss, pv := (getKey rest "pv").bind String.toInt? }
    match plainToks rest with
    | [op] => mapOp c op "-"
    | [op, arg] => mapOp c op arg
    | _ => "bad-op"

end Drv
