import MdspanVerif.Props.C11
/-!
# C11 — the converting constructor builds each component from the converted source component

`mdspan(const mdspan<OtherElementType, OtherExtents, OtherLayoutPolicy, OtherAccessor>& other)`
initialises `__members(other.__ptr_ref(), __map_acc_pair_t(other.__mapping_ref(), other.__accessor_ref()))`:
the heterogeneous `__compressed_pair(_T1Like&&, _T2Like&&)` constructor converts each argument into
the stored member type (also when the *source* component is an empty class: the target member is
constructed from it, not value-initialised).
-/
namespace Mdspan

section
variable {P Q P' Q' : Type → Type → Type} {H M A H' M' A' : Type}
variable [PairLike Q M A] [PairLike P H (Q M A)] [PairLike Q' M' A'] [PairLike P' H' (Q' M' A')]

/-- the converting constructor: every component goes through its own conversion -/
def CView.convert (cvH : H' → H) (cvM : M' → M) (cvA : A' → A) (v : CView P' Q' H' M' A') : CView P Q H M A :=
  CView.make (P := P) (Q := Q) (cvH v.ptr) (cvM v.mapping) (cvA v.accessor)

/-- the abstract converting construction -/
def MdsView.convert (cvH : H' → H) (cvM : M' → M) (cvA : A' → A) (v : MdsView H' M' A') : MdsView H M A :=
  ⟨cvH v.h, cvM v.m, cvA v.a⟩

/-- **C11 (conversion)**: whatever specialisations store the source and the target, the converted view
    reports the conversion of each of the three source components — in particular the accessor is
    `A(other.accessor())`, never `A()` -/
theorem C11_convert_abs (cvH : H' → H) (cvM : M' → M) (cvA : A' → A) (v : CView P' Q' H' M' A') :
    (CView.convert (P := P) (Q := Q) cvH cvM cvA v).abs = MdsView.convert cvH cvM cvA v.abs := by
  unfold CView.convert
  rw [C11_make_abs]
  rfl

/-- conversion with identity conversions is the copy -/
theorem C11_convert_id (v : CView P Q H M A) :
    CView.convert (P := P) (Q := Q) id id id v = v := by
  simp [CView.convert, CView.make_abs_self]
end

/-- non-vacuity: from an all-empty (mapping, accessor) pair into a stateful accessor built by the
    converting constructor `fun _ => 77` (the default-constructed accessor would be 0) -/
example : (CView.convert (P := PairNN) (Q := PairEN) (P' := PairNE) (Q' := PairEE) (H := Nat) (M := Unit) (A := Nat)
      (H' := Nat) (M' := Unit) (A' := Unit) id id (fun _ => 77) (CView.make 5 () ())).abs = ⟨5, (), 77⟩ := by
  rw [C11_convert_abs, C11_make_abs]; rfl

end Mdspan
