#!/usr/bin/env python3
"""Takes a seeding agent's delivery (<src>/patch.diff, demo.cpp, notes.txt), confirms it independently with
tools/validate_seed.py (scratch worktree, removed afterwards) and, if confirmed, stores it as seeded/<Cnn>-m<k>/ with meta.json.
usage: tools/ingest_seed.py <Cnn> <k> <srcdir> ['<compiler> <flags>' ...]"""
import sys, os, json, shutil, subprocess
HERE = os.path.dirname(os.path.dirname(os.path.abspath(__file__)))
def main():
    prop, k, src = sys.argv[1], sys.argv[2], sys.argv[3]; extra = sys.argv[4:]
    r = subprocess.run(['python3', os.path.join(HERE, 'tools', 'validate_seed.py'), src] + extra, capture_output=True, text=True)
    try: val = json.loads(r.stdout)
    except Exception: print('validation output unreadable:', r.stdout[-500:], r.stderr[-500:]); return 2
    print(json.dumps({x: val.get(x) for x in ('applies', 'confirmed', 'demo_clean', 'demo_patched', 'suite', 'error')}, indent=1))
    if not val.get('confirmed'): print('NOT CONFIRMED: not stored'); return 1
    d = os.path.join(HERE, 'seeded', '%s-m%s' % (prop, k)); os.makedirs(d, exist_ok=True)
    for f in ('patch.diff', 'demo.cpp', 'notes.txt'): shutil.copy(os.path.join(src, f), os.path.join(d, f))
    notes = open(os.path.join(src, 'notes.txt')).read()
    meta = dict(id='%s-m%s' % (prop, k), property=prop, origin='fresh sub-agent (second round) given only the property text, the sites used in round one (to avoid) and a scratch worktree',
                needs=notes[:900], confirmed_by='tools/validate_seed.py in a scratch worktree of /repo HEAD: patch applies; unedited suite 81/81 with the patch; demo exits 0 on the clean tree and non-zero with the patch' + ((' (extra demo configurations: %s)' % '; '.join(extra)) if extra else ''),
                validation={x: val.get(x) for x in ('demo_clean', 'demo_patched', 'suite')})
    json.dump(meta, open(os.path.join(d, 'meta.json'), 'w'), indent=1)
    print('stored', d); return 0
sys.exit(main())
