import MdspanVerif.Props.C20
import MdspanVerif.Props.C08
import MdspanVerif.Model.Extents
/-!
# C15 — valid inputs never trip a debug-mode check

Every run-time check the library compiles only in debug configurations (`assert` without `NDEBUG`,
the `std::abort()` walks, the `_MDSPAN_DEBUG` blocks), as an executable predicate over the model's
values, together with the documented precondition of the operation that contains it.  The site list
is regenerated from the source on every run (`vf/checks_c15.py`, `debug_check_sites`): a check that
appears, disappears or changes its condition breaks the correspondence with this file.

| constructor | source site |
|---|---|
| `strideToLeft` / `strideToRight` | layout_left.hpp / layout_right.hpp, `mapping(layout_stride::mapping const&)`: the stride walk, `std::abort()` |
| `paddedToUnpadded` | layout_padded_fwd.hpp `check_padded_layout_converting_constructor_preconditions`: `other.stride(padded_stride_idx) == other.extents().extent(extent_to_pad_idx)` for rank > 1 |
| `paddedCtorPadding` | layout_padded.hpp, `mapping(ext, dynamic_padding_value)` (left and right): `padding_value == dynamic_extent || padding_value == dynamic_padding_value` |
| `paddedStrideRank` | layout_padded.hpp, `stride(r)` (left and right): `r < rank()` |
| `mdarrayAdopt` | mdarray.hpp, the eight container-adopting constructors: `ctr.size() >= map_.required_span_size()` |
| `extentsStaticValue` | extents.hpp (`_MDSPAN_DEBUG`), all-values constructors (pack / array / span): the value given at a static position equals the static extent |
| `extentsCount` | extents.hpp (`_MDSPAN_DEBUG`), array / span constructors: `N == m_size` |
-/
namespace Mdspan

inductive DebugCheck
  | strideToLeft (es ss : List Nat)
  | strideToRight (es ss : List Nat)
  | paddedToUnpadded (src : Layout) (dst : LKind)
  | paddedCtorPadding (staticPadding : Option Nat) (pv : Nat)
  | paddedStrideRank (r rank : Nat)
  | mdarrayAdopt (span containerSize : Nat)
  | extentsStaticValue (pat : Pattern) (vals : List Nat)
  | extentsCount (n rank : Nat)

/-- the all-values loop: at every static position the supplied value must equal the static extent -/
def staticValuesMatch : Pattern → List Nat → Bool
  | some s :: ps, v :: vs => (v == s) && staticValuesMatch ps vs
  | none :: ps, _ :: vs => staticValuesMatch ps vs
  | _, _ => true

/-- the condition the code evaluates; `false` = the check fires (abort / assertion failure) -/
def DebugCheck.passes : DebugCheck → Bool
  | .strideToLeft es ss => !walkLeft es ss
  | .strideToRight es ss => !walkRight es ss
  | .paddedToUnpadded src dst =>
    match dst, src with
    | .left, .lpad es ps => !(decide (es.length > 1)) || lpadStride ps es lpadIdx == es.getD 0 0
    | .right, .rpad es ps => !(decide (es.length > 1)) || rpadStride ps es (rpadIdx es.length) == es.getD (es.length - 1) 0
    | _, _ => true
  | .paddedCtorPadding sp pv => match sp with | none => true | some p => p == pv
  | .paddedStrideRank r rank => decide (r < rank)
  | .mdarrayAdopt span n => decide (span ≤ n)
  | .extentsStaticValue pat vals => staticValuesMatch pat vals
  | .extentsCount n rank => n == rank

/-- the documented precondition of the operation (what "valid input" means for it) -/
def DebugCheck.Pre : DebugCheck → Prop
  | .strideToLeft es ss => es.length = ss.length ∧ ss = leftStrides es
  | .strideToRight es ss => es.length = ss.length ∧ ss = rightStrides es
  | .paddedToUnpadded src dst => ConvPre src dst
  | .paddedCtorPadding sp pv => ∀ p, sp = some p → p = pv
  | .paddedStrideRank r rank => r < rank
  | .mdarrayAdopt span n => span ≤ n
  | .extentsStaticValue pat vals => ∀ (k s : Nat), (pat : List (Option Nat))[k]? = some (some s) → ∀ v, vals[k]? = some v → v = s
  | .extentsCount n rank => n = rank

theorem staticValuesMatch_of_pre : ∀ (pat : Pattern) (vals : List Nat),
    (∀ (k s : Nat), (pat : List (Option Nat))[k]? = some (some s) → ∀ v, vals[k]? = some v → v = s) → staticValuesMatch pat vals = true
  | [], _, _ => by simp [staticValuesMatch]
  | none :: ps, [], _ => by simp [staticValuesMatch]
  | some _ :: ps, [], _ => by simp [staticValuesMatch]
  | none :: ps, v :: vs, h => by
    simp only [staticValuesMatch]
    exact staticValuesMatch_of_pre ps vs (fun k s hk w hw => h (k + 1) s (by simpa using hk) w (by simpa using hw))
  | some s :: ps, v :: vs, h => by
    simp only [staticValuesMatch, Bool.and_eq_true, beq_iff_eq]
    exact ⟨h 0 s (by simp) v (by simp),
      staticValuesMatch_of_pre ps vs (fun k s' hk w hw => h (k + 1) s' (by simpa using hk) w (by simpa using hw))⟩

/-- **C15 (debug checks are silent on valid input)**: under the documented precondition of the
    operation, no debug-only check of the library fires. -/
theorem C15_debug_checks_silent (c : DebugCheck) (h : c.Pre) : c.passes = true := by
  cases c with
  | strideToLeft es ss =>
    obtain ⟨hl, rfl⟩ := h
    simp [DebugCheck.passes, (C20_canonical_passes es).1]
  | strideToRight es ss =>
    obtain ⟨hl, rfl⟩ := h
    simp [DebugCheck.passes, (C20_canonical_passes es).2]
  | paddedToUnpadded src dst =>
    cases dst <;> cases src <;> simp only [DebugCheck.passes] <;> try rfl
    · next es ps =>
      have h' : es.length > 1 → lpadStride ps es lpadIdx = es.getD 0 0 := h
      by_cases hr : es.length > 1
      · simp [hr, h' hr]
      · simp [hr]
    · next es ps =>
      have h' : es.length > 1 → rpadStride ps es (rpadIdx es.length) = es.getD (es.length - 1) 0 := h
      by_cases hr : es.length > 1
      · simp [hr, h' hr]
      · simp [hr]
  | paddedCtorPadding sp pv =>
    cases sp with
    | none => rfl
    | some p =>
      have h' : ∀ q, some p = some q → q = pv := h
      simp [DebugCheck.passes, h' p rfl]
  | paddedStrideRank r rank =>
    have h' : r < rank := h
    simp [DebugCheck.passes, h']
  | mdarrayAdopt span n =>
    have h' : span ≤ n := h
    simp [DebugCheck.passes, h']
  | extentsStaticValue pat vals => exact staticValuesMatch_of_pre pat vals h
  | extentsCount n rank =>
    have h' : n = rank := h
    simp [DebugCheck.passes, h']

/-- the stride walks are sharp: they fire on every input that violates the precondition (C20) -/
theorem C15_stride_checks_sharp (es ss : List Nat) (hl : es.length = ss.length) :
    ((DebugCheck.strideToLeft es ss).passes = true ↔ ss = leftStrides es) ∧
    ((DebugCheck.strideToRight es ss).passes = true ↔ ss = rightStrides es) := by
  have hL := C20_left es ss hl
  have hR := C20_right es ss hl
  constructor
  · simp only [DebugCheck.passes, Bool.not_eq_true']
    constructor
    · intro h
      cases Classical.em (ss = leftStrides es) with
      | inl heq => exact heq
      | inr hne => have := hL.mpr hne; rw [h] at this; cases this
    · intro h
      cases hw : walkLeft es ss with
      | false => rfl
      | true => exact absurd h (hL.mp hw)
  · simp only [DebugCheck.passes, Bool.not_eq_true']
    constructor
    · intro h
      cases Classical.em (ss = rightStrides es) with
      | inl heq => exact heq
      | inr hne => have := hR.mpr hne; rw [h] at this; cases this
    · intro h
      cases hw : walkRight es ss with
      | false => rfl
      | true => exact absurd h (hR.mp hw)

/-- non-vacuity: each precondition is satisfiable on a non-trivial value, and each check can fire -/
example : (DebugCheck.strideToLeft [2, 3, 4] [1, 2, 6]).Pre ∧ (DebugCheck.strideToLeft [2, 3, 4] [1, 2, 7]).passes = false :=
  ⟨⟨rfl, by decide⟩, by decide⟩
example : (DebugCheck.paddedToUnpadded (.lpad [8, 2, 3] 8) .left).Pre ∧
    (DebugCheck.paddedToUnpadded (.lpad [5, 2, 3] 8) .left).passes = false :=
  ⟨by show ConvPre (.lpad [8, 2, 3] 8) .left; decide, by decide⟩
example : (DebugCheck.extentsStaticValue [none, some 3, none] [5, 3, 7]).passes = true ∧
    (DebugCheck.extentsStaticValue [none, some 3, none] [5, 4, 7]).passes = false ∧
    (DebugCheck.paddedCtorPadding (some 4) 8).passes = false ∧ (DebugCheck.mdarrayAdopt 12 11).passes = false := by decide

end Mdspan
