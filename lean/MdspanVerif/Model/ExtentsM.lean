import MdspanVerif.Model.Int
import MdspanVerif.Model.Extents
/-!
# Typed layer of `extents`: construction from values of another integer type, conversion,
comparison in the common type
-/
namespace Mdspan

/-- `static_cast<index_type>(v)` of an argument of type `S` -/
def castArg (T S : ITy) (v : Int) : Int := T.wrap (S.wrap v)

/-- the constructors from an integer pack / `std::array<S,N>` / `std::span<S,N>`:
    selection by argument count, every stored value converted to `index_type` -/
def Ext.ctorM (T S : ITy) (p : Pattern) (vals : List Int) : Ext :=
  Ext.ctor p (vals.map (castArg T S))

/-- converting constructor `extents<T,p>(extents<U,q>)`: gathers `other.extent(r)` (an `U`) at
    the dynamic positions and converts to `T` -/
def Ext.convM (T : ITy) (p : Pattern) (src : Ext) : Ext :=
  ⟨p, (convGo src p 0).map T.wrap⟩

/-- `operator==(extents<T,..>, extents<U,..>)`: false for different ranks, otherwise the loop
    comparing `static_cast<common_t>(rhs.extent(r)) != static_cast<common_t>(lhs.extent(r))` -/
def Ext.eqGo (T U : ITy) (a b : Ext) : Nat → Nat → Bool
  | _, 0 => true
  | r, n + 1 => if V.eq ⟨U, b.extent r⟩ ⟨T, a.extent r⟩ then Ext.eqGo T U a b (r + 1) n else false
def Ext.eqM (T U : ITy) (a b : Ext) : Bool :=
  if a.rank = b.rank then Ext.eqGo T U a b 0 a.rank else false

end Mdspan
