"""Generates the submdspan_mapping op server."""
import itertools, random
from vf.common import ITYPES
from harness.gen_map import cxx_extents, KINDS

KTYPE = {'i': 'SI', 'r': 'SR', 't': 'ST', 'f': 'SF', 's': 'SS', 'I': 'SCI', 'R': 'SCR', 'S': 'SCS', 'Q': 'SCQ', 'U': 'SCU', 'Z': 'SCZ', 'E': 'SEN', 'C': 'SCL'}
BASIC = 'irfs'

def instances(full=False):
    """list of (layout kind, T, pat, slice-kind string)"""
    out = []
    fixed = random.Random(20260930)
    r3 = [''.join(k) for k in itertools.product(BASIC, repeat=3)]
    r3_sub = sorted(fixed.sample(r3, 28))
    for t in ITYPES:
        for r in (1, 2, 3):
            tuples = [''.join(k) for k in itertools.product(BASIC, repeat=r)]
            if r == 3 and not (full or t in ('i32', 'u8')): tuples = r3_sub
            for ks in tuples:
                for kind in ('left', 'right', 'stride'):
                    out.append((kind, t, tuple([None] * r), ks))
    # compile-time valued slices, tuples, rank 4, static source extents (fewer index types)
    extra = ['t', 'I', 'R', 'S', 'tI', 'It', 'fR', 'Rf', 'RI', 'IR', 'Sf', 'fS', 'SI', 'tS', 'ft', 'tf',
             'Q', 'fQ', 'Qf', 'QI', 'iQ', 'U', 'Uf', 'fU', 'Ur', 'rU', 'UU', 'Ui', 'iU', 'fUr', 'Z', 'Zf', 'fZ', 'rZ', 'ffI', 'Rff', 'ffR', 'IfR', 'fSI', 'tIf', 'ifrs', 'ffri', 'irff', 'sfif', 'ffff', 'iiii', 'rfii', 'iifr',
             'E', 'C', 'Ef', 'fE', 'Cf', 'fC', 'rE', 'Cr', 'EC', 'fEf', 'fCr', 'sEf', 'ECf', 'fffr', 'rfff', 'iiff', 'fffi', 'sfff', 'fffs', 'ffrii', 'iirff', 'fffff', 'ifffr']      # rank 4-5: layout-preserving and nearly-preserving shapes
    for t in ('i32', 'u16', 'i64'):
        for ks in extra:
            for kind in ('left', 'right', 'stride'):
                out.append((kind, t, tuple([None] * len(ks)), ks))
    for t in ('i32', 'u64'):
        for pat, kss in (((4, None), ['ff', 'fr', 'rf', 'if', 'fi', 'sf', 'fR', 'Rf']), ((None, 5, 4), ['fff', 'ffr', 'rff', 'iff', 'ffi', 'fsf', 'IfR'])):
            for ks in kss:
                for kind in ('left', 'right', 'stride'):
                    out.append((kind, t, pat, ks))
    # a user layout providing the submdspan_mapping customization point (mdspan-level submdspan only)
    for ks in ('i', 'r', 'f', 's', 'if', 'fi', 'rf', 'fr', 'sf', 'ss', 'ri', 'ffi', 'ifr', 'rsf', 'fff', 'iis'):
        out.append(('ushift', 'i32', tuple([None] * len(ks)), ks))
    return out

def pat_str(pat): return ','.join('D' if p is None else str(p) for p in pat) if pat else '-'
def key(inst):
    kind, t, pat, ks = inst
    return 'sub:%s:%s:%s:%s' % (kind, t, pat_str(pat), ks)
def line_prefix(inst):
    kind, t, pat, ks = inst
    return 'sub %s %s pat=%s k=%s' % (kind, t, pat_str(pat), ks)

def sources(insts, ntu=32):
    tus = [[] for _ in range(ntu)]
    for n, inst in enumerate(insts):
        kind, t, pat, ks = inst
        tus[n % ntu].append('  regSub<%s, %s, %s>("%s");' % (KINDS[kind], cxx_extents(t, pat), ', '.join(KTYPE[k] for k in ks), key(inst)))
    srcs = []
    for i, body in enumerate(tus):
        srcs.append(('sub_tu%d.cpp' % i, '#include "subsrv.hpp"\nusing namespace vh;\nvoid reg_sub_%d() {\n%s\n}\n' % (i, '\n'.join(body))))
    main = '#include "vh.hpp"\n' + ''.join('void reg_sub_%d();\n' % i for i in range(ntu)) + \
           'int main() {\n' + ''.join('  reg_sub_%d();\n' % i for i in range(ntu)) + '  return vh::serve();\n}\n'
    srcs.append(('sub_main.cpp', main))
    return srcs

def lite(insts):
    return [i for i in insts if i[1] in ('i32', 'u8') and len(i[3]) <= 2 and all(k in 'irfst' for k in i[3])] + [i for i in insts if i[1] == 'i32' and any(k in 'IRSQUZ' for k in i[3])]
