import MdspanVerif.Model.Sub
/-!
# Type-level model of submdspan (C09): result rank, static extents, layout type

A slice *type* is described by what the compiler can see: whether it is an index, which
members of a pair/tuple or strided_slice are `integral_constant`s (and their values).
`Impl.*` mirror the metafunctions of `submdspan_extents.hpp` / `submdspan_mapping.hpp`,
`Spec.*` the slicing rules as the specification states them.
-/
namespace Mdspan

inductive SlK
  | idx                               -- anything convertible to size_t (integer, integral_constant)
  | pair (b e : Option Nat)           -- pair / tuple; `some v` = integral_constant member
  | full                              -- full_extent_t
  | strided (x s : Option Nat)        -- strided_slice<Offset, Extent, Stride>; `some v` = integral_constant
deriving DecidableEq, Repr

namespace SlK
/-- the value-level slice of the same category (values irrelevant for the predicates) -/
def toSlice : SlK → Slice
  | idx => .idx 0 | pair _ _ => .range 0 0 | full => .full | strided _ _ => .strided 0 0 0
def isIdx : SlK → Bool | idx => true | _ => false
end SlK

inductive LayoutK | left | right | stride
deriving DecidableEq, Repr

namespace Impl
/-- `StaticExtentFromRange<decltype(first_of(slice)), decltype(last_of(k, ext, slice))>::value`
    and `StaticExtentFromStridedRange<ExtentType, StrideType>::value`;
    `none` = the dimension is dropped, `some none` = `dynamic_extent` -/
def subStatic1 (src : Option Nat) : SlK → Option (Option Nat)
  | .idx => none
  | .pair (some b) (some e) => some (some (e - b))
  | .pair _ _ => some none
  | .full =>
    -- first_of(full_extent) is integral_constant<size_t,0>; last_of is an integral_constant
    -- exactly when the source extent is static
    match src with
    | some e => some (some (e - 0))
    | none => some none
  | .strided (some x) (some s) => some (some (if x > 0 then 1 + (x - 1) / s else 0))
  | .strided _ _ => some none

/-- the `extents_constructor` recursion: one step per source dimension -/
def subStatic : List (Option Nat) → List SlK → List (Option Nat)
  | p :: ps, k :: ks =>
    match subStatic1 p k with
    | none => subStatic ps ks
    | some x => x :: subStatic ps ks
  | _, _ => []

def subLayout (src : LayoutK) (ks : List SlK) : LayoutK :=
  match src with
  | .left => if preserveLeft (ks.map SlK.toSlice) then .left else .stride
  | .right => if preserveRight (ks.map SlK.toSlice) then .right else .stride
  | .stride => .stride
end Impl

namespace Spec
def ceilDiv (x s : Nat) : Nat := (x + s - 1) / s
/-- "a result extent is static exactly when it comes from full_extent over a static source
    extent, from a pair/tuple of integral constants, or from a strided_slice whose extent and
    stride are both integral constants" — with the value `end - begin`, the source extent,
    `ceil(extent / stride)` (0 for extent 0) -/
def subStatic1 (src : Option Nat) : SlK → Option (Option Nat)
  | .idx => none
  | .full => some src
  | .pair b e => some (match b, e with | some b, some e => some (e - b) | _, _ => none)
  | .strided x s => some (match x, s with | some x, some s => some (if x = 0 then 0 else ceilDiv x s) | _, _ => none)
def subStatic (ps : List (Option Nat)) (ks : List SlK) : List (Option Nat) :=
  (List.zip ps ks).filterMap (fun pk => subStatic1 pk.1 pk.2)
def subRank (ks : List SlK) : Nat := (ks.filter (fun k => !k.isIdx)).length
end Spec

end Mdspan
