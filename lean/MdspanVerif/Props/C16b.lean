import MdspanVerif.Model.Types2
import MdspanVerif.Props.C16
import MdspanVerif.Props.C02
import MdspanVerif.Props.C08
import MdspanVerif.Lemmas.Span
import MdspanVerif.Lemmas.Canonical
/-!
# C16 (mappings, accessors, mdspan, argument packs)

`Impl.* = Spec.*` for every descriptor of every rank, the derived statements of the property text,
and the *semantic* reading of "implicit": which implicit mapping conversions are free of
preconditions (`map_implicit_total`, `implicit_to_stride_total`) — and which are not
(`padded_implicit_not_total`).
-/
namespace Mdspan

/-! ## the Boolean spec relations on extents agree with `Impl` (and hence with the `Prop` spec) -/

theorem checkCompatible_eq_all : ∀ (l r : Pattern), l.length = r.length →
    Impl.checkCompatible l r =
      (l.zip r).all (fun ab => ab.1.isNone || ab.2.isNone || ab.1 == ab.2)
  | [], [], _ => rfl
  | x :: l, y :: r, h => by
    have ih := checkCompatible_eq_all l r (by simpa using h)
    simp only [Impl.checkCompatible, List.zip_cons_cons, List.all_cons, ih]
    congr 1
    cases x <;> cases y <;> simp [Impl.compatible1]
  | [], _ :: _, h => by simp at h
  | _ :: _, [], h => by simp at h

theorem extSub_eq (E F : ExtT) : Spec.extSub E F = Impl.extConstructible E F := by
  unfold Spec.extSub Impl.extConstructible
  by_cases h : E.pat.length = F.pat.length
  · simp only [h, beq_self_eq_true, Bool.true_and, if_true]
    exact (checkCompatible_eq_all _ _ h).symm
  · have : (E.pat.length == F.pat.length) = false := by simp [h]
    simp [this]

theorem explicitFold_eq_any : ∀ (l r : Pattern),
    Impl.explicitFold l r = (l.zip r).any (fun ab => ab.1.isSome && ab.2.isNone)
  | [], _ => by simp [Impl.explicitFold]
  | _ :: _, [] => by simp [Impl.explicitFold]
  | x :: l, y :: r => by
    simp only [Impl.explicitFold, List.zip_cons_cons, List.any_cons, explicitFold_eq_any l r]

theorem extExpl_eq (E F : ExtT) : Spec.extExpl E F = Impl.extExplicit E F := by
  unfold Spec.extExpl Impl.extExplicit
  rw [explicitFold_eq_any]

theorem extSubI_eq (E F : ExtT) : Spec.extSubI E F = Impl.extConvertible E F := by
  unfold Spec.extSubI Impl.extConvertible
  rw [extSub_eq, extExpl_eq]

theorem extSub_iff (E F : ExtT) : Spec.extSub E F = true ↔ Spec.extConstructible E F := by
  rw [extSub_eq]; exact C16_ext_constructible E F

theorem extExpl_iff (E F : ExtT) : Spec.extExpl E F = true ↔ Spec.extExplicit E F := by
  rw [extExpl_eq]; exact C16_ext_explicit E F

theorem extConvertible_self (E : ExtT) : Impl.extConvertible E E = true := by
  have h1 : Spec.extConstructible E E := ⟨rfl, fun r a b ha hb => by rw [ha] at hb; simpa using hb⟩
  have h2 : ¬ Spec.extExplicit E E := by
    rintro (⟨r, ⟨s, hs⟩, hn⟩ | h)
    · rw [hs] at hn; simp at hn
    · exact absurd h (by omega)
  have c1 := (C16_ext_constructible E E).mpr h1
  have c2 : Impl.extExplicit E E = false := by
    cases h : Impl.extExplicit E E
    · rfl
    · exact absurd ((C16_ext_explicit E E).mp h) h2
  simp [Impl.extConvertible, c1, c2]

theorem extConvertible_constructible (E F : ExtT) (h : Impl.extConvertible E F = true) :
    Impl.extConstructible E F = true := by
  simp only [Impl.extConvertible, Bool.and_eq_true] at h; exact h.1

theorem extConstructible_rank (E F : ExtT) (h : Impl.extConstructible E F = true) :
    E.rank = F.rank := ((C16_ext_constructible E F).mp h).1

/-! ## `Impl = Spec` for the mappings -/

/-- the table row a constructor `(constraint, explicit)` pair denotes -/
theorem row_isSome (p e : Bool) : (Spec.row p e).isSome = p := by cases p <;> rfl
theorem row_eq_true (p e : Bool) : (Spec.row p e == some true) = (p && e) := by
  cases p <;> cases e <;> rfl
theorem row_eq_false (p e : Bool) : (Spec.row p e == some false) = (p && !e) := by
  cases p <;> cases e <;> rfl

/-- the rule table is the constructor table of the headers, row by row -/
theorem mapRule_eq (d s : MapT) (h : d ≠ s) :
    Spec.mapRule d s = Spec.row (Impl.mapCtor d s).1 (Impl.mapCtor d s).2 := by
  obtain ⟨dl, E⟩ := d
  obtain ⟨sl, F⟩ := s
  cases dl <;> cases sl <;>
    simp only [Spec.mapRule, h, if_false, Impl.mapCtor, Impl.leftCtor, Impl.rightCtor, Impl.strideCtor,
      Impl.lpadCtor, Impl.rpadCtor, Impl.isMappingOf, Impl.alwaysUnique, Impl.alwaysStrided,
      extSub_eq, extSubI_eq, ExtT.rank] <;>
    (generalize Impl.extConstructible E F = c
     generalize Impl.extConvertible E F = v
     cases c <;> cases v <;>
       first | rfl | (simp <;> rfl; done) | (rename_i P Q; cases P <;> cases Q <;> simp <;> rfl; done))

/-- **C16 (mappings, participation)**: `std::is_constructible_v` as the headers constrain it is the
    rule table, for every pair of mapping types of every rank -/
theorem C16_map_constructible (d s : MapT) :
    Impl.mapConstructible d s = Spec.mapConstructible d s := by
  unfold Impl.mapConstructible Spec.mapConstructible
  by_cases h : d = s
  · simp [h, Spec.mapRule]
  · rw [mapRule_eq d s h, row_isSome]; simp [h]

/-- **C16 (mappings, explicitness)** -/
theorem C16_map_explicit (d s : MapT) : Impl.mapExplicit d s = Spec.mapExplicit d s := by
  unfold Impl.mapExplicit Spec.mapExplicit
  by_cases h : d = s
  · simp [h, Spec.mapRule]
  · rw [mapRule_eq d s h, row_eq_true]; simp [h]

/-- `std::is_convertible_v` (C++20 and later) -/
theorem C16_map_convertible (d s : MapT) : Impl.mapConvertible d s = Spec.mapConvertible d s := by
  unfold Impl.mapConvertible Impl.mapConstructible Impl.mapExplicit Spec.mapConvertible
  by_cases h : d = s
  · simp [h, Spec.mapRule]
  · rw [mapRule_eq d s h, row_eq_false]; simp only [h, if_false]
    cases (Impl.mapCtor d s).1 <;> cases (Impl.mapCtor d s).2 <;> rfl

/-! ## the statements of the property text -/

theorem ne_of_lay_ne {d s : MapT} (h : d.lay ≠ s.lay) : d ≠ s := fun e => h (e ▸ rfl)

/-- every viable conversion needs constructible extents (equal rank, compatible static extents) -/
theorem map_constructible_ext (d s : MapT) (h : Impl.mapConstructible d s = true) :
    Impl.extConstructible d.ext s.ext = true := by
  by_cases he : d = s
  · subst he; exact extConvertible_constructible _ _ (extConvertible_self _)
  · obtain ⟨dl, E⟩ := d
    obtain ⟨sl, F⟩ := s
    simp only [Impl.mapConstructible, he, if_false] at h
    cases dl <;> cases sl <;>
      simp [Impl.mapCtor, Impl.leftCtor, Impl.rightCtor, Impl.strideCtor, Impl.lpadCtor,
        Impl.rpadCtor] at h <;> simp [h]

/-- **C16**: `layout_left ↔ layout_right` conversion exists only for rank ≤ 1 -/
theorem C16_lr_rank (d s : MapT)
    (h : d.lay = .left ∧ s.lay = .right ∨ d.lay = .right ∧ s.lay = .left) :
    Impl.mapConstructible d s = true ↔ Spec.extConstructible d.ext s.ext ∧ d.rank ≤ 1 := by
  obtain ⟨dl, E⟩ := d
  obtain ⟨sl, F⟩ := s
  rcases h with ⟨h1, h2⟩ | ⟨h1, h2⟩ <;> simp only at h1 h2 <;> subst h1 <;> subst h2 <;>
    simp [Impl.mapConstructible, Impl.mapCtor, Impl.leftCtor, Impl.rightCtor, MapT.rank, ExtT.rank,
      ← C16_ext_constructible] <;> intro _ <;> exact decide_eq_true_iff

/-- … and is explicit exactly when the extents conversion is not implicit -/
theorem C16_lr_explicit (d s : MapT)
    (h : d.lay = .left ∧ s.lay = .right ∨ d.lay = .right ∧ s.lay = .left)
    (hc : Impl.mapConstructible d s = true) :
    Impl.mapExplicit d s = true ↔ Impl.extConvertible d.ext s.ext = false := by
  obtain ⟨dl, E⟩ := d
  obtain ⟨sl, F⟩ := s
  rcases h with ⟨h1, h2⟩ | ⟨h1, h2⟩ <;> simp only at h1 h2 <;> subst h1 <;> subst h2 <;>
    simp [Impl.mapConstructible, Impl.mapCtor, Impl.leftCtor, Impl.rightCtor] at hc <;>
    simp [Impl.mapExplicit, Impl.mapCtor, Impl.leftCtor, Impl.rightCtor, hc]

/-- **C16**: `layout_stride → layout_left / layout_right` is explicit exactly for rank > 0 -/
theorem C16_stride_to_lr_explicit (d s : MapT) (hd : d.lay = .left ∨ d.lay = .right)
    (hs : s.lay = .stride) (hc : Impl.mapConstructible d s = true) :
    Impl.mapExplicit d s = true ↔ d.rank > 0 := by
  obtain ⟨dl, E⟩ := d
  obtain ⟨sl, F⟩ := s
  simp only at hd hs; subst hs
  rcases hd with h1 | h1 <;> subst h1 <;>
    simp [Impl.mapConstructible, Impl.mapCtor, Impl.leftCtor, Impl.rightCtor] at hc <;>
    simp [Impl.mapExplicit, Impl.mapCtor, Impl.leftCtor, Impl.rightCtor, hc, MapT.rank]

/-- the same for `layout_stride → left_padded / right_padded` -/
theorem C16_stride_to_padded_explicit (d s : MapT) (hd : d.lay.isPadded = true)
    (hs : s.lay = .stride) (hc : Impl.mapConstructible d s = true) :
    Impl.mapExplicit d s = true ↔ d.rank > 0 := by
  obtain ⟨dl, E⟩ := d
  obtain ⟨sl, F⟩ := s
  simp only at hd hs; subst hs
  cases dl <;> simp [LayK.isPadded] at hd <;>
    simp [Impl.mapConstructible, Impl.mapCtor, Impl.lpadCtor, Impl.rpadCtor] at hc <;>
    simp [Impl.mapExplicit, Impl.mapCtor, Impl.lpadCtor, Impl.rpadCtor, hc, MapT.rank]

/-- conversion **to** `layout_stride` is implicit exactly from `left` / `right` / `stride` with
    implicitly convertible extents -/
theorem C16_to_stride_implicit (d s : MapT) (hd : d.lay = .stride) :
    Impl.mapConvertible d s = true ↔
      Impl.extConvertible d.ext s.ext = true ∧ (s.lay = .left ∨ s.lay = .right ∨ s.lay = .stride) := by
  by_cases he : d = s
  · subst he
    simp [Impl.mapConvertible, Impl.mapConstructible, Impl.mapExplicit, extConvertible_self, hd]
  · obtain ⟨dl, E⟩ := d
    obtain ⟨sl, F⟩ := s
    simp only at hd; subst hd
    simp only [Impl.mapConvertible, Impl.mapConstructible, Impl.mapExplicit, he, if_false,
      Impl.mapCtor, Impl.strideCtor, Impl.isMappingOf, Impl.alwaysUnique, Impl.alwaysStrided]
    have hcv := extConvertible_constructible E F
    cases sl <;> cases hv : Impl.extConvertible E F <;> cases hc : Impl.extConstructible E F <;>
      simp_all

/-- inside one padded family the conversion is explicit exactly for rank > 1 with a dynamic
    padding value on either side -/
theorem C16_padded_family_explicit (d s : MapT) (hne : d ≠ s)
    (hf : d.lay.samePaddedFamily s.lay = true) (hc : Impl.mapConstructible d s = true) :
    Impl.mapExplicit d s = true ↔
      d.rank > 1 ∧ (d.lay.padding = none ∨ s.lay.padding = none) := by
  obtain ⟨dl, E⟩ := d
  obtain ⟨sl, F⟩ := s
  cases dl <;> cases sl <;> simp [LayK.samePaddedFamily] at hf <;>
    simp [Impl.mapConstructible, hne, Impl.mapCtor, Impl.lpadCtor, Impl.rpadCtor] at hc <;>
    simp [Impl.mapExplicit, hne, Impl.mapCtor, Impl.lpadCtor, Impl.rpadCtor, hc, MapT.rank,
      LayK.padding]

/-! ### consequences -/

theorem map_convertible_constructible (d s : MapT) (h : Impl.mapConvertible d s = true) :
    Impl.mapConstructible d s = true := by
  simp only [Impl.mapConvertible, Bool.and_eq_true] at h; exact h.1

theorem map_identity_implicit (d : MapT) : Impl.mapConvertible d d = true := by
  simp [Impl.mapConvertible, Impl.mapConstructible, Impl.mapExplicit]

theorem map_identity_no_hard_error (d : MapT) : Impl.mapHardError d d = false := by
  simp [Impl.mapHardError]

/-- before C++20 nothing is explicit: `is_convertible = is_constructible`; from C++20 on,
    `is_convertible = is_constructible ∧ ¬explicit` — both are what `Impl` defines -/
theorem map_convertible_iff (d s : MapT) :
    Impl.mapConvertible d s = true ↔ Impl.mapConstructible d s = true ∧ Impl.mapExplicit d s = false := by
  simp [Impl.mapConvertible]

/-! ## Mandates (`static_assert`s in the constructor bodies) -/

theorem staticPaddingStride_eq (P : Option Nat) (E : ExtT) (idx : Nat) :
    Impl.staticPaddingStride P E idx = Spec.staticPaddingStride P E idx := by
  unfold Impl.staticPaddingStride Spec.staticPaddingStride ExtT.rank ExtT.staticExtent
  split
  · rfl
  · cases P with
    | none => rfl
    | some p =>
      cases (E.pat[idx]?).getD none with
      | none => rfl
      | some e =>
        show some (findNextMultiple p e) = some (findNextMultipleOrig p e)
        rw [findNextMultipleOrig_eq]

/-- **C16 (Mandates)**: the hard errors of the constructor bodies are the Mandates of the
    specification, for every pair of mapping types -/
theorem C16_map_mandates (d s : MapT) : Impl.mapHardError d s = Spec.mapMandateViolated d s := by
  unfold Impl.mapHardError Spec.mapMandateViolated
  by_cases he : d = s
  · simp [he]
  · cases hc : Impl.mapConstructible d s
    · simp [he, ← C16_map_constructible, hc]
    · have hr := extConstructible_rank _ _ (map_constructible_ext d s hc)
      rw [← C16_map_constructible, hc]
      obtain ⟨dl, E⟩ := d
      obtain ⟨sl, F⟩ := s
      simp only [ExtT.rank] at hr
      simp only [he, if_false, ne_eq, not_false_eq_true, decide_true, Bool.true_and]
      cases dl <;> cases sl <;>
        simp only [Impl.paddedToPlainMandateFails, Impl.plainToPaddedAssertFails,
          Impl.paddedToPaddedAssertFails, staticPaddingStride_eq, LayK.extentToPadIdx, ExtT.rank,
          ExtT.staticExtent] <;> (try rfl)
      case left.lpad Q =>
        congr 1
        generalize (E.pat[0]?).getD none = o1
        generalize (F.pat[0]?).getD none = o2
        cases o1 <;> cases o2 <;> cases Q <;> try rfl
        rename_i e _ q
        by_cases hq : q = 0 <;> simp [hq]
      case right.rpad Q =>
        congr 1
        generalize (E.pat[E.pat.length - 1]?).getD none = o1
        generalize (F.pat[E.pat.length - 1]?).getD none = o2
        cases o1 <;> cases o2 <;> cases Q <;> try rfl
        rename_i e _ q
        by_cases hq : q = 0 <;> simp [hq]
      case lpad.left P =>
        simp only [← hr]
        generalize Spec.staticPaddingStride P E 0 = a
        generalize (F.pat[0]?).getD none = b
        by_cases h1 : E.pat.length ≤ 1
        · have h2 : ¬ E.pat.length > 1 := by omega
          simp [h1, h2]
        · have h2 : E.pat.length > 1 := by omega
          cases a <;> cases b <;> simp [h1, h2, bne]
      case rpad.right P =>
        simp only [← hr]
        generalize Spec.staticPaddingStride P E (E.pat.length - 1) = a
        generalize (F.pat[E.pat.length - 1]?).getD none = b
        by_cases h1 : E.pat.length ≤ 1
        · have h2 : ¬ E.pat.length > 1 := by omega
          simp [h1, h2]
        · have h2 : E.pat.length > 1 := by omega
          cases a <;> cases b <;> simp [h1, h2, bne]
      case lpad.lpad P Q => cases P <;> cases Q <;> simp [bne]
      case rpad.rpad P Q => cases P <;> cases Q <;> simp [bne]

theorem staticExtent_some {E : ExtT} {r e : Nat} (h : E.staticExtent r = some e) :
    E.pat[r]? = some (some e) := by
  unfold ExtT.staticExtent at h
  cases hp : E.pat[r]? with
  | none => rw [hp] at h; simp at h
  | some o => rw [hp] at h; simp at h; rw [h]

theorem findNextMultiple_fix (q e : Nat) (hq : 0 < q) : findNextMultiple q e = e ↔ e % q = 0 := by
  obtain ⟨hdvd, hle, hmin⟩ := findNextMultiple_spec q e hq
  constructor
  · intro h; rw [h] at hdvd; exact Nat.mod_eq_zero_of_dvd hdvd
  · intro h
    have := hmin e (Nat.dvd_of_mod_eq_zero h) (Nat.le_refl _)
    omega

/-- the Mandates of `layout_left(left_padded<Q>::mapping<F>)` as the code checks them
    ("`E_pad mod Q = 0` when everything is static") are the C++26 formulation "the source's static
    padded stride equals the target's static extent-to-pad unless one of them is dynamic" -/
theorem paddedToPlain_mandate_alt (E F : ExtT) (Q : Option Nat) (idx : Nat)
    (hc : Impl.extConstructible E F = true) :
    Impl.paddedToPlainMandateFails E F Q idx =
      (decide (E.rank > 1) &&
        match Impl.staticPaddingStride Q F idx, E.staticExtent idx with
        | some a, some b => a != b
        | _, _ => false) := by
  have hr := extConstructible_rank E F hc
  have hcs := (C16_ext_constructible E F).mp hc
  unfold Impl.paddedToPlainMandateFails Impl.staticPaddingStride
  by_cases h1 : E.rank > 1
  · have h2 : ¬ F.rank ≤ 1 := by omega
    simp only [h1, decide_true, Bool.true_and, h2, if_false]
    cases he : E.staticExtent idx with
    | none => cases Q <;> cases F.staticExtent idx <;> rfl
    | some e =>
      cases hf : F.staticExtent idx with
      | none => cases Q <;> rfl
      | some f =>
        have hef : e = f := hcs.2 idx e f (staticExtent_some he) (staticExtent_some hf)
        subst hef
        cases Q with
        | none => rfl
        | some q =>
          simp only
          by_cases hq : q = 0
          · subst hq
            simp only [if_true, findNextMultiple_zero_pad]
            by_cases h0 : e = 0
            · subst h0; rfl
            · have h0' : ¬ 0 = e := fun h => h0 h.symm
              simp only [bne, beq_eq_false_iff_ne.mpr h0, beq_eq_false_iff_ne.mpr h0']
          · have hq' : 0 < q := Nat.pos_of_ne_zero hq
            have := findNextMultiple_fix q e hq'
            simp only [hq, if_false]
            by_cases hm : e % q = 0
            · rw [this.mpr hm, hm]; simp [bne]
            · have hne : findNextMultiple q e ≠ e := fun h => hm (this.mp h)
              simp only [bne, beq_eq_false_iff_ne.mpr hm, beq_eq_false_iff_ne.mpr hne]
  · simp [h1]

/-! ## accessor and mdspan -/

/-- **C16**: `default_accessor<T>` converts from `default_accessor<U>` iff `U(*)[]` converts to
    `T(*)[]`: same type, no loss of `const` -/
theorem C16_acc (d s : AccT) : Impl.accConstructible d s = true ↔ Spec.accConstructible d s := by
  unfold Impl.accConstructible Spec.accConstructible
  cases s.elem.isConst <;> cases d.elem.isConst <;> simp

/-- the accessor conversion is never explicit -/
theorem C16_acc_convertible (d s : AccT) : Impl.accConvertible d s = Impl.accConstructible d s := by
  simp [Impl.accConvertible, Impl.accExplicit]

/-- **C16**: an mdspan converts iff its mapping and its accessor do … -/
theorem C16_mds (d s : MdsT) :
    Impl.mdsConstructible d s = true ↔
      Impl.mapConstructible d.map s.map = true ∧ Impl.accConstructible d.acc s.acc = true := by
  simp [Impl.mdsConstructible]

/-- … and implicitly iff both do implicitly -/
theorem C16_mds_convertible (d s : MdsT) :
    Impl.mdsConvertible d s = true ↔
      Impl.mapConvertible d.map s.map = true ∧ Impl.accConvertible d.acc s.acc = true := by
  simp only [Impl.mdsConvertible, Impl.mdsExplicit, Impl.mdsConstructible, Impl.mapConvertible,
    Impl.accConvertible, Impl.accExplicit]
  generalize Impl.mapConstructible d.map s.map = mc
  generalize Impl.mapExplicit d.map s.map = me
  generalize Impl.accConstructible d.acc s.acc = ac
  cases mc <;> cases me <;> cases ac <;> simp

theorem C16_mds_explicit (d s : MdsT) :
    Impl.mdsExplicit d s = true ↔
      Impl.mdsConstructible d s = true ∧
        (Impl.mapConvertible d.map s.map = false ∨ Impl.accConvertible d.acc s.acc = false) := by
  simp only [Impl.mdsExplicit]
  generalize Impl.mdsConstructible d s = c
  generalize Impl.mapConvertible d.map s.map = mv
  generalize Impl.accConvertible d.acc s.acc = av
  cases c <;> cases mv <;> cases av <;> simp

theorem acc_identity (a : AccT) : Impl.accConstructible a a = true := by
  unfold Impl.accConstructible; cases a.elem.isConst <;> simp

theorem mds_convertible_constructible (d s : MdsT) (h : Impl.mdsConvertible d s = true) :
    Impl.mdsConstructible d s = true := by
  simp only [Impl.mdsConvertible, Bool.and_eq_true] at h; exact h.1

theorem mds_identity_implicit (d : MdsT) : Impl.mdsConvertible d d = true := by
  rw [C16_mds_convertible]
  exact ⟨map_identity_implicit _, by rw [C16_acc_convertible]; exact acc_identity _⟩

/-- for a viable mdspan conversion the two `static_assert`s of the constructor (data handle,
    extents) never fire: the only hard errors are those of the mapping constructor -/
theorem mds_hard_error (d s : MdsT) (hc : Impl.mdsConstructible d s = true) :
    Impl.mdsHardError d s = Impl.mapHardError d.map s.map := by
  obtain ⟨hm, ha⟩ := (C16_mds d s).mp hc
  have he := map_constructible_ext _ _ hm
  have hh : Impl.handleConstructible d.acc.elem s.acc.elem = true := ha
  unfold Impl.mdsHardError
  by_cases hds : d = s
  · subst hds; simp [map_identity_no_hard_error]
  · simp [hds, hc, hh, he]

/-! ## index / extent argument packs -/

theorem C16_indexArgs (rank rankDyn nargs : Nat) (c t : Bool) :
    Impl.indexArgsOK rank rankDyn nargs c t = true ↔ Spec.indexArgsOK rank rankDyn nargs c t := by
  simp [Impl.indexArgsOK, Spec.indexArgsOK, and_assoc]

theorem C16_indexCall (rank nargs : Nat) (c t : Bool) :
    Impl.indexCallOK rank nargs c t = true ↔ Spec.indexCallOK rank nargs c t := by
  simp only [Impl.indexCallOK, Spec.indexCallOK, Bool.and_eq_true, beq_iff_eq]
  constructor
  · rintro ⟨h, h1, h2⟩; exact ⟨h1, h2, h⟩
  · rintro ⟨h1, h2, h⟩; exact ⟨h, h1, h2⟩

theorem C16_arrayArg (rank rankDyn N : Nat) (c t : Bool) :
    Impl.arrayArgOK rank rankDyn N c t = true ↔ Spec.indexArgsOK rank rankDyn N c t := by
  simp [Impl.arrayArgOK, Spec.indexArgsOK, and_assoc]

theorem C16_arrayArg_explicit (rankDyn N : Nat) :
    Impl.arrayArgExplicit rankDyn N = true ↔ Spec.arrayArgExplicit rankDyn N := by
  simp [Impl.arrayArgExplicit, Spec.arrayArgExplicit]

/-- `mdspan(handle, ints…)`: the extents rule, and the mapping must be constructible from extents
    (every layout but `layout_stride`) -/
theorem C16_mdsIndexCtor (m : MdsT) (nargs : Nat) (c t : Bool) :
    Impl.mdsIndexCtorOK m nargs c t = true ↔
      Spec.indexArgsOK m.map.ext.rank m.map.ext.rankDynamic nargs c t ∧ m.map.lay ≠ .stride := by
  have hl : Impl.mapFromExtents m.map.lay = true ↔ m.map.lay ≠ .stride := by
    cases m.map.lay <;> simp [Impl.mapFromExtents]
  simp only [Impl.mdsIndexCtorOK, Spec.indexArgsOK, Bool.and_eq_true, Bool.or_eq_true, beq_iff_eq,
    hl, Bool.and_true]
  constructor
  · rintro ⟨⟨h, h1, h2⟩, h3⟩; exact ⟨⟨h1, h2, h⟩, h3⟩
  · rintro ⟨⟨h1, h2, h⟩, h3⟩; exact ⟨⟨h, h1, h2⟩, h3⟩

/-- a call with `rank` arguments is also a valid `extents` pack; the converse fails for
    `rank_dynamic < rank` -/
theorem indexCall_imp_indexArgs (rank rankDyn nargs : Nat) (c t : Bool)
    (h : Impl.indexCallOK rank nargs c t = true) : Impl.indexArgsOK rank rankDyn nargs c t = true := by
  simp only [Impl.indexCallOK, Impl.indexArgsOK, Bool.and_eq_true, Bool.or_eq_true, beq_iff_eq] at *
  exact ⟨h.2, Or.inl h.1⟩

/-! ## what "implicit" means: no precondition

`implicit_total` (C16.lean) says an implicit extents conversion has no precondition.  For mappings
the same holds for every implicit conversion **except** inside one padded family
(`left_padded<P> → left_padded<Q>`, `right_padded<P> → right_padded<Q>`), whose `explicit(...)`
only looks at the padding values and the rank. -/

/-- an implicit mapping conversion outside a padded family is an implicit extents conversion, or a
    rank-0 conversion from `layout_stride` -/
theorem map_implicit_ext (d s : MapT) (hv : Impl.mapConvertible d s = true)
    (hp : d.lay.samePaddedFamily s.lay = true → d = s) :
    Impl.extConvertible d.ext s.ext = true ∨
      (d.rank = 0 ∧ s.lay = .stride ∧ Impl.extConstructible d.ext s.ext = true) := by
  by_cases he : d = s
  · subst he; exact Or.inl (extConvertible_self _)
  · obtain ⟨dl, E⟩ := d
    obtain ⟨sl, F⟩ := s
    simp only [Impl.mapConvertible, Impl.mapConstructible, Impl.mapExplicit, he, if_false] at hv
    have hcv := extConvertible_constructible E F
    cases dl <;> cases sl <;>
      cases hx : Impl.extConvertible E F <;> cases hc : Impl.extConstructible E F <;>
      simp_all [Impl.mapCtor, Impl.leftCtor, Impl.rightCtor, Impl.strideCtor, Impl.lpadCtor,
        Impl.rpadCtor, Impl.isMappingOf, Impl.alwaysUnique, Impl.alwaysStrided,
        LayK.samePaddedFamily, MapT.rank] <;> (try omega)

/-- **implicit ⇒ total (extents part)**: every run-time extents value of the source mapping type is
    one of the target mapping type -/
theorem map_implicit_total (d s : MapT) (hv : Impl.mapConvertible d s = true)
    (hp : d.lay.samePaddedFamily s.lay = true → d = s) (vals : List Nat)
    (h : s.ext.Holds vals) : d.ext.Holds vals := by
  rcases map_implicit_ext d s hv hp with hx | ⟨h0, _, hc⟩
  · have hc : Spec.extConstructible d.ext s.ext :=
      (C16_ext_constructible _ _).mp (extConvertible_constructible _ _ hx)
    have hne : ¬ Spec.extExplicit d.ext s.ext := by
      intro hex
      have := (C16_ext_explicit _ _).mpr hex
      simp [Impl.extConvertible, this] at hx
    exact implicit_total d.ext s.ext hc hne vals h
  · have hr := extConstructible_rank _ _ hc
    have hd0 : d.ext.pat = [] := List.eq_nil_of_length_eq_zero h0
    have hs0 : s.ext.pat.length = 0 := by
      have : d.ext.rank = 0 := h0
      simp only [ExtT.rank] at hr this; omega
    have hv0 : vals = [] := List.eq_nil_of_length_eq_zero (by rw [h.1, hs0])
    subst hv0
    refine ⟨by simp [hd0], ?_, ?_⟩
    · intro r x hx; simp [hd0] at hx
    · intro v hv'; simp at hv'

/-- **finding**: inside a padded family the conversion can be implicit and well-formed although a
    dynamic extent becomes static: `left_padded<4>::mapping<extents<int,4,4>>` from
    `left_padded<4>::mapping<dextents<int,2>>`, source extents `(5,3)` -/
theorem padded_implicit_not_total :
    ∃ (d s : MapT) (vals : List Nat), Impl.mapConvertible d s = true ∧ Impl.mapHardError d s = false ∧
      Impl.mapTypeOK d = true ∧ Impl.mapTypeOK s = true ∧ s.ext.Holds vals ∧ ¬ d.ext.Holds vals := by
  refine ⟨⟨.lpad (some 4), ⟨.i32, [some 4, some 4]⟩⟩, ⟨.lpad (some 4), ⟨.i32, [none, none]⟩⟩, [5, 3],
    by decide, by decide, by decide, by decide, ?_, ?_⟩
  · refine ⟨rfl, ?_, ?_⟩
    · intro r x hx
      match r, hx with
      | 0, hx => simp at hx
      | 1, hx => simp at hx
      | r + 2, hx => simp at hx
    · intro v hv
      simp at hv
      rcases hv with rfl | rfl <;> decide
  · intro h
    have := h.2.1 0 4 (by simp)
    simp at this

/-- … or the index range narrows: `left_padded<4>::mapping<dextents<short,2>>` from
    `left_padded<4>::mapping<dextents<long,2>>`, source extents `(100000,3)` -/
theorem padded_implicit_narrowing :
    ∃ (d s : MapT) (vals : List Nat), Impl.mapConvertible d s = true ∧ Impl.mapHardError d s = false ∧
      s.ext.Holds vals ∧ ¬ d.ext.Holds vals := by
  refine ⟨⟨.lpad (some 4), ⟨.i16, [none, none]⟩⟩, ⟨.lpad (some 4), ⟨.i64, [none, none]⟩⟩, [100000, 3],
    by decide, by decide, ?_, ?_⟩
  · refine ⟨rfl, ?_, ?_⟩
    · intro r x hx
      match r, hx with
      | 0, hx => simp at hx
      | 1, hx => simp at hx
      | r + 2, hx => simp at hx
    · intro v hv
      simp at hv
      rcases hv with rfl | rfl <;> decide
  · intro h
    have := h.2.2 100000 (by simp)
    revert this; decide

/-! ## implicit conversion to `layout_stride`, on run-time values (pure `Layout` model)

The preconditions of `layout_stride::mapping(const StridedLayoutMapping& other)` are
(a) the extents conversion's (static extents match, values representable),
(b) `other.required_span_size()` is representable in the target `index_type`,
(c) `OFFSET(other) == 0`,
(d) `other.stride(r) > 0` for every `r`.
An **implicit** conversion (source `layout_left` / `layout_right` / `layout_stride` with implicitly
convertible extents) satisfies (a), (b), (c) for every source value, and the result is the same
function with the same strides.  (d) is a property of the source value, not of the conversion:
it holds whenever no extent is 0 (`implicit_to_stride_strides_pos`) and otherwise fails already for
`layout_left` with extents `(0,3)` (`left_zero_extent_stride_zero`) — this is a wart of the wording
of the specification, independent of explicitness. -/

def LayK.kind : LayK → LKind
  | .left => .left | .right => .right | .stride => .stride | .lpad _ => .lpad | .rpad _ => .rpad

/-- `L` is a run-time value of mapping type `t`: right template, extents a value of the extents
    type, `rank` strides stored, and the class invariant "`required_span_size()` is representable
    in `index_type`" -/
def MapT.HoldsL (t : MapT) (L : Layout) : Prop :=
  L.kind = t.lay.kind ∧ t.ext.Holds L.extents ∧ L.WF ∧ (L.span : Int) ≤ t.ext.idx.hi

theorem leftStrides_length (es : List Nat) : (leftStrides es).length = es.length :=
  strides_length_wf (.left es) trivial
theorem rightStrides_length' (es : List Nat) : (rightStrides es).length = es.length :=
  strides_length_wf (.right es) trivial

theorem not_mem_zero_pos (es : List Nat) (h : 0 ∉ es) : ∀ e ∈ es, 0 < e := by
  intro e he
  rcases Nat.eq_zero_or_pos e with h0 | h0
  · subst h0; exact absurd he h
  · exact h0

/-- the `layout_stride` image of a `layout_left` mapping needs no more room -/
theorem spanStride_left_le (es : List Nat) : spanStride es (leftStrides es) ≤ prod es := by
  unfold spanStride
  by_cases h0 : 0 ∈ es
  · rw [spanStrideGo_zero 1 es _ h0 (leftStrides_length es).symm]; exact Nat.zero_le _
  · have hpos := not_mem_zero_pos es h0
    rw [spanStrideGo_pos 1 es _ hpos (leftStrides_length es).symm]
    have := span_left_le 1 es es (leL_refl es) hpos
    simp only [Nat.one_mul] at this
    unfold leftStrides; omega

theorem spanStride_right_le (es : List Nat) : spanStride es (rightStrides es) ≤ prod es := by
  unfold spanStride
  by_cases h0 : 0 ∈ es
  · rw [spanStrideGo_zero 1 es _ h0 (rightStrides_length' es).symm]; exact Nat.zero_le _
  · have hpos := not_mem_zero_pos es h0
    rw [spanStrideGo_pos 1 es _ hpos (rightStrides_length' es).symm]
    have := span_right_le es es (leL_refl es) hpos
    omega

/-- **implicit ⇒ total, for `→ layout_stride`**: every value of an implicitly convertible source
    type converts (the constructor exists, its mapping-level precondition `ConvPre` is trivial,
    `OFFSET(other) = 0`), the result is a value of the target type (extents fit, span
    representable), and it is the same mapping: same extents, same strides, same offsets. -/
theorem implicit_to_stride_total (d s : MapT) (hd : d.lay = .stride)
    (hv : Impl.mapConvertible d s = true) (L : Layout) (hL : s.HoldsL L) :
    ∃ L' : Layout, convert L .stride = some L' ∧ ConvPre L .stride ∧ L.offsetOrigin = 0 ∧
      d.HoldsL L' ∧ L'.extents = L.extents ∧ L'.strides = L.strides ∧
      ∀ is : List Nat, is.length = L.extents.length → L'.offset is = L.offset is := by
  obtain ⟨hk, hext, hwf, hspan⟩ := hL
  obtain ⟨hx, hsl⟩ := (C16_to_stride_implicit d s hd).mp hv
  have hpre : ConvPre L .stride := by unfold ConvPre; cases L <;> trivial
  have hconv : convert L .stride = some (.stride L.extents L.strideList) := by
    cases L <;> rfl
  obtain ⟨hstr, hwf', hkind⟩ := C08_conv_strides L .stride _ hconv hpre hwf
  -- extents: `implicit_total`
  have hc : Spec.extConstructible d.ext s.ext :=
    (C16_ext_constructible _ _).mp (extConvertible_constructible _ _ hx)
  have hne : ¬ Spec.extExplicit d.ext s.ext := by
    intro hex
    have := (C16_ext_explicit _ _).mpr hex
    simp [Impl.extConvertible, this] at hx
  have hext' : d.ext.Holds L.extents := implicit_total d.ext s.ext hc hne _ hext
  have hidx : s.ext.idx.hi ≤ d.ext.idx.hi := by
    by_cases h : d.ext.idx.hi < s.ext.idx.hi
    · exact absurd (Or.inr h) hne
    · omega
  -- span: the strided image needs no more room than the source
  have hsp : (Layout.stride L.extents L.strideList).span ≤ L.span := by
    rw [strideList_eq L hwf]
    cases L with
    | left es => exact spanStride_left_le es
    | right es => exact spanStride_right_le es
    | stride es ss => exact Nat.le_refl _
    | lpad es ps => rcases hsl with h | h | h <;> rw [h] at hk <;> cases hk
    | rpad es ps => rcases hsl with h | h | h <;> rw [h] at hk <;> cases hk
  refine ⟨_, hconv, hpre, offsetOrigin_zero L, ⟨?_, hext', hwf', ?_⟩, rfl, hstr, ?_⟩
  · rw [hd]; exact hkind
  · have : ((Layout.stride L.extents L.strideList).span : Int) ≤ (L.span : Int) := by
      exact_mod_cast hsp
    omega
  · intro is hl
    exact C08_conv_offset L .stride _ hconv hpre hwf is hl

/-- precondition (d): with no zero extent every stride of a `layout_left` / `layout_right` source is
    positive (for a `layout_stride` source it is that mapping's own precondition) -/
theorem implicit_to_stride_strides_pos (es : List Nat) (hpos : ∀ e ∈ es, 0 < e) :
    (∀ x ∈ leftStrides es, 0 < x) ∧ (∀ x ∈ rightStrides es, 0 < x) := by
  constructor
  · have : ∀ (p : Nat) (es : List Nat), 0 < p → (∀ e ∈ es, 0 < e) → ∀ x ∈ leftStridesFrom p es, 0 < x := by
      intro p es
      induction es generalizing p with
      | nil => intro _ _ x hx; simp [leftStridesFrom] at hx
      | cons e es ih =>
        intro hp hpos x hx
        simp only [leftStridesFrom, List.mem_cons] at hx
        rcases hx with rfl | hx
        · exact hp
        · exact ih (p * e) (Nat.mul_pos hp (hpos e (by simp)))
            (fun y hy => hpos y (List.mem_cons_of_mem _ hy)) x hx
    exact this 1 es (by omega) hpos
  · induction es with
    | nil => intro x hx; simp [rightStrides] at hx
    | cons e es ih =>
      intro x hx
      simp only [rightStrides, List.mem_cons] at hx
      rcases hx with rfl | hx
      · exact prod_pos es (fun y hy => hpos y (List.mem_cons_of_mem _ hy))
      · exact ih (fun y hy => hpos y (List.mem_cons_of_mem _ hy)) x hx

/-- … and without that hypothesis (d) fails although the conversion is implicit:
    `layout_left` over `(0,3)` has `stride(1) = 0` -/
theorem left_zero_extent_stride_zero : (Layout.left [0, 3]).strides = [1, 0] := by decide

/-! ## concrete instances (each agrees with `std::is_constructible_v` / `std::is_convertible_v` on
the real headers, g++ 12 and clang++ 14, `-std=c++20`; see `/tmp/agD/cpp/probe1.cpp`, `probe3.cpp`,
and for the hard errors `pairs2.txt` / `run2.sh`) -/

namespace C16bEx
abbrev E0 : ExtT := ⟨.i32, []⟩                       -- extents<int>
abbrev E1 : ExtT := ⟨.i32, [none]⟩                   -- extents<int, dyn>
abbrev E1s : ExtT := ⟨.i32, [some 4]⟩                -- extents<int, 4>
abbrev E2 : ExtT := ⟨.i32, [none, none]⟩             -- extents<int, dyn, dyn>
abbrev E2s : ExtT := ⟨.i32, [some 4, some 4]⟩        -- extents<int, 4, 4>
abbrev E2s5 : ExtT := ⟨.i32, [some 5, some 5]⟩       -- extents<int, 5, 5>
abbrev E2s8 : ExtT := ⟨.i32, [some 8, some 8]⟩
abbrev L2 : ExtT := ⟨.i64, [none, none]⟩             -- extents<long, dyn, dyn>
abbrev X : ExtT := ⟨.i32, [none, some 4, none]⟩      -- extents<int, dyn, 4, dyn>
abbrev left (E : ExtT) : MapT := ⟨.left, E⟩
abbrev right (E : ExtT) : MapT := ⟨.right, E⟩
abbrev stride (E : ExtT) : MapT := ⟨.stride, E⟩
abbrev lpad (p : Option Nat) (E : ExtT) : MapT := ⟨.lpad p, E⟩
abbrev rpad (p : Option Nat) (E : ExtT) : MapT := ⟨.rpad p, E⟩
/-- `(is_constructible, is_convertible, hard error)` -/
abbrev cvh (d s : MapT) : Bool × Bool × Bool :=
  (Impl.mapConstructible d s, Impl.mapConvertible d s, Impl.mapHardError d s)
abbrev int : ElemT := ⟨0, false⟩
abbrev cint : ElemT := ⟨0, true⟩
abbrev long : ElemT := ⟨1, false⟩
abbrev mds (e : ElemT) (m : MapT) : MdsT := ⟨e, m, ⟨e⟩⟩
abbrev cv (d s : MdsT) : Bool × Bool := (Impl.mdsConstructible d s, Impl.mdsConvertible d s)

-- row "left / right from the same layout"
example : cvh (left E2s) (left E2) = (true, false, false) := by decide     -- dyn → static: explicit
example : cvh (left E2) (left E2s) = (true, true, false) := by decide
example : cvh (left E2) (left L2) = (true, false, false) := by decide      -- long → int: explicit
example : cvh (right L2) (right E2) = (true, true, false) := by decide
example : cvh (left E2s) (left E2s5) = (false, false, false) := by decide  -- 4 vs 5
example : cvh (left E2) (left E1) = (false, false, false) := by decide     -- rank
-- row "from the other of left / right" (`C16_lr_rank`)
example : cvh (left E2) (right E2) = (false, false, false) := by decide
example : cvh (left E1) (right E1) = (true, true, false) := by decide
example : cvh (right E1s) (left E1) = (true, false, false) := by decide
example : cvh (right E0) (left E0) = (true, true, false) := by decide
-- row "from stride" (`C16_stride_to_lr_explicit`)
example : cvh (left E2) (stride E2) = (true, false, false) := by decide
example : cvh (right E1) (stride E1) = (true, false, false) := by decide
example : cvh (left E0) (stride E0) = (true, true, false) := by decide
-- row "left from left_padded, right from right_padded" and its Mandates
example : cvh (left E2) (lpad (some 4) E2) = (true, true, false) := by decide
example : cvh (left E2s) (lpad (some 4) E2) = (true, false, false) := by decide
example : cvh (left E2s) (lpad (some 4) E2s) = (true, true, false) := by decide
example : cvh (left E2s5) (lpad (some 4) E2s5) = (true, true, true) := by decide   -- 5 mod 4 ≠ 0
example : cvh (right E2s5) (rpad (some 4) E2s5) = (true, true, true) := by decide
example : cvh (left E2s5) (lpad (some 4) E2) = (true, false, false) := by decide
example : cvh (left E2) (rpad (some 4) E2) = (false, false, false) := by decide
example : cvh (left E1) (rpad (some 4) E1) = (false, false, false) := by decide
example : cvh (right E2) (rpad (some 4) E2) = (true, true, false) := by decide
example : cvh (right E1) (lpad (some 4) E1) = (false, false, false) := by decide
-- row "stride from any unique strided mapping" (`C16_to_stride_implicit`)
example : cvh (stride E2) (left E2) = (true, true, false) := by decide
example : cvh (stride E2) (left L2) = (true, false, false) := by decide
example : cvh (stride L2) (right E2) = (true, true, false) := by decide
example : cvh (stride E2s) (stride E2) = (true, false, false) := by decide
example : cvh (stride E2) (lpad (some 4) E2) = (true, false, false) := by decide   -- always explicit
example : cvh (stride E0) (lpad (some 4) E0) = (true, false, false) := by decide
example : cvh (stride E2) (rpad none E2) = (true, false, false) := by decide
example : cvh (stride E0) (left E0) = (true, true, false) := by decide
-- row "left_padded from left" and its Mandates
example : cvh (lpad (some 4) E2) (left E2) = (true, true, false) := by decide
example : cvh (lpad (some 4) E2s) (left E2) = (true, false, false) := by decide
example : cvh (lpad (some 4) E2s) (left E2s) = (true, true, false) := by decide
example : cvh (lpad (some 4) E2s5) (left E2s5) = (true, true, true) := by decide   -- 8 ≠ 5
example : cvh (rpad (some 4) E2s5) (right E2s5) = (true, true, true) := by decide
example : cvh (lpad (some 4) E2s5) (left E2) = (true, false, false) := by decide
example : cvh (lpad (some 8) E2s5) (left E2s8) = (false, false, false) := by decide
example : cvh (lpad (some 0) E2) (left E2s5) = (true, true, false) := by decide
example : cvh (lpad (some 4) E2) (right E2) = (false, false, false) := by decide
example : cvh (lpad (some 4) E0) (right E0) = (false, false, false) := by decide
example : cvh (rpad (some 4) E2) (right E2) = (true, true, false) := by decide
example : cvh (rpad (some 4) E1) (left E1) = (false, false, false) := by decide
-- row "left_padded from stride" (`C16_stride_to_padded_explicit`)
example : cvh (lpad (some 4) E2) (stride E2) = (true, false, false) := by decide
example : cvh (lpad (some 4) E0) (stride E0) = (true, true, false) := by decide
example : cvh (rpad (some 4) E2) (stride E2) = (true, false, false) := by decide
example : cvh (rpad (some 4) E0) (stride E0) = (true, true, false) := by decide
-- row "left_padded<P> from left_padded<Q>" (`C16_padded_family_explicit`) and its Mandates
example : cvh (lpad none E2) (lpad none E2) = (true, true, false) := by decide        -- identity
example : cvh (lpad none E2) (lpad (some 4) E2) = (true, false, false) := by decide
example : cvh (lpad (some 4) E2) (lpad none E2) = (true, false, false) := by decide
example : cvh (lpad (some 0) E2) (lpad none E2) = (true, false, false) := by decide
example : cvh (lpad (some 4) E2) (lpad (some 4) L2) = (true, true, false) := by decide   -- implicit narrowing
example : cvh (lpad (some 4) E2s) (lpad (some 4) E2) = (true, true, false) := by decide  -- implicit dyn → static
example : cvh (lpad (some 4) E2) (lpad (some 8) E2) = (true, true, true) := by decide    -- 4 ≠ 8
example : cvh (lpad (some 4) E1) (lpad (some 8) E1) = (true, true, true) := by decide    -- even for rank 1
example : cvh (lpad none E1) (lpad (some 4) E1) = (true, true, false) := by decide
example : cvh (lpad none E0) (lpad (some 4) E0) = (true, true, false) := by decide
example : cvh (rpad (some 4) E2s) (rpad (some 4) E2) = (true, true, false) := by decide
-- row "left_padded from right_padded"
example : cvh (lpad (some 4) E2) (rpad (some 4) E2) = (false, false, false) := by decide
example : cvh (lpad (some 4) E1) (rpad (some 4) E1) = (true, true, false) := by decide
example : cvh (lpad (some 4) E0) (rpad (some 8) E0) = (true, true, false) := by decide
example : cvh (lpad (some 4) E1s) (rpad (some 4) E1) = (true, false, false) := by decide
example : cvh (rpad (some 4) E1) (lpad none E1s) = (true, true, false) := by decide
-- well-formed padded types
example : Impl.mapTypeOK (lpad (some 0) E1s) = false := by decide
example : Impl.mapTypeOK (lpad (some 0) E0) = true := by decide
example : Impl.mapTypeOK (rpad (some 0) ⟨.i32, [none, some 5]⟩) = false := by decide
example : Impl.mapTypeOK (rpad (some 0) ⟨.i32, [some 5, none]⟩) = true := by decide
-- Impl = Spec on instances
example : Spec.mapRule (left E2s) (left E2) = some true := by decide
example : Spec.mapRule (left E2) (right E2) = none := by decide
example : Spec.mapRule (stride L2) (right E2) = some false := by decide
example : Spec.mapMandateViolated (lpad (some 4) E2s5) (left E2s5) = true := by decide
example : Spec.mapMandateViolated (left E2s5) (lpad (some 4) E2s5) = true := by decide
example : Spec.mapMandateViolated (lpad (some 4) E1) (lpad (some 8) E1) = true := by decide
-- accessor (`C16_acc`)
example : Impl.accConstructible ⟨cint⟩ ⟨int⟩ = true := by decide
example : Impl.accConstructible ⟨int⟩ ⟨cint⟩ = false := by decide
example : Impl.accConstructible ⟨int⟩ ⟨long⟩ = false := by decide
example : Impl.accConstructible ⟨cint⟩ ⟨cint⟩ = true := by decide
-- mdspan (`C16_mds`, `C16_mds_convertible`)
example : cv (mds cint (right E2)) (mds int (right E2)) = (true, true) := by decide
example : cv (mds int (right E2)) (mds cint (right E2)) = (false, false) := by decide
example : cv (mds cint (right E2s)) (mds int (right E2)) = (true, false) := by decide
example : cv (mds cint (right E2)) (mds int (right E2s)) = (true, true) := by decide
example : cv (mds int (left E2)) (mds int (right E2)) = (false, false) := by decide
example : cv (mds int (left E1)) (mds int (right E1)) = (true, true) := by decide
example : cv (mds int (left E1)) (mds cint (right E1)) = (false, false) := by decide
example : cv (mds int (stride E2)) (mds int (right E2)) = (true, true) := by decide
example : cv (mds int (right E2)) (mds int (stride E2)) = (true, false) := by decide
example : cv (mds int (right E0)) (mds int (stride E0)) = (true, true) := by decide
example : cv (mds int (lpad (some 4) E2)) (mds int (lpad none E2)) = (true, false) := by decide
example : cv (mds int (right E2)) (mds int (right E2)) = (true, true) := by decide
example : Impl.mdsHardError (mds int (left E2s5)) (mds int (lpad (some 4) E2s5)) = true := by decide
example : Impl.mdsHardError (mds cint (left E2)) (mds int (lpad (some 4) E2)) = false := by decide
-- index / extent packs (`C16_indexArgs`, `C16_indexCall`, `C16_arrayArg_explicit`): extents<int,dyn,4,dyn>
example : (List.range 5).map (fun n => Impl.indexArgsOK X.rank X.rankDynamic n true true) =
    [false, false, true, true, false] := by decide
example : Impl.indexArgsOK X.rank X.rankDynamic 2 true false = false := by decide   -- may throw
example : Impl.indexArgsOK X.rank X.rankDynamic 2 false true = false := by decide   -- explicit only
example : (List.range 5).map (fun n => Impl.indexCallOK X.rank n true true) =
    [false, false, false, true, false] := by decide
example : (List.range 5).map (fun n => Impl.arrayArgOK X.rank X.rankDynamic n true true) =
    [false, false, true, true, false] := by decide
example : Impl.arrayArgExplicit X.rankDynamic 2 = false ∧ Impl.arrayArgExplicit X.rankDynamic 3 = true := by
  decide
example : Impl.mdsIndexCtorOK (mds int (right X)) 2 true true = true := by decide
example : Impl.mdsIndexCtorOK (mds int (stride X)) 2 true true = false := by decide   -- no mapping(extents)
example : Impl.mdsIndexCtorOK (mds int (lpad (some 4) X)) 3 true true = true := by decide
-- the semantic theorems on instances
example : (convert (.left [2, 3]) .stride) = some (.stride [2, 3] [1, 2]) := by decide
example : (Layout.stride [2, 3] [1, 2]).span = 6 ∧ (Layout.left [2, 3]).span = 6 := by decide
example : (Layout.stride [0, 3] [1, 0]).span = 0 := by decide
end C16bEx

end Mdspan
