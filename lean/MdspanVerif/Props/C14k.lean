import MdspanVerif.Props.C14i
import MdspanVerif.Props.C10b
/-!
# C14 — views of views to any depth at the machine level

(1) `subLayout_admB`: the mapping of a sub-view of an admissible view is admissible again
(`Layout.admB`, the executable predicate: the generalised-chain check `validStridesB` with zero
extents counted as one, positive strides, span / extents / strides representable) — for every
`layout_stride` source (`subLayout_admB_stride`, zero extents allowed), for kept `layout_left` /
`layout_right` results (`subLayout_admB_left_kept`, `…_right_kept`), and for `layout_left` /
`layout_right` sources over a non-empty index space (`Layout.NonDeg`); `subLayout_admB_nonempty`
is the form with a non-empty result.  `NonDeg` is needed: `layout_left` over (0,5) has the
canonical strides (1,0), and a strided sub-view inherits the zero stride (example below).
On the way: `validStridesB_complete` (the executable stride precondition is complete for
`ValidStrides`) and `subStrides_valid` (slicing keeps the generalised chain).

(2) `C14_sub_chain`: the machine-level iteration `subChainM` over a list of slice tuples (each step
`subMappingM` on the kind / extents / strides of the previous result, offsets added) executes no
undefined behaviour and yields the pure-layer view `View.subsR` whenever `subChainAdm` holds: the
root mapping is admissible, every slice tuple is valid for (and made of `index_type` values of)
the view it is applied to, and every view that is sliced again is non-degenerate.  `sub_chain` is
the same over pure-layer inputs (`ChainOK`); `View.subsR_eq_subs` / `chainOK_of_valid_nonempty`
relate it to `View.subs` / `ChainValid` of C04 (chains of non-empty views).
-/
namespace Mdspan

/-! ### completeness of the executable stride precondition `validStridesB` -/

theorem descB_complete : ∀ l : List (Nat × Nat), DescC l → descB l = true
  | [], _ => rfl
  | d :: ds, h => by
    simp only [descB, Bool.and_eq_true, Bool.or_eq_true, decide_eq_true_eq]
    exact ⟨h.1, descB_complete ds h.2⟩

theorem spanM1_append : ∀ a b : List (Nat × Nat), spanM1 (a ++ b) = spanM1 a + spanM1 b
  | [], b => by simp [spanM1]
  | d :: a, b => by simp only [List.cons_append, spanM1, spanM1_append a b]; omega

theorem descC_append_right : ∀ (a r : List (Nat × Nat)), DescC (a ++ r) → DescC r
  | [], _, h => h
  | _ :: a, r, h => descC_append_right a r h.2

/-- removing a dimension keeps a generalised chain -/
theorem descC_remove : ∀ (a : List (Nat × Nat)) (d : Nat × Nat) (b : List (Nat × Nat)),
    DescC (a ++ d :: b) → DescC (a ++ b)
  | [], _, _, h => h.2
  | x :: a, d, b, h => by
    refine ⟨?_, descC_remove a d b h.2⟩
    rcases h.1 with h1 | h1
    · exact Or.inl h1
    · right
      have h1 : spanM1 (a ++ d :: b) < x.2 := h1
      show spanM1 (a ++ b) < x.2
      rw [spanM1_append] at h1 ⊢
      simp only [spanM1] at h1
      omega

theorem descC_append_big : ∀ (a r : List (Nat × Nat)), DescC (a ++ r) →
    ∀ x ∈ a, x.1 ≤ 1 ∨ spanM1 r < x.2
  | [], _, _ => by simp
  | y :: a, r, h => by
    intro x hx
    rcases List.mem_cons.mp hx with rfl | hx
    · rcases h.1 with h1 | h1
      · exact Or.inl h1
      · right
        have h1 : spanM1 (a ++ r) < x.2 := h1
        rw [spanM1_append] at h1; omega
    · exact descC_append_big a r h.2 x hx

theorem spanM1_small : ∀ a : List (Nat × Nat), (∀ x ∈ a, x.1 ≤ 1) → spanM1 a = 0
  | [], _ => rfl
  | d :: a, h => by
    have h1 := h d (by simp)
    have : d.1 - 1 = 0 := by omega
    simp only [spanM1, this, Nat.zero_mul, Nat.zero_add]
    exact spanM1_small a (fun x hx => h x (List.mem_cons_of_mem _ hx))

/-- keys in descending order -/
def KeySorted : List (Nat × Nat) → Prop
  | [] => True
  | d :: ds => (∀ x ∈ ds, sortKey x ≤ sortKey d) ∧ KeySorted ds

theorem insertDesc_sorted (d : Nat × Nat) : ∀ l, KeySorted l → KeySorted (insertDesc d l)
  | [], _ => ⟨by simp, trivial⟩
  | x :: xs, h => by
    simp only [insertDesc]
    split
    · rename_i hle
      refine ⟨?_, h⟩
      intro y hy
      rcases List.mem_cons.mp hy with rfl | hy
      · exact hle
      · exact Nat.le_trans (h.1 y hy) hle
    · rename_i hlt
      refine ⟨?_, insertDesc_sorted d xs h.2⟩
      intro y hy
      have := (insertDesc_perm d xs).mem_iff.mp hy
      rcases List.mem_cons.mp this with rfl | hy
      · omega
      · exact h.1 y hy

theorem sortDesc_sorted : ∀ l, KeySorted (sortDesc l)
  | [] => trivial
  | d :: ds => insertDesc_sorted d _ (sortDesc_sorted ds)

/-- a generalised chain stays one when its dimensions are put in descending key order -/
theorem descC_of_sorted_perm : ∀ (q p : List (Nat × Nat)), KeySorted q → q.Perm p → DescC p → DescC q
  | [], _, _, _, _ => trivial
  | d :: ds, p, hs, hp, hd => by
    have hmem : d ∈ p := hp.mem_iff.mp (by simp)
    obtain ⟨a, b, rfl⟩ := List.append_of_mem hmem
    have hp' : ds.Perm (a ++ b) := List.Perm.cons_inv (hp.trans List.perm_middle)
    have hd' : DescC (a ++ b) := descC_remove a d b hd
    refine ⟨?_, descC_of_sorted_perm ds (a ++ b) hs.2 hp' hd'⟩
    by_cases h1 : d.1 ≤ 1
    · exact Or.inl h1
    · right
      have hkey : sortKey d = d.2 := by simp [sortKey, h1]
      have hsmall : ∀ x ∈ a, x.1 ≤ 1 := by
        intro x hx
        rcases descC_append_big a (d :: b) hd x hx with h | h
        · exact h
        · by_cases hx1 : x.1 ≤ 1
          · exact hx1
          · exfalso
            have hxk : sortKey x ≤ sortKey d :=
                hs.1 x (hp'.mem_iff.mpr (List.mem_append_left _ hx))
            have hkx : sortKey x = x.2 := by simp [sortKey, hx1]
            simp only [spanM1] at h
            have : d.2 ≤ (d.1 - 1) * d.2 := Nat.le_mul_of_pos_left _ (by omega)
            omega
      have hdb := (descC_append_right a (d :: b) hd).1
      rw [spanM1_perm hp', spanM1_append, spanM1_small a hsmall]
      rcases hdb with h | h
      · omega
      · omega

theorem validStridesB_complete (es ss : List Nat) (h : ValidStrides es ss) : validStridesB es ss = true := by
  obtain ⟨hl, l, hperm, hdesc⟩ := h
  simp only [validStridesB, Bool.and_eq_true, beq_iff_eq]
  refine ⟨hl, descB_complete _ ?_⟩
  exact descC_of_sorted_perm _ l (sortDesc_sorted _) ((sortDesc_perm _).trans hperm.symm) hdesc

/-! ### slicing keeps the generalised chain (zero extents counted as one) -/

theorem step_pos (s : Slice) (e : Nat) (hv : s.Valid e) : 0 < s.step := by
  cases s with
  | strided o x st =>
    simp only [Slice.step]
    have := hv.2
    split
    · omega
    · exact Nat.one_pos
  | _ => exact Nat.one_pos

/-- the reach of the selected elements along one dimension is inside the source's -/
theorem ext_step_le (s : Slice) (e x : Nat) (hv : s.Valid e) (h : s.ext e = some x) :
    (one0 x - 1) * s.step ≤ one0 e - 1 := by
  rw [one0_pred, one0_pred]
  cases s with
  | idx i => cases h
  | range b e' =>
    simp only [Slice.ext, Option.some.injEq] at h
    have := hv.2
    simp only [Slice.step, Nat.mul_one]; omega
  | full =>
    simp only [Slice.ext, Option.some.injEq] at h
    simp only [Slice.step, Nat.mul_one]; omega
  | strided o x' st =>
    simp only [Slice.ext, Option.some.injEq] at h
    have h1 := hv.1
    simp only [Slice.step]
    by_cases hx : x' > 0
    · simp only [hx, if_true] at h
      by_cases hlt : st < x'
      · simp only [hlt, if_true]
        have : (x' - 1) / st * st ≤ x' - 1 := Nat.div_mul_le_self _ _
        have hx1 : x - 1 = (x' - 1) / st := by rw [← h]; exact Nat.add_sub_cancel_left _ _
        have hx2 : x' - 1 ≤ e - 1 := by omega
        rw [hx1]; exact Nat.le_trans this hx2
      · simp only [hlt, if_false]
        have : (x' - 1) / st = 0 := Nat.div_eq_of_lt (by omega)
        omega
    · simp only [hx, if_false] at h
      subst h; simp

abbrev SDim := Slice × (Nat × Nat)

/-- a source dimension, zero extent counted as one -/
def dimOf (t : SDim) : Nat × Nat := (one0 t.2.1, t.2.2)
/-- the dimension of the result it becomes, if any -/
def subDimOf (t : SDim) : Option (Nat × Nat) :=
  (t.1.ext t.2.1).map (fun x => (one0 x, t.2.2 * t.1.step))

theorem zip_dimOf : ∀ (sl : List Slice) (es ss : List Nat), sl.length = es.length →
    (List.zip sl (List.zip es ss)).map dimOf = List.zip (es.map one0) ss
  | [], [], _, _ => by simp
  | [], _ :: _, _, h => by simp at h
  | _ :: _, [], _, h => by simp at h
  | _ :: _, _ :: _, [], _ => by simp
  | s :: sl, e :: es, st :: ss, h => by
    simp only [List.zip_cons_cons, List.map_cons, dimOf]
    rw [zip_dimOf sl es ss (by simpa using h)]

theorem zip_subDimOf : ∀ (sl : List Slice) (es ss : List Nat), sl.length = es.length →
    es.length = ss.length →
    (List.zip sl (List.zip es ss)).filterMap subDimOf =
      List.zip ((subExts sl es).map one0) (subStrides sl ss)
  | [], [], [], _, _ => by simp [subExts, subStrides]
  | s :: sl, e :: es, st :: ss, h1, h2 => by
    have ih := zip_subDimOf sl es ss (by simpa using h1) (by simpa using h2)
    simp only [List.zip_cons_cons, List.filterMap_cons, subDimOf, subExts, subStrides]
    cases hx : s.ext e with
    | none =>
      have hi := (ext_none_iff s e).mp hx
      simp only [Option.map_none, hi, if_true]
      exact ih
    | some x =>
      have hi : s.isIdx = false := by
        cases h' : s.isIdx
        · rfl
        · have := (ext_none_iff s e).mpr h'; rw [hx] at this; cases this
      simp only [Option.map_some, hi, Bool.false_eq_true, if_false, List.map_cons, List.zip_cons_cons]
      rw [← ih]
  | [], _ :: _, _, h, _ => by simp at h
  | _ :: _, [], _, h, _ => by simp at h
  | [], [], _ :: _, _, h => by simp at h
  | _ :: _, _ :: _, [], _, h => by simp at h

theorem zip_valid : ∀ (sl : List Slice) (es ss : List Nat), SlicesValid sl es →
    ∀ t ∈ List.zip sl (List.zip es ss), t.1.Valid t.2.1
  | [], _, _, _ => by simp
  | _ :: _, [], _, hv => by simp [SlicesValid] at hv
  | _ :: _, _ :: _, [], _ => by simp
  | s :: sl, e :: es, st :: ss, hv => by
    intro t ht
    simp only [List.zip_cons_cons] at ht
    rcases List.mem_cons.mp ht with rfl | ht
    · exact hv.1
    · exact zip_valid sl es ss hv.2 t ht

theorem spanM1_filterMap_le : ∀ t : List SDim, (∀ x ∈ t, x.1.Valid x.2.1) →
    spanM1 (t.filterMap subDimOf) ≤ spanM1 (t.map dimOf)
  | [], _ => Nat.le_refl _
  | x :: t, hv => by
    have ih := spanM1_filterMap_le t (fun y hy => hv y (List.mem_cons_of_mem _ hy))
    have hx := hv x (by simp)
    simp only [List.filterMap_cons, List.map_cons, subDimOf]
    cases he : x.1.ext x.2.1 with
    | none => simp only [Option.map_none, spanM1]; omega
    | some y =>
      simp only [Option.map_some, spanM1, dimOf]
      have h1 := ext_step_le x.1 x.2.1 y hx he
      have : (one0 y - 1) * (x.2.2 * x.1.step) = ((one0 y - 1) * x.1.step) * x.2.2 := by
        rw [Nat.mul_comm x.2.2, Nat.mul_assoc]
      have h2 := Nat.mul_le_mul_right x.2.2 h1
      omega

theorem descC_filterMap : ∀ t : List SDim, (∀ x ∈ t, x.1.Valid x.2.1) →
    DescC (t.map dimOf) → DescC (t.filterMap subDimOf)
  | [], _, _ => trivial
  | x :: t, hv, hd => by
    have hvt : ∀ y ∈ t, y.1.Valid y.2.1 := fun y hy => hv y (List.mem_cons_of_mem _ hy)
    have ih := descC_filterMap t hvt hd.2
    have hx := hv x (by simp)
    simp only [List.filterMap_cons, subDimOf]
    cases he : x.1.ext x.2.1 with
    | none => simpa only [Option.map_none] using ih
    | some y =>
      simp only [Option.map_some]
      refine ⟨?_, ih⟩
      have hle := ext_le x.1 x.2.1 y hx he
      rcases hd.1 with h1 | h1
      · left
        have := one0_mono hle
        simp only [dimOf] at h1
        show one0 y ≤ 1
        omega
      · right
        have h2 := spanM1_filterMap_le t hvt
        have h3 : x.2.2 ≤ x.2.2 * x.1.step := Nat.le_mul_of_pos_right _ (step_pos x.1 x.2.1 hx)
        simp only [dimOf] at h1
        show spanM1 (t.filterMap subDimOf) < x.2.2 * x.1.step
        omega

/-- **slicing keeps the stride precondition**, zero extents counted as one on both sides -/
theorem subStrides_valid (sl : List Slice) (es ss : List Nat) (hv : SlicesValid sl es)
    (h : ValidStrides (es.map one0) ss) :
    ValidStrides ((subExts sl es).map one0) (subStrides sl ss) := by
  obtain ⟨hl, l, hperm, hdesc⟩ := h
  have hl : es.length = ss.length := by simpa using hl
  have hsl := slicesValid_length sl es hv
  refine ⟨by rw [List.length_map, subStrides_length sl es ss hsl hl], ?_⟩
  rw [← zip_dimOf sl es ss hsl] at hperm
  obtain ⟨t', ht', hmap⟩ := perm_map_lift dimOf l _ hperm
  refine ⟨t'.filterMap subDimOf, ?_, ?_⟩
  · rw [← zip_subDimOf sl es ss hsl hl]
    exact ht'.filterMap _
  · apply descC_filterMap t'
    · intro x hx
      exact zip_valid sl es ss hv x (ht'.mem_iff.mp hx)
    · rw [hmap]; exact hdesc

/-- the span of the result, zero extents counted as one, is inside the source's -/
theorem subStrides_spanM1_le (sl : List Slice) (es ss : List Nat) (hv : SlicesValid sl es)
    (hl : es.length = ss.length) :
    spanM1 (List.zip ((subExts sl es).map one0) (subStrides sl ss)) ≤
      spanM1 (List.zip (es.map one0) ss) := by
  have hsl := slicesValid_length sl es hv
  rw [← zip_subDimOf sl es ss hsl hl, ← zip_dimOf sl es ss hsl]
  exact spanM1_filterMap_le _ (zip_valid sl es ss hv)

theorem subStrides_pos : ∀ (sl : List Slice) (es ss : List Nat), SlicesValid sl es →
    (∀ s ∈ ss, 0 < s) → ∀ q ∈ subStrides sl ss, 0 < q
  | [], _, _, _, _ => by simp [subStrides]
  | _ :: _, _, [], _, _ => by simp [subStrides]
  | s :: sl, e :: es, st :: ss, hv, hp => by
    intro q hq
    have ih := subStrides_pos sl es ss hv.2 (fun x hx => hp x (List.mem_cons_of_mem _ hx))
    simp only [subStrides] at hq
    split at hq
    · exact ih q hq
    · rcases List.mem_cons.mp hq with rfl | hq
      · exact Nat.mul_pos (hp st (by simp)) (step_pos s e hv.1)
      · exact ih q hq
  | _ :: _, [], _ :: _, hv, _ => by simp [SlicesValid] at hv

/-! ### (1) the mapping of a sub-view of an admissible view is admissible -/

theorem admB_intro_stride (T : ITy) (es ss : List Nat) (hl : es.length = ss.length)
    (hpos : ∀ s ∈ ss, 0 < s) (hv : ValidStrides (es.map one0) ss)
    (hsp : ((1 + spanM1 (List.zip es ss) : Nat) : Int) ≤ T.hi)
    (hre : ∀ e ∈ es, (e : Int) ≤ T.hi) (hrs : ∀ s ∈ ss, (s : Int) ≤ T.hi) :
    (Layout.stride es ss).admB T = true := by
  simp only [Layout.admB, Bool.and_eq_true, decide_eq_true_eq, allLe_iff]
  refine ⟨⟨⟨?_, ?_⟩, hre⟩, hrs⟩
  · simp only [Layout.validB, Bool.and_eq_true, beq_iff_eq, List.all_eq_true, decide_eq_true_eq]
    exact ⟨⟨hl, hpos⟩, validStridesB_complete _ _ hv⟩
  · rw [span1_stride es ss hl]; exact hsp

/-- **(1), layout_stride source**: no further hypothesis — zero extents anywhere are allowed -/
theorem subLayout_admB_stride (T : ITy) (es ss : List Nat) (sl : List Slice)
    (h : (Layout.stride es ss).admB T = true) (hv : SlicesValid sl es) :
    (subLayout (.stride es ss) sl).admB T = true := by
  obtain ⟨hvb, hsp, hre, hrs⟩ := admB_elim T _ h
  have hl := validB_stride_length es ss hvb
  rw [span1_stride es ss hl] at hsp
  have hre : ∀ e ∈ es, (e : Int) ≤ T.hi := hre
  have hrs : ∀ s ∈ ss, (s : Int) ≤ T.hi := hrs
  have hsl := slicesValid_length sl es hv
  have hB : 0 ≤ T.hi := T.hi_nonneg
  show (Layout.stride (subExts sl es) (subStrides sl ss)).admB T = true
  apply admB_intro_stride
  · exact (subStrides_length sl es ss hsl hl).symm
  · exact subStrides_pos sl es ss hv (validB_stride_pos es ss hvb)
  · exact subStrides_valid sl es ss hv (validB_stride_valid es ss hvb)
  · have h1 := subStrides_spanM1_le sl es ss hv hl
    rw [spanM1_zip_map_one0, spanM1_zip_map_one0] at h1
    exact natCast_le_of_le (by omega) hsp
  · intro x hx
    obtain ⟨e, he, hle⟩ := subExts_le sl es hv x hx
    exact natCast_le_of_le hle (hre e he)
  · intro q hq
    have := subStrides_stride_le T.hi.toNat sl es ss hv
      (fun s hs => by have := hrs s hs; omega) (by omega) q hq
    omega

theorem leftStridesFrom_le : ∀ (p : Nat) (es : List Nat), ∀ s ∈ leftStridesFrom p es, s ≤ p * prod1 es
  | _, [] => by simp [leftStridesFrom]
  | p, e :: es => by
    intro s hs
    simp only [leftStridesFrom] at hs
    have hpos := prod1_pos es
    rw [prod1_cons]
    rcases List.mem_cons.mp hs with rfl | hs
    · exact Nat.le_mul_of_pos_right _ (Nat.mul_pos (one0_pos e) hpos)
    · calc s ≤ p * e * prod1 es := leftStridesFrom_le (p * e) es s hs
        _ ≤ p * one0 e * prod1 es := Nat.mul_le_mul_right _ (Nat.mul_le_mul_left _ (le_one0 e))
        _ = p * (one0 e * prod1 es) := Nat.mul_assoc _ _ _

theorem rightStrides_le : ∀ (es : List Nat), ∀ s ∈ rightStrides es, s ≤ prod1 es
  | [] => by simp [rightStrides]
  | e :: es => by
    intro s hs
    simp only [rightStrides] at hs
    rw [prod1_cons]
    have h1 : prod1 es ≤ one0 e * prod1 es := Nat.le_mul_of_pos_left _ (one0_pos e)
    rcases List.mem_cons.mp hs with rfl | hs
    · exact Nat.le_trans (prod_le_prod1 es) h1
    · exact Nat.le_trans (rightStrides_le es s hs) h1

theorem admB_intro_left (T : ITy) (es : List Nat) (hre : ∀ e ∈ es, (e : Int) ≤ T.hi)
    (hsp : ((prod1 es : Nat) : Int) ≤ T.hi) : (Layout.left es).admB T = true := by
  simp only [Layout.admB, Bool.and_eq_true, decide_eq_true_eq, allLe_iff]
  refine ⟨⟨⟨rfl, ?_⟩, hre⟩, ?_⟩
  · rw [span1_lr_left]; exact hsp
  · intro s hs
    have := leftStridesFrom_le 1 es s hs
    rw [Nat.one_mul] at this
    exact natCast_le_of_le this hsp

theorem admB_intro_right (T : ITy) (es : List Nat) (hre : ∀ e ∈ es, (e : Int) ≤ T.hi)
    (hsp : ((prod1 es : Nat) : Int) ≤ T.hi) : (Layout.right es).admB T = true := by
  simp only [Layout.admB, Bool.and_eq_true, decide_eq_true_eq, allLe_iff]
  refine ⟨⟨⟨rfl, ?_⟩, hre⟩, ?_⟩
  · rw [span1_lr_right]; exact hsp
  · intro s hs
    exact natCast_le_of_le (rightStrides_le es s hs) hsp

theorem leftStridesFrom_pos : ∀ (p : Nat) (es : List Nat), 0 < p → (∀ e ∈ es, 0 < e) →
    ∀ s ∈ leftStridesFrom p es, 0 < s
  | _, [], _, _ => by simp [leftStridesFrom]
  | p, e :: es, hp, h => by
    intro s hs
    simp only [leftStridesFrom] at hs
    rcases List.mem_cons.mp hs with rfl | hs
    · exact hp
    · exact leftStridesFrom_pos (p * e) es (Nat.mul_pos hp (h e (by simp)))
        (fun x hx => h x (List.mem_cons_of_mem _ hx)) s hs

theorem rightStrides_pos : ∀ (es : List Nat), (∀ e ∈ es, 0 < e) → ∀ s ∈ rightStrides es, 0 < s
  | [], _ => by simp [rightStrides]
  | e :: es, h => by
    intro s hs
    have ht : ∀ x ∈ es, 0 < x := fun x hx => h x (List.mem_cons_of_mem _ hx)
    simp only [rightStrides] at hs
    rcases List.mem_cons.mp hs with rfl | hs
    · exact prod_pos es ht
    · exact rightStrides_pos es ht s hs

/-- a non-empty layout_left mapping seen as a layout_stride mapping is admissible -/
theorem admB_left_as_stride (T : ITy) (es : List Nat) (h : (Layout.left es).admB T = true)
    (hpos : ∀ e ∈ es, 0 < e) : (Layout.stride es (leftStrides es)).admB T = true := by
  obtain ⟨_, hsp, hre, hrs⟩ := admB_elim T _ h
  rw [span1_lr_left] at hsp
  apply admB_intro_stride T es (leftStrides es) (by rw [leftStrides, leftStridesFrom_length])
    (leftStridesFrom_pos 1 es Nat.one_pos hpos)
  · rw [map_one0_of_pos es hpos]; exact valid_left_le es es (leL_refl es) hpos
  · have := span_left_eq 1 es hpos
    have h2 := prod_le_prod1 es
    exact natCast_le_of_le (by simp only [leftStrides]; omega) hsp
  · exact hre
  · exact hrs

theorem admB_right_as_stride (T : ITy) (es : List Nat) (h : (Layout.right es).admB T = true)
    (hpos : ∀ e ∈ es, 0 < e) : (Layout.stride es (rightStrides es)).admB T = true := by
  obtain ⟨_, hsp, hre, hrs⟩ := admB_elim T _ h
  rw [span1_lr_right] at hsp
  apply admB_intro_stride T es (rightStrides es) (rightStrides_length es).symm
    (rightStrides_pos es hpos)
  · rw [map_one0_of_pos es hpos]; exact valid_right_le es es (leL_refl es) hpos
  · have := span_right_eq es hpos
    have h2 := prod_le_prod1 es
    exact natCast_le_of_le (by omega) hsp
  · exact hre
  · exact hrs

/-- **(1), kept layout_left / layout_right**: no further hypothesis -/
theorem subLayout_admB_left_kept (T : ITy) (es : List Nat) (sl : List Slice)
    (h : (Layout.left es).admB T = true) (hv : SlicesValid sl es) (hp : preserveLeft sl = true) :
    (subLayout (.left es) sl).admB T = true := by
  obtain ⟨_, hsp, hre, _⟩ := admB_elim T _ h
  rw [span1_lr_left] at hsp
  simp only [subLayout, hp, if_true]
  apply admB_intro_left
  · intro x hx
    obtain ⟨e, he, hle⟩ := subExts_le sl es hv x hx
    exact natCast_le_of_le hle (hre e he)
  · exact natCast_le_of_le (prod1_subExts_le sl es hv) hsp

theorem subLayout_admB_right_kept (T : ITy) (es : List Nat) (sl : List Slice)
    (h : (Layout.right es).admB T = true) (hv : SlicesValid sl es) (hp : preserveRight sl = true) :
    (subLayout (.right es) sl).admB T = true := by
  obtain ⟨_, hsp, hre, _⟩ := admB_elim T _ h
  rw [span1_lr_right] at hsp
  simp only [subLayout, hp, if_true]
  apply admB_intro_right
  · intro x hx
    obtain ⟨e, he, hle⟩ := subExts_le sl es hv x hx
    exact natCast_le_of_le hle (hre e he)
  · exact natCast_le_of_le (prod1_subExts_le sl es hv) hsp

/-- one of the three layouts `submdspan_mapping` is specified for (and returns) -/
def Layout.Std3 (L : Layout) : Prop :=
  ∃ es ss, L = .left es ∨ L = .right es ∨ L = .stride es ss

/-- non-degenerate: a layout_stride mapping, or a layout_left / layout_right mapping over a
    non-empty index space (whose canonical strides are all positive) -/
def Layout.NonDeg : Layout → Prop
  | .stride _ _ => True
  | L => ∀ e ∈ L.extents, 0 < e

theorem subLayout_std3 (L : Layout) (sl : List Slice) : (subLayout L sl).Std3 := by
  cases L with
  | left es =>
    simp only [subLayout]; split
    · exact ⟨_, [], Or.inl rfl⟩
    · exact ⟨_, _, Or.inr (Or.inr rfl)⟩
  | right es =>
    simp only [subLayout]; split
    · exact ⟨_, [], Or.inr (Or.inl rfl)⟩
    · exact ⟨_, _, Or.inr (Or.inr rfl)⟩
  | stride es ss => exact ⟨_, _, Or.inr (Or.inr rfl)⟩
  | lpad es ps => exact ⟨_, _, Or.inr (Or.inr rfl)⟩
  | rpad es ps => exact ⟨_, _, Or.inr (Or.inr rfl)⟩

/-- **(1) `subLayout_admB`**: the mapping of a sub-view of an admissible view is admissible, for
    every layout_stride source and every layout_left / layout_right source over a non-empty index
    space; the result may be empty. -/
theorem subLayout_admB (T : ITy) (L : Layout) (sl : List Slice) (hL : L.Std3)
    (h : L.admB T = true) (hnd : L.NonDeg) (hv : SlicesValid sl L.extents) :
    (subLayout L sl).admB T = true := by
  obtain ⟨es, ss, rfl | rfl | rfl⟩ := hL
  · cases hp : preserveLeft sl with
    | true => exact subLayout_admB_left_kept T es sl h hv hp
    | false =>
      have := subLayout_admB_stride T es (leftStrides es) sl (admB_left_as_stride T es h hnd) hv
      simp only [subLayout, hp, Bool.false_eq_true, if_false]
      exact this
  · cases hp : preserveRight sl with
    | true => exact subLayout_admB_right_kept T es sl h hv hp
    | false =>
      have := subLayout_admB_stride T es (rightStrides es) sl (admB_right_as_stride T es h hnd) hv
      simp only [subLayout, hp, Bool.false_eq_true, if_false]
      exact this
  · exact subLayout_admB_stride T es ss sl h hv

/-- a non-empty result comes from a non-empty source -/
theorem source_pos_of_nonempty : ∀ (sl : List Slice) (es : List Nat), SlicesValid sl es →
    (∀ x ∈ subExts sl es, 0 < x) → ∀ e ∈ es, 0 < e
  | [], [], _, _ => by simp
  | s :: sl, e :: es, hv, hne => by
    intro y hy
    simp only [subExts] at hne
    cases hx : s.ext e with
    | none =>
      rw [hx] at hne
      rcases List.mem_cons.mp hy with rfl | hy
      · have hi := (ext_none_iff s y).mp hx
        cases s <;> simp [Slice.isIdx] at hi
        have := hv.1; simp only [Slice.Valid] at this; omega
      · exact source_pos_of_nonempty sl es hv.2 hne y hy
    | some x =>
      rw [hx] at hne
      rcases List.mem_cons.mp hy with rfl | hy
      · have := ext_le s y x hv.1 hx
        have := hne x (by simp)
        omega
      · exact source_pos_of_nonempty sl es hv.2 (fun z hz => hne z (List.mem_cons_of_mem _ hz)) y hy
  | [], _ :: _, hv, _ => by simp [SlicesValid] at hv
  | _ :: _, [], hv, _ => by simp [SlicesValid] at hv

theorem nonDeg_of_pos (L : Layout) (h : ∀ e ∈ L.extents, 0 < e) : L.NonDeg := by
  cases L <;> first | exact h | trivial

/-- **(1) `subLayout_admB_nonempty`**: the form with a non-empty result -/
theorem subLayout_admB_nonempty (T : ITy) (L : Layout) (sl : List Slice) (hL : L.Std3)
    (h : L.admB T = true) (hv : SlicesValid sl L.extents)
    (hne : ∀ x ∈ subExts sl L.extents, 0 < x) :
    (subLayout L sl).admB T = true :=
  subLayout_admB T L sl hL h (nonDeg_of_pos L (source_pos_of_nonempty sl L.extents hv hne)) hv

/-- `NonDeg` cannot be dropped: `layout_left` over (0,5) is admissible and has the strides (1,0);
    a strided sub-view inherits the zero stride, which the precondition of `layout_stride` (and
    `validB`) rejects.  The result is empty (span 0). -/
example : (Layout.left [0, 5]).admB .i8 = true ∧ slicesValidB [.strided 0 0 1, .full] [0, 5] = true ∧
    (subLayout (.left [0, 5]) [.strided 0 0 1, .full]).strides = [1, 0] ∧
    (subLayout (.left [0, 5]) [.strided 0 0 1, .full]).admB .i8 = false ∧
    (subLayout (.left [0, 5]) [.strided 0 0 1, .full]).span = 0 := by decide

/-! ### (2) chains of sub-views at the machine level -/

/-- one `submdspan` in the pure layer, with the repaired offset (`View.sub` of C04 uses the
    offset of the pinned tree, which is the same for non-empty results) -/
def View.subR (v : View) (sl : List Slice) : View := ⟨v.off + subOffset v.L sl, subLayout v.L sl⟩

def View.subsR : View → List (List Slice) → View
  | v, [] => v
  | v, sl :: rest => (v.subR sl).subsR rest

/-- a view as a machine-layer record -/
def View.toRes (v : View) : SubRes :=
  { off := (v.off : Int), exts := toI v.L.extents, kind := v.L.toI.kindStr, strs := toI v.L.strides }

/-- the slices applied at each level are valid for the view they slice, and every view that is
    sliced *again* afterwards is non-degenerate (`Layout.NonDeg`) -/
def ChainOK : View → List (List Slice) → Prop
  | _, [] => True
  | v, sl :: rest => SlicesValid sl v.L.extents ∧ (rest = [] ∨ v.L.NonDeg) ∧ ChainOK (v.subR sl) rest

/-- one step on the record of a view -/
theorem sub_mapping_view (T : ITy) (L : Layout) (sl : List Slice) (hL : L.Std3)
    (h : L.admB T = true) (hv : SlicesValid sl L.extents) (hs : strideRepB T (toSI sl) = true) :
    subMappingM T L.toI.kindStr (toI L.extents) (toI L.strides) (toSI sl) = .ok (subResP L sl) := by
  obtain ⟨es, ss, rfl | rfl | rfl⟩ := hL
  · exact sub_mapping_left T es _ sl h hv hs
  · exact sub_mapping_right T es _ sl h hv hs
  · exact sub_mapping_stride T es ss sl h hv hs

theorem subR_toRes (v : View) (sl : List Slice) :
    ({ subResP v.L sl with off := v.toRes.off + (subResP v.L sl).off } : SubRes) = (v.subR sl).toRes := by
  simp only [View.toRes, View.subR, subResP, Int.natCast_add]

/-- **(2), over pure-layer inputs**: the machine-level iteration over a chain of slice tuples
    executes no undefined behaviour and returns the record of the pure-layer view. -/
theorem sub_chain (T : ITy) : ∀ (chain : List (List Slice)) (v : View), v.L.Std3 →
    v.L.admB T = true → ChainOK v chain → (∀ sl ∈ chain, strideRepB T (toSI sl) = true) →
    subChainM T v.toRes (chain.map toSI) = .ok (v.subsR chain).toRes
  | [], _, _, _, _, _ => rfl
  | sl :: rest, v, hL, h, hc, hs => by
    have h1 := sub_mapping_view T v.L sl hL h hc.1 (hs sl (by simp))
    have hstep : subChainM T v.toRes ((sl :: rest).map toSI) =
        subChainM T (v.subR sl).toRes (rest.map toSI) := by
      simp only [List.map_cons, subChainM]
      have h1' : subMappingM T v.toRes.kind v.toRes.exts v.toRes.strs (toSI sl) =
          .ok (subResP v.L sl) := h1
      rw [h1']
      simp only [bind, Except.bind]
      rw [subR_toRes]
    rw [hstep]
    simp only [View.subsR]
    cases rest with
    | nil => rfl
    | cons sl2 rest2 =>
      have hnd : v.L.NonDeg := by
        rcases hc.2.1 with h0 | h0
        · cases h0
        · exact h0
      exact sub_chain T (sl2 :: rest2) (v.subR sl) (subLayout_std3 v.L sl)
        (subLayout_admB T v.L sl hL h hnd hc.1) hc.2.2
        (fun s hs' => hs s (List.mem_cons_of_mem _ hs'))

/-! ### relation to `View.subs` / `ChainValid` of C04 -/

/-- every view of the chain is non-empty -/
def ChainNE : View → List (List Slice) → Prop
  | _, [] => True
  | v, sl :: rest => (∀ x ∈ subExts sl v.L.extents, 0 < x) ∧ ChainNE (v.sub sl) rest

theorem View.subR_eq_sub (v : View) (sl : List Slice) (hv : SlicesValid sl v.L.extents)
    (hne : ∀ x ∈ subExts sl v.L.extents, 0 < x) : v.subR sl = v.sub sl := by
  simp only [View.subR, View.sub, subOffset_eq_orig_of_nonempty v.L sl hv hne]

/-- on chains of non-empty views the repaired offsets are those of `View.subs` -/
theorem View.subsR_eq_subs : ∀ (chain : List (List Slice)) (v : View), ChainValid v chain →
    ChainNE v chain → v.subsR chain = v.subs chain
  | [], _, _, _ => rfl
  | sl :: rest, v, hc, hn => by
    simp only [View.subsR, View.subs]
    rw [View.subR_eq_sub v sl hc.1 hn.1]
    exact View.subsR_eq_subs rest (v.sub sl) hc.2 hn.2

/-- the hypotheses of C04's chain theorem, with all views non-empty, give `ChainOK` -/
theorem chainOK_of_valid_nonempty : ∀ (chain : List (List Slice)) (v : View), ChainValid v chain →
    ChainNE v chain → ChainOK v chain
  | [], _, _, _ => trivial
  | sl :: rest, v, hc, hn => by
    refine ⟨hc.1, Or.inr (nonDeg_of_pos _ (source_pos_of_nonempty sl _ hc.1 hn.1)), ?_⟩
    rw [View.subR_eq_sub v sl hc.1 hn.1]
    exact chainOK_of_valid_nonempty rest (v.sub sl) hc.2 hn.2

/-! ### (2) over the inputs of the driver, with an executable admissibility predicate -/

theorem nonDegB_sound (L : Layout) (h : L.nonDegB = true) : L.NonDeg := by
  cases L with
  | stride es ss => trivial
  | left es => simpa [Layout.nonDegB, Layout.NonDeg] using h
  | right es => simpa [Layout.nonDegB, Layout.NonDeg] using h
  | lpad es ps => simpa [Layout.nonDegB, Layout.NonDeg] using h
  | rpad es ps => simpa [Layout.nonDegB, Layout.NonDeg] using h

theorem subChainAdmFrom_elim (T : ITy) : ∀ (slcs : List (List SliceI)) (L : Layout) (o : Nat),
    subChainAdmFrom T L slcs = true →
    ∃ chain : List (List Slice), slcs.mapM (fun sls => sls.mapM toSlice) = some chain ∧
      slcs = chain.map toSI ∧ ChainOK ⟨o, L⟩ chain ∧ ∀ sl ∈ chain, strideRepB T (toSI sl) = true
  | [], _, _, _ => ⟨[], rfl, rfl, trivial, by simp⟩
  | sls :: rest, L, o, h => by
    simp only [subChainAdmFrom] at h
    cases hsl : sls.mapM toSlice with
    | none => rw [hsl] at h; cases h
    | some sl =>
      rw [hsl] at h
      simp only [Bool.and_eq_true, Bool.or_eq_true] at h
      obtain ⟨⟨⟨hv, hrep⟩, hnd⟩, hrest⟩ := h
      obtain ⟨chain, hm, hmap, hok, hreps⟩ :=
        subChainAdmFrom_elim T rest (subLayout L sl) (o + subOffset L sl) hrest
      have e3 := mapM_toSlice sls sl hsl
      refine ⟨sl :: chain, ?_, ?_, ⟨slicesValidB_sound sl _ hv, ?_, hok⟩, ?_⟩
      · rw [List.mapM_cons, hsl, hm]; rfl
      · rw [List.map_cons, ← e3, ← hmap]
      · rcases hnd with h0 | h0
        · left
          have : rest = [] := by simpa using h0
          subst this
          cases chain with
          | nil => rfl
          | cons _ _ => simp at hmap
        · exact Or.inr (nonDegB_sound L h0)
      · intro s hs
        rcases List.mem_cons.mp hs with rfl | hs
        · rw [← e3]; exact hrep
        · exact hreps s hs

theorem kindStr_srcLayout (kind : String) (es ss : List Int)
    (hk : kind = "left" ∨ kind = "right" ∨ kind = "stride") :
    (srcLayout kind es ss).toI.kindStr = kind := by
  rcases hk with rfl | rfl | rfl <;> rfl

/-- `layout_left` / `layout_right` mappings do not look at the stride argument -/
theorem subChainM_strs_irrel (T : ITy) (kind : String) (o : Int) (es ss ss' : List Int)
    (sls : List SliceI) (rest : List (List SliceI)) (hk : kind = "left" ∨ kind = "right") :
    subChainM T { off := o, exts := es, kind := kind, strs := ss } (sls :: rest) =
      subChainM T { off := o, exts := es, kind := kind, strs := ss' } (sls :: rest) := by
  simp only [subChainM]
  rcases hk with rfl | rfl
  · rw [subMappingM_left, subMappingM_left]
  · rw [subMappingM_right, subMappingM_right]

/-- **C14, chains of `submdspan`s** (views of views to any depth, machine level): if the root
    mapping is admissible and every slice tuple is valid for the view it is applied to
    (`subChainAdm`), the iteration executes no undefined behaviour and yields the pure-layer view
    `View.subsR`: its offset (the root offset plus the offsets of all levels) and its mapping. -/
theorem C14_sub_chain (T : ITy) (kind : String) (es ss : List Int) (slcs : List (List SliceI))
    (o : Nat) (hk : kind = "left" ∨ kind = "right" ∨ kind = "stride")
    (hadm : subChainAdm T kind es ss slcs = true) :
    ∃ (chain : List (List Slice)) (r : SubRes),
      slcs.mapM (fun sls => sls.mapM toSlice) = some chain ∧
      subChainM T { off := (o : Int), exts := es, kind := kind, strs := ss } slcs = .ok r ∧
      r.off = ((View.subsR ⟨o, srcLayout kind es ss⟩ chain).off : Int) ∧
      r.exts = (View.subsR ⟨o, srcLayout kind es ss⟩ chain).L.extents.map Int.ofNat ∧
      r.kind = (View.subsR ⟨o, srcLayout kind es ss⟩ chain).L.toI.kindStr ∧
      (slcs ≠ [] ∨ kind = "stride" →
        r.strs = (View.subsR ⟨o, srcLayout kind es ss⟩ chain).L.strides.map Int.ofNat) := by
  unfold subChainAdm at hadm
  split at hadm
  · cases hadm
  · rename_i hneg
    simp only [Bool.or_eq_true, not_or, Bool.not_eq_true] at hneg
    simp only [Bool.and_eq_true] at hadm
    obtain ⟨hL, hfrom⟩ := hadm
    obtain ⟨chain, hm, hmap, hok, hreps⟩ := subChainAdmFrom_elim T slcs _ o hfrom
    have e1 := toI_toNat es hneg.1
    have e2 := toI_toNat ss hneg.2
    have hext : toI (srcLayout kind es ss).extents = es := by rw [srcLayout_extents]; exact e1
    have hkind := kindStr_srcLayout kind es ss hk
    have hcore := sub_chain T chain ⟨o, srcLayout kind es ss⟩ (srcLayout_cases kind es ss) hL hok hreps
    rw [← hmap] at hcore
    have hroot : (View.toRes ⟨o, srcLayout kind es ss⟩) =
        { off := (o : Int), exts := es, kind := kind, strs := toI (srcLayout kind es ss).strides } := by
      simp only [View.toRes, hext, hkind]
    rw [hroot] at hcore
    cases slcs with
    | nil =>
      cases chain with
      | cons _ _ => simp at hmap
      | nil =>
        refine ⟨[], _, hm, rfl, rfl, hext.symm, hkind.symm, ?_⟩
        intro h
        rcases h with h | h
        · exact absurd rfl h
        · subst h; exact e2.symm
    | cons sls rest =>
      have hrun : subChainM T { off := (o : Int), exts := es, kind := kind, strs := ss } (sls :: rest) =
          .ok (View.subsR ⟨o, srcLayout kind es ss⟩ chain).toRes := by
        rcases hk with rfl | rfl | rfl
        · rw [subChainM_strs_irrel T "left" o es ss _ sls rest (Or.inl rfl)]; exact hcore
        · rw [subChainM_strs_irrel T "right" o es ss _ sls rest (Or.inr rfl)]; exact hcore
        · have : toI (srcLayout "stride" es ss).strides = ss := e2
          rw [this] at hcore; exact hcore
      exact ⟨chain, _, hm, hrun, rfl, rfl, rfl, fun _ => rfl⟩

/-! ### the hypotheses are satisfiable, and what happens without them -/

/-- depth 2 below a root at handle 100 (the chain of C10b): rows [1,4) of layout_right (4,6), then
    row 2 of those, columns 1 and 3 -/
example : subChainAdm .i8 "right" [4, 6] [] [[.range 1 4, .full], [.idx 2, .strided 1 4 2]] = true ∧
    subChainM .i8 { off := 100, exts := [4, 6], kind := "right", strs := [] }
      [[.range 1 4, .full], [.idx 2, .strided 1 4 2]] =
      .ok { off := 119, exts := [2], kind := "stride", strs := [2] } := by decide

/-- depth 3, rank 3 → 3 → 2 → 1, `layout_left` root, all slice kinds; the pure-layer view agrees -/
example : subChainAdm .i8 "left" [4, 5, 6] []
      [[.full, .range 1 4, .strided 0 6 2], [.strided 1 3 2, .full, .idx 1], [.idx 0, .range 1 3]] = true ∧
    subChainM .i8 { off := 0, exts := [4, 5, 6], kind := "left", strs := [] }
      [[.full, .range 1 4, .strided 0 6 2], [.strided 1 3 2, .full, .idx 1], [.idx 0, .range 1 3]] =
      .ok { off := 49, exts := [2], kind := "stride", strs := [4] } ∧
    (View.subsR ⟨0, .left [4, 5, 6]⟩
      [[.full, .range 1 4, .strided 0 6 2], [.strided 1 3 2, .full, .idx 1], [.idx 0, .range 1 3]]).toRes =
      { off := 49, exts := [2], kind := "stride", strs := [4] } := by decide

/-- a `layout_stride` root with a zero extent, an at-end slice, empty views sliced again -/
example : subChainAdm .i16 "stride" [4, 0, 6] [1, 4, 100]
      [[.strided 1 3 2, .full, .range 6 6], [.full, .full, .full], [.idx 1, .range 0 0, .full]] = true ∧
    subChainM .i16 { off := 7, exts := [4, 0, 6], kind := "stride", strs := [1, 4, 100] }
      [[.strided 1 3 2, .full, .range 6 6], [.full, .full, .full], [.idx 1, .range 0 0, .full]] =
      .ok { off := 7, exts := [0, 0], kind := "stride", strs := [4, 100] } := by decide

/-- slices valid for the root but not for the view they are applied to are rejected -/
example : subChainAdm .i8 "left" [4, 5, 6] [] [[.full, .range 1 4, .idx 2], [.full, .range 0 4]] = false ∧
    subChainAdm .i8 "left" [4, 5, 6] [] [[.full, .range 1 4, .idx 2], [.full, .range 0 3]] = true := by
  decide

/-- the degenerate `layout_left` root over (0,5): one level is admissible, slicing its strided
    (zero-stride) result again is not -/
example : subChainAdm .i8 "left" [0, 5] [] [[.strided 0 0 1, .full]] = true ∧
    subChainAdm .i8 "left" [0, 5] [] [[.strided 0 0 1, .full], [.full, .range 1 3]] = false := by decide

/-- an inadmissible root: the iteration reports the signed overflow -/
example : subChainAdm .i32 "left" [65536, 65536, 2] [] [[.full, .full, .full], [.full, .full, .full]] = false ∧
    subChainM .i32 { off := 0, exts := [65536, 65536, 2], kind := "left", strs := [] }
      [[.full, .full, .full], [.full, .full, .full]] = .error .overflow := by decide

end Mdspan
