import MdspanVerif.Model.LayoutM
import MdspanVerif.Model.SubM
import MdspanVerif.Model.Adm
/-!
# Machine-level mirror of `submdspan_mapping` as a whole (repaired tree) and its admissibility predicate

`subMappingM` is what the `sub` op family of the driver runs against the C++ (`Driver/Sub.lean`):
result extents (`submdspan_extents`), the "keep the layout" decision (`preserve_layout_left/right_mapping`),
the offset (`detail::sub_offset`: the at-end test first, then either `required_span_size()` or
`mapping(first_of(slices)...)`, returned as `size_t`), and the strides of the result
(`construct_sub_strides`, or the canonical strides of the kept layout).
`subAdm` is the executable admissibility predicate the checks use: the source mapping is admissible
(`Layout.admB`), every slice is valid for its extent, and every slice member is a value of the
index type (`strideRepB`: validity does not bound the stride of a `strided_slice`).
-/
namespace Mdspan

structure SubRes where
  off : Int
  exts : List Int
  kind : String
  strs : List Int

def subMappingM (T : ITy) (kind : String) (es ss : List Int) (sls : List SliceI) : M SubRes := do
  let n := es.length
  let kinds := sls.map SliceI.toKind
  let xs ← subExtsM T sls es
  let keep := match kind with
    | "left" => preserveLeft kinds
    | "right" => preserveRight kinds
    | _ => false
  let fs := sls.map (fun s => T.wrap s.first)
  let offv ← (if anyAtEndI sls es then
      (match kind with
        | "stride" => spanStrideM T es ss
        | _ => spanLRM T es)
    else
      (match kind with
        | "left" => leftOffM T es fs
        | "right" => rightOffM T es fs
        | _ => strideOffM T fs ss))
  let off := ITy.u64.wrap offv
  let m := xs.length
  if keep then do
    let strs ← (List.range m).mapM (fun r => if kind == "left" then leftStrideM T xs r else rightStrideM T xs r)
    pure { off := off, exts := xs, kind := kind, strs := strs }
  else do
    let src ← (match kind with
      | "left" => (List.range n).mapM (fun r => leftStrideM T es r)
      | "right" => (List.range n).mapM (fun r => rightStrideM T es r)
      | _ => pure ss)
    let strs ← subStridesM T true sls src
    pure { off := off, exts := xs, kind := "stride", strs := strs }

def toSlice : SliceI → Option Slice
  | .idx i => if i < 0 then none else some (.idx i.toNat)
  | .range b e => if b < 0 || e < 0 then none else some (.range b.toNat e.toNat)
  | .full => some .full
  | .strided o x s => if o < 0 || x < 0 || s < 0 then none else some (.strided o.toNat x.toNat s.toNat)

def slicesValidB : List Slice → List Nat → Bool
  | [], [] => true
  | sl :: sls, e :: es =>
    (match sl with
      | .idx i => i < e
      | .range b e' => b ≤ e' && e' ≤ e
      | .full => true
      | .strided o x s => o + x ≤ e && (x == 0 || 0 < s)) && slicesValidB sls es
  | _, _ => false

/-- the stride member of a `strided_slice` is a value of the index type (validity bounds every
    other slice member by the extent, but only asks `0 < stride`) -/
def SliceI.strideRepB (T : ITy) : SliceI → Bool
  | .strided _ _ s => s ≤ T.hi
  | _ => true
/-- every slice member is a value of the index type -/
def strideRepB (T : ITy) (sls : List SliceI) : Bool := sls.all (SliceI.strideRepB T)

def subAdm (T : ITy) (kind : String) (es ss : List Int) (sls : List SliceI) : Bool :=
  if es.any (· < 0) || ss.any (· < 0) then false else
  let esN := es.map Int.toNat
  let L : Layout := match kind with
    | "left" => .left esN
    | "right" => .right esN
    | _ => .stride esN (ss.map Int.toNat)
  match sls.mapM toSlice with
  | none => false
  | some sl => L.admB T && slicesValidB sl esN && strideRepB T sls


/-! ## chains of `submdspan`s (views of views)

The machine-level iteration of `submdspan_mapping` over a list of slice tuples, each applied to the result of the previous one
(offsets accumulate, as the data handles do), and its executable admissibility predicate. -/

/-- the source mapping as `subAdm` builds it -/
def srcLayout (kind : String) (es ss : List Int) : Layout :=
  match kind with
  | "left" => .left (es.map Int.toNat)
  | "right" => .right (es.map Int.toNat)
  | _ => .stride (es.map Int.toNat) (ss.map Int.toNat)

/-- `submdspan(submdspan(… submdspan(root, slices₁) …), slicesₙ)` at the machine level: each step is
    `submdspan_mapping` on the mapping of the previous result (its kind, extents and strides), and
    the data handle is advanced by the offset it returns -/
def subChainM (T : ITy) : SubRes → List (List SliceI) → M SubRes
  | r, [] => pure r
  | r, sls :: rest => do
      let r' ← subMappingM T r.kind r.exts r.strs sls
      subChainM T { r' with off := r.off + r'.off } rest

def Layout.nonDegB : Layout → Bool
  | .stride _ _ => true
  | L => L.extents.all (0 < ·)

/-- every slice tuple is valid for (and made of `index_type` values of) the view it is applied to,
    and every view that is sliced again is non-degenerate -/
def subChainAdmFrom (T : ITy) : Layout → List (List SliceI) → Bool
  | _, [] => true
  | L, sls :: rest =>
    match sls.mapM toSlice with
    | none => false
    | some sl => slicesValidB sl L.extents && strideRepB T sls && (rest.isEmpty || L.nonDegB) &&
        subChainAdmFrom T (subLayout L sl) rest

/-- admissible inputs of a chain of `submdspan`s: an admissible root mapping (as in `subAdm`) and
    `subChainAdmFrom` -/
def subChainAdm (T : ITy) (kind : String) (es ss : List Int) (slcs : List (List SliceI)) : Bool :=
  if es.any (· < 0) || ss.any (· < 0) then false else
  (srcLayout kind es ss).admB T && subChainAdmFrom T (srcLayout kind es ss) slcs

/-! ## the addresses of the elements of a result view

What the `alias` op of the driver prints and the C++ harness computes by walking the result view. -/

/-- all multi-indices inside `es`, row-major -/
def allIdx : List Int → List (List Int)
  | [] => [[]]
  | e :: es => (List.range e.toNat).flatMap (fun (i : Nat) => (allIdx es).map (fun t => Int.ofNat i :: t))

/-- for the first 4096 multi-indices `js` of the result (row-major; none if the result is empty):
    `offset + mapping(js...)` of the *result* mapping, both `size_t` values -/
def subAliasM (T : ITy) (r : SubRes) : M (List Int) :=
  if r.exts.any (· ≤ 0) then pure [] else
  ((allIdx r.exts).take 4096).mapM (fun js => do
    let v ← (match r.kind with
      | "left" => leftOffM T r.exts js
      | "right" => rightOffM T r.exts js
      | _ => strideOffM T js r.strs)
    pure (ITy.u64.wrap (r.off + ITy.u64.wrap v)))

end Mdspan
