import MdspanVerif.Model.LayoutM
import MdspanVerif.Props.C05
/-!
# C14 — index arithmetic is free of undefined behaviour for admissible inputs

Each theorem says: for every index type `T`, if the inputs are admissible (the span size,
zero extents counted as one, is representable in `T`), the machine-level function executes
no UB and returns exactly the value of the pure function.
-/
namespace Mdspan

def toI (l : List Nat) : List Int := l.map Int.ofNat

@[simp] theorem toI_nil : toI [] = [] := rfl
@[simp] theorem toI_cons (a : Nat) (l : List Nat) : toI (a :: l) = (a : Int) :: toI l := rfl

/-- same-type multiply of index values -/
theorem mulT_ok (T : ITy) (a b : Nat) (ha : (a : Int) ≤ T.hi) (hb : (b : Int) ≤ T.hi)
    (h : ((a * b : Nat) : Int) ≤ T.hi) :
    V.mul ⟨T, a⟩ ⟨T, b⟩ = .ok ⟨T.promote, ((a * b : Nat) : Int)⟩ := by
  have hp := T.hi_le_promote
  have := V.arith_ok (· * ·) ⟨T, a⟩ ⟨T, b⟩ (Int.natCast_nonneg _) (by simp [ITy.common_self]; omega)
    (Int.natCast_nonneg _) (by simp [ITy.common_self]; omega)
    (by simpa using Int.mul_nonneg (Int.natCast_nonneg a) (Int.natCast_nonneg b))
    (by simp [ITy.common_self]; have : ((a * b : Nat) : Int) = (a : Int) * b := by simp
        omega)
  simpa [V.mul, ITy.common_self] using this

/-- add an index value to a promoted value -/
theorem addPT_ok (T : ITy) (a b : Nat) (hb : (b : Int) ≤ T.hi) (h : ((a + b : Nat) : Int) ≤ T.hi) :
    V.add ⟨T.promote, a⟩ ⟨T, b⟩ = .ok ⟨T.promote, ((a + b : Nat) : Int)⟩ := by
  have hp := T.hi_le_promote
  have hab : ((a + b : Nat) : Int) = (a : Int) + b := by simp
  have := V.arith_ok (· + ·) ⟨T.promote, a⟩ ⟨T, b⟩ (Int.natCast_nonneg _)
    (by simp [ITy.common_promote_left]; omega)
    (Int.natCast_nonneg _) (by simp [ITy.common_promote_left]; omega)
    (by simp; omega) (by simp [ITy.common_promote_left]; omega)
  simpa [V.add, ITy.common_promote_left] using this

theorem narrow_id (T : ITy) (P : ITy) (a : Nat) (h : (a : Int) ≤ T.hi) : narrow T ⟨P, a⟩ = a :=
  ITy.wrap_id T a (Int.natCast_nonneg _) h

/-! ### layout_right::operator() -/

theorem rightGo_lt (acc : Nat) (es is : List Nat) (hb : InB is es) :
    rightGo acc es is < (acc + 1) * prod es := by
  rw [rightGo_eq acc es is (inB_length _ _ hb)]
  have hpos := inB_pos is es hb
  have h1 := dot_le_spanM1 is es (rightStrides es) hb (rightStrides_length es).symm
  have h2 := span_right_eq es hpos
  rw [Nat.add_mul, Nat.one_mul]; omega

theorem rightGoM_refines (T : ITy) : ∀ (acc : Nat) (es is : List Nat), InB is es →
    (∀ e ∈ es, (e : Int) ≤ T.hi) →
    (((acc + 1) * prod es : Nat) : Int) ≤ T.hi + 1 →
    rightGoM T acc (toI es) (toI is) = .ok ((rightGo acc es is : Nat) : Int)
  | acc, [], [], _, _, hadm => by
    have : (acc : Int) ≤ T.hi := by simp [prod] at hadm; omega
    simp only [toI_nil, rightGoM, rightGo]
    rw [ITy.wrap_id .u64 acc (Int.natCast_nonneg _) (by have := T.hi_le_promote; cases T <;> simp [ITy.hi] at * <;> omega),
      ITy.wrap_id T acc (Int.natCast_nonneg _) this]; rfl
  | acc, e :: es, i :: is, hb, hrep, hadm => by
    have hpos : 0 < prod es := prod_pos es (inB_pos is es hb.2)
    have hi := hb.1
    have hstep : (acc * e + i + 1) * prod es ≤ (acc + 1) * (e * prod es) := by
      have : acc * e + i + 1 ≤ (acc + 1) * e := by rw [Nat.add_mul]; omega
      calc (acc * e + i + 1) * prod es ≤ ((acc + 1) * e) * prod es := Nat.mul_le_mul_right _ this
        _ = (acc + 1) * (e * prod es) := Nat.mul_assoc _ _ _
    have h1 : acc * e + i + 1 ≤ (acc * e + i + 1) * prod es := Nat.le_mul_of_pos_right _ hpos
    simp only [prod] at hadm
    have hbound : ((acc * e + i + 1 : Nat) : Int) ≤ T.hi + 1 := by
      have : ((acc * e + i + 1 : Nat) : Int) ≤ (((acc + 1) * (e * prod es) : Nat) : Int) :=
        Int.ofNat_le.mpr (by omega)
      omega
    have hsum : ((acc * e + i : Nat) : Int) ≤ T.hi := by
      have : ((acc * e + i + 1 : Nat) : Int) = ((acc * e + i : Nat) : Int) + 1 := by simp
      omega
    have hmul : ((acc * e : Nat) : Int) ≤ T.hi := by
      have : ((acc * e : Nat) : Int) ≤ ((acc * e + i : Nat) : Int) := Int.ofNat_le.mpr (by omega)
      omega
    have hacc : (acc : Int) ≤ T.hi := by
      have he : 1 ≤ e := by omega
      have : acc ≤ acc * e := Nat.le_mul_of_pos_right _ he
      have : (acc : Int) ≤ ((acc * e : Nat) : Int) := Int.ofNat_le.mpr this
      omega
    have he' : (e : Int) ≤ T.hi := hrep e (by simp)
    have hi' : (i : Int) ≤ T.hi := by
      have : ((i : Nat) : Int) ≤ ((acc * e + i : Nat) : Int) := Int.ofNat_le.mpr (by omega)
      omega
    simp only [toI_cons, rightGoM, rightGo]
    rw [mulT_ok T acc e hacc he' hmul]
    simp only [bind, Except.bind]
    rw [addPT_ok T (acc * e) i hi' hsum]
    simp only
    rw [narrow_id T _ _ hsum]
    exact rightGoM_refines T (acc * e + i) es is hb.2 (fun x hx => hrep x (List.mem_cons_of_mem _ hx)) (by
      have : (((acc * e + i + 1) * prod es : Nat) : Int) ≤ (((acc + 1) * (e * prod es) : Nat) : Int) :=
        Int.ofNat_le.mpr hstep
      omega)
  | _, [], _ :: _, hb, _, _ => by simp [InB] at hb
  | _, _ :: _, [], hb, _, _ => by simp [InB] at hb

/-- **C14, layout_right::operator()**: no UB and the exact offset whenever the index is inside
    the extents and the span is representable, for every index type. -/
theorem C14_right_offset (T : ITy) (es is : List Nat) (hb : InB is es)
    (hrep : ∀ e ∈ es, (e : Int) ≤ T.hi) (hadm : ((prod es : Nat) : Int) ≤ T.hi) :
    rightOffM T (toI es) (toI is) = .ok (((Layout.right es).offset is : Nat) : Int) := by
  match es, is, hb with
  | [], [], _ => simp [rightOffM, Layout.offset, rightOff]; rfl
  | e :: es, i :: is, hb =>
    simp only [toI_cons, rightOffM, Layout.offset, rightOff]
    apply rightGoM_refines T i es is hb.2 (fun x hx => hrep x (List.mem_cons_of_mem _ hx))
    have h1 : (i + 1) * prod es ≤ e * prod es := Nat.mul_le_mul_right _ hb.1
    have : (((i + 1) * prod es : Nat) : Int) ≤ ((e * prod es : Nat) : Int) := Int.ofNat_le.mpr h1
    simp only [prod] at hadm
    omega

end Mdspan
