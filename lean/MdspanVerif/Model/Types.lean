import MdspanVerif.Model.Int
import MdspanVerif.Model.Extents
/-!
# Type-level rules (C16): which conversions exist and which are explicit

`Impl.*` are the constraint / `explicit(...)` expressions as the headers write them,
`Spec.*` the rules as the specification states them.
-/
namespace Mdspan

structure ExtT where
  idx : ITy
  pat : Pattern
deriving DecidableEq, Repr

namespace Impl
/-- `__compare_extent_compatible<Lhs,Rhs>` -/
def compatible1 (l r : Option Nat) : Bool :=
  match l, r with
  | none, _ => true
  | _, none => true
  | some a, some b => a == b
/-- `__check_compatible_extents(bool_constant<rank == rank>, seq, seq)`: the first stage returns
    `false_type` when the ranks differ, the second folds `&&` over the positions -/
def checkCompatible : Pattern → Pattern → Bool
  | [], [] => true
  | l :: ls, r :: rs => compatible1 l r && checkCompatible ls rs
  | _, _ => false
def extConstructible (dst src : ExtT) : Bool :=
  if dst.pat.length == src.pat.length then checkCompatible dst.pat src.pat else false
/-- `(((Extents != dynamic_extent) && (OtherExtents == dynamic_extent)) || ...) ||
    (numeric_limits<index_type>::max() < numeric_limits<OtherIndexType>::max())` -/
def explicitFold : Pattern → Pattern → Bool
  | l :: ls, r :: rs => (l.isSome && r.isNone) || explicitFold ls rs
  | _, _ => false
def extExplicit (dst src : ExtT) : Bool :=
  explicitFold dst.pat src.pat || decide (dst.idx.hi < src.idx.hi)
def extConvertible (dst src : ExtT) : Bool := extConstructible dst src && !extExplicit dst src
end Impl

/-- a run-time extents value of type `t`: one non-negative value per position, equal to the
    static extent where there is one, representable in the index type -/
def ExtT.Holds (t : ExtT) (vals : List Nat) : Prop :=
  vals.length = t.pat.length ∧
  (∀ (r s : Nat), t.pat[r]? = some (some s) → vals[r]? = some s) ∧
  (∀ v ∈ vals, (v : Int) ≤ t.idx.hi)

end Mdspan
