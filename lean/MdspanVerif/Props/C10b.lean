import MdspanVerif.Props.C04c
/-!
# C10, second half — a non-empty submdspan reaches no further than its source's span

`offset + view.required_span_size() ≤ source.required_span_size()` whenever the resulting
view is non-empty; and, for chains of sub-views, every view stays inside the root.

The result mapping of `submdspan` is always a layout_left / layout_right / layout_stride
mapping; for those three the span is *exactly* one more than the offset of the largest
index (C05), whatever the strides are.  That offset is the source offset of an in-bounds
source index (C04), hence below the source's span (C01).  No validity of the result mapping
is needed.
-/
namespace Mdspan

/-- the result of `submdspan_mapping` is never a padded mapping, so its span is exact -/
theorem subLayout_span_exact (L : Layout) (hsl : L.strides.length = L.extents.length)
    (sls : List Slice) (hl : sls.length = L.extents.length)
    (hne : ∀ x ∈ subExts sls L.extents, 0 < x) :
    (subLayout L sls).span = (subLayout L sls).offset (maxIdx (subExts sls L.extents)) + 1 := by
  have hlen := subLayout_strides_length L hsl sls hl
  have hext := subLayout_extents L sls
  cases L with
  | left es =>
    simp only [subLayout] at hlen hext ⊢
    split
    · exact C05_left_exact _ hne
    · rename_i hp
      simp only [hp, if_false, Bool.false_eq_true, Layout.strides, Layout.extents] at hlen
      exact C05_stride_exact _ _ hlen.symm hne
  | right es =>
    simp only [subLayout] at hlen hext ⊢
    split
    · exact C05_right_exact _ hne
    · rename_i hp
      simp only [hp, if_false, Bool.false_eq_true, Layout.strides, Layout.extents] at hlen
      exact C05_stride_exact _ _ hlen.symm hne
  | stride es ss => exact C05_stride_exact _ _ hlen.symm hne
  | lpad es ps => exact C05_stride_exact _ _ hlen.symm hne
  | rpad es ps => exact C05_stride_exact _ _ hlen.symm hne

/-- the repaired offset is the mapped first index whenever the result is non-empty -/
theorem subOffset_eq_orig_of_nonempty (L : Layout) (sls : List Slice)
    (hs : SlicesValid sls L.extents) (hne : ∀ x ∈ subExts sls L.extents, 0 < x) :
    subOffset L sls = subOffsetOrig L sls := by
  simp [subOffset, subOffsetOrig, anyAtEnd_false_of_nonempty sls L.extents hs hne]

/-- **C10 (fits), sharp form**: for a non-empty result the last element of the view is an
    element of the source: `offset + span(view) - 1` is the source offset of the in-bounds
    source index `compose sls (maxIdx …)`. -/
theorem C10_last (L : Layout) (hv : L.Valid) (sls : List Slice)
    (hs : SlicesValid sls L.extents) (hne : ∀ x ∈ subExts sls L.extents, 0 < x) :
    subOffset L sls + (subLayout L sls).span
        = L.offset (compose sls (maxIdx (subExts sls L.extents))) + 1 ∧
      InB (compose sls (maxIdx (subExts sls L.extents))) L.extents := by
  have hsl := strides_length L hv
  have hl := slicesValid_length sls L.extents hs
  have hj := maxIdx_subExts_inB sls L.extents hne
  have hal := C04_alias L hsl sls _ hs hj
    (fun _ _ => C09_preserveLeft sls) (fun _ _ => C09_preserveRight sls)
  rw [subOffset_eq_orig_of_nonempty L sls hs hne, subLayout_span_exact L hsl sls hl hne]
  exact ⟨by omega, compose_inB sls L.extents _ hs hj⟩

/-- **C10 (fits)**: when the resulting view is non-empty,
    `offset + view.required_span_size() ≤ source.required_span_size()` — all five source
    layouts, kept or strided result layout, any rank, any valid slices.
    Only the validity of the *source* mapping is needed. -/
theorem C10_fits' (L : Layout) (hv : L.Valid) (sls : List Slice)
    (hs : SlicesValid sls L.extents) (hne : ∀ x ∈ subExts sls L.extents, 0 < x) :
    subOffset L sls + (subLayout L sls).span ≤ L.span := by
  obtain ⟨h1, h2⟩ := C10_last L hv sls hs hne
  have := C01_range L hv _ h2
  omega

/-- the statement with the hypotheses as first planned (two of them are redundant:
    `hsl` follows from `hv`, and `hvs` is not needed at all) -/
theorem C10_fits (L : Layout) (hv : L.Valid) (_hsl : L.strides.length = L.extents.length)
    (sls : List Slice) (hs : SlicesValid sls L.extents)
    (hne : ∀ x ∈ subExts sls L.extents, 0 < x) (_hvs : (subLayout L sls).Valid) :
    subOffset L sls + (subLayout L sls).span ≤ L.span :=
  C10_fits' L hv sls hs hne

/-- every element of a non-empty sub-view lies inside the span the view reports, and that
    span lies inside the source's: `off ≤ off + V(js) < off + span(V) ≤ span(L)` -/
theorem C10_elem_lt (L : Layout) (hv : L.Valid) (sls : List Slice)
    (hs : SlicesValid sls L.extents) (js : List Nat) (hj : InB js (subExts sls L.extents)) :
    subOffset L sls + (subLayout L sls).offset js < L.span := by
  have hne := inB_pos js _ hj
  have hsl := strides_length L hv
  have hal := C04_alias L hsl sls js hs hj
    (fun _ _ => C09_preserveLeft sls) (fun _ _ => C09_preserveRight sls)
  rw [subOffset_eq_orig_of_nonempty L sls hs hne, hal]
  exact C01_range L hv _ (compose_inB sls L.extents js hs hj)

/-! ## chains of sub-views stay inside the root -/

/-- **C10, chains (elements)**: every element of the innermost view of a chain of
    `submdspan`s, of any depth, is addressed inside the root's span. -/
theorem View.subs_in_root (v : View) (hv : v.L.Valid) (chain : List (List Slice))
    (hc : ChainValid v chain) (js : List Nat) (hj : InB js (v.subs chain).L.extents) :
    v.off ≤ (v.subs chain).addr js ∧ (v.subs chain).addr js < v.off + v.L.span := by
  obtain ⟨h1, h2⟩ := View.subs_addr chain v (strides_length v.L hv) hc js hj
  have := C01_range v.L hv _ h2
  rw [h1]; simp only [View.addr]; omega

/-- the origin of a view of a chain is never before the root's origin -/
theorem View.subs_off_ge : ∀ (chain : List (List Slice)) (v : View), v.off ≤ (v.subs chain).off
  | [], _ => Nat.le_refl _
  | sls :: rest, v => by
    have := View.subs_off_ge rest (v.sub sls)
    simp only [View.subs, View.sub] at this ⊢; omega

/-- the innermost mapping of a non-trivial chain is a submdspan result: its span is exact -/
theorem View.subs_span_exact : ∀ (chain : List (List Slice)) (v : View),
    v.L.strides.length = v.L.extents.length → ChainValid v chain → chain ≠ [] →
    (∀ x ∈ (v.subs chain).L.extents, 0 < x) →
    (v.subs chain).L.span = (v.subs chain).L.offset (maxIdx (v.subs chain).L.extents) + 1
  | [], _, _, _, h, _ => absurd rfl h
  | [sls], v, hsl, hc, _, hne => by
    have hl := slicesValid_length sls v.L.extents hc.1
    simp only [View.subs, View.sub] at hne ⊢
    rw [subLayout_extents] at hne ⊢
    exact subLayout_span_exact v.L hsl sls hl hne
  | sls :: s2 :: rest, v, hsl, hc, _, hne => by
    have hl := slicesValid_length sls v.L.extents hc.1
    exact View.subs_span_exact (s2 :: rest) (v.sub sls)
      (subLayout_strides_length v.L hsl sls hl) hc.2 (by simp) hne

/-- **C10, chains (spans)**: the whole span `[off, off + required_span_size())` of a non-empty
    view obtained by any chain of `submdspan`s lies inside the root's
    `[off, off + required_span_size())`.  Intermediate views need no separate hypothesis. -/
theorem View.subs_fits (v : View) (hv : v.L.Valid) (chain : List (List Slice))
    (hc : ChainValid v chain) (hne : ∀ x ∈ (v.subs chain).L.extents, 0 < x) :
    v.off ≤ (v.subs chain).off ∧
      (v.subs chain).off + (v.subs chain).L.span ≤ v.off + v.L.span := by
  refine ⟨View.subs_off_ge chain v, ?_⟩
  cases chain with
  | nil => exact Nat.le_refl _
  | cons sls rest =>
    have hex := View.subs_span_exact (sls :: rest) v (strides_length v.L hv) hc (by simp) hne
    have hin := View.subs_in_root v hv (sls :: rest) hc _ (maxIdx_inB _ hne)
    simp only [View.addr] at hin
    omega

/-! ## non-vacuity -/

-- layout_right (4,6), rows [1,3), every second column of the first five: a strided result
example : subOffset (.right [4, 6]) [.range 1 3, .strided 0 5 2] = 6 ∧
    (subLayout (.right [4, 6]) [.range 1 3, .strided 0 5 2]).span = 11 ∧
    (Layout.right [4, 6]).span = 24 := by decide

example : subOffset (.right [4, 6]) [.range 1 3, .strided 0 5 2]
    + (subLayout (.right [4, 6]) [.range 1 3, .strided 0 5 2]).span ≤ (Layout.right [4, 6]).span :=
  C10_fits' (.right [4, 6]) trivial [.range 1 3, .strided 0 5 2]
    (by simp [SlicesValid, Slice.Valid, Layout.extents])
    (by simp [subExts, Slice.ext, Layout.extents])

-- a padded source: layout_left_padded (5,2,3) with padded stride 8, last row block reaches the end
example : subOffset (.lpad [5, 2, 3] 8) [.range 2 5, .idx 1, .range 1 3]
    + (subLayout (.lpad [5, 2, 3] 8) [.range 2 5, .idx 1, .range 1 3]).span
      ≤ (Layout.lpad [5, 2, 3] 8).span :=
  C10_fits' (.lpad [5, 2, 3] 8) (by simp [Layout.Valid, padOKLeft_iff]) _
    (by simp [SlicesValid, Slice.Valid, Layout.extents])
    (by simp [subExts, Slice.ext, Layout.extents])

-- the bound is attained (full slices), so it cannot be improved
example : subOffset (.right [3, 4]) [.full, .full] + (subLayout (.right [3, 4]) [.full, .full]).span
    = (Layout.right [3, 4]).span := by decide

-- a chain of depth 2 below a root at handle 100: rows [1,4) then row 2 of those, columns 1,3
theorem c10bChain_valid :
    ChainValid ⟨100, .right [4, 6]⟩ [[.range 1 4, .full], [.idx 2, .strided 1 4 2]] := by
  simp [ChainValid, SlicesValid, Slice.Valid, View.sub, subLayout, Layout.extents, subExts,
    Slice.ext, preserveRight, subRank, preserveRightAt, Slice.isIdx, Slice.isFull, Slice.isRange]

example : (View.subs ⟨100, .right [4, 6]⟩ [[.range 1 4, .full], [.idx 2, .strided 1 4 2]]).off = 119 ∧
    (View.subs ⟨100, .right [4, 6]⟩ [[.range 1 4, .full], [.idx 2, .strided 1 4 2]]).L.span = 3 ∧
    (View.subs ⟨100, .right [4, 6]⟩ [[.range 1 4, .full], [.idx 2, .strided 1 4 2]]).L.extents = [2] := by
  decide

example : 100 ≤ (View.subs ⟨100, .right [4, 6]⟩ [[.range 1 4, .full], [.idx 2, .strided 1 4 2]]).off ∧
    (View.subs ⟨100, .right [4, 6]⟩ [[.range 1 4, .full], [.idx 2, .strided 1 4 2]]).off +
      (View.subs ⟨100, .right [4, 6]⟩ [[.range 1 4, .full], [.idx 2, .strided 1 4 2]]).L.span
        ≤ 100 + 24 :=
  View.subs_fits ⟨100, .right [4, 6]⟩ trivial _ c10bChain_valid (by decide)

end Mdspan
