// concurrent disjoint access through one shared view (C19), meant for -fsanitize=thread
#pragma once
#include "mapsrv.hpp"
#include <thread>
#include <atomic>
namespace vh {
template <class MDS, size_t... Q> int& elemAt(const MDS& m, const std::array<long long, sizeof...(Q)>& ix, std::index_sequence<Q...>) {
  using I = typename MDS::index_type;
#if MDSPAN_USE_BRACKET_OPERATOR
  return m[static_cast<I>(ix[Q])...];
#else
  return m(static_cast<I>(ix[Q])...);
#endif
}
template <class MDS, class I, size_t... Q> auto rowView(const MDS& m, I i0, std::index_sequence<Q...>) {
  return md::submdspan(m, i0, ((void)Q, md::full_extent)...);
}
template <Kind K, class E, size_t SP> void regConc(const std::string& key) {
  using M = typename MapOf<K, E, SP>::type; using L = typename M::layout_type; using MDS = md::mdspan<int, E, L>; constexpr size_t R = E::rank();
  registry()[key] = [](const Op& o) -> std::string {
    M map = makeMap<K, E, SP>(o); const size_t span = static_cast<size_t>(map.required_span_size());
    std::vector<int> buf(span + 8, -1);
    const MDS shared(buf.data(), map);
    const int T = static_cast<int>(parseNum(o.get("thr")));
    // all multi-indices, row-major; index k belongs to thread k % T
    std::vector<std::array<long long, R>> idx; { std::array<long long, R> ix{}; bool empty = false; for (size_t r = 0; r < R; r++) if (shared.extent(r) == 0) empty = true;
      if (!empty) while (true) { idx.push_back(ix); size_t k = R; bool done = true; while (k > 0) { k--; if (++ix[k] < static_cast<long long>(shared.extent(k))) { done = false; break; } ix[k] = 0; } if (done) break; } }
    std::vector<long long> sums(T, 0); std::vector<std::thread> th; std::atomic<int> go{0};
    for (int t = 0; t < T; t++) th.emplace_back([&, t] {
      while (go.load() == 0) {}
      long long s = 0;
      for (size_t k = t; k < idx.size(); k += T) {
        const auto& ix = idx[k];
        // observers and const members of the shared view
        s += static_cast<long long>(shared.size()) + (shared.empty() ? 1 : 0) + static_cast<long long>(shared.mapping().required_span_size()) + (shared.is_exhaustive() ? 1 : 0);
        if constexpr (R > 0) s += static_cast<long long>(shared.extent(0)) + static_cast<long long>(shared.stride(R - 1));
        bool viaSub = false;
        if constexpr (R >= 2 && K != KLpad && K != KRpad) {                                                  // odd elements: write through a sub-view created concurrently
          if (k % 2 == 1) {
            using I = typename MDS::index_type;
            auto row = rowView(shared, static_cast<I>(ix[0]), std::make_index_sequence<R - 1>());
            std::array<long long, R - 1> tail{}; for (size_t q = 1; q < R; q++) tail[q - 1] = ix[q];
            elemAt(row, tail, std::make_index_sequence<R - 1>()) = static_cast<int>(t * 100000 + k); viaSub = true;
          }
        }
        if (!viaSub) elemAt(shared, ix, std::make_index_sequence<R>()) = static_cast<int>(t * 100000 + k);  // write through the shared view
        MDS copy = shared;                                                                                  // a private copy
        s += elemAt(copy, ix, std::make_index_sequence<R>());                                               // read back through the copy
      }
      sums[t] = s;
    });
    go.store(1);
    for (auto& x : th) x.join();
    std::string s = "mem=" + list(std::vector<int>(buf.begin(), buf.begin() + std::min<size_t>(span, 512))) + " sums=" + list(sums);
    return s;
  };
}
} // namespace vh
