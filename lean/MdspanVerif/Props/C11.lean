import MdspanVerif.Model.View
/-!
# C11 — construction, copy, move, assignment and swap preserve the view, for every way the
three components can be stored
-/
namespace Mdspan

section
variable {P Q : Type → Type → Type} {H M A : Type} [PairLike Q M A] [PairLike P H (Q M A)]

/-- a constructed view reports exactly the components supplied -/
theorem C11_make_abs (h : H) (m : M) (a : A) :
    (CView.make (P := P) (Q := Q) h m a).abs = ⟨h, m, a⟩ := by
  simp [CView.abs, CView.make, CView.ptr, CView.mapping, CView.accessor, PairLike.first_mk, PairLike.second_mk]

/-- rebuilding a view from its own components gives the same stored object -/
theorem CView.make_abs_self (v : CView P Q H M A) : CView.make (P := P) (Q := Q) v.ptr v.mapping v.accessor = v := by
  unfold CView.make CView.ptr CView.mapping CView.accessor
  rw [PairLike.eta (P := Q), PairLike.eta (P := P)]

theorem Pool.at_map {α β : Type} (f : α → β) (p : List (Option α)) (i : Nat) :
    Pool.at (p.map (Option.map f)) i = (Pool.at p i).map f := by
  unfold Pool.at
  simp only [List.getElem?_map]
  cases p[i]? <;> rfl

theorem Pool.put_map {α β : Type} (f : α → β) (p : List (Option α)) (i : Nat) (v : Option α) :
    (Pool.put p i v).map (Option.map f) = Pool.put (p.map (Option.map f)) i (v.map f) := by
  unfold Pool.put; simp [List.map_set]

/-- **C11 (one step)**: every operation on the stored pairs is the operation on the triples -/
theorem C11_step (p : CPool P Q H M A) (op : POp H M A) :
    (CPool.step p op).abs = Pool.step p.abs op := by
  cases op with
  | cons i v =>
    simp only [CPool.step, Pool.step, CPool.abs, Pool.put_map, Option.map, C11_make_abs]
  | copy i j => simp only [CPool.step, Pool.step, CPool.abs, Pool.put_map, Pool.at_map]
  | move i j => simp only [CPool.step, Pool.step, CPool.abs, Pool.put_map, Pool.at_map]
  | assign i j => simp only [CPool.step, Pool.step, CPool.abs, Pool.put_map, Pool.at_map]
  | moveAssign i j => simp only [CPool.step, Pool.step, CPool.abs, Pool.put_map, Pool.at_map]
  | swap i j =>
    simp only [CPool.step, Pool.step, CPool.abs]
    cases hi : Pool.at p i with
    | none =>
      cases hj : Pool.at p j <;>
        simp only [Pool.put_map, Pool.at_map, hi, hj, Option.map]
    | some x =>
      cases hj : Pool.at p j with
      | none => simp only [Pool.put_map, Pool.at_map, hi, hj, Option.map]
      | some y =>
        simp only [CView.swapped, Pool.put_map, Pool.at_map, hi, hj, Option.map, C11_make_abs]
        rfl

/-- **C11 (histories)**: for every sequence of operations the stored pool, read through the
    observers, is the pool of triples — so `data_handle()`, `mapping()`, `accessor()` of every
    view equal (the conversion of) what was supplied, whatever specialisation stores them -/
theorem C11_run (p : CPool P Q H M A) (ops : List (POp H M A)) :
    (ops.foldl CPool.step p).abs = Pool.run p.abs ops := by
  induction ops generalizing p with
  | nil => rfl
  | cons op ops ih => simp only [List.foldl, Pool.run] at *; rw [ih, C11_step]
end

/-- swap exchanges exactly the two views and leaves every other slot alone -/
theorem C11_swap_spec {H M A : Type} (p : Pool H M A) (i j k : Nat) (hi : i < p.length) (hj : j < p.length) :
    Pool.at (Pool.step p (.swap i j)) k =
      if k = j then Pool.at p i else if k = i then Pool.at p j else Pool.at p k := by
  simp only [Pool.step, Pool.put, Pool.at]
  by_cases hkj : k = j
  · subst hkj; simp [hj]
  · by_cases hki : k = i
    · subst hki; simp [hkj, hi, Ne.symm hkj]
    · simp [hkj, hki, Ne.symm hkj, Ne.symm hki]

/-- copy / assignment make the target equal to the source and leave the source unchanged -/
theorem C11_assign_spec {H M A : Type} (p : Pool H M A) (i j : Nat) (hi : i < p.length) :
    Pool.at (Pool.step p (.assign i j)) i = Pool.at p j ∧
    (i ≠ j → Pool.at (Pool.step p (.assign i j)) j = Pool.at p j) := by
  simp only [Pool.step, Pool.put, Pool.at]
  constructor
  · simp [hi]
  · intro h; simp [List.getElem?_set, h]

/-! the sixteen storage combinations exist (non-vacuity of the class constraints) -/
instance : EmptyT Unit := ⟨(), fun _ => rfl⟩
/-- a pair of two empty classes is itself an empty class -/
instance {α β : Type} : EmptyT (PairEE α β) := ⟨{}, fun _ => rfl⟩
example : (CView.make (P := PairNE) (Q := PairEE) (5 : Nat) () ()).abs = (⟨5, (), ()⟩ : MdsView Nat Unit Unit) := C11_make_abs _ _ _
example : (CView.make (P := PairNN) (Q := PairEN) (5 : Nat) () (7 : Nat)).abs = (⟨5, (), 7⟩ : MdsView Nat Unit Nat) := C11_make_abs _ _ _
example : (CView.make (P := PairEN) (Q := PairNE) () (3 : Nat) ()).abs = (⟨(), 3, ()⟩ : MdsView Unit Nat Unit) := C11_make_abs _ _ _

end Mdspan
