import MdspanVerif.Lemmas.Canonical
namespace Mdspan

theorem dot_le_spanM1 : ∀ (is es ss : List Nat), InB is es → es.length = ss.length →
    dot is ss ≤ spanM1 (List.zip es ss)
  | [], [], [], _, _ => by simp [dot, spanM1]
  | i :: is, e :: es, s :: ss, h, hl => by
    have := dot_le_spanM1 is es ss h.2 (by simpa using hl)
    have h1 : i * s ≤ (e - 1) * s := Nat.mul_le_mul_right _ (by have := h.1; omega)
    simp only [dot, List.zip_cons_cons, spanM1]; omega
  | [], _ :: _, _, h, _ => by simp [InB] at h
  | _ :: _, [], _, h, _ => by simp [InB] at h
  | [], [], _ :: _, _, hl => by simp at hl
  | _ :: _, _ :: _, [], _, hl => by simp at hl

theorem spanStrideGo_pos : ∀ (acc : Nat) (es ss : List Nat), (∀ e ∈ es, 0 < e) → es.length = ss.length →
    spanStrideGo acc es ss = acc + spanM1 (List.zip es ss)
  | acc, [], [], _, _ => by simp [spanStrideGo, spanM1]
  | acc, e :: es, s :: ss, h, hl => by
    have he : e ≠ 0 := by have := h e (by simp); omega
    simp only [spanStrideGo, he, if_false, List.zip_cons_cons, spanM1]
    rw [spanStrideGo_pos _ es ss (fun x hx => h x (List.mem_cons_of_mem _ hx)) (by simpa using hl)]
    omega
  | _, [], _ :: _, _, hl => by simp at hl
  | _, _ :: _, [], _, hl => by simp at hl

/-- early return: a zero extent anywhere gives span 0 (C05) -/
theorem spanStrideGo_zero : ∀ (acc : Nat) (es ss : List Nat), 0 ∈ es → es.length = ss.length →
    spanStrideGo acc es ss = 0
  | _, [], _, h, _ => by cases h
  | acc, e :: es, s :: ss, h, hl => by
    simp only [spanStrideGo]
    by_cases he : e = 0
    · simp [he]
    · simp only [he, if_false]
      have : 0 ∈ es := by
        rcases List.mem_cons.mp h with h0 | h0
        · exact absurd h0.symm he
        · exact h0
      exact spanStrideGo_zero _ es ss this (by simpa using hl)
  | _, _ :: _, [], _, hl => by simp at hl

/-- column-major strides over allocation extents stay inside `p * prod fs` -/
theorem span_left_le : ∀ (p : Nat) (es fs : List Nat), LeL es fs → (∀ e ∈ es, 0 < e) →
    spanM1 (List.zip es (leftStridesFrom p fs)) + p ≤ p * prod fs
  | p, [], [], _, _ => by simp [leftStridesFrom, spanM1, prod]
  | p, e :: es, f :: fs, hle, h => by
    have ih := span_left_le (p * f) es fs hle.2 (fun x hx => h x (List.mem_cons_of_mem _ hx))
    have he := h e (by simp)
    simp only [leftStridesFrom, List.zip_cons_cons, spanM1, prod]
    have h1 := pred_mul_add e p he
    have h2 : p * e ≤ p * f := Nat.mul_le_mul_left _ hle.1
    rw [← Nat.mul_assoc]
    omega
  | _, [], _ :: _, h, _ => by simp [LeL] at h
  | _, _ :: _, [], h, _ => by simp [LeL] at h

end Mdspan
