// layout_stride -> layout_left/right conversion observed in a child process (abort / trap / ok)
#pragma once
#include "mapsrv.hpp"
#include <sys/wait.h>
#include <unistd.h>
namespace vh {
template <Kind DK, class E, class F> void regC20(const std::string& key) {
  registry()[key] = [](const Op& o) -> std::string {
    using SM = md::layout_stride::mapping<F>; using DM = typename MapOf<DK, E, md::dynamic_extent>::type;
    using J = typename F::index_type; constexpr size_t R = F::rank();
    F f = makeExt<F>(o.ext); std::array<J, R> s{}; for (size_t r = 0; r < R; r++) s[r] = static_cast<J>(o.str[r]);
    SM sm(f, s);
    int fd[2]; if (pipe(fd) != 0) return "infra";
    fflush(stdout);
    pid_t pid = fork();
    if (pid == 0) {
      signal(SIGILL, SIG_DFL); signal(SIGFPE, SIG_DFL); signal(SIGTRAP, SIG_DFL);
      close(fd[0]);
      DM dm(sm);
      std::string r = "ok " + extList(dm.extents()) + "\n";
      (void)!write(fd[1], r.data(), r.size()); _exit(0);
    }
    close(fd[1]); char buf[512]; ssize_t n = read(fd[0], buf, sizeof buf - 1); close(fd[0]);
    int st = 0; waitpid(pid, &st, 0);
    if (WIFSIGNALED(st)) { int sg = WTERMSIG(st); return sg == SIGABRT ? "abort" : (sg == SIGILL || sg == SIGFPE || sg == SIGTRAP) ? "ub" : "signal " + std::to_string(sg); }
    if (n <= 0) return "no-output";
    buf[n] = 0; std::string r(buf); if (!r.empty() && r.back() == '\n') r.pop_back(); return r;
  };
}
// the same conversion inside the initialiser of a static variable with compile-time constant operands: a debug build must
// still reject wrong strides (the trial constant evaluation fails on std::abort and the initialisation happens - and aborts - at run time)
template <Kind DK, class I, long S0, long S1> void regC20Static(const std::string& key) {
  registry()[key] = [](const Op&) -> std::string {
    using E = md::extents<I, 3, 4>; using SM = md::layout_stride::mapping<E>; using DM = typename MapOf<DK, E, md::dynamic_extent>::type;
    int fd[2]; if (pipe(fd) != 0) return "infra";
    fflush(stdout);
    pid_t pid = fork();
    if (pid == 0) {
      signal(SIGILL, SIG_DFL); signal(SIGFPE, SIG_DFL); signal(SIGTRAP, SIG_DFL);
      close(fd[0]);
      static const DM dm = DM(SM(E(), std::array<I, 2>{static_cast<I>(S0), static_cast<I>(S1)}));
      std::string r = "ok " + extList(dm.extents()) + "\n";
      (void)!write(fd[1], r.data(), r.size()); _exit(0);
    }
    close(fd[1]); char buf[512]; ssize_t n = read(fd[0], buf, sizeof buf - 1); close(fd[0]);
    int st = 0; waitpid(pid, &st, 0);
    if (WIFSIGNALED(st)) { int sg = WTERMSIG(st); return sg == SIGABRT ? "abort" : (sg == SIGILL || sg == SIGFPE || sg == SIGTRAP) ? "ub" : "signal " + std::to_string(sg); }
    if (n <= 0) return "no-output";
    buf[n] = 0; std::string r(buf); if (!r.empty() && r.back() == '\n') r.pop_back(); return r;
  };
}
} // namespace vh
