// mdarray op family (C12): construction, adoption, copy/move, element access, views
#pragma once
#include "mapsrv.hpp"
#include "viewsrv.hpp"      // user layouts whose is_unique / is_exhaustive / is_strided answers differ from one another
#include <mdspan/mdarray.hpp>
#include <optional>
namespace vh {
template <class C> struct isStdArray : std::false_type {};
template <class T, size_t N> struct isStdArray<std::array<T, N>> : std::true_type {};

template <class A, class I, size_t R, size_t... Q> decltype(auto) arrAtImpl(A& a, const std::array<I, R>& ix, std::index_sequence<Q...>) {
#if MDSPAN_USE_BRACKET_OPERATOR
  return a[ix[Q]...];
#else
  return a(ix[Q]...);
#endif
}
template <class A, class I, size_t R> decltype(auto) arrAt(A& a, const std::array<I, R>& ix) { return arrAtImpl(a, ix, std::make_index_sequence<R>()); }

template <class ARR, class D, size_t... Q> void emplacePack(std::optional<ARR>& slot, const D& d, std::index_sequence<Q...>) { slot.emplace(d[Q]...); }

template <Kind K, class E, size_t SP, class Ctr> void regArr(const std::string& key) {
  using M = typename MapOf<K, E, SP>::type; using I = typename E::index_type; using L = typename M::layout_type;
  using ARR = mdx::mdarray<int, E, L, Ctr>; constexpr size_t R = E::rank();
  using VIEW = md::mdspan<int, E, L>; using CVIEW = md::mdspan<const int, E, L>;
  registry()[key] = [](const Op& o) -> std::string {
    std::optional<ARR> pool[4]; std::optional<VIEW> views[2];
    std::string out; bool first = true;
    auto emit = [&](const std::string& s) { if (!first) out += " | "; out += s; first = false; };
    auto idxOf = [&](const std::vector<long long>& v) { std::array<I, R> a{}; for (size_t k = 0; k < R; k++) a[k] = static_cast<I>(v[k]); return a; };
    Op o2 = o;
    if (o.kv.count("ext2")) { o2.ext = parseList(o.get("ext2")); o2.str = parseList(o.get("str2")); o2.kv.erase("pv"); if (o.kv.count("pv2")) { o2.kv["pv"] = o.get("pv2"); o2.pv = parseNum(o.get("pv2")); } }
    for (const std::string& cmd : splitStr(o.get("seq"), '/')) {
      auto a = splitStr(cmd, ':'); const std::string& c = a[0];
      auto num_ = [&](size_t k) { return k < a.size() ? parseNum(a[k]) : 0LL; };
      auto lst = [&](size_t k) { return k < a.size() ? parseList(a[k]) : std::vector<long long>(); };
      if (c == "cm") { pool[num_(1)].emplace(makeMap<K, E, SP>(o)); continue; }
      if (c == "cm2") { pool[num_(1)].emplace(makeMap<K, E, SP>(o2)); continue; }      // the line's second mapping (ext2= / str2= / pv2=)
      if (c == "ad2" || c == "am2") {
        auto v = lst(2); Ctr ctr{};
        if constexpr (isStdArray<Ctr>::value) { for (size_t k = 0; k < ctr.size() && k < v.size(); k++) ctr[k] = static_cast<int>(v[k]); }
        else { for (auto x : v) ctr.push_back(static_cast<int>(x)); }
        if (c == "ad2") pool[num_(1)].emplace(makeMap<K, E, SP>(o2), ctr); else pool[num_(1)].emplace(makeMap<K, E, SP>(o2), std::move(ctr));
        continue;
      }
      if (c == "rc") {   // the same element through to_mdspan() and the conversion operator, each on the non-const and on the const array
        if (!pool[num_(1)]) { emit("none"); continue; } auto ix = idxOf(lst(2)); ARR& x = *pool[num_(1)]; const ARR& cx = x;
        VIEW tm = x.to_mdspan(); CVIEW tc = cx.to_mdspan(); VIEW om = x; CVIEW oc = cx;
        bool same = tm.mapping() == x.mapping() && tc.mapping() == x.mapping() && om.mapping() == x.mapping() && oc.mapping() == x.mapping() &&
                    tm.data_handle() == x.data() && tc.data_handle() == x.data() && om.data_handle() == x.data() && oc.data_handle() == x.data();
        emit("tm=" + std::to_string(arrAt(tm, ix)) + " tc=" + std::to_string(arrAt(tc, ix)) + " om=" + std::to_string(arrAt(om, ix)) + " oc=" + std::to_string(arrAt(oc, ix)) + " same=" + num(same));
        continue; }
      if (c == "ce") { if constexpr (std::is_constructible_v<M, const E&>) pool[num_(1)].emplace(makeExt<E>(o.ext)); else emit("no-ctor"); continue; }
      if (c == "ad" || c == "am") {   // adopt a container by const reference / by move
        auto v = lst(2); Ctr ctr{};
        if constexpr (isStdArray<Ctr>::value) { for (size_t k = 0; k < ctr.size() && k < v.size(); k++) ctr[k] = static_cast<int>(v[k]); }
        else { for (auto x : v) ctr.push_back(static_cast<int>(x)); }
        if (c == "ad") pool[num_(1)].emplace(makeMap<K, E, SP>(o), ctr); else pool[num_(1)].emplace(makeMap<K, E, SP>(o), std::move(ctr));
        continue;
      }
      // ---- the remaining constructor forms (all collapse to ofMapping / adopt / convCons in the model)
      if (c == "ci") {   // integer pack of the dynamic extents
        if constexpr (std::is_constructible_v<M, const E&> && (R > 0 || E::rank_dynamic() == 0)) {
          E e = makeExt<E>(o.ext); std::array<I, E::rank_dynamic() + 1> d{}; size_t q = 0;
          for (size_t r = 0; r < R; r++) if (E::static_extent(r) == md::dynamic_extent) d[q++] = e.extent(r);
          emplacePack(pool[num_(1)], d, std::make_index_sequence<E::rank_dynamic()>());
        } else emit("no-ctor");
        continue; }
      if (c == "cd") {   // default constructor (rank_dynamic != 0 only)
        if constexpr (std::is_default_constructible_v<ARR> && E::rank_dynamic() != 0) pool[num_(1)].emplace(); else emit("no-ctor");
        continue; }
      if (c == "cea" || c == "cma") {   // extents / mapping + allocator
        if constexpr (!isStdArray<Ctr>::value) {
          typename Ctr::allocator_type al{};
          if (c == "cma") pool[num_(1)].emplace(makeMap<K, E, SP>(o), al);
          else { if constexpr (std::is_constructible_v<M, const E&>) pool[num_(1)].emplace(makeExt<E>(o.ext), al); else emit("no-ctor"); }
        } else emit("no-ctor");
        continue; }
      if (c == "ade" || c == "ame" || c == "adea" || c == "amea" || c == "adma" || c == "amma") {
        auto v = lst(2); Ctr ctr{};
        if constexpr (isStdArray<Ctr>::value) { for (size_t k = 0; k < ctr.size() && k < v.size(); k++) ctr[k] = static_cast<int>(v[k]); }
        else { for (auto x : v) ctr.push_back(static_cast<int>(x)); }
        const bool withAlloc = c.size() == 4, byMove = c[1] == 'm', fromExt = c[2] == 'e';
        if (!withAlloc) {
          if constexpr (std::is_constructible_v<M, const E&>) { if (byMove) pool[num_(1)].emplace(makeExt<E>(o.ext), std::move(ctr)); else pool[num_(1)].emplace(makeExt<E>(o.ext), ctr); }
          else emit("no-ctor");
        } else {
          if constexpr (!isStdArray<Ctr>::value) {
            typename Ctr::allocator_type al{};
            if (fromExt) {
              if constexpr (std::is_constructible_v<M, const E&>) { if (byMove) pool[num_(1)].emplace(makeExt<E>(o.ext), std::move(ctr), al); else pool[num_(1)].emplace(makeExt<E>(o.ext), ctr, al); }
              else emit("no-ctor");
            } else { if (byMove) pool[num_(1)].emplace(makeMap<K, E, SP>(o), std::move(ctr), al); else pool[num_(1)].emplace(makeMap<K, E, SP>(o), ctr, al); }
          } else emit("no-ctor");
        }
        continue; }
      if (c == "cv" || c == "cva") {   // converting constructor, through the all-dynamic twin and back
        if (!pool[num_(2)]) { emit("skip"); continue; }
        using DE = md::dextents<I, R>; using ARR2 = mdx::mdarray<int, DE, L, Ctr>;
        if constexpr (std::is_constructible_v<ARR2, const ARR&> && std::is_constructible_v<ARR, const ARR2&>) {
          if (c == "cv") { ARR2 t(*pool[num_(2)]); pool[num_(1)].emplace(t); }
          else { if constexpr (!isStdArray<Ctr>::value) { typename Ctr::allocator_type al{}; ARR2 t(*pool[num_(2)], al); pool[num_(1)].emplace(t, al); } else emit("no-ctor"); }
        } else emit("no-conv");
        continue; }
      if (c == "cc") { if (pool[num_(2)]) pool[num_(1)].emplace(*pool[num_(2)]); else emit("skip"); continue; }
      if (c == "mc") { if (pool[num_(2)]) pool[num_(1)].emplace(std::move(*pool[num_(2)])); else emit("skip"); continue; }
      if (c == "ca") { if (pool[num_(1)] && pool[num_(2)]) *pool[num_(1)] = *pool[num_(2)]; else emit("skip"); continue; }
      if (c == "ma") { if (pool[num_(1)] && pool[num_(2)]) *pool[num_(1)] = std::move(*pool[num_(2)]); else emit("skip"); continue; }
      if (c == "wa") { if (!pool[num_(1)]) { emit("none"); continue; } auto ix = idxOf(lst(3));
        arrAt(*pool[num_(1)], ix) = static_cast<int>(num_(2));
        continue; }
      if (c == "ra") { if (!pool[num_(1)]) { emit("none"); continue; } auto ix = idxOf(lst(2)); const ARR& ca = *pool[num_(1)];
        int x = arrAt(*pool[num_(1)], ix), y = arrAt(ca, ix);
        long long pos = static_cast<long long>(&arrAt(ca, ix) - ca.container().data());
        emit("v=" + std::to_string(x) + " cv=" + std::to_string(y) + " pos=" + std::to_string(pos)); continue; }
      if (c == "vw") { if (!pool[num_(2)]) { emit("none"); continue; } views[num_(1)].emplace(pool[num_(2)]->to_mdspan()); continue; }
      if (c == "vc") { if (!pool[num_(2)]) { emit("none"); continue; } VIEW v = *pool[num_(2)]; views[num_(1)].emplace(v); continue; }   // conversion operator
      if (c == "wv") { if (!views[num_(1)]) { emit("none"); continue; } auto ix = idxOf(lst(3));
        arrAt(*views[num_(1)], ix) = static_cast<int>(num_(2));
        continue; }
      if (c == "rv") { if (!views[num_(1)]) { emit("none"); continue; } auto ix = idxOf(lst(2));
        emit("v=" + std::to_string(arrAt(*views[num_(1)], ix)));
        continue; }
      if (c == "ob") {
        if (!pool[num_(1)]) { emit("none"); continue; }
        const ARR& x = *pool[num_(1)];
        std::array<I, R> st{}; if constexpr (R > 0) for (size_t r = 0; r < R; r++) st[r] = x.stride(r);
        std::string s = "e=" + extList(x.extents()) + " s=" + list(st) + " csz=" + std::to_string(x.container().size()) + " sz=" + num(x.size());
        s += " al=";
        bool any = false;
        for (int j = 0; j < 4; j++) if (j != num_(1) && pool[j] && pool[j]->container().size() > 0 && x.container().size() > 0 && pool[j]->container().data() == x.container().data()) { s += std::to_string(j); any = true; }
        if (!any) s += "-";
        CVIEW cv = x.to_mdspan(); CVIEW oc = x; ARR& nx = *pool[num_(1)]; VIEW tm = nx.to_mdspan(); VIEW om = nx;
        s += " dh=" + num(cv.data_handle() == x.data() && x.data() == x.container().data() && cv.mapping() == x.mapping() &&
                          oc.data_handle() == x.data() && oc.mapping() == x.mapping() && tm.data_handle() == x.data() && tm.mapping() == x.mapping() &&
                          om.data_handle() == x.data() && om.mapping() == x.mapping());
        s += " fw=" + num(x.is_unique() == x.mapping().is_unique() && x.is_exhaustive() == x.mapping().is_exhaustive() && x.is_strided() == x.mapping().is_strided() &&
                          ARR::is_always_unique() == M::is_always_unique() && ARR::is_always_exhaustive() == M::is_always_exhaustive() && ARR::is_always_strided() == M::is_always_strided());
        emit(s); continue;
      }
      if (c == "ov") {
        if (!views[num_(1)]) { emit("none"); continue; }
        const VIEW& v = *views[num_(1)]; std::string s = "base=";
        bool any = false;
        for (int j = 0; j < 4; j++) if (pool[j] && pool[j]->container().size() > 0 && v.data_handle() == pool[j]->data()) { s += std::to_string(j); any = true; }
        if (!any) s += "-";
        s += " e=" + extList(v.extents()); emit(s); continue;
      }
      if (c == "el") {
        if (!pool[num_(1)]) { emit("none"); continue; }
        const ARR& x = *pool[num_(1)]; std::vector<int> v(x.container().begin(), x.container().end()); if (v.size() > 256) v.resize(256);
        emit("el=" + list(v)); continue;
      }
      emit("bad-cmd");
    }
    return out.empty() ? "ok" : out;
  };
}
} // namespace vh
