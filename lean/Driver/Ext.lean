import Driver.Util
import MdspanVerif.Model.ExtentsM
import MdspanVerif.Model.Types
/-! `ext` / `extconv` / `exteq` op families: extents construction, conversion, comparison. -/
open Mdspan

namespace Drv

def fmtPatE (p : Pattern) : String :=
  if p.isEmpty then "-" else ",".intercalate (p.map (fun x => match x with | none => "D" | some v => toString v))

def obsExt (x : Ext) : String :=
  s!"rank={x.rank} rd={rankDyn x.pat} se={fmtPatE x.pat} e={fmtL ((List.range x.rank).map x.extent)}"

/-- `ext T S pat= k=<path> vals=` -/
def extLine (t s : String) (rest : List String) : String :=
  match parseTy t, parseTy s with
  | some T, some S =>
    let p := parsePat ((getKey rest "pat").getD "-")
    let vals := parseList ((getKey rest "vals").getD "-")
    let path := (getKey rest "k").getD ""
    let want := if path.endsWith "_dyn" then rankDyn p else p.length
    if vals.length != want then "bad-op" else obsExt (Ext.ctorM T S p vals)
  | _, _ => "bad-op"

/-- the harness builds the source/operand extents with the all-values pack constructor -/
def mkAll (T : ITy) (p : Pattern) (vals : List Int) : Ext := Ext.ctorM T T p vals

def extconvLine (t u : String) (rest : List String) : String :=
  match parseTy t, parseTy u with
  | some T, some U =>
    let p := parsePat ((getKey rest "pat").getD "-")
    let q := parsePat ((getKey rest "spat").getD "-")
    let src := mkAll U q (parseList ((getKey rest "vals").getD "-"))
    if !(Impl.extConstructible ⟨T, p⟩ ⟨U, q⟩) then "no-inst"
    else obsExt (Ext.convM T p src) ++ s!" impl={fmtB (Impl.extConvertible ⟨T, p⟩ ⟨U, q⟩)}"
  | _, _ => "bad-op"

def exteqLine (t u : String) (rest : List String) : String :=
  match parseTy t, parseTy u with
  | some T, some U =>
    let p := parsePat ((getKey rest "pat").getD "-")
    let q := parsePat ((getKey rest "spat").getD "-")
    let a := mkAll T p (parseList ((getKey rest "vals").getD "-"))
    let b := mkAll U q (parseList ((getKey rest "vals2").getD "-"))
    let e := Ext.eqM T U a b
    s!"eq={fmtB e} ne={fmtB (!e)} rev={fmtB (Ext.eqM U T b a)}"
  | _, _ => "bad-op"

end Drv
