import MdspanVerif.Lemmas.Strided
namespace Mdspan

/-- If `l` is a permutation of `q.map f`, it is the image of a permutation of `q`. -/
theorem perm_map_lift {α β : Type} (f : α → β) :
    ∀ (l : List β) (q : List α), l.Perm (q.map f) →
      ∃ q' : List α, List.Perm q' q ∧ List.map f q' = l := by
  intro l
  induction l with
  | nil =>
    intro q h
    have : q.map f = [] := List.Perm.eq_nil (List.Perm.symm h)
    have hq : q = [] := by simpa using this
    exact ⟨[], by simp [hq], rfl⟩
  | cons b l ih =>
    intro q h
    have hb : b ∈ q.map f := h.subset (by simp)
    obtain ⟨a, ha, hfa⟩ := List.mem_map.mp hb
    obtain ⟨q1, q2, hq⟩ := List.append_of_mem ha
    subst hq
    have h' : l.Perm ((q1 ++ q2).map f) := by
      have : (b :: l).Perm (b :: ((q1 ++ q2).map f)) := by
        refine h.trans ?_
        simp only [List.map_append, List.map_cons, hfa]
        exact List.perm_middle
      exact List.Perm.cons_inv this
    obtain ⟨q', hq', hmap⟩ := ih (q1 ++ q2) h'
    refine ⟨a :: q', ?_, by simp [hmap, hfa]⟩
    exact (List.Perm.cons a hq').trans List.perm_middle.symm

theorem offI_perm {l1 l2 : List Quad} (h : l1.Perm l2) : offI l1 = offI l2 := by
  induction h with
  | nil => rfl
  | cons x _ ih => simp only [offI, ih]
  | swap x y l => simp only [offI]; omega
  | trans _ _ ih1 ih2 => exact ih1.trans ih2

theorem offJ_perm {l1 l2 : List Quad} (h : l1.Perm l2) : offJ l1 = offJ l2 := by
  induction h with
  | nil => rfl
  | cons x _ ih => simp only [offJ, ih]
  | swap x y l => simp only [offJ]; omega
  | trans _ _ ih1 ih2 => exact ih1.trans ih2

/-- zip two candidate indices with extents and strides -/
def mkQuads : List Nat → List Nat → List Nat → List Nat → List Quad
  | i :: is, j :: js, e :: es, s :: ss => ⟨i, j, e, s⟩ :: mkQuads is js es ss
  | _, _, _, _ => []

theorem inB_length : ∀ (is es : List Nat), InB is es → is.length = es.length
  | [], [], _ => rfl
  | i :: is, e :: es, h => by simp [inB_length is es h.2]
  | [], _ :: _, h => by simp [InB] at h
  | _ :: _, [], h => by simp [InB] at h

theorem mkQuads_dim : ∀ (is js es ss : List Nat), InB is es → InB js es → es.length = ss.length →
    (mkQuads is js es ss).map Quad.dim = List.zip es ss
  | [], [], [], [], _, _, _ => rfl
  | i :: is, j :: js, e :: es, s :: ss, hi, hj, hl => by
    simp only [mkQuads, List.map, Quad.dim, List.zip_cons_cons]
    rw [mkQuads_dim is js es ss hi.2 hj.2 (by simpa using hl)]
  | [], _, _ :: _, _, hi, _, _ => by simp [InB] at hi
  | _ :: _, _, [], _, hi, _, _ => by simp [InB] at hi
  | _ :: _, [], _ :: _, _, _, hj, _ => by simp [InB] at hj
  | [], _ :: _, [], _, _, hj, _ => by simp [InB] at hj
  | _ :: _, _ :: _, _ :: _, [], _, _, hl => by simp at hl
  | [], [], [], _ :: _, _, _, hl => by simp at hl

theorem mkQuads_offI : ∀ (is js es ss : List Nat), InB is es → InB js es → es.length = ss.length →
    offI (mkQuads is js es ss) = dot is ss
  | [], [], [], [], _, _, _ => rfl
  | i :: is, j :: js, e :: es, s :: ss, hi, hj, hl => by
    simp only [mkQuads, offI, dot]
    rw [mkQuads_offI is js es ss hi.2 hj.2 (by simpa using hl)]
  | [], _, _ :: _, _, hi, _, _ => by simp [InB] at hi
  | _ :: _, _, [], _, hi, _, _ => by simp [InB] at hi
  | _ :: _, [], _ :: _, _, _, hj, _ => by simp [InB] at hj
  | [], _ :: _, [], _, _, hj, _ => by simp [InB] at hj
  | _ :: _, _ :: _, _ :: _, [], _, _, hl => by simp at hl
  | [], [], [], _ :: _, _, _, hl => by simp at hl

theorem mkQuads_offJ : ∀ (is js es ss : List Nat), InB is es → InB js es → es.length = ss.length →
    offJ (mkQuads is js es ss) = dot js ss
  | [], [], [], [], _, _, _ => rfl
  | i :: is, j :: js, e :: es, s :: ss, hi, hj, hl => by
    simp only [mkQuads, offJ, dot]
    rw [mkQuads_offJ is js es ss hi.2 hj.2 (by simpa using hl)]
  | [], _, _ :: _, _, hi, _, _ => by simp [InB] at hi
  | _ :: _, _, [], _, hi, _, _ => by simp [InB] at hi
  | _ :: _, [], _ :: _, _, _, hj, _ => by simp [InB] at hj
  | [], _ :: _, [], _, _, hj, _ => by simp [InB] at hj
  | _ :: _, _ :: _, _ :: _, [], _, _, hl => by simp at hl
  | [], [], [], _ :: _, _, _, hl => by simp at hl

theorem mkQuads_inB : ∀ (is js es ss : List Nat), InB is es → InB js es → QInB (mkQuads is js es ss)
  | i :: is, j :: js, e :: es, s :: ss, hi, hj => by
    intro q hq
    simp only [mkQuads, List.mem_cons] at hq
    rcases hq with rfl | hq
    · exact ⟨hi.1, hj.1⟩
    · exact mkQuads_inB is js es ss hi.2 hj.2 q hq
  | [], _, _, _, _, _ => by intro q hq; simp [mkQuads] at hq
  | _ :: _, [], _, _, _, _ => by intro q hq; simp [mkQuads] at hq
  | _ :: _, _ :: _, [], _, _, _ => by intro q hq; simp [mkQuads] at hq
  | _ :: _, _ :: _, _ :: _, [], _, _ => by intro q hq; simp [mkQuads] at hq

theorem mkQuads_eq : ∀ (is js es ss : List Nat), InB is es → InB js es → es.length = ss.length →
    (∀ q ∈ mkQuads is js es ss, q.i = q.j) → is = js
  | [], [], [], [], _, _, _, _ => rfl
  | i :: is, j :: js, e :: es, s :: ss, hi, hj, hl, h => by
    have h0 : i = j := h ⟨i, j, e, s⟩ (by simp [mkQuads])
    have := mkQuads_eq is js es ss hi.2 hj.2 (by simpa using hl)
      (fun q hq => h q (by simp [mkQuads, hq]))
    rw [h0, this]
  | [], _, _ :: _, _, hi, _, _, _ => by simp [InB] at hi
  | _ :: _, _, [], _, hi, _, _, _ => by simp [InB] at hi
  | _ :: _, [], _ :: _, _, _, hj, _, _ => by simp [InB] at hj
  | [], _ :: _, [], _, _, hj, _, _ => by simp [InB] at hj
  | _ :: _, _ :: _, _ :: _, [], _, _, hl, _ => by simp at hl
  | [], [], [], _ :: _, _, _, hl, _ => by simp at hl

/-- validity of a strided mapping: some ordering of its dimensions is a generalised chain -/
def ValidStrides (es ss : List Nat) : Prop :=
  es.length = ss.length ∧ ∃ l, List.Perm l (List.zip es ss) ∧ DescC l

/-- **Injectivity** of every valid strided mapping, any rank. -/
theorem dot_inj (es ss is js : List Nat) (hv : ValidStrides es ss)
    (hi : InB is es) (hj : InB js es) (h : dot is ss = dot js ss) : is = js := by
  obtain ⟨hl, l, hperm, hdesc⟩ := hv
  have hdim := mkQuads_dim is js es ss hi hj hl
  obtain ⟨q', hq', hmap⟩ := perm_map_lift Quad.dim l (mkQuads is js es ss) (by rw [hdim]; exact hperm)
  have hb : QInB q' := fun q hq => mkQuads_inB is js es ss hi hj q (hq'.mem_iff.mp hq)
  have heq : offI q' = offJ q' := by
    rw [offI_perm hq', offJ_perm hq', mkQuads_offI is js es ss hi hj hl, mkQuads_offJ is js es ss hi hj hl]
    exact h
  have hall := desc_inj (l := q') (by rw [hmap]; exact hdesc) hb heq
  exact mkQuads_eq is js es ss hi hj hl (fun q hq => hall q (hq'.mem_iff.mpr hq))

end Mdspan
