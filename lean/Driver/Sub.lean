import Driver.Util
import MdspanVerif.Model.LayoutM
import MdspanVerif.Model.SubM
/-! `sub` op family: machine-layer mirror of `submdspan_mapping` (repaired tree). -/
open Mdspan

namespace Drv

def parseSlice (s : String) : Option SliceI :=
  match s.splitOn ":" with
  | ["i", a] => a.toInt?.map SliceI.idx
  | ["r", a, b] => do let a ← a.toInt?; let b ← b.toInt?; pure (SliceI.range a b)
  | ["f"] => some SliceI.full
  | ["s", a, b, c] => do let a ← a.toInt?; let b ← b.toInt?; let c ← c.toInt?; pure (SliceI.strided a b c)
  | _ => none

def SliceI.wrapT (T : ITy) : SliceI → SliceI
  | .idx i => .idx (T.wrap i)
  | .range b e => .range (T.wrap b) (T.wrap e)
  | .full => .full
  | .strided o x s => .strided (T.wrap o) (T.wrap x) (T.wrap s)

structure SubRes where
  off : Int
  exts : List Int
  kind : String
  strs : List Int

def subMapping (T : ITy) (kind : String) (es ss : List Int) (sls : List SliceI) : M SubRes := do
  let n := es.length
  let kinds := sls.map SliceI.toKind
  let xs ← subExtsM T sls es
  let keep := match kind with
    | "left" => preserveLeft kinds
    | "right" => preserveRight kinds
    | _ => false
  let fs := sls.map (fun s => T.wrap s.first)
  let offv ← (if anyAtEndI sls es then
      (match kind with
        | "stride" => spanStrideM T es ss
        | _ => spanLRM T es)
    else
      (match kind with
        | "left" => leftOffM T es fs
        | "right" => rightOffM T es fs
        | _ => strideOffM T fs ss))
  let off := ITy.u64.wrap offv
  let m := xs.length
  if keep then do
    let strs ← (List.range m).mapM (fun r => if kind == "left" then leftStrideM T xs r else rightStrideM T xs r)
    pure { off := off, exts := xs, kind := kind, strs := strs }
  else do
    let src ← (match kind with
      | "left" => (List.range n).mapM (fun r => leftStrideM T es r)
      | "right" => (List.range n).mapM (fun r => rightStrideM T es r)
      | _ => pure ss)
    let strs ← subStridesM T true sls src
    pure { off := off, exts := xs, kind := "stride", strs := strs }

def subOp (T : ITy) (kind : String) (es ss : List Int) (sls : List SliceI) : String :=
  match subMapping T kind es ss sls with
  | .ok r => s!"off={r.off} ext={fmtL r.exts} kind={r.kind} str={fmtL r.strs}"
  | .error e => ubStr e

def subLine (kind ty : String) (rest : List String) : String :=
  match parseTy ty with
  | none => "bad-op"
  | some T =>
    let es := wrapL T (parseList ((getKey rest "ext").getD "-"))
    let ss := wrapL T (parseList ((getKey rest "str").getD "-"))
    let sl := ((getKey rest "sl").getD "").splitOn ";"
    match sl.mapM parseSlice with
    | some sls => subOp T kind es ss (sls.map (SliceI.wrapT T))
    | none => "bad-op"

end Drv
