"""C01, C02, C05, C07 (and the mapping part of C14): proof audit + correspondence of the `map` op
family + the property oracles on the implementation."""
import json, itertools
from . import common as C
from . import mapfam as F
import harness.gen_map as G

QUICK_CONFIGS = ['gcc20-ubsan', 'gcc17-ubsan']      # C++17: the pre-C++20 branches (hand-written defaults, no requires-clauses)
THOROUGH_CONFIGS = ['gcc20-ubsan', 'clang20-ubsan', 'gcc17-ubsan', 'gcc23-ubsan']

def warm(prop):
    F.build_server('gcc20-ubsan')

def payload(c, **kw):
    d = dict(case=c.pub(), ops=[[o, a] for o, a in c.ops][:40]); d.update(kw); return d

def case_from_replay(rp, insts):
    cs = rp['case']
    for inst in insts:
        if G.line_prefix(inst) + ' ' == cs['line'][:len(G.line_prefix(inst)) + 1] and G.line_prefix(inst).split() == cs['line'].split()[:len(G.line_prefix(inst).split())]:
            c = F.Case(inst, cs['extents'], strides=cs.get('strides'), pv=cs.get('padding'), stream=cs.get('stream') or 'replay')      # the stream selects the analysis (default-ctor cases)
            c.pt = cs.get('padding_argument_type')
            c.ops = [(o, a) for o, a in rp['ops']]
            idx = [a for o, a in c.ops if o == 'off']
            c.idx_complete = len(idx) == C.prod(cs['extents']) and len(cs['extents']) > 0
            return c
    return None

# ------------------------------------------------------------------------------------------- C01
def dflt_C01(c, rep):
    """a default-constructed mapping with all-static, non-empty extents: offsets in range and collision-free"""
    xi = c.out('dflt')
    if xi is None or not xi.startswith('ok e='): return
    offs = [(a, F.val(x), xm) for (o, a), x, xm in zip(c.ops, c.impl, c.model) if o == 'dfltoff']
    if not offs: return
    d = dict(x.split('=') for x in xi[3:].split()); es = [int(v) for v in d['e'].split(',')]; span = int(d['span'])
    kind, t, pat, sp = c.inst
    ee = list(es)
    if kind in ('lpad', 'rpad') and len(es) >= 2:
        k = 0 if kind == 'lpad' else len(es) - 1; ee[k] = es[k] if sp in (None, 'D') else F.least_multiple(sp, es[k])
    if C.prod([max(e, 1) for e in ee]) > C.hi(t): return      # not an admissible mapping (C14's matter)
    rep.cov['evaluations'] += len(offs); rep.cov['traces_validated_against_impl'] += 1
    diffs = [(a, x, xm) for (o, a), x, xm in zip(c.ops, c.impl, c.model) if o == 'dfltoff' and x != xm]
    if diffs: rep.broke(payload(c, correspondence='map family, operator() of the default-constructed mapping', differing=diffs[:4]))
    seen = {}
    for a, o, _ in offs:
        if o is None: rep.violation(payload(c, kind='no-defined-offset-on-default-constructed-mapping', idx=a)); return
        if o < 0 or o >= span: rep.violation(payload(c, kind='offset-out-of-range (default-constructed mapping)', idx=a, offset=o, required_span_size=span)); return
        if o in seen: rep.violation(payload(c, kind='collision (default-constructed mapping)', idx=[seen[o], a], offset=o)); return
        seen[o] = a
    rep.nontrivial(c.base() + ' dflt')

def analyse_C01(cases, rep):
    fit_lines = []; plan = []
    for c in cases:
        if c.stream == 'default-ctor': dflt_C01(c, rep); continue
        if not c.adm: continue
        r = len(c.ext); span = F.val(c.out('span')); offs = F.offsets_of(c)
        if not offs: continue
        rep.cov['evaluations'] += len(offs)
        if span is None or any(o is None for _, o in offs):
            rep.violation(payload(c, kind='no-defined-offset-on-admissible-input', impl_span=c.out('span'),
                                  impl_offsets=[x for (o, a), x in zip(c.ops, c.impl) if o == 'off'][:16])); continue
        if r >= 1 and len(offs) > 1: rep.nontrivial(c.base())
        # direct oracle: range and collisions (the property statement itself)
        seen = {}; bad = False
        for i, o in offs:
            if o < 0 or o >= span:
                rep.violation(payload(c, kind='offset-out-of-range', idx=i, offset=o, required_span_size=span)); bad = True; break
            if o in seen and seen[o] != i:
                rep.violation(payload(c, kind='collision', idx=[seen[o], i], offset=o)); bad = True; break
            seen[o] = i
        if bad: continue
        # fitted strided family: strides read off the implementation's own unit-vector offsets
        table = {tuple(i): o for i, o in offs}
        origin = table.get(tuple([0] * r))
        if origin is None: continue
        strides = []; okfit = True
        for k in range(r):
            if c.ext[k] <= 1: strides.append(0); continue
            u = [0] * r; u[k] = 1
            if tuple(u) not in table: okfit = False; break
            strides.append(table[tuple(u)] - origin)
        if not okfit: continue
        if origin != 0 or any(s < 0 for s in strides):
            rep.broke(payload(c, correspondence='C01 fitted strided family', why='origin not mapped to 0 or negative unit step', fitted=strides, origin=origin)); continue
        plan.append((c, offs, span, strides, len(fit_lines)))
        fit_lines.append('valid ext=%s str=%s' % (C.fmt(c.ext), C.fmt(strides)))
        for i, _ in offs: fit_lines.append('dot str=%s idx=%s' % (C.fmt(strides), C.fmt(i)))
    mout = C.driver(fit_lines)
    for c, offs, span, strides, p in plan:
        v = dict(x.split('=') for x in mout[p].split())
        pred = [F.val(x) for x in mout[p + 1:p + 1 + len(offs)]]
        rep.cov['traces_validated_against_impl'] += 1
        why = None
        if v['valid'] != '1': why = 'strides observed on the implementation fail the (generalised) chain condition the theorem assumes'
        elif pred != [o for _, o in offs]: why = 'offsets are not the affine function of the observed strides (offset = dot idx strides is what C01_inj/C01_range are proved for)'
        elif span < int(v['span']): why = 'required_span_size() smaller than 1 + sum((e-1)*s) of the observed strides'
        if why:
            rep.broke(payload(c, correspondence='C01 fitted strided family', why=why, fitted_strides=strides, impl_span=span,
                              model_span=int(v['span']), impl_offsets=[o for _, o in offs][:16], model_offsets=pred[:16]))
        else:
            rep.sample(dict(line=c.base(), span=span, fitted_strides=strides, first_offsets=[o for _, o in offs][:8]))

# ------------------------------------------------------------------------------------------- C02
def analyse_C02(cases, rep):
    for c in cases:
        sp = F.spec_strides(c) if c.adm else None
        impl_str = F.vals(c.out('strides'))
        diffs = []
        for (op, arg), xi, xm in zip(c.ops, c.impl, c.model):
            if op == 'dflt':
                rep.cov['evaluations'] += 1
                if xi != xm: diffs.append(dict(op=op, impl=xi, model=xm))
                if xi.startswith('ok e='):
                    d = dict(x.split('=') for x in xi[3:].split()); es = [] if d['e'] == '-' else [int(v) for v in d['e'].split(',')]
                    got = [] if d['s'] == '-' else [int(v) for v in d['s'].split(',')]
                    if c.kind in ('stride', 'right'): want = [C.prod(es[k + 1:]) for k in range(len(es))]
                    elif c.kind == 'left': want = [C.prod(es[:k]) for k in range(len(es))]
                    else: want = None
                    if want is not None and C.prod([max(e, 1) for e in es]) <= C.hi(c.T) and got != want:
                        rep.violation(payload(c, kind='default-constructed-mapping-does-not-have-the-%s-strides-of-its-default-extents' % ('row-major' if c.kind != 'left' else 'column-major'), impl=xi, specified=want)); break
                continue
            if op == 'dfltoff':
                rep.cov['evaluations'] += 1
                if xi != xm: diffs.append(dict(op=op, arg=arg, impl=xi, model=xm))
                continue
            if op not in ('off', 'stride', 'strides', 'stridesarr', 'cvs'): continue
            rep.cov['evaluations'] += 1
            if xi != xm: diffs.append(dict(op=op, arg=arg, impl=xi, model=xm))
            if c.adm and len(c.ext) >= 1 and xi not in ('ok 0', 'no-op'): rep.nontrivial(c.base() + ' ' + op + ' ' + str(arg))
            if not c.adm: continue
            # oracle: the specified formula, computed from the property statement
            if op == 'cvs':
                if xi != 'no-op' and F.vals(xi) != sp: rep.violation(payload(c, kind='strides-of-the-mapping-converted-to-another-extents-type-differ-from-S_r', impl=xi, specified=sp)); break
                continue
            if op in ('strides', 'stridesarr') and xi != 'no-op':
                got = F.vals(xi)
                if got != sp: rep.violation(payload(c, kind='strides-differ-from-specified-S_r', op=op, impl=xi, specified=sp)); break
            elif op == 'stride':
                if F.val(xi) != sp[int(arg)]: rep.violation(payload(c, kind='stride(r)-differs-from-specified-S_r', r=int(arg), impl=xi, specified=sp[int(arg)])); break
            elif op == 'off':
                idx = [] if arg == '-' else [int(v) for v in arg.split(',')]
                want = sum(i * s for i, s in zip(idx, sp))
                if F.val(xi) != want: rep.violation(payload(c, kind='offset-differs-from-sum-i_r*S_r', idx=idx, impl=xi, specified=want, S=sp)); break
        rep.cov['traces_validated_against_impl'] += 1
        if diffs:
            rep.broke(payload(c, correspondence='map family, exact transcript (off / stride / strides)', adm=c.adm, differing=diffs[:6]))
        elif c.adm and len(c.ext) >= 2:
            rep.sample(dict(line=c.base(), strides=c.out('strides'), first=[[a, x] for (o, a), x in zip(c.ops, c.impl) if o == 'off'][:4]))

# ------------------------------------------------------------------------------------------- C05
def dflt_C05(c, rep):
    """required_span_size() of a default-constructed mapping (default extents: dynamic positions 0)"""
    xi, xm = c.out('dflt'), c.out('dflt', side='model')
    if xi is None or xi == 'no-op': return
    rep.cov['evaluations'] += 1; rep.cov['traces_validated_against_impl'] += 1
    if not xi.startswith('ok e='):
        if xi != xm: rep.broke(payload(c, correspondence='map family, default construction', impl=xi, model=xm))
        return
    d = dict(x.split('=') for x in xi[3:].split()); dm = dict(x.split('=') for x in xm[3:].split()) if xm.startswith('ok e=') else {}
    if d.get('span') != dm.get('span'): rep.broke(payload(c, correspondence='map family, required_span_size of the default-constructed mapping', impl=xi, model=xm))
    es = [] if d['e'] == '-' else [int(v) for v in d['e'].split(',')]; st = [] if d['s'] == '-' else [int(v) for v in d['s'].split(',')]
    span = int(d['span']); r = len(es); empty = any(e == 0 for e in es)
    kind, t, pat, sp = c.inst
    if kind in ('left', 'right', 'stride'):
        if C.prod([max(e, 1) for e in es]) > C.hi(t): return
        want = 0 if empty else C.prod(es)
        if span != want: rep.violation(payload(c, kind='required_span_size-of-default-constructed-mapping-not-exact', impl=xi, specified=want))
    else:
        if r >= 2:
            e = es[0] if kind == 'lpad' else es[-1]
            ps = e if sp in (None, 'D') else F.least_multiple(sp, e)
            rest = es[1:] if kind == 'lpad' else es[:-1]
            if max(ps, 1) * C.prod([max(x, 1) for x in rest]) > C.hi(t): return
            hi_ = ps * C.prod(rest); lo_ = 1 + sum((x - 1) * y for x, y in zip(es, st))
        else: hi_ = lo_ = C.prod(es)
        if empty: hi_ = lo_ = 0
        if not (lo_ <= span <= hi_): rep.violation(payload(c, kind='padded-required_span_size-of-default-constructed-mapping-out-of-bounds', impl=xi, at_least=lo_, at_most=hi_))
    if r >= 1 and not empty: rep.nontrivial(c.base() + ' dflt')

def analyse_C05(cases, rep):
    for c in cases:
        if c.stream == 'default-ctor': dflt_C05(c, rep); continue
        xi, xm = c.out('span'), c.out('span', side='model')
        if xi is None: continue
        rep.cov['evaluations'] += 1; rep.cov['traces_validated_against_impl'] += 1
        if xi != xm: rep.broke(payload(c, correspondence='map family, required_span_size', adm=c.adm, impl=xi, model=xm))
        if not c.adm: continue
        span = F.val(xi); r = len(c.ext); empty = any(e == 0 for e in c.ext)
        if r >= 1 and not empty: rep.nontrivial(c.base())
        if span is None:
            rep.violation(payload(c, kind='required_span_size-undefined-on-admissible-input', impl=xi)); continue
        offs = [o for _, o in F.offsets_of(c)]
        mx = max(offs) if offs and all(o is not None for o in offs) else None
        if c.kind in ('left', 'right', 'stride'):
            if empty: want = 0
            elif r == 0: want = 1
            elif c.kind == 'stride': want = 1 + sum((e - 1) * s for e, s in zip(c.ext, c.str))
            else: want = C.prod(c.ext)
            if span != want: rep.violation(payload(c, kind='required_span_size-not-exact', impl=span, specified=want)); continue
            if c.idx_complete and mx is not None and span != mx + 1:
                rep.violation(payload(c, kind='required_span_size-not-max-offset-plus-one', impl=span, max_offset=mx)); continue
        else:
            if empty: lo_ = hi_ = 0
            elif r == 0: lo_ = hi_ = 1
            else:
                ps = F.spec_padded_stride(c)
                hi_ = C.prod(c.ext) if r == 1 else ps * C.prod(c.ext[1:] if c.kind == 'lpad' else c.ext[:-1])
                lo_ = (mx + 1) if (c.idx_complete and mx is not None) else (1 if r else 1)
                # the maximal index is always among the offsets evaluated for non-empty cases
                last = [e - 1 for e in c.ext]
                for i, o in F.offsets_of(c):
                    if i == last and o is not None: lo_ = max(lo_, o + 1)
            if not (lo_ <= span <= hi_):
                rep.violation(payload(c, kind='padded-required_span_size-out-of-bounds', impl=span, at_least=lo_, at_most=hi_)); continue
        rep.sample(dict(line=c.base(), span=span, max_offset=mx))

# ------------------------------------------------------------------------------------------- C07
def analyse_C07(cases, rep):
    branch = {}
    for c in cases:
        xi, xm = c.out('flags'), c.out('flags', side='model')
        if xi is None: continue
        rep.cov['evaluations'] += 1; rep.cov['traces_validated_against_impl'] += 1
        if xi != xm: rep.broke(payload(c, correspondence='map family, flags (is_unique,is_exhaustive,is_strided,always x3)', adm=c.adm, impl=xi, model=xm))
        if not c.adm: continue
        fl = F.vals(xi)
        if fl is None: rep.violation(payload(c, kind='flags-undefined-on-admissible-input', impl=xi)); continue
        u, e, s, au, ae, as_ = fl
        r = len(c.ext); empty = any(x == 0 for x in c.ext)
        if r >= 1: rep.nontrivial(c.base())
        if c.kind == 'stride':
            b = 'rank0' if r == 0 else ('span0-rank1' if empty and r == 1 else ('span0' if empty else 'nonempty'))
            branch[b + ('/exh' if e else '/nonexh')] = branch.get(b + ('/exh' if e else '/nonexh'), 0) + 1
        if (au and not u) or (ae and not e) or (as_ and not s):
            rep.violation(payload(c, kind='is_always_X-true-but-is_X-false', flags=fl)); continue
        span = F.val(c.out('span')); offs = F.offsets_of(c)
        if span is None or any(o is None for _, o in offs): continue
        strides = F.vals(c.out('strides'))
        if s and strides is not None:
            badi = [(i, o) for i, o in offs if o != sum(a * b for a, b in zip(i, strides))]
            if badi: rep.violation(payload(c, kind='is_strided-true-but-offset-not-sum-i*stride', idx=badi[0][0], offset=badi[0][1], strides=strides)); continue
        if u and len(set(o for _, o in offs)) != len(offs):
            rep.violation(payload(c, kind='is_unique-true-but-not-injective', offsets=[o for _, o in offs][:32])); continue
        if c.idx_complete or empty:
            image = set(o for _, o in offs) if not empty else set()
            covers = len(image) == span and all(0 <= o < span for o in image)
            if e and not covers:
                rep.violation(payload(c, kind='is_exhaustive-true-but-span-not-covered', span=span, image=sorted(image)[:64])); continue
            if not empty and covers and not e:
                rep.violation(payload(c, kind='is_exhaustive-false-but-mapping-covers-its-span', span=span)); continue
        rep.sample(dict(line=c.base(), flags=xi, span=span))
    rep.notes['layout_stride_is_exhaustive_branches'] = branch

def forwarders_C07(rep, seed, tier, cfg):
    """"mdspan and mdarray report exactly their mapping's answers": the view and mdarray servers print `fw=1` when every
    is_X / is_always_X of the wrapper equals the mapping's, and the flags printed by mdspan are compared with the model's"""
    from . import viewfam as V, checks_c12 as A12
    import random
    try: exe, secs, cached = V.build(cfg)
    except C.BuildError as e:
        rep.broke(dict(correspondence='view op server build (%s)' % cfg, why=str(e), log=e.log[-2000:])); return
    cases = V.gen_cases(seed, 'quick', {'C13'})
    V.run_cases(cases, exe); n = 0
    for c in cases:
        if c.model == 'ub' or c.impl == 'ub': continue
        for si, sm in zip(c.impl.split(' | '), c.model.split(' | ')):
            if not si.startswith('h='): continue
            n += 1; rep.cov['evaluations'] += 1
            di = dict(x.split('=', 1) for x in si.split()); dm = dict(x.split('=', 1) for x in sm.split()) if sm.startswith('h=') else {}
            if di.get('fw') != '1':
                rep.violation(dict(kind='mdspan-flag-or-observer-forwarder-differs-from-its-mapping', line=c.line()[:400], impl=si, config=cfg)); break
            if di.get('fl') != dm.get('fl'):
                rep.broke(dict(correspondence='mdspan flags vs model', line=c.line()[:400], impl=si, model=sm, config=cfg)); break
    rep.notes['mdspan_forwarder_observations'] = n
    # mdarray
    try: exe, secs, cached = A12.build(cfg)
    except C.BuildError as e:
        rep.broke(dict(correspondence='mdarray op server build (%s)' % cfg, why=str(e), log=e.log[-2000:])); return
    rnd = random.Random(seed); lines = []
    for inst in A12.G.instances() + A12.G.fw_instances():
        kind, sp, t, pat, ck = inst
        es = [p if p is not None else rnd.choice([0, 1, 2, 3]) for p in pat]
        ss = F.chain_strides(rnd, es, (1, 1, 2)) if kind == 'stride' else None
        lines.append(A12.G.line(inst) + ' ext=%s' % C.fmt(es) + (' str=%s' % C.fmt(ss) if ss is not None else '') + ' seq=cm:0/ob:0')
    out = C.pipe(exe, lines); m = 0
    for l, xi in zip(lines, out):
        m += 1; rep.cov['evaluations'] += 1
        if ' fw=1' not in xi: rep.violation(dict(kind='mdarray-flag-forwarder-differs-from-its-mapping', line=l, impl=xi, config=cfg))
    rep.notes['mdarray_forwarder_observations'] = m

ANALYSE = {'C01': analyse_C01, 'C02': analyse_C02, 'C05': analyse_C05, 'C07': analyse_C07}
RULES = {
 'C01': 'five layouts x 8 index types x static/dynamic patterns: all extents in {0..3}^r (r<=3; thorough r<=4) with every multi-index, boundary lattice around the top of each index type, random rank<=6; admissibility decided by the Lean predicate Layout.admB; non-trivial = admissible, rank>=1, >=2 multi-indices; distinct by op-line prefix',
 'C02': 'same op stream; compared observables: operator(), stride(r), all strides, strides(); every line (admissible or not) is compared with the machine-layer model, admissible lines also with the specified S_r; non-trivial = admissible, rank>=1, result not 0',
 'C05': 'same op stream; compared observable: required_span_size(); non-trivial = admissible, rank>=1, non-empty index space',
 'C07': 'same op stream; compared observables: the six flags; oracle evaluates image/injectivity/affinity over the complete index space of the small cases; non-trivial = admissible rank>=1',
}

def check(prop, tier, seed, replay=None):
    rep = C.Report(prop, tier, seed)
    audit = C.proof_audit(prop)
    configs = QUICK_CONFIGS if tier == 'quick' else THOROUGH_CONFIGS
    rep.notes['configs'] = configs; rep.cov['rule'] = RULES[prop]
    streams = {}
    for cfg in configs:
        try:
            insts, exe, secs, cached = F.build_server(cfg)
        except C.BuildError as e:
            rep.broke(dict(correspondence='op server build (%s)' % cfg, why=str(e), log=e.log[-3000:])); continue
        rep.notes.setdefault('server_build_s', {})[cfg] = round(secs, 1)
        if replay and 'case' not in replay:      # a forwarder violation (mdspan / mdarray): re-run the forwarder comparison
            forwarders_C07(rep, seed, tier, cfg); break
        if replay:
            c = case_from_replay(replay, insts); cases = [c] if c else []
        else:
            cases = F.gen_cases(seed, tier, insts)
        n = F.run_cases(cases, exe)
        for c in cases: streams[c.stream] = streams.get(c.stream, 0) + 1
        rep.notes['op_lines_' + cfg] = n
        rep.notes['admissible_cases_' + cfg] = sum(1 for c in cases if c.adm)
        ANALYSE[prop](cases, rep)
        if prop == 'C07' and not replay and cfg == configs[0]: forwarders_C07(rep, seed, tier, cfg)
    rep.notes['streams'] = streams
    rep.cov['exhaustive'] = True
    rep.notes['exhaustive_scope'] = 'the exhaustive-small stream enumerates every multi-index of each generated small extents tuple; the extents tuples themselves are sampled for rank 3 in the quick tier'
    rep.assumptions = ['the Lean model mirrors the C++; checked on the generated op lines only', 'LP64, two\'s complement, GCC/Clang']
    return rep.finish(audit)
