#!/usr/bin/env python3
"""Independent confirmation of a seeded change: in a scratch worktree of /repo (removed afterwards)
 (1) the patch applies, (2) the unedited suite builds and passes with it, (3) the demonstration passes on the
 clean tree and fails with the patch (tried under several -std / compilers).  Prints a JSON summary.
usage: tools/validate_seed.py <dir with patch.diff and demo.cpp> ['<compiler> <flags>' ...]   (extra demo configurations, tried first)"""
import sys, os, subprocess, tempfile, shutil, json
def run(cmd, **kw): return subprocess.run(cmd, capture_output=True, text=True, **kw)
def main():
    src = os.path.abspath(sys.argv[1]); out = dict(dir=src)
    d = tempfile.mkdtemp(prefix='seedval', dir='/tmp'); wt = os.path.join(d, 'wt')
    try:
        run(['git', '-C', '/repo', 'worktree', 'add', '--detach', wt, 'HEAD'])
        extra = [tuple(x.split(' ', 1)) for x in sys.argv[2:]]
        cfgs = extra + [('g++', '-std=c++20'), ('g++', '-std=c++17'), ('g++', '-std=c++23'), ('clang++-14', '-std=c++20'), ('g++', '-std=c++17 -O2 -DNDEBUG')]
        if os.environ.get('SEED_ONLY_EXTRA'): cfgs = extra      # a demonstration written for particular language modes only
        def demo(tag):
            res = {}
            for comp, flags in cfgs:
                exe = os.path.join(d, 'demo_' + tag)
                c = run([comp] + flags.split() + ['-w', '-I' + os.path.join(wt, 'include'), os.path.join(src, 'demo.cpp'), '-o', exe])
                if c.returncode != 0: res[comp + ' ' + flags] = 'compile-error'; continue
                r = run(['timeout', '120', exe]); res[comp + ' ' + flags] = r.returncode
            return res
        out['demo_clean'] = demo('clean')
        a = run(['git', '-C', wt, 'apply', os.path.join(src, 'patch.diff')]); out['applies'] = a.returncode == 0
        if not out['applies']: out['error'] = a.stderr[-500:]; print(json.dumps(out, indent=1)); return
        out['demo_patched'] = demo('patched')
        b = os.path.join(d, 'b')
        c1 = run(['cmake', '-G', 'Ninja', '-S', wt, '-B', b, '-DCMAKE_BUILD_TYPE=RelWithDebInfo', '-DMDSPAN_ENABLE_TESTS=ON', '-DMDSPAN_USE_SYSTEM_GTEST=ON', '-DCMAKE_CXX_FLAGS=-Wno-error', '-DGTest_DIR=/root/miniconda/lib/cmake/GTest'])
        c2 = run(['cmake', '--build', b, '-j16'])
        c3 = run(['ctest', '--test-dir', b, '-j8', '--timeout', '900'])
        tail = [l for l in c3.stdout.split('\n') if 'tests passed' in l or 'tests failed' in l]
        out['suite'] = dict(build_ok=c2.returncode == 0, ctest_rc=c3.returncode, summary=tail[-1] if tail else c2.stdout[-300:])
        clean_ok = all(v == 0 for v in out['demo_clean'].values() if v != 'compile-error') and any(v == 0 for v in out['demo_clean'].values())
        fails = any(v not in (0, 'compile-error') for v in out['demo_patched'].values()) or (any(v == 'compile-error' for v in out['demo_patched'].values()) and not any(v == 'compile-error' for v in out['demo_clean'].values()))
        out['confirmed'] = bool(out['applies'] and out['suite']['build_ok'] and out['suite']['ctest_rc'] == 0 and clean_ok and fails)
    finally:
        run(['git', '-C', '/repo', 'worktree', 'remove', '--force', wt]); shutil.rmtree(d, ignore_errors=True)
    print(json.dumps(out, indent=1))
main()
