import Driver.Util
import MdspanVerif.Model.LayoutI
import MdspanVerif.Model.View
import MdspanVerif.Model.ExtentsM
import MdspanVerif.Model.Access
/-! `view` op family: mdspan construction paths, pool operations, observers, access forms. -/
open Mdspan
namespace Drv

structure VCtx where
  T : ITy
  T2 : ITy
  kind : String
  pat : Pattern
  sp : Option Nat
  acc : String          -- def | st | px | eh
  es : List Int
  ss : List Int
  pv : Option Int
  es2 : List Int
  ss2 : List Int
  pv2 : Option Int

abbrev VView := MdsView Int LayoutI Int

/-- the mapping object built from an extents value (and, for padded layouts, an optional padding) -/
def VCtx.logs (c : VCtx) : Bool := c.acc == "st" || c.acc == "px"
def VCtx.hasId (c : VCtx) : Bool := c.acc == "st" || c.acc == "px"
/-- the data handle as an offset from the arena base; an empty handle type has one value -/
def VCtx.handle (c : VCtx) (off : Int) : Int := if c.acc == "eh" then 0 else off

/-- the user layout of the harness (`LogLayout`): offset `1 + 2 * row-major offset`, strides doubled -/
def ulogStrides (T : ITy) (es : List Int) : M (List Int) := do
  let st ← (List.range es.length).mapM (fun r => rightStrideM T es r)
  pure (st.map (fun x => T.wrap (2 * x)))

def mkMapI (c : VCtx) (es : List Int) (withStr : Bool) (pv : Option Int) : M (Option LayoutI) :=
  match c.kind with
  | "ulog" => do let st ← ulogStrides c.T es; pure (some (.stride es st))
  | "urev" => pure (some (.right es))
  | "ubc" => pure (some (.stride es (es.map (fun _ => 0))))      -- broadcast: all strides 0, span 1 (0 if empty)
  | "left" => pure (some (.left es))
  | "right" => pure (some (.right es))
  | "stride" => pure (if withStr then some (.stride es c.ss) else none)
  | "lpad" => do
      let ps ← padStrideCtorM c.T c.sp (c.pat.headD none) pv es.length (es.headD 0)
      pure (some (.lpad es ps))
  | "rpad" => do
      let ps ← padStrideCtorM c.T c.sp (c.pat.getLastD none) pv es.length (es.getLastD 0)
      pure (some (.rpad es ps))
  | _ => pure none

def extOf (x : Ext) : List Int := (List.range x.rank).map x.extent

def alwaysExh (c : VCtx) (pat : Pattern) (rank : Nat) : Bool :=
  match c.kind with
  | "stride" => false
  | "ulog" => false
  | "urev" => true
  | "lpad" => padIsAlwaysExh c.sp (pat.headD none) rank
  | "rpad" => padIsAlwaysExh c.sp (pat.getLastD none) rank
  | _ => true

def obsV (c : VCtx) (T : ITy) (pat : Pattern) (v : VView) : String :=
  let r : M String := do
    let st ← v.m.stridesM T
    let ex ← (if c.kind == "ulog" || c.kind == "ubc" then pure false else v.m.exhM T)
    let es := v.m.extents
    pure (s!"h={v.h} e={fmtL es} s={fmtL st} acc={v.a} sz={mdsSizeM T es} emp={fmtB (mdsEmptyM es)} " ++
          (if c.kind == "urev" then "fl=110110" else if c.kind == "ubc" then "fl=011001" else s!"fl=1{fmtB ex}11{fmtB (alwaysExh c pat es.length)}1") ++ s!" rk={es.length},{rankDyn pat} fw=1")
  match r with
  | .ok s => s
  | .error e => ubStr e

structure VState where
  pool : List (Option VView)
  pool2 : List (Option VView)
  pool3 : List (Option VView)
  mem : List (Int × Int)          -- cells written: (address, value), latest first
  out : List String

def getSlot (p : List (Option VView)) (i : Nat) : Option VView := Pool.at p i

def vstep (c : VCtx) (s : VState) (cmd : String) : M VState := do
  let a := cmd.splitOn ":"
  let n (k : Nat) : Int := ((a.getD k "0").toInt?).getD 0
  let nn (k : Nat) : Nat := (n k).toNat
  let l (k : Nat) : List Int := parseList (a.getD k "-")
  let emit (x : String) : VState := { s with out := s.out ++ [x] }
  let accId : Int := if c.hasId then 0 else -1
  let put (i : Nat) (v : Option VView) : VState := { s with pool := Pool.put s.pool i v }
  match a.headD "" with
  | "pr" | "un" => pure s
  | "cpd" | "cpa" | "cad" | "caa" | "csd" | "csa" =>
    if c.kind == "stride" then pure (emit "no-ctor") else
    let cmdS := a.headD ""
    let dyn := cmdS.endsWith "d"
    let vals := l 3
    if vals.length != (if dyn then rankDyn c.pat else c.pat.length) then pure (emit "bad-args") else
    -- argument types used by the harness: index_type for the dynamic-only forms, long / int / unsigned for the all-values forms
    let S : ITy := if dyn then c.T else (if cmdS.startsWith "cp" then .i64 else if cmdS.startsWith "ca" then .i32 else .u32)
    let x := Ext.ctorM c.T S c.pat vals
    let m ← mkMapI c (extOf x) false none
    match m with
    | some m => pure (put (nn 1) (some ⟨c.handle (n 2), m, accId⟩))
    | none => pure (emit "no-ctor")
  | "cex" =>
    if c.kind == "stride" then pure (emit "no-ctor") else
    let m ← mkMapI c c.es false none
    match m with
    | some m => pure (put (nn 1) (some ⟨c.handle (n 2), m, accId⟩))
    | none => pure (emit "no-ctor")
  | "cmp" =>
    let m ← mkMapI c c.es true c.pv
    match m with
    | some m => pure (put (nn 1) (some ⟨c.handle (n 2), m, accId⟩))
    | none => pure (emit "no-ctor")
  | "cma" =>
    let m ← mkMapI c c.es true c.pv
    match m with
    | some m => pure (put (nn 1) (some ⟨c.handle (n 2), m, if c.hasId then n 3 else -1⟩))
    | none => pure (emit "no-ctor")
  | "cm2" =>
    let c2 : VCtx := { c with es := c.es2, ss := c.ss2, pv := c.pv2 }
    let m ← mkMapI c2 c2.es true c2.pv
    match m with
    | some m => pure (put (nn 1) (some ⟨c.handle (n 2), m, if c.hasId then n 3 else -1⟩))
    | none => pure (emit "no-ctor")
  | "c3" =>
    match getSlot s.pool (nn 2) with
    | some v => pure { s with pool3 := Pool.put s.pool3 (nn 1) (some ⟨v.h, v.m.cast c.T, v.a⟩) }
    | none => pure { s with pool3 := Pool.put s.pool3 (nn 1) none }
  | "c4" =>
    -- only `default_accessor<int>` converts into `StAcc<const int>` (its converting constructor sets id 77)
    if c.acc != "def" then pure (emit "no-ctor") else
    match getSlot s.pool (nn 2) with
    | some v => pure (emit ("c4 " ++ obsV c c.T2 (c.pat.map (fun _ => none)) ⟨v.h, v.m.cast c.T2, 77⟩ ++ " asg=77"))
    | none => pure (emit "none")
  | "o3" =>
    let twin : Pattern := (List.range c.pat.length).map (fun k => match c.pat.getD k none with | some v => some v | none => some (k + 2))
    pure (emit (match getSlot s.pool3 (nn 1) with | some v => obsV c c.T twin v | none => "none"))
  | "cp" => pure { s with pool := Pool.step s.pool (.copy (nn 1) (nn 2)) }
  | "mv" => pure { s with pool := Pool.step s.pool (.move (nn 1) (nn 2)) }
  | "as" =>
    if (getSlot s.pool (nn 1)).isSome && (getSlot s.pool (nn 2)).isSome then pure { s with pool := Pool.step s.pool (.assign (nn 1) (nn 2)) } else pure (emit "skip")
  | "ma" =>
    if (getSlot s.pool (nn 1)).isSome && (getSlot s.pool (nn 2)).isSome then pure { s with pool := Pool.step s.pool (.moveAssign (nn 1) (nn 2)) } else pure (emit "skip")
  | "sw" =>
    if (getSlot s.pool (nn 1)).isSome && (getSlot s.pool (nn 2)).isSome then pure { s with pool := Pool.step s.pool (.swap (nn 1) (nn 2)) } else pure (emit "skip")
  | "cv" =>
    -- converting constructor: handle, mapping converted to the other index type, accessor converted
    match getSlot s.pool (nn 2) with
    | some v => pure { s with pool2 := Pool.put s.pool2 (nn 1) (some ⟨v.h, v.m.cast c.T2, v.a⟩) }
    | none => pure { s with pool2 := Pool.put s.pool2 (nn 1) none }
  | "ob" => pure (emit (match getSlot s.pool (nn 1) with | some v => obsV c c.T c.pat v | none => "none"))
  | "o2" => pure (emit (match getSlot s.pool2 (nn 1) with | some v => obsV c c.T2 (c.pat.map (fun _ => none)) v | none => "none"))
  | "at" =>
    match getSlot s.pool (nn 1) with
    | none => pure (emit "none")
    | some v =>
      match (if a.getD 2 "" == "br1" && v.m.extents.length != 1 then none else parseTy (a.getD 3 "")) with
      | none => pure (emit "no-form")
      | some S =>
        let idx := mappingArgs c.T S .pack (l 4)
        let off0 ← accessOffset c.T S .pack v.m (l 4)      -- `Model/Access.lean`; C03_forms_agree: the same for every spelling
        let spn ← v.m.spanM c.T
        let off := if c.kind == "ulog" then c.T.wrap (1 + off0) else if c.kind == "urev" then c.T.wrap (spn - 1 - off0) else off0
        let shift : Int := if c.acc == "sh" then 1000 else 0
        let base := s!"a={v.h + off + shift}" ++ (if c.kind == "ulog" then s!" ix={fmtL idx}" else "")
        -- `sf`: access() returns a reference into the accessor stored in the view
        pure (emit (if c.acc == "sf" then "a=self" else if c.logs then base ++ s!" log={v.h},{ITy.u64.wrap off} n=1" else base))
  | "wr" =>
    match getSlot s.pool (nn 1) with
    | none => pure (emit "none")
    | some v =>
      let idx := (l 3).map (fun x => c.T.wrap (ITy.i64.wrap x))
      let off0 ← v.m.offM c.T idx
      let spn ← v.m.spanM c.T
      let off := if c.kind == "ulog" then c.T.wrap (1 + off0) else if c.kind == "urev" then c.T.wrap (spn - 1 - off0) else off0
      pure { s with mem := (v.h + off + (if c.acc == "sh" then 1000 else 0), n 2) :: s.mem }
  | "lg" => pure (emit "calls=0")      -- construction, copy, move, assignment, swap and conversion call no accessor member
  | "tx" =>
    -- a throwing accessor: the access evaluates mapping(idx...) and calls accessor.access, whose exception (carrying the offset) propagates
    match getSlot s.pool (nn 1) with
    | none => pure (emit "none")
    | some v =>
      if c.acc != "th" then pure (emit "no-op") else
      match (if a.getD 2 "" == "br1" && v.m.extents.length != 1 then none else parseTy (a.getD 3 "")) with
      | none => pure (emit "no-form")
      | some S => do
        let off0 ← accessOffset c.T S .pack v.m (l 4)
        pure (emit s!"threw={ITy.u64.wrap off0}")
  | "df" =>
    -- cells whose content differs from the initial pattern 1000000+i, ascending by address
    let addrs := (s.mem.map (·.1)).eraseDups
    let cur (ad : Int) : Int := ((s.mem.find? (fun p => p.1 == ad)).map (·.2)).getD 0
    let changed := (addrs.filter (fun ad => cur ad != 1000000 + ad)).toArray.qsort (· < ·) |>.toList
    pure (emit ("df=" ++ (if changed.isEmpty then "-" else ",".intercalate (changed.map (fun ad => s!"{ad}:{cur ad}")))))
  | _ => pure (emit "bad-cmd")

def viewLine (kind ty : String) (rest : List String) : String :=
  match parseTy ty with
  | none => "bad-op"
  | some T =>
    let pat := parsePat ((getKey rest "pat").getD "-")
    let c : VCtx := { T := T, T2 := .i64, kind := kind, pat := pat, sp := parseOptNat ((getKey rest "sp").getD "D"),
                      acc := (getKey rest "k").getD "def",
                      es := wrapL T (parseList ((getKey rest "ext").getD "-")), ss := wrapL T (parseList ((getKey rest "str").getD "-")),
                      pv := (getKey rest "pv").bind String.toInt?,
                      es2 := wrapL T (parseList ((getKey rest "ext2").getD ((getKey rest "ext").getD "-"))),
                      ss2 := wrapL T (parseList ((getKey rest "str2").getD ((getKey rest "str").getD "-"))),
                      pv2 := (getKey rest "pv2").bind String.toInt? }
    let cmds := ((getKey rest "seq").getD "").splitOn "/"
    let init : VState := { pool := List.replicate 4 none, pool2 := List.replicate 2 none, pool3 := List.replicate 2 none, mem := [], out := [] }
    match cmds.foldlM (vstep c) init with
    | .ok s => if s.out.isEmpty then "ok" else " | ".intercalate s.out
    | .error e => ubStr e

end Drv

namespace Drv
/-- `v14 <kind> <T> pat= ext= [str=] obs [idx]`: the C++14 server's mdspan observation (handle offset 5) -/
def v14Line (kind ty : String) (rest : List String) : String :=
  match parseTy ty with
  | none => "bad-op"
  | some T =>
    let es := wrapL T (parseList ((getKey rest "ext").getD "-"))
    let ss := wrapL T (parseList ((getKey rest "str").getD "-"))
    let m : LayoutI := match kind with
      | "left" => .left es | "right" => .right es | _ => .stride es ss
    let arg := match plainToks rest with
      | [_, a] => some (wrapL T (parseList a))
      | _ => none
    let r : M String := do
      let st ← m.stridesM T
      let base := s!"sz={mdsSizeM T es} emp={fmtB (mdsEmptyM es)} e={fmtL es} s={fmtL st} rk={es.length},{es.length}"
      match arg, es.isEmpty with
      | some ix, _ => do let off ← m.offM T ix; pure (base ++ s!" a={5 + off}")
      | none, true => do let off ← m.offM T []; pure (base ++ s!" a={5 + off}")
      | none, false => pure base
    match r with
    | .ok s => s
    | .error e => ubStr e
end Drv
