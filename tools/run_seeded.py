#!/usr/bin/env python3
"""Applies every seeded change under seeded/<id>/patch.diff to /repo (one at a time, always
reverted), runs the quick check of the property it targets (plus any listed in meta.json
'also_run'), and prints / writes the detection table (seeded/RESULTS.md).
usage: tools/run_seeded.py [id ...]"""
import os, sys, json, subprocess, glob, time
HERE = os.path.dirname(os.path.dirname(os.path.abspath(__file__)))
def run(cmd, **kw): return subprocess.run(cmd, capture_output=True, text=True, **kw)
def main():
    ids = sys.argv[1:] or sorted(os.path.basename(os.path.dirname(p)) for p in glob.glob(os.path.join(HERE, 'seeded', '*', 'patch.diff')))
    rows = []
    for i in ids:
        d = os.path.join(HERE, 'seeded', i); meta = json.load(open(os.path.join(d, 'meta.json')))
        props = [meta['property']] + meta.get('also_run', [])
        st = run(['git', '-C', '/repo', 'status', '--porcelain', '--untracked-files=no']).stdout.strip()
        if st: print('refusing: /repo has local modifications'); return 2
        a = run(['git', '-C', '/repo', 'apply', os.path.join(d, 'patch.diff')])
        if a.returncode != 0: rows.append((i, meta['property'], 'PATCH DOES NOT APPLY', '')); continue
        try:
            res = []
            for p in props:
                t0 = time.time()
                r = run(['timeout', '3000', 'python3', os.path.join(HERE, 'check.py'), p, '--tier', 'quick'], cwd=HERE, env=dict(os.environ, VERIF_EVIDENCE_DIR=os.path.join(HERE, '.cache', 'seeded-evidence')))
                viol = [l for l in r.stdout.split('\n') if l.startswith('VIOLATION')]
                kind = ''
                if viol:
                    rp = viol[0].split('replay=')[1].split()[0]
                    try:
                        rj = json.load(open(rp)); kind = rj.get('kind') or rj.get('correspondence') or rj.get('record', '')
                    except Exception: pass
                    res.append('%s: REPORTED%s (%s)' % (p, ' [no-failing-input-found]' if 'no-failing-input-found' in viol[0] else '', kind[:90]))
                else: res.append('%s: quiet (rc=%d)' % (p, r.returncode))
        finally:
            run(['git', '-C', '/repo', 'checkout', '--', '.'])
        rows.append((i, meta['property'], '; '.join(res), meta.get('needs', '')))
        print(i, '|', '; '.join(res), flush=True)
    jp = os.path.join(HERE, 'seeded', 'RESULTS.json')
    allr = json.load(open(jp)) if os.path.exists(jp) else {}
    for r in rows: allr[r[0]] = dict(property=r[1], quick=r[2], needs=str(r[3]))
    json.dump(allr, open(jp, 'w'), indent=1, sort_keys=True)
    with open(os.path.join(HERE, 'seeded', 'RESULTS.md'), 'w') as f:
        f.write('Detection table of the seeded changes (written by tools/run_seeded.py; quick tier, seed 1).\n\n| seeded change | property | quick checks | needs to manifest (from the seeding agent\'s notes) |\n|---|---|---|---|\n')
        for k in sorted(allr): f.write('| %s | %s | %s | %s |\n' % (k, allr[k]['property'], allr[k]['quick'], allr[k]['needs'].replace('|', '/').replace('\n', ' ')[:260]))
    return 0
sys.exit(main())
