import MdspanVerif.Props.C14f
import MdspanVerif.Model.SubM
/-!
# C14 — submdspan_extents and the strides of submdspan_mapping
-/
namespace Mdspan

/-- a slice whose members are `index_type` values -/
def Slice.toI : Slice → SliceI
  | .idx i => .idx i
  | .range b e => .range b e
  | .full => .full
  | .strided o x s => .strided o x s

/-- all members of the slice are representable in `T` -/
def Slice.Rep (T : ITy) : Slice → Prop
  | .idx i => (i : Int) ≤ T.hi
  | .range b e => (b : Int) ≤ T.hi ∧ (e : Int) ≤ T.hi
  | .full => True
  | .strided o x s => (o : Int) ≤ T.hi ∧ (x : Int) ≤ T.hi ∧ (s : Int) ≤ T.hi

def toSI (sls : List Slice) : List SliceI := sls.map Slice.toI
@[simp] theorem toSI_nil : toSI [] = [] := rfl
@[simp] theorem toSI_cons (a : Slice) (l : List Slice) : toSI (a :: l) = a.toI :: toSI l := rfl

theorem ITy.common_i32_left (t : ITy) : ITy.common .i32 t = t.promote := by cases t <;> rfl
theorem ITy.common_i32_promote (t : ITy) : ITy.common .i32 t.promote = t.promote := by cases t <;> rfl
theorem ITy.one_le_hi (t : ITy) : (1 : Int) ≤ t.hi := by cases t <;> decide

/-- same-type subtraction `a - b` with `b ≤ a` -/
theorem subTT_ok (T : ITy) (a b : Nat) (hba : b ≤ a) (ha : (a : Int) ≤ T.hi) :
    V.sub ⟨T, a⟩ ⟨T, b⟩ = .ok ⟨T.promote, ((a - b : Nat) : Int)⟩ := by
  have hp := T.hi_le_promote
  have hcast : ((a - b : Nat) : Int) = (a : Int) - b := by omega
  have := V.arith_ok (· - ·) ⟨T, a⟩ ⟨T, b⟩ (Int.natCast_nonneg _)
    (by rw [ITy.common_self]; show (a : Int) ≤ T.promote.hi; omega) (Int.natCast_nonneg _)
    (by rw [ITy.common_self]; show (b : Int) ≤ T.promote.hi; omega)
    (by show 0 ≤ (a : Int) - b; omega)
    (by rw [ITy.common_self]; show (a : Int) - b ≤ T.promote.hi; omega)
  rw [hcast]
  simpa only [V.sub, ITy.common_self] using this

/-- same-type division by a positive value -/
theorem divT_ok (T : ITy) (o a : Nat) (hapos : 0 < a) (ha : (a : Int) ≤ T.hi) (ho : (o : Int) ≤ T.hi) :
    V.div ⟨T, o⟩ ⟨T, a⟩ = .ok ⟨T.promote, ((o / a : Nat) : Int)⟩ := by
  have hp := T.hi_le_promote
  have hl := T.promote_lo_le
  have haI : (a : Int) ≠ 0 := by omega
  unfold V.div
  simp only [ITy.common_self]
  rw [ITy.wrap_id _ o (Int.natCast_nonneg _) (by omega), ITy.wrap_id _ a (Int.natCast_nonneg _) (by omega)]
  simp only [haI, if_false]
  have hdiv : Int.tdiv (o : Int) (a : Int) = ((o / a : Nat) : Int) := by
    rw [Int.tdiv_eq_ediv_of_nonneg (Int.natCast_nonneg _)]; simp
  have hle : ((o / a : Nat) : Int) ≤ T.hi := natCast_le_of_le (Nat.div_le_self _ _) ho
  rw [hdiv]
  split
  · rw [if_pos ⟨by have := Int.natCast_nonneg (o / a); omega, by omega⟩]; rfl
  · rw [ITy.wrap_id _ _ (Int.natCast_nonneg _) (by omega)]; rfl

/-- `1 + q` with an `int` literal on the left -/
theorem addIP_ok (T : ITy) (q : Nat) (h : ((1 + q : Nat) : Int) ≤ T.hi) :
    V.add ⟨.i32, 1⟩ ⟨T.promote, q⟩ = .ok ⟨T.promote, ((1 + q : Nat) : Int)⟩ := by
  have hp := T.hi_le_promote
  have h1 := T.promote.one_le_hi
  have hcast : ((1 + q : Nat) : Int) = 1 + (q : Int) := by omega
  have := V.arith_ok (· + ·) ⟨.i32, 1⟩ ⟨T.promote, q⟩ (by decide)
    (by rw [ITy.common_i32_promote]; exact h1) (Int.natCast_nonneg _)
    (by rw [ITy.common_i32_promote]; show (q : Int) ≤ T.promote.hi; omega)
    (by show 0 ≤ 1 + (q : Int); omega)
    (by rw [ITy.common_i32_promote]; show 1 + (q : Int) ≤ T.promote.hi; omega)
  rw [hcast]
  simpa only [V.add, ITy.common_i32_promote] using this

theorem V_lt_ok (T : ITy) (a b : Nat) (ha : (a : Int) ≤ T.hi) (hb : (b : Int) ≤ T.hi) :
    V.lt ⟨T, a⟩ ⟨T, b⟩ = decide (a < b) := by
  have hp := T.hi_le_promote
  unfold V.lt
  simp only [ITy.common_self]
  rw [ITy.wrap_id _ a (Int.natCast_nonneg _) (by omega), ITy.wrap_id _ b (Int.natCast_nonneg _) (by omega)]
  rw [Bool.eq_iff_iff]; simp only [decide_eq_true_eq]; omega

theorem V_lt0_ok (T : ITy) (b : Nat) (hb : (b : Int) ≤ T.hi) :
    V.lt ⟨.i32, 0⟩ ⟨T, b⟩ = decide (0 < b) := by
  have hp := T.hi_le_promote
  unfold V.lt
  simp only [ITy.common_i32_left]
  rw [ITy.wrap_id _ 0 (by decide) T.promote.hi_nonneg, ITy.wrap_id _ b (Int.natCast_nonneg _) (by omega)]
  rw [Bool.eq_iff_iff]; simp only [decide_eq_true_eq]; omega

/-! ### submdspan_extents -/

/-- **C14, one extent of `submdspan_extents`** -/
theorem C14_sub_extent (T : ITy) (e : Nat) (sl : Slice) (he : (e : Int) ≤ T.hi)
    (hv : sl.Valid e) (hr : sl.Rep T) :
    subExtentM T e sl.toI = .ok ((sl.ext e).map Int.ofNat) := by
  cases sl with
  | idx i => rfl
  | range b e' =>
    simp only [Slice.Valid] at hv
    simp only [Slice.toI, subExtentM, Slice.ext]
    rw [subTT_ok T e' b hv.1 hr.2]
    simp only [bind, Except.bind, pure, Except.pure]
    rw [narrow_id T _ _ (natCast_le_of_le (Nat.sub_le _ _) hr.2)]; rfl
  | full =>
    simp only [Slice.toI, subExtentM, Slice.ext]
    have := subTT_ok T e 0 (Nat.zero_le _) he
    rw [Nat.sub_zero] at this
    show (do let d ← V.sub ⟨T, e⟩ ⟨T, ((0 : Nat) : Int)⟩; pure (some (narrow T d)) : M (Option Int)) = _
    rw [this]
    simp only [bind, Except.bind, pure, Except.pure]
    rw [narrow_id T _ _ he]; rfl
  | strided o x s =>
    simp only [Slice.Valid] at hv
    obtain ⟨ho, hx, hs⟩ := hr
    simp only [Slice.toI, subExtentM, Slice.ext]
    rw [V_lt0_ok T x hx]
    by_cases hx0 : 0 < x
    · have hspos : 0 < s := by rcases hv.2 with h | h <;> omega
      simp only [hx0, decide_true, if_true]
      rw [subTi_ok T x hx0 hx]
      simp only [bind, Except.bind]
      have hxm1 : ((x - 1 : Nat) : Int) ≤ T.hi := natCast_le_of_le (Nat.sub_le _ _) hx
      rw [narrow_id T _ _ hxm1, divT_ok T (x - 1) s hspos hs hxm1]
      simp only
      have hq : 1 + (x - 1) / s ≤ x := by
        have := Nat.div_le_self (x - 1) s; omega
      have hres : ((1 + (x - 1) / s : Nat) : Int) ≤ T.hi := natCast_le_of_le hq hx
      rw [addIP_ok T _ hres]
      simp only [pure, Except.pure]
      rw [narrow_id T _ _ hres]; rfl
    · have : x = 0 := by omega
      subst this; simp; rfl

/-- **C14, `submdspan_extents`** -/
theorem C14_sub_extents (T : ITy) : ∀ (sls : List Slice) (es : List Nat), SlicesValid sls es →
    (∀ e ∈ es, (e : Int) ≤ T.hi) → (∀ sl ∈ sls, sl.Rep T) →
    subExtsM T (toSI sls) (toI es) = .ok (toI (subExts sls es))
  | [], [], _, _, _ => rfl
  | sl :: sls, e :: es, hv, hre, hrs => by
    have h1 := C14_sub_extent T e sl (hre e (by simp)) hv.1 (hrs sl (by simp))
    have ih := C14_sub_extents T sls es hv.2 (fun x hx => hre x (List.mem_cons_of_mem _ hx))
      (fun x hx => hrs x (List.mem_cons_of_mem _ hx))
    simp only [toSI_cons, toI_cons, subExtsM, subExts]
    rw [h1, ih]
    simp only [bind, Except.bind, pure, Except.pure]
    cases sl.ext e <;> rfl
  | [], _ :: _, hv, _, _ => by simp [SlicesValid] at hv
  | _ :: _, [], hv, _, _ => by simp [SlicesValid] at hv

example : SlicesValid [.idx 2, .range 1 4, .full, .strided 1 7 3, .strided 2 0 0] [3, 5, 6, 9, 4] ∧
    (∀ e ∈ [3, 5, 6, 9, 4], ((e : Nat) : Int) ≤ ITy.i8.hi) ∧
    (∀ sl ∈ [Slice.idx 2, .range 1 4, .full, .strided 1 7 3, .strided 2 0 0], sl.Rep .i8) := by
  refine ⟨by simp [SlicesValid, Slice.Valid], by decide, ?_⟩
  simp [Slice.Rep, ITy.hi]
example : subExtsM .i8 (toSI [.idx 2, .range 1 4, .full, .strided 1 7 3, .strided 2 0 0]) (toI [3, 5, 6, 9, 4]) =
    .ok [3, 6, 3, 0] := by decide

/-! ### construct_sub_strides (repaired `stride_of`) -/

theorem strideOfM_refines (T : ITy) (sl : Slice) (hr : sl.Rep T) :
    strideOfM T true sl.toI = (sl.step : Int) := by
  cases sl with
  | strided o x s =>
    obtain ⟨_, hx, hs⟩ := hr
    simp only [Slice.toI, strideOfM, Slice.step, if_true]
    rw [V_lt_ok T s x hs hx]
    by_cases h : s < x <;> simp [h]
  | _ => rfl

theorem step_le (T : ITy) (sl : Slice) (hr : sl.Rep T) : (sl.step : Int) ≤ T.hi := by
  have h1 := T.one_le_hi
  cases sl with
  | strided o x s =>
    obtain ⟨_, _, hs⟩ := hr
    simp only [Slice.step]; split
    · exact hs
    · exact h1
  | _ => exact h1

theorem isIdx_toI (sl : Slice) : sl.toI.isIdx = sl.isIdx := by cases sl <;> rfl

/-- **C14, `construct_sub_strides`** (with the repaired `stride_of`): no UB and the exact strides
    whenever every product `stride(r) · stride_of(slice_r)` is representable. -/
theorem C14_sub_strides (T : ITy) : ∀ (sls : List Slice) (ss : List Nat),
    (∀ s ∈ ss, (s : Int) ≤ T.hi) → (∀ sl ∈ sls, sl.Rep T) →
    (∀ p ∈ subStrides sls ss, (p : Int) ≤ T.hi) →
    subStridesM T true (toSI sls) (toI ss) = .ok (toI (subStrides sls ss))
  | [], _, _, _, _ => by simp [subStridesM, subStrides]; rfl
  | _ :: _, [], _, _, _ => by simp [subStridesM, subStrides]; rfl
  | sl :: sls, s :: ss, hss, hrs, hp => by
    have hs := hss s (by simp)
    have hr := hrs sl (by simp)
    simp only [toSI_cons, toI_cons, subStridesM, subStrides, isIdx_toI]
    by_cases hidx : sl.isIdx = true
    · simp only [subStrides, hidx, if_true] at hp
      have ih := C14_sub_strides T sls ss (fun x hx => hss x (List.mem_cons_of_mem _ hx))
        (fun x hx => hrs x (List.mem_cons_of_mem _ hx)) hp
      rw [ih]; simp only [hidx, if_true, bind, Except.bind]; rfl
    · simp only [subStrides, hidx] at hp
      have ih := C14_sub_strides T sls ss (fun x hx => hss x (List.mem_cons_of_mem _ hx))
        (fun x hx => hrs x (List.mem_cons_of_mem _ hx)) (fun x hx => hp x (List.mem_cons_of_mem _ hx))
      have hprod := hp (s * sl.step) (by simp)
      have hstep := step_le T sl hr
      rw [ih]; simp only [hidx, bind, Except.bind]
      rw [strideOfM_refines T sl hr, ITy.wrap_id T _ (Int.natCast_nonneg _) hstep,
        mulT_ok T s sl.step hs hstep hprod]
      simp only [pure, Except.pure]
      rw [narrow_id T _ _ hprod]; rfl

example : (∀ s ∈ [60, 12, 3, 1], ((s : Nat) : Int) ≤ ITy.i8.hi) ∧
    (∀ sl ∈ [Slice.idx 1, .range 1 4, .strided 0 4 2, .strided 0 3 5], sl.Rep .i8) ∧
    (∀ p ∈ subStrides [.idx 1, .range 1 4, .strided 0 4 2, .strided 0 3 5] [60, 12, 3, 1], ((p : Nat) : Int) ≤ ITy.i8.hi) := by
  refine ⟨by decide, by simp [Slice.Rep, ITy.hi], by decide⟩
example : subStridesM .i8 true (toSI [.idx 1, .range 1 4, .strided 0 4 2, .strided 0 3 5]) (toI [60, 12, 3, 1]) =
    .ok [12, 6, 1] := by decide

end Mdspan
