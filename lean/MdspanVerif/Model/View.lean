import MdspanVerif.Model.Pair
/-!
# mdspan as a value: (data handle, mapping, accessor), and the operations that create, copy,
move, assign, swap views on a pool

Abstract layer: a view is a triple.  Concrete layer: the triple is stored as
`__compressed_pair<handle, __compressed_pair<mapping, accessor>>`, each pair being one of the
four specialisations of `Model/Pair.lean` (an empty component is not stored at all).
-/
namespace Mdspan

structure MdsView (H M A : Type) where
  h : H
  m : M
  a : A
deriving DecidableEq, Repr

/-- operations on a pool of views; `cons` stands for every constructor after its arguments have
    been turned into the three components (handle, mapping built from the extents / supplied,
    accessor default-constructed / supplied / converted) -/
inductive POp (H M A : Type)
  | cons (i : Nat) (v : MdsView H M A)
  | copy (i j : Nat)          -- pool[i] = mdspan(pool[j])
  | move (i j : Nat)          -- pool[i] = mdspan(std::move(pool[j])); trivially copyable parts: source unchanged
  | assign (i j : Nat)        -- pool[i] = pool[j]
  | moveAssign (i j : Nat)
  | swap (i j : Nat)

abbrev Pool (H M A : Type) := List (Option (MdsView H M A))

def Pool.put {α : Type} (p : List (Option α)) (i : Nat) (v : Option α) : List (Option α) := p.set i v
def Pool.at {α : Type} (p : List (Option α)) (i : Nat) : Option α := (p[i]?).getD none

def Pool.step {H M A : Type} (p : Pool H M A) : POp H M A → Pool H M A
  | .cons i v => Pool.put p i (some v)
  | .copy i j | .move i j | .assign i j | .moveAssign i j => Pool.put p i (Pool.at p j)
  | .swap i j => Pool.put (Pool.put p i (Pool.at p j)) j (Pool.at p i)

def Pool.run {H M A : Type} (p : Pool H M A) (ops : List (POp H M A)) : Pool H M A := ops.foldl Pool.step p

/-! ### concrete storage -/

/-- what the code uses of a `__compressed_pair` specialisation -/
class PairLike (P : Type → Type → Type) (α β : Type) where
  mkp : α → β → P α β
  first : P α β → α
  second : P α β → β
  first_mk : ∀ a b, first (mkp a b) = a
  second_mk : ∀ a b, second (mkp a b) = b
  eta : ∀ p, mkp (first p) (second p) = p

instance {α β} : PairLike PairNN α β :=
  ⟨PairNN.mk', PairNN.first, PairNN.second, PairNN.first_mk, PairNN.second_mk, fun _ => rfl⟩
instance {α β} [EmptyT α] : PairLike PairEN α β :=
  ⟨PairEN.mk', PairEN.first, PairEN.second, PairEN.first_mk, PairEN.second_mk, fun _ => rfl⟩
instance {α β} [EmptyT β] : PairLike PairNE α β :=
  ⟨PairNE.mk', PairNE.first, PairNE.second, PairNE.first_mk, PairNE.second_mk, fun _ => rfl⟩
instance {α β} [EmptyT α] [EmptyT β] : PairLike PairEE α β :=
  ⟨PairEE.mk', PairEE.first, PairEE.second, PairEE.first_mk, PairEE.second_mk, fun _ => rfl⟩

/-- `__members`: outer pair of the handle and the inner (mapping, accessor) pair -/
abbrev CView (P Q : Type → Type → Type) (H M A : Type) := P H (Q M A)

section
variable {P Q : Type → Type → Type} {H M A : Type} [PairLike Q M A] [PairLike P H (Q M A)]

/-- the constructors: `__members(p, __map_acc_pair_t(m, a))` -/
def CView.make (h : H) (m : M) (a : A) : CView P Q H M A :=
  PairLike.mkp (P := P) (α := H) (β := Q M A) h (PairLike.mkp (P := Q) (α := M) (β := A) m a)
/-- `__ptr_ref()`, `__mapping_ref()`, `__accessor_ref()` -/
def CView.ptr (v : CView P Q H M A) : H := PairLike.first (P := P) (α := H) (β := Q M A) v
def CView.mapping (v : CView P Q H M A) : M := PairLike.first (P := Q) (α := M) (β := A) (PairLike.second (P := P) (α := H) (β := Q M A) v)
def CView.accessor (v : CView P Q H M A) : A := PairLike.second (P := Q) (α := M) (β := A) (PairLike.second (P := P) (α := H) (β := Q M A) v)

def CView.abs (v : CView P Q H M A) : MdsView H M A := ⟨v.ptr, v.mapping, v.accessor⟩

abbrev CPool (P Q : Type → Type → Type) (H M A : Type) := List (Option (CView P Q H M A))

/-- member-wise `swap(x.ptr, y.ptr); swap(x.mapping, y.mapping); swap(x.accessor, y.accessor)`:
    each view is rebuilt from the other's three components -/
def CView.swapped (x y : CView P Q H M A) : CView P Q H M A × CView P Q H M A :=
  (CView.make y.ptr y.mapping y.accessor, CView.make x.ptr x.mapping x.accessor)

def CPool.step (p : CPool P Q H M A) : POp H M A → CPool P Q H M A
  | .cons i v => Pool.put p i (some (CView.make v.h v.m v.a))
  | .copy i j | .move i j | .assign i j | .moveAssign i j => Pool.put p i (Pool.at p j)   -- defaulted member-wise copies
  | .swap i j =>
    match Pool.at p i, Pool.at p j with
    | some x, some y => let (x', y') := CView.swapped x y; Pool.put (Pool.put p i (some x')) j (some y')
    | xi, xj => Pool.put (Pool.put p i xj) j xi

def CPool.abs (p : CPool P Q H M A) : Pool H M A := p.map (Option.map CView.abs)
end

end Mdspan
