import MdspanVerif.Model.Convert
import MdspanVerif.Props.C20
/-!
# C08 — conversions preserve the mapping; mapping equality is sound
-/
namespace Mdspan

/-! ## `stride(r)` agrees with `strides()` for every mapping -/

theorem mulLoop_eq (v : Nat) (l : List Nat) : mulLoop v l = v * prod l := by
  unfold mulLoop
  induction l generalizing v with
  | nil => simp [prod]
  | cons x xs ih => simp only [List.foldl_cons, ih, prod, Nat.mul_assoc]

theorem lpadStrides_len (ps : Nat) : ∀ es : List Nat, (lpadStrides ps es).length = es.length
  | [] => rfl
  | [_] => rfl
  | _ :: e' :: es => by simp [lpadStrides, leftStridesFrom_length]

theorem rpadStrides_len (ps : Nat) : ∀ es : List Nat, (rpadStrides ps es).length = es.length
  | [] => rfl
  | [_] => rfl
  | e :: e' :: es => by
    show (rightStrides (replaceLast ps (e :: e' :: es))).length = _
    rw [rightStrides_length, replaceLast_length]

theorem lpadStride_idx (ps : Nat) (es : List Nat) : lpadStride ps es lpadIdx = ps := by
  simp [lpadStride, lpadIdx, mulLoop]

theorem lpadStrides_get (ps : Nat) : ∀ (es : List Nat) (r : Nat), r < es.length →
    (lpadStrides ps es)[r]? = some (lpadStride ps es r)
  | [], _, h => by simp at h
  | [_], r, h => by
    have : r = 0 := by simpa using h
    subst this; simp [lpadStrides, lpadStride]
  | _ :: e' :: es, 0, _ => by simp [lpadStrides, lpadStride]
  | e :: e' :: es, r + 1, h => by
    have h' : r < (e' :: es).length := by simpa using h
    simp only [lpadStrides, List.getElem?_cons_succ, lpadStride]
    rw [leftStridesFrom_get ps (e' :: es) r h', mulLoop_eq]
    simp

theorem replaceLast_eq_c08 (ps : Nat) : ∀ es : List Nat, es ≠ [] → replaceLast ps es = es.dropLast ++ [ps]
  | [], h => absurd rfl h
  | [_], _ => rfl
  | e :: e' :: es, _ => by
    simp only [replaceLast, List.dropLast_cons_cons, List.cons_append]
    rw [replaceLast_eq_c08 ps (e' :: es) (by simp)]

theorem rpadStrides_get (ps : Nat) (es : List Nat) (r : Nat) (h : r < es.length) :
    (rpadStrides ps es)[r]? = some (rpadStride ps es r) := by
  match es, h with
  | [_], h =>
    have : r = 0 := by simpa using h
    subst this; simp [rpadStrides, rpadStride]
  | e :: e' :: es, h =>
    show (rightStrides (replaceLast ps (e :: e' :: es)))[r]? = _
    rw [rightStrides_get _ r (by rw [replaceLast_length]; exact h),
      replaceLast_eq_c08 ps (e :: e' :: es) (by simp)]
    unfold rpadStride
    by_cases hr : r + 1 = (e :: e' :: es).length
    · rw [if_pos hr]
      have : ((e :: e' :: es).dropLast ++ [ps]).length ≤ r + 1 := by
        simp at hr ⊢; omega
      rw [List.drop_eq_nil_of_le this]; rfl
    · rw [if_neg hr, mulLoop_eq, prod_reverse]
      have hle : r + 1 ≤ ((e :: e' :: es).dropLast).length := by
        simp at hr h ⊢; omega
      rw [List.drop_append_of_le_length hle, prod_append]
      simp [prod, Nat.mul_comm]

theorem rpadStride_idx (ps : Nat) (es : List Nat) (h : es.length > 1) :
    rpadStride ps es (rpadIdx es.length) = ps := by
  unfold rpadStride rpadIdx
  have h1 : ¬ (es.length - 2 + 1 = es.length) := by omega
  rw [if_neg h1, mulLoop_eq]
  have : (es.dropLast).length ≤ es.length - 2 + 1 := by simp; omega
  rw [List.drop_eq_nil_of_le this]; simp [prod]

/-- `L.strides()[r] = L.stride(r)` for every layout and every `r < rank` -/
theorem strides_get (L : Layout) (hwf : L.WF) (r : Nat) (h : r < L.rank) :
    L.strides[r]? = some (L.strideAt r) := by
  cases L with
  | left es => exact leftStrides_get es r h
  | right es => exact rightStrides_get es r h
  | stride es ss =>
    have hr : r < ss.length := by rw [hwf]; exact h
    simp [Layout.strides, Layout.strideAt, List.getD_eq_getElem?_getD, List.getElem?_eq_getElem hr]
  | lpad es ps => exact lpadStrides_get ps es r h
  | rpad es ps => exact rpadStrides_get ps es r h

theorem strides_length_wf (L : Layout) (hwf : L.WF) : L.strides.length = L.rank := by
  cases L with
  | left es => simp [Layout.strides, Layout.rank, Layout.extents, leftStrides, leftStridesFrom_length]
  | right es => simp [Layout.strides, Layout.rank, Layout.extents, rightStrides_length]
  | stride es ss => exact hwf
  | lpad es ps => exact lpadStrides_len ps es
  | rpad es ps => exact rpadStrides_len ps es

/-- `fill_strides(other)` reads exactly `other.strides()` -/
theorem strideList_eq (L : Layout) (hwf : L.WF) : L.strideList = L.strides := by
  apply List.ext_getElem?
  intro i
  by_cases hi : i < L.rank
  · rw [strides_get L hwf i hi]
    simp [Layout.strideList, hi]
  · have h1 : L.strideList.length ≤ i := by simp [Layout.strideList]; omega
    have h2 : L.strides.length ≤ i := by rw [strides_length_wf L hwf]; omega
    rw [List.getElem?_eq_none h1, List.getElem?_eq_none h2]

theorem strideList_length (L : Layout) : L.strideList.length = L.rank := by
  simp [Layout.strideList]

/-! ## rank ≤ 1 and "padded stride = padded extent" coincidences -/

theorem left_right_le1 : ∀ es : List Nat, es.length ≤ 1 → leftStrides es = rightStrides es
  | [], _ => rfl
  | [_], _ => by simp [leftStrides, leftStridesFrom, rightStrides, prod]
  | _ :: _ :: _, h => by simp at h

theorem lpadStrides_le1 (ps : Nat) : ∀ es : List Nat, es.length ≤ 1 → lpadStrides ps es = leftStrides es
  | [], _ => rfl
  | [_], _ => by simp [lpadStrides, leftStrides, leftStridesFrom]
  | _ :: _ :: _, h => by simp at h

theorem rpadStrides_le1 (ps : Nat) : ∀ es : List Nat, es.length ≤ 1 → rpadStrides ps es = rightStrides es
  | [], _ => rfl
  | [_], _ => by simp [rpadStrides, rightStrides, prod]
  | _ :: _ :: _, h => by simp at h

/-- `layout_left::stride(1) = extent(0)` -/
theorem leftStride_idx : ∀ es : List Nat, es ≠ [] → leftStride es lpadIdx = es.getD 0 0
  | [], h => absurd rfl h
  | e :: es, _ => by simp [leftStride, lpadIdx, prod]

theorem prod_drop_last : ∀ es : List Nat, es ≠ [] →
    prod (es.drop (es.length - 1)) = es.getD (es.length - 1) 0
  | [], h => absurd rfl h
  | [e], _ => by simp [prod]
  | e :: e' :: es, _ => by
    have ih := prod_drop_last (e' :: es) (by simp)
    simpa using ih

/-- `layout_right::stride(rank-2) = extent(rank-1)` -/
theorem rightStride_idx (es : List Nat) (h : es.length > 1) :
    rightStride es (rpadIdx es.length) = es.getD (es.length - 1) 0 := by
  unfold rightStride rpadIdx
  have : es.length - 2 + 1 = es.length - 1 := by omega
  rw [this]
  exact prod_drop_last es (by intro h0; subst h0; simp at h)

theorem replaceLast_self : ∀ es : List Nat, replaceLast (es.getD (es.length - 1) 0) es = es
  | [] => rfl
  | [e] => by simp [replaceLast]
  | e :: e' :: es => by
    have ih := replaceLast_self (e' :: es)
    simp only [replaceLast]
    congr 1

/-- a left_padded mapping whose padded stride is `extent(0)` has the layout_left strides -/
theorem lpadStrides_self : ∀ es : List Nat, lpadStrides (es.getD 0 0) es = leftStrides es
  | [] => rfl
  | [_] => by simp [lpadStrides, leftStrides, leftStridesFrom]
  | e :: e' :: es => by simp [lpadStrides, leftStrides, leftStridesFrom]

/-- a right_padded mapping whose padded stride is `extent(rank-1)` has the layout_right strides -/
theorem rpadStrides_self : ∀ es : List Nat, rpadStrides (es.getD (es.length - 1) 0) es = rightStrides es
  | [] => rfl
  | [_] => by simp [rpadStrides, rightStrides, prod]
  | e :: e' :: es => by
    show rightStrides (replaceLast _ (e :: e' :: es)) = _
    rw [replaceLast_self]

/-- the padded stride can be read back from `strides()` -/
theorem lpadStrides_getD (ps : Nat) : ∀ es : List Nat,
    lpadStrides ((lpadStrides ps es).getD lpadIdx 0) es = lpadStrides ps es
  | [] => rfl
  | [_] => rfl
  | e :: e' :: es => by simp [lpadStrides, leftStridesFrom, lpadIdx]

theorem rpadStrides_getD (ps : Nat) (es : List Nat) :
    rpadStrides ((rpadStrides ps es).getD (rpadIdx es.length) 0) es = rpadStrides ps es := by
  by_cases h : es.length > 1
  · have hg := rpadStrides_get ps es (rpadIdx es.length) (by unfold rpadIdx; omega)
    rw [List.getD_eq_getElem?_getD, hg, rpadStride_idx ps es h]; rfl
  · rw [rpadStrides_le1 _ es (by omega), rpadStrides_le1 _ es (by omega)]

/-! ## the conversions keep extents and strides -/

theorem initPad_gt (n s : Nat) (h : n > 1) : initPad n s = s := by simp [initPad, h]

/-- core of C08: a conversion whose precondition holds copies the extents and produces a mapping
    with the same `strides()` -/
theorem conv_strides (src : Layout) (dst : LKind) (d : Layout) (h : convert src dst = some d)
    (hp : ConvPre src dst) (hwf : src.WF) :
    d.extents = src.extents ∧ d.strides = src.strides ∧ d.WF ∧ d.kind = dst := by
  cases dst with
  | left =>
    cases src with
    | left es => simp [convert] at h; subst h; simp [Layout.WF, Layout.kind]
    | right es =>
      simp only [convert] at h
      split at h
      · next hle =>
        simp at h; subst h
        exact ⟨rfl, left_right_le1 es hle, trivial, rfl⟩
      · simp at h
    | stride es ss =>
      simp [convert] at h; subst h
      exact ⟨rfl, hp.symm, trivial, rfl⟩
    | lpad es ps =>
      simp [convert] at h; subst h
      refine ⟨rfl, ?_, trivial, rfl⟩
      show leftStrides es = lpadStrides ps es
      by_cases hr : es.length > 1
      · have := hp hr
        rw [lpadStride_idx] at this
        rw [this, lpadStrides_self]
      · rw [lpadStrides_le1 ps es (by omega)]
    | rpad es ps => simp [convert] at h
  | right =>
    cases src with
    | right es => simp [convert] at h; subst h; simp [Layout.WF, Layout.kind]
    | left es =>
      simp only [convert] at h
      split at h
      · next hle =>
        simp at h; subst h
        exact ⟨rfl, (left_right_le1 es hle).symm, trivial, rfl⟩
      · simp at h
    | stride es ss =>
      simp [convert] at h; subst h
      exact ⟨rfl, hp.symm, trivial, rfl⟩
    | rpad es ps =>
      simp [convert] at h; subst h
      refine ⟨rfl, ?_, trivial, rfl⟩
      show rightStrides es = rpadStrides ps es
      by_cases hr : es.length > 1
      · have := hp hr
        rw [rpadStride_idx ps es hr] at this
        rw [this, rpadStrides_self]
      · rw [rpadStrides_le1 ps es (by omega)]
    | lpad es ps => simp [convert] at h
  | stride =>
    have : d = .stride src.extents src.strideList := by
      cases src <;> simp [convert] at h <;> exact h.symm
    subst this
    exact ⟨rfl, strideList_eq src hwf, strideList_length src, rfl⟩
  | lpad =>
    cases src with
    | left es =>
      simp [convert] at h; subst h
      refine ⟨rfl, ?_, trivial, rfl⟩
      show lpadStrides _ es = leftStrides es
      by_cases hr : es.length > 1
      · rw [initPad_gt _ _ hr]
        show lpadStrides (leftStride es lpadIdx) es = _
        rw [leftStride_idx es (by intro h0; subst h0; simp at hr), lpadStrides_self]
      · rw [lpadStrides_le1 _ es (by omega)]
    | right es => simp [convert] at h
    | stride es ss =>
      simp [convert] at h; subst h
      refine ⟨rfl, ?_, trivial, rfl⟩
      show lpadStrides _ es = ss
      by_cases hr : es.length > 1
      · rw [initPad_gt _ _ hr]; exact hp.symm
      · rw [lpadStrides_le1 _ es (by omega)]
        have hp' : ss = lpadStrides _ es := hp
        rw [hp', lpadStrides_le1 _ es (by omega)]
    | lpad es ps =>
      simp [convert] at h; subst h
      refine ⟨rfl, ?_, trivial, rfl⟩
      show lpadStrides _ es = lpadStrides ps es
      by_cases hr : es.length > 1
      · rw [initPad_gt _ _ hr]
        show lpadStrides (lpadStride ps es lpadIdx) es = _
        rw [lpadStride_idx]
      · rw [lpadStrides_le1 _ es (by omega), lpadStrides_le1 _ es (by omega)]
    | rpad es ps =>
      simp only [convert] at h
      split at h
      · next hle =>
        simp at h; subst h
        refine ⟨rfl, ?_, trivial, rfl⟩
        show lpadStrides _ es = rpadStrides ps es
        rw [lpadStrides_le1 _ es hle, rpadStrides_le1 _ es hle, left_right_le1 es hle]
      · simp at h
  | rpad =>
    cases src with
    | right es =>
      simp [convert] at h; subst h
      refine ⟨rfl, ?_, trivial, rfl⟩
      show rpadStrides _ es = rightStrides es
      by_cases hr : es.length > 1
      · rw [initPad_gt _ _ hr]
        show rpadStrides (rightStride es (rpadIdx es.length)) es = _
        rw [rightStride_idx es hr, rpadStrides_self]
      · rw [rpadStrides_le1 _ es (by omega)]
    | left es => simp [convert] at h
    | stride es ss =>
      simp [convert] at h; subst h
      refine ⟨rfl, ?_, trivial, rfl⟩
      show rpadStrides _ es = ss
      by_cases hr : es.length > 1
      · rw [initPad_gt _ _ hr]; exact hp.symm
      · rw [rpadStrides_le1 _ es (by omega)]
        have hp' : ss = rpadStrides _ es := hp
        rw [hp', rpadStrides_le1 _ es (by omega)]
    | rpad es ps =>
      simp [convert] at h; subst h
      refine ⟨rfl, ?_, trivial, rfl⟩
      show rpadStrides _ es = rpadStrides ps es
      by_cases hr : es.length > 1
      · rw [initPad_gt _ _ hr]
        show rpadStrides (rpadStride ps es (rpadIdx es.length)) es = _
        rw [rpadStride_idx ps es hr]
      · rw [rpadStrides_le1 _ es (by omega), rpadStrides_le1 _ es (by omega)]
    | lpad es ps =>
      simp only [convert] at h
      split at h
      · next hle =>
        simp at h; subst h
        refine ⟨rfl, ?_, trivial, rfl⟩
        show rpadStrides _ es = lpadStrides ps es
        rw [lpadStrides_le1 _ es hle, rpadStrides_le1 _ es hle, left_right_le1 es hle]
      · simp at h

/-- **C08 (conversion, extents).** Every converting constructor copies the extents. -/
theorem C08_conv_extents (src : Layout) (dst : LKind) (d : Layout) (h : convert src dst = some d) :
    d.extents = src.extents := by
  cases dst <;> cases src <;> simp only [convert] at h <;> (try split at h) <;>
    simp at h <;> subst h <;> rfl

/-- **C08 (conversion, offsets).** Under the constructor's precondition the converted mapping sends
    every multi-index of the right length (inside the extents or not) to the same offset. -/
theorem C08_conv_offset (src : Layout) (dst : LKind) (d : Layout) (h : convert src dst = some d)
    (hp : ConvPre src dst) (hwf : src.WF) (is : List Nat) (hl : is.length = src.extents.length) :
    d.offset is = src.offset is := by
  obtain ⟨he, hs, _, _⟩ := conv_strides src dst d h hp hwf
  rw [offset_eq_dot d is (by rw [he]; exact hl), offset_eq_dot src is hl, hs]

/-- the conversion also preserves `stride(r)`, `strides()` and `required_span_size()`-relevant data -/
theorem C08_conv_strides (src : Layout) (dst : LKind) (d : Layout) (h : convert src dst = some d)
    (hp : ConvPre src dst) (hwf : src.WF) : d.strides = src.strides ∧ d.WF ∧ d.kind = dst :=
  (conv_strides src dst d h hp hwf).2

/-! ## equality -/

theorem extEq_iff : ∀ es fs : List Nat, extEq es fs = true ↔ es = fs
  | [], [] => by simp [extEq]
  | [], _ :: _ => by simp [extEq]
  | _ :: _, [] => by simp [extEq]
  | e :: es, f :: fs => by
    simp only [extEq]
    by_cases hef : f = e
    · subst hef; simp [extEq_iff es fs]
    · have : ¬ e = f := fun h => hef h.symm
      simp [hef, this]

theorem extEq_eq_decide (es fs : List Nat) : extEq es fs = decide (es = fs) := by
  by_cases h : es = fs
  · simp [h, (extEq_iff fs fs).mpr rfl]
  · have : extEq es fs ≠ true := fun hh => h ((extEq_iff es fs).mp hh)
    simp [h, this]

theorem extEq_refl (es : List Nat) : extEq es es = true := (extEq_iff es es).mpr rfl

theorem allEq_iff : ∀ as bs : List Nat, as.length = bs.length → (allEq as bs = true ↔ as = bs)
  | [], [], _ => by simp [allEq]
  | [], _ :: _, h => by simp at h
  | _ :: _, [], h => by simp at h
  | a :: as, b :: bs, h => by
    simp [allEq, allEq_iff as bs (by simpa using h)]

theorem allEq_refl : ∀ as : List Nat, allEq as as = true
  | [] => rfl
  | _ :: as => by simp [allEq, allEq_refl as]

theorem anyNe_eq : ∀ as bs : List Nat, anyNe as bs = !allEq as bs
  | [], [] => rfl
  | [], _ :: _ => rfl
  | _ :: _, [] => rfl
  | a :: as, b :: bs => by simp [anyNe, allEq, anyNe_eq as bs, Bool.not_and, bne]

theorem dot_zeros : ∀ (n : Nat) (ss : List Nat), dot (List.replicate n 0) ss = 0
  | 0, _ => by simp [dot]
  | n + 1, [] => by simp [List.replicate, dot]
  | n + 1, s :: ss => by simp [List.replicate, dot, dot_zeros n ss]

/-- `__OFFSET(y) == 0` holds for all five mappings: the conjunct never decides -/
theorem offsetOrigin_zero (y : Layout) : y.offsetOrigin = 0 := by
  unfold Layout.offsetOrigin
  rw [offset_eq_dot y _ (by simp [Layout.rank])]
  exact dot_zeros _ _

theorem eqStrideOther_sound (es ss : List Nat) (y : Layout) (hw : ss.length = es.length)
    (hr : es.length = y.rank) (hy : y.WF) (h : eqStrideOther es ss y = true) :
    es = y.extents ∧ ss = y.strides := by
  simp only [eqStrideOther, stridesMatch, Bool.and_eq_true] at h
  obtain ⟨⟨h1, _⟩, h3⟩ := h
  refine ⟨(extEq_iff _ _).mp h1, ?_⟩
  rw [← strideList_eq y hy]
  exact (allEq_iff _ _ (by rw [strideList_length, hw, hr])).mp h3

theorem eqStrideOther_complete (es ss : List Nat) (y : Layout) (hy : y.WF)
    (he : es = y.extents) (hs : ss = y.strides) : eqStrideOther es ss y = true := by
  simp only [eqStrideOther, stridesMatch, Bool.and_eq_true]
  refine ⟨⟨(extEq_iff _ _).mpr he, by simp [offsetOrigin_zero]⟩, ?_⟩
  rw [strideList_eq y hy, hs]; exact allEq_refl _

/-- on two `layout_stride` mappings the generic `operator==(stride, StridedLayoutMapping)` and the
    more specialised `_eq_impl` overload return the same value -/
theorem eqStrideOther_stride (es ss fs ts : List Nat) (hs : ss.length = es.length)
    (ht : ts.length = fs.length) (hr : es.length = fs.length) :
    eqStrideOther es ss (.stride fs ts) = eqStrideStride es ss fs ts := by
  have hy : (Layout.stride fs ts).WF := ht
  cases h : eqStrideOther es ss (.stride fs ts) with
  | true =>
    obtain ⟨h1, h2⟩ := eqStrideOther_sound es ss (Layout.stride fs ts) hs hr hy h
    simp only [Layout.extents, Layout.strides] at h1 h2
    subst h1; subst h2
    simp [eqStrideStride, allEq_refl]
  | false =>
    cases h' : eqStrideStride es ss fs ts with
    | false => rfl
    | true =>
      simp only [eqStrideStride, Bool.and_eq_true] at h'
      have h1 := (allEq_iff _ _ (by omega)).mp h'.1
      have h2 := (allEq_iff _ _ hr).mp h'.2
      rw [eqStrideOther_complete es ss _ hy h2 h1] at h
      exact absurd h (by simp)

/-- equality as decided by the library implies equal extents and equal `strides()` -/
theorem eq_strides (a b : Layout) (ha : a.WF) (hb : b.WF) (h : eqMap a b = some true) :
    a.extents = b.extents ∧ a.strides = b.strides := by
  cases a with
  | left es =>
    cases b with
    | left fs =>
      simp only [eqMap] at h; split at h <;> simp [eqLeft] at h
      have := (extEq_iff _ _).mp h; subst this; exact ⟨rfl, rfl⟩
    | stride fs ts =>
      simp only [eqMap] at h; split at h <;> simp at h
      next hr =>
      obtain ⟨h1, h2⟩ := eqStrideOther_sound fs ts _ hb hr trivial h
      exact ⟨h1.symm, h2.symm⟩
    | right fs => simp [eqMap] at h
    | lpad fs qs => simp [eqMap] at h
    | rpad fs qs => simp [eqMap] at h
  | right es =>
    cases b with
    | right fs =>
      simp only [eqMap] at h; split at h <;> simp [eqRight] at h
      have := (extEq_iff _ _).mp h; subst this; exact ⟨rfl, rfl⟩
    | stride fs ts =>
      simp only [eqMap] at h; split at h <;> simp at h
      next hr =>
      obtain ⟨h1, h2⟩ := eqStrideOther_sound fs ts _ hb hr trivial h
      exact ⟨h1.symm, h2.symm⟩
    | left fs => simp [eqMap] at h
    | lpad fs qs => simp [eqMap] at h
    | rpad fs qs => simp [eqMap] at h
  | stride es ss =>
    cases b with
    | stride fs ts =>
      simp only [eqMap] at h; split at h <;> simp [eqStrideStride] at h
      next hr =>
      have h1 := (allEq_iff ss ts (by rw [ha, hb, hr])).mp h.1
      have h2 := (allEq_iff es fs hr).mp h.2
      exact ⟨h2, h1⟩
    | left fs =>
      simp only [eqMap] at h; split at h <;> simp at h
      next hr => exact eqStrideOther_sound es ss _ ha hr trivial h
    | right fs =>
      simp only [eqMap] at h; split at h <;> simp at h
      next hr => exact eqStrideOther_sound es ss _ ha hr trivial h
    | lpad fs qs =>
      simp only [eqMap] at h; split at h <;> simp at h
      next hr => exact eqStrideOther_sound es ss _ ha hr trivial h
    | rpad fs qs =>
      simp only [eqMap] at h; split at h <;> simp at h
      next hr => exact eqStrideOther_sound es ss _ ha hr trivial h
  | lpad es ps =>
    cases b with
    | lpad fs qs =>
      simp only [eqMap] at h; split at h <;> simp [eqLpad, lpadStride_idx] at h
      have := (extEq_iff _ _).mp h.1; subst this
      refine ⟨rfl, ?_⟩
      show lpadStrides ps es = lpadStrides qs es
      by_cases hr : 1 < es.length
      · rcases h.2 with h' | h'
        · omega
        · rw [h']
      · rw [lpadStrides_le1 _ es (by omega), lpadStrides_le1 _ es (by omega)]
    | stride fs ts =>
      simp only [eqMap] at h; split at h <;> simp at h
      next hr =>
      obtain ⟨h1, h2⟩ := eqStrideOther_sound fs ts _ hb hr trivial h
      exact ⟨h1.symm, h2.symm⟩
    | left fs => simp [eqMap] at h
    | right fs => simp [eqMap] at h
    | rpad fs qs => simp [eqMap] at h
  | rpad es ps =>
    cases b with
    | rpad fs qs =>
      simp only [eqMap] at h; split at h <;> simp [eqRpad] at h
      next hr =>
      have := (extEq_iff _ _).mp h.1; subst this
      refine ⟨rfl, ?_⟩
      show rpadStrides ps es = rpadStrides qs es
      by_cases hr : 1 < es.length
      · rcases h.2 with h' | h'
        · omega
        · rw [rpadStride_idx ps es hr, rpadStride_idx qs es hr] at h'
          rw [h']
      · rw [rpadStrides_le1 _ es (by omega), rpadStrides_le1 _ es (by omega)]
    | stride fs ts =>
      simp only [eqMap] at h; split at h <;> simp at h
      next hr =>
      obtain ⟨h1, h2⟩ := eqStrideOther_sound fs ts _ hb hr trivial h
      exact ⟨h1.symm, h2.symm⟩
    | left fs => simp [eqMap] at h
    | right fs => simp [eqMap] at h
    | lpad fs qs => simp [eqMap] at h

/-- **C08 (equality is sound).** `a == b` implies equal extents and identical offsets for all
    multi-indices of the right length. -/
theorem C08_eq_sound (a b : Layout) (ha : a.WF) (hb : b.WF) (h : eqMap a b = some true) :
    a.extents = b.extents ∧ ∀ is : List Nat, is.length = a.extents.length → a.offset is = b.offset is := by
  obtain ⟨he, hs⟩ := eq_strides a b ha hb h
  refine ⟨he, fun is hl => ?_⟩
  rw [offset_eq_dot a is hl, offset_eq_dot b is (by rw [← he]; exact hl), hs]

/-- two mappings of the same kind with equal extents and equal `strides()` compare equal -/
theorem eq_of_strides (a c : Layout) (hk : a.kind = c.kind) (he : a.extents = c.extents)
    (hs : a.strides = c.strides) : eqMap a c = some true := by
  cases a with
  | left es =>
    cases c <;> simp [Layout.kind] at hk
    simp only [Layout.extents] at he; subst he
    simp [eqMap, eqLeft, extEq_refl]
  | right es =>
    cases c <;> simp [Layout.kind] at hk
    simp only [Layout.extents] at he; subst he
    simp [eqMap, eqRight, extEq_refl]
  | stride es ss =>
    cases c <;> simp [Layout.kind] at hk
    simp only [Layout.extents] at he; subst he
    simp only [Layout.strides] at hs; subst hs
    simp [eqMap, eqStrideStride, allEq_refl]
  | lpad es ps =>
    cases c with
    | lpad fs qs =>
      simp only [Layout.extents] at he; subst he
      simp only [eqMap, eqLpad, if_true, extEq_refl, Bool.true_and, lpadStride_idx]
      by_cases hr : es.length > 1
      · have h1 := lpadStrides_get ps es lpadIdx (by unfold lpadIdx; omega)
        have h2 := lpadStrides_get qs es lpadIdx (by unfold lpadIdx; omega)
        have hs' : lpadStrides ps es = lpadStrides qs es := hs
        rw [hs', h2, lpadStride_idx, lpadStride_idx] at h1
        simp at h1; simp [hr, h1]
      · simp [hr]
    | left _ => simp [Layout.kind] at hk
    | right _ => simp [Layout.kind] at hk
    | stride _ _ => simp [Layout.kind] at hk
    | rpad _ _ => simp [Layout.kind] at hk
  | rpad es ps =>
    cases c with
    | rpad fs qs =>
      simp only [Layout.extents] at he; subst he
      simp only [eqMap, eqRpad, if_true, extEq_refl, Bool.true_and]
      by_cases hr : es.length > 1
      · have h1 := rpadStrides_get ps es (rpadIdx es.length) (by unfold rpadIdx; omega)
        have h2 := rpadStrides_get qs es (rpadIdx es.length) (by unfold rpadIdx; omega)
        have hs' : rpadStrides ps es = rpadStrides qs es := hs
        rw [hs', h2] at h1
        simp at h1; simp [hr, h1]
      · simp [hr]
    | left _ => simp [Layout.kind] at hk
    | right _ => simp [Layout.kind] at hk
    | stride _ _ => simp [Layout.kind] at hk
    | lpad _ _ => simp [Layout.kind] at hk

/-- **C08 (a mapping equals its copy).** -/
theorem C08_eq_refl (a : Layout) : eqMap a a = some true := eq_of_strides a a rfl rfl rfl

/-- the way back of a conversion always meets its precondition -/
theorem convPre_back (a b : Layout) (he : b.extents = a.extents) (hs : b.strides = a.strides) :
    ConvPre b a.kind := by
  cases a with
  | left es =>
    cases b with
    | stride fs ts =>
      simp only [Layout.extents] at he; subst he
      exact hs
    | lpad fs ps =>
      simp only [Layout.extents] at he; subst he
      intro hr
      have h1 := lpadStrides_get ps fs lpadIdx (by unfold lpadIdx; omega)
      have h2 := leftStrides_get fs lpadIdx (by unfold lpadIdx; omega)
      have hs' : lpadStrides ps fs = leftStrides fs := hs
      rw [hs', h2] at h1
      have h3 := leftStride_idx fs (by intro h0; subst h0; simp at hr)
      unfold leftStride at h3
      rw [h3] at h1
      simp at h1; exact h1.symm
    | left _ => trivial
    | right _ => trivial
    | rpad _ _ => trivial
  | right es =>
    cases b with
    | stride fs ts =>
      simp only [Layout.extents] at he; subst he
      exact hs
    | rpad fs ps =>
      simp only [Layout.extents] at he; subst he
      intro hr
      have h1 := rpadStrides_get ps fs (rpadIdx fs.length) (by unfold rpadIdx; omega)
      have h2 := rightStrides_get fs (rpadIdx fs.length) (by unfold rpadIdx; omega)
      have hs' : rpadStrides ps fs = rightStrides fs := hs
      rw [hs', h2] at h1
      have h3 := rightStride_idx fs hr
      unfold rightStride at h3
      rw [h3] at h1
      simp at h1; exact h1.symm
    | left _ => trivial
    | right _ => trivial
    | lpad _ _ => trivial
  | stride es ss => cases b <;> trivial
  | lpad es ps =>
    cases b with
    | stride fs ts =>
      simp only [Layout.extents] at he; subst he
      have hs' : ts = lpadStrides ps fs := hs
      show ts = lpadStrides (ts.getD lpadIdx 0) fs
      rw [hs', lpadStrides_getD]
    | left _ => trivial
    | right _ => trivial
    | lpad _ _ => trivial
    | rpad _ _ => trivial
  | rpad es ps =>
    cases b with
    | stride fs ts =>
      simp only [Layout.extents] at he; subst he
      have hs' : ts = rpadStrides ps fs := hs
      show ts = rpadStrides (ts.getD (rpadIdx fs.length) 0) fs
      rw [hs', rpadStrides_getD]
    | left _ => trivial
    | right _ => trivial
    | lpad _ _ => trivial
    | rpad _ _ => trivial

/-- **C08 (round trip).** Converting `a` to any mapping type `k` the library allows (under that
    constructor's precondition) and back to `a`'s own type: the way back is always within its
    precondition, and the result compares equal to `a` — for every pair of kinds, every rank. -/
theorem C08_roundtrip (a : Layout) (k : LKind) (b c : Layout) (h1 : convert a k = some b)
    (h2 : convert b a.kind = some c) (hp : ConvPre a k) (ha : a.WF) :
    ConvPre b a.kind ∧ eqMap a c = some true := by
  obtain ⟨he, hs, hwb, _⟩ := conv_strides a k b h1 hp ha
  have hp2 := convPre_back a b he hs
  obtain ⟨he2, hs2, _, hk2⟩ := conv_strides b a.kind c h2 hp2 hwb
  exact ⟨hp2, eq_of_strides a c hk2.symm (by rw [he2, he]) (by rw [hs2, hs])⟩

/-- **C08 (`!=` is the negation of `==`)**, for every hand-written `operator!=` / `_not_eq_impl`. -/
theorem C08_ne_not_eq (a b : Layout) : neMap a b = (eqMap a b).map (!·) := by
  cases a <;> cases b <;> simp only [neMap, eqMap] <;> (try split) <;>
    simp [neLeft, neRight, eqLeft, eqRight, extNe, neStrideStride, eqStrideStride, anyNe_eq,
      Bool.not_and, neStrideOther, neLpad, neRpad]

/-- **C08 (layout_left equality is extents equality).** -/
theorem C08_left_eq_iff (es fs : List Nat) : eqMap (.left es) (.left fs) = some true ↔ es = fs := by
  constructor
  · intro h
    simp only [eqMap] at h; split at h <;> simp [eqLeft] at h
    exact (extEq_iff _ _).mp h
  · intro h; subst h; exact C08_eq_refl _
theorem C08_left_eq_decide (es fs : List Nat) (h : es.length = fs.length) :
    eqMap (.left es) (.left fs) = some (decide (es = fs)) := by
  simp [eqMap, eqLeft, h, extEq_eq_decide]

/-- **C08 (layout_right equality is extents equality).** -/
theorem C08_right_eq_iff (es fs : List Nat) : eqMap (.right es) (.right fs) = some true ↔ es = fs := by
  constructor
  · intro h
    simp only [eqMap] at h; split at h <;> simp [eqRight] at h
    exact (extEq_iff _ _).mp h
  · intro h; subst h; exact C08_eq_refl _
theorem C08_right_eq_decide (es fs : List Nat) (h : es.length = fs.length) :
    eqMap (.right es) (.right fs) = some (decide (es = fs)) := by
  simp [eqMap, eqRight, h, extEq_eq_decide]

/-! ## destination types with a compile-time padded stride (type-level addendum)

The pure `convert` describes destination types whose padded stride is a run-time member.  When it
is a compile-time constant (`padding_value` and the padded extent both static) the value taken from
the source is discarded, so the conversion preserves the mapping only if that constant equals the
source's `stride(padded_stride_idx)` — which P2642 demands through a *Mandates* clause
(`ctorMandate`).  The `static_assert` as written (`ctorStaticAssert`) starts with
`OtherExtents::rank() > 1 ||` and therefore never fires. -/

/-- what the Mandates + Preconditions of P2642 amount to for the value: for rank > 1 a static
    padded stride equals the extent it pads (= the source's `stride(padded_stride_idx)`) -/
def StaticOK (src : Layout) (dst : LKind) (sps : Option Nat) : Prop :=
  match dst, src with
  | .lpad, .left es => es.length > 1 → ∀ v, sps = some v → v = es.getD 0 0
  | .rpad, .right es => es.length > 1 → ∀ v, sps = some v → v = es.getD (es.length - 1) 0
  | _, _ => True

theorem convertS_eq (src : Layout) (dst : LKind) (sps : Option Nat) (d : Layout)
    (h : convertS src dst sps = some d) (hok : StaticOK src dst sps) : convert src dst = some d := by
  cases dst <;> cases src <;> simp only [convertS] at h <;> try (simp at h)
  · next es =>
    subst h
    simp only [convert, initPad, initPadS]
    by_cases hr : es.length > 1
    · cases sps with
      | none => rfl
      | some v =>
        have := hok hr v rfl
        simp [hr, this, Layout.strideAt, leftStride_idx es (by intro h0; subst h0; simp at hr)]
    · simp [hr]
  · next es =>
    subst h
    simp only [convert, initPad, initPadS]
    by_cases hr : es.length > 1
    · cases sps with
      | none => rfl
      | some v =>
        have := hok hr v rfl
        simp [hr, this, Layout.strideAt, rightStride_idx es hr]
    · simp [hr]

/-- with a static padded stride the conversion preserves the mapping when the constant is the
    padded extent -/
theorem C08_convS_offset (src : Layout) (dst : LKind) (sps : Option Nat) (d : Layout)
    (h : convertS src dst sps = some d) (hok : StaticOK src dst sps) (is : List Nat)
    (hl : is.length = src.extents.length) : d.offset is = src.offset is := by
  have hc := convertS_eq src dst sps d h hok
  have hp : ConvPre src dst := by
    cases dst <;> cases src <;> first | trivial | (simp [convertS] at h)
  have hwf : src.WF := by
    cases dst <;> cases src <;> first | trivial | (simp [convertS] at h)
  exact C08_conv_offset src dst d hc hp hwf is hl

/-- for `OtherExtents::rank() > 1` the `static_assert` as written accepts every combination -/
theorem ctorStaticAssert_vacuous (n : Nat) (sps ose : Option Nat) (h : n > 1) :
    ctorStaticAssert n sps ose = true := by simp [ctorStaticAssert, h]

/-- **Witness (not covered by `StaticOK`)**:
    `layout_left_padded<4>::mapping<extents<int,5,3>>(layout_left::mapping<extents<int,5,3>>{})`
    compiles (the `static_assert` as written passes although the Mandates of P2642 fail) and maps
    `(0,1)` to 8 where the source maps it to 5. -/
example : ctorStaticAssert 2 (some 8) (some 5) = true ∧ ctorMandate 2 (some 8) (some 5) = false := by
  decide
example : convertS (.left [5, 3]) .lpad (some 8) = some (.lpad [5, 3] 8) := by decide
example : (Layout.lpad [5, 3] 8).offset [0, 1] = 8 ∧ (Layout.left [5, 3]).offset [0, 1] = 5 := by decide

/-! ## non-vacuity on concrete rank-3 mappings -/

example : convert (.lpad [5, 2, 3] 8) .stride = some (.stride [5, 2, 3] [1, 8, 16]) := by decide
example : convert (.stride [5, 2, 3] [1, 8, 16]) .lpad = some (.lpad [5, 2, 3] 8) := by decide
example : ConvPre (.stride [5, 2, 3] [1, 8, 16]) .lpad := by decide
example : convert (.rpad [2, 3, 5] 8) .stride = some (.stride [2, 3, 5] [24, 8, 1]) := by decide
example : convert (.stride [2, 3, 5] [24, 8, 1]) .rpad = some (.rpad [2, 3, 5] 8) ∧
    ConvPre (.stride [2, 3, 5] [24, 8, 1]) .rpad := by decide
example : convert (.right [2, 3, 4]) .rpad = some (.rpad [2, 3, 4] 4) := by decide
/-- `stride == left_padded` looks at the strides; `left_padded == left_padded` at the padded stride -/
example : eqMap (.stride [5, 2, 3] [1, 8, 16]) (.lpad [5, 2, 3] 8) = some true ∧
    eqMap (.stride [5, 2, 3] [1, 8, 16]) (.lpad [5, 2, 3] 5) = some false ∧
    eqMap (.lpad [5, 2, 3] 8) (.lpad [5, 2, 3] 5) = some false ∧
    neMap (.lpad [5, 2, 3] 8) (.lpad [5, 2, 3] 5) = some true ∧
    eqMap (.left [5, 2, 3]) (.lpad [5, 2, 3] 5) = none := by decide
/-- rank ≤ 1: the padded stride is not looked at; rank restrictions of left ↔ right -/
example : eqMap (.lpad [7] 0) (.lpad [7] 9) = some true ∧
    convert (.left [2, 3, 4]) .right = none ∧ convert (.left [7]) .right = some (.right [7]) ∧
    convert (.rpad [7] 9) .lpad = some (.lpad [7] 0) := by decide
/-- the preconditions are needed: non-canonical strides / a real padding change the mapping -/
example : ¬ ConvPre (.stride [2, 3, 4] [1, 2, 7]) .left ∧
    (Layout.stride [2, 3, 4] [1, 2, 7]).offset [0, 0, 1] = 7 ∧
    (Layout.left [2, 3, 4]).offset [0, 0, 1] = 6 := by decide
example : ¬ ConvPre (.lpad [5, 2, 3] 8) .left ∧
    (Layout.lpad [5, 2, 3] 8).offset [0, 1, 0] = 8 ∧ (Layout.left [5, 2, 3]).offset [0, 1, 0] = 5 := by
  decide
/-- round trip left → left_padded → left and left_padded → stride → left_padded on rank 3 -/
example : (convert (.left [5, 2, 3]) .lpad).bind (convert · .left) = some (.left [5, 2, 3]) := by decide
example : (convert (.lpad [5, 2, 3] 8) .stride).bind (convert · .lpad) = some (.lpad [5, 2, 3] 8) := by
  decide

end Mdspan
