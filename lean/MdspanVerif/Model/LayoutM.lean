import MdspanVerif.Model.Int
/-!
# Machine-level mirrors of the layout arithmetic

Same control structure as `Model/Layout.lean`, with every operation typed as in the C++
(promotion, usual arithmetic conversions, narrowing on assignment / parameter passing /
return) and undefined behaviour made explicit.  Values in the lists are `index_type` values.
-/
namespace Mdspan

/-- narrowing to `index_type` (parameter passing, assignment, return) -/
def narrow (T : ITy) (x : V) : Int := T.wrap x.v

/-- `layout_right::__compute_offset(offset, __rank_count<r,Rank>, i, idx...)`:
    `offset * extent(r) + i`, passed on as `index_type`; the last step takes a `size_t`. -/
def rightGoM (T : ITy) (acc : Int) : List Int → List Int → M Int
  | e :: es, i :: is => do
      let m ← V.mul ⟨T, acc⟩ ⟨T, e⟩
      let s ← V.add m ⟨T, i⟩
      rightGoM T (narrow T s) es is
  | _, _ => pure (T.wrap (ITy.u64.wrap acc))

def rightOffM (T : ITy) : List Int → List Int → M Int
  | _ :: es, i :: is => rightGoM T i es is
  | _, _ => pure 0

/-- `layout_left::__compute_offset`: `rest * extent(r) + i`, last index returned unchanged -/
def leftOffM (T : ITy) : List Int → List Int → M Int
  | [_], [i] => pure i
  | e :: es, i :: is => do
      let rest ← leftOffM T es is
      let m ← V.mul ⟨T, rest⟩ ⟨T, e⟩
      let s ← V.add m ⟨T, i⟩
      pure (narrow T s)
  | _, _ => pure 0

/-- `index_type value = 1; for (...) value *= extent(r);` -/
def prodGoM (T : ITy) (acc : Int) : List Int → M Int
  | [] => pure acc
  | e :: es => do
      let m ← V.mul ⟨T, acc⟩ ⟨T, e⟩
      prodGoM T (narrow T m) es
def spanLRM (T : ITy) (es : List Int) : M Int := prodGoM T 1 es

/-- `layout_stride::_call_op_impl`: `((idx * stride) + ... + 0)`, returned as `size_t` and
    cast back to `index_type` by `operator()` -/
def dotGoM (T : ITy) : List Int → List Int → M V
  | i :: is, s :: ss => do
      let p ← V.mul ⟨T, i⟩ ⟨T, s⟩
      let rest ← dotGoM T is ss
      V.add p rest
  | _, _ => pure ⟨.i32, 0⟩
def strideOffM (T : ITy) (is ss : List Int) : M Int := do
  let r ← dotGoM T is ss
  pure (T.wrap (ITy.u64.wrap r.v))

/-- `layout_stride::required_span_size` -/
def spanStrideGoM (T : ITy) (acc : Int) : List Int → List Int → M Int
  | e :: es, s :: ss =>
    if e = 0 then pure 0 else do
      let em1 ← V.sub ⟨T, e⟩ ⟨.i32, 1⟩
      let m ← V.mul ⟨T, narrow T em1⟩ ⟨T, s⟩
      let a ← V.add ⟨T, acc⟩ m
      spanStrideGoM T (narrow T a) es ss
  | _, _ => pure acc
def spanStrideM (T : ITy) (es ss : List Int) : M Int := spanStrideGoM T 1 es ss

/-- `find_next_multiple` on the pinned tree: `((offset + alignment - 1) / alignment) * alignment` -/
def findNextMultipleOrigM (T : ITy) (a o : Int) : M Int :=
  if a = 0 then pure 0 else do
    let s ← V.add ⟨T, o⟩ ⟨T, a⟩
    let s1 ← V.sub s ⟨.i32, 1⟩
    let q ← V.div s1 ⟨T, a⟩
    let r ← V.mul q ⟨T, a⟩
    pure (narrow T r)

/-- `find_next_multiple` as repaired:
    `(offset / alignment + (offset % alignment != 0 ? T(1) : T(0))) * alignment` -/
def findNextMultipleM (T : ITy) (a o : Int) : M Int :=
  if a = 0 then pure 0 else do
    let q ← V.div ⟨T, o⟩ ⟨T, a⟩
    let m ← V.mod ⟨T, o⟩ ⟨T, a⟩
    let c : V := ⟨T, if m.v ≠ 0 then 1 else 0⟩
    let s ← V.add q c
    let r ← V.mul s ⟨T, a⟩
    pure (narrow T r)


/-! ### stride(r) / strides() -/

/-- `layout_left::stride(i)`: `value = 1; for r < i: value *= extent(r)` -/
def leftStrideM (T : ITy) (es : List Int) (i : Nat) : M Int := prodGoM T 1 (es.take i)
/-- `layout_right::stride(i)`: `for r = rank-1; r > i; r--: value *= extent(r)` -/
def rightStrideM (T : ITy) (es : List Int) (i : Nat) : M Int := prodGoM T 1 (es.drop (i + 1)).reverse

/-! ### padded layouts -/

/-- `layout_left_padded::compute_offset`: `res = idx[k] + (k == 0 ? ps : extent(k)) * res`
    for k = rank-1 … 0 -/
def lpadGoM (T : ITy) (ps : Int) : List Int → List Int → M Int
  | [], [] => pure 0
  | e :: es, i :: is => do
      let res ← lpadGoM T ps es is
      -- the multiplier of this step is decided by the caller (head gets `ps`)
      let m ← V.mul ⟨T, e⟩ ⟨T, res⟩
      let s ← V.add ⟨T, i⟩ m
      pure (narrow T s)
  | _, _ => pure 0
def lpadOffM (T : ITy) (ps : Int) : List Int → List Int → M Int
  | [], [] => pure 0
  | [_], [i] => pure i
  | _ :: es, i :: is => lpadGoM T ps (ps :: es) (i :: is)
  | _, _ => pure 0

/-- `layout_right_padded::compute_offset`: `res = idx[k] + (k == rank-1 ? ps : extent(k)) * res`
    for k = 0 … rank-1 -/
def rpadGoM (T : ITy) (ps res : Int) : List Int → List Int → M Int
  | [_], [i] => do
      let m ← V.mul ⟨T, ps⟩ ⟨T, res⟩
      let s ← V.add ⟨T, i⟩ m
      pure (narrow T s)
  | e :: es, i :: is => do
      let m ← V.mul ⟨T, e⟩ ⟨T, res⟩
      let s ← V.add ⟨T, i⟩ m
      rpadGoM T ps (narrow T s) es is
  | _, _ => pure res
def rpadOffM (T : ITy) (ps : Int) : List Int → List Int → M Int
  | [], [] => pure 0
  | [_], [i] => pure i
  | es, is => rpadGoM T ps 0 es is

/-- `layout_left_padded::required_span_size` -/
def lpadSpanM (T : ITy) (ps : Int) : List Int → M Int
  | [] => pure 1
  | [e] => pure e
  | _ :: es => prodGoM T ps es
/-- `layout_right_padded::required_span_size`: `value = Π_{r<rank-1} extent(r); return value * ps` -/
def rpadSpanM (T : ITy) (ps : Int) : List Int → M Int
  | [] => pure 1
  | [e] => pure e
  | es => do
      let v ← prodGoM T 1 es.dropLast
      let m ← V.mul ⟨T, v⟩ ⟨T, ps⟩
      pure (narrow T m)

/-- `layout_left_padded::stride(r)` -/
def lpadStrideM (T : ITy) (ps : Int) (es : List Int) (r : Nat) : M Int :=
  if r = 0 then pure 1 else prodGoM T ps ((es.drop 1).take (r - 1))
/-- `layout_right_padded::stride(r)`: `for k = rank-2; k > r; k--` -/
def rpadStrideM (T : ITy) (ps : Int) (es : List Int) (r : Nat) : M Int :=
  if r + 1 = es.length then pure 1 else prodGoM T ps ((es.dropLast).drop (r + 1)).reverse

/-- `layout_stride::is_exhaustive` (all branches) -/
def argmaxStrideI : Nat → Int → Nat → List Int → Nat
  | best, _, _, [] => best
  | best, bv, r, s :: ss => if s > bv then argmaxStrideI r s (r + 1) ss else argmaxStrideI best bv (r + 1) ss
def zeroOtherThanI (rl : Nat) : Nat → List Int → Bool
  | _, [] => false
  | r, e :: es => (e == 0 && r != rl) || zeroOtherThanI rl (r + 1) es
/-- `__get_size`: `(extent(Idx) * ... * 1)` right fold in `index_type` -/
def getSizeM (T : ITy) : List Int → M V
  | [] => pure ⟨.i32, 1⟩
  | e :: es => do
      let rest ← getSizeM T es
      V.mul ⟨T, e⟩ rest
def isExhStrideM (T : ITy) (es ss : List Int) : M Bool :=
  match es, ss with
  | [], _ => pure true
  | es, ss => do
    let span ← spanStrideM T es ss
    if span = 0 then
      match es, ss with
      | [_], [s] => pure (s == 1)
      | _, s0 :: ss' => pure (!(zeroOtherThanI (argmaxStrideI 0 s0 1 ss') 0 es))
      | _, [] => pure true
    else do
      let span2 ← spanStrideM T es ss
      let sz ← getSizeM T es
      pure (V.eq ⟨T, span2⟩ ⟨T, T.wrap sz.v⟩)

end Mdspan

namespace Mdspan
/-! ### the debug-only stride walk of `layout_left/right::mapping(layout_stride::mapping const&)` -/

/-- `index_type stride = 1; for r: if (common_t(stride) != common_t(other.stride(r))) abort(); stride *= extent(r);`
    `T` = target index type, `U` = source index type; `true` = `std::abort()` -/
def walkGoM (T U : ITy) (stride : Int) : List Int → List Int → M Bool
  | e :: es, s :: ss =>
    if !(V.eq ⟨T, stride⟩ ⟨U, s⟩) then pure true else do
      let m ← V.mul ⟨T, stride⟩ ⟨T, e⟩
      walkGoM T U (narrow T m) es ss
  | _, _ => pure false
def walkLeftM (T U : ITy) (es ss : List Int) : M Bool := walkGoM T U 1 es ss
/-- layout_right walks from the last dimension to the first -/
def walkRightM (T U : ITy) (es ss : List Int) : M Bool := walkGoM T U 1 es.reverse ss.reverse
end Mdspan
