import MdspanVerif.Lemmas.Perm
/-! Offsets of left / right / padded layouts as dot products with their strides,
    and validity (generalised chain) of those strides.  The padded layouts are
    treated as left / right layouts over "allocation extents" `fs ≥ es`. -/
namespace Mdspan

theorem inB_pos : ∀ (is es : List Nat), InB is es → ∀ e ∈ es, 0 < e
  | [], [], _ => by intro e he; cases he
  | i :: is, e :: es, h => by
    intro x hx
    rcases List.mem_cons.mp hx with rfl | hx
    · have := h.1; omega
    · exact inB_pos is es h.2 x hx
  | [], _ :: _, h => by simp [InB] at h
  | _ :: _, [], h => by simp [InB] at h

theorem prod_pos (es : List Nat) (h : ∀ e ∈ es, 0 < e) : 0 < prod es := by
  induction es with
  | nil => simp [prod]
  | cons e es ih =>
    simp only [prod]
    exact Nat.mul_pos (h e (by simp)) (ih (fun x hx => h x (List.mem_cons_of_mem _ hx)))

/-- pointwise `≤` on lists of equal length -/
def LeL : List Nat → List Nat → Prop
  | [], [] => True
  | e :: es, f :: fs => e ≤ f ∧ LeL es fs
  | _, _ => False

theorem leL_refl : ∀ es : List Nat, LeL es es
  | [] => trivial
  | _ :: es => ⟨Nat.le_refl _, leL_refl es⟩

theorem leL_length : ∀ es fs : List Nat, LeL es fs → es.length = fs.length
  | [], [], _ => rfl
  | _ :: es, _ :: fs, h => by simp [leL_length es fs h.2]
  | [], _ :: _, h => by simp [LeL] at h
  | _ :: _, [], h => by simp [LeL] at h

/-! ### row-major (layout_right and layout_right_padded) -/

theorem rightGo_eq : ∀ (acc : Nat) (es is : List Nat), is.length = es.length →
    rightGo acc es is = acc * prod es + dot is (rightStrides es)
  | acc, [], [], _ => by simp [rightGo, prod, dot]
  | acc, e :: es, i :: is, h => by
    simp only [rightGo, prod, dot, rightStrides]
    rw [rightGo_eq (acc * e + i) es is (by simpa using h), Nat.add_mul, Nat.mul_assoc]
    omega
  | _, [], _ :: _, h => by simp at h
  | _, _ :: _, [], h => by simp at h

/-- C02 for layout_right: the Horner accumulator computes Σ i_r · Π_{k>r} e_k -/
theorem rightOff_eq_dot (es is : List Nat) (h : is.length = es.length) :
    rightOff es is = dot is (rightStrides es) := by
  match es, is, h with
  | [], [], _ => simp [rightOff, dot]
  | e :: es, i :: is, h =>
    simp only [rightOff, rightStrides, dot]
    rw [rightGo_eq i es is (by simpa using h)]

theorem rightStrides_length (es : List Nat) : (rightStrides es).length = es.length := by
  induction es with
  | nil => rfl
  | cons e es ih => simp [rightStrides, ih]

/-- row-major strides over allocation extents `fs ≥ es` stay inside `prod fs` -/
theorem span_right_le : ∀ (es fs : List Nat), LeL es fs → (∀ e ∈ es, 0 < e) →
    spanM1 (List.zip es (rightStrides fs)) + 1 ≤ prod fs
  | [], [], _, _ => by simp [rightStrides, spanM1, prod]
  | e :: es, f :: fs, hle, h => by
    have ih := span_right_le es fs hle.2 (fun x hx => h x (List.mem_cons_of_mem _ hx))
    have he := h e (by simp)
    simp only [rightStrides, List.zip_cons_cons, spanM1, prod]
    have h1 := pred_mul_add e (prod fs) he
    have h2 : prod fs * e ≤ f * prod fs := by
      rw [Nat.mul_comm]; exact Nat.mul_le_mul_right _ hle.1
    omega
  | [], _ :: _, h, _ => by simp [LeL] at h
  | _ :: _, [], h, _ => by simp [LeL] at h

theorem desc_right_le : ∀ (es fs : List Nat), LeL es fs → (∀ e ∈ es, 0 < e) →
    DescC (List.zip es (rightStrides fs))
  | [], [], _, _ => trivial
  | e :: es, f :: fs, hle, h => by
    have h' : ∀ x ∈ es, 0 < x := fun x hx => h x (List.mem_cons_of_mem _ hx)
    simp only [rightStrides, List.zip_cons_cons, DescC]
    refine ⟨Or.inr ?_, desc_right_le es fs hle.2 h'⟩
    have := span_right_le es fs hle.2 h'
    omega
  | [], _ :: _, h, _ => by simp [LeL] at h
  | _ :: _, [], h, _ => by simp [LeL] at h

theorem valid_right_le (es fs : List Nat) (hle : LeL es fs) (h : ∀ e ∈ es, 0 < e) :
    ValidStrides es (rightStrides fs) :=
  ⟨by rw [rightStrides_length, leL_length es fs hle], _, List.Perm.refl _, desc_right_le es fs hle h⟩

/-! ### column-major (layout_left and layout_left_padded) -/

theorem leftStridesFrom_length (p : Nat) (es : List Nat) :
    (leftStridesFrom p es).length = es.length := by
  induction es generalizing p with
  | nil => rfl
  | cons e es ih => simp [leftStridesFrom, ih]

theorem dot_leftStridesFrom : ∀ (p : Nat) (es is : List Nat), is.length = es.length →
    dot is (leftStridesFrom p es) = p * dot is (leftStridesFrom 1 es)
  | p, [], [], _ => by simp [leftStridesFrom, dot]
  | p, e :: es, i :: is, h => by
    have h' : is.length = es.length := by simpa using h
    simp only [leftStridesFrom, dot, Nat.one_mul, Nat.mul_one]
    rw [dot_leftStridesFrom (p * e) es is h', dot_leftStridesFrom e es is h']
    rw [Nat.mul_add, Nat.mul_assoc, Nat.mul_comm p i]
  | _, [], _ :: _, h => by simp at h
  | _, _ :: _, [], h => by simp at h

/-- C02 for layout_left: the nested recursion computes Σ i_r · Π_{k<r} e_k -/
theorem leftOff_eq_dot : ∀ (es is : List Nat), is.length = es.length →
    leftOff es is = dot is (leftStrides es)
  | [], [], _ => by simp [leftOff, dot]
  | e :: es, i :: is, h => by
    have h' : is.length = es.length := by simpa using h
    simp only [leftOff, leftStrides, leftStridesFrom, dot, Nat.one_mul, Nat.mul_one]
    rw [leftOff_eq_dot es is h', dot_leftStridesFrom e es is h', leftStrides]
    rw [Nat.mul_comm]; omega
  | [], _ :: _, h => by simp at h
  | _ :: _, [], h => by simp at h

/-- ascending form of the generalised chain: `acc` is what the dimensions already passed span -/
def AscC (acc : Nat) : List (Nat × Nat) → Prop
  | [] => True
  | d :: ds => (d.1 ≤ 1 ∨ acc < d.2) ∧ AscC (acc + (d.1 - 1) * d.2) ds

theorem ascC_reverse : ∀ (l pre : List (Nat × Nat)), AscC (spanM1 pre) l → DescC pre →
    DescC (l.reverse ++ pre)
  | [], pre, _, hp => by simpa using hp
  | d :: ds, pre, h, hp => by
    have : DescC (d :: pre) := ⟨h.1, hp⟩
    have h2 : AscC (spanM1 (d :: pre)) ds := by
      simp only [spanM1]; rw [Nat.add_comm]; exact h.2
    have := ascC_reverse ds (d :: pre) h2 this
    simpa using this

/-- column-major strides over allocation extents `fs ≥ es`, starting from stride `p` -/
theorem ascC_left_le : ∀ (acc p : Nat) (es fs : List Nat), LeL es fs → (∀ e ∈ es, 0 < e) →
    acc < p → AscC acc (List.zip es (leftStridesFrom p fs))
  | _, _, [], [], _, _, _ => trivial
  | acc, p, e :: es, f :: fs, hle, h, hacc => by
    have he := h e (by simp)
    simp only [leftStridesFrom, List.zip_cons_cons, AscC]
    refine ⟨Or.inr hacc, ascC_left_le _ (p * f) es fs hle.2
      (fun x hx => h x (List.mem_cons_of_mem _ hx)) ?_⟩
    have h1 := pred_mul_add e p he
    have h2 : p * e ≤ p * f := Nat.mul_le_mul_left _ hle.1
    omega
  | _, _, [], _ :: _, h, _, _ => by simp [LeL] at h
  | _, _, _ :: _, [], h, _, _ => by simp [LeL] at h

theorem valid_left_le (es fs : List Nat) (hle : LeL es fs) (h : ∀ e ∈ es, 0 < e) :
    ValidStrides es (leftStrides fs) := by
  refine ⟨by rw [leftStrides, leftStridesFrom_length, leL_length es fs hle],
    (List.zip es (leftStrides fs)).reverse, List.reverse_perm _, ?_⟩
  have := ascC_reverse (List.zip es (leftStrides fs)) [] (by
    simp only [spanM1]; exact ascC_left_le 0 1 es fs hle h (by omega)) trivial
  simpa using this

end Mdspan
