import Driver.Util
import MdspanVerif.Model.ConvertG
import MdspanVerif.Model.Adm
/-! `conv` / `mapeq` op families (C08): the pure conversion and comparison model. -/
open Mdspan
namespace Drv

def parseLKind : String → Option LKind
  | "left" => some .left | "right" => some .right | "stride" => some .stride | "lpad" => some .lpad | "rpad" => some .rpad | _ => none

/-- the mapping a harness line constructs: padded from (extents[, pv]) with padding template argument `sp` -/
def mkLayoutN (kind : String) (sp : String) (es ss : List Nat) (pv : Option Nat) : Option Layout :=
  let padOf (e : Nat) : Option Nat :=
    match pv with
    | some v => if v = 0 then none else some (findNextMultiple v e)
    | none => if sp == "D" || sp == "None" then some e else (sp.toNat?).bind (fun p => if p = 0 then none else some (findNextMultiple p e))
  match kind with
  | "left" => some (.left es)
  | "right" => some (.right es)
  | "stride" => some (.stride es ss)
  | "lpad" => if es.length < 2 then some (.lpad es 0) else (padOf (es.headD 0)).map (fun ps => .lpad es ps)
  | "rpad" => if es.length < 2 then some (.rpad es 0) else (padOf (es.getLastD 0)).map (fun ps => .rpad es ps)
  | _ => none

def natL (s : String) : List Nat := (parseList s).map Int.toNat
def fmtN (l : List Nat) : String := if l.isEmpty then "-" else ",".intercalate (l.map toString)
def parseIdxs (s : String) : List (List Nat) :=
  if s == "-" || s == "" then [] else (s.splitOn ";").map (fun one => if one == "e" then [] else natL one)
def descL (L : Layout) (idx : List (List Nat)) : String :=
  s!"ext={fmtN L.extents} str={fmtN L.strideList} offs={fmtN (idx.map L.offset)}"

/-- `conv <srckind> <T> k=<ssp>,<dstkind>,<dsp>,<U>,<rank> ext= [str=] [pv=] idx=.. [pre]` -/
def convLine (kind : String) (rest : List String) : String :=
  match ((getKey rest "k").getD "").splitOn "," with
  | [ssp, dk, dsp, _u, _r] =>
    let es := natL ((getKey rest "ext").getD "-")
    let ss := natL ((getKey rest "str").getD "-")
    let pv := ((getKey rest "pv").bind String.toNat?)
    -- destination pattern (`spat=`): with a static padding value and a static extent to pad (rank > 1)
    -- the destination's padded stride is the compile-time constant find_next_multiple(P, E_pad)
    let dpat : List (Option Nat) := match getKey rest "spat" with
      | some p => (p.splitOn ",").map String.toNat?
      | none => []
    let sps : Option Nat :=
      match dsp.toNat? with
      | some pval =>
        if dpat.length > 1 && pval != 0 then
          let padPos := if dk == "lpad" then 0 else dpat.length - 1
          ((dpat.getD padPos none)).map (fun e => findNextMultiple pval e)
        else none
      | none => none
    match mkLayoutN kind ssp es ss pv, parseLKind dk with
    | some src, some d =>
      if (plainToks rest).contains "pre" then
        (if (convertG src d sps).isNone then "none" else s!"ok {fmtB (decide (ConvPreG src d sps))}")
      else
        match convertG src d sps with
        | none => "no-ctor"
        | some dst =>
          let idx := parseIdxs ((getKey rest "idx").getD "-")
          s!"src {descL src idx} dst {descL dst idx}"
    | _, _ => "bad-op"
  | _ => "bad-op"

def mapeqLine (kind : String) (rest : List String) : String :=
  match ((getKey rest "k").getD "").splitOn "," with
  | [ssp, dk, dsp, _u, _r] =>
    let a := mkLayoutN kind ssp (natL ((getKey rest "ext").getD "-")) (natL ((getKey rest "str").getD "-")) ((getKey rest "pv").bind String.toNat?)
    let b := mkLayoutN dk dsp (natL ((getKey rest "ext2").getD "-")) (natL ((getKey rest "str2").getD "-")) ((getKey rest "pv2").bind String.toNat?)
    match a, b with
    | some a, some b =>
      match eqMap a b, neMap a b with
      | some e, some n => s!"eq={fmtB e} ne={fmtB n}"
      | _, _ => "no-op"
    | _, _ => "bad-op"
  | _ => "bad-op"

end Drv
