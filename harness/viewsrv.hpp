// mdspan op family: construction paths, copy/move/assign/swap/convert on a pool, observers, access forms
#pragma once
#include "mapsrv.hpp"
#include <optional>
#include <sys/mman.h>
#if defined(__cpp_lib_span) || __cplusplus >= 202002L
#include <span>
#define VH_HAS_SPAN 1
#endif
namespace vh {

// ---- element storage: one mmap'ed region, optionally PROT_NONE while no access is expected
struct Arena {
  int* base = nullptr; size_t n = 70000; size_t bytes = 0; bool prot = false;
  Arena() { bytes = ((n * sizeof(int) + 4095) / 4096) * 4096; base = static_cast<int*>(mmap(nullptr, bytes, PROT_READ | PROT_WRITE, MAP_PRIVATE | MAP_ANONYMOUS, -1, 0)); reset(); }
  void reset() { unprotect(); for (size_t i = 0; i < n; i++) base[i] = static_cast<int>(1000000 + i); }
  void protect() { mprotect(base, bytes, PROT_NONE); prot = true; }
  void unprotect() { mprotect(base, bytes, PROT_READ | PROT_WRITE); prot = false; }
};
inline Arena& arena() { static Arena a; return a; }
inline std::vector<std::pair<long long, long long>>& accessLog() { static std::vector<std::pair<long long, long long>> l; return l; }

// ---- a stateful accessor that logs every access()/offset() call
template <class T> struct StAcc {
  using offset_policy = StAcc; using element_type = T; using reference = T&; using data_handle_type = T*;
  int id = 0;
  constexpr StAcc() noexcept = default;
  constexpr explicit StAcc(int i) noexcept : id(i) {}
  template <class U, class = std::enable_if_t<std::is_convertible<U (*)[], T (*)[]>::value>> constexpr StAcc(const StAcc<U>& o) noexcept : id(o.id) {}
  // converting constructor from the (empty) default accessor: the converted accessor is NOT the default-constructed one
  template <class U, class = std::enable_if_t<std::is_convertible<U (*)[], T (*)[]>::value>> constexpr StAcc(const md::default_accessor<U>&) noexcept : id(77) {}
  reference access(data_handle_type p, size_t i) const noexcept { accessLog().push_back({static_cast<long long>(p - const_cast<const int*>(arena().base)), static_cast<long long>(i)}); return p[i]; }
  data_handle_type offset(data_handle_type p, size_t i) const noexcept { accessLog().push_back({-1 - static_cast<long long>(p - const_cast<const int*>(arena().base)), static_cast<long long>(i)}); return p + i; }
};
// ---- an accessor with a non-pointer data handle and a proxy reference
struct PxHandle { long off = 0; };
template <class T> struct Proxy {
  long addr;
  operator T() const noexcept { return arena().base[addr]; }
  const Proxy& operator=(std::remove_const_t<T> v) const noexcept { arena().base[addr] = v; return *this; }
};
template <class T> struct PxAcc {
  using offset_policy = PxAcc; using element_type = T; using reference = Proxy<T>; using data_handle_type = PxHandle;
  int id = 0;
  constexpr PxAcc() noexcept = default;
  constexpr explicit PxAcc(int i) noexcept : id(i) {}
  template <class U, class = std::enable_if_t<std::is_convertible<U (*)[], T (*)[]>::value>> constexpr PxAcc(const PxAcc<U>& o) noexcept : id(o.id) {}
  reference access(data_handle_type h, size_t i) const noexcept { accessLog().push_back({h.off, static_cast<long long>(i)}); return reference{h.off + static_cast<long>(i)}; }
  data_handle_type offset(data_handle_type h, size_t i) const noexcept { accessLog().push_back({-1 - h.off, static_cast<long long>(i)}); return data_handle_type{h.off + static_cast<long>(i)}; }
};
// ---- an empty accessor over an EMPTY data handle type (elements live at the arena base)
struct EmptyHandle {};
template <class T> struct EhAcc {
  using offset_policy = EhAcc; using element_type = T; using reference = T&; using data_handle_type = EmptyHandle;
  constexpr EhAcc() noexcept = default;
  constexpr explicit EhAcc(int) noexcept {}
  template <class U, class = std::enable_if_t<std::is_convertible<U (*)[], T (*)[]>::value>> constexpr EhAcc(const EhAcc<U>&) noexcept {}
  reference access(data_handle_type, size_t i) const noexcept { return arena().base[i]; }
  data_handle_type offset(data_handle_type, size_t) const noexcept { return {}; }
};
// ---- a decoy: stateless, raw-pointer handle, plain reference - but access() is NOT p[i] (shifted by 1000 elements)
template <class T> struct ShiftAcc {
  using offset_policy = ShiftAcc; using element_type = T; using reference = T&; using data_handle_type = T*;
  constexpr ShiftAcc() noexcept = default;
  constexpr explicit ShiftAcc(int) noexcept {}
  template <class U, class = std::enable_if_t<std::is_convertible<U (*)[], T (*)[]>::value>> constexpr ShiftAcc(const ShiftAcc<U>&) noexcept {}
  constexpr reference access(data_handle_type p, size_t i) const noexcept { return p[i + 1000]; }
  constexpr data_handle_type offset(data_handle_type p, size_t i) const noexcept { return p + i; }
};
// ---- an accessor whose access() returns a reference INTO THE ACCESSOR OBJECT ITSELF (a "broadcast" value): the element designated by
//      m[idx] is accessor().access(...), i.e. lives inside the view object m - not inside a copy of it
template <class T> struct SelfAcc {
  using offset_policy = SelfAcc; using element_type = T; using reference = const int&; using data_handle_type = T*;
  int value = 42;
  constexpr SelfAcc() noexcept = default;
  constexpr explicit SelfAcc(int v) noexcept : value(v) {}
  template <class U, class = std::enable_if_t<std::is_convertible<U (*)[], T (*)[]>::value>> constexpr SelfAcc(const SelfAcc<U>& o) noexcept : value(o.value) {}
  constexpr reference access(data_handle_type, size_t) const noexcept { return value; }
  constexpr data_handle_type offset(data_handle_type p, size_t i) const noexcept { return p + i; }
};
// ---- an accessor whose access() THROWS (a checked / poisoned element): m[idx] must propagate exactly what accessor().access(...) throws
inline bool& throwArmed() { static bool b = false; return b; }
template <class T> struct ThrowAcc {
  using offset_policy = ThrowAcc; using element_type = T; using reference = T&; using data_handle_type = T*;
  constexpr ThrowAcc() noexcept = default;
  constexpr explicit ThrowAcc(int) noexcept {}
  template <class U, class = std::enable_if_t<std::is_convertible<U (*)[], T (*)[]>::value>> constexpr ThrowAcc(const ThrowAcc<U>&) noexcept {}
  reference access(data_handle_type p, size_t i) const { if (throwArmed()) throw static_cast<long>(i); return p[i]; }
  data_handle_type offset(data_handle_type p, size_t i) const noexcept { return p + i; }
};
template <class A> struct isThrowAcc : std::false_type {};
template <class T> struct isThrowAcc<ThrowAcc<T>> : std::true_type {};
template <class A> struct isSelfAcc : std::false_type {};
template <class T> struct isSelfAcc<SelfAcc<T>> : std::true_type {};
template <class A> int accId(const A&) { return -1; }
template <class T> int accId(const StAcc<T>& a) { return a.id; }
template <class T> int accId(const PxAcc<T>& a) { return a.id; }
// handles as offsets from the arena base
template <class T> long hOff(T* p) { return static_cast<long>(p - const_cast<const int*>(arena().base)); }
inline long hOff(PxHandle h) { return h.off; }
inline long hOff(EmptyHandle) { return 0; }
template <class H> struct MkHandle { static H at(long off) { return arena().base + off; } };
template <> struct MkHandle<PxHandle> { static PxHandle at(long off) { return PxHandle{off}; } };
template <> struct MkHandle<EmptyHandle> { static EmptyHandle at(long) { return {}; } };
inline long refAddr(const int& r) { return static_cast<long>(&r - const_cast<const int*>(arena().base)); }
template <class T> long refAddr(Proxy<T> p) { return p.addr; }

// ---- a user-defined layout policy: offset = 1 + 2 * row-major offset; records the indices it receives
inline std::vector<long long>& lastIdx() { static std::vector<long long> v; return v; }
struct LogLayout {
  template <class E> struct mapping {
    using extents_type = E; using index_type = typename E::index_type; using size_type = typename E::size_type; using rank_type = typename E::rank_type; using layout_type = LogLayout;
    md::layout_right::mapping<E> inner;
    constexpr mapping() noexcept = default;
    constexpr mapping(const E& e) noexcept : inner(e) {}
    template <class F, class = std::enable_if_t<std::is_constructible<E, F>::value>> constexpr mapping(const mapping<F>& o) noexcept : inner(o.inner) {}
    constexpr const E& extents() const noexcept { return inner.extents(); }
    constexpr index_type required_span_size() const noexcept { return inner.required_span_size() == 0 ? 0 : static_cast<index_type>(2 * inner.required_span_size()); }
    template <class... I> index_type operator()(I... i) const noexcept { lastIdx() = {static_cast<long long>(i)...}; return static_cast<index_type>(1 + 2 * inner(i...)); }
    static constexpr bool is_always_unique() noexcept { return true; } static constexpr bool is_always_exhaustive() noexcept { return false; } static constexpr bool is_always_strided() noexcept { return true; }
    static constexpr bool is_unique() noexcept { return true; } static constexpr bool is_exhaustive() noexcept { return false; } static constexpr bool is_strided() noexcept { return true; }
    constexpr index_type stride(rank_type r) const noexcept { return static_cast<index_type>(2 * inner.stride(r)); }
    template <class F> friend constexpr bool operator==(const mapping& a, const mapping<F>& b) noexcept { return a.inner == b.inner; }
  };
};

// a class type convertible to an index type (nothrow)
template <class I> struct IdxLike { I v; constexpr operator I() const noexcept { return v; } };

template <class E, size_t SP> struct MapOf<KUser, E, SP> { using type = LogLayout::mapping<E>; };
// ---- a second decoy layout: always unique and always exhaustive, but NOT the identity: reversed row-major
struct RevLayout {
  template <class E> struct mapping {
    using extents_type = E; using index_type = typename E::index_type; using size_type = typename E::size_type; using rank_type = typename E::rank_type; using layout_type = RevLayout;
    md::layout_right::mapping<E> inner;
    constexpr mapping() noexcept = default;
    constexpr mapping(const E& e) noexcept : inner(e) {}
    template <class F, class = std::enable_if_t<std::is_constructible<E, F>::value>> constexpr mapping(const mapping<F>& o) noexcept : inner(o.inner) {}
    constexpr const E& extents() const noexcept { return inner.extents(); }
    constexpr index_type required_span_size() const noexcept { return inner.required_span_size(); }
    template <class... I> constexpr index_type operator()(I... i) const noexcept { return static_cast<index_type>(inner.required_span_size() - 1 - inner(i...)); }
    static constexpr bool is_always_unique() noexcept { return true; } static constexpr bool is_always_exhaustive() noexcept { return true; } static constexpr bool is_always_strided() noexcept { return false; }
    static constexpr bool is_unique() noexcept { return true; } static constexpr bool is_exhaustive() noexcept { return true; } static constexpr bool is_strided() noexcept { return false; }
    constexpr index_type stride(rank_type r) const noexcept { return inner.stride(r); }
    template <class F> friend constexpr bool operator==(const mapping& a, const mapping<F>& b) noexcept { return a.inner == b.inner; }
  };
};
template <class E, size_t SP> struct MapOf<KRev, E, SP> { using type = RevLayout::mapping<E>; };

// ---- a third user layout: "broadcast" - every multi-index designates element 0, so the mapping is valid (required_span_size() == 1)
//      for extents whose product is far beyond the index type (size() is then formed in size_type and may wrap)
struct BcLayout {
  template <class E> struct mapping {
    using extents_type = E; using index_type = typename E::index_type; using size_type = typename E::size_type; using rank_type = typename E::rank_type; using layout_type = BcLayout;
    E ext;
    constexpr mapping() noexcept = default;
    constexpr mapping(const E& e) noexcept : ext(e) {}
    template <class F, class = std::enable_if_t<std::is_constructible<E, F>::value>> constexpr mapping(const mapping<F>& o) noexcept : ext(o.ext) {}
    constexpr const E& extents() const noexcept { return ext; }
    constexpr index_type required_span_size() const noexcept { for (rank_type r = 0; r < E::rank(); r++) if (ext.extent(r) == 0) return 0; return 1; }
    template <class... I> constexpr index_type operator()(I...) const noexcept { return 0; }
    static constexpr bool is_always_unique() noexcept { return false; } static constexpr bool is_always_exhaustive() noexcept { return false; } static constexpr bool is_always_strided() noexcept { return true; }
    static constexpr bool is_unique() noexcept { return false; } static constexpr bool is_exhaustive() noexcept { return true; } static constexpr bool is_strided() noexcept { return true; }
    constexpr index_type stride(rank_type) const noexcept { return 0; }
    template <class F> friend constexpr bool operator==(const mapping& a, const mapping<F>& b) noexcept { return a.ext == b.ext; }
  };
};
template <class E, size_t SP> struct MapOf<KBc, E, SP> { using type = BcLayout::mapping<E>; };

#if MDSPAN_USE_BRACKET_OPERATOR && MDSPAN_USE_PAREN_OPERATOR
// both spellings forced on: alternate between them call by call (exactly one of the two is evaluated)
inline bool& parenToggle() { static bool b = false; return b; }
#define VH_AT(m, ...) ((vh::parenToggle() = !vh::parenToggle()) ? m(__VA_ARGS__) : m[__VA_ARGS__])
#elif MDSPAN_USE_BRACKET_OPERATOR
#define VH_AT(m, ...) m[__VA_ARGS__]
#else
#define VH_AT(m, ...) m(__VA_ARGS__)
#endif

template <class MDS> std::string obsView(const MDS& m) {
  using I = typename MDS::index_type; constexpr size_t R = MDS::rank();
  std::string s = "h=" + std::to_string(hOff(m.data_handle()));
  s += " e=" + extList(m.extents()) + " s=";
  std::array<I, R> st{}; if constexpr (R > 0) for (size_t r = 0; r < R; r++) st[r] = m.stride(r);
  s += list(st) + " acc=" + std::to_string(accId(m.accessor()));
  s += " sz=" + num(m.size()) + " emp=" + num(m.empty());
  s += " fl=" + num(m.is_unique()) + num(m.is_exhaustive()) + num(m.is_strided()) + num(MDS::is_always_unique()) + num(MDS::is_always_exhaustive()) + num(MDS::is_always_strided());
  s += " rk=" + std::to_string(MDS::rank()) + "," + std::to_string(MDS::rank_dynamic());
  // forwarders must agree with the mapping / extents
  bool fw = true;
  if constexpr (R > 0) for (size_t r = 0; r < R; r++) fw = fw && m.extent(r) == m.extents().extent(r) && MDS::static_extent(r) == MDS::extents_type::static_extent(r) && m.stride(r) == m.mapping().stride(r);
  fw = fw && m.is_exhaustive() == m.mapping().is_exhaustive() && m.is_unique() == m.mapping().is_unique() && m.is_strided() == m.mapping().is_strided();
  s += " fw=" + num(fw);
  return s;
}

template <class MDS, class S, size_t... K> long atPack(const MDS& m, const std::vector<long long>& v, std::index_sequence<K...>) {
  return refAddr(VH_AT(m, static_cast<S>(v[K])...));
}
template <class MDS, class S, size_t... K> long atCls(const MDS& m, const std::vector<long long>& v, std::index_sequence<K...>) {
  return refAddr(VH_AT(m, IdxLike<S>{static_cast<S>(v[K])}...));
}
template <class MDS, size_t... K> void wrPack(const MDS& m, const std::vector<long long>& v, int val, std::index_sequence<K...>) {
  if constexpr (std::is_assignable_v<typename MDS::reference, int>) VH_AT(m, static_cast<long>(v[K])...) = val;
}
template <class MDS, class S> long atForm(const MDS& m, const std::string& form, const std::vector<long long>& v) {
  constexpr size_t R = MDS::rank();
  if (form == "pack") return atPack<MDS, S>(m, v, std::make_index_sequence<R>());
  if (form == "br1") {      // the single-index operator[]: the pack form with the bracket operator, the rank-1 fallback without it
    if constexpr (R == 1) return refAddr(m[static_cast<S>(v[0])]); else return -1000000;
  }
  if (form == "cls") return atCls<MDS, S>(m, v, std::make_index_sequence<R>());
  std::array<S, R> a{}; for (size_t k = 0; k < R; k++) a[k] = static_cast<S>(v[k]);
  if (form == "arr") return refAddr(VH_AT(m, a));
#ifdef VH_HAS_SPAN
  if (form == "span") {
    std::span<S, R> sp(a.data(), R);
    return refAddr(VH_AT(m, sp));
  }
#endif
  return -1000000;
}
template <class MDS> long atTyped(const MDS& m, const std::string& form, const std::string& ity, const std::vector<long long>& v) {
  if (ity == "i8") return atForm<MDS, signed char>(m, form, v);
  if (ity == "u8") return atForm<MDS, unsigned char>(m, form, v);
  if (ity == "i16") return atForm<MDS, short>(m, form, v);
  if (ity == "u16") return atForm<MDS, unsigned short>(m, form, v);
  if (ity == "i32") return atForm<MDS, int>(m, form, v);
  if (ity == "u32") return atForm<MDS, unsigned>(m, form, v);
  if (ity == "i64") return atForm<MDS, long>(m, form, v);
  if (ity == "u64") return atForm<MDS, unsigned long>(m, form, v);
  return -1000000;
}

template <class E, class S, size_t... K> auto packExt(const std::vector<long long>& v, std::index_sequence<K...>) { return std::make_tuple(static_cast<S>(v[K])...); }


template <Kind K, class E, size_t SP, class A, class MDS2, class MDS3 = MDS2> void regView(const std::string& key) {
  using M = typename MapOf<K, E, SP>::type; using I = typename E::index_type;
  using L = typename M::layout_type; using MDS = md::mdspan<int, E, L, A>;
  registry()[key] = [](const Op& o) -> std::string {
    std::optional<MDS> pool[4]; std::optional<MDS2> pool2[2]; std::optional<MDS3> pool3[2];
    Op oAlt = o;      // an alternative mapping for the same type: ext2= / str2= / pv2=
    if (o.kv.count("ext2")) oAlt.ext = parseList(o.get("ext2"));
    if (o.kv.count("str2")) oAlt.str = parseList(o.get("str2"));
    oAlt.kv.erase("pv"); if (o.kv.count("pv2")) { oAlt.kv["pv"] = o.get("pv2"); oAlt.pv = parseNum(o.get("pv2")); }
    arena().reset(); accessLog().clear();
    std::string out; bool first = true;
    auto emit = [&](const std::string& s) { if (!first) out += " | "; out += s; first = false; };
    using H = typename MDS::data_handle_type;
    int* base = arena().base; (void)base;
    for (const std::string& cmd : splitStr(o.get("seq"), '/')) {
      auto a = splitStr(cmd, ':'); const std::string& c = a[0];
      auto num_ = [&](size_t k) { return k < a.size() ? parseNum(a[k]) : 0LL; };
      auto lst = [&](size_t k) { return k < a.size() ? parseList(a[k]) : std::vector<long long>(); };
      if (c == "pr") { arena().protect(); continue; }
      if (c == "un") { arena().unprotect(); continue; }
      if (c == "cpd" || c == "cpa" || c == "cad" || c == "caa" || c == "csd" || c == "csa") {
        if constexpr (std::is_constructible_v<M, E> && std::is_default_constructible_v<A>) {
          size_t s = num_(1); H p = MkHandle<H>::at(num_(2)); auto v = lst(3);
          constexpr size_t ND = E::rank_dynamic(), NA = E::rank();
          bool dyn = c[2] == 'd'; if (v.size() != (dyn ? ND : NA)) { emit("bad-args"); continue; }
          if (c[1] == 'p') {
            if (dyn) std::apply([&](auto... x) { pool[s].emplace(p, x...); }, packExt<E, I>(v, std::make_index_sequence<ND>()));
            else std::apply([&](auto... x) { pool[s].emplace(p, x...); }, packExt<E, long>(v, std::make_index_sequence<NA>()));
          } else if (c[1] == 'a') {
            if (dyn) { std::array<I, ND> ar{}; for (size_t k = 0; k < ND; k++) ar[k] = static_cast<I>(v[k]); pool[s].emplace(p, ar); }
            else { std::array<int, NA> ar{}; for (size_t k = 0; k < NA; k++) ar[k] = static_cast<int>(v[k]); pool[s].emplace(MDS(p, ar)); }
          } else {
#ifdef VH_HAS_SPAN
            if (dyn) { std::array<I, ND> ar{}; for (size_t k = 0; k < ND; k++) ar[k] = static_cast<I>(v[k]); pool[s].emplace(p, std::span<I, ND>(ar.data(), ND)); }
            else { std::array<unsigned, NA> ar{}; for (size_t k = 0; k < NA; k++) ar[k] = static_cast<unsigned>(v[k]); pool[s].emplace(MDS(p, std::span<unsigned, NA>(ar.data(), NA))); }
#else
            emit("no-op");
#endif
          }
        } else emit("no-ctor");
        continue;
      }
      if (c == "cex") { if constexpr (std::is_constructible_v<M, const E&> && std::is_default_constructible_v<A>) pool[num_(1)].emplace(MkHandle<H>::at(num_(2)), makeExt<E>(o.ext)); else emit("no-ctor"); continue; }
      if (c == "cmp") { if constexpr (std::is_default_constructible_v<A>) pool[num_(1)].emplace(MkHandle<H>::at(num_(2)), makeMap<K, E, SP>(o)); continue; }
      if (c == "cma") {
        if constexpr (std::is_constructible_v<A, int>) pool[num_(1)].emplace(MkHandle<H>::at(num_(2)), makeMap<K, E, SP>(o), A(static_cast<int>(num_(3))));
        else pool[num_(1)].emplace(MkHandle<H>::at(num_(2)), makeMap<K, E, SP>(o), A());
        continue;
      }
      if (c == "cm2") {
        if constexpr (std::is_constructible_v<A, int>) pool[num_(1)].emplace(MkHandle<H>::at(num_(2)), makeMap<K, E, SP>(oAlt), A(static_cast<int>(num_(3))));
        else pool[num_(1)].emplace(MkHandle<H>::at(num_(2)), makeMap<K, E, SP>(oAlt), A());
        continue;
      }
      if (c == "c3") {      // explicit conversion to all-static extents (valid when the run-time extents equal them)
        if constexpr (std::is_constructible_v<MDS3, const MDS&>) { if (pool[num_(2)]) pool3[num_(1)].emplace(MDS3(*pool[num_(2)])); else pool3[num_(1)].reset(); }
        else emit("no-ctor");
        continue;
      }
      if (c == "c4") {      // conversion of a view with the empty default accessor into one with a stateful accessor (id 77 by its converting constructor)
        using MDS4 = md::mdspan<const int, typename MDS2::extents_type, typename MDS2::layout_type, StAcc<const int>>;
        if constexpr (std::is_constructible_v<MDS4, const MDS&>) {
          if (pool[num_(2)]) { MDS4 v(*pool[num_(2)]); MDS4 w(v.data_handle(), v.mapping(), StAcc<const int>(5)); w = MDS4(*pool[num_(2)]); emit("c4 " + obsView(v) + " asg=" + std::to_string(accId(w.accessor()))); }
          else emit("none");
        } else emit("no-ctor");
        continue;
      }
      if (c == "o3") { emit(pool3[num_(1)] ? obsView(*pool3[num_(1)]) : "none"); continue; }
      if (c == "cp") { if (pool[num_(2)]) pool[num_(1)].emplace(*pool[num_(2)]); else pool[num_(1)].reset(); continue; }
      if (c == "mv") { if (pool[num_(2)]) pool[num_(1)].emplace(std::move(*pool[num_(2)])); else pool[num_(1)].reset(); continue; }
      if (c == "as") { if (pool[num_(1)] && pool[num_(2)]) *pool[num_(1)] = *pool[num_(2)]; else emit("skip"); continue; }
      if (c == "ma") { if (pool[num_(1)] && pool[num_(2)]) *pool[num_(1)] = std::move(*pool[num_(2)]); else emit("skip"); continue; }
      if (c == "sw") { if (pool[num_(1)] && pool[num_(2)]) swap(*pool[num_(1)], *pool[num_(2)]); else emit("skip"); continue; }
      if (c == "cv") { if (pool[num_(2)]) pool2[num_(1)].emplace(*pool[num_(2)]); else pool2[num_(1)].reset(); continue; }
      if (c == "ob") { emit(pool[num_(1)] ? obsView(*pool[num_(1)]) : "none"); continue; }
      if (c == "o2") { emit(pool2[num_(1)] ? obsView(*pool2[num_(1)]) : "none"); continue; }
      if (c == "at") {
        if (!pool[num_(1)]) { emit("none"); continue; }
        accessLog().clear();
        lastIdx().clear();
        long p = atTyped(*pool[num_(1)], a[2], a[3], lst(4));
        std::string s = p != -1000000 ? "a=" + std::to_string(p) : std::string("no-form");
        if constexpr (isSelfAcc<A>::value) { if (p != -1000000) s = (p == refAddr(pool[num_(1)]->accessor().value)) ? "a=self" : "a=not-the-view's-accessor"; }
        if (K == KUser) s += " ix=" + list(lastIdx());
        if (!accessLog().empty()) s += " log=" + std::to_string(accessLog()[0].first) + "," + std::to_string(accessLog()[0].second) + " n=" + std::to_string(accessLog().size());
        emit(s); continue;
      }
      if (c == "wr") {
        if (!pool[num_(1)]) { emit("none"); continue; }
        wrPack(*pool[num_(1)], lst(3), static_cast<int>(num_(2)), std::make_index_sequence<E::rank()>()); continue;
      }
      if (c == "lg") { emit("calls=" + std::to_string(accessLog().size())); continue; }      // accessor calls since the start of the sequence / the last access
      if (c == "tx") {      // element access through an accessor that throws: the exception (carrying the offset) must reach the caller
        if (!pool[num_(1)]) { emit("none"); continue; }
        if constexpr (isThrowAcc<A>::value) {
          throwArmed() = true; std::string s;
          try { long p = atTyped(*pool[num_(1)], a[2], a[3], lst(4)); s = p == -1000000 ? "no-form" : "returned"; }
          catch (long off) { s = "threw=" + std::to_string(off); }
          throwArmed() = false; emit(s);
        } else emit("no-op");
        continue; }
      if (c == "df") {
        std::string s = "df="; bool any = false;
        for (size_t i = 0; i < arena().n; i++) if (base[i] != static_cast<int>(1000000 + i)) { if (any) s += ","; s += std::to_string(i) + ":" + std::to_string(base[i]); any = true; }
        if (!any) s += "-";
        emit(s); continue;
      }
      emit("bad-cmd");
    }
    arena().unprotect();
    return out.empty() ? "ok" : out;
  };
}
} // namespace vh
