"""C12: mdarray owns correctly sized storage; its views alias it; copies are independent."""
import random, itertools
from . import common as C
from .mapfam import chain_strides, canon
from .viewfam import spec_strides
import harness.gen_arr as G

def build(cfg): return C.cxx_build('arrsrv', G.sources(), config=cfg)
def warm(prop): build('gcc20-ubsan')

class Buf:
    def __init__(self, data): self.d = list(data); self.valid = True

class Map:
    """a mapping value as the property statement sees it: extents, strides, required_span_size()"""
    def __init__(self, inst, es, ss, pv):
        kind, sp, t, pat, ck = inst
        self.es = list(es); self.st = spec_strides(kind, sp, pat, list(es), ss, pv)
        self.span = 0 if any(e == 0 for e in es) else 1 + sum((e - 1) * s for e, s in zip(es, self.st))
        if kind in ('lpad', 'rpad') and len(es) >= 2:
            # required_span_size() of a padded mapping: padded stride x remaining extents
            ps = self.st[1] if kind == 'lpad' else self.st[-2]
            self.span = ps * C.prod(es[1:] if kind == 'lpad' else es[:-1])
        self.idxs = list(itertools.product(*[range(e) for e in es]))
    def off(self, ix): return sum(i * s for i, s in zip(ix, self.st))

class Sim:
    """the property statement as an executable abstract machine (container()[mapping(i)], deep copies, moves transfer);
    every object carries its own mapping (two mappings of the same type per line, so that assignment / conversion of the
    mapping is observable)"""
    def __init__(self, inst, maps, has_pv):
        self.kind, self.sp, self.t, self.pat, self.ck = inst
        self.maps = maps; self.es = maps[0].es; self.span = maps[0].span
        self.pool = [None] * 4; self.views = [None] * 2; self.has_pv = has_pv
    def kill(self, i):
        if self.pool[i] is not None: self.pool[i]['buf'].valid = False
    def new(self, i, data, m, moved=False):
        self.kill(i); self.pool[i] = dict(buf=Buf(data), moved=moved, m=m)
    def obs(self, i):
        s = self.pool[i]; m = s['m']
        al = [str(j) for j in range(4) if j != i and self.pool[j] is not None and self.pool[j]['buf'] is s['buf'] and len(s['buf'].d) > 0]
        return 'e=%s s=%s csz=%d sz=%d al=%s dh=1 fw=1' % (C.fmt(m.es), C.fmt(m.st), len(s['buf'].d), C.prod(m.es), ''.join(al) or '-')

def gen_seq(rnd, sim, n_ops):
    """generates an admissible command sequence and, alongside, the outputs the property prescribes"""
    seq = []; want = []
    arr = sim.ck == 'arr'; N = 64
    def emit(cmd, w=None):
        seq.append(cmd)
        if w is not None: want.append(w)
    live = lambda: [i for i in range(4) if sim.pool[i] is not None and not sim.pool[i]['moved']]
    ext_ok = sim.kind != 'stride' and not sim.has_pv      # the mapping is fully determined by the extents
    size_ctors = ['cm'] + ([] if arr else ['cma']) + ((['ce', 'ci'] + ([] if arr else ['cea'])) if ext_ok else [])
    adopt_ctors = ['ad', 'am'] + ([] if arr else ['adma', 'amma']) + ((['ade', 'ame'] + ([] if arr else ['adea', 'amea'])) if ext_ok else [])
    M0 = sim.maps[0]; M1 = sim.maps[1] if len(sim.maps) > 1 else None
    def construct(i, which=None):
        """a construction in slot i by a random constructor form, from the first or the second mapping, observed at once"""
        m = which if which is not None else (M1 if (M1 is not None and rnd.random() < 0.4) else M0)
        sfx = '2' if m is M1 else ''
        if rnd.random() < 0.5:
            cf = rnd.choice(size_ctors if m is M0 else ['cm']); sim.new(i, [0] * (N if arr else m.span), m); emit('%s%s:%d' % (cf, sfx, i))
        else:
            cf = rnd.choice(adopt_ctors if m is M0 else ['ad', 'am']); n2 = N if arr else m.span + rnd.choice([0, 0, 1, 5]); v2 = [rnd.randint(1, 99) for _ in range(n2)]
            sim.new(i, v2, m); emit('%s%s:%d:%s' % (cf, sfx, i, C.fmt(v2)))
        emit('ob:%d' % i, sim.obs(i)); emit('el:%d' % i, 'el=' + C.fmt(sim.pool[i]['buf'].d[:256]))
    # two initial constructions: value-initialised from the first mapping, adopted container
    c0 = rnd.choice(size_ctors)
    sim.new(0, [0] * (N if arr else M0.span), M0); emit('%s:0' % c0); emit('ob:0', sim.obs(0)); emit('el:0', 'el=' + C.fmt(sim.pool[0]['buf'].d[:256]))
    if M1 is not None: construct(1, M1)
    else:
        n = N if arr else M0.span + rnd.choice([0, 0, 3]); vals = [rnd.randint(1, 99) for _ in range(n)]
        sim.new(1, vals, M0); emit('%s:1:%s' % (rnd.choice(adopt_ctors), C.fmt(vals))); emit('ob:1', sim.obs(1)); emit('el:1', 'el=' + C.fmt(vals[:256]))
    for _ in range(n_ops):
        L = live()
        op = rnd.choice(['wa', 'ra', 'vw', 'wv', 'rv', 'cc', 'mc', 'ca', 'ma', 'ob', 'wa', 'ra', 'ov', 'cv', 'nw', 'rc'])
        if op == 'nw': construct(rnd.randrange(4)); continue
        if op == 'cv':        # converting constructor (through the all-dynamic twin and back), with or without allocator
            src = [j for j in range(4) if sim.pool[j] is not None]
            if not src: continue
            j = rnd.choice(src); i = rnd.choice([x for x in range(4) if x != j]); sj = sim.pool[j]
            sim.new(i, sj['buf'].d, sj['m'], sj['moved']); emit('%s:%d:%d' % (rnd.choice(['cv'] + ([] if arr else ['cva'])), i, j)); emit('ob:%d' % i, sim.obs(i)); emit('ob:%d' % j, sim.obs(j))
            emit('el:%d' % i, 'el=' + C.fmt(sim.pool[i]['buf'].d[:256])); continue
        if op in ('wa', 'ra', 'rc') and L:
            i = rnd.choice(L); m = sim.pool[i]['m']
            if not m.idxs: continue
            ix = rnd.choice(m.idxs)
            if op == 'wa':
                v = rnd.randint(100, 999); sim.pool[i]['buf'].d[m.off(ix)] = v; emit('wa:%d:%d:%s' % (i, v, C.fmt(list(ix))))
            elif op == 'ra':
                v = sim.pool[i]['buf'].d[m.off(ix)]; emit('ra:%d:%s' % (i, C.fmt(list(ix))), 'v=%d cv=%d pos=%d' % (v, v, m.off(ix)))
            else:      # element read through each of the four view-producing members of the (const / non-const) array
                v = sim.pool[i]['buf'].d[m.off(ix)]; emit('rc:%d:%s' % (i, C.fmt(list(ix))), 'tm=%d tc=%d om=%d oc=%d same=1' % (v, v, v, v))
        elif op == 'vw' and L:
            i = rnd.choice(L); k = rnd.randrange(2); sim.views[k] = (sim.pool[i]['buf'], sim.pool[i]['m']); emit('%s:%d:%d' % (rnd.choice(['vw', 'vc']), k, i))
        elif op in ('wv', 'rv', 'ov'):
            ks = [k for k in range(2) if sim.views[k] is not None and sim.views[k][0].valid and len(sim.views[k][0].d) >= sim.views[k][1].span]
            if not ks: continue
            k = rnd.choice(ks); b, m = sim.views[k]
            if op == 'ov':
                base = [str(j) for j in range(4) if sim.pool[j] is not None and sim.pool[j]['buf'] is b and len(b.d) > 0]
                emit('ov:%d' % k, 'base=%s e=%s' % (''.join(base) or '-', C.fmt(m.es))); continue
            if not m.idxs: continue
            ix = rnd.choice(m.idxs)
            if op == 'wv':
                v = rnd.randint(1000, 9999); b.d[m.off(ix)] = v; emit('wv:%d:%d:%s' % (k, v, C.fmt(list(ix))))
            else: emit('rv:%d:%s' % (k, C.fmt(list(ix))), 'v=%d' % b.d[m.off(ix)])
        elif op in ('cc', 'mc'):
            src = [j for j in range(4) if sim.pool[j] is not None]
            if not src: continue
            j = rnd.choice(src); i = rnd.choice([x for x in range(4) if x != j]); s = sim.pool[j]
            if op == 'cc' or arr: sim.new(i, s['buf'].d, s['m'], s['moved'])
            else:
                sim.kill(i); sim.pool[i] = dict(buf=s['buf'], moved=s['moved'], m=s['m']); sim.pool[j] = dict(buf=Buf([]), moved=True, m=s['m'])
            emit('%s:%d:%d' % (op, i, j)); emit('ob:%d' % i, sim.obs(i)); emit('ob:%d' % j, sim.obs(j))
        elif op in ('ca', 'ma'):
            both = [j for j in range(4) if sim.pool[j] is not None]
            if len(both) < 2: continue
            i, j = rnd.sample(both, 2); si, sj = sim.pool[i], sim.pool[j]
            if arr: si['buf'].d[:] = sj['buf'].d; si['moved'] = sj['moved']; si['m'] = sj['m']
            elif op == 'ca': sim.new(i, sj['buf'].d, sj['m'], sj['moved'])
            else:
                sim.kill(i); sim.pool[i] = dict(buf=sj['buf'], moved=sj['moved'], m=sj['m']); sim.pool[j] = dict(buf=Buf([]), moved=True, m=sj['m'])
            emit('%s:%d:%d' % (op, i, j)); emit('ob:%d' % i, sim.obs(i)); emit('ob:%d' % j, sim.obs(j))
            if not sim.pool[i]['moved']: emit('el:%d' % i, 'el=' + C.fmt(sim.pool[i]['buf'].d[:256]))
        elif op == 'ob' and L:
            i = rnd.choice(L); emit('ob:%d' % i, sim.obs(i)); emit('el:%d' % i, 'el=' + C.fmt(sim.pool[i]['buf'].d[:256]))
    return seq, want

def check(prop, tier, seed, replay=None):
    rep = C.Report(prop, tier, seed); audit = C.proof_audit(prop); rnd = random.Random(seed); thorough = tier == 'thorough'
    rep.cov['rule'] = ('mdarray<int, E, L, C> over 7 layouts x 3 index types x 6 extents patterns x {std::vector<int>, std::array<int,64>}: construct from mapping / extents / integer pack, each with and without allocator (value-initialisation and exact size observed), '
                       'adopt a container by const reference / by move from extents or mapping, with and without allocator, converting construction (with and without allocator) through the all-dynamic twin type, then 8 (thorough 40) random operations among element write / read (const and non-const) through the array, to_mdspan() / conversion operator, '
                       'write / read through the view, copy / move construction and assignment, with observations of extents, strides, container size, size(), aliasing between all live objects and views; objects of one pool are built from two different mappings of the same type (other dynamic extents / strides / run-time padding) so that the mapping part of copy / move / assignment / conversion is observable; all four view-producing members (to_mdspan and the conversion operator, const and non-const) are read through; '
                       'only admissible actions (no access to moved-from objects, no use of views whose buffer was released); non-trivial = rank >= 1 and non-empty')
    cases = []
    if replay: cases = [(replay['line'], replay['want'], replay.get('seq'))]
    else:
        for inst in G.instances():
            kind, sp, t, pat, ck = inst; H = C.hi(t)
            for _ in range(2 if not thorough else 8):
                es = [p if p is not None else rnd.choice([0, 1, 2, 3, 4]) for p in pat]
                ss = chain_strides(rnd, es, (1, 1, 2)) if kind == 'stride' else None
                pv = rnd.choice([None, 1, 2, 3]) if (kind in ('lpad', 'rpad') and sp == 'D') else None
                maps = [Map(inst, es, ss, pv)]; alt = ''
                # a second mapping of the same type: other dynamic extents, other strides, other run-time padding
                if rnd.random() < 0.7 and (any(p is None for p in pat) or kind == 'stride' or (kind in ('lpad', 'rpad') and sp == 'D')):
                    es2 = [p if p is not None else (e if rnd.random() < 0.6 else rnd.choice([0, 1, 2, 3, 4])) for p, e in zip(pat, es)]
                    ss2 = chain_strides(rnd, es2, (1, 1, 2)) if kind == 'stride' else None
                    pv2 = rnd.choice([1, 2, 3, 4]) if (kind in ('lpad', 'rpad') and sp == 'D') else None
                    m2 = Map(inst, es2, ss2, pv2)
                    if (m2.es, m2.st) != (maps[0].es, maps[0].st):
                        maps.append(m2); alt = ' ext2=%s' % C.fmt(es2) + (' str2=%s' % C.fmt(ss2) if ss2 is not None else '') + (' pv2=%d' % pv2 if pv2 is not None else '')
                if any(m.span > min(H, 60) for m in maps): continue
                sim = Sim(inst, maps, pv is not None)
                seq, want = gen_seq(rnd, sim, 8 if not thorough else 40)
                line = G.line(inst) + ' ext=%s' % C.fmt(es) + (' str=%s' % C.fmt(ss) if ss is not None else '') + (' pv=%d' % pv if pv is not None else '') + alt + ' seq=' + '/'.join(seq)
                cases.append((line, want, seq))
    lines = [c[0] for c in cases]
    import collections
    dist = collections.Counter(cmd.split(':')[0] for c in cases for cmd in (c[2] or []))
    rep.notes['op_distribution'] = dict(sorted(dist.items()))
    mout = [canon(x) for x in C.driver(lines)]
    configs = ['gcc20-ubsan'] + (['gcc23-asan', 'clang20-O0-assert', 'gcc20-O2-ndebug-emul'] if thorough else [])
    rep.notes['configs'] = configs
    for cfg in configs:
        try: exe, secs, cached = build(cfg)
        except C.BuildError as e:
            rep.broke(dict(correspondence='mdarray op server build (%s)' % cfg, why=str(e), log=e.log[-3000:])); continue
        rep.notes.setdefault('server_build_s', {})[cfg] = round(secs, 1)
        partial = C.report_dropped(rep, exe, 'mdarray op server', cfg)
        iout = [canon(x) for x in C.pipe(exe, lines)]
        for (line, want, seq), xi, xm in zip(cases, iout, mout):
            if partial and xi == 'no-inst': continue      # instantiation does not compile (reported above); keep searching with the rest
            rep.cov['evaluations'] += len(seq or []); rep.cov['traces_validated_against_impl'] += 1
            pub = dict(line=line, want=want, config=cfg)
            if ' ext=-' not in line: rep.nontrivial(line)
            if xi != xm:
                si, sm = xi.split(' | '), xm.split(' | ')
                k = next((q for q, (x, y) in enumerate(zip(si, sm)) if x != y), min(len(si), len(sm)))
                rep.broke(dict(correspondence='mdarray family vs APool model', first_differing_observation=k, impl=si[k] if k < len(si) else None, model=sm[k] if k < len(sm) else None, **pub))
            got = xi.split(' | ')
            if got != want:
                k = next((q for q, (x, y) in enumerate(zip(got, want)) if x != y), min(len(got), len(want)))
                kind = 'mdarray-behaviour-differs-from-the-statement'
                g = got[k] if k < len(got) else xi
                if g.startswith('el='): kind = 'container-contents-wrong (size / value-initialisation / adopted elements / aliasing)'
                elif g.startswith('v='): kind = 'element-access-is-not-container()[mapping()(i...)] or write-not-visible-through-view/array'
                elif g.startswith('e='): kind = 'container-size / size() / aliasing-of-copies-or-moves wrong'
                rep.violation(dict(kind=kind, observation_index=k, impl=g, specified=want[k] if k < len(want) else None, **pub)); continue
            if len(want) > 8: rep.sample(dict(line=line[:300], output=xi[:200]), cap=4)
    rep.assumptions = ['containers are modelled as lists, buffer identity as an id; allocator-taking constructors are instantiated with std::allocator only (no pmr, no stateful allocator)', 'std::array containers must be large enough for the mapping (a precondition the library does not check)']
    return rep.finish(audit)
