from vf.common import ITYPES
from harness.gen_map import cxx_extents, KINDS, pat_str
def instances():
    out = []
    for t in ('i32', 'u8', 'i64'):
        for pat in ((None,), (None, None), (3, None), (None, None, None), (2, 3, 2)):
            for kind, sp in (('left', None), ('right', None), ('stride', None), ('lpad', 'D'), ('rpad', 4)):
                if t == 'u8' and sp == 4: continue
                out.append((kind, sp, t, pat))
    return out
def key(i): return 'conc:%s:%s:%s%s' % (i[0], i[2], pat_str(i[3]), (':%s' % i[1]) if i[1] is not None else '')
def line(i): return 'conc %s %s pat=%s%s' % (i[0], i[2], pat_str(i[3]), (' sp=%s' % i[1]) if i[1] is not None else '')
def sources(ntu=8):
    tus = [[] for _ in range(ntu)]
    for n, i in enumerate(instances()):
        kind, sp, t, pat = i; spv = 'md::dynamic_extent' if sp in (None, 'D') else str(sp)
        tus[n % ntu].append('  regConc<%s, %s, %s>("%s");' % (KINDS[kind], cxx_extents(t, pat), spv, key(i)))
    srcs = [('conc_tu%d.cpp' % i, '#include "concsrv.hpp"\nusing namespace vh;\nvoid reg_conc_%d() {\n%s\n}\n' % (i, '\n'.join(b))) for i, b in enumerate(tus)]
    srcs.append(('conc_main.cpp', '#include "vh.hpp"\n' + ''.join('void reg_conc_%d();\n' % i for i in range(ntu)) + 'int main() {\n' + ''.join('  reg_conc_%d();\n' % i for i in range(ntu)) + '  return vh::serve();\n}\n'))
    return srcs
