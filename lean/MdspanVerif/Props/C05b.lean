import MdspanVerif.Props.C07Padded
/-!
# C05 — required_span_size of the padded layouts: empty index spaces, rank 0 and rank 1

`required_span_size()` is 0 for an empty index space, 1 for rank 0, the extent for rank 1
(no padding is applied), and otherwise at least `max offset + 1` and exactly
`padded stride × product of the remaining extents`.

The "0 iff empty" part needs one fact about the padded stride: it is 0 exactly when the
extent it pads is 0.  This holds for every constructed mapping, whose padded stride is
`find_next_multiple(padding, extent)` with a positive padding.
-/
namespace Mdspan

/-! ### the padded stride of a constructed mapping -/

/-- the least multiple of a positive padding that is ≥ the extent is 0 only for extent 0 -/
theorem findNextMultiple_eq_zero_iff (a o : Nat) (ha : 0 < a) : findNextMultiple a o = 0 ↔ o = 0 := by
  constructor
  · intro h
    have := (findNextMultiple_spec a o ha).2.1
    omega
  · intro h; subst h; exact findNextMultiple_zero a

/-- … and is never smaller than the extent: constructed mappings satisfy `PadOK…` -/
theorem findNextMultiple_ge (a o : Nat) (ha : 0 < a) : o ≤ findNextMultiple a o :=
  (findNextMultiple_spec a o ha).2.1

theorem padOKLeft_constructed (a : Nat) (ha : 0 < a) (es : List Nat) :
    PadOKLeft (findNextMultiple a (es.headD 0)) es := by
  match es with
  | [] => exact Or.inl (by simp)
  | [_] => exact Or.inl (by simp)
  | e :: e' :: es => exact (padOKLeft_iff _ e e' es).mpr (findNextMultiple_ge a e ha)

theorem leL_replaceLast_of_last (ps : Nat) : ∀ (es : List Nat) (el : Nat), es.getLast? = some el → el ≤ ps →
    LeL es (replaceLast ps es)
  | [], _, h, _ => by simp at h
  | [e], el, h, hle => by
    simp at h; subst h; exact ⟨hle, trivial⟩
  | e :: e' :: es, el, h, hle => by
    have h' : (e' :: es).getLast? = some el := by simpa [List.getLast?_cons_cons] using h
    exact ⟨Nat.le_refl _, leL_replaceLast_of_last ps (e' :: es) el h' hle⟩

theorem getLast?_cons_some : ∀ (e : Nat) (es : List Nat), ∃ el, (e :: es).getLast? = some el
  | e, [] => ⟨e, rfl⟩
  | e, e' :: es => by
    obtain ⟨el, h⟩ := getLast?_cons_some e' es
    exact ⟨el, by simpa [List.getLast?_cons_cons] using h⟩

theorem padOKRight_constructed (a : Nat) (ha : 0 < a) (es : List Nat) :
    PadOKRight (findNextMultiple a (es.getLast?.getD 0)) es := by
  match es with
  | [] => exact Or.inl (by simp)
  | e :: es =>
    refine Or.inr ?_
    obtain ⟨el, hl⟩ := getLast?_cons_some e es
    rw [hl]
    exact leL_replaceLast_of_last _ (e :: es) el hl (findNextMultiple_ge a el ha)

/-! ### membership of 0 in the allocation extents -/

theorem zero_mem_replaceLast (ps : Nat) : ∀ (es : List Nat) (el : Nat), es.getLast? = some el →
    (ps = 0 ↔ el = 0) → (0 ∈ replaceLast ps es ↔ 0 ∈ es)
  | [], _, h, _ => by simp at h
  | [e], el, h, hz => by
    simp at h; subst h
    simp only [replaceLast, List.mem_singleton]
    constructor
    · intro h; exact (hz.mp h.symm).symm
    · intro h; exact (hz.mpr h.symm).symm
  | e :: e' :: es, el, h, hz => by
    have h' : (e' :: es).getLast? = some el := by simpa [List.getLast?_cons_cons] using h
    have ih := zero_mem_replaceLast ps (e' :: es) el h' hz
    simp only [replaceLast, List.mem_cons] at ih ⊢
    rw [ih]

/-! ### layout_left_padded -/

/-- **C05, layout_left_padded, rank ≥ 2**: the span is 0 exactly for an empty index space,
    provided the padded stride vanishes exactly when the padded (first) extent does.
    (`PadOKLeft` is not needed for this part.) -/
theorem C05_lpad_zero_iff (ps e e' : Nat) (es : List Nat) (hz : ps = 0 ↔ e = 0) :
    (Layout.lpad (e :: e' :: es) ps).span = 0 ↔ 0 ∈ e :: e' :: es := by
  rw [C05_lpad_upper, Nat.mul_eq_zero, prod_eq_zero_iff, List.mem_cons (a := 0) (b := e), hz]
  constructor
  · rintro (h | h)
    · exact Or.inl h.symm
    · exact Or.inr h
  · rintro (h | h)
    · exact Or.inl h.symm
    · exact Or.inr h

/-- under `PadOKLeft` (padded stride ≥ first extent) only one direction of the side
    condition has to be assumed -/
theorem C05_lpad_zero_iff' (ps e e' : Nat) (es : List Nat) (hv : PadOKLeft ps (e :: e' :: es))
    (hz : e = 0 → ps = 0) :
    (Layout.lpad (e :: e' :: es) ps).span = 0 ↔ 0 ∈ e :: e' :: es := by
  have hle := (padOKLeft_iff ps e e' es).mp hv
  exact C05_lpad_zero_iff ps e e' es ⟨fun h => by omega, hz⟩

/-- every constructed layout_left_padded mapping (positive padding `a`) -/
theorem C05_lpad_zero_constructed (a e e' : Nat) (es : List Nat) (ha : 0 < a) :
    (Layout.lpad (e :: e' :: es) (findNextMultiple a e)).span = 0 ↔ 0 ∈ e :: e' :: es :=
  C05_lpad_zero_iff _ e e' es (findNextMultiple_eq_zero_iff a e ha)

theorem C05_lpad_rank1 (ps e : Nat) : (Layout.lpad [e] ps).span = e := rfl
theorem C05_lpad_rank0 (ps : Nat) : (Layout.lpad [] ps).span = 1 := rfl

/-! ### layout_right_padded -/

/-- **C05, layout_right_padded, rank ≥ 2**: the span is 0 exactly for an empty index space,
    provided the padded stride vanishes exactly when the padded (last) extent does. -/
theorem C05_rpad_zero_iff (ps e e' el : Nat) (es : List Nat)
    (hl : (e :: e' :: es).getLast? = some el) (hz : ps = 0 ↔ el = 0) :
    (Layout.rpad (e :: e' :: es) ps).span = 0 ↔ 0 ∈ e :: e' :: es := by
  rw [C05_rpad_upper, prod_eq_zero_iff]
  exact zero_mem_replaceLast ps (e :: e' :: es) el hl hz

/-- under `PadOKRight` (padded stride ≥ last extent) one direction suffices -/
theorem C05_rpad_zero_iff' (ps e e' el : Nat) (es : List Nat)
    (hv : PadOKRight ps (e :: e' :: es))
    (hl : (e :: e' :: es).getLast? = some el) (hz : el = 0 → ps = 0) :
    (Layout.rpad (e :: e' :: es) ps).span = 0 ↔ 0 ∈ e :: e' :: es := by
  have hle : LeL (e :: e' :: es) (replaceLast ps (e :: e' :: es)) := by
    rcases hv with h | h
    · simp at h; omega
    · exact h
  -- the last extent is at most the padded stride
  have hlast : ∀ (l : List Nat), LeL l (replaceLast ps l) → l.getLast? = some el → el ≤ ps := by
    intro l
    induction l with
    | nil => intro _ h; simp at h
    | cons x xs ih =>
      intro hle h
      cases xs with
      | nil => simp at h; subst h; exact hle.1
      | cons y ys =>
        exact ih hle.2 (by simpa [List.getLast?_cons_cons] using h)
  have := hlast _ hle hl
  exact C05_rpad_zero_iff ps e e' el es hl ⟨fun h => by omega, hz⟩

/-- every constructed layout_right_padded mapping (positive padding `a`) -/
theorem C05_rpad_zero_constructed (a e e' el : Nat) (es : List Nat) (ha : 0 < a)
    (hl : (e :: e' :: es).getLast? = some el) :
    (Layout.rpad (e :: e' :: es) (findNextMultiple a el)).span = 0 ↔ 0 ∈ e :: e' :: es :=
  C05_rpad_zero_iff _ e e' el es hl (findNextMultiple_eq_zero_iff a el ha)

theorem C05_rpad_rank1 (ps e : Nat) : (Layout.rpad [e] ps).span = e := rfl
theorem C05_rpad_rank0 (ps : Nat) : (Layout.rpad [] ps).span = 1 := rfl

/-! ### the full C05 statement for the padded layouts, every rank -/

/-- layout_left_padded: 1 for rank 0; the extent for rank 1; for rank ≥ 2 zero iff the index
    space is empty, and otherwise between `max offset + 1` and (equal to) `ps × Π rest`. -/
theorem C05_lpad (ps : Nat) (es : List Nat) (hv : (Layout.lpad es ps).Valid)
    (hz : es.headD 0 = 0 → ps = 0) :
    ((Layout.lpad es ps).span = 0 ↔ 0 ∈ es) ∧
    (es = [] → (Layout.lpad es ps).span = 1) ∧
    ((∀ x ∈ es, 0 < x) →
      (Layout.lpad es ps).offset (maxIdx es) + 1 ≤ (Layout.lpad es ps).span) ∧
    (2 ≤ es.length → (Layout.lpad es ps).span = ps * prod es.tail) := by
  match es, hv, hz with
  | [], _, _ => simp [Layout.span, lpadSpan, Layout.offset, lpadOff, maxIdx]
  | [e], _, _ =>
    refine ⟨by simp [Layout.span, lpadSpan, eq_comm], by simp, ?_, by simp⟩
    intro hp
    have := hp e (by simp)
    simp [Layout.span, lpadSpan, Layout.offset, lpadOff, maxIdx]; omega
  | e :: e' :: es, hv, hz =>
    refine ⟨C05_lpad_zero_iff' ps e e' es hv hz, by simp, ?_, fun _ => rfl⟩
    intro hp
    exact C05_padded_lower (Layout.lpad (e :: e' :: es) ps) hv hp
      (by simp [Layout.strides, Layout.extents, lpadStrides_length])

/-- layout_right_padded, same statement -/
theorem C05_rpad (ps : Nat) (es : List Nat) (hv : (Layout.rpad es ps).Valid)
    (hz : es.getLast?.getD 0 = 0 → ps = 0) :
    ((Layout.rpad es ps).span = 0 ↔ 0 ∈ es) ∧
    (es = [] → (Layout.rpad es ps).span = 1) ∧
    ((∀ x ∈ es, 0 < x) →
      (Layout.rpad es ps).offset (maxIdx es) + 1 ≤ (Layout.rpad es ps).span) ∧
    (2 ≤ es.length → (Layout.rpad es ps).span = prod (replaceLast ps es)) := by
  match es, hv, hz with
  | [], _, _ => simp [Layout.span, rpadSpan, Layout.offset, rpadOff, maxIdx]
  | [e], _, _ =>
    refine ⟨by simp [Layout.span, rpadSpan, eq_comm], by simp, ?_, by simp⟩
    intro hp
    have := hp e (by simp)
    simp [Layout.span, rpadSpan, Layout.offset, rpadOff, maxIdx]; omega
  | e :: e' :: es, hv, hz =>
    obtain ⟨el, hl⟩ := getLast?_cons_some e (e' :: es)
    rw [hl] at hz
    refine ⟨C05_rpad_zero_iff' ps e e' el es hv hl hz, by simp, ?_,
      fun _ => C05_rpad_upper ps e e' es⟩
    intro hp
    exact C05_padded_lower (Layout.rpad (e :: e' :: es) ps) hv hp
      (by simp [Layout.strides, Layout.extents, rpadStrides_length])

/-! ## non-vacuity, and why the side condition is needed -/

example : (Layout.lpad [5, 0, 3] 8).span = 0 := by decide
example : (Layout.lpad [0, 2, 3] (findNextMultiple 4 0)).span = 0 := by decide
example : (Layout.rpad [2, 0, 5] 8).span = 0 := by decide
example : (Layout.rpad [2, 3, 0] (findNextMultiple 4 0)).span = 0 := by decide
example : (Layout.lpad [5, 2, 3] (findNextMultiple 4 5)).span = 48 := by decide
example : (Layout.rpad [2, 3, 5] (findNextMultiple 4 5)).span = 48 := by decide
example : (Layout.lpad [5, 2, 3] 8).span = 0 ↔ 0 ∈ [5, 2, 3] :=
  C05_lpad_zero_iff 8 5 2 [3] (by decide)
example : (Layout.rpad [2, 3, 5] 8).span = 0 ↔ 0 ∈ [2, 3, 5] :=
  C05_rpad_zero_iff 8 2 3 5 [5] rfl (by decide)
-- a hand-made mapping that pads an empty extent to a non-zero stride would report a
-- non-zero span for an empty index space: the side condition cannot be dropped
example : (Layout.lpad [0, 2, 3] 8).Valid ∧ (Layout.lpad [0, 2, 3] 8).span = 48 := by
  refine ⟨by simp [Layout.Valid, padOKLeft_iff], by decide⟩
example : (Layout.rpad [2, 3, 0] 8).Valid ∧ (Layout.rpad [2, 3, 0] 8).span = 48 := by
  refine ⟨by simp [Layout.Valid, PadOKRight, replaceLast, LeL], by decide⟩

end Mdspan
