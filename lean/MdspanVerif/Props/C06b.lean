import MdspanVerif.Model.ExtentsM
import MdspanVerif.Props.C06
/-!
# C06 — comparison across index types and patterns; typed construction
-/
namespace Mdspan

theorem ITy.hi_le_common_left (a b : ITy) : a.hi ≤ (ITy.common a b).hi := by cases a <;> cases b <;> decide
theorem ITy.hi_le_common_right (a b : ITy) : b.hi ≤ (ITy.common a b).hi := by cases a <;> cases b <;> decide

/-- comparison in the common type is exact on non-negative values representable in their own types -/
theorem V.eq_iff (a b : V) (ha : 0 ≤ a.v) (ha' : a.v ≤ a.ty.hi) (hb : 0 ≤ b.v) (hb' : b.v ≤ b.ty.hi) :
    V.eq a b = true ↔ a.v = b.v := by
  have h1 := ITy.hi_le_common_left a.ty b.ty
  have h2 := ITy.hi_le_common_right a.ty b.ty
  unfold V.eq
  simp only
  rw [ITy.wrap_id _ a.v ha (by omega), ITy.wrap_id _ b.v hb (by omega)]
  simp

/-- every extent is a non-negative value of the index type -/
def Ext.Rep (T : ITy) (x : Ext) : Prop := ∀ r, r < x.rank → 0 ≤ x.extent r ∧ x.extent r ≤ T.hi

theorem Ext.eqGo_iff (T U : ITy) (a b : Ext) (ha : a.Rep T) (hb : b.Rep U) :
    ∀ (n r : Nat), r + n ≤ a.rank → r + n ≤ b.rank →
      (Ext.eqGo T U a b r n = true ↔ ∀ k, r ≤ k → k < r + n → a.extent k = b.extent k)
  | 0, r, _, _ => by simp [Ext.eqGo]; intro k h1 h2; omega
  | n + 1, r, h1, h2 => by
    have hra := ha r (by omega)
    have hrb := hb r (by omega)
    have hv := V.eq_iff ⟨U, b.extent r⟩ ⟨T, a.extent r⟩ hrb.1 hrb.2 hra.1 hra.2
    have ih := Ext.eqGo_iff T U a b ha hb n (r + 1) (by omega) (by omega)
    simp only [Ext.eqGo]
    constructor
    · intro h
      split at h
      · rename_i hveq
        have he : b.extent r = a.extent r := hv.mp hveq
        intro k hk1 hk2
        by_cases hkr : k = r
        · subst hkr; exact he.symm
        · exact (ih.mp h) k (by omega) (by omega)
      · exact absurd h (by simp)
    · intro h
      have he : b.extent r = a.extent r := (h r (Nat.le_refl _) (by omega)).symm
      rw [if_pos (hv.mpr he)]
      exact ih.mpr (fun k hk1 hk2 => h k (by omega) (by omega))

/-- **C06 (comparison)**: two extents compare equal exactly when they have the same rank and
    equal `extent(r)` for every `r` — across index types and static/dynamic patterns -/
theorem C06_eq_iff (T U : ITy) (a b : Ext) (ha : a.Rep T) (hb : b.Rep U) :
    Ext.eqM T U a b = true ↔ a.rank = b.rank ∧ ∀ r, r < a.rank → a.extent r = b.extent r := by
  unfold Ext.eqM
  by_cases hr : a.rank = b.rank
  · rw [if_pos hr]
    have := Ext.eqGo_iff T U a b ha hb a.rank 0 (by omega) (by omega)
    rw [this]
    constructor
    · intro h; exact ⟨hr, fun r hlt => h r (Nat.zero_le _) (by omega)⟩
    · intro h k _ hk; exact h.2 k (by omega)
  · rw [if_neg hr]; simp [hr]

/-- typed construction: the value stored for a position is the argument converted to `index_type`;
    it is the argument itself when that is a non-negative value of both types -/
theorem castArg_id (T S : ITy) (v : Int) (h0 : 0 ≤ v) (hS : v ≤ S.hi) (hT : v ≤ T.hi) : castArg T S v = v := by
  unfold castArg; rw [ITy.wrap_id S v h0 hS, ITy.wrap_id T v h0 hT]

theorem C06_ctorM_all (T S : ITy) (p : Pattern) (vals : List Int) (hl : vals.length = p.length)
    (hne : vals.length ≠ rankDyn p) (r : Nat) :
    (Ext.ctorM T S p vals).extent r =
      match p[r]? with
      | some (some s) => (s : Int)
      | some none => castArg T S (vals.getD r 0)
      | none => 0 := by
  unfold Ext.ctorM Ext.ctor
  rw [if_neg (by simpa using hne)]
  rw [C06_fromAll p (vals.map (castArg T S)) (by simpa using hl) r]
  cases hp : p[r]? with
  | none => rfl
  | some a =>
    cases a with
    | some s => rfl
    | none =>
      have hr : r < vals.length := by
        have := List.getElem?_eq_some_iff.mp hp
        obtain ⟨h, _⟩ := this; omega
      simp [List.getD, List.getElem?_map, List.getElem?_eq_getElem hr]

theorem C06_ctorM_dyn (T S : ITy) (p : Pattern) (vals : List Int) (hd : vals.length = rankDyn p) (r : Nat) :
    (Ext.ctorM T S p vals).extent r =
      match p[r]? with
      | some (some s) => (s : Int)
      | some none => (vals.map (castArg T S)).getD (dynSlot p r) 0
      | none => 0 := by
  unfold Ext.ctorM Ext.ctor
  rw [if_pos (by simpa using hd)]
  exact C06_fromDyn p _ r

/-- conversion: a dynamic position of the target reports the source's extent converted to the
    target index type — value-preserving when representable -/
theorem C06_convM (T : ITy) (p : Pattern) (src : Ext) (r : Nat) (h : p[r]? = some none) :
    (Ext.convM T p src).extent r = T.wrap (src.extent r) := by
  have hs := convGo_spec src p 0 r h
  rw [Nat.zero_add] at hs
  have hlt := dynSlot_lt p r h
  show (match p[r]? with
    | some (some s) => (s : Int)
    | some none => ((convGo src p 0).map T.wrap).getD (dynSlot p r) 0
    | none => 0) = _
  rw [h]
  simp only [List.getD, List.getElem?_map]
  cases hg : (convGo src p 0)[dynSlot p r]? with
  | none =>
    simp only [List.getD, hg] at hs
    have h0 : src.extent r = 0 := by simpa using hs.symm
    rw [h0, ITy.wrap_id T 0 (Int.le_refl 0) (ITy.hi_nonneg T)]
    simp
  | some v =>
    simp only [List.getD, hg, Option.getD_some] at hs
    simp [hs]

example : Ext.eqM .i8 .u64 (Ext.ctorM .i8 .i32 [none, some 3] [5]) (Ext.ctorM .u64 .u64 [some 5, none] [5, 3]) = true := by decide
example : Ext.eqM .i8 .u64 (Ext.ctorM .i8 .i32 [none, some 3] [5]) (Ext.ctorM .u64 .u64 [none] [5]) = false := by decide

end Mdspan
