import MdspanVerif.Model.Sizes
/-!
# C18 — static information costs no storage (consequences of the size formulas)
-/
namespace Mdspan

theorem ITy.size_pos (T : ITy) : 0 < T.size := by cases T <;> decide

theorem upTo_ge (x a : Nat) (ha : 0 < a) : x ≤ upTo x a := by
  unfold upTo
  have h := Nat.div_add_mod (x + a - 1) a
  have hm := Nat.mod_lt (x + a - 1) ha
  have : (x + a - 1) / a * a = a * ((x + a - 1) / a) := Nat.mul_comm _ _
  omega

theorem upTo_of_dvd (k a : Nat) (ha : 0 < a) : upTo (k * a) a = k * a := by
  unfold upTo
  have : (k * a + a - 1) / a = k := by
    rw [show k * a + a - 1 = (a - 1) + k * a by omega, Nat.add_mul_div_right _ _ ha]
    have : (a - 1) / a = 0 := Nat.div_eq_of_lt (by omega)
    omega
  rw [this]

/-- **C18 (extents)**: `sizeof(extents)` is `rank_dynamic() × sizeof(index_type)`; an empty class
    exactly when there is no dynamic extent -/
theorem C18_ext (T : ITy) (p : Pattern) :
    (isEmptyExt p = true ↔ rankDyn p = 0) ∧ (0 < rankDyn p → sizeofExt T p = rankDyn p * T.size) := by
  constructor
  · simp [isEmptyExt]
  · intro h
    have := T.size_pos
    have : 1 ≤ rankDyn p * T.size := Nat.mul_pos h this
    simp [sizeofExt]; omega

/-- the size depends on the number of dynamic extents only, and grows with it -/
theorem C18_ext_mono (T : ITy) (p q : Pattern) (h : rankDyn p ≤ rankDyn q) : sizeofExt T p ≤ sizeofExt T q := by
  have := Nat.mul_le_mul_right T.size h
  simp only [sizeofExt]; omega

/-- **C18 (layout_left / layout_right)** add nothing to their extents -/
theorem C18_lr (T : ITy) (p : Pattern) : sizeofLR T p = sizeofExt T p ∧ isEmptyLR p = isEmptyExt p := ⟨rfl, rfl⟩

/-- **C18 (layout_stride)** adds exactly `rank()` strides -/
theorem C18_stride (T : ITy) (p : Pattern) (hr : 0 < p.length) :
    sizeofStride T p = rankDyn p * T.size + p.length * T.size ∧
    (0 < rankDyn p → sizeofStride T p = sizeofExt T p + p.length * T.size) := by
  have hne : p.length ≠ 0 := by omega
  constructor
  · simp [sizeofStride, hne, Nat.add_mul]
  · intro h
    rw [(C18_ext T p).2 h]; simp [sizeofStride, hne, Nat.add_mul]

/-- **C18 (padded layouts)** add at most one padded stride (up to alignment), and nothing but
    padding bytes when the padded stride is static -/
theorem C18_padded (T : ITy) (p : Pattern) (b : Bool) :
    sizeofPadded T p b ≤ upTo (sizeofExt T p + T.size) T.size := by
  have hz := T.size_pos
  unfold sizeofPadded
  split
  · simp only [sizeofExt, Nat.add_comm]; exact Nat.le_refl _
  · split
    · rename_i h0
      have : sizeofExt T p = 1 := by simp [sizeofExt, h0]
      rw [this]
      have := upTo_ge (1 + T.size) T.size hz
      cases T <;> simp [ITy.size, upTo] at *
    · rename_i h0
      have hd : 0 < rankDyn p := Nat.pos_of_ne_zero h0
      rw [(C18_ext T p).2 hd]
      -- upTo is monotone: 1 + d z ≤ d z + z
      rw [show rankDyn p * T.size + T.size = (rankDyn p + 1) * T.size by rw [Nat.add_mul]; omega, upTo_of_dvd _ _ hz]
      unfold upTo
      have h1 : (1 + rankDyn p * T.size + T.size - 1) / T.size = rankDyn p + 1 := by
        rw [show 1 + rankDyn p * T.size + T.size - 1 = (rankDyn p + 1) * T.size by rw [Nat.add_mul]; omega]
        exact Nat.mul_div_cancel _ hz
      rw [h1]; exact Nat.le_refl _

/-- **C18 (mdspan)**: all-static extents with an empty accessor and an empty mapping give a
    pointer-sized mdspan -/
theorem C18_mds_pointer_sized (mapDsize accSize accAlign : Nat) : sizeofMds mapDsize true accSize accAlign true = 8 := by
  simp [sizeofMds, upTo]

theorem C18_mds_lr_static (T : ITy) (p : Pattern) (hp : rankDyn p = 0) (accSize accAlign : Nat) :
    sizeofMds (sizeofLR T p) (isEmptyLR p) accSize accAlign true = 8 := by
  have : isEmptyLR p = true := by simp [isEmptyLR, isEmptyExt, hp]
  rw [this]; exact C18_mds_pointer_sized _ _ _

/-- an mdspan is at least its data handle plus its non-empty mapping and accessor -/
theorem C18_mds_ge (m : Nat) (me : Bool) (a al : Nat) (ae : Bool) (hal : 0 < al) :
    8 + (if me then 0 else m) + (if ae then 0 else a) ≤ sizeofMds m me a al ae := by
  unfold sizeofMds
  simp only
  cases ae
  · have h1 := upTo_ge (8 + if me = true then 0 else m) al hal
    have h2 := upTo_ge (upTo (8 + if me = true then 0 else m) al + a) 8 (by decide)
    simp only [Bool.false_eq_true, if_false] at *; omega
  · have h2 := upTo_ge (8 + if me = true then 0 else m) 8 (by decide)
    simp only [if_true] at *; omega

/-- the data size of a padded mapping never exceeds its size -/
theorem dsizePadded_le (T : ITy) (p : Pattern) (b : Bool) : dsizePadded T p b ≤ sizeofPadded T p b := by
  unfold dsizePadded
  split
  · rename_i h
    simp only [Bool.and_eq_true, beq_iff_eq] at h
    have hz := T.size_pos
    simp only [sizeofPadded, h.1, h.2, if_true, Nat.zero_mul]
    exact upTo_ge _ _ hz
  · exact Nat.le_refl _

example : sizeofExt .i32 [none, some 3, none] = 8 ∧ sizeofStride .i32 [none, some 3, none] = 20 := by decide
example : sizeofPadded .i32 [none, none] true = 12 ∧ sizeofPadded .i64 [some 4, some 4] false = 2 := by decide
example : sizeofMds (sizeofLR .i32 [some 3, some 4]) (isEmptyLR [some 3, some 4]) 1 1 true = 8 := by decide
example : sizeofMds (dsizePadded .i64 [some 4, some 6] true) false 4 4 false = 24 := by decide

end Mdspan
