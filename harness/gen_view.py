"""mdspan (view) op server: layouts x index types x extents patterns x accessor kinds."""
from vf.common import ITYPES
from harness.gen_map import cxx_extents, KINDS, pat_str
PATS = [(), (None,), (None, None), (None, None, None), (3, None), (None, 4), (3, 4), (2, 3, 2), (None, 3, None), (0, None), (3, 0), (None, 0, None)]
def instances():
    out = []
    for t in ('i32', 'u8', 'i64', 'u16'):
        for pat in PATS:
            if t in ('u8', 'u16') and pat in ((None, 4), (2, 3, 2), (3, 0)): continue
            if t != 'i32' and pat in ((0, None), (None, 0, None)): continue
            for kind, sp in (('left', None), ('right', None), ('stride', None), ('lpad', 'D'), ('rpad', 'D'), ('lpad', 4), ('rpad', 4)):
                if kind in ('lpad', 'rpad') and t in ('u8', 'u16') and sp == 4: continue
                for acc in ('def', 'st'): out.append((kind, sp, t, pat, acc))
    # accessors with a non-pointer handle and proxy reference (px), with an EMPTY handle type (eh: outer pair EN/EE under emulation),
    # and a user-defined layout policy (ulog)
    for pat in ((None,), (None, None), (3, 4), (None, 3, None)):
        for kind, sp in (('left', None), ('right', None), ('stride', None), ('lpad', 'D')):
            for acc in ('px', 'eh', 'sh', 'sf', 'th'): out.append((kind, sp, 'i32', pat, acc))
    for t in ('i32', 'u8'):
        for pat in ((), (None,), (None, None), (3, None), (2, 3, 2)):
            for acc in ('def', 'st', 'px'): out.append(('ulog', None, t, pat, acc))
            for acc in ('def', 'sh'): out.append(('urev', None, t, pat, acc))
    for t, pats in (('u8', ((None, None), (None, None, None), (16, None))), ('i32', ((None, None), (None, None, None))), ('u16', ((None, None),))):
        for pat in pats: out.append(('ubc', None, t, pat, 'def'))
    return out
def key(i):
    kind, sp, t, pat, acc = i
    return 'view:%s:%s:%s%s:%s' % (kind, t, pat_str(pat), (':%s' % sp) if sp is not None else '', acc)
def line(i):
    kind, sp, t, pat, acc = i
    return 'view %s %s pat=%s%s k=%s' % (kind, t, pat_str(pat), (' sp=%s' % sp) if sp is not None else '', acc)
def t2(t): return 'i64'
def twin(pat):
    """the all-static extents an instantiation's views can be converted to (explicitly): dynamic positions get the value k+2"""
    return tuple(p if p is not None else k + 2 for k, p in enumerate(pat))
def sources(ntu=32, insts=None):
    tus = [[] for _ in range(ntu)]
    for n, i in enumerate(insts if insts is not None else instances()):
        kind, sp, t, pat, acc = i
        E = cxx_extents(t, pat); spv = 'md::dynamic_extent' if sp in (None, 'D') else str(sp)
        lay = {'left': 'md::layout_left', 'right': 'md::layout_right', 'stride': 'md::layout_stride', 'lpad': 'mdx::layout_left_padded<%s>' % spv, 'rpad': 'mdx::layout_right_padded<%s>' % spv, 'ulog': 'LogLayout', 'urev': 'RevLayout', 'ubc': 'BcLayout'}[kind]
        A = {'def': 'md::default_accessor<int>', 'st': 'StAcc<int>', 'px': 'PxAcc<int>', 'eh': 'EhAcc<int>', 'sh': 'ShiftAcc<int>', 'sf': 'SelfAcc<int>', 'th': 'ThrowAcc<int>'}[acc]
        A2 = {'def': 'md::default_accessor<const int>', 'st': 'StAcc<const int>', 'px': 'PxAcc<const int>', 'eh': 'EhAcc<const int>', 'sh': 'ShiftAcc<const int>', 'sf': 'SelfAcc<const int>', 'th': 'ThrowAcc<const int>'}[acc]
        E2 = cxx_extents(t2(t), [None] * len(pat))
        E3 = cxx_extents(t, twin(pat))
        tus[n % ntu].append('  regView<%s, %s, %s, %s, md::mdspan<const int, %s, %s, %s>, md::mdspan<const int, %s, %s, %s>>("%s");' % (KINDS[kind], E, spv, A, E2, lay, A2, E3, lay, A2, key(i)))
    srcs = [('view_tu%d.cpp' % i, '#include "viewsrv.hpp"\nusing namespace vh;\nvoid reg_view_%d() {\n%s\n}\n' % (i, '\n'.join(b))) for i, b in enumerate(tus)]
    srcs.append(('view_main.cpp', '#include "vh.hpp"\n' + ''.join('void reg_view_%d();\n' % i for i in range(ntu)) + 'int main() {\n' + ''.join('  reg_view_%d();\n' % i for i in range(ntu)) + '  return vh::serve();\n}\n'))
    return srcs

def lite(insts):
    return [i for i in insts if i[2] in ('i32', 'u8') and i[1] in (None, 'D') and (i[4] in ('def', 'st') or len(i[3]) == 2)]
