import MdspanVerif.Props.C10
import MdspanVerif.Props.C09b
/-!
# C04 — views of views to any depth
-/
namespace Mdspan

/-- a view: absolute offset of its origin in the root buffer, and its mapping -/
structure View where
  off : Nat
  L : Layout

def View.addr (v : View) (js : List Nat) : Nat := v.off + v.L.offset js

/-- `submdspan(view, slices...)` for a non-empty result (offset = mapping(first_of...)) -/
def View.sub (v : View) (sls : List Slice) : View :=
  ⟨v.off + subOffsetOrig v.L sls, subLayout v.L sls⟩

theorem subLayout_extents (L : Layout) (sls : List Slice) :
    (subLayout L sls).extents = subExts sls L.extents := by
  cases L with
  | left es => simp only [subLayout]; by_cases h : preserveLeft sls = true <;> simp [h, Layout.extents]
  | right es => simp only [subLayout]; by_cases h : preserveRight sls = true <;> simp [h, Layout.extents]
  | stride es ss => rfl
  | lpad es ps => rfl
  | rpad es ps => rfl

theorem subLayout_strides_length (L : Layout) (hsl : L.strides.length = L.extents.length)
    (sls : List Slice) (hl : sls.length = L.extents.length) :
    (subLayout L sls).strides.length = (subLayout L sls).extents.length := by
  cases L with
  | left es =>
    simp only [subLayout]
    split
    · simp [Layout.strides, Layout.extents, leftStrides, leftStridesFrom_length]
    · simp only [Layout.strides, Layout.extents]
      exact subStrides_length sls es _ hl (by simp [leftStrides, leftStridesFrom_length])
  | right es =>
    simp only [subLayout]
    split
    · simp [Layout.strides, Layout.extents, rightStrides_length]
    · simp only [Layout.strides, Layout.extents]
      exact subStrides_length sls es _ hl (by simp [rightStrides_length])
  | stride es ss =>
    simp only [subLayout, Layout.strides, Layout.extents] at *
    exact subStrides_length sls es ss hl hsl.symm
  | lpad es ps =>
    simp only [subLayout, Layout.strides, Layout.extents] at *
    exact subStrides_length sls es _ hl hsl.symm
  | rpad es ps =>
    simp only [subLayout, Layout.strides, Layout.extents] at *
    exact subStrides_length sls es _ hl hsl.symm

/-- one level: element `js` of the sub-view is element `compose sls js` of the view -/
theorem View.sub_addr (v : View) (hsl : v.L.strides.length = v.L.extents.length)
    (sls : List Slice) (js : List Nat) (hsv : SlicesValid sls v.L.extents)
    (hj : InB js (v.sub sls).L.extents) :
    (v.sub sls).addr js = v.addr (compose sls js) := by
  have hj' : InB js (subExts sls v.L.extents) := by
    rw [← subLayout_extents]; exact hj
  have := C04_alias v.L hsl sls js hsv hj'
    (fun _ _ => C09_preserveLeft sls) (fun _ _ => C09_preserveRight sls)
  simp only [View.addr, View.sub]; omega

/-- the slices applied at each level, outermost first, all valid for the view they slice -/
def ChainValid : View → List (List Slice) → Prop
  | _, [] => True
  | v, sls :: rest => SlicesValid sls v.L.extents ∧ ChainValid (v.sub sls) rest

def View.subs : View → List (List Slice) → View
  | v, [] => v
  | v, sls :: rest => (v.sub sls).subs rest

/-- index of the root element designated by `js` in the innermost view -/
def composeAll : List (List Slice) → List Nat → List Nat
  | [], js => js
  | sls :: rest, js => compose sls (composeAll rest js)

/-- **C04, chains**: an element of a view of a view … of a view is the very same element of
    the root, at the composed index — for chains of any depth. -/
theorem View.subs_addr : ∀ (chain : List (List Slice)) (v : View),
    v.L.strides.length = v.L.extents.length → ChainValid v chain →
    ∀ js, InB js (v.subs chain).L.extents →
      (v.subs chain).addr js = v.addr (composeAll chain js) ∧ InB (composeAll chain js) v.L.extents
  | [], v, _, _, js, hj => ⟨rfl, hj⟩
  | sls :: rest, v, hsl, hc, js, hj => by
    have hl := slicesValid_length sls v.L.extents hc.1
    have hsl' := subLayout_strides_length v.L hsl sls hl
    obtain ⟨h1, h2⟩ := View.subs_addr rest (v.sub sls) hsl' hc.2 js hj
    have h3 := View.sub_addr v hsl sls (composeAll rest js) hc.1 h2
    refine ⟨by simp only [View.subs, composeAll]; rw [h1, h3], ?_⟩
    simp only [composeAll]
    apply compose_inB sls v.L.extents _ hc.1
    rw [← subLayout_extents]; exact h2

end Mdspan
