"""C19: no hidden state; concurrent disjoint access through a shared view is race-free and every
write lands in its own element whatever the interleaving."""
import random, json, os, subprocess
from . import common as C
from .mapfam import chain_strides, canon
import harness.gen_conc as G
import harness.astscan as A

def build(cfg='gcc20-tsan'): return C.cxx_build('concsrv', G.sources(), config=cfg)
def warm(prop): build()

def ast_facts():
    p = os.path.join(C.cache_dir(), 'astscan.json')
    if os.path.exists(p): return json.load(open(p)) + [True]
    f, v = A.scan_all(os.path.join(C.REPO, 'include'))
    json.dump([f, v], open(p, 'w'))
    return [f, v, False]

def check(prop, tier, seed, replay=None):
    rep = C.Report(prop, tier, seed); audit = C.proof_audit(prop); rnd = random.Random(seed); thorough = tier == 'thorough'
    rep.cov['rule'] = ('(a) clang JSON AST of mdspan.hpp + mdarray.hpp in four configurations (C++20; C++17 with the emulation hook; C++20 with -D_MDSPAN_DEBUG; C++23 with NDEBUG): every variable with static/thread storage duration declared under /repo/include must be constexpr/const, no mutable member, no const_cast, no atomic/mutex member; '
                       '(b) ThreadSanitizer build: T threads (2-8) share one const mdspan, each writes and reads back a disjoint index set (row-major index k belongs to thread k mod T), through the shared view, through private copies '
                       'and through sub-views created concurrently, calling the observers meanwhile; final buffer and per-thread results compared with the model (runMem over a sequential and a round-robin schedule); '
                       'non-trivial = at least 2 threads with at least 2 elements each')
    facts, viol, cached = ast_facts()
    rep.notes['ast_facts'] = facts; rep.notes['ast_cached'] = cached
    if facts is None or any(f is None for f in facts.values()): rep.broke(dict(correspondence='AST extraction', why=str(viol)[:2000]))
    for v in (viol or []):
        if v.get('kind') == 'ast-dump-failed': continue
        rep.violation(dict(kind='hidden-state:' + v['kind'], declaration=v))
    lines = []
    if replay and replay.get('line'): lines = [replay['line']]
    else:
        for inst in G.instances():
            kind, sp, t, pat = inst; H = C.hi(t)
            for _ in range(2 if not thorough else 10):
                es = [p if p is not None else rnd.choice([1, 2, 3, 4, 5]) for p in pat]
                ss = chain_strides(rnd, es, (1, 1, 2)) if kind == 'stride' else None
                pv = rnd.choice([None, 2, 3]) if (kind == 'lpad') else None
                T = rnd.choice([2, 3, 4] if not thorough else [2, 3, 4, 6, 8])
                l = G.line(inst) + ' ext=%s' % C.fmt(es) + (' str=%s' % C.fmt(ss) if ss else '') + (' pv=%d' % pv if pv else '') + ' thr=%d' % T
                lines.append(l)
    mout = C.driver(lines)
    # admissibility of the shared view's mapping is the model's (Layout.admB): the same mapping as a `map ... adm` line
    adm = C.driver(['map ' + l.split(' ', 1)[1].split(' thr=')[0] + ' adm' for l in lines])
    rep.notes['inadmissible_lines_dropped'] = sum(1 for a in adm if a != 'ok 1')
    keep = [(l, m) for l, m, a in zip(lines, mout, adm) if m.startswith('mem=') and a == 'ok 1']
    try: exe, secs, cached = build()
    except C.BuildError as e:
        rep.broke(dict(correspondence='TSan op server build', why=str(e), log=e.log[-3000:])); return rep.finish(audit)
    env = dict(os.environ, TSAN_OPTIONS='halt_on_error=0 exitcode=0 report_signal_unsafe=0')
    reps = 2 if not thorough else 10
    for r in range(reps):
        p = subprocess.run([exe], input='\n'.join(l for l, _ in keep) + '\n', capture_output=True, text=True, env=env, timeout=1800)
        out = p.stdout.split('\n')
        if 'ThreadSanitizer' in p.stderr:
            rep.violation(dict(kind='data-race-reported-by-ThreadSanitizer', report=p.stderr[:3000], lines=[l for l, _ in keep][:5]))
        for (l, m), xi in zip(keep, out):
            rep.cov['evaluations'] += 1; rep.cov['traces_validated_against_impl'] += 1
            T = int(l.split('thr=')[1]); n = len(m.split(' sums=')[0].split(','))
            if n >= 2 * T: rep.nontrivial(l)
            if 'SCHEDULES-DIFFER' in m: rep.broke(dict(correspondence='model: two schedules of the same programs give different memories', line=l, model=m))
            if xi != m:
                rep.violation(dict(kind='final-buffer-or-thread-results-differ-from-the-schedule-independent-result', line=l, impl=xi[:600], specified=m[:600], repetition=r)); continue
            if r == 0: rep.sample(dict(line=l, result=xi[:200]), cap=4)
    rep.notes['tsan_repetitions'] = reps; rep.notes['lines'] = len(keep)
    rep.assumptions = ['the C++ memory model and the OS scheduler are not modelled: ThreadSanitizer observes the schedules that occur', 'reads of never-written state do not race (the AST facts establish that view state is never written after construction)']
    return rep.finish(audit)
