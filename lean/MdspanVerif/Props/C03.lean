import MdspanVerif.Props.C14h
import MdspanVerif.Props.C11
import MdspanVerif.Model.Access
/-!
# C03 — element access is `accessor.access(data_handle, mapping(indices...))` in every form

The view model of `Model/View.lean` stores (handle, mapping, accessor).  An access converts every
index argument to `index_type` (`static_cast<index_type>(std::move(idx))`, or the implicit
conversion of `indices[Idxs]` in the array / span forms), calls the mapping and hands the
offset to the accessor.  With the default accessor the element is `data_handle()[offset]`.
-/
namespace Mdspan

/-- **C03 (all spellings agree)**: pack, array, span, class-type indices and the rank-1 bracket
    form designate the same element -/
theorem C03_forms_agree (T S : ITy) (f g : AccessForm) (v : MdsView Int LayoutI Int) (args : List Int) :
    accessAddr T S f v args = accessAddr T S g v args := rfl

theorem convIdx_id (T S : ITy) (i : Nat) (hS : (i : Int) ≤ S.hi) (hT : (i : Int) ≤ T.hi) : convIdx T S i = i := by
  unfold convIdx
  rw [ITy.wrap_id S i (Int.natCast_nonneg i) hS, ITy.wrap_id T i (Int.natCast_nonneg i) hT]

theorem map_convIdx_id (T S : ITy) : ∀ (is : List Nat), (∀ i ∈ is, (i : Int) ≤ S.hi) → (∀ i ∈ is, (i : Int) ≤ T.hi) →
    (toI is).map (convIdx T S) = toI is
  | [], _, _ => rfl
  | i :: is, hS, hT => by
    have h1 : convIdx T S (Int.ofNat i) = Int.ofNat i := convIdx_id T S i (hS i (by simp)) (hT i (by simp))
    have h2 := map_convIdx_id T S is (fun x hx => hS x (by simp [hx])) (fun x hx => hT x (by simp [hx]))
    simp only [toI, List.map_cons] at h2 ⊢
    rw [h1, h2]

/-- an index inside admissible extents is a value of the index type -/
theorem inB_le_hi (T : ITy) : ∀ (is es : List Nat), InB is es → (∀ e ∈ es, (e : Int) ≤ T.hi) → ∀ i ∈ is, (i : Int) ≤ T.hi
  | [], [], _, _ => by simp
  | i :: is, e :: es, hb, he => by
    intro x hx
    simp only [List.mem_cons] at hx
    rcases hx with rfl | hx
    · have := he e (by simp); have := hb.1; omega
    · exact inB_le_hi T is es hb.2 (fun y hy => he y (by simp [hy])) x hx
  | [], _ :: _, hb, _ => by simp [InB] at hb
  | _ :: _, [], hb, _ => by simp [InB] at hb

/-- **C03 (the element designated)**: for an admissible mapping and a multi-index inside the
    extents given with arguments of any integer type that can represent it, every access form
    executes no UB and touches exactly `data_handle()[mapping()(indices...)]`, an element of
    `[data_handle(), data_handle() + required_span_size())`. -/
theorem C03_access (T S : ITy) (f : AccessForm) (L : Layout) (h : Nat) (is : List Nat)
    (hadm : L.admB T = true) (hb : InB is L.extents) (hS : ∀ i ∈ is, (i : Int) ≤ S.hi) :
    accessAddr T S f ⟨h, L.toI, -1⟩ (toI is) = .ok ((h + L.offset is : Nat) : Int) ∧
    h ≤ h + L.offset is ∧ h + L.offset is < h + L.span := by
  have hle := (admB_elim T L hadm).2.2.1
  have hT := inB_le_hi T is L.extents hb hle
  constructor
  · unfold accessAddr accessOffset mappingArgs
    rw [map_convIdx_id T S is hS hT, C14_adm_offset T L is hadm hb]
    simp [bind, Except.bind, pure, Except.pure]
  · have hpos : ∀ e ∈ L.extents, 0 < e := inB_pos is L.extents hb
    have hv : L.Valid := validB_valid L (admB_elim T L hadm).1 hpos
    have := C01_range L hv is hb
    omega

end Mdspan
