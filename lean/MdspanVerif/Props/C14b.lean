import MdspanVerif.Props.C14
namespace Mdspan

/-- product with zero extents counted as one (the admissibility measure of C14) -/
def prod1 : List Nat → Nat
  | [] => 1
  | e :: es => (if e = 0 then 1 else e) * prod1 es

theorem prod1_pos : ∀ es : List Nat, 0 < prod1 es
  | [] => by simp [prod1]
  | e :: es => by
    simp only [prod1]
    apply Nat.mul_pos
    · split <;> omega
    · exact prod1_pos es

theorem prod_le_prod1 : ∀ es : List Nat, prod es ≤ prod1 es
  | [] => by simp [prod, prod1]
  | e :: es => by
    simp only [prod, prod1]
    apply Nat.mul_le_mul
    · split <;> omega
    · exact prod_le_prod1 es

/-- **C14, required_span_size of layout_left/right**: the running product never leaves the
    index type when the span with zero extents counted as one is representable. -/
theorem prodGoM_refines (T : ITy) : ∀ (acc : Nat) (es : List Nat),
    (∀ e ∈ es, (e : Int) ≤ T.hi) → (((if acc = 0 then 1 else acc) * prod1 es : Nat) : Int) ≤ T.hi →
    prodGoM T acc (toI es) = .ok ((acc * prod es : Nat) : Int)
  | acc, [], _, _ => by simp [prodGoM, prod]; rfl
  | acc, e :: es, hrep, hadm => by
    have he := hrep e (by simp)
    have hp1 := prod1_pos es
    simp only [prod1] at hadm
    -- bounds on acc and acc*e
    have hacc : (acc : Int) ≤ T.hi := by
      have h1 : acc ≤ (if acc = 0 then 1 else acc) := by split <;> omega
      have h2 : 1 ≤ (if e = 0 then 1 else e) * prod1 es := Nat.mul_pos (by split <;> omega) hp1
      have h3 : acc ≤ (if acc = 0 then 1 else acc) * ((if e = 0 then 1 else e) * prod1 es) :=
        Nat.le_trans h1 (Nat.le_mul_of_pos_right _ h2)
      have : (acc : Int) ≤ (((if acc = 0 then 1 else acc) * ((if e = 0 then 1 else e) * prod1 es) : Nat) : Int) :=
        Int.ofNat_le.mpr h3
      omega
    have hmulN : (if acc * e = 0 then 1 else acc * e) * prod1 es ≤
        (if acc = 0 then 1 else acc) * ((if e = 0 then 1 else e) * prod1 es) := by
      rw [← Nat.mul_assoc]
      apply Nat.mul_le_mul_right
      by_cases ha : acc = 0
      · simp [ha]; split <;> omega
      · by_cases he0 : e = 0
        · simp [ha, he0]; omega
        · have : acc * e ≠ 0 := Nat.mul_ne_zero ha he0
          simp [ha, he0, this]
    have hmul : ((acc * e : Nat) : Int) ≤ T.hi := by
      have h1 : acc * e ≤ (if acc * e = 0 then 1 else acc * e) := by split <;> omega
      have h3 : acc * e ≤ (if acc * e = 0 then 1 else acc * e) * prod1 es :=
        Nat.le_trans h1 (Nat.le_mul_of_pos_right _ hp1)
      have : ((acc * e : Nat) : Int) ≤ (((if acc = 0 then 1 else acc) * ((if e = 0 then 1 else e) * prod1 es) : Nat) : Int) :=
        Int.ofNat_le.mpr (Nat.le_trans h3 hmulN)
      omega
    simp only [toI_cons, prodGoM, prod]
    rw [mulT_ok T acc e hacc he hmul]
    simp only [bind, Except.bind]
    rw [narrow_id T _ _ hmul]
    rw [prodGoM_refines T (acc * e) es (fun x hx => hrep x (List.mem_cons_of_mem _ hx)) (by
      have : (((if acc * e = 0 then 1 else acc * e) * prod1 es : Nat) : Int) ≤
          (((if acc = 0 then 1 else acc) * ((if e = 0 then 1 else e) * prod1 es) : Nat) : Int) :=
        Int.ofNat_le.mpr hmulN
      omega)]
    rw [Nat.mul_assoc]

theorem C14_span_lr (T : ITy) (es : List Nat) (hrep : ∀ e ∈ es, (e : Int) ≤ T.hi)
    (hadm : ((prod1 es : Nat) : Int) ≤ T.hi) :
    spanLRM T (toI es) = .ok ((spanLR es : Nat) : Int) := by
  have := prodGoM_refines T 1 es hrep (by simpa using hadm)
  simpa [spanLRM, spanLR] using this

/-! ### find_next_multiple (repaired) -/

theorem findNextMultipleM_refines (T : ITy) (a o : Nat) (ha : (a : Int) ≤ T.hi) (ho : (o : Int) ≤ T.hi)
    (hres : ((findNextMultiple a o : Nat) : Int) ≤ T.hi) :
    findNextMultipleM T a o = .ok ((findNextMultiple a o : Nat) : Int) := by
  by_cases ha0 : a = 0
  · subst ha0; simp [findNextMultipleM, findNextMultiple]; rfl
  · have hapos : 0 < a := Nat.pos_of_ne_zero ha0
    have haI : (a : Int) ≠ 0 := by omega
    have hp := T.hi_le_promote
    have hl := T.promote_lo_le
    simp only [findNextMultipleM, haI, if_false, findNextMultiple, ha0]
    simp only [findNextMultiple, ha0, if_false] at hres
    -- o / a
    have hq : V.div ⟨T, o⟩ ⟨T, a⟩ = .ok ⟨T.promote, ((o / a : Nat) : Int)⟩ := by
      unfold V.div
      simp only [ITy.common_self]
      rw [ITy.wrap_id _ o (Int.natCast_nonneg _) (by omega), ITy.wrap_id _ a (Int.natCast_nonneg _) (by omega)]
      simp only [haI, if_false]
      have hdiv : Int.tdiv (o : Int) (a : Int) = ((o / a : Nat) : Int) := by
        rw [Int.tdiv_eq_ediv_of_nonneg (Int.natCast_nonneg _)]; simp
      have hle : ((o / a : Nat) : Int) ≤ T.hi := by
        have : o / a ≤ o := Nat.div_le_self _ _
        have : ((o / a : Nat) : Int) ≤ (o : Int) := Int.ofNat_le.mpr this
        omega
      rw [hdiv]
      split
      · rw [if_pos ⟨by have := Int.natCast_nonneg (o / a); omega, by omega⟩]; rfl
      · rw [ITy.wrap_id _ _ (Int.natCast_nonneg _) (by omega)]; rfl
    have hm : V.mod ⟨T, o⟩ ⟨T, a⟩ = .ok ⟨T.promote, ((o % a : Nat) : Int)⟩ := by
      unfold V.mod
      simp only [ITy.common_self]
      rw [ITy.wrap_id _ o (Int.natCast_nonneg _) (by omega), ITy.wrap_id _ a (Int.natCast_nonneg _) (by omega)]
      simp only [haI, if_false]
      have hmod : Int.tmod (o : Int) (a : Int) = ((o % a : Nat) : Int) := by
        rw [Int.tmod_eq_emod_of_nonneg (Int.natCast_nonneg _)]; simp
      have hle : ((o % a : Nat) : Int) ≤ T.hi := by
        have : o % a ≤ o := Nat.mod_le _ _
        have : ((o % a : Nat) : Int) ≤ (o : Int) := Int.ofNat_le.mpr this
        omega
      rw [hmod, ITy.wrap_id _ _ (Int.natCast_nonneg _) (by omega)]; rfl
    rw [hq]; simp only [bind, Except.bind]
    rw [hm]; simp only
    -- the carry
    let c : Nat := if o % a ≠ 0 then 1 else 0
    have hc : (if ((o % a : Nat) : Int) ≠ 0 then (1 : Int) else 0) = ((c : Nat) : Int) := by
      by_cases h : o % a = 0
      · have h' : ((o % a : Nat) : Int) = 0 := by omega
        have hc0 : c = 0 := by simp [c, h]
        rw [if_neg (by omega), hc0]; rfl
      · have h' : ((o % a : Nat) : Int) ≠ 0 := by omega
        have hc1 : c = 1 := by simp [c, h]
        rw [if_pos h', hc1]; rfl
    rw [hc]
    have hsum_le : (o / a + c) ≤ (o / a + c) * a := Nat.le_mul_of_pos_right _ hapos
    have hres' : (((o / a + c) * a : Nat) : Int) ≤ T.hi := hres
    have hsum : ((o / a + c : Nat) : Int) ≤ T.hi :=
      Int.le_trans (Int.ofNat_le.mpr hsum_le) hres'
    have hcle : ((c : Nat) : Int) ≤ T.hi :=
      Int.le_trans (Int.ofNat_le.mpr (Nat.le_add_left c (o / a))) hsum
    rw [addPT_ok T (o / a) c hcle hsum]; simp only
    -- (q + c) * a  in promoted × T
    have hmulPT : V.mul ⟨T.promote, ((o / a + c : Nat) : Int)⟩ ⟨T, a⟩ =
        .ok ⟨T.promote, (((o / a + c) * a : Nat) : Int)⟩ := by
      have hcast : (((o / a + c) * a : Nat) : Int) = ((o / a + c : Nat) : Int) * (a : Int) :=
        Int.natCast_mul _ _
      have := V.arith_ok (· * ·) ⟨T.promote, ((o / a + c : Nat) : Int)⟩ ⟨T, a⟩ (Int.natCast_nonneg _)
        (by rw [ITy.common_promote_left]; exact Int.le_trans hsum hp) (Int.natCast_nonneg _)
        (by rw [ITy.common_promote_left]; exact Int.le_trans ha hp)
        (Int.mul_nonneg (Int.natCast_nonneg (o / a + c)) (Int.natCast_nonneg a))
        (by rw [ITy.common_promote_left]; show ((o / a + c : Nat) : Int) * (a : Int) ≤ _
            rw [← hcast]; exact Int.le_trans hres' hp)
      rw [hcast]
      simpa only [V.mul, ITy.common_promote_left] using this
    rw [hmulPT]; simp only
    rw [narrow_id T _ _ hres']
    rfl

end Mdspan

namespace Mdspan
/-! F3 on the pinned tree: the same inputs through the original expression -/
example : findNextMultipleOrigM .u32 2147483649 2147483649 = .ok 0 := by decide
example : findNextMultipleOrigM .i32 1073741825 1073741825 = .error .overflow := by decide
example : findNextMultiple 2147483649 2147483649 = 2147483649 := by decide
example : findNextMultipleM .u32 2147483649 2147483649 = .ok 2147483649 := by decide
end Mdspan
