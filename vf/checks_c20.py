"""C20: debug builds reject layout_stride -> layout_left/right conversion with non-canonical strides."""
import random
from . import common as C
import harness.gen_c20 as G
from .mapfam import canon

def build(cfg): return C.cxx_build('c20srv', G.sources(), config=cfg)
def warm(prop): build('gcc20-ubsan')

def canonical(kind, ext):
    r = len(ext)
    return [C.prod(ext[:k]) for k in range(r)] if kind == 'left' else [C.prod(ext[k + 1:]) for k in range(r)]

def check(prop, tier, seed, replay=None):
    rep = C.Report(prop, tier, seed); audit = C.proof_audit(prop); rnd = random.Random(seed); thorough = tier == 'thorough'
    rep.cov['rule'] = ('layout_stride -> layout_left/right conversion for 24 (target, source) index type pairs x rank 0-4; stride tuples canonical / one stride off / permuted / '
                       'canonical of the other layout, zero and one extents included; each conversion runs in a child process of an assertion-enabled build (exit status observed) '
                       'and of an NDEBUG build, each also with the library\'s _MDSPAN_DEBUG macro defined; non-trivial = rank>=1 admissible; distinct by op line')
    from . import sites as SITES
    got, new, gone = SITES.compare(C.os.path.join(C.REPO, 'include'), C.os.path.join(C.LEAN, 'debug_sites.json'))
    new = [x for x in new if 'layout_left.hpp' in x[0] or 'layout_right.hpp' in x[0]]; gone = [x for x in gone if 'layout_left.hpp' in x[0] or 'layout_right.hpp' in x[0]]
    if new or gone:
        rep.broke(dict(correspondence='the stride-walk check of layout_left / layout_right extracted from the source vs the modelled one (walkLeft / walkRight, lean/debug_sites.json)',
                       new_or_changed=[list(x) for x in new][:4], gone=[list(x) for x in gone][:4]))
    cases = []
    if replay: cases = [tuple(replay['case'])]
    else:
        for i in G.instances():
            kind, t, u, r = i; H = min(C.hi(t), C.hi(u))
            for rep_ in range(6 if not thorough else 40):
                ext = []
                budget = H
                for k in range(r):
                    e = rnd.choice([0, 1, 2, 3, rnd.randint(1, max(1, int(budget ** (1.0 / max(1, r - k)))))]); ext.append(e); budget = max(1, budget // max(e, 1))
                if rep_ == 0 and r >= 1:      # an extent exactly at the top of the narrower index type (the index space is still representable)
                    ext = [1] * r; ext[rnd.randrange(r)] = rnd.choice([H, H, H - 1])
                can = canonical(kind, ext)
                variants = [('canonical', can)]
                if r >= 1:
                    k = rnd.randrange(r); off = list(can); off[k] = off[k] + rnd.choice([1, 2]) if rnd.random() < 0.7 else max(off[k] - 1, 0); variants.append(('one-off', off))
                    variants.append(('other-layout', canonical('right' if kind == 'left' else 'left', ext)))
                    p = list(can); rnd.shuffle(p); variants.append(('permuted', p))
                    k = rnd.randrange(r); w = list(can); w[k] += 2 ** C.ITYPES[t][0]; variants.append(('wrap-congruent', w))
                for name, st in variants:
                    if any(s > C.hi(u) for s in st): continue
                    cases.append((G.line(i), C.fmt(ext), C.fmt(st), name, kind, list(ext), list(st)))
    if not replay:
        for i in G.STATIC:      # conversions inside a static initialiser with constant operands
            cases.append(('c20s %s %s k=%d_%d' % (i[0], i[1], i[2], i[3]), '3,4', '%d,%d' % (i[2], i[3]), 'static-init', i[0], [3, 4], [i[2], i[3]]))
    def lines(extra=''): return ['%s ext=%s str=%s%s' % (c[0], c[1], c[2], extra) for c in cases]
    adm = [x == 'ok 1' for x in C.driver([l + ' adm' for l in lines()])]
    m_dbg = [canon(x) for x in C.driver(lines())]; m_nd = [canon(x) for x in C.driver(lines(' ndebug=1'))]
    rep.notes['variants'] = {}
    # NDEBUG decides, whatever else is defined: the library's own _MDSPAN_DEBUG macro together with NDEBUG is still an NDEBUG build
    for cfg, model, ndebug in (('gcc20-ubsan', m_dbg, False), ('gcc20-O2-ndebug-emul', m_nd, True), ('gcc20-O2-ndebug-mdspandebug', m_nd, True), ('gcc23-O0-assert-mdspandebug', m_dbg, False)) + ((('clang20-O0-assert', m_dbg, False), ('clang23-O2-ndebug', m_nd, True)) if thorough else ()):
        try: exe, secs, cached = build(cfg)
        except C.BuildError as e:
            rep.broke(dict(correspondence='c20 server build (%s)' % cfg, why=str(e), log=e.log[-3000:])); continue
        iout = [canon(x) for x in C.pipe(exe, lines())]
        for c, a, xi, xm in zip(cases, adm, iout, model):
            rep.cov['evaluations'] += 1; rep.cov['traces_validated_against_impl'] += 1
            pub = dict(case=list(c), config=cfg, ndebug=ndebug, admissible=a)
            if xi != xm: rep.broke(dict(correspondence='c20 conversion outcome (ok/abort/ub)', impl=xi, model=xm, **pub))
            if not a: continue
            kind, ext, st = c[4], c[5], c[6]
            if len(ext) >= 1: rep.nontrivial((c[0], c[1], c[2], ndebug))
            should_abort = (not ndebug) and len(ext) > 0 and st != canonical(kind, ext)
            rep.notes['variants'][c[3] + ('/ndebug' if ndebug else '/debug')] = rep.notes['variants'].get(c[3] + ('/ndebug' if ndebug else '/debug'), 0) + 1
            if should_abort and xi != 'abort':
                rep.violation(dict(kind='non-canonical-strides-accepted-in-debug-build', impl=xi, canonical=canonical(kind, ext), **pub)); continue
            if not should_abort and not xi.startswith('ok'):
                rep.violation(dict(kind='conversion-terminated-although-%s' % ('NDEBUG' if ndebug else 'strides-canonical'), impl=xi, **pub)); continue
            if should_abort: rep.sample(dict(line='%s ext=%s str=%s' % c[:3], outcome=xi, config=cfg), cap=6)
    rep.assumptions = ['CUDA/HIP builds (where the check is compiled out) are not available here']
    return rep.finish(audit)
