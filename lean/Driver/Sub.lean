import Driver.Util
import MdspanVerif.Model.LayoutM
import MdspanVerif.Model.SubM
import MdspanVerif.Model.Adm
import MdspanVerif.Model.SubMapM
/-! `sub` op family: machine-layer mirror of `submdspan_mapping` (repaired tree). -/
open Mdspan

namespace Drv

def parseSlice (s : String) : Option SliceI :=
  match s.splitOn ":" with
  | ["i", a] => a.toInt?.map SliceI.idx
  | ["r", a, b] => do let a ← a.toInt?; let b ← b.toInt?; pure (SliceI.range a b)
  | ["f"] => some SliceI.full
  | ["s", a, b, c] => do let a ← a.toInt?; let b ← b.toInt?; let c ← c.toInt?; pure (SliceI.strided a b c)
  -- pair given as std::tuple, and the compile-time valued kinds: same values, other C++ types
  | ["t", a, b] => do let a ← a.toInt?; let b ← b.toInt?; pure (SliceI.range a b)
  | ["I", a] => a.toInt?.map SliceI.idx
  | ["E", a] => a.toInt?.map SliceI.idx      -- an unscoped enum / a class type convertible to index_type: an index like any other
  | ["C", a] => a.toInt?.map SliceI.idx
  | ["R", a, b] => do let a ← a.toInt?; let b ← b.toInt?; pure (SliceI.range a b)
  | ["S", a, b, c] => do let a ← a.toInt?; let b ← b.toInt?; let c ← c.toInt?; pure (SliceI.strided a b c)
  | ["Q", a, b, c] => do let a ← a.toInt?; let b ← b.toInt?; let c ← c.toInt?; pure (SliceI.strided a b c)
  | ["U", a, b, c] => do let a ← a.toInt?; let b ← b.toInt?; let c ← c.toInt?; pure (SliceI.strided a b c)
  | ["Z", a, b, c] => do let a ← a.toInt?; let b ← b.toInt?; let c ← c.toInt?; pure (SliceI.strided a b c)
  | _ => none

def SliceI.wrapT (T : ITy) : SliceI → SliceI
  | .idx i => .idx (T.wrap i)
  | .range b e => .range (T.wrap b) (T.wrap e)
  | .full => .full
  | .strided o x s => .strided (T.wrap o) (T.wrap x) (T.wrap s)

def subOp (T : ITy) (kind : String) (es ss : List Int) (sls : List SliceI) (op : String) (shift : Int := 0) : String :=
  if op == "adm" then s!"ok {fmtB (subAdm T kind es ss sls)}" else
  match subMappingM T kind es ss sls with
  | .ok r =>
    if op == "alias" then showL (subAliasM T r)
    else
      let spans : M (Int × Int) := do
        let sp ← (match r.kind with
          | "stride" => spanStrideM T r.exts r.strs
          | _ => spanLRM T r.exts)
        let ssp ← (match kind with
          | "stride" => spanStrideM T es ss
          | _ => spanLRM T es)
        pure (sp, ssp)
      match spans with
      | .ok (sp, ssp) => s!"off={r.off + shift} ext={fmtL r.exts} kind={r.kind} str={fmtL r.strs} span={sp} sspan={ssp}"
      | .error e => ubStr e
  | .error e => ubStr e

def subLine (kind0 ty : String) (rest : List String) : String :=
  -- `ushift`: the harness's user layout with a submdspan_mapping customization point = the layout_right result, offset + 7
  let kind := if kind0 == "ushift" then "right" else kind0
  let shift : Int := if kind0 == "ushift" then 7 else 0
  match parseTy ty with
  | none => "bad-op"
  | some T =>
    let es := wrapL T (parseList ((getKey rest "ext").getD "-"))
    let ss := wrapL T (parseList ((getKey rest "str").getD "-"))
    let sl := ((getKey rest "sl").getD "").splitOn ";"
    match sl.mapM parseSlice with
    | some sls =>
      let op := (plainToks rest).headD "info"
      if op == "ch" || op == "chadm" then
        -- a view of a view: second level = one strided_slice per dimension of the first result (`sl2=`), reported relative to the root
        let sl2 := ((getKey rest "sl2").getD "").splitOn ";"
        match (if (getKey rest "sl2").getD "-" == "-" then some [] else sl2.mapM parseSlice) with
        | none => "bad-op"
        | some sls2 =>
          let l1 := sls.map (SliceI.wrapT T); let l2 := sls2.map (SliceI.wrapT T)
          if op == "chadm" then s!"ok {fmtB (subChainAdm T kind es ss [l1, l2])}" else
          let r : M String := do
            let r1 ← subMappingM T kind es ss l1
            let sp1 ← (match r1.kind with
              | "stride" => spanStrideM T r1.exts r1.strs
              | _ => spanLRM T r1.exts)
            let r2 ← subMappingM T r1.kind r1.exts r1.strs l2
            let rr ← subChainM T { off := 0, exts := es, kind := kind, strs := ss } [l1, l2]
            let sp ← (match rr.kind with
              | "stride" => spanStrideM T rr.exts rr.strs
              | _ => spanLRM T rr.exts)
            let al ← subAliasM T rr
            -- the C++ adds the two offsets as size_t values (modulo 2^64; only inadmissible lines can wrap)
            pure (s!"off={ITy.u64.wrap rr.off} ext={fmtL rr.exts} kind={rr.kind} str={fmtL rr.strs} span={sp} l1off={r1.off} l1span={sp1} l2off={r2.off} " ++ showL (pure al))
          match r with
          | .ok s => s
          | .error e => ubStr e
      else if op == "mds" then
        -- mdspan-level submdspan: data handle = accessor.offset(handle, offset) (exactly one call), accessor = offset_policy(accessor)
        let h : Int := (((getKey rest "h").getD "0").toInt?).getD 0
        let id : Int := (((getKey rest "id").getD "0").toInt?).getD 0
        match subMappingM T kind es ss (sls.map (SliceI.wrapT T)) with
        | .ok r => s!"h={h + r.off + shift} acc={id} n=1 log={-1 - h},{r.off + shift} same=1 ext={fmtL r.exts}"
        | .error e => ubStr e
      else subOp T kind es ss (sls.map (SliceI.wrapT T)) op shift
    | none => "bad-op"

end Drv
