import MdspanVerif.Model.Sub
import MdspanVerif.Props.C02
/-!
# C04 — submdspan views alias exactly the selected elements of their source
-/
namespace Mdspan

/-- the aliasing equation for arbitrary source strides: pure distributivity, any rank -/
theorem sub_alias_dot : ∀ (sls : List Slice) (ss js : List Nat), sls.length = ss.length →
    dot (firsts sls) ss + dot js (subStrides sls ss) = dot (compose sls js) ss
  | [], [], js, _ => by simp [firsts, subStrides, compose, dot]
  | sl :: sls, s :: ss, js, hl => by
    have hl' : sls.length = ss.length := by simpa using hl
    by_cases hi : sl.isIdx = true
    · have := sub_alias_dot sls ss js hl'
      simp only [firsts, List.map, subStrides, compose, hi, if_true, dot] at this ⊢
      omega
    · cases js with
      | nil =>
        have := sub_alias_dot sls ss [] hl'
        simp only [firsts, List.map, subStrides, compose, hi, dot] at this ⊢
        simp only [Bool.false_eq_true, if_false, dot] at this ⊢
        omega
      | cons j js =>
        have := sub_alias_dot sls ss js hl'
        simp only [firsts, List.map, subStrides, compose, hi, dot] at this ⊢
        simp only [Bool.false_eq_true, if_false, dot] at this ⊢
        have e1 : (sl.first + j * sl.step) * s = sl.first * s + j * (s * sl.step) := by
          rw [Nat.add_mul, Nat.mul_assoc, Nat.mul_comm sl.step s]
        omega
  | [], _ :: _, _, hl => by simp at hl
  | _ :: _, [], _, hl => by simp at hl

theorem ext_none_iff (sl : Slice) (e : Nat) : sl.ext e = none ↔ sl.isIdx = true := by
  cases sl <;> simp [Slice.ext, Slice.isIdx]

/-- the composed index lies inside the source when the slices are valid -/
theorem compose_inB : ∀ (sls : List Slice) (es js : List Nat), SlicesValid sls es →
    InB js (subExts sls es) → InB (compose sls js) es
  | [], [], js, _, h => by cases js <;> simp [subExts, compose, InB] at *
  | sl :: sls, e :: es, js, hv, h => by
    have hv0 := hv.1
    simp only [subExts, compose] at *
    cases hx : sl.ext e with
    | none =>
      have hi := (ext_none_iff sl e).mp hx
      simp only [hx] at h
      simp only [hi, if_true]
      refine ⟨?_, compose_inB sls es js hv.2 h⟩
      cases sl <;> simp [Slice.isIdx] at hi
      simpa [Slice.first, Slice.Valid] using hv0
    | some x =>
      have hi : sl.isIdx = false := by
        cases h' : sl.isIdx
        · rfl
        · have := (ext_none_iff sl e).mpr h'; rw [hx] at this; cases this
      simp only [hx] at h
      simp only [hi, Bool.false_eq_true, if_false]
      cases js with
      | nil => simp [InB] at h
      | cons j js =>
        refine ⟨?_, compose_inB sls es js hv.2 h.2⟩
        have hj : j < x := h.1
        cases sl with
        | idx i => simp [Slice.ext] at hx
        | range b e' =>
          simp [Slice.ext] at hx; simp [Slice.first, Slice.step, Slice.Valid] at *; omega
        | full =>
          simp [Slice.ext] at hx; simp [Slice.first, Slice.step]; omega
        | strided o xx s =>
          simp only [Slice.ext, Option.some.injEq] at hx
          simp only [Slice.first, Slice.step, Slice.Valid] at *
          by_cases hxx : xx > 0
          · simp only [hxx, if_true] at hx
            have hs : 0 < s := by omega
            by_cases hlt : s < xx
            · simp only [hlt, if_true]
              have : j ≤ (xx - 1) / s := by omega
              have : j * s ≤ xx - 1 := (Nat.le_div_iff_mul_le hs).mp this
              omega
            · simp only [hlt, if_false]
              have : (xx - 1) / s = 0 := Nat.div_eq_of_lt (by omega)
              omega
          · simp [hxx] at hx; omega
  | [], _ :: _, _, hv, _ => by simp [SlicesValid] at hv
  | _ :: _, [], _, hv, _ => by simp [SlicesValid] at hv

theorem slicesValid_length : ∀ (sls : List Slice) (es : List Nat), SlicesValid sls es → sls.length = es.length
  | [], [], _ => rfl
  | _ :: sls, _ :: es, h => by simp [slicesValid_length sls es h.2]
  | [], _ :: _, h => by simp [SlicesValid] at h
  | _ :: _, [], h => by simp [SlicesValid] at h

theorem compose_length : ∀ (sls : List Slice) (js : List Nat), (compose sls js).length = sls.length
  | [], _ => rfl
  | sl :: sls, js => by
    simp only [compose]
    split
    · simp [compose_length sls js]
    · cases js with
      | nil => simp [compose_length sls []]
      | cons j js => simp [compose_length sls js]

theorem firsts_length (sls : List Slice) : (firsts sls).length = sls.length := by simp [firsts]

/-! ### layout-preserving results: spec form of the predicates and their soundness -/

/-- layout_left is kept for `full* (full|range)? idx*` (incl. all-index, rank 0) -/
def presLeftSpec : List Slice → Bool
  | [] => true
  | sl :: sls =>
    if sl.isFull then presLeftSpec sls
    else if sl.isRange || sl.isIdx then sls.all Slice.isIdx
    else false

/-- layout_right is kept for `idx* (full|range)? full*` -/
def presRightSpec : List Slice → Bool
  | [] => true
  | sl :: sls =>
    if sl.isIdx then presRightSpec sls
    else if sl.isRange || sl.isFull then sls.all Slice.isFull
    else false

theorem subStrides_allIdx : ∀ (sls : List Slice) (ss : List Nat), sls.all Slice.isIdx = true →
    subStrides sls ss = []
  | [], _, _ => by simp [subStrides]
  | sl :: sls, [], _ => by simp [subStrides]
  | sl :: sls, s :: ss, h => by
    simp only [List.all_cons, Bool.and_eq_true] at h
    simp [subStrides, h.1, subStrides_allIdx sls ss h.2]

theorem subExts_allIdx : ∀ (sls : List Slice) (es : List Nat), sls.all Slice.isIdx = true →
    subExts sls es = []
  | [], _, _ => by simp [subExts]
  | sl :: sls, [], _ => by simp [subExts]
  | sl :: sls, e :: es, h => by
    simp only [List.all_cons, Bool.and_eq_true] at h
    have := (ext_none_iff sl e).mpr h.1
    simp [subExts, this, subExts_allIdx sls es h.2]

/-- soundness of "keep layout_left": the surviving source strides are the column-major
    strides of the result extents -/
theorem presLeft_strides : ∀ (p : Nat) (sls : List Slice) (es : List Nat), sls.length = es.length →
    presLeftSpec sls = true →
    subStrides sls (leftStridesFrom p es) = leftStridesFrom p (subExts sls es)
  | p, [], [], _, _ => by simp [subStrides, subExts, leftStridesFrom]
  | p, sl :: sls, e :: es, hl, h => by
    have hl' : sls.length = es.length := by simpa using hl
    cases sl with
    | full =>
      simp only [presLeftSpec, Slice.isFull, if_true] at h
      simp only [subStrides, leftStridesFrom, Slice.isIdx, subExts, Slice.ext, Slice.step, Nat.mul_one,
        Bool.false_eq_true, if_false]
      rw [presLeft_strides (p * e) sls es hl' h]
    | range b e' =>
      simp only [presLeftSpec, Slice.isFull, Slice.isRange, Slice.isIdx, Bool.or_false, if_true,
        Bool.false_eq_true, if_false, Bool.true_or] at h
      simp only [subStrides, leftStridesFrom, Slice.isIdx, subExts, Slice.ext, Slice.step, Nat.mul_one,
        Bool.false_eq_true, if_false]
      rw [subStrides_allIdx sls _ h, subExts_allIdx sls es h]; simp [leftStridesFrom]
    | idx i =>
      simp only [presLeftSpec, Slice.isFull, Slice.isRange, Slice.isIdx, Bool.or_true, if_true,
        Bool.false_eq_true, if_false] at h
      simp only [subStrides, leftStridesFrom, Slice.isIdx, subExts, Slice.ext, if_true]
      rw [subStrides_allIdx sls _ h, subExts_allIdx sls es h]; simp [leftStridesFrom]
    | strided o x s =>
      simp [presLeftSpec, Slice.isFull, Slice.isRange, Slice.isIdx] at h
  | _, [], _ :: _, hl, _ => by simp at hl
  | _, _ :: _, [], hl, _ => by simp at hl

end Mdspan
