import MdspanVerif.Model.Extents
/-!
# C06 — extents report exactly the static and run-time extents they were built from
-/
namespace Mdspan

theorem dynSlot_cons_succ (a : Option Nat) (p : Pattern) (r : Nat) :
    dynSlot (a :: p) (r + 1) = (if a.isNone then 1 else 0) + dynSlot p r := by
  cases a <;> simp [dynSlot, List.take_succ_cons, List.filter_cons] <;> omega

/-- **no out-of-range slot**: a dynamic position always finds its slot inside the value array -/
theorem dynSlot_lt : ∀ (p : Pattern) (r : Nat), p[r]? = some none → dynSlot p r < rankDyn p
  | [], r, h => by simp at h
  | a :: p, 0, h => by
    simp at h; subst h
    simp [dynSlot, rankDyn, List.filter_cons]
  | a :: p, r + 1, h => by
    have ih := dynSlot_lt p r (by simpa using h)
    rw [dynSlot_cons_succ]
    cases a <;> simp [rankDyn, List.filter_cons] at * <;> omega

/-- the dynamic-only constructor: the `k`-th dynamic position reports the `k`-th value,
    static positions report the static value -/
theorem C06_fromDyn (p : Pattern) (vals : List Int) (r : Nat) :
    (Ext.fromDyn p vals).extent r =
      match p[r]? with
      | some (some s) => (s : Int)
      | some none => vals.getD (dynSlot p r) 0
      | none => 0 := by
  rfl

/-- generalised invariant of the fill loop: slots below `k` are never touched again, and the
    dynamic position `r` of the remaining pattern ends up holding `vals[r]` -/
theorem fillGo_spec : ∀ (p : Pattern) (vals : List Int) (k : Nat) (dyn : List Int),
    vals.length = p.length → k + rankDyn p ≤ dyn.length →
    (∀ j, j < k → (fillGo p vals k dyn).getD j 0 = dyn.getD j 0) ∧
    (∀ r, p[r]? = some none → (fillGo p vals k dyn).getD (k + dynSlot p r) 0 = vals.getD r 0)
  | [], vals, k, dyn, _, _ => by
    constructor
    · intro j _; cases vals <;> rfl
    · intro r h; simp at h
  | none :: p, v :: vs, k, dyn, hl, hk => by
    have hl' : vs.length = p.length := by simpa using hl
    have hk' : (k + 1) + rankDyn p ≤ (dyn.set k v).length := by
      simp [rankDyn, List.filter_cons] at hk ⊢; omega
    obtain ⟨ih1, ih2⟩ := fillGo_spec p vs (k + 1) (dyn.set k v) hl' hk'
    simp only [fillGo]
    constructor
    · intro j hj
      rw [ih1 j (by omega)]
      have hne : k ≠ j := by omega
      simp [List.getD_eq_getElem?_getD, List.getElem?_set, hne]
    · intro r hr
      cases r with
      | zero =>
        have hlen : k < dyn.length := by simp [rankDyn, List.filter_cons] at hk; omega
        have : dynSlot (none :: p) 0 = 0 := by simp [dynSlot]
        rw [this]
        show (fillGo p vs (k + 1) (dyn.set k v)).getD k 0 = _
        rw [ih1 k (by omega)]
        simp [List.getD_eq_getElem?_getD, List.getElem?_set, hlen]
      | succ r =>
        rw [dynSlot_cons_succ]
        have := ih2 r (by simpa using hr)
        simp only [Option.isNone_none, if_true] at *
        rw [show k + (1 + dynSlot p r) = k + 1 + dynSlot p r by omega, this]
        simp
  | some s :: p, v :: vs, k, dyn, hl, hk => by
    have hl' : vs.length = p.length := by simpa using hl
    have hk' : k + rankDyn p ≤ dyn.length := by
      simp [rankDyn, List.filter_cons] at hk ⊢; omega
    obtain ⟨ih1, ih2⟩ := fillGo_spec p vs k dyn hl' hk'
    simp only [fillGo]
    constructor
    · exact ih1
    · intro r hr
      cases r with
      | zero => simp at hr
      | succ r =>
        rw [dynSlot_cons_succ]
        have := ih2 r (by simpa using hr)
        simpa using this
  | none :: p, [], _, _, hl, _ => by simp at hl
  | some _ :: p, [], _, _, hl, _ => by simp at hl

/-- **C06, all-values constructors**: a dynamic position reports the value supplied for it,
    a static position its static value — for every pattern of every rank -/
theorem C06_fromAll (p : Pattern) (vals : List Int) (hl : vals.length = p.length) (r : Nat) :
    (Ext.fromAll p vals).extent r =
      match p[r]? with
      | some (some s) => (s : Int)
      | some none => vals.getD r 0
      | none => 0 := by
  simp only [Ext.extent, Ext.fromAll]
  cases hp : p[r]? with
  | none => rfl
  | some a =>
    cases a with
    | some s => rfl
    | none =>
      have := (fillGo_spec p vals 0 (List.replicate (rankDyn p) 0) hl (by simp)).2 r hp
      simpa using this

/-- the observers as spelled in the template arguments -/
theorem C06_rank (p : Pattern) (vals : List Int) : (Ext.ctor p vals).rank = p.length := by
  simp [Ext.ctor, Ext.rank]; split <;> rfl
theorem C06_static (p : Pattern) (vals : List Int) (r : Nat) :
    (Ext.ctor p vals).staticExtent r = (p[r]?).getD none := by
  simp [Ext.ctor, Ext.staticExtent]; split <;> rfl

/-- generalised invariant of the conversion gather -/
theorem convGo_spec (src : Ext) : ∀ (p : Pattern) (r0 r : Nat), p[r]? = some none →
    (convGo src p r0).getD (dynSlot p r) 0 = src.extent (r0 + r)
  | [], _, r, h => by simp at h
  | none :: p, r0, 0, _ => by simp [convGo, dynSlot]
  | none :: p, r0, r + 1, h => by
    rw [dynSlot_cons_succ]
    have := convGo_spec src p (r0 + 1) r (by simpa using h)
    simp only [convGo, Option.isNone_none, if_true]
    rw [show 1 + dynSlot p r = dynSlot p r + 1 by omega]
    simp only [List.getD_cons_succ]
    rw [this]; congr 1; omega
  | some s :: p, r0, 0, h => by simp at h
  | some s :: p, r0, r + 1, h => by
    rw [dynSlot_cons_succ]
    have := convGo_spec src p (r0 + 1) r (by simpa using h)
    simp only [convGo]
    simp only [Option.isNone_some, Bool.false_eq_true, if_false, Nat.zero_add]
    rw [this]; congr 1; omega

/-- **C06, conversion**: every dynamic position of the target reports the source's extent -/
theorem C06_conv (p : Pattern) (src : Ext) (r : Nat) (h : p[r]? = some none) :
    (Ext.conv p src).extent r = src.extent r := by
  have := convGo_spec src p 0 r h
  rw [Nat.zero_add] at this
  show (match p[r]? with
    | some (some s) => (s : Int)
    | some none => (convGo src p 0).getD (dynSlot p r) 0
    | none => 0) = _
  rw [h]; exact this

end Mdspan
