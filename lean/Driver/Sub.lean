import Driver.Util
import MdspanVerif.Model.LayoutM
import MdspanVerif.Model.SubM
import MdspanVerif.Model.Adm
/-! `sub` op family: machine-layer mirror of `submdspan_mapping` (repaired tree). -/
open Mdspan

namespace Drv

def parseSlice (s : String) : Option SliceI :=
  match s.splitOn ":" with
  | ["i", a] => a.toInt?.map SliceI.idx
  | ["r", a, b] => do let a ← a.toInt?; let b ← b.toInt?; pure (SliceI.range a b)
  | ["f"] => some SliceI.full
  | ["s", a, b, c] => do let a ← a.toInt?; let b ← b.toInt?; let c ← c.toInt?; pure (SliceI.strided a b c)
  -- pair given as std::tuple, and the compile-time valued kinds: same values, other C++ types
  | ["t", a, b] => do let a ← a.toInt?; let b ← b.toInt?; pure (SliceI.range a b)
  | ["I", a] => a.toInt?.map SliceI.idx
  | ["R", a, b] => do let a ← a.toInt?; let b ← b.toInt?; pure (SliceI.range a b)
  | ["S", a, b, c] => do let a ← a.toInt?; let b ← b.toInt?; let c ← c.toInt?; pure (SliceI.strided a b c)
  | ["Q", a, b, c] => do let a ← a.toInt?; let b ← b.toInt?; let c ← c.toInt?; pure (SliceI.strided a b c)
  | ["U", a, b, c] => do let a ← a.toInt?; let b ← b.toInt?; let c ← c.toInt?; pure (SliceI.strided a b c)
  | ["Z", a, b, c] => do let a ← a.toInt?; let b ← b.toInt?; let c ← c.toInt?; pure (SliceI.strided a b c)
  | _ => none

def SliceI.wrapT (T : ITy) : SliceI → SliceI
  | .idx i => .idx (T.wrap i)
  | .range b e => .range (T.wrap b) (T.wrap e)
  | .full => .full
  | .strided o x s => .strided (T.wrap o) (T.wrap x) (T.wrap s)

structure SubRes where
  off : Int
  exts : List Int
  kind : String
  strs : List Int

def subMapping (T : ITy) (kind : String) (es ss : List Int) (sls : List SliceI) : M SubRes := do
  let n := es.length
  let kinds := sls.map SliceI.toKind
  let xs ← subExtsM T sls es
  let keep := match kind with
    | "left" => preserveLeft kinds
    | "right" => preserveRight kinds
    | _ => false
  let fs := sls.map (fun s => T.wrap s.first)
  let offv ← (if anyAtEndI sls es then
      (match kind with
        | "stride" => spanStrideM T es ss
        | _ => spanLRM T es)
    else
      (match kind with
        | "left" => leftOffM T es fs
        | "right" => rightOffM T es fs
        | _ => strideOffM T fs ss))
  let off := ITy.u64.wrap offv
  let m := xs.length
  if keep then do
    let strs ← (List.range m).mapM (fun r => if kind == "left" then leftStrideM T xs r else rightStrideM T xs r)
    pure { off := off, exts := xs, kind := kind, strs := strs }
  else do
    let src ← (match kind with
      | "left" => (List.range n).mapM (fun r => leftStrideM T es r)
      | "right" => (List.range n).mapM (fun r => rightStrideM T es r)
      | _ => pure ss)
    let strs ← subStridesM T true sls src
    pure { off := off, exts := xs, kind := "stride", strs := strs }

/-- all multi-indices inside `es`, row-major -/
def allIdx : List Int → List (List Int)
  | [] => [[]]
  | e :: es => (List.range e.toNat).flatMap (fun (i : Nat) => (allIdx es).map (fun t => Int.ofNat i :: t))

def subAlias (T : ITy) (r : SubRes) : M (List Int) :=
  if r.exts.any (· ≤ 0) then pure [] else
  ((allIdx r.exts).take 4096).mapM (fun js => do
    let v ← (match r.kind with
      | "left" => leftOffM T r.exts js
      | "right" => rightOffM T r.exts js
      | _ => strideOffM T js r.strs)
    pure (ITy.u64.wrap (r.off + ITy.u64.wrap v)))

def toSlice : SliceI → Option Slice
  | .idx i => if i < 0 then none else some (.idx i.toNat)
  | .range b e => if b < 0 || e < 0 then none else some (.range b.toNat e.toNat)
  | .full => some .full
  | .strided o x s => if o < 0 || x < 0 || s < 0 then none else some (.strided o.toNat x.toNat s.toNat)

def slicesValidB : List Slice → List Nat → Bool
  | [], [] => true
  | sl :: sls, e :: es =>
    (match sl with
      | .idx i => i < e
      | .range b e' => b ≤ e' && e' ≤ e
      | .full => true
      | .strided o x s => o + x ≤ e && (x == 0 || 0 < s)) && slicesValidB sls es
  | _, _ => false

def subAdm (T : ITy) (kind : String) (es ss : List Int) (sls : List SliceI) : Bool :=
  if es.any (· < 0) || ss.any (· < 0) then false else
  let esN := es.map Int.toNat
  let L : Layout := match kind with
    | "left" => .left esN
    | "right" => .right esN
    | _ => .stride esN (ss.map Int.toNat)
  match sls.mapM toSlice with
  | none => false
  | some sl => L.admB T && slicesValidB sl esN

def subOp (T : ITy) (kind : String) (es ss : List Int) (sls : List SliceI) (op : String) : String :=
  if op == "adm" then s!"ok {fmtB (subAdm T kind es ss sls)}" else
  match subMapping T kind es ss sls with
  | .ok r =>
    if op == "alias" then showL (subAlias T r)
    else
      let spans : M (Int × Int) := do
        let sp ← (match r.kind with
          | "stride" => spanStrideM T r.exts r.strs
          | _ => spanLRM T r.exts)
        let ssp ← (match kind with
          | "stride" => spanStrideM T es ss
          | _ => spanLRM T es)
        pure (sp, ssp)
      match spans with
      | .ok (sp, ssp) => s!"off={r.off} ext={fmtL r.exts} kind={r.kind} str={fmtL r.strs} span={sp} sspan={ssp}"
      | .error e => ubStr e
  | .error e => ubStr e

def subLine (kind ty : String) (rest : List String) : String :=
  match parseTy ty with
  | none => "bad-op"
  | some T =>
    let es := wrapL T (parseList ((getKey rest "ext").getD "-"))
    let ss := wrapL T (parseList ((getKey rest "str").getD "-"))
    let sl := ((getKey rest "sl").getD "").splitOn ";"
    match sl.mapM parseSlice with
    | some sls =>
      let op := (plainToks rest).headD "info"
      if op == "mds" then
        -- mdspan-level submdspan: data handle = accessor.offset(handle, offset) (exactly one call), accessor = offset_policy(accessor)
        let h : Int := (((getKey rest "h").getD "0").toInt?).getD 0
        let id : Int := (((getKey rest "id").getD "0").toInt?).getD 0
        match subMapping T kind es ss (sls.map (SliceI.wrapT T)) with
        | .ok r => s!"h={h + r.off} acc={id} n=1 log={-1 - h},{r.off} same=1 ext={fmtL r.exts}"
        | .error e => ubStr e
      else subOp T kind es ss (sls.map (SliceI.wrapT T)) op
    | none => "bad-op"

end Drv
