"""conversion / comparison op server (C08): ordered pairs of mapping types, ranks 0-3, several index-type pairs and
padding values; all-dynamic extents for the full matrix plus a family with static / mixed extents patterns on both
sides (values consistent with the static extents, so that the Mandates hold)."""
import hashlib
from vf.common import ITYPES
from harness.gen_map import cxx_extents, KINDS, pat_str
TPAIRS = [('i32', 'i32'), ('i32', 'i64'), ('u8', 'i32'), ('i64', 'u16'), ('u64', 'u64'), ('i16', 'u32')]
LAYS = [('left', None), ('right', None), ('stride', None), ('lpad', 'D'), ('lpad', 2), ('lpad', 4), ('rpad', 'D'), ('rpad', 2), ('rpad', 4)]
def instances():
    out = []
    for (t, u) in TPAIRS:
        for r in range(0, 4):
            for (sk, ssp) in LAYS:
                for (dk, dsp) in LAYS:
                    # padded -> padded of the same side: mandate P == Q unless one is dynamic
                    if sk == dk and sk in ('lpad', 'rpad') and ssp != 'D' and dsp != 'D' and ssp != dsp: continue
                    if (t, u) != ('i32', 'i32') and (ssp not in (None, 'D', 4) or dsp not in (None, 'D', 4)): continue
                    out.append((sk, ssp, t, dk, dsp, u, r))
    out = [i + (None, None) for i in out]
    # static / mixed patterns: shape per rank, masks (True = static) for source and target
    SHAPES = {1: [(4,), (3,)], 2: [(4, 4), (2, 3)], 3: [(4, 3, 4), (2, 3, 2)]}
    LAYS2 = [('left', None), ('right', None), ('stride', None), ('lpad', 'D'), ('lpad', 4), ('rpad', 'D'), ('rpad', 4)]
    def masks(r):
        allS, allD = (True,) * r, (False,) * r
        mixA = tuple(k % 2 == 0 for k in range(r)); mixB = tuple(k % 2 == 1 for k in range(r))
        return [(allS, allD), (allD, allS), (allS, allS), (mixA, mixB), (mixB, mixA), (mixA, allS), (mixA, mixA), (mixB, mixB)]      # incl. the SAME mixed pattern on both sides
    for (t, u) in [('i32', 'i32'), ('u8', 'i32'), ('i64', 'u16')]:
        for r in (1, 2, 3):
            combos = [(sh, m) for sh in SHAPES[r] for m in masks(r)]
            for (sk, ssp) in LAYS2:
                for (dk, dsp) in LAYS2:
                    if (t, u) == ('i64', 'u16') and (sk, dk) not in (('left', 'left'), ('right', 'stride'), ('stride', 'left'), ('lpad', 'lpad'), ('rpad', 'right'), ('left', 'lpad')): continue
                    h = int(hashlib.sha256(repr((t, u, r, sk, ssp, dk, dsp)).encode()).hexdigest(), 16)
                    picks = [combos[(h + q * 5) % len(combos)] for q in range(2)]
                    if sk == dk and ssp == dsp and t == u:      # the same mapping type on both sides: comparisons of two values of ONE type
                        picks += [(sh_, m_) for sh_ in SHAPES[r][:1] for m_ in masks(r)[-2:]]
                    for sh, (ms, md_) in picks:
                        spat = tuple(e if m else None for e, m in zip(sh, ms)); dpat = tuple(e if m else None for e, m in zip(sh, md_))
                        if not mandates_ok(sk, ssp, dk, dsp, r, spat, dpat): continue
                        out.append((sk, ssp, t, dk, dsp, u, r, spat, dpat))
    return out
def mandates_ok(sk, ssp, dk, dsp, r, spat, dpat):
    """the static_asserts (Mandates) of the padded converting constructors: combinations they reject do not compile
    (that they are rejected is checked by C16's mandate probes); layout_padded_fwd.hpp check_..._mandates and
    layout_padded.hpp, constructors from layout_left / layout_right"""
    if r <= 1: return True
    lm = lambda p, e: -(-e // p) * p
    if (dk, sk) in (('left', 'lpad'), ('right', 'rpad')):
        i = 0 if sk == 'lpad' else r - 1
        if dpat[i] is not None and spat[i] is not None and ssp not in (None, 'D'): return dpat[i] % ssp == 0
    if (dk, sk) in (('lpad', 'left'), ('rpad', 'right')):
        i = 0 if dk == 'lpad' else r - 1
        if dsp not in (None, 'D') and dpat[i] is not None and spat[i] is not None: return lm(dsp, dpat[i]) == spat[i]
    return True
def shape_of(i):
    """the extents values a static-family instantiation is consistent with (None where both sides are dynamic)"""
    return [a if a is not None else b for a, b in zip(i[7], i[8])]
def sp(x): return 'md::dynamic_extent' if x in (None, 'D') else str(x)
def key(kind, i): return '%s:%s:%s%s:%s' % (kind, i[0], i[2], (':%s:%s' % (pat_str(i[7]), pat_str(i[8]))) if i[7] is not None else '', '%s,%s,%s,%s,%d' % (i[1], i[3], i[4], i[5], i[6]))
def line(kind, i): return '%s %s %s k=%s%s' % (kind, i[0], i[2], '%s,%s,%s,%s,%d' % (i[1], i[3], i[4], i[5], i[6]), (' pat=%s spat=%s' % (pat_str(i[7]), pat_str(i[8]))) if i[7] is not None else '')
def lite(insts):
    return [i for i in insts if (i[2], i[5]) in (('i32', 'i32'), ('u8', 'i32')) and i[6] <= 2 and (i[7] is None or (i[2], i[5]) == ('i32', 'i32'))]

def sources(ntu=16, insts=None):
    tus = [[] for _ in range(ntu)]
    for n, i in enumerate(insts if insts is not None else instances()):
        sk, ssp, t, dk, dsp, u, r, spat, dpat = i
        tus[n % ntu].append('  regConv<%s, %s, %s, %s, %s, %s>("%s", "%s");' % (KINDS[sk], cxx_extents(t, spat if spat is not None else [None] * r), sp(ssp), KINDS[dk], cxx_extents(u, dpat if dpat is not None else [None] * r), sp(dsp), key('conv', i), key('mapeq', i)))
    srcs = [('conv_tu%d.cpp' % i, '#include "convsrv.hpp"\nusing namespace vh;\nvoid reg_conv_%d() {\n%s\n}\n' % (i, '\n'.join(b))) for i, b in enumerate(tus)]
    srcs.append(('conv_main.cpp', '#include "vh.hpp"\n' + ''.join('void reg_conv_%d();\n' % i for i in range(ntu)) + 'int main() {\n' + ''.join('  reg_conv_%d();\n' % i for i in range(ntu)) + '  return vh::serve();\n}\n'))
    return srcs
