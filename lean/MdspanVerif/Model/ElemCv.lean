/-!
# Element types with both cv-qualifiers (C16: `default_accessor<T>` from `default_accessor<U>`)

`Types2.lean` models element types as a base type plus `const`.  The constraint of the converting constructor,
`is_convertible_v<U(*)[], T(*)[]>`, is a qualification conversion of a pointer to an array of unknown bound: it exists exactly when
`T` and `U` are the same type up to cv-qualification and `T` is at least as cv-qualified as `U` — `const` AND `volatile`.
-/
namespace Mdspan

structure ElemCv where
  base : Nat
  isConst : Bool
  isVolatile : Bool
deriving DecidableEq, Repr

/-- `is_convertible_v<U(*)[], T(*)[]>` (U = `s`, T = `d`) -/
def arrPtrConvertible (d s : ElemCv) : Bool :=
  decide (s.base = d.base) && (!s.isConst || d.isConst) && (!s.isVolatile || d.isVolatile)

/-- `default_accessor<T>(const default_accessor<U>&)` participates iff the array-pointer conversion exists; it is never explicit -/
def accCvConstructible (d s : ElemCv) : Bool := arrPtrConvertible d s
def accCvConvertible (d s : ElemCv) : Bool := arrPtrConvertible d s

end Mdspan
