// C17 probes: CTAD results, member types, noexcept
#pragma once
#include "probe.hpp"
#include "viewsrv.hpp"
#include <mdspan/mdarray.hpp>
namespace vh {
// exact type identity (size_t is `unsigned long` here; `unsigned long long` is a different type of the same width)
template <class I> std::string ityName() {
  if (std::is_same_v<I, signed char>) return "i8"; if (std::is_same_v<I, unsigned char>) return "u8"; if (std::is_same_v<I, short>) return "i16"; if (std::is_same_v<I, unsigned short>) return "u16";
  if (std::is_same_v<I, int>) return "i32"; if (std::is_same_v<I, unsigned>) return "u32"; if (std::is_same_v<I, long>) return "i64"; if (std::is_same_v<I, unsigned long>) return "u64";
  if (std::is_same_v<I, long long>) return "i64ll"; if (std::is_same_v<I, unsigned long long>) return "u64ll";
  return "other";
}
template <class E> std::string descExt() { return "idx=" + ityName<typename E::index_type>() + " pat=" + patOf<E>(); }
template <class L> std::string layFull() {
  if (std::is_same_v<L, md::layout_left>) return "left"; if (std::is_same_v<L, md::layout_right>) return "right"; if (std::is_same_v<L, md::layout_stride>) return "stride";
  if (std::is_same_v<L, mdx::layout_left_padded<md::dynamic_extent>>) return "lpadD"; if (std::is_same_v<L, mdx::layout_right_padded<4>>) return "rpad4";
  return "other";
}
// an accessor whose reference is a VALUE (read-only view): element_type const T, reference T
template <class T> struct ValAcc {
  using offset_policy = ValAcc; using element_type = const T; using reference = T; using data_handle_type = const T*;
  constexpr ValAcc() noexcept = default;
  constexpr reference access(data_handle_type p, size_t i) const noexcept { return p[i]; }
  constexpr data_handle_type offset(data_handle_type p, size_t i) const noexcept { return p + i; }
};
// a conforming user layout none of whose mapping observers is noexcept (the layout mapping requirements do not demand it)
struct NeLayout {
  template <class E> struct mapping {
    using extents_type = E; using index_type = typename E::index_type; using size_type = typename E::size_type; using rank_type = typename E::rank_type; using layout_type = NeLayout;
    md::layout_right::mapping<E> inner;
    constexpr mapping() = default;
    constexpr mapping(const E& e) : inner(e) {}
    constexpr const E& extents() const { return inner.extents(); }
    constexpr index_type required_span_size() const { return inner.required_span_size(); }
    template <class... I> constexpr index_type operator()(I... i) const { return inner(i...); }
    static constexpr bool is_always_unique() { return true; } static constexpr bool is_always_exhaustive() { return true; } static constexpr bool is_always_strided() { return true; }
    constexpr bool is_unique() const { return true; } constexpr bool is_exhaustive() const { return true; } constexpr bool is_strided() const { return true; }
    constexpr index_type stride(rank_type r) const { return inner.stride(r); }
    template <class F> friend constexpr bool operator==(const mapping& a, const mapping<F>& b) { return a.inner == b.inner; }
  };
};
// a conforming user layout whose mapping has its OWN idea of size_type (the layout mapping requirements fix index_type and rank_type only)
struct SzLayout {
  template <class E> struct mapping {
    using extents_type = E; using index_type = typename E::index_type; using size_type = std::size_t; using rank_type = typename E::rank_type; using layout_type = SzLayout;
    md::layout_right::mapping<E> inner;
    constexpr mapping() noexcept = default;
    constexpr mapping(const E& e) noexcept : inner(e) {}
    constexpr const E& extents() const noexcept { return inner.extents(); }
    constexpr index_type required_span_size() const noexcept { return inner.required_span_size(); }
    template <class... I> constexpr index_type operator()(I... i) const noexcept { return inner(i...); }
    static constexpr bool is_always_unique() noexcept { return true; } static constexpr bool is_always_exhaustive() noexcept { return true; } static constexpr bool is_always_strided() noexcept { return true; }
    static constexpr bool is_unique() noexcept { return true; } static constexpr bool is_exhaustive() noexcept { return true; } static constexpr bool is_strided() noexcept { return true; }
    constexpr index_type stride(rank_type r) const noexcept { return inner.stride(r); }
    template <class F> friend constexpr bool operator==(const mapping& a, const mapping<F>& b) noexcept { return a.inner == b.inner; }
  };
};
// index-like class types for the strides array of layout_stride::mapping(extents, array): nothrow conversion to the index type, but a
// copy constructor that may throw / that does not exist - the constructor takes the array BY CONST REFERENCE and is unconditionally noexcept
struct ThrowCopyIdx { long v = 1; ThrowCopyIdx() = default; ThrowCopyIdx(const ThrowCopyIdx& o) noexcept(false) : v(o.v) {} constexpr operator long() const noexcept { return v; } };
struct MoveOnlyIdx { long v = 1; MoveOnlyIdx() = default; MoveOnlyIdx(MoveOnlyIdx&&) = default; MoveOnlyIdx(const MoveOnlyIdx&) = delete; constexpr operator long() const noexcept { return v; } };
template <class E> std::string strideCtorFacts() {
  using M = md::layout_stride::mapping<E>; constexpr size_t R = E::rank();
  std::string s = "sc=";
  s += num(std::is_nothrow_constructible_v<M, const E&, const std::array<int, R>&>) + num(std::is_nothrow_constructible_v<M, const E&, const std::array<ThrowCopyIdx, R>&>);
  s += num(noexcept(M(std::declval<const E&>(), std::declval<const std::array<ThrowCopyIdx, R>&>()))) + num(std::is_constructible_v<M, const E&, const std::array<MoveOnlyIdx, R>&>);
  s += num(std::is_same_v<typename decltype(md::layout_stride::mapping(std::declval<const E&>(), std::declval<const std::array<MoveOnlyIdx, R>&>()))::extents_type, E>);
  return s;
}
// mdspan's own member types: taken from extents_type, whatever the mapping declares
template <class V> std::string memberTypesMds() {
  using E = typename V::extents_type; using I = typename E::index_type;
  std::string s = "mtm=";
  s += num(std::is_same_v<typename V::size_type, std::make_unsigned_t<I>>) + num(std::is_same_v<typename V::index_type, I>) + num(std::is_same_v<typename V::rank_type, size_t>);
  s += num(std::is_same_v<decltype(std::declval<const V&>().size()), std::make_unsigned_t<I>>) + num(std::is_same_v<decltype(std::declval<const V&>().extent(0)), I>);
  return s;
}
// the noexcept facts the specification states for mdspan itself, whatever the layout's own exception specifications
template <class V> std::string noexceptsMds() {
  std::string s = "nem=";
  s += num(noexcept(std::declval<const V&>().size())) + num(noexcept(std::declval<const V&>().empty())) + num(noexcept(std::declval<const V&>().extents())) + num(noexcept(std::declval<const V&>().data_handle()));
  s += num(noexcept(std::declval<const V&>().mapping())) + num(noexcept(std::declval<const V&>().accessor())) + num(noexcept(V::rank())) + num(noexcept(V::rank_dynamic())) + num(noexcept(V::static_extent(0)));
  s += num(noexcept(std::declval<const V&>().extent(0))) + num(noexcept(swap(std::declval<V&>(), std::declval<V&>())));
  return s;
}
template <class V> std::string descMds() {
  using T = typename V::element_type; using A = typename V::accessor_type;
  std::string e = std::is_same_v<T, int> ? "int" : std::is_same_v<T, const int> ? "cint" : std::is_same_v<T, double> ? "double" : "other";
  std::string a = std::is_same_v<A, md::default_accessor<T>> ? "def" : std::is_same_v<A, StAcc<T>> ? "st" : std::is_same_v<A, PxAcc<T>> ? "px" : std::is_same_v<A, ValAcc<std::remove_const_t<T>>> ? "val" : "other";
  return "elem=" + e + " " + descExt<typename V::extents_type>() + " lay=" + layFull<typename V::layout_type>() + " acc=" + a;
}
// member types of an mdspan instantiation and its parts
template <class V> std::string memberTypes() {
  using E = typename V::extents_type; using M = typename V::mapping_type; using A = typename V::accessor_type; using I = typename E::index_type;
  std::string s = "size_type=" + ityName<typename V::size_type>() + " mt=";
  s += num(std::is_same_v<typename V::size_type, std::make_unsigned_t<I>>) + num(std::is_same_v<typename E::size_type, std::make_unsigned_t<I>>) + num(std::is_same_v<typename M::size_type, std::make_unsigned_t<I>>);
  s += num(std::is_same_v<typename V::rank_type, size_t>) + num(std::is_same_v<typename E::rank_type, size_t>) + num(std::is_same_v<typename M::rank_type, size_t>);
  s += num(std::is_same_v<typename V::index_type, I>) + num(std::is_same_v<typename M::index_type, I>);
  s += num(std::is_same_v<M, typename V::layout_type::template mapping<E>>) + num(std::is_same_v<typename M::extents_type, E>) + num(std::is_same_v<typename M::layout_type, typename V::layout_type>);
  s += num(std::is_same_v<typename V::reference, typename A::reference>) + num(std::is_same_v<typename V::data_handle_type, typename A::data_handle_type>);
  s += num(std::is_same_v<typename V::value_type, std::remove_cv_t<typename V::element_type>>);
  using AR = mdx::mdarray<int, E, typename V::layout_type>;
  s += num(std::is_same_v<typename AR::mapping_type, M>) + num(std::is_same_v<typename AR::index_type, I>) + num(std::is_same_v<typename AR::size_type, std::make_unsigned_t<I>>) + num(std::is_same_v<typename AR::rank_type, size_t>);
  return s;
}
template <class M, size_t... K> constexpr bool callNoexcept(std::index_sequence<K...>) { return noexcept(std::declval<const M&>()((typename M::index_type)(K)...)); }
template <class V, bool Padded> std::string noexcepts() {
  using E = typename V::extents_type; using M = typename V::mapping_type; constexpr size_t R = E::rank();
  std::string s = "ne=";
  s += num(noexcept(E::rank())) + num(noexcept(E::rank_dynamic())) + num(noexcept(E::static_extent(0))) + num(noexcept(std::declval<const E&>().extent(0)));
  s += num(noexcept(std::declval<const M&>().extents())) + num(noexcept(std::declval<const M&>().required_span_size())) + num(callNoexcept<M>(std::make_index_sequence<R>()));
  s += num(noexcept(M::is_always_unique())) + num(noexcept(M::is_always_exhaustive())) + num(noexcept(M::is_always_strided()));
  s += num(noexcept(std::declval<const M&>().is_unique())) + num(noexcept(std::declval<const M&>().is_exhaustive())) + num(noexcept(std::declval<const M&>().is_strided()));
  if constexpr (R > 0) s += num(noexcept(std::declval<const M&>().stride(0))); else s += "1";
  if constexpr (!Padded) {
    s += num(std::is_nothrow_copy_constructible_v<M>);
    if constexpr (std::is_constructible_v<M, const E&>) s += num(std::is_nothrow_constructible_v<M, const E&>); else s += "1";
  } else s += "11";
  s += num(noexcept(std::declval<const V&>().size())) + num(noexcept(std::declval<const V&>().empty())) + num(noexcept(std::declval<const V&>().extents())) + num(noexcept(std::declval<const V&>().data_handle()));
  s += num(noexcept(std::declval<const V&>().mapping())) + num(noexcept(std::declval<const V&>().accessor())) + num(noexcept(V::rank())) + num(noexcept(V::rank_dynamic())) + num(noexcept(V::static_extent(0)));
  s += num(noexcept(std::declval<const V&>().extent(0))) + num(noexcept(swap(std::declval<V&>(), std::declval<V&>())));
  return s;
}
} // namespace vh
