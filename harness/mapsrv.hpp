// Mapping op family: one registered closure per (layout kind, index type, extents pattern, static padding).
#pragma once
#include "vh.hpp"
namespace vh {

enum Kind { KLeft, KRight, KStride, KLpad, KRpad, KUser, KRev, KBc, KShift };

template <Kind K, class E, size_t SP> struct MapOf;
template <class E, size_t SP> struct MapOf<KLeft, E, SP> { using type = md::layout_left::mapping<E>; };
template <class E, size_t SP> struct MapOf<KRight, E, SP> { using type = md::layout_right::mapping<E>; };
template <class E, size_t SP> struct MapOf<KStride, E, SP> { using type = md::layout_stride::mapping<E>; };
#if MDSPAN_HAS_CXX_17
template <class E, size_t SP> struct MapOf<KLpad, E, SP> { using type = typename mdx::layout_left_padded<SP>::template mapping<E>; };
template <class E, size_t SP> struct MapOf<KRpad, E, SP> { using type = typename mdx::layout_right_padded<SP>::template mapping<E>; };
#endif

// construct the mapping the way a user would: from extents (+ strides array / + run-time padding)
template <Kind K, class E, size_t SP> typename MapOf<K, E, SP>::type makeMap(const Op& o) {
  using M = typename MapOf<K, E, SP>::type; using I = typename E::index_type; constexpr size_t R = E::rank();
  E e = makeExt<E>(o.ext);
  if constexpr (K == KStride) {
    std::array<I, R> s{}; for (size_t r = 0; r < R; r++) s[r] = static_cast<I>(o.str[r]);
    return M(e, s);
  } else if constexpr (K == KLpad || K == KRpad) {
    if (o.kv.count("pv")) {
      // the padding argument may be of any integer type (pt=); its value is a value of that type
      const std::string pt = o.get("pt");
      if (pt == "u8") return M(e, static_cast<unsigned char>(o.pv));
      if (pt == "i16") return M(e, static_cast<short>(o.pv));
      if (pt == "i32") return M(e, static_cast<int>(o.pv));
      if (pt == "i64") return M(e, static_cast<long>(o.pv));
      if (pt == "u64") return M(e, static_cast<unsigned long>(o.pv));
      return M(e, static_cast<I>(o.pv));
    }
    return M(e);
  } else return M(e);
}

template <class M> std::string mapOps(const M& m, const Op& o) {
  using I = typename M::index_type; constexpr size_t R = M::extents_type::rank();
  const std::string& op = o.op;
  if (op == "off") return ok<I>(static_cast<I>(callMap(m, o.arg)));
  if (op == "span") return ok<I>(m.required_span_size());
  if (op == "stride") { if constexpr (R > 0) return ok<I>(m.stride(static_cast<size_t>(o.arg.at(0)))); else return "no-op"; }
  if (op == "strides") { std::array<I, R> s{}; if constexpr (R > 0) for (size_t r = 0; r < R; r++) s[r] = m.stride(r); return "ok " + list(s); }
  if (op == "exh") return ok<int>(m.is_exhaustive() ? 1 : 0);
  if (op == "flags") {
    std::string s = "ok ";
    s += num(m.is_unique()) + "," + num(m.is_exhaustive()) + "," + num(m.is_strided()) + ",";
    s += num(M::is_always_unique()) + "," + num(M::is_always_exhaustive()) + "," + num(M::is_always_strided());
    return s;
  }
  if (op == "ext") return "ok " + extList(m.extents());
  if (op == "cvs") {      // the same mapping converted to another extents type of the same layout (all-dynamic, long): its strides
    // the widest index type of the same signedness: every value of the source is representable in the target
    using W = std::conditional_t<std::is_signed_v<I>, long, unsigned long>;
    using M2 = typename M::layout_type::template mapping<md::dextents<W, R>>;
    if constexpr (std::is_constructible_v<M2, const M&>) {
      M2 m2(m); std::array<W, R> s{}; if constexpr (R > 0) for (size_t r = 0; r < R; r++) s[r] = m2.stride(r);
      return "ok " + list(s);
    } else return "no-op";
  }
  return "bad-op";
}

template <class T, class = void> struct hasStridesArr : std::false_type {};
template <class T> struct hasStridesArr<T, std::void_t<decltype(std::declval<const T&>().strides())>> : std::true_type {};

template <Kind K, class E, size_t SP> void regMap(const std::string& key) {
  registry()[key] = [](const Op& o) -> std::string {
    using M0 = typename MapOf<K, E, SP>::type;
    if (o.op == "dflt") {      // default construction: default extents (dynamic positions 0); layout_stride gets row-major strides
      if constexpr (std::is_default_constructible_v<M0>) {
        M0 d{}; using I0 = typename M0::index_type; constexpr size_t R0 = E::rank();
        std::array<I0, R0> s0{}; if constexpr (R0 > 0) for (size_t r = 0; r < R0; r++) s0[r] = d.stride(r);
        return "ok e=" + extList(d.extents()) + " s=" + list(s0) + " span=" + num(static_cast<I0>(d.required_span_size()));
      } else return "no-op";
    }
    if (o.op == "dfltoff") {
      if constexpr (std::is_default_constructible_v<M0>) { M0 d{}; using I0 = typename M0::index_type; return ok<I0>(static_cast<I0>(callMap(d, o.arg))); }
      else return "no-op";
    }
    auto m = makeMap<K, E, SP>(o);
    using M = decltype(m);
    if (o.op == "stridesarr") {
      if constexpr (hasStridesArr<M>::value) return "ok " + list(m.strides()); else return "no-op";
    }
    return mapOps(m, o);
  };
}
} // namespace vh
