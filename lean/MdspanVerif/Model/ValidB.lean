import MdspanVerif.Lemmas.Perm
/-!
Executable decision of the stride precondition (generalised chain), used by the driver to
classify the strides a mapping is observed to have; proved sound.
-/
namespace Mdspan

def descB : List (Nat × Nat) → Bool
  | [] => true
  | d :: ds => (decide (d.1 ≤ 1) || decide (spanM1 ds < d.2)) && descB ds

theorem descB_sound : ∀ l : List (Nat × Nat), descB l = true → DescC l
  | [], _ => trivial
  | d :: ds, h => by
    simp only [descB, Bool.and_eq_true, Bool.or_eq_true, decide_eq_true_eq] at h
    exact ⟨h.1, descB_sound ds h.2⟩

/-- dimensions with at most one index value sort last; the others by descending stride -/
def sortKey (d : Nat × Nat) : Nat := if d.1 ≤ 1 then 0 else d.2

def insertDesc (d : Nat × Nat) : List (Nat × Nat) → List (Nat × Nat)
  | [] => [d]
  | x :: xs => if sortKey x ≤ sortKey d then d :: x :: xs else x :: insertDesc d xs
def sortDesc : List (Nat × Nat) → List (Nat × Nat)
  | [] => []
  | d :: ds => insertDesc d (sortDesc ds)

theorem insertDesc_perm (d : Nat × Nat) : ∀ l, (insertDesc d l).Perm (d :: l)
  | [] => List.Perm.refl _
  | x :: xs => by
    simp only [insertDesc]
    split
    · exact List.Perm.refl _
    · exact (List.Perm.cons x (insertDesc_perm d xs)).trans (List.Perm.swap d x xs)

theorem sortDesc_perm : ∀ l, (sortDesc l).Perm l
  | [] => List.Perm.refl _
  | d :: ds => (insertDesc_perm d (sortDesc ds)).trans (List.Perm.cons d (sortDesc_perm ds))

def validStridesB (es ss : List Nat) : Bool :=
  es.length == ss.length && descB (sortDesc (List.zip es ss))

/-- soundness: what the driver accepts satisfies the hypothesis of `dot_inj` / C01 -/
theorem validStridesB_sound (es ss : List Nat) (h : validStridesB es ss = true) : ValidStrides es ss := by
  simp only [validStridesB, Bool.and_eq_true, beq_iff_eq] at h
  exact ⟨h.1, sortDesc (List.zip es ss), sortDesc_perm _, descB_sound _ h.2⟩

end Mdspan
