import MdspanVerif.Props.C14h
import MdspanVerif.Model.SubMapM
import MdspanVerif.Props.C01
import MdspanVerif.Props.C04c
/-!
# C14 — transport theorem for the `sub` family: `subAdm` ⇒ `subMappingM` is UB-free and exact

`C14_sub_mapping`: whenever the driver's predicate `subAdm T kind es ss sls` holds (kind one of
"left", "right", "stride"), `subMappingM T kind es ss sls` — the mirror of the whole of
`submdspan_mapping` that is run against the C++ — executes no undefined behaviour and returns
exactly the pure-layer result: offset `subOffset`, extents `subExts`, and the kind / strides of
`subLayout` (`C14_sub_mapping_eq` is the same statement as one equation with `subResP`).

The conjunct `strideRepB` of `subAdm` ("every slice member is a value of the index type") is
needed: admissibility of the mapping and validity of the slices bound every slice member by an
extent except the stride of a `strided_slice` (validity only asks `0 < stride`), and `SliceI`
members are `Int`s.  A stride outside the index type is converted when it enters the arithmetic and
then either divides by zero or selects other elements than the pure layer says; `subAdm` is false
on such inputs (examples at the end of the file).  The driver always passes `index_type` values
(`SliceI.wrapT T`), for which `strideRepB` holds.
-/
namespace Mdspan

deriving instance DecidableEq for SubRes

/-! ### from `Int` inputs to the `Nat` layer -/

theorem toI_toNat : ∀ es : List Int, es.any (· < 0) = false → toI (es.map Int.toNat) = es
  | [], _ => rfl
  | e :: es, h => by
    simp only [List.any_cons, Bool.or_eq_false_iff, decide_eq_false_iff_not] at h
    simp only [List.map_cons, toI_cons]
    rw [toI_toNat es h.2]
    congr 1
    have := h.1
    omega

theorem toSlice_toI (s : SliceI) (t : Slice) (h : toSlice s = some t) : s = t.toI := by
  cases s with
  | idx i =>
    simp only [toSlice] at h
    split at h
    · cases h
    · cases h; simp only [Slice.toI]; congr 1; omega
  | range b e =>
    simp only [toSlice] at h
    split at h
    · cases h
    · rename_i hn
      simp only [Bool.or_eq_true, decide_eq_true_eq, not_or] at hn
      cases h; simp only [Slice.toI]; congr 1 <;> omega
  | full => simp only [toSlice] at h; cases h; rfl
  | strided o x s =>
    simp only [toSlice] at h
    split at h
    · cases h
    · rename_i hn
      simp only [Bool.or_eq_true, decide_eq_true_eq, not_or] at hn
      cases h; simp only [Slice.toI]; congr 1 <;> omega

theorem mapM_toSlice : ∀ (sls : List SliceI) (sl : List Slice), sls.mapM toSlice = some sl → sls = toSI sl
  | [], sl, h => by
    simp only [List.mapM_nil, pure, Option.some.injEq] at h
    subst h; rfl
  | s :: sls, sl, h => by
    rw [List.mapM_cons] at h
    cases h1 : toSlice s with
    | none => rw [h1] at h; cases h
    | some t =>
      cases h2 : sls.mapM toSlice with
      | none => rw [h1, h2] at h; cases h
      | some ts =>
        rw [h1, h2] at h
        simp only [bind, Option.bind, pure, Option.some.injEq] at h
        subst h
        rw [toSI_cons, ← toSlice_toI s t h1, ← mapM_toSlice sls ts h2]

theorem slicesValidB_sound : ∀ (sl : List Slice) (es : List Nat), slicesValidB sl es = true → SlicesValid sl es
  | [], [], _ => trivial
  | s :: sl, e :: es, h => by
    simp only [slicesValidB, Bool.and_eq_true] at h
    refine ⟨?_, slicesValidB_sound sl es h.2⟩
    have h1 := h.1
    cases s with
    | idx i => simpa [Slice.Valid] using h1
    | range b e' => simpa [Slice.Valid] using h1
    | full => trivial
    | strided o x st => simpa [Slice.Valid] using h1
  | [], _ :: _, h => by simp [slicesValidB] at h
  | _ :: _, [], h => by simp [slicesValidB] at h

/-! ### the "keep the layout" decision only looks at the kind of each slice -/

theorem toKind_isIdx (s : Slice) : s.toI.toKind.isIdx = s.isIdx := by cases s <;> rfl
theorem toKind_isFull (s : Slice) : s.toI.toKind.isFull = s.isFull := by cases s <;> rfl
theorem toKind_isRange (s : Slice) : s.toI.toKind.isRange = s.isRange := by cases s <;> rfl

theorem subRank_kinds : ∀ sl : List Slice, subRank ((toSI sl).map SliceI.toKind) = subRank sl
  | [] => rfl
  | s :: sl => by
    have ih := subRank_kinds sl
    simp only [subRank] at ih ⊢
    simp only [toSI_cons, List.map_cons, List.filter_cons, toKind_isIdx]
    split <;> simp [ih]

theorem preserveLeftAt_kinds (sr : Nat) : ∀ (i : Nat) (sl : List Slice),
    preserveLeftAt sr i ((toSI sl).map SliceI.toKind) = preserveLeftAt sr i sl
  | _, [] => rfl
  | i, s :: sl => by
    simp only [toSI_cons, List.map_cons, preserveLeftAt, toKind_isFull, toKind_isRange,
      preserveLeftAt_kinds sr (i + 1) sl]

theorem preserveRightAt_kinds (n sr : Nat) : ∀ (i : Nat) (sl : List Slice),
    preserveRightAt n sr i ((toSI sl).map SliceI.toKind) = preserveRightAt n sr i sl
  | _, [] => rfl
  | i, s :: sl => by
    simp only [toSI_cons, List.map_cons, preserveRightAt, toKind_isFull, toKind_isRange,
      preserveRightAt_kinds n sr (i + 1) sl]

theorem preserveLeft_kinds (sl : List Slice) :
    preserveLeft ((toSI sl).map SliceI.toKind) = preserveLeft sl := by
  simp only [preserveLeft, subRank_kinds, preserveLeftAt_kinds]

theorem preserveRight_kinds (sl : List Slice) :
    preserveRight ((toSI sl).map SliceI.toKind) = preserveRight sl := by
  have hl : ((toSI sl).map SliceI.toKind).length = sl.length := by simp [toSI]
  simp only [preserveRight, subRank_kinds, preserveRightAt_kinds, hl]

/-! ### at-end test and the first indices -/

theorem first_toI (s : Slice) : s.toI.first = (s.first : Int) := by cases s <;> rfl

theorem anyAtEndI_toI : ∀ (sl : List Slice) (es : List Nat),
    anyAtEndI (toSI sl) (toI es) = anyAtEnd sl es
  | [], _ => by simp [anyAtEndI, anyAtEnd]
  | _ :: _, [] => by simp [anyAtEndI, anyAtEnd]
  | s :: sl, e :: es => by
    simp only [toSI_cons, toI_cons, anyAtEndI, anyAtEnd, first_toI, natCast_beq, anyAtEndI_toI sl es]

theorem first_le (s : Slice) (e : Nat) (hv : s.Valid e) : s.first ≤ e := by
  cases s with
  | idx i => exact Nat.le_of_lt hv
  | range b e' => exact Nat.le_trans hv.1 hv.2
  | full => exact Nat.zero_le _
  | strided o x st => have := hv.1; simp only [Slice.first]; omega

theorem firsts_wrap (T : ITy) : ∀ (sl : List Slice) (es : List Nat), SlicesValid sl es →
    (∀ e ∈ es, (e : Int) ≤ T.hi) →
    (toSI sl).map (fun s => T.wrap s.first) = toI (firsts sl)
  | [], [], _, _ => rfl
  | s :: sl, e :: es, hv, hre => by
    simp only [toSI_cons, List.map_cons, firsts, toI_cons, first_toI]
    rw [ITy.wrap_id T _ (Int.natCast_nonneg _)
      (natCast_le_of_le (first_le s e hv.1) (hre e (by simp)))]
    congr 1
    exact firsts_wrap T sl es hv.2 (fun x hx => hre x (List.mem_cons_of_mem _ hx))
  | [], _ :: _, hv, _ => by simp [SlicesValid] at hv
  | _ :: _, [], hv, _ => by simp [SlicesValid] at hv

/-! ### representability of the slice members

Validity bounds every member of a slice by the extent except the stride of a `strided_slice`;
the slices given to `subMappingM` are `index_type` values, which is what `strideRepB`\n(`Model/SubMapM.lean`, a conjunct of `subAdm`) records. -/

theorem slice_rep (T : ITy) (s : Slice) (e : Nat) (hv : s.Valid e) (he : (e : Int) ≤ T.hi)
    (hs : s.toI.strideRepB T = true) : s.Rep T := by
  cases s with
  | idx i => exact natCast_le_of_le (Nat.le_of_lt hv) he
  | range b e' => exact ⟨natCast_le_of_le (Nat.le_trans hv.1 hv.2) he, natCast_le_of_le hv.2 he⟩
  | full => trivial
  | strided o x st =>
    have := hv.1
    refine ⟨natCast_le_of_le (by omega) he, natCast_le_of_le (by omega) he, ?_⟩
    simpa [Slice.toI, SliceI.strideRepB] using hs

theorem slices_rep (T : ITy) : ∀ (sl : List Slice) (es : List Nat), SlicesValid sl es →
    (∀ e ∈ es, (e : Int) ≤ T.hi) → strideRepB T (toSI sl) = true → ∀ s ∈ sl, s.Rep T
  | [], [], _, _, _ => by simp
  | s :: sl, e :: es, hv, hre, hs => by
    simp only [strideRepB, toSI_cons, List.all_cons, Bool.and_eq_true] at hs
    intro t ht
    rcases List.mem_cons.mp ht with rfl | ht
    · exact slice_rep T t e hv.1 (hre e (by simp)) hs.1
    · exact slices_rep T sl es hv.2 (fun x hx => hre x (List.mem_cons_of_mem _ hx)) hs.2 t ht
  | [], _ :: _, hv, _, _ => by simp [SlicesValid] at hv
  | _ :: _, [], hv, _, _ => by simp [SlicesValid] at hv

/-! ### bounds in the pure layer -/

theorem ext_le (s : Slice) (e x : Nat) (hv : s.Valid e) (h : s.ext e = some x) : x ≤ e := by
  cases s with
  | idx i => cases h
  | range b e' =>
    simp only [Slice.ext, Option.some.injEq] at h
    have := hv.2; omega
  | full => simp only [Slice.ext, Option.some.injEq] at h; omega
  | strided o x' st =>
    simp only [Slice.ext, Option.some.injEq] at h
    have h1 := hv.1
    split at h
    · have := Nat.div_le_self (x' - 1) st; omega
    · omega

theorem subExts_le : ∀ (sl : List Slice) (es : List Nat), SlicesValid sl es →
    ∀ x ∈ subExts sl es, ∃ e ∈ es, x ≤ e
  | [], [], _ => by simp [subExts]
  | s :: sl, e :: es, hv => by
    intro x hx
    have ih := subExts_le sl es hv.2
    simp only [subExts] at hx
    cases hs : s.ext e with
    | none =>
      rw [hs] at hx
      obtain ⟨e', he', hle⟩ := ih x hx
      exact ⟨e', List.mem_cons_of_mem _ he', hle⟩
    | some y =>
      rw [hs] at hx
      rcases List.mem_cons.mp hx with rfl | hx
      · exact ⟨e, by simp, ext_le s e x hv.1 hs⟩
      · obtain ⟨e', he', hle⟩ := ih x hx
        exact ⟨e', List.mem_cons_of_mem _ he', hle⟩
  | [], _ :: _, hv => by simp [SlicesValid] at hv
  | _ :: _, [], hv => by simp [SlicesValid] at hv

theorem one0_mono {a b : Nat} (h : a ≤ b) : one0 a ≤ one0 b := by
  unfold one0; split <;> split <;> omega

theorem prod1_cons (e : Nat) (es : List Nat) : prod1 (e :: es) = one0 e * prod1 es := rfl

theorem prod1_subExts_le : ∀ (sl : List Slice) (es : List Nat), SlicesValid sl es →
    prod1 (subExts sl es) ≤ prod1 es
  | [], [], _ => Nat.le_refl _
  | s :: sl, e :: es, hv => by
    have ih := prod1_subExts_le sl es hv.2
    simp only [subExts]
    cases hs : s.ext e with
    | none =>
      simp only [prod1_cons]
      calc prod1 (subExts sl es) ≤ prod1 es := ih
        _ = 1 * prod1 es := (Nat.one_mul _).symm
        _ ≤ one0 e * prod1 es := Nat.mul_le_mul_right _ (one0_pos e)
    | some y =>
      simp only [prod1_cons]
      exact Nat.mul_le_mul (one0_mono (ext_le s e y hv.1 hs)) ih
  | [], _ :: _, hv => by simp [SlicesValid] at hv
  | _ :: _, [], hv => by simp [SlicesValid] at hv

theorem step_cases (s : Slice) (e : Nat) (hv : s.Valid e) : s.step = 1 ∨ (s.step ≤ e - 1 ∧ 0 < e) := by
  cases s with
  | strided o x st =>
    simp only [Slice.step]
    have := hv.1
    split
    · right; omega
    · left; rfl
  | _ => left; rfl

theorem step_le_one0 (s : Slice) (e : Nat) (hv : s.Valid e) : s.step ≤ one0 e := by
  have := one0_pos e
  have := le_one0 e
  rcases step_cases s e hv with h | h <;> omega

theorem subStrides_left_le : ∀ (p : Nat) (sl : List Slice) (es : List Nat), SlicesValid sl es →
    ∀ q ∈ subStrides sl (leftStridesFrom p es), q ≤ p * prod1 es
  | _, [], [], _ => by simp [subStrides]
  | p, s :: sl, e :: es, hv => by
    intro q hq
    have ih := subStrides_left_le (p * e) sl es hv.2
    have hpos := prod1_pos es
    have htail : ∀ q ∈ subStrides sl (leftStridesFrom (p * e) es), q ≤ p * prod1 (e :: es) := by
      intro q hq
      calc q ≤ p * e * prod1 es := ih q hq
        _ ≤ p * one0 e * prod1 es := Nat.mul_le_mul_right _ (Nat.mul_le_mul_left _ (le_one0 e))
        _ = p * prod1 (e :: es) := by rw [prod1_cons, Nat.mul_assoc]
    simp only [leftStridesFrom, subStrides] at hq
    split at hq
    · exact htail q hq
    · rcases List.mem_cons.mp hq with rfl | hq
      · calc p * s.step ≤ p * one0 e := Nat.mul_le_mul_left _ (step_le_one0 s e hv.1)
          _ ≤ p * one0 e * prod1 es := Nat.le_mul_of_pos_right _ hpos
          _ = p * prod1 (e :: es) := by rw [prod1_cons, Nat.mul_assoc]
      · exact htail q hq
  | _, [], _ :: _, hv => by simp [SlicesValid] at hv
  | _, _ :: _, [], hv => by simp [SlicesValid] at hv

theorem subStrides_right_le : ∀ (sl : List Slice) (es : List Nat), SlicesValid sl es →
    ∀ q ∈ subStrides sl (rightStrides es), q ≤ prod1 es
  | [], [], _ => by simp [subStrides]
  | s :: sl, e :: es, hv => by
    intro q hq
    have ih := subStrides_right_le sl es hv.2
    have htail : ∀ q ∈ subStrides sl (rightStrides es), q ≤ prod1 (e :: es) := by
      intro q hq
      calc q ≤ prod1 es := ih q hq
        _ = 1 * prod1 es := (Nat.one_mul _).symm
        _ ≤ one0 e * prod1 es := Nat.mul_le_mul_right _ (one0_pos e)
    simp only [rightStrides, subStrides] at hq
    split at hq
    · exact htail q hq
    · rcases List.mem_cons.mp hq with rfl | hq
      · rw [prod1_cons, Nat.mul_comm]
        exact Nat.mul_le_mul (step_le_one0 s e hv.1) (prod_le_prod1 es)
      · exact htail q hq
  | [], _ :: _, hv => by simp [SlicesValid] at hv
  | _ :: _, [], hv => by simp [SlicesValid] at hv

theorem subStrides_stride_le (B : Nat) : ∀ (sl : List Slice) (es ss : List Nat), SlicesValid sl es →
    (∀ s ∈ ss, s ≤ B) → spanM1 (List.zip es ss) ≤ B →
    ∀ q ∈ subStrides sl ss, q ≤ B
  | [], _, _, _, _, _ => by simp [subStrides]
  | _ :: _, _, [], _, _, _ => by simp [subStrides]
  | s :: sl, e :: es, st :: ss, hv, hss, hsp => by
    intro q hq
    simp only [List.zip_cons_cons, spanM1] at hsp
    have ih := subStrides_stride_le B sl es ss hv.2 (fun x hx => hss x (List.mem_cons_of_mem _ hx))
      (by omega)
    simp only [subStrides] at hq
    split at hq
    · exact ih q hq
    · rcases List.mem_cons.mp hq with rfl | hq
      · rcases step_cases s e hv.1 with h | h
        · rw [h, Nat.mul_one]; exact hss st (by simp)
        · calc st * s.step ≤ st * (e - 1) := Nat.mul_le_mul_left _ h.1
            _ = (e - 1) * st := Nat.mul_comm _ _
            _ ≤ B := by omega
      · exact ih q hq
  | _ :: _, [], _ :: _, hv, _, _ => by simp [SlicesValid] at hv

/-! ### `subMappingM` for each of the three source layouts -/

theorem subMappingM_left (T : ITy) (es ss : List Int) (sls : List SliceI) :
    subMappingM T "left" es ss sls = (do
      let xs ← subExtsM T sls es
      let offv ← (if anyAtEndI sls es then spanLRM T es
        else leftOffM T es (sls.map (fun s => T.wrap s.first)))
      if preserveLeft (sls.map SliceI.toKind) then do
        let strs ← (List.range xs.length).mapM (fun r => leftStrideM T xs r)
        pure { off := ITy.u64.wrap offv, exts := xs, kind := "left", strs := strs }
      else do
        let src ← (List.range es.length).mapM (fun r => leftStrideM T es r)
        let strs ← subStridesM T true sls src
        pure { off := ITy.u64.wrap offv, exts := xs, kind := "stride", strs := strs }) := rfl

theorem subMappingM_right (T : ITy) (es ss : List Int) (sls : List SliceI) :
    subMappingM T "right" es ss sls = (do
      let xs ← subExtsM T sls es
      let offv ← (if anyAtEndI sls es then spanLRM T es
        else rightOffM T es (sls.map (fun s => T.wrap s.first)))
      if preserveRight (sls.map SliceI.toKind) then do
        let strs ← (List.range xs.length).mapM (fun r => rightStrideM T xs r)
        pure { off := ITy.u64.wrap offv, exts := xs, kind := "right", strs := strs }
      else do
        let src ← (List.range es.length).mapM (fun r => rightStrideM T es r)
        let strs ← subStridesM T true sls src
        pure { off := ITy.u64.wrap offv, exts := xs, kind := "stride", strs := strs }) := rfl

theorem subMappingM_stride (T : ITy) (es ss : List Int) (sls : List SliceI) :
    subMappingM T "stride" es ss sls = (do
      let xs ← subExtsM T sls es
      let offv ← (if anyAtEndI sls es then spanStrideM T es ss
        else strideOffM T (sls.map (fun s => T.wrap s.first)) ss)
      let strs ← subStridesM T true sls ss
      pure { off := ITy.u64.wrap offv, exts := xs, kind := "stride", strs := strs }) := rfl

/-! ### components in the machine layer -/

theorem mapM_range_ok (f : Nat → M Int) (l : List Nat)
    (h : ∀ r, r < l.length → f r = .ok ((l.getD r 0 : Nat) : Int)) :
    (List.range l.length).mapM f = .ok (toI l) := by
  have key : ∀ n : Nat, n ≤ l.length → (List.range n).mapM f = .ok (toI (l.take n)) := by
    intro n
    induction n with
    | zero => intro _; rfl
    | succ n ih =>
      intro hn
      rw [List.range_succ, List.mapM_append, ih (by omega)]
      have hs := h n (by omega)
      simp only [List.mapM_cons, List.mapM_nil, hs, bind, Except.bind, pure, Except.pure]
      congr 1
      have hn' : n < l.length := by omega
      rw [List.take_add_one, List.getD, List.getElem?_eq_getElem hn']
      simp only [toI, List.map_append, Option.toList_some, List.map_cons, List.map_nil, Option.getD_some]
      rfl
  have := key l.length (Nat.le_refl _)
  rwa [List.take_length] at this

/-- the canonical strides of a kept `layout_left` result -/
theorem leftStridesM_ok (T : ITy) (xs : List Nat) (hre : ∀ e ∈ xs, (e : Int) ≤ T.hi)
    (hsp : ((prod1 xs : Nat) : Int) ≤ T.hi) :
    (List.range (toI xs).length).mapM (fun r => leftStrideM T (toI xs) r) = .ok (toI (leftStrides xs)) := by
  have hlen : (leftStrides xs).length = xs.length := leftStridesFrom_length 1 xs
  rw [toI_length, ← hlen]
  apply mapM_range_ok
  intro r hr
  rw [hlen] at hr
  have hg : (leftStrides xs).getD r 0 = leftStride xs r := by
    apply getD_of_getElem?
    rw [leftStrides, leftStridesFrom_get 1 xs r hr, Nat.one_mul]; rfl
  rw [hg]
  exact C14_left_stride T xs r hre hsp

theorem rightStridesM_ok (T : ITy) (xs : List Nat) (hre : ∀ e ∈ xs, (e : Int) ≤ T.hi)
    (hsp : ((prod1 xs : Nat) : Int) ≤ T.hi) :
    (List.range (toI xs).length).mapM (fun r => rightStrideM T (toI xs) r) = .ok (toI (rightStrides xs)) := by
  have hlen : (rightStrides xs).length = xs.length := rightStrides_length xs
  rw [toI_length, ← hlen]
  apply mapM_range_ok
  intro r hr
  rw [hlen] at hr
  have hg : (rightStrides xs).getD r 0 = rightStride xs r := by
    apply getD_of_getElem?
    rw [rightStrides_get xs r hr]; rfl
  rw [hg]
  exact C14_right_stride T xs r hre hsp

theorem strides_length_validB (L : Layout) (hv : L.validB = true) : L.strides.length = L.extents.length := by
  cases L with
  | left es => simp [Layout.strides, Layout.extents, leftStrides, leftStridesFrom_length]
  | right es => simp [Layout.strides, Layout.extents, rightStrides_length]
  | stride es ss => exact (validB_stride_length es ss hv).symm
  | lpad es ps =>
    match es with
    | [] => rfl
    | [_] => rfl
    | _ :: _ :: _ => simp [Layout.strides, Layout.extents, lpadStrides, leftStridesFrom_length]
  | rpad es ps =>
    match es with
    | [] => rfl
    | [_] => rfl
    | e :: e' :: es =>
      show (rightStrides (replaceLast ps (e :: e' :: es))).length = _
      rw [rightStrides_length, replaceLast_length]; rfl

/-- **the offset of `submdspan_mapping`** (`detail::sub_offset`): the at-end test, then either
    `required_span_size()` or `mapping(first_of(slices)...)` -/
theorem sub_offset_ok (T : ITy) (L : Layout) (sl : List Slice) (h : L.admB T = true)
    (hv : SlicesValid sl L.extents) :
    (if anyAtEnd sl L.extents then L.toI.spanM T else L.toI.offM T (toI (firsts sl))) =
      .ok ((subOffset L sl : Nat) : Int) ∧ ((subOffset L sl : Nat) : Int) ≤ T.hi := by
  obtain ⟨hvb, hsp, _, _⟩ := admB_elim T L h
  have hspan : ((L.span : Nat) : Int) ≤ T.hi :=
    natCast_le_of_le (span_le_span1 L (strides_length_validB L hvb)) hsp
  unfold subOffset
  cases hae : anyAtEnd sl L.extents with
  | true =>
    simp only [if_true]
    exact ⟨C14_adm_span T L h, hspan⟩
  | false =>
    have hb := firsts_inB sl L.extents hv hae
    simp only [Bool.false_eq_true, if_false]
    refine ⟨C14_adm_offset T L (firsts sl) h hb, ?_⟩
    have := C01_range L (validB_valid L hvb (inB_pos _ _ hb)) (firsts sl) hb
    exact natCast_le_of_le (Nat.le_of_lt this) hspan

/-! ### the whole of `submdspan_mapping` over pure-layer inputs -/

/-- the pure-layer result of `submdspan_mapping` as a machine-layer record -/
def subResP (L : Layout) (sl : List Slice) : SubRes :=
  { off := ((subOffset L sl : Nat) : Int), exts := toI (subLayout L sl).extents,
    kind := (subLayout L sl).toI.kindStr, strs := toI (subLayout L sl).strides }

theorem sub_mapping_left (T : ITy) (es : List Nat) (ss' : List Int) (sl : List Slice)
    (h : (Layout.left es).admB T = true) (hv : SlicesValid sl es)
    (hs : strideRepB T (toSI sl) = true) :
    subMappingM T "left" (toI es) ss' (toSI sl) = .ok (subResP (.left es) sl) := by
  obtain ⟨_, hsp, hre, hrs⟩ := admB_elim T _ h
  rw [span1_lr_left] at hsp
  have hre : ∀ e ∈ es, (e : Int) ≤ T.hi := hre
  have hrs : ∀ s ∈ leftStrides es, (s : Int) ≤ T.hi := hrs
  have hrep := slices_rep T sl es hv hre hs
  obtain ⟨ho, hob⟩ := sub_offset_ok T (.left es) sl h hv
  have ho' : (if anyAtEnd sl es then spanLRM T (toI es) else leftOffM T (toI es) (toI (firsts sl))) =
      .ok ((subOffset (.left es) sl : Nat) : Int) := ho
  have hxs : ∀ x ∈ subExts sl es, (x : Int) ≤ T.hi := by
    intro x hx
    obtain ⟨e, he, hle⟩ := subExts_le sl es hv x hx
    exact natCast_le_of_le hle (hre e he)
  have hxp : ((prod1 (subExts sl es) : Nat) : Int) ≤ T.hi :=
    natCast_le_of_le (prod1_subExts_le sl es hv) hsp
  rw [subMappingM_left, C14_sub_extents T sl es hv hre hrep, anyAtEndI_toI,
    firsts_wrap T sl es hv hre, preserveLeft_kinds]
  simp only [bind, Except.bind]
  rw [ho']
  simp only [u64_wrap_id T _ hob]
  cases hp : preserveLeft sl with
  | true =>
    simp only [if_true]
    rw [leftStridesM_ok T _ hxs hxp]
    simp only [subResP, subLayout, hp, if_true]
    rfl
  | false =>
    simp only [Bool.false_eq_true, if_false]
    rw [leftStridesM_ok T es hre hsp]
    simp only
    rw [C14_sub_strides T sl (leftStrides es) hrs hrep (by
      intro q hq
      have := subStrides_left_le 1 sl es hv q hq
      rw [Nat.one_mul] at this
      exact natCast_le_of_le this hsp)]
    simp only [subResP, subLayout, hp, Bool.false_eq_true, if_false]
    rfl

theorem sub_mapping_right (T : ITy) (es : List Nat) (ss' : List Int) (sl : List Slice)
    (h : (Layout.right es).admB T = true) (hv : SlicesValid sl es)
    (hs : strideRepB T (toSI sl) = true) :
    subMappingM T "right" (toI es) ss' (toSI sl) = .ok (subResP (.right es) sl) := by
  obtain ⟨_, hsp, hre, hrs⟩ := admB_elim T _ h
  rw [span1_lr_right] at hsp
  have hre : ∀ e ∈ es, (e : Int) ≤ T.hi := hre
  have hrs : ∀ s ∈ rightStrides es, (s : Int) ≤ T.hi := hrs
  have hrep := slices_rep T sl es hv hre hs
  obtain ⟨ho, hob⟩ := sub_offset_ok T (.right es) sl h hv
  have ho' : (if anyAtEnd sl es then spanLRM T (toI es) else rightOffM T (toI es) (toI (firsts sl))) =
      .ok ((subOffset (.right es) sl : Nat) : Int) := ho
  have hxs : ∀ x ∈ subExts sl es, (x : Int) ≤ T.hi := by
    intro x hx
    obtain ⟨e, he, hle⟩ := subExts_le sl es hv x hx
    exact natCast_le_of_le hle (hre e he)
  have hxp : ((prod1 (subExts sl es) : Nat) : Int) ≤ T.hi :=
    natCast_le_of_le (prod1_subExts_le sl es hv) hsp
  rw [subMappingM_right, C14_sub_extents T sl es hv hre hrep, anyAtEndI_toI,
    firsts_wrap T sl es hv hre, preserveRight_kinds]
  simp only [bind, Except.bind]
  rw [ho']
  simp only [u64_wrap_id T _ hob]
  cases hp : preserveRight sl with
  | true =>
    simp only [if_true]
    rw [rightStridesM_ok T _ hxs hxp]
    simp only [subResP, subLayout, hp, if_true]
    rfl
  | false =>
    simp only [Bool.false_eq_true, if_false]
    rw [rightStridesM_ok T es hre hsp]
    simp only
    rw [C14_sub_strides T sl (rightStrides es) hrs hrep (by
      intro q hq
      exact natCast_le_of_le (subStrides_right_le sl es hv q hq) hsp)]
    simp only [subResP, subLayout, hp, Bool.false_eq_true, if_false]
    rfl

theorem sub_mapping_stride (T : ITy) (es ss : List Nat) (sl : List Slice)
    (h : (Layout.stride es ss).admB T = true) (hv : SlicesValid sl es)
    (hs : strideRepB T (toSI sl) = true) :
    subMappingM T "stride" (toI es) (toI ss) (toSI sl) = .ok (subResP (.stride es ss) sl) := by
  obtain ⟨hvb, hsp, hre, hrs⟩ := admB_elim T _ h
  have hl := validB_stride_length es ss hvb
  rw [span1_stride es ss hl] at hsp
  have hre : ∀ e ∈ es, (e : Int) ≤ T.hi := hre
  have hrs : ∀ s ∈ ss, (s : Int) ≤ T.hi := hrs
  have hrep := slices_rep T sl es hv hre hs
  obtain ⟨ho, hob⟩ := sub_offset_ok T (.stride es ss) sl h hv
  have ho' : (if anyAtEnd sl es then spanStrideM T (toI es) (toI ss)
      else strideOffM T (toI (firsts sl)) (toI ss)) =
      .ok ((subOffset (.stride es ss) sl : Nat) : Int) := ho
  rw [subMappingM_stride, C14_sub_extents T sl es hv hre hrep, anyAtEndI_toI,
    firsts_wrap T sl es hv hre]
  simp only [bind, Except.bind]
  rw [ho']
  simp only [u64_wrap_id T _ hob]
  rw [C14_sub_strides T sl ss hrs hrep (by
    intro q hq
    have hB : 0 ≤ T.hi := T.hi_nonneg
    have := subStrides_stride_le T.hi.toNat sl es ss hv
      (fun s hs => by have := hrs s hs; omega) (by omega) q hq
    omega)]
  rfl

/-! ### the transport theorem over the inputs of the driver -/

theorem srcLayout_extents (kind : String) (es ss : List Int) :
    (srcLayout kind es ss).extents = es.map Int.toNat := by
  unfold srcLayout; split <;> rfl

/-- what `subAdm` says -/
theorem subAdm_elim (T : ITy) (kind : String) (es ss : List Int) (sls : List SliceI)
    (h : subAdm T kind es ss sls = true) :
    es.any (· < 0) = false ∧ ss.any (· < 0) = false ∧
      ∃ sl, sls.mapM toSlice = some sl ∧ (srcLayout kind es ss).admB T = true ∧
        slicesValidB sl (es.map Int.toNat) = true ∧ strideRepB T sls = true := by
  unfold subAdm at h
  split at h
  · cases h
  · rename_i hneg
    simp only [Bool.or_eq_true, not_or, Bool.not_eq_true] at hneg
    refine ⟨hneg.1, hneg.2, ?_⟩
    cases hsl : sls.mapM toSlice with
    | none => simp only [hsl] at h; cases h
    | some sl =>
      simp only [hsl, Bool.and_eq_true] at h
      exact ⟨sl, rfl, h.1.1, h.1.2, h.2⟩

/-- **C14, `submdspan_mapping` as a whole** (transport theorem of the `sub` family, compact form):
    on admissible inputs `subMappingM` executes no
    undefined behaviour and returns exactly the record of the pure-layer result. -/
theorem C14_sub_mapping_eq (T : ITy) (kind : String) (es ss : List Int) (sls : List SliceI)
    (hk : kind = "left" ∨ kind = "right" ∨ kind = "stride")
    (hadm : subAdm T kind es ss sls = true) :
    ∃ sl : List Slice, sls.mapM toSlice = some sl ∧
      subMappingM T kind es ss sls = .ok (subResP (srcLayout kind es ss) sl) := by
  obtain ⟨hes, hss, sl, hsl, hL, hvb, hrep⟩ := subAdm_elim T kind es ss sls hadm
  refine ⟨sl, hsl, ?_⟩
  have hv := slicesValidB_sound sl _ hvb
  have e1 := toI_toNat es hes
  have e2 := toI_toNat ss hss
  have e3 := mapM_toSlice sls sl hsl
  rw [e3] at hrep
  rcases hk with rfl | rfl | rfl
  · have := sub_mapping_left T (es.map Int.toNat) ss sl hL hv hrep
    rw [e1, ← e3] at this
    exact this
  · have := sub_mapping_right T (es.map Int.toNat) ss sl hL hv hrep
    rw [e1, ← e3] at this
    exact this
  · have := sub_mapping_stride T (es.map Int.toNat) (ss.map Int.toNat) sl hL hv hrep
    rw [e1, e2, ← e3] at this
    exact this

/-- the result kind and strides of `subResP`, by the constructor of `subLayout` -/
theorem subResP_layout (L : Layout) (sl : List Slice) (hL : ∃ es ss, L = .left es ∨ L = .right es ∨ L = .stride es ss) :
    match subLayout L sl with
    | .left xs => (subResP L sl).kind = "left" ∧ (subResP L sl).exts = xs.map Int.ofNat ∧
        (subResP L sl).strs = (leftStrides xs).map Int.ofNat
    | .right xs => (subResP L sl).kind = "right" ∧ (subResP L sl).exts = xs.map Int.ofNat ∧
        (subResP L sl).strs = (rightStrides xs).map Int.ofNat
    | _ => (subResP L sl).kind = "stride" ∧
        (subResP L sl).strs = (subStrides sl L.strides).map Int.ofNat := by
  obtain ⟨es, ss, rfl | rfl | rfl⟩ := hL
  · cases hp : preserveLeft sl with
    | true => simp only [subResP, subLayout, hp, if_true]; exact ⟨rfl, rfl, rfl⟩
    | false => simp only [subResP, subLayout, hp, Bool.false_eq_true, if_false]; exact ⟨rfl, rfl⟩
  · cases hp : preserveRight sl with
    | true => simp only [subResP, subLayout, hp, if_true]; exact ⟨rfl, rfl, rfl⟩
    | false => simp only [subResP, subLayout, hp, Bool.false_eq_true, if_false]; exact ⟨rfl, rfl⟩
  · exact ⟨rfl, rfl⟩

theorem srcLayout_cases (kind : String) (es ss : List Int) :
    ∃ es' ss', srcLayout kind es ss = .left es' ∨ srcLayout kind es ss = .right es' ∨
      srcLayout kind es ss = .stride es' ss' := by
  refine ⟨es.map Int.toNat, ss.map Int.toNat, ?_⟩
  unfold srcLayout
  split
  · exact Or.inl rfl
  · exact Or.inr (Or.inl rfl)
  · exact Or.inr (Or.inr rfl)

/-- **C14, `submdspan_mapping` as a whole** (transport theorem of the `sub` family): whenever the
    driver's predicate `subAdm` holds, `subMappingM` executes no undefined behaviour and
    its result is the pure-layer one: (a) the offset is `subOffset`, (b) the extents are `subExts`,
    (c) kind and strides are those of `subLayout` — a kept `layout_left` / `layout_right` with the
    canonical strides of the result extents, otherwise `layout_stride` with `subStrides`. -/
theorem C14_sub_mapping (T : ITy) (kind : String) (es ss : List Int) (sls : List SliceI)
    (hk : kind = "left" ∨ kind = "right" ∨ kind = "stride")
    (hadm : subAdm T kind es ss sls = true) :
    ∃ (sl : List Slice) (r : SubRes),
      sls.mapM toSlice = some sl ∧
      subMappingM T kind es ss sls = .ok r ∧
      r.off = ((subOffset (srcLayout kind es ss) sl : Nat) : Int) ∧
      r.exts = (subExts sl (es.map Int.toNat)).map Int.ofNat ∧
      (match subLayout (srcLayout kind es ss) sl with
        | .left xs => r.kind = "left" ∧ r.exts = xs.map Int.ofNat ∧
            r.strs = (leftStrides xs).map Int.ofNat
        | .right xs => r.kind = "right" ∧ r.exts = xs.map Int.ofNat ∧
            r.strs = (rightStrides xs).map Int.ofNat
        | _ => r.kind = "stride" ∧
            r.strs = (subStrides sl (srcLayout kind es ss).strides).map Int.ofNat) := by
  obtain ⟨sl, hsl, hm⟩ := C14_sub_mapping_eq T kind es ss sls hk hadm
  refine ⟨sl, _, hsl, hm, rfl, ?_, subResP_layout _ sl (srcLayout_cases kind es ss)⟩
  show toI (subLayout (srcLayout kind es ss) sl).extents = _
  rw [subLayout_extents, srcLayout_extents]; rfl

/-- no undefined behaviour on admissible inputs -/
theorem C14_sub_mapping_ok (T : ITy) (kind : String) (es ss : List Int) (sls : List SliceI)
    (hk : kind = "left" ∨ kind = "right" ∨ kind = "stride")
    (hadm : subAdm T kind es ss sls = true) :
    ∃ r, subMappingM T kind es ss sls = .ok r := by
  obtain ⟨_, r, _, h, _⟩ := C14_sub_mapping T kind es ss sls hk hadm
  exact ⟨r, h⟩

/-! ### the hypotheses are satisfiable, and they are needed -/

/-- rank 3, `full` / `pair` / index: the result keeps `layout_left` -/
example : subAdm .i8 "left" [4, 5, 6] [] [.full, .range 1 3, .idx 2] = true ∧
    subMappingM .i8 "left" [4, 5, 6] [] [.full, .range 1 3, .idx 2] =
      .ok { off := 44, exts := [4, 2], kind := "left", strs := [1, 4] } := by decide

/-- rank 3, `strided_slice` / `pair` / index on `layout_left`: the result falls to `layout_stride` -/
example : subAdm .i8 "left" [4, 5, 6] [] [.strided 1 3 2, .range 1 3, .idx 5] = true ∧
    subMappingM .i8 "left" [4, 5, 6] [] [.strided 1 3 2, .range 1 3, .idx 5] =
      .ok { off := 105, exts := [2, 2], kind := "stride", strs := [2, 4] } := by decide

/-- rank 3, index / `pair` / `full` on `layout_right`: the result keeps `layout_right` -/
example : subAdm .i8 "right" [4, 5, 6] [] [.idx 3, .range 1 3, .full] = true ∧
    subMappingM .i8 "right" [4, 5, 6] [] [.idx 3, .range 1 3, .full] =
      .ok { off := 96, exts := [2, 6], kind := "right", strs := [6, 1] } := by decide

/-- a `layout_stride` source with a zero extent and an empty slice at the end of its extent: the
    offset is the `required_span_size()` of the source (0 here) -/
example : subAdm .i16 "stride" [4, 0, 6] [1, 4, 100] [.strided 1 3 2, .full, .range 6 6] = true ∧
    subMappingM .i16 "stride" [4, 0, 6] [1, 4, 100] [.strided 1 3 2, .full, .range 6 6] =
      .ok { off := 0, exts := [2, 0, 0], kind := "stride", strs := [2, 4, 100] } := by decide

/-- an inadmissible input (span 2³³ in `int`): `subMappingM` reports the signed overflow of
    `layout_left::stride(2)` -/
example : subAdm .i32 "left" [65536, 65536, 2] [] [.full, .full, .full] = false ∧
    subMappingM .i32 "left" [65536, 65536, 2] [] [.full, .full, .full] = .error .overflow := by decide

/-- a negative slice member is rejected by `subAdm` (through `toSlice`) -/
example : subAdm .i32 "left" [4, 5, 6] [] [.full, .range 1 3, .idx (-2)] = false := by decide

/-- the conjunct `strideRepB` of `subAdm` cannot be dropped: the mapping is admissible and the
    slices are valid (validity does not bound the stride of a `strided_slice`), but a stride that
    is not an `int` value is converted on its way into the arithmetic — 2³² becomes 0 (division by
    zero in `submdspan_extents`), 2³² + 2 becomes 2 (another extent and stride than the pure
    layer's).  `subAdm` is false on both.  The driver only passes `index_type` values
    (`SliceI.wrapT`). -/
example : (Layout.left [10]).admB .i32 = true ∧ slicesValidB [.strided 0 5 4294967296] [10] = true ∧
    strideRepB .i32 [.strided 0 5 4294967296] = false ∧
    subAdm .i32 "left" [10] [] [.strided 0 5 4294967296] = false ∧
    subMappingM .i32 "left" [10] [] [.strided 0 5 4294967296] = .error .divzero := by decide
example : (Layout.left [10]).admB .i32 = true ∧ slicesValidB [.strided 0 5 4294967298] [10] = true ∧
    subAdm .i32 "left" [10] [] [.strided 0 5 4294967298] = false ∧
    subMappingM .i32 "left" [10] [] [.strided 0 5 4294967298] =
      .ok { off := 0, exts := [3], kind := "stride", strs := [2] } ∧
    subResP (.left [10]) [.strided 0 5 4294967298] =
      { off := 0, exts := [1], kind := "stride", strs := [1] } := by decide
/-- the largest `int` stride is admissible -/
example : subAdm .i32 "left" [10] [] [.strided 0 5 2147483647] = true ∧
    subMappingM .i32 "left" [10] [] [.strided 0 5 2147483647] =
      .ok { off := 0, exts := [1], kind := "stride", strs := [1] } := by decide

end Mdspan
