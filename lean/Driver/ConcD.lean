import Driver.Conv
import MdspanVerif.Model.Conc
import MdspanVerif.Props.C07
/-! `conc` op family (C19): final memory and per-thread results of T threads working on disjoint
index sets of one shared view, computed from the sequential schedule and cross-checked against a
round-robin interleaving of the same per-thread programs. -/
open Mdspan
namespace Drv

def allIdxN : List Nat → List (List Nat)
  | [] => [[]]
  | e :: es => (List.range e).flatMap (fun i => (allIdxN es).map (fun t => i :: t))

def concLine (kind : String) (rest : List String) : String :=
  let sp := (getKey rest "sp").getD "D"
  let es := natL ((getKey rest "ext").getD "-")
  let ss := natL ((getKey rest "str").getD "-")
  let pv := (getKey rest "pv").bind String.toNat?
  let T : Nat := (((getKey rest "thr").getD "1").toNat?).getD 1
  match mkLayoutN kind sp es ss pv with
  | none => "bad-op"
  | some L =>
    let idx := if es.any (· == 0) then [] else allIdxN es
    let evs : List Ev := (List.range idx.length).map (fun k => ⟨k % T, true, L.offset (idx.getD k []), ((k % T) * 100000 + k : Nat)⟩)
    -- schedule 1: thread after thread; schedule 2: the given (round-robin) order
    let s1 := (List.range T).flatMap (fun t => prog t evs)
    let m1 := runMem (fun _ => -1) s1
    let m2 := runMem (fun _ => -1) evs
    let span := L.span
    let cells := (List.range (min span 512)).map m1
    let agree := (List.range span).all (fun a => m1 a == m2 a)
    let obs : Nat := prod es + (if es.any (· == 0) then 1 else 0) + span + (if L.isExhaustive then 1 else 0) +
      (if es.isEmpty then 0 else es.headD 0 + L.strides.getLastD 0)
    let sums := (List.range T).map (fun t =>
      ((List.range idx.length).filter (fun k => k % T == t)).foldl (fun acc k => acc + obs + (t * 100000 + k)) 0)
    s!"mem={fmtL cells} sums={fmtN sums}" ++ (if agree then "" else " SCHEDULES-DIFFER")

end Drv
