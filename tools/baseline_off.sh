#!/bin/bash
# kokkos/mdspan's own suite with the verification guard OFF (nothing defines KOKKOS_MDSPAN_VERIF):
# configure + build /repo/_build as the baseline does and run the pinned ctest command.
set -e
cmake -G Ninja -S /repo -B /repo/_build -DCMAKE_BUILD_TYPE=RelWithDebInfo -DMDSPAN_ENABLE_TESTS=ON \
  -DMDSPAN_USE_SYSTEM_GTEST=ON -DCMAKE_CXX_FLAGS=-Wno-error -DGTest_DIR=/root/miniconda/lib/cmake/GTest >/dev/null
cmake --build /repo/_build -j16
ctest --test-dir /repo/_build -j8 --timeout 900
