import MdspanVerif.Lemmas.Span
/-! The padded layouts are left / right layouts over allocation extents. -/
namespace Mdspan

theorem rpadGo_eq : ∀ (ps acc : Nat) (es is : List Nat), is.length = es.length → es ≠ [] →
    rpadGo ps acc es is = rightGo acc (replaceLast ps es) is
  | ps, acc, [e], [i], _, _ => by simp [rpadGo, replaceLast, rightGo]
  | ps, acc, e :: e' :: es, i :: i' :: is, h, _ => by
    simp only [rpadGo, replaceLast, rightGo]
    exact rpadGo_eq ps (acc * e + i) (e' :: es) (i' :: is) (by simpa using h) (by simp)
  | _, _, [], _, _, hne => absurd rfl hne
  | _, _, [_], [], h, _ => by simp at h
  | _, _, [_], _ :: _ :: _, h, _ => by simp at h
  | _, _, _ :: _ :: _, [], h, _ => by simp at h
  | _, _, _ :: _ :: _, [_], h, _ => by simp at h

theorem replaceLast_length (ps : Nat) : ∀ es : List Nat, (replaceLast ps es).length = es.length
  | [] => rfl
  | [_] => rfl
  | _ :: e :: es => by simp [replaceLast, replaceLast_length ps (e :: es)]

/-- layout_right_padded computes the row-major offset over `replaceLast ps es` -/
theorem rpadOff_eq_dot (ps : Nat) (es is : List Nat) (h : is.length = es.length) :
    rpadOff ps es is = dot is (rpadStrides ps es) := by
  match es, is, h with
  | [], [], _ => simp [rpadOff, rpadStrides, dot]
  | [e], [i], _ => simp [rpadOff, rpadStrides, dot]
  | e :: e' :: es, i :: i' :: is, h =>
    simp only [rpadOff, rpadStrides]
    rw [rpadGo_eq ps 0 (e :: e' :: es) (i :: i' :: is) h (by simp)]
    have := rightGo_eq 0 (replaceLast ps (e :: e' :: es)) (i :: i' :: is)
      (by rw [replaceLast_length]; exact h)
    simpa using this

/-- layout_left_padded computes the column-major offset over `replaceHead ps es` -/
theorem lpadOff_eq_dot (ps : Nat) (es is : List Nat) (h : is.length = es.length) :
    lpadOff ps es is = dot is (lpadStrides ps es) := by
  match es, is, h with
  | [], [], _ => simp [lpadOff, lpadStrides, dot]
  | [e], [i], _ => simp [lpadOff, lpadStrides, dot]
  | e :: e' :: es, i :: i' :: is, h =>
    have h' : (i' :: is).length = (e' :: es).length := by simpa using h
    simp only [lpadOff, lpadStrides, dot, Nat.mul_one]
    rw [leftOff_eq_dot (e' :: es) (i' :: is) h', dot_leftStridesFrom ps (e' :: es) (i' :: is) h',
      leftStrides, Nat.mul_comm]
    omega

theorem lpadStrides_eq (ps : Nat) (e e' : Nat) (es : List Nat) :
    lpadStrides ps (e :: e' :: es) = leftStrides (replaceHead ps (e :: e' :: es)) := by
  simp [lpadStrides, leftStrides, replaceHead, leftStridesFrom]

theorem prod_replaceLast (ps : Nat) : ∀ (acc : Nat) (es : List Nat), es ≠ [] →
    rpadSpanGo ps acc es = acc * prod (replaceLast ps es)
  | acc, [e], _ => by simp [rpadSpanGo, replaceLast, prod]
  | acc, e :: e' :: es, _ => by
    simp only [rpadSpanGo, replaceLast, prod]
    rw [prod_replaceLast ps (acc * e) (e' :: es) (by simp), Nat.mul_assoc]
  | _, [], h => absurd rfl h

/-- what "the padded stride is not smaller than the extent it pads" means on lists -/
def PadOKLeft (ps : Nat) (es : List Nat) : Prop := es.length < 2 ∨ LeL es (replaceHead ps es)
def PadOKRight (ps : Nat) (es : List Nat) : Prop := es.length < 2 ∨ LeL es (replaceLast ps es)

theorem padOKLeft_iff (ps e e' : Nat) (es : List Nat) : PadOKLeft ps (e :: e' :: es) ↔ e ≤ ps := by
  simp only [PadOKLeft, replaceHead, List.length_cons, LeL]
  constructor
  · intro h; rcases h with h | h
    · omega
    · exact h.1
  · intro h; exact Or.inr ⟨h, Nat.le_refl _, leL_refl es⟩

end Mdspan
