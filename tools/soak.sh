#!/bin/bash
# Runs every check's tier ($1: quick|thorough) at the seeds given ($2..) against $VERIF_REPO (default /repo), evidence redirected
# to ./soak-evidence so that committed evidence is not touched.  Prints one line per run.  Used with `vp run --with-repo`.
tier=${1:-thorough}; shift; seeds=${@:-1}
export VERIF_EVIDENCE_DIR=$(pwd)/soak-evidence; mkdir -p $VERIF_EVIDENCE_DIR
[ -n "$VP_RUN_REPO" ] && export VERIF_REPO=$VP_RUN_REPO
for s in $seeds; do
  for p in C01 C02 C03 C04 C05 C06 C07 C08 C09 C10 C11 C12 C13 C14 C16 C17 C18 C19 C20 C15; do
    t0=$(date +%s)
    VERIF_SEED=$s timeout 7200 python3 check.py $p --tier $tier > soak_${tier}_${s}_$p.log 2>&1; rc=$?
    echo "$tier seed=$s $p rc=$rc t=$(( $(date +%s) - t0 ))s $(grep -c VIOLATION soak_${tier}_${s}_$p.log) viol | $(tail -1 soak_${tier}_${s}_$p.log | cut -c1-150)"
  done
done
