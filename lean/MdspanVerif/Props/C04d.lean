import MdspanVerif.Props.C14k
/-!
# C04 at the machine level — the addresses the driver prints for a result view

`subAliasM T r` (`Model/SubMapM.lean`) is the walk the `alias` / `ch` ops of the driver diff against
the C++: for the first 4096 multi-indices `js` of the result view, row-major, the `size_t` sum of
the view's offset and `mapping(js...)` of the *result* mapping.

* `C04_sub_alias_machine`: if `subAdm` holds, `subAliasM` on the result of `subMappingM` executes no
  undefined behaviour and returns `subOffset L sl + (subLayout L sl).offset js` for every such `js`;
  that number is `L.offset (compose sl js)` — the very same source element, `first + j·step` on the
  sliced dimensions — with `compose sl js` inside the source's extents and the offset below the
  source's span.  `…_mem` / `…_complete` are the per-element forms.  No hypothesis beyond `subAdm`
  is needed: a result with a zero extent prints nothing (the `any (· ≤ 0)` guard), and a non-empty
  result has an admissible mapping (`subLayout_admB_nonempty`).
* `C04_chain_alias_machine`: the same for the innermost view of a chain (`subChainM` below a root
  at offset 0, `subChainAdm`), with the index composed through all levels (`composeAll`).
* `allIdxNat_inB` / `allIdxNat_complete`: the enumeration is exactly the set of in-bounds indices.
-/
namespace Mdspan

/-! ### enumeration of the multi-indices inside the extents, row-major -/

def allIdxNat : List Nat → List (List Nat)
  | [] => [[]]
  | e :: es => (List.range e).flatMap (fun i => (allIdxNat es).map (fun t => i :: t))

theorem allIdx_toI : ∀ xs : List Nat, allIdx (toI xs) = (allIdxNat xs).map toI
  | [] => rfl
  | e :: xs => by
    simp only [toI_cons, allIdx, allIdxNat, Int.toNat_natCast, allIdx_toI xs, List.map_flatMap,
      List.map_map]
    rfl

/-- soundness: every enumerated multi-index is inside the extents -/
theorem allIdxNat_inB : ∀ (xs : List Nat) (js : List Nat), js ∈ allIdxNat xs → InB js xs
  | [], js, h => by
    simp only [allIdxNat, List.mem_singleton] at h
    subst h; trivial
  | e :: xs, js, h => by
    simp only [allIdxNat, List.mem_flatMap, List.mem_range, List.mem_map] at h
    obtain ⟨i, hi, t, ht, rfl⟩ := h
    exact ⟨hi, allIdxNat_inB xs t ht⟩

/-- completeness: every multi-index inside the extents is enumerated -/
theorem allIdxNat_complete : ∀ (xs : List Nat) (js : List Nat), InB js xs → js ∈ allIdxNat xs
  | [], [], _ => by simp [allIdxNat]
  | e :: xs, j :: js, h => by
    simp only [allIdxNat, List.mem_flatMap, List.mem_range, List.mem_map]
    exact ⟨j, h.1, js, allIdxNat_complete xs js h.2, rfl⟩
  | [], _ :: _, h => by simp [InB] at h
  | _ :: _, [], h => by simp [InB] at h

theorem allIdxNat_nil_of_zero : ∀ xs : List Nat, 0 ∈ xs → allIdxNat xs = []
  | [], h => by simp at h
  | e :: xs, h => by
    rcases List.mem_cons.mp h with h0 | h0
    · subst h0; simp [allIdxNat]
    · simp [allIdxNat, allIdxNat_nil_of_zero xs h0]

theorem mapM_ok {α β : Type} (f : α → M β) (g : α → β) : ∀ l : List α,
    (∀ a ∈ l, f a = .ok (g a)) → l.mapM f = .ok (l.map g)
  | [], _ => rfl
  | a :: l, h => by
    rw [List.mapM_cons, h a (by simp), mapM_ok f g l (fun x hx => h x (List.mem_cons_of_mem _ hx))]
    rfl

theorem any_le_zero_toI (xs : List Nat) : (toI xs).any (· ≤ 0) = decide (0 ∈ xs) := by
  induction xs with
  | nil => simp
  | cons e xs ih =>
    simp only [toI_cons, List.any_cons, ih, List.mem_cons]
    rw [Bool.eq_iff_iff]
    simp only [Bool.or_eq_true, decide_eq_true_eq]
    constructor
    · rintro (h | h)
      · left; omega
      · right; exact h
    · rintro (h | h)
      · left; omega
      · right; exact h

/-! ### the addresses of the elements of one sub-view -/

/-- the address (offset in the source's buffer) of element `js` of the sub-view -/
def subAddr (L : Layout) (sl : List Slice) (js : List Nat) : Nat :=
  subOffset L sl + (subLayout L sl).offset js

/-- … for the first 4096 elements in row-major order -/
def subAddrs (L : Layout) (sl : List Slice) : List Nat :=
  ((allIdxNat (subExts sl L.extents)).take 4096).map (subAddr L sl)

theorem aliasOff_eq (T : ITy) (R : Layout) (hR : R.Std3) (js : List Int) :
    (match R.toI.kindStr with
      | "left" => leftOffM T (toI R.extents) js
      | "right" => rightOffM T (toI R.extents) js
      | _ => strideOffM T js (toI R.strides)) = R.toI.offM T js := by
  obtain ⟨es, ss, rfl | rfl | rfl⟩ := hR <;> rfl

/-- **C04 (pure layer, collected)**: element `js` of the sub-view is the source element
    `compose sl js` (`first + j·step` on the sliced dimensions), an element inside the source's
    extents, at an offset below the source's span -/
theorem subAddr_spec (L : Layout) (hvL : L.Valid) (sl : List Slice) (hv : SlicesValid sl L.extents)
    (js : List Nat) (hj : InB js (subExts sl L.extents)) :
    subAddr L sl js = L.offset (compose sl js) ∧ InB (compose sl js) L.extents ∧
      subAddr L sl js < L.span := by
  have hne := inB_pos js _ hj
  have hal := C04_alias L (strides_length L hvL) sl js hv hj
    (fun _ _ => C09_preserveLeft sl) (fun _ _ => C09_preserveRight sl)
  refine ⟨?_, compose_inB sl L.extents js hv hj, C10_elem_lt L hvL sl hv js hj⟩
  unfold subAddr
  rw [subOffset_eq_orig_of_nonempty L sl hv hne, hal]

/-- **the machine walk over the result view, on the record of the pure-layer result**: no
    undefined behaviour, and the list of the pure-layer addresses -/
theorem sub_alias_view (T : ITy) (L : Layout) (sl : List Slice) (hL : L.Std3)
    (h : L.admB T = true) (hv : SlicesValid sl L.extents) :
    subAliasM T (subResP L sl) = .ok (toI (subAddrs L sl)) := by
  have hext : (subLayout L sl).extents = subExts sl L.extents := subLayout_extents L sl
  unfold subAliasM
  simp only [subResP, any_le_zero_toI, hext]
  by_cases h0 : 0 ∈ subExts sl L.extents
  · simp only [h0, decide_true, if_true]
    simp only [subAddrs, allIdxNat_nil_of_zero _ h0, List.take_nil, List.map_nil]
    rfl
  · simp only [h0, decide_false, Bool.false_eq_true, if_false]
    have hne : ∀ x ∈ subExts sl L.extents, 0 < x := by
      intro x hx
      rcases Nat.eq_zero_or_pos x with hx0 | hx0
      · subst hx0; exact absurd hx h0
      · exact hx0
    have hpos := source_pos_of_nonempty sl L.extents hv hne
    obtain ⟨hvb, hsp, _, _⟩ := admB_elim T L h
    have hvL : L.Valid := validB_valid L hvb hpos
    have hspan : ((L.span : Nat) : Int) ≤ T.hi :=
      natCast_le_of_le (span_le_span1 L (strides_length L hvL)) hsp
    have hR := subLayout_admB_nonempty T L sl hL h hv hne
    rw [allIdx_toI, ← List.map_take, List.mapM_map]
    rw [mapM_ok _ (fun js => ((subAddr L sl js : Nat) : Int))]
    · simp only [subAddrs, toI, List.map_map]; rfl
    · intro js hjs
      have hj : InB js (subExts sl L.extents) := allIdxNat_inB _ js (List.mem_of_mem_take hjs)
      have hlt := (subAddr_spec L hvL sl hv js hj).2.2
      have hoff := C14_adm_offset T (subLayout L sl) js hR (by rw [hext]; exact hj)
      have hm := aliasOff_eq T (subLayout L sl) (subLayout_std3 L sl) (toI js)
      rw [hext] at hm
      simp only [Function.comp]
      have hv1 : (((subLayout L sl).offset js : Nat) : Int) ≤ T.hi := by
        unfold subAddr at hlt
        exact natCast_le_of_le (by omega) hspan
      have hsum : ((subOffset L sl : Nat) : Int) + (((subLayout L sl).offset js : Nat) : Int) =
          ((subAddr L sl js : Nat) : Int) := by simp [subAddr]
      have key : (do
          let v ← (match (subLayout L sl).toI.kindStr with
            | "left" => leftOffM T (toI (subExts sl L.extents)) (toI js)
            | "right" => rightOffM T (toI (subExts sl L.extents)) (toI js)
            | _ => strideOffM T (toI js) (toI (subLayout L sl).strides))
          pure (ITy.u64.wrap (((subOffset L sl : Nat) : Int) + ITy.u64.wrap v)) : M Int) =
          .ok ((subAddr L sl js : Nat) : Int) := by
        rw [hm, hoff]
        simp only [bind, Except.bind, pure, Except.pure]
        rw [u64_wrap_id T _ hv1, hsum, u64_wrap_id T _ (natCast_le_of_le (Nat.le_of_lt hlt) hspan)]
      exact key

/-! ### over the inputs of the driver -/

/-- **C04 at the machine level**: on admissible inputs the walk over the result view that the
    driver diffs against the C++ (`subAliasM` on the result of `subMappingM`) executes no undefined
    behaviour, and prints, for the first 4096 multi-indices `js` of the result in row-major order,
    `subOffset L sl + (subLayout L sl).offset js`; every such number is the source offset of the
    composed index `compose sl js` (`first + j·step` on the sliced dimensions), which lies inside
    the source's extents, hence below the source's span. -/
theorem C04_sub_alias_machine (T : ITy) (kind : String) (es ss : List Int) (sls : List SliceI)
    (hk : kind = "left" ∨ kind = "right" ∨ kind = "stride")
    (hadm : subAdm T kind es ss sls = true) :
    ∃ (sl : List Slice) (r : SubRes),
      sls.mapM toSlice = some sl ∧
      subMappingM T kind es ss sls = .ok r ∧
      subAliasM T r = .ok (((allIdxNat (subExts sl (srcLayout kind es ss).extents)).take 4096).map
        (fun js => ((subOffset (srcLayout kind es ss) sl +
          (subLayout (srcLayout kind es ss) sl).offset js : Nat) : Int))) ∧
      ∀ js, InB js (subExts sl (srcLayout kind es ss).extents) →
        subOffset (srcLayout kind es ss) sl + (subLayout (srcLayout kind es ss) sl).offset js =
          (srcLayout kind es ss).offset (compose sl js) ∧
        InB (compose sl js) (srcLayout kind es ss).extents ∧
        (srcLayout kind es ss).offset (compose sl js) < (srcLayout kind es ss).span := by
  obtain ⟨sl, hsl, hm⟩ := C14_sub_mapping_eq T kind es ss sls hk hadm
  obtain ⟨_, _, sl', hsl', hL, hvb, _⟩ := subAdm_elim T kind es ss sls hadm
  rw [hsl] at hsl'
  cases hsl'
  have hv : SlicesValid sl (srcLayout kind es ss).extents := by
    rw [srcLayout_extents]; exact slicesValidB_sound sl _ hvb
  refine ⟨sl, _, hsl, hm, ?_, ?_⟩
  · rw [sub_alias_view T _ sl (srcLayout_cases kind es ss) hL hv]
    simp only [subAddrs, toI, List.map_map]
    rfl
  · intro js hj
    have hne := inB_pos js _ hj
    have hpos := source_pos_of_nonempty sl _ hv hne
    have hvL := validB_valid _ (admB_elim T _ hL).1 hpos
    obtain ⟨h1, h2, h3⟩ := subAddr_spec _ hvL sl hv js hj
    unfold subAddr at h1 h3
    exact ⟨h1, h2, by rw [← h1]; exact h3⟩

/-- **per element**: every address the driver prints is the source offset of a composed index
    inside the source's extents (so it is below the source's span) -/
theorem C04_sub_alias_machine_mem (T : ITy) (kind : String) (es ss : List Int) (sls : List SliceI)
    (hk : kind = "left" ∨ kind = "right" ∨ kind = "stride")
    (hadm : subAdm T kind es ss sls = true) :
    ∃ (sl : List Slice) (r : SubRes) (l : List Int),
      sls.mapM toSlice = some sl ∧ subMappingM T kind es ss sls = .ok r ∧ subAliasM T r = .ok l ∧
      ∀ a ∈ l, ∃ js, InB js (subExts sl (srcLayout kind es ss).extents) ∧
        a = (((srcLayout kind es ss).offset (compose sl js) : Nat) : Int) ∧
        InB (compose sl js) (srcLayout kind es ss).extents ∧
        (srcLayout kind es ss).offset (compose sl js) < (srcLayout kind es ss).span := by
  obtain ⟨sl, r, hsl, hm, hal, hspec⟩ := C04_sub_alias_machine T kind es ss sls hk hadm
  refine ⟨sl, r, _, hsl, hm, hal, ?_⟩
  intro a ha
  obtain ⟨js, hjs, rfl⟩ := List.mem_map.mp ha
  have hj := allIdxNat_inB _ js (List.mem_of_mem_take hjs)
  obtain ⟨h1, h2, h3⟩ := hspec js hj
  exact ⟨js, hj, by rw [h1], h2, h3⟩

/-- … and when the result has at most 4096 elements, every element of the result is printed -/
theorem C04_sub_alias_machine_complete (T : ITy) (kind : String) (es ss : List Int) (sls : List SliceI)
    (hk : kind = "left" ∨ kind = "right" ∨ kind = "stride")
    (hadm : subAdm T kind es ss sls = true) :
    ∃ (sl : List Slice) (r : SubRes) (l : List Int),
      sls.mapM toSlice = some sl ∧ subMappingM T kind es ss sls = .ok r ∧ subAliasM T r = .ok l ∧
      ((allIdxNat (subExts sl (srcLayout kind es ss).extents)).length ≤ 4096 →
        ∀ js, InB js (subExts sl (srcLayout kind es ss).extents) →
          (((srcLayout kind es ss).offset (compose sl js) : Nat) : Int) ∈ l) := by
  obtain ⟨sl, r, hsl, hm, hal, hspec⟩ := C04_sub_alias_machine T kind es ss sls hk hadm
  refine ⟨sl, r, _, hsl, hm, hal, ?_⟩
  intro hlen js hj
  rw [List.take_of_length_le hlen]
  refine List.mem_map.mpr ⟨js, allIdxNat_complete _ js hj, ?_⟩
  rw [(hspec js hj).1]

/-! ### chains: the addresses of the elements of a view of a view … of a view -/

/-- the walk over a view given as a record: no UB and the pure-layer addresses, provided the
    mapping is admissible and the addresses are `size_t` values whenever the view is non-empty -/
theorem view_alias (T : ITy) (V : View) (hL3 : V.L.Std3)
    (h : (∀ x ∈ V.L.extents, 0 < x) → V.L.admB T = true ∧
      ∀ js, InB js V.L.extents → ((V.addr js : Nat) : Int) ≤ ITy.u64.hi) :
    subAliasM T V.toRes =
      .ok (((allIdxNat V.L.extents).take 4096).map (fun js => ((V.addr js : Nat) : Int))) := by
  unfold subAliasM
  simp only [View.toRes, any_le_zero_toI]
  by_cases h0 : 0 ∈ V.L.extents
  · simp only [h0, decide_true, if_true, allIdxNat_nil_of_zero _ h0, List.take_nil, List.map_nil]
    rfl
  · simp only [h0, decide_false, Bool.false_eq_true, if_false]
    have hne : ∀ x ∈ V.L.extents, 0 < x := by
      intro x hx
      rcases Nat.eq_zero_or_pos x with hx0 | hx0
      · subst hx0; exact absurd hx h0
      · exact hx0
    obtain ⟨hadm, hb⟩ := h hne
    obtain ⟨hvb, hsp, _, _⟩ := admB_elim T V.L hadm
    have hvL : V.L.Valid := validB_valid V.L hvb hne
    have hspan : ((V.L.span : Nat) : Int) ≤ T.hi :=
      natCast_le_of_le (span_le_span1 V.L (strides_length V.L hvL)) hsp
    rw [allIdx_toI, ← List.map_take, List.mapM_map]
    rw [mapM_ok _ (fun js => ((V.addr js : Nat) : Int))]
    intro js hjs
    have hj : InB js V.L.extents := allIdxNat_inB _ js (List.mem_of_mem_take hjs)
    have hlt := C01_range V.L hvL js hj
    have hoff := C14_adm_offset T V.L js hadm hj
    have hm := aliasOff_eq T V.L hL3 (toI js)
    simp only [Function.comp]
    have hsum : ((V.off : Nat) : Int) + ((V.L.offset js : Nat) : Int) = ((V.addr js : Nat) : Int) := by
      simp [View.addr]
    have key : (do
        let v ← (match V.L.toI.kindStr with
          | "left" => leftOffM T (toI V.L.extents) (toI js)
          | "right" => rightOffM T (toI V.L.extents) (toI js)
          | _ => strideOffM T (toI js) (toI V.L.strides))
        pure (ITy.u64.wrap (((V.off : Nat) : Int) + ITy.u64.wrap v)) : M Int) =
        .ok ((V.addr js : Nat) : Int) := by
      rw [hm, hoff]
      simp only [bind, Except.bind, pure, Except.pure]
      rw [u64_wrap_id T _ (natCast_le_of_le (Nat.le_of_lt hlt) hspan), hsum,
        ITy.wrap_id .u64 _ (Int.natCast_nonneg _) (hb js hj)]
    exact key

/-- `layout_left` / `layout_right` records: the walk does not look at the strides -/
theorem subAliasM_congr (T : ITy) (r r' : SubRes) (h1 : r.off = r'.off) (h2 : r.exts = r'.exts)
    (h3 : r.kind = r'.kind) (h4 : r.kind = "left" ∨ r.kind = "right" ∨ r.strs = r'.strs) :
    subAliasM T r = subAliasM T r' := by
  obtain ⟨o, xs, k, st⟩ := r
  obtain ⟨o', xs', k', st'⟩ := r'
  simp only at h1 h2 h3 h4
  subst h1 h2 h3
  rcases h4 with rfl | rfl | rfl <;> rfl

/-- a non-empty innermost view: every view of the chain, the root included, is non-empty -/
theorem chain_nonempty_back : ∀ (chain : List (List Slice)) (v : View), ChainOK v chain →
    (∀ x ∈ (v.subsR chain).L.extents, 0 < x) → ∀ x ∈ v.L.extents, 0 < x
  | [], _, _, h => h
  | sl :: rest, v, hc, h => by
    have ih := chain_nonempty_back rest (v.subR sl) hc.2.2 h
    have : (v.subR sl).L.extents = subExts sl v.L.extents := subLayout_extents v.L sl
    rw [this] at ih
    exact source_pos_of_nonempty sl v.L.extents hc.1 ih

theorem chain_valid_ne_of_nonempty : ∀ (chain : List (List Slice)) (v : View), ChainOK v chain →
    (∀ x ∈ (v.subsR chain).L.extents, 0 < x) → ChainValid v chain ∧ ChainNE v chain
  | [], _, _, _ => ⟨trivial, trivial⟩
  | sl :: rest, v, hc, h => by
    have h1 := chain_nonempty_back rest (v.subR sl) hc.2.2 h
    have he : (v.subR sl).L.extents = subExts sl v.L.extents := subLayout_extents v.L sl
    rw [he] at h1
    have heq := View.subR_eq_sub v sl hc.1 h1
    have ih := chain_valid_ne_of_nonempty rest (v.subR sl) hc.2.2 h
    rw [heq] at ih
    exact ⟨⟨hc.1, ih.1⟩, ⟨h1, ih.2⟩⟩

/-- along a chain of non-empty views every mapping is admissible -/
theorem subs_admB (T : ITy) : ∀ (chain : List (List Slice)) (v : View), v.L.Std3 →
    v.L.admB T = true → ChainValid v chain → ChainNE v chain →
    (v.subs chain).L.admB T = true ∧ (v.subs chain).L.Std3
  | [], _, hL, h, _, _ => ⟨h, hL⟩
  | sl :: rest, v, hL, h, hc, hn =>
    subs_admB T rest (v.sub sl) (subLayout_std3 v.L sl)
      (subLayout_admB_nonempty T v.L sl hL h hc.1 hn.1) hc.2 hn.2

theorem subsR_std3 : ∀ (chain : List (List Slice)) (v : View), v.L.Std3 → (v.subsR chain).L.Std3
  | [], _, h => h
  | sl :: rest, v, _ => subsR_std3 rest (v.subR sl) (subLayout_std3 v.L sl)

/-- **C04 at the machine level, chains**: on admissible inputs (`subChainAdm`) the walk over the
    innermost view of a chain of `submdspan`s below a root at offset 0 — what the `ch` op of the
    driver prints — executes no undefined behaviour and yields, for the first 4096 multi-indices
    `js` of the innermost view, its address `View.addr`; every such address is the root offset of
    the index composed through all levels, inside the root's extents and below the root's span. -/
theorem C04_chain_alias_machine (T : ITy) (kind : String) (es ss : List Int)
    (slcs : List (List SliceI)) (hk : kind = "left" ∨ kind = "right" ∨ kind = "stride")
    (hadm : subChainAdm T kind es ss slcs = true) :
    ∃ (chain : List (List Slice)) (r : SubRes),
      slcs.mapM (fun sls => sls.mapM toSlice) = some chain ∧
      subChainM T { off := 0, exts := es, kind := kind, strs := ss } slcs = .ok r ∧
      subAliasM T r = .ok (((allIdxNat (View.subsR ⟨0, srcLayout kind es ss⟩ chain).L.extents).take 4096).map
        (fun js => (((View.subsR ⟨0, srcLayout kind es ss⟩ chain).addr js : Nat) : Int))) ∧
      ∀ js, InB js (View.subsR ⟨0, srcLayout kind es ss⟩ chain).L.extents →
        (View.subsR ⟨0, srcLayout kind es ss⟩ chain).addr js =
          (srcLayout kind es ss).offset (composeAll chain js) ∧
        InB (composeAll chain js) (srcLayout kind es ss).extents ∧
        (srcLayout kind es ss).offset (composeAll chain js) < (srcLayout kind es ss).span := by
  obtain ⟨chain, r, hm, hrun, hoff, hexts, hkind, hstrs⟩ := C14_sub_chain T kind es ss slcs 0 hk hadm
  have hadm' := hadm
  unfold subChainAdm at hadm'
  split at hadm'
  · cases hadm'
  simp only [Bool.and_eq_true] at hadm'
  obtain ⟨hL, hfrom⟩ := hadm'
  obtain ⟨chain', hm', hmap, hok, _⟩ := subChainAdmFrom_elim T slcs _ 0 hfrom
  rw [hm] at hm'
  cases hm'
  have hL3 := srcLayout_cases kind es ss
  -- facts for a non-empty innermost view
  have hfacts : (∀ x ∈ (View.subsR ⟨0, srcLayout kind es ss⟩ chain).L.extents, 0 < x) →
      (View.subsR ⟨0, srcLayout kind es ss⟩ chain).L.admB T = true ∧
      ∀ js, InB js (View.subsR ⟨0, srcLayout kind es ss⟩ chain).L.extents →
        (View.subsR ⟨0, srcLayout kind es ss⟩ chain).addr js =
          (srcLayout kind es ss).offset (composeAll chain js) ∧
        InB (composeAll chain js) (srcLayout kind es ss).extents ∧
        (srcLayout kind es ss).offset (composeAll chain js) < (srcLayout kind es ss).span ∧
        (((srcLayout kind es ss).span : Nat) : Int) ≤ T.hi := by
    intro hne
    have hpos := chain_nonempty_back chain ⟨0, srcLayout kind es ss⟩ hok hne
    obtain ⟨hcv, hcn⟩ := chain_valid_ne_of_nonempty chain ⟨0, srcLayout kind es ss⟩ hok hne
    have heq := View.subsR_eq_subs chain ⟨0, srcLayout kind es ss⟩ hcv hcn
    obtain ⟨hvb, hsp, _, _⟩ := admB_elim T _ hL
    have hvL : (srcLayout kind es ss).Valid := validB_valid _ hvb hpos
    have hspan : (((srcLayout kind es ss).span : Nat) : Int) ≤ T.hi :=
      natCast_le_of_le (span_le_span1 _ (strides_length _ hvL)) hsp
    rw [heq]
    refine ⟨(subs_admB T chain ⟨0, srcLayout kind es ss⟩ hL3 hL hcv hcn).1, ?_⟩
    intro js hj
    obtain ⟨h1, h2⟩ := View.subs_addr chain ⟨0, srcLayout kind es ss⟩ (strides_length _ hvL) hcv js hj
    have h3 := C01_range _ hvL _ h2
    refine ⟨?_, h2, h3, hspan⟩
    rw [h1]; simp [View.addr]
  refine ⟨chain, r, hm, hrun, ?_, ?_⟩
  · have hcongr : subAliasM T r = subAliasM T (View.subsR ⟨0, srcLayout kind es ss⟩ chain).toRes := by
      apply subAliasM_congr
      · exact hoff
      · exact hexts
      · exact hkind
      · by_cases hc : slcs ≠ [] ∨ kind = "stride"
        · exact Or.inr (Or.inr (hstrs hc))
        · simp only [not_or, Classical.not_not] at hc
          obtain ⟨hnil, hns⟩ := hc
          subst hnil
          cases chain with
          | cons _ _ => simp at hmap
          | nil =>
            rw [hkind]
            simp only [View.subsR, kindStr_srcLayout kind es ss hk]
            rcases hk with h | h | h
            · exact Or.inl h
            · exact Or.inr (Or.inl h)
            · exact absurd h hns
    rw [hcongr]
    apply view_alias T _ (subsR_std3 chain ⟨0, srcLayout kind es ss⟩ hL3)
    intro hne
    obtain ⟨ha, hj⟩ := hfacts hne
    refine ⟨ha, ?_⟩
    intro js hjs
    obtain ⟨h1, _, h3, hspan⟩ := hj js hjs
    rw [h1]
    have := T.hi_le_u64
    have : (((srcLayout kind es ss).offset (composeAll chain js) : Nat) : Int) ≤ T.hi :=
      natCast_le_of_le (Nat.le_of_lt h3) hspan
    omega
  · intro js hj
    obtain ⟨_, hfj⟩ := hfacts (inB_pos js _ hj)
    obtain ⟨h1, h2, h3, _⟩ := hfj js hj
    exact ⟨h1, h2, h3⟩

/-! ### examples -/

/-- rank 3, `full` / `pair` / index on `layout_left` (4,5,6): the kept-layout result; what the driver
    prints is the list of the source offsets of the composed indices -/
example : subAdm .i8 "left" [4, 5, 6] [] [.full, .range 1 3, .idx 2] = true ∧
    (subMappingM .i8 "left" [4, 5, 6] [] [.full, .range 1 3, .idx 2] >>= subAliasM .i8) =
      .ok [44, 48, 45, 49, 46, 50, 47, 51] ∧
    (allIdxNat (subExts [.full, .range 1 3, .idx 2] [4, 5, 6])).map
      (fun js => (Layout.left [4, 5, 6]).offset (compose [.full, .range 1 3, .idx 2] js)) =
      [44, 48, 45, 49, 46, 50, 47, 51] ∧
    (Layout.left [4, 5, 6]).span = 120 := by decide

/-- rank 3, `strided_slice` / `pair` / index: the strided result -/
example : subAdm .i8 "left" [4, 5, 6] [] [.strided 1 3 2, .range 1 3, .idx 5] = true ∧
    (subMappingM .i8 "left" [4, 5, 6] [] [.strided 1 3 2, .range 1 3, .idx 5] >>= subAliasM .i8) =
      .ok [105, 109, 107, 111] ∧
    (allIdxNat (subExts [.strided 1 3 2, .range 1 3, .idx 5] [4, 5, 6])).map
      (fun js => (Layout.left [4, 5, 6]).offset (compose [.strided 1 3 2, .range 1 3, .idx 5] js)) =
      [105, 109, 107, 111] := by decide

/-- a chain of depth 2 (rows [1,4) of `layout_right` (4,6), then row 2 of those, columns 1 and 3) -/
example : subChainAdm .i8 "right" [4, 6] [] [[.range 1 4, .full], [.idx 2, .strided 1 4 2]] = true ∧
    (subChainM .i8 { off := 0, exts := [4, 6], kind := "right", strs := [] }
      [[.range 1 4, .full], [.idx 2, .strided 1 4 2]] >>= subAliasM .i8) = .ok [19, 21] ∧
    (allIdxNat [2]).map (fun js => (Layout.right [4, 6]).offset
      (composeAll [[.range 1 4, .full], [.idx 2, .strided 1 4 2]] js)) = [19, 21] := by decide

/-- an empty result prints nothing — also for the degenerate `layout_left` (0,5), whose strided
    sub-view has an inadmissible (zero-stride) mapping: no non-emptiness hypothesis is needed -/
example : subAdm .i8 "left" [0, 5] [] [.strided 0 0 1, .full] = true ∧
    (subMappingM .i8 "left" [0, 5] [] [.strided 0 0 1, .full] >>= subAliasM .i8) = .ok [] := by decide

/-- the enumeration is row-major -/
example : allIdxNat [2, 3] = [[0, 0], [0, 1], [0, 2], [1, 0], [1, 1], [1, 2]] := by decide

end Mdspan
