"""C09: result rank, static extents and layout type of submdspan — Lean theorems Impl = Spec for
every rank + compile-time probes of decltype(submdspan_mapping / submdspan_extents / submdspan)
against the model's Impl.* over all slice-type tuples of small rank (sampled for higher ranks)."""
import itertools, random
from . import common as C

IC = 'std::integral_constant'
KINDS = {   # name: (C++ type with index type I, model token, category)
 'i':   ('I', 'i'),
 'ic':  (IC + '<I,1>', 'i'),
 'isz': ('size_t', 'i'),
 'p':   ('std::pair<I,I>', 'p:D:D'),
 't':   ('std::tuple<I,I>', 'p:D:D'),
 'pic': ('std::pair<' + IC + '<I,0>,' + IC + '<I,2>>', 'p:0:2'),
 'tic': ('std::tuple<' + IC + '<size_t,1>,' + IC + '<size_t,3>>', 'p:1:3'),
 'tmx': ('std::tuple<' + IC + '<I,0>,I>', 'p:0:D'),
 'f':   ('md::full_extent_t', 'f'),
 's':   ('md::strided_slice<I,I,I>', 's:D:D'),
 'sic': ('md::strided_slice<I,' + IC + '<I,3>,' + IC + '<I,2>>', 's:3:2'),
 's52': ('md::strided_slice<I,' + IC + '<I,5>,' + IC + '<I,2>>', 's:5:2'),
 'sx':  ('md::strided_slice<I,' + IC + '<I,3>,I>', 's:3:D'),
'tmt': ('std::tuple<' + IC + '<I,1>,' + IC + '<size_t,5>>', 'p:1:5'),
 'pmt': ('std::pair<' + IC + '<size_t,2>,' + IC + '<I,6>>', 'p:2:6'),
 'smt': ('md::strided_slice<I,' + IC + '<I,7>,' + IC + '<size_t,3>>', 's:7:3'),
 'su1': ('md::strided_slice<I,I,' + IC + '<I,1>>', 's:D:1'),
 'ss02': ('md::strided_slice<I,' + IC + '<I,0>,' + IC + '<I,2>>', 's:0:2'),
 'su41': ('md::strided_slice<I,' + IC + '<I,4>,' + IC + '<I,1>>', 's:4:1'),
 'ss0': ('md::strided_slice<' + IC + '<I,0>,' + IC + '<I,0>,' + IC + '<I,1>>', 's:0:1'),
}
KN = list(KINDS)
LAY = {'left': 'md::layout_left', 'right': 'md::layout_right', 'stride': 'md::layout_stride'}

def pats(r, rnd, n):
    base = [tuple([None] * r), tuple(7 + k for k in range(r))]
    out = list(base)
    for _ in range(8 * n):
        if len(out) >= n or r == 0: break
        p = tuple(rnd.choice([None, 7 + k]) for k in range(r))
        if p not in out: out.append(p)
    return out[:max(n, 1)] if r > 0 else [()]

def pat_str(p): return ','.join('D' if x is None else str(x) for x in p) if p else '-'

def gen_probes(seed, tier):
    rnd = random.Random(seed); thorough = tier == 'thorough'; out = []
    for r in (1, 2):
        for ks in itertools.product(KN, repeat=r):
            for p in pats(r, rnd, 3):
                for lay in LAY: out.append((lay, 'i32', p, ks))
    r3 = list(itertools.product(KN, repeat=3))
    for ks in (r3 if thorough else rnd.sample(r3, 500)):
        for p in pats(3, rnd, 2):
            for lay in LAY: out.append((lay, 'i32', p, ks))
    for r, n in ((4, 150), (5, 80), (6, 60)):
        for _ in range(n * (5 if thorough else 1)):
            # bias towards layout-preserving shapes: full* (full|pair)? idx*  and mirror images, then perturb
            sr = rnd.randint(0, r)
            shape = ['f'] * max(sr - 1, 0) + ([rnd.choice(['f', 'p', 't', 'pic', 'tic'])] if sr else []) + [rnd.choice(['i', 'ic'])] * (r - sr)
            if rnd.random() < 0.5: shape = shape[::-1]
            if rnd.random() < 0.6: shape[rnd.randrange(r)] = rnd.choice(KN)
            p = rnd.choice(pats(r, rnd, 3)); lay = rnd.choice(list(LAY))
            out.append((lay, 'i32', p, tuple(shape)))
    # other index types (carried over)
    for t in ('u8', 'i16', 'u64', 'i64'):
        for ks in rnd.sample(list(itertools.product(KN, repeat=2)), 40):
            for lay in LAY: out.append((lay, t, (None, 9), ks))
    seen = set(); res = []
    for x in out:
        if x not in seen: seen.add(x); res.append(x)
    return res

def sources(probes, ntu=16):
    tus = [[] for _ in range(ntu)]
    for n, (lay, t, p, ks) in enumerate(probes):
        I = C.ITYPES[t][2]
        E = 'md::extents<%s%s>' % (I, ''.join(', %s' % ('md::dynamic_extent' if x is None else x) for x in p))
        sl = ', '.join(KINDS[k][0].replace('<I', '<' + I).replace('I>', I + '>').replace('I,', I + ',') if k != 'i' else I for k in ks)
        tus[n % ntu].append('  out[%d] = subTypeProbe<%s::mapping<%s>, %s>();' % (n, LAY[lay], E, sl))
    srcs = []
    for i, body in enumerate(tus):
        srcs.append(('c09_tu%d.cpp' % i, '#include "probe.hpp"\nusing namespace vh;\nvoid c09_%d(std::vector<std::string>& out) {\n%s\n}\n' % (i, '\n'.join(body))))
    main = '#include "probe.hpp"\n' + ''.join('void c09_%d(std::vector<std::string>&);\n' % i for i in range(ntu)) + \
           'int main() { std::vector<std::string> out(%d);\n' % len(probes) + ''.join('  c09_%d(out);\n' % i for i in range(ntu)) + \
           '  for (auto& s : out) puts(s.c_str());\n}\n'
    srcs.append(('c09_main.cpp', main))
    return srcs

def spec_line(lay, p, ks):
    """the slicing rule of the property statement, computed independently of the Lean model"""
    res = []; cats = []
    for x, k in zip(p, ks):
        tok = KINDS[k][1]
        if tok == 'i': cats.append('idx'); continue
        if tok == 'f': cats.append('full'); res.append('D' if x is None else str(x)); continue
        a = tok.split(':')
        if a[0] == 'p':
            cats.append('pair'); res.append(str(int(a[2]) - int(a[1])) if a[1] != 'D' and a[2] != 'D' else 'D')
        else:
            cats.append('strided')
            if a[1] != 'D' and a[2] != 'D':
                xx, ss = int(a[1]), int(a[2]); res.append(str(0 if xx == 0 else -(-xx // ss)))
            else: res.append('D')
    sr = len(res); n = len(ks)
    def keep(cs):
        if sr == 0: return True
        return all(c == 'full' for c in cs[:sr - 1]) and cs[sr - 1] in ('full', 'pair') and all(c == 'idx' for c in cs[sr:])
    if lay == 'left': l = 'left' if keep(cats) else 'stride'
    elif lay == 'right': l = 'right' if keep(cats[::-1]) else 'stride'
    else: l = 'stride'
    return 'rank=%d layout=%s pat=%s' % (sr, l, ','.join(res) if res else '-')

def check(prop, tier, seed, replay=None):
    rep = C.Report(prop, tier, seed)
    audit = C.proof_audit(prop)
    configs = ['gcc23-O0-assert'] if tier == 'quick' else ['gcc23-O0-assert', 'clang20-O0-assert', 'gcc17-O2-assert', 'clang17-O0-ndebug-emul']
    probes = gen_probes(seed, tier)
    if replay: probes = [tuple(replay['probe'][:2]) + (tuple(replay['probe'][2]), tuple(replay['probe'][3]))]
    mlines = ['subtype %s %s spat=%s k=%s' % (lay, t, pat_str(p), ';'.join(KINDS[k][1] for k in ks)) for lay, t, p, ks in probes]
    mout = C.driver(mlines)
    rep.notes['configs'] = configs; rep.notes['probes'] = len(probes)
    rep.notes['rank_histogram'] = {str(r): sum(1 for x in probes if len(x[3]) == r) for r in range(1, 7)}
    rep.cov['rule'] = ('decltype probes of submdspan_mapping/submdspan_extents/submdspan over 14 slice types (integers, integral_constant, pair/tuple with run-time, constant and mixed members, '
                       'full_extent_t, strided_slice with each static/dynamic combination): all tuples of rank 1-2 x 3 source patterns x 3 layouts, 500 (thorough: all 2744) rank-3 tuples, '
                       'sampled rank 4-6 biased to layout-preserving shapes; non-trivial = result rank >= 1; distinct by (layout, index type, pattern, slice types)')
    for cfg in configs:
        try:
            exe, secs, cached = C.cxx_build('c09probe', sources(probes), config=cfg)
        except C.BuildError as e:
            rep.broke(dict(correspondence='C09 probe build (%s)' % cfg, why=str(e), log=e.log[-3000:])); continue
        rep.notes.setdefault('probe_build_s', {})[cfg] = round(secs, 1)
        iout = C.run([exe]).stdout.split('\n')
        for n, (pr, xm) in enumerate(zip(probes, mout)):
            xi = iout[n] if n < len(iout) else 'missing'
            rep.cov['evaluations'] += 1; rep.cov['traces_validated_against_impl'] += 1
            d = dict(x.split('=') for x in xi.split()) if xi.startswith('rank=') else {}
            core = 'rank=%s layout=%s pat=%s' % (d.get('rank'), d.get('layout'), d.get('pat'))
            lay, t, p, ks = pr
            pub = dict(probe=[lay, t, list(p), list(ks)], source_layout=lay, index_type=t, source_pattern=pat_str(p), slice_types=[KINDS[k][0] for k in ks], config=cfg)
            want = spec_line(lay, p, ks)
            if d.get('rank', '0') != '0': rep.nontrivial((lay, t, p, ks))
            if core != want:
                rep.violation(dict(kind='submdspan-result-type-differs-from-slicing-rule', impl=xi, specified=want, **pub)); continue
            if d.get('xpat') != d.get('pat') or d.get('idx') != '1' or d.get('mds') != '1':
                rep.violation(dict(kind='submdspan_extents/submdspan-type-inconsistent-or-index/element/accessor-type-not-carried-over', impl=xi, **pub)); continue
            if core != xm:
                rep.broke(dict(correspondence='C09 type probes vs Impl.subStatic/subLayout', impl=xi, model=xm, **pub)); continue
            if len(ks) >= 3: rep.sample(dict(line=mlines[n], result=xi))
    rep.assumptions = ['the compiler\'s template instantiation and decltype are trusted', 'strided_slice integral_constant strides are positive when the constant extent is positive (validity)']
    return rep.finish(audit)
