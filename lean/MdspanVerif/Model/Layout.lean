/-!
# Pure mirrors of the layout mappings of kokkos/mdspan

Every definition follows the control structure of the C++ it mirrors (fold
direction, loop bounds, branch order); values are unbounded `Nat`.  Lists are
indexed by dimension `0 .. rank-1`.
-/
namespace Mdspan

/-- product of a list (`value *= extent(r)` loops), 1 for rank 0 -/
def prod : List Nat → Nat
  | [] => 1
  | e :: es => e * prod es

/-- `layout_stride::_call_op_impl`: right fold `(idx*stride + ... + 0)` -/
def dot : List Nat → List Nat → Nat
  | i :: is, s :: ss => i * s + dot is ss
  | _, _ => 0

/-- multi-index inside the extents -/
def InB : List Nat → List Nat → Prop
  | [], [] => True
  | i :: is, e :: es => i < e ∧ InB is es
  | _, _ => False

/-! ## layout_right -/

/-- `layout_right::__compute_offset(offset, __rank_count<r,Rank>, i, idx...)` -/
def rightGo (acc : Nat) : List Nat → List Nat → Nat
  | e :: es, i :: is => rightGo (acc * e + i) es is
  | _, _ => acc

/-- `layout_right::mapping::operator()`: the first index seeds the accumulator -/
def rightOff : List Nat → List Nat → Nat
  | _ :: es, i :: is => rightGo i es is
  | _, _ => 0

/-- `layout_right::mapping::stride(i)`: `for r = rank-1; r > i; r--` -/
def rightStride (es : List Nat) (i : Nat) : Nat := prod (es.drop (i + 1))

/-- all strides of layout_right: suffix products -/
def rightStrides : List Nat → List Nat
  | [] => []
  | _ :: es => prod es :: rightStrides es

/-! ## layout_left -/

/-- `layout_left::__compute_offset`: `rest * extent(r) + i` -/
def leftOff : List Nat → List Nat → Nat
  | e :: es, i :: is => leftOff es is * e + i
  | _, _ => 0

/-- `layout_left::mapping::stride(i)`: `for r = 0; r < i; r++` -/
def leftStride (es : List Nat) (i : Nat) : Nat := prod (es.take i)

/-- all strides of layout_left: prefix products, computed with a running product -/
def leftStridesFrom (p : Nat) : List Nat → List Nat
  | [] => []
  | e :: es => p :: leftStridesFrom (p * e) es
def leftStrides (es : List Nat) : List Nat := leftStridesFrom 1 es

/-- `required_span_size` of layout_left / layout_right -/
def spanLR (es : List Nat) : Nat := prod es

/-! ## layout_stride -/

/-- loop of `layout_stride::required_span_size` with its early return -/
def spanStrideGo (acc : Nat) : List Nat → List Nat → Nat
  | e :: es, s :: ss => if e = 0 then 0 else spanStrideGo (acc + (e - 1) * s) es ss
  | _, _ => acc
def spanStride (es ss : List Nat) : Nat := spanStrideGo 1 es ss

/-- `layout_stride::is_exhaustive`, non-zero-span branch and rank-0 branch -/
def isExhStrideNonEmpty (es ss : List Nat) : Bool := spanStride es ss == prod es

/-! ## padded layouts -/

/-- `find_next_multiple(alignment, offset)` as repaired (F3) -/
def findNextMultiple (a o : Nat) : Nat :=
  if a = 0 then 0 else (o / a + (if o % a ≠ 0 then 1 else 0)) * a

/-- `find_next_multiple` as on the pinned tree -/
def findNextMultipleOrig (a o : Nat) : Nat :=
  if a = 0 then 0 else ((o + a - 1) / a) * a

/-- layout_left_padded::compute_offset: Horner from the last index, extent 0 replaced by `ps` -/
def lpadOff (ps : Nat) : List Nat → List Nat → Nat
  | [], [] => 0
  | [_], [i] => i
  | _ :: es, i :: is => leftOff es is * ps + i
  | _, _ => 0

/-- layout_right_padded::compute_offset: accumulator Horner, last extent replaced by `ps` -/
def rpadGo (ps acc : Nat) : List Nat → List Nat → Nat
  | [_], [i] => acc * ps + i
  | e :: es, i :: is => rpadGo ps (acc * e + i) es is
  | _, _ => acc
def rpadOff (ps : Nat) : List Nat → List Nat → Nat
  | [], [] => 0
  | [_], [i] => i
  | es, is => rpadGo ps 0 es is

/-- allocation extents of layout_right_padded: last extent replaced by the padded stride -/
def replaceLast (ps : Nat) : List Nat → List Nat
  | [] => []
  | [_] => [ps]
  | e :: es => e :: replaceLast ps es
/-- allocation extents of layout_left_padded: first extent replaced by the padded stride -/
def replaceHead (ps : Nat) : List Nat → List Nat
  | [] => []
  | _ :: es => ps :: es

/-- `layout_left_padded::required_span_size` -/
def lpadSpan (ps : Nat) : List Nat → Nat
  | [] => 1
  | [e] => e
  | _ :: es => ps * prod es
/-- `layout_right_padded::required_span_size`: product of the leading extents times `ps` -/
def rpadSpanGo (ps acc : Nat) : List Nat → Nat
  | [] => acc
  | [_] => acc * ps
  | e :: es => rpadSpanGo ps (acc * e) es
def rpadSpan (ps : Nat) : List Nat → Nat
  | [] => 1
  | [e] => e
  | es => rpadSpanGo ps 1 es

/-- `layout_left_padded::strides()` -/
def lpadStrides (ps : Nat) : List Nat → List Nat
  | [] => []
  | [_] => [1]
  | _ :: es => 1 :: leftStridesFrom ps es
/-- `layout_right_padded::strides()` -/
def rpadStrides (ps : Nat) : List Nat → List Nat
  | [] => []
  | [_] => [1]
  | es => rightStrides (replaceLast ps es)

/-- the five mappings as values -/
inductive Layout
  | left (es : List Nat)
  | right (es : List Nat)
  | stride (es ss : List Nat)
  | lpad (es : List Nat) (ps : Nat)
  | rpad (es : List Nat) (ps : Nat)
deriving Repr

def Layout.extents : Layout → List Nat
  | .left es | .right es | .stride es _ | .lpad es _ | .rpad es _ => es

def Layout.offset : Layout → List Nat → Nat
  | .left es, is => leftOff es is
  | .right es, is => rightOff es is
  | .stride _ ss, is => dot is ss
  | .lpad es ps, is => lpadOff ps es is
  | .rpad es ps, is => rpadOff ps es is

def Layout.span : Layout → Nat
  | .left es | .right es => spanLR es
  | .stride es ss => spanStride es ss
  | .lpad es ps => lpadSpan ps es
  | .rpad es ps => rpadSpan ps es

def Layout.strides : Layout → List Nat
  | .left es => leftStrides es
  | .right es => rightStrides es
  | .stride _ ss => ss
  | .lpad es ps => lpadStrides ps es
  | .rpad es ps => rpadStrides ps es

end Mdspan
