/-!
# C++ integer semantics for the index types of mdspan (LP64, two's complement)

The eight index types the library can be instantiated with on this platform
(`char`/`short`/`int`/`long`/`long long` and their unsigned counterparts;
`long` and `long long` are both 64 bit and behave identically in arithmetic).
Signed overflow and division by zero are undefined behaviour and reported as
`UB`; conversions wrap (C++20 / GCC / Clang semantics).
-/
namespace Mdspan

inductive ITy | i8 | u8 | i16 | u16 | i32 | u32 | i64 | u64
deriving DecidableEq, Repr, Inhabited

namespace ITy
def sgn : ITy → Bool
  | i8 | i16 | i32 | i64 => true
  | _ => false
def bits : ITy → Nat
  | i8 | u8 => 8 | i16 | u16 => 16 | i32 | u32 => 32 | i64 | u64 => 64
def modulus : ITy → Int
  | i8 | u8 => 256 | i16 | u16 => 65536
  | i32 | u32 => 4294967296 | i64 | u64 => 18446744073709551616
def hi : ITy → Int
  | i8 => 127 | u8 => 255 | i16 => 32767 | u16 => 65535
  | i32 => 2147483647 | u32 => 4294967295
  | i64 => 9223372036854775807 | u64 => 18446744073709551615
def lo : ITy → Int
  | i8 => -128 | i16 => -32768 | i32 => -2147483648 | i64 => -9223372036854775808
  | _ => 0
/-- value-changing conversion into `t` (modular) -/
def wrap (t : ITy) (x : Int) : Int :=
  let r := x % t.modulus
  if t.sgn && r > t.hi then r - t.modulus else r
/-- integral promotion -/
def promote : ITy → ITy
  | i8 | u8 | i16 | u16 => i32
  | t => t
/-- usual arithmetic conversions (both operands promoted first) -/
def common (a b : ITy) : ITy :=
  let a := a.promote
  let b := b.promote
  if a = b then a
  else if a.sgn = b.sgn then (if a.bits ≥ b.bits then a else b)
  else
    let s := if a.sgn then a else b
    let u := if a.sgn then b else a
    if u.bits ≥ s.bits then u else s
/-- `std::make_unsigned_t` -/
def toUnsigned : ITy → ITy
  | i8 => u8 | i16 => u16 | i32 => u32 | i64 => u64 | t => t
def InRange (t : ITy) (x : Int) : Prop := t.lo ≤ x ∧ x ≤ t.hi
instance (t : ITy) (x : Int) : Decidable (t.InRange x) := by unfold InRange; infer_instance
end ITy

inductive UB | overflow | divzero | oob
deriving DecidableEq, Repr

abbrev M := Except UB

deriving instance DecidableEq for Except

/-- a typed value -/
structure V where
  ty : ITy
  v : Int
deriving DecidableEq, Repr

namespace V
def cast (t : ITy) (a : V) : V := ⟨t, t.wrap a.v⟩
def ofNat (t : ITy) (n : Nat) : V := ⟨t, n⟩

/-- arithmetic in the common type of the operands -/
def arith (op : Int → Int → Int) (a b : V) : M V :=
  let t := ITy.common a.ty b.ty
  let x := t.wrap a.v
  let y := t.wrap b.v
  let r := op x y
  if t.sgn then (if t.InRange r then pure ⟨t, r⟩ else throw .overflow)
  else pure ⟨t, t.wrap r⟩
def mul := arith (· * ·)
def add := arith (· + ·)
def sub := arith (· - ·)
def div (a b : V) : M V :=
  let t := ITy.common a.ty b.ty
  let x := t.wrap a.v
  let y := t.wrap b.v
  if y = 0 then throw .divzero
  else
    let r := Int.tdiv x y
    if t.sgn then (if t.InRange r then pure ⟨t, r⟩ else throw .overflow) else pure ⟨t, t.wrap r⟩
def mod (a b : V) : M V :=
  let t := ITy.common a.ty b.ty
  let x := t.wrap a.v
  let y := t.wrap b.v
  if y = 0 then throw .divzero else pure ⟨t, t.wrap (Int.tmod x y)⟩
/-- comparison in the common type -/
def eq (a b : V) : Bool :=
  let t := ITy.common a.ty b.ty
  t.wrap a.v == t.wrap b.v
def lt (a b : V) : Bool :=
  let t := ITy.common a.ty b.ty
  t.wrap a.v < t.wrap b.v
end V

/-! ### basic facts -/

theorem ITy.hi_le_promote (t : ITy) : t.hi ≤ t.promote.hi := by cases t <;> decide
theorem ITy.promote_lo_le (t : ITy) : t.promote.lo ≤ 0 := by cases t <;> decide
theorem ITy.hi_nonneg (t : ITy) : 0 ≤ t.hi := by cases t <;> decide
theorem ITy.hi_lt_modulus (t : ITy) : t.hi < t.modulus := by cases t <;> decide
theorem ITy.common_self (t : ITy) : ITy.common t t = t.promote := by cases t <;> rfl
theorem ITy.promote_promote (t : ITy) : t.promote.promote = t.promote := by cases t <;> rfl

theorem ITy.wrap_id (t : ITy) (x : Int) (h0 : 0 ≤ x) (h1 : x ≤ t.hi) : t.wrap x = x := by
  have hm : x % t.modulus = x := Int.emod_eq_of_lt h0 (by have := t.hi_lt_modulus; omega)
  unfold ITy.wrap
  simp only [hm]
  split
  · rename_i h; simp at h; omega
  · rfl

theorem ITy.common_lo_le (a b : ITy) : (ITy.common a b).lo ≤ 0 := by cases a <;> cases b <;> decide
theorem ITy.common_promote_left (t : ITy) : ITy.common t.promote t = t.promote := by cases t <;> rfl
theorem ITy.common_promote_right (t : ITy) : ITy.common t t.promote = t.promote := by cases t <;> rfl
theorem ITy.common_promote_both (t : ITy) : ITy.common t.promote t.promote = t.promote := by cases t <;> rfl
theorem ITy.common_i32_right (t : ITy) : ITy.common t .i32 = t.promote := by cases t <;> rfl
theorem ITy.common_promote_i32 (t : ITy) : ITy.common t.promote .i32 = t.promote := by cases t <;> rfl

/-- arithmetic on non-negative operands that are representable in the common type, with a
    non-negative result that is representable too, is exact and free of UB -/
theorem V.arith_ok (op : Int → Int → Int) (a b : V)
    (ha : 0 ≤ a.v) (ha' : a.v ≤ (ITy.common a.ty b.ty).hi)
    (hb : 0 ≤ b.v) (hb' : b.v ≤ (ITy.common a.ty b.ty).hi)
    (h0 : 0 ≤ op a.v b.v) (h1 : op a.v b.v ≤ (ITy.common a.ty b.ty).hi) :
    V.arith op a b = .ok ⟨ITy.common a.ty b.ty, op a.v b.v⟩ := by
  have hl := ITy.common_lo_le a.ty b.ty
  unfold V.arith
  simp only
  rw [ITy.wrap_id _ a.v ha ha', ITy.wrap_id _ b.v hb hb']
  split
  · rw [if_pos ⟨by omega, h1⟩]; rfl
  · rw [ITy.wrap_id _ _ h0 h1]; rfl

end Mdspan
