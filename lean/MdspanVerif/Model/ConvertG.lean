import MdspanVerif.Model.Convert
/-!
# Converting constructors into a destination whose padded stride is a compile-time constant

`Convert.lean`'s `convert` describes destinations whose padded stride is a run-time member.  When
`padding_value` and the extent to pad of the *destination* type are both static, the padded stride
is the static member of `maybe_static_array` (`static_padding_stride` =
`find_next_multiple(padding_value, static_extent(extent_to_pad_idx))`) and **every** converting
constructor of the padded mappings (`from layout_left/right`, `from layout_stride`,
`from left/right_padded`) discards the value `init_padding` computes from the source
(layout_padded.hpp 118-127: the all-static `maybe_static_array` constructor ignores its argument).
`convertG` generalises `convertS` (left → left_padded, right → right_padded) to all of them.
-/
namespace Mdspan

/-- the converting constructor `Dst::mapping<…>(src)` where `sps = some v` says the destination's
    padded stride is the compile-time constant `v` (`none`: run-time member, i.e. `convert`). -/
def convertG (src : Layout) (dst : LKind) (sps : Option Nat) : Option Layout :=
  match sps, convert src dst with
  | some v, some (.lpad es _) => some (.lpad es (if es.length > 1 then v else 0))
  | some v, some (.rpad es _) => some (.rpad es (if es.length > 1 then v else 0))
  | _, r => r

/-- the precondition as far as the mapping function is concerned: `ConvPre`, and for rank > 1 the
    compile-time padded stride equals the source's `stride(padded_stride_idx)` (P2642: "other.stride(1)
    equals the least multiple of padding_value not less than extent(0)" together with the Mandates). -/
def ConvPreG (src : Layout) (dst : LKind) (sps : Option Nat) : Prop :=
  ConvPre src dst ∧
  match sps, dst with
  | some v, .lpad => src.rank > 1 → src.strideAt lpadIdx = v
  | some v, .rpad => src.rank > 1 → src.strideAt (rpadIdx src.rank) = v
  | _, _ => True

instance (src : Layout) (dst : LKind) (sps : Option Nat) : Decidable (ConvPreG src dst sps) := by
  unfold ConvPreG; cases sps <;> cases dst <;> infer_instance

end Mdspan
