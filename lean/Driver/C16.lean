import Driver.Util
import MdspanVerif.Model.ElemCv
import Driver.Ext
import MdspanVerif.Model.Types2
/-! `c16*` op families: overload participation / explicitness rules evaluated on type descriptors. -/
open Mdspan
namespace Drv

/-- `<lay>[<P>]:<T>:<pat>`, e.g. `lpad4:i32:D,5` / `left:u8:-` -/
def parseMapT (s : String) : Option MapT :=
  match s.splitOn ":" with
  | [l, t, p] =>
    let lay : Option LayK :=
      if l == "left" then some .left else if l == "right" then some .right else if l == "stride" then some .stride
      else if l.startsWith "lpad" then some (.lpad (parseOptNat (l.drop 4).toString))
      else if l.startsWith "rpad" then some (.rpad (parseOptNat (l.drop 4).toString)) else none
    match lay, parseTy t with
    | some lay, some T => some ⟨lay, ⟨T, parsePat p⟩⟩
    | _, _ => none
  | _ => none

/-- `<base>[c]` -/
def parseElem (s : String) : ElemT := ⟨((s.takeWhile Char.isDigit).toString.toNat?).getD 0, s.endsWith "c"⟩

def c16Line (fam : String) (rest : List String) : String :=
  match fam with
  | "map" =>
    match (getKey rest "d").bind parseMapT, (getKey rest "s").bind parseMapT with
    | some d, some s =>
      s!"ctor={fmtB (Impl.mapConstructible d s)} conv={fmtB (Impl.mapConvertible d s)} hard={fmtB (Impl.mapHardError d s)} ok={fmtB (Impl.mapTypeOK d && Impl.mapTypeOK s)}"
    | _, _ => "bad-op"
  | "mds" =>
    match (getKey rest "d").bind parseMapT, (getKey rest "s").bind parseMapT with
    | some dm, some sm =>
      let de := parseElem ((getKey rest "de").getD "0"); let se := parseElem ((getKey rest "se").getD "0")
      let d : MdsT := ⟨de, dm, ⟨de⟩⟩; let s : MdsT := ⟨se, sm, ⟨se⟩⟩
      s!"ctor={fmtB (Impl.mdsConstructible d s)} conv={fmtB (Impl.mdsConvertible d s)} hard={fmtB (Impl.mdsHardError d s)} acc={fmtB (Impl.accConstructible d.acc s.acc)}"
    | _, _ => "bad-op"
  | "acccv" =>
    -- `c16 acccv d=<base><c?><v?> s=...`: default_accessor<T> from default_accessor<U>, both cv-qualifiers
    let pe (s : String) : ElemCv := ⟨((s.takeWhile Char.isDigit).toString.toNat?).getD 0, s.contains 'c', s.contains 'v'⟩
    let d := pe ((getKey rest "d").getD "0"); let s := pe ((getKey rest "s").getD "0")
    s!"ctor={fmtB (accCvConstructible d s)} conv={fmtB (accCvConvertible d s)}"
  | "args" =>
    let g (k : String) : Nat := (((getKey rest k).getD "0").toNat?).getD 0
    let b (k : String) : Bool := (getKey rest k).getD "0" == "1"
    let what := (getKey rest "what").getD ""
    let lay : LayK := match (getKey rest "lay").getD "left" with
      | "stride" => .stride | "right" => .right | _ => .left
    match what with
    | "ext" => s!"ok {fmtB (if g "n" == 0 then true else Impl.indexArgsOK (g "rank") (g "rd") (g "n") (b "conv") (b "nothrow"))}"
    | "call" => s!"ok {fmtB (Impl.indexCallOK (g "rank") (g "n") (b "conv") (b "nothrow"))}"
    | "arr" => s!"ok {fmtB (Impl.arrayArgOK (g "rank") (g "rd") (g "n") (b "conv") (b "nothrow"))} expl={fmtB (Impl.arrayArgExplicit (g "rd") (g "n"))}"
    | "mds" =>
      let pat : Pattern := (List.replicate (g "rd") none) ++ (List.replicate (g "rank" - g "rd") (some 3))
      let m : MdsT := ⟨⟨0, false⟩, ⟨lay, ⟨.i32, pat⟩⟩, ⟨⟨0, false⟩⟩⟩
      s!"ok {fmtB (Impl.mdsIndexCtorOK m (g "n") (b "conv") (b "nothrow"))}"
    | _ => "bad-op"
  | _ => "bad-op"

end Drv
