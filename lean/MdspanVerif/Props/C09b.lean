import MdspanVerif.Props.C09
/-!
# C09 — layout_right: the fold expression of `preserve_layout_right_mapping` equals the rule
-/
namespace Mdspan

/-- what the fold demands of the positions from `SrcRank - SubRank` on -/
def rightTail : List Slice → Bool
  | [] => true
  | h :: t => (h.isFull || h.isRange) && t.all Slice.isFull

theorem subRank_le_length : ∀ sls : List Slice, subRank sls ≤ sls.length
  | [] => by simp [subRank]
  | sl :: sls => by
    rw [subRank_cons]; have := subRank_le_length sls
    cases sl.isIdx <;> simp <;> omega

theorem allFull_subRank : ∀ l : List Slice, l.all Slice.isFull = true → subRank l = l.length
  | [], _ => by simp [subRank]
  | h :: t, hh => by
    simp only [List.all_cons, Bool.and_eq_true] at hh
    rw [subRank_cons, allFull_subRank t hh.2]
    cases h <;> simp [Slice.isFull] at hh
    simp [Slice.isIdx]; omega

theorem rightTail_subRank (l : List Slice) (h : rightTail l = true) : subRank l = l.length := by
  cases l with
  | nil => simp [subRank]
  | cons a t =>
    simp only [rightTail, Bool.and_eq_true, Bool.or_eq_true] at h
    rw [subRank_cons, allFull_subRank t h.2]
    rcases h.1 with h1 | h1 <;> (cases a <;> simp [Slice.isFull, Slice.isRange] at h1) <;>
      simp [Slice.isIdx] <;> omega

theorem subRank_drop_le : ∀ (k : Nat) (l : List Slice), subRank (l.drop k) ≤ subRank l
  | 0, l => by simp
  | k + 1, [] => by simp
  | k + 1, a :: l => by
    simp only [List.drop_succ_cons]; rw [subRank_cons]
    have := subRank_drop_le k l; omega

/-- positions at or beyond the threshold: everything must be `full` -/
theorem preserveRightAt_beyond (n sr : Nat) : ∀ (i : Nat) (sls : List Slice), n - sr < i →
    preserveRightAt n sr i sls = sls.all Slice.isFull
  | _, [], _ => rfl
  | i, sl :: sls, h => by
    simp only [preserveRightAt, List.all_cons]
    have h1 : ¬ (i < n - sr) := by omega
    have h2 : (i == n - sr) = false := by simp; omega
    rw [preserveRightAt_beyond n sr (i + 1) sls (by omega)]
    simp [h1, h2]

/-- up to the threshold the fold ignores the slices; from the threshold on it is `rightTail` -/
theorem preserveRightAt_eq (n sr : Nat) : ∀ (i : Nat) (sls : List Slice), i ≤ n - sr →
    preserveRightAt n sr i sls = rightTail (sls.drop (n - sr - i))
  | _, [], _ => by simp [preserveRightAt, rightTail]
  | i, sl :: sls, h => by
    simp only [preserveRightAt]
    by_cases hlt : i < n - sr
    · have : n - sr - i = (n - sr - (i + 1)) + 1 := by omega
      rw [this, List.drop_succ_cons, preserveRightAt_eq n sr (i + 1) sls (by omega)]
      simp [hlt]
    · have heq : i = n - sr := by omega
      have h0 : n - sr - i = 0 := by omega
      rw [h0, List.drop_zero, preserveRightAt_beyond n sr (i + 1) sls (by omega)]
      have h2 : (i == n - sr) = true := by simp [heq]
      simp [rightTail, hlt, h2]

theorem presRightSpec_allIdx : ∀ sls : List Slice, sls.all Slice.isIdx = true → presRightSpec sls = true
  | [], _ => rfl
  | sl :: sls, h => by
    simp only [List.all_cons, Bool.and_eq_true] at h
    simp [presRightSpec, h.1, presRightSpec_allIdx sls h.2]

/-- the tail condition at the threshold is the prose rule `idx* (full|pair)? full*` -/
theorem rightTail_drop_eq : ∀ (sls : List Slice), 0 < subRank sls →
    rightTail (sls.drop (sls.length - subRank sls)) = presRightSpec sls
  | [], h => by simp [subRank] at h
  | sl :: sls, hpos => by
    have hle := subRank_le_length sls
    by_cases hi : sl.isIdx = true
    · have hsr : subRank (sl :: sls) = subRank sls := by rw [subRank_cons]; simp [hi]
      rw [hsr] at hpos ⊢
      have : (sl :: sls).length - subRank sls = (sls.length - subRank sls) + 1 := by
        simp; omega
      rw [this, List.drop_succ_cons, rightTail_drop_eq sls hpos]
      simp [presRightSpec, hi]
    · have hi' : sl.isIdx = false := by cases h : sl.isIdx <;> simp_all
      have hsr : subRank (sl :: sls) = 1 + subRank sls := by rw [subRank_cons]; simp [hi']
      rw [hsr]
      by_cases hz : sls.length - subRank sls = 0
      · -- everything after `sl` is a non-index slice: the threshold is `sl` itself
        have : (sl :: sls).length - (1 + subRank sls) = 0 := by simp; omega
        rw [this, List.drop_zero]
        simp only [rightTail, presRightSpec, hi', Bool.false_eq_true, if_false]
        cases sl <;> simp [Slice.isFull, Slice.isRange, Slice.isIdx] at hi' ⊢
      · -- an index slice follows: the rule fails, and so does the fold
        have hk : (sl :: sls).length - (1 + subRank sls) = (sls.length - subRank sls - 1) + 1 := by
          simp; omega
        rw [hk, List.drop_succ_cons]
        have hfalse : rightTail (sls.drop (sls.length - subRank sls - 1)) = false := by
          cases hh : rightTail (sls.drop (sls.length - subRank sls - 1)) with
          | false => rfl
          | true =>
            exfalso
            have h1 := rightTail_subRank _ hh
            have h2 := subRank_drop_le (sls.length - subRank sls - 1) sls
            have h3 : (sls.drop (sls.length - subRank sls - 1)).length = subRank sls + 1 := by
              simp; omega
            omega
        rw [hfalse]
        have hnot : sls.all Slice.isFull = false := by
          cases hh : sls.all Slice.isFull with
          | false => rfl
          | true => have := allFull_subRank sls hh; omega
        simp only [presRightSpec, hi', Bool.false_eq_true, if_false, hnot]
        cases sl <;> simp [Slice.isFull, Slice.isRange]

/-- **C09 (layout_right)**: `preserve_layout_right_mapping` is true exactly for
    `index* (full | pair)? full*`, for slice lists of every length. -/
theorem C09_preserveRight (sls : List Slice) : preserveRight sls = presRightSpec sls := by
  unfold preserveRight
  by_cases hz : subRank sls = 0
  · have hall := (subRank_zero_iff sls).mp hz
    simp [hz, presRightSpec_allIdx sls hall]
  · have hpos : 0 < subRank sls := Nat.pos_of_ne_zero hz
    have : (subRank sls == 0) = false := by simp [hz]
    rw [this, Bool.false_or, preserveRightAt_eq sls.length (subRank sls) 0 sls (by omega), Nat.sub_zero]
    exact rightTail_drop_eq sls hpos

end Mdspan
