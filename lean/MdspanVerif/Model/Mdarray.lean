import MdspanVerif.Model.Layout
/-!
# mdarray: a mapping together with an owned container (`__p1684_bits/mdarray.hpp`)

Two layers.

* **Value layer** (`Mdarray`): the pair `(map_, ctr_)` as a value.  Elements are `Int`
  (value-initialisation = `0`).  The container type is either size-constructible
  (`std::vector<T>`: `C(m.required_span_size())`) or `std::array<T,N>` (`std::array<T,N>()`, the
  size `N` is a property of the *type* and is **not** compared with the span by the code).
* **Pool layer** (`APool`): a pool of mdarray objects whose containers live in a heap of
  buffers with explicit identity (`cid` = what `data()` / `container().data()` returns).  A
  deep copy allocates a fresh buffer id; a move of a `std::vector` container transfers the
  buffer id and leaves the source with an empty container *and its mapping unchanged*
  (`moved = true`: valid but unspecified state in which `ctr_.size() >= required_span_size()`
  no longer holds); a move of a `std::array` container is an element-wise copy.

The 15 constructors collapse to: `ofMapping` (extents pack / extents / mapping, each with or
without allocator: the mapping is built first, then the container is made from it), `adopt`
(extents|mapping × `const container&`|`container&&` × with/without allocator: the container
is copied or moved in, `assert(ctr_.size() >= map_.required_span_size())`), the defaulted
copy / move constructors, and the converting constructor from another mdarray
(`map_(other.mapping()), ctr_(other.container())`: converted mapping, copied container).
The header on this tree has no constructor from an mdspan.
-/
namespace Mdspan

/-- the two families of container types `mdarray` supports -/
inductive CtrKind
  | vector            -- constructible from a size: `C(m.required_span_size())`
  | array (n : Nat)   -- `std::array<T,n>`: `std::array<T,n>()`, size fixed by the type
deriving DecidableEq, Repr

/-- size of the container made by `container_is_array<C>::construct(map_)` -/
def CtrKind.initLen : CtrKind → Nat → Nat
  | .vector, span => span
  | .array n, _ => n

/-- the requirement a container of this kind imposes on its size (a property of the type) -/
def CtrKind.Fits : CtrKind → Nat → Prop
  | .vector, _ => True
  | .array n, len => len = n

structure Mdarray where
  map : Layout
  ctr : List Int
  kind : CtrKind

/-- `mdarray(exts...)`, `mdarray(exts)`, `mdarray(m)`, `mdarray(exts, alloc)`, `mdarray(m, alloc)` -/
def Mdarray.ofMapping (k : CtrKind) (L : Layout) : Mdarray :=
  ⟨L, List.replicate (k.initLen L.span) 0, k⟩

/-- `mdarray(exts|m, const container&|container&& [, alloc])`;
    precondition `L.span ≤ c.length` (the `assert`) -/
def Mdarray.adopt (L : Layout) (c : List Int) (k : CtrKind := .vector) : Mdarray := ⟨L, c, k⟩

/-- converting constructor from another mdarray: `map_(other.mapping()), ctr_(other.container())`;
    `L'` is the converted mapping -/
def Mdarray.convert (L' : Layout) (a : Mdarray) : Mdarray := ⟨L', a.ctr, a.kind⟩

/-- `operator()` / `operator[]`, const and non-const: `ctr_[map_(indices...)]` -/
def Mdarray.get (a : Mdarray) (is : List Nat) : Int := a.ctr.getD (a.map.offset is) 0
/-- `a(is...) = v` through the non-const reference -/
def Mdarray.set (a : Mdarray) (is : List Nat) (v : Int) : Mdarray :=
  { a with ctr := a.ctr.set (a.map.offset is) v }

/-- `size()`: `value *= extent(r)` over all ranks -/
def Mdarray.size (a : Mdarray) : Nat := prod a.map.extents
/-- `container().size()` -/
def Mdarray.containerSize (a : Mdarray) : Nat := a.ctr.length
def Mdarray.extent (a : Mdarray) (r : Nat) : Nat := a.map.extents.getD r 0
def Mdarray.stride (a : Mdarray) (r : Nat) : Nat := a.map.strides.getD r 0

/-! ## buffers with identity -/

/-- heap of container buffers: buffer id ↦ contents -/
abbrev AHeap := Nat → List Int

def AHeap.put (h : AHeap) (a : Nat) (c : List Int) : AHeap := fun x => if x = a then c else h x

/-- what `to_mdspan()` and the conversion operators return: `mdspan(data(), map_)` -/
structure MdView where
  base : Nat      -- `data_handle()`: identity of the buffer pointed into
  map : Layout
deriving Repr

/-- element read through a view: cell `map(is...)` of the buffer `base` -/
def MdView.get (h : AHeap) (v : MdView) (is : List Nat) : Int := (h v.base).getD (v.map.offset is) 0
/-- element write through a view -/
def MdView.set (h : AHeap) (v : MdView) (is : List Nat) (x : Int) : AHeap :=
  h.put v.base ((h v.base).set (v.map.offset is) x)

/-- an mdarray object: mapping, container type, identity of the container's buffer, and
    whether it has been moved from -/
structure ASlot where
  map : Layout
  kind : CtrKind
  cid : Nat        -- `data()` = `container().data()`
  moved : Bool     -- moved-from `std::vector` container: empty, mapping unchanged

/-- `to_mdspan()`, `operator mdspan<...>()` (const and non-const): `mdspan_type(data(), map_)` -/
def ASlot.toMdspan (sl : ASlot) : MdView := ⟨sl.cid, sl.map⟩

structure APool where
  slots : Nat → Option ASlot
  heap : AHeap
  next : Nat       -- first buffer id never handed out

def APool.init : APool := ⟨fun _ => none, fun _ => [], 0⟩

def APool.putSlot (f : Nat → Option ASlot) (i : Nat) (v : Option ASlot) : Nat → Option ASlot :=
  fun x => if x = i then v else f x

/-- the mdarray value held in slot `i` -/
def APool.arr (s : APool) (i : Nat) : Option Mdarray :=
  (s.slots i).map fun sl => ⟨sl.map, s.heap sl.cid, sl.kind⟩

inductive AOp
  | ofMapping (i : Nat) (k : CtrKind) (L : Layout)                 -- pool[i] = mdarray(m [, alloc])
  | adopt (i : Nat) (k : CtrKind) (L : Layout) (c : List Int)      -- pool[i] = mdarray(m, c [, alloc])
  | copyCons (i j : Nat)                                          -- pool[i] = mdarray(pool[j])
  | convCons (i j : Nat) (L' : Layout)                            -- pool[i] = mdarray<..other..>(pool[j])
  | moveCons (i j : Nat)                                          -- pool[i] = mdarray(std::move(pool[j]))
  | copyAssign (i j : Nat)                                        -- pool[i] = pool[j]
  | moveAssign (i j : Nat)                                        -- pool[i] = std::move(pool[j])
  | writeArr (i : Nat) (is : List Nat) (v : Int)                  -- pool[i](is...) = v
  | writeView (v : MdView) (is : List Nat) (x : Int)              -- v(is...) = x for a view obtained earlier

/-- a new object in slot `i` owning a freshly allocated buffer with contents `c` -/
def APool.construct (s : APool) (i : Nat) (L : Layout) (k : CtrKind) (c : List Int) (mv : Bool) : APool :=
  { slots := APool.putSlot s.slots i (some ⟨L, k, s.next, mv⟩)
    heap := s.heap.put s.next c
    next := s.next + 1 }

/-- slot `i` takes over the buffer of `sj` (slot `j`); `j` is left with a fresh empty buffer and
    its mapping (`std::vector` move) -/
def APool.steal (s : APool) (i j : Nat) (sj : ASlot) : APool :=
  { slots := APool.putSlot (APool.putSlot s.slots j (some { sj with cid := s.next, moved := true })) i (some sj)
    heap := s.heap.put s.next []
    next := s.next + 1 }

/-- the `std::array` member of `si` is overwritten element-wise with the contents of `sj`'s;
    its address does not change -/
def APool.overwrite (s : APool) (i : Nat) (si sj : ASlot) : APool :=
  { s with
    slots := APool.putSlot s.slots i (some { si with map := sj.map, moved := sj.moved })
    heap := s.heap.put si.cid (s.heap sj.cid) }

def APool.step (s : APool) : AOp → APool
  | .ofMapping i k L => s.construct i L k (List.replicate (k.initLen L.span) 0) false
  | .adopt i k L c => s.construct i L k c false
  | .copyCons i j =>
    match s.slots j with
    | some sj => s.construct i sj.map sj.kind (s.heap sj.cid) sj.moved
    | none => s
  | .convCons i j L' =>
    match s.slots j with
    | some sj => s.construct i L' sj.kind (s.heap sj.cid) sj.moved
    | none => s
  | .moveCons i j =>
    match s.slots j with
    | some sj =>
      match sj.kind with
      | .vector => s.steal i j sj
      | .array _ => s.construct i sj.map sj.kind (s.heap sj.cid) sj.moved
    | none => s
  | .copyAssign i j =>
    match s.slots i, s.slots j with
    | some si, some sj =>
      match si.kind with
      | .vector => s.construct i sj.map sj.kind (s.heap sj.cid) sj.moved   -- buffer reuse unspecified
      | .array _ => s.overwrite i si sj
    | _, _ => s
  | .moveAssign i j =>
    match s.slots i, s.slots j with
    | some si, some sj =>
      match si.kind with
      | .vector => s.steal i j sj
      | .array _ => s.overwrite i si sj
    | _, _ => s
  | .writeArr i is v =>
    match s.slots i with
    | some si => { s with heap := s.heap.put si.cid ((s.heap si.cid).set (si.map.offset is) v) }
    | none => s
  | .writeView v is x => { s with heap := MdView.set s.heap v is x }

def APool.run (s : APool) (ops : List AOp) : APool := ops.foldl APool.step s

end Mdspan
