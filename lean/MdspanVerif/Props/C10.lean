import MdspanVerif.Props.C09
import MdspanVerif.Props.C05
/-!
# C10 — a submdspan never points or reaches outside its source's span
-/
namespace Mdspan

theorem firsts_inB : ∀ (sls : List Slice) (es : List Nat), SlicesValid sls es →
    anyAtEnd sls es = false → InB (firsts sls) es
  | [], [], _, _ => trivial
  | sl :: sls, e :: es, hv, h => by
    simp only [anyAtEnd, Bool.or_eq_false_iff, beq_eq_false_iff_ne] at h
    refine ⟨?_, firsts_inB sls es hv.2 h.2⟩
    have h1 := h.1
    have hv0 := hv.1
    cases sl <;> simp [Slice.first, Slice.Valid] at * <;> omega
  | [], _ :: _, hv, _ => by simp [SlicesValid] at hv
  | _ :: _, [], hv, _ => by simp [SlicesValid] at hv

/-- **C10 (offset)**: the offset reported by submdspan_mapping never exceeds the source's
    required_span_size — including empty slices that start at the end of an extent. -/
theorem C10_offset_le (L : Layout) (hv : L.Valid) (sls : List Slice)
    (hsv : SlicesValid sls L.extents) : subOffset L sls ≤ L.span := by
  unfold subOffset
  by_cases h : anyAtEnd sls L.extents = true
  · simp [h]
  · simp only [h, Bool.false_eq_true, if_false]
    have hb := firsts_inB sls L.extents hsv (by simpa using h)
    exact Nat.le_of_lt (C01_range L hv _ hb)

/-- on the pinned tree the statement is false (F1): layout_right (3,4), slices [3,3) and [4,4) -/
example : subOffsetOrig (.right [3, 4]) [.range 3 3, .range 4 4] = 16 ∧ (Layout.right [3, 4]).span = 12 := by
  decide
example : subOffset (.right [3, 4]) [.range 3 3, .range 4 4] = 12 := by decide

theorem maxIdx_subExts_inB (sls : List Slice) (es : List Nat) (hpos : ∀ x ∈ subExts sls es, 0 < x) :
    InB (maxIdx (subExts sls es)) (subExts sls es) := maxIdx_inB _ hpos

theorem anyAtEnd_false_of_nonempty : ∀ (sls : List Slice) (es : List Nat), SlicesValid sls es →
    (∀ x ∈ subExts sls es, 0 < x) → anyAtEnd sls es = false
  | [], [], _, _ => rfl
  | sl :: sls, e :: es, hv, hpos => by
    have hv0 := hv.1
    simp only [anyAtEnd, Bool.or_eq_false_iff, beq_eq_false_iff_ne]
    simp only [subExts] at hpos
    cases hx : sl.ext e with
    | none =>
      simp only [hx] at hpos
      refine ⟨?_, anyAtEnd_false_of_nonempty sls es hv.2 hpos⟩
      have hi := (ext_none_iff sl e).mp hx
      cases sl <;> simp [Slice.isIdx] at hi
      simp [Slice.first, Slice.Valid] at *; omega
    | some x =>
      simp only [hx] at hpos
      have hxpos : 0 < x := hpos x (by simp)
      refine ⟨?_, anyAtEnd_false_of_nonempty sls es hv.2 (fun y hy => hpos y (by simp [hy]))⟩
      cases sl with
      | idx i => simp [Slice.ext] at hx
      | range b e' => simp [Slice.ext] at hx; simp [Slice.first, Slice.Valid] at *; omega
      | full => simp [Slice.ext] at hx; simp [Slice.first]; omega
      | strided o xx s =>
        simp only [Slice.ext, Option.some.injEq] at hx
        simp only [Slice.first, Slice.Valid] at *
        by_cases hxx : xx > 0
        · omega
        · simp [hxx] at hx; omega
  | [], _ :: _, hv, _ => by simp [SlicesValid] at hv
  | _ :: _, [], hv, _ => by simp [SlicesValid] at hv

end Mdspan
