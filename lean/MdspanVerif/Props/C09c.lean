import MdspanVerif.Model.SubTypes
import MdspanVerif.Props.C09b
/-!
# C09 — result rank, static extents and layout type of submdspan follow the slicing rules
-/
namespace Mdspan

theorem one_add_pred_div (x s : Nat) (hx : 0 < x) (hs : 0 < s) : 1 + (x - 1) / s = (x + s - 1) / s := by
  have h : x + s - 1 = (x - 1) + s := by omega
  rw [h, Nat.add_div_right _ hs]; omega

/-- one dimension: the metafunctions compute the rule's value (strided: for a positive stride,
    the only valid stride of a non-empty slice) -/
theorem C09_static1 (src : Option Nat) (k : SlK)
    (hs : ∀ x s, k = .strided (some x) (some s) → 0 < x → 0 < s) :
    Impl.subStatic1 src k = Spec.subStatic1 src k := by
  cases k with
  | idx => rfl
  | full => cases src <;> simp [Impl.subStatic1, Spec.subStatic1]
  | pair b e => cases b <;> cases e <;> simp [Impl.subStatic1, Spec.subStatic1]
  | strided x s =>
    cases x with
    | none => cases s <;> simp [Impl.subStatic1, Spec.subStatic1]
    | some x =>
      cases s with
      | none => simp [Impl.subStatic1, Spec.subStatic1]
      | some s =>
        simp only [Impl.subStatic1, Spec.subStatic1, Spec.ceilDiv]
        by_cases hx : x = 0
        · simp [hx]
        · have hx' : 0 < x := Nat.pos_of_ne_zero hx
          have := hs x s rfl hx'
          simp [hx, hx', one_add_pred_div x s hx' this]

def StridedOK (ks : List SlK) : Prop := ∀ k ∈ ks, ∀ x s, k = .strided (some x) (some s) → 0 < x → 0 < s

/-- **C09 (static extents)**: for source patterns and slice-type lists of every length the
    result pattern is the rule's, position by position -/
theorem C09_static : ∀ (ps : List (Option Nat)) (ks : List SlK), StridedOK ks →
    Impl.subStatic ps ks = Spec.subStatic ps ks
  | [], _, _ => by simp [Impl.subStatic, Spec.subStatic]
  | _ :: _, [], _ => by simp [Impl.subStatic, Spec.subStatic]
  | p :: ps, k :: ks, h => by
    have h1 := C09_static1 p k (fun x s hk hx => h k (List.mem_cons_self) x s hk hx)
    have h2 := C09_static ps ks (fun k' hk' => h k' (List.mem_cons_of_mem _ hk'))
    simp only [Impl.subStatic, Spec.subStatic, List.zip_cons_cons, List.filterMap_cons] at h2 ⊢
    rw [h1]
    cases Spec.subStatic1 p k <;> simp [h2]

theorem Spec.subRank_cons (k : SlK) (ks : List SlK) :
    Spec.subRank (k :: ks) = (if k.isIdx then 0 else 1) + Spec.subRank ks := by
  cases h : k.isIdx <;> simp [Spec.subRank, h] <;> omega

theorem Impl.subStatic_cons_length (p : Option Nat) (ps : List (Option Nat)) (k : SlK) (ks : List SlK) :
    (Impl.subStatic (p :: ps) (k :: ks)).length = (if k.isIdx then 0 else 1) + (Impl.subStatic ps ks).length := by
  cases k with
  | idx => simp [Impl.subStatic, Impl.subStatic1, SlK.isIdx]
  | full => cases p <;> simp [Impl.subStatic, Impl.subStatic1, SlK.isIdx] <;> omega
  | pair b e => cases b <;> cases e <;> simp [Impl.subStatic, Impl.subStatic1, SlK.isIdx] <;> omega
  | strided x s => cases x <;> cases s <;> simp [Impl.subStatic, Impl.subStatic1, SlK.isIdx] <;> omega

/-- **C09 (rank)**: the result rank is the number of non-index slices -/
theorem C09_rank : ∀ (ps : List (Option Nat)) (ks : List SlK), ps.length = ks.length →
    (Impl.subStatic ps ks).length = Spec.subRank ks
  | [], [], _ => rfl
  | [], _ :: _, h => by simp at h
  | _ :: _, [], h => by simp at h
  | p :: ps, k :: ks, h => by
    rw [Impl.subStatic_cons_length, Spec.subRank_cons, C09_rank ps ks (by simpa using h)]

/-- the prose rule for the layout type -/
def Spec.subLayout (src : LayoutK) (ks : List SlK) : LayoutK :=
  match src with
  | .left => if presLeftSpec (ks.map SlK.toSlice) then .left else .stride
  | .right => if presRightSpec (ks.map SlK.toSlice) then .right else .stride
  | .stride => .stride

/-- **C09 (layout)**: layout_left / layout_right is kept exactly for `full* (full|pair)? index*`
    resp. `index* (full|pair)? full*`; everything else, and every layout_stride source, gives
    layout_stride — for every rank -/
theorem C09_layout (src : LayoutK) (ks : List SlK) : Impl.subLayout src ks = Spec.subLayout src ks := by
  cases src with
  | left => simp [Impl.subLayout, Spec.subLayout, C09_preserveLeft]
  | right => simp [Impl.subLayout, Spec.subLayout, C09_preserveRight]
  | stride => rfl

/-! Non-vacuity and the F5 shape: `strided_slice<_, IC<5>, IC<2>>` has the static extent 3. -/
example : Impl.subStatic [some 10, none, some 7] [.full, .strided (some 5) (some 2), .idx] = [some 10, some 3] := by decide
example : Impl.subLayout .left [.full, .pair none none, .idx] = .left := by decide
example : Impl.subLayout .left [.pair none none, .full] = .stride := by decide
example : Impl.subLayout .right [.idx, .pair (some 1) (some 3), .full] = .right := by decide

end Mdspan
