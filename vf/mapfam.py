"""The `map` op family: generators, execution on the op server and on the model driver, and the
property oracles (the statements of C01/C02/C05/C07/C14 made executable on the implementation's
own outputs).  Shared by the checks of those properties."""
import itertools, random, math, json
from . import common as C
import harness.gen_map as G

def chain_strides(rnd, ext, gaps=(1, 1, 2, 3)):
    r = len(ext); perm = list(range(r)); rnd.shuffle(perm); s = [0] * r; cur = 1
    for d in perm:
        cur *= rnd.choice(gaps); s[d] = cur; cur *= max(ext[d], 1)
    return s

class Case:
    __slots__ = ('inst', 'ext', 'str', 'pv', 'stream', 'ops', 'impl', 'model', 'adm', 'idx_complete', 'pt')
    def __init__(self, inst, ext, strides=None, pv=None, stream=''):
        self.inst, self.ext, self.str, self.pv, self.stream = inst, list(ext), strides, pv, stream
        self.ops = []; self.impl = []; self.model = []; self.adm = None; self.idx_complete = False
        self.pt = None      # C++ type of the padding argument (None: index_type)
    @property
    def kind(self): return self.inst[0]
    @property
    def T(self): return self.inst[1]
    def base(self):
        s = G.line_prefix(self.inst) + ' ext=%s' % C.fmt(self.ext)
        if self.str is not None: s += ' str=%s' % C.fmt(self.str)
        if self.pv is not None: s += ' pv=%d' % self.pv
        if self.pt is not None: s += ' pt=%s' % self.pt
        return s
    def pub(self):
        return dict(line=self.base(), kind=self.kind, index_type=self.T, pattern=G.pat_str(self.inst[2]), static_padding=self.inst[3],
                    extents=self.ext, strides=self.str, padding=self.pv, padding_argument_type=self.pt, stream=self.stream)
    def out(self, op, arg=None, side='impl'):
        for (o, a), x in zip(self.ops, getattr(self, side)):
            if o == op and (arg is None or a == arg): return x
        return None

def val(s):
    if s is None or not s.startswith('ok '): return None
    t = s[3:]
    return int(t) if ',' not in t and t != '-' else t
def vals(s):
    if s is None or not s.startswith('ok '): return None
    t = s[3:].strip()
    return [] if t == '-' else [int(x) for x in t.split(',')]
def canon(s):
    return 'ub' if s.startswith('ub') else s

def all_indices(ext):
    return [list(i) for i in itertools.product(*[range(e) for e in ext])]

def ext_choices(pat, small):
    return [([p] if p is not None else list(small)) for p in pat]

def gen_cases(seed, tier, insts):
    rnd = random.Random(seed); cases = []
    thorough = tier == 'thorough'
    std_ops = [('span', None), ('strides', None), ('stridesarr', None), ('flags', None), ('ext', None), ('cvs', None)]
    def variants(inst, ext, nstr, stream):
        kind, t, pat, sp = inst; out = []
        if kind == 'stride':
            for k in range(nstr):
                out.append(Case(inst, ext, strides=chain_strides(rnd, ext, (1, 1, 2, 3) if k else (1,)), stream=stream))
        elif kind in ('lpad', 'rpad'):
            if sp == 'D':
                out.append(Case(inst, ext, stream=stream))
                for pv in rnd.sample(range(1, 6), 2 if not thorough else 3):
                    c_ = Case(inst, ext, pv=pv, stream=stream); c_.pt = rnd.choice([None, None, 'u8', 'i16', 'i64', 'u64']); out.append(c_)
            else:
                out.append(Case(inst, ext, stream=stream))
                if rnd.random() < 0.3: out.append(Case(inst, ext, pv=sp, stream=stream))
        else: out.append(Case(inst, ext, stream=stream))
        return out
    # ---- exhaustive-small
    for inst in insts:
        kind, t, pat, sp = inst; r = len(pat)
        if r > (4 if thorough else 3): continue
        exts = list(itertools.product(*ext_choices(pat, range(0, 4))))
        cap = {0: 1, 1: 4, 2: 16, 3: 20, 4: 24}[r] if not thorough else {0: 1, 1: 4, 2: 16, 3: 64, 4: 64}[r]
        if len(exts) > cap: exts = rnd.sample(exts, cap)
        for ext in exts:
            for c in variants(inst, ext, 2 if not thorough else 4, 'exhaustive-small'):
                if c.str is not None and max(c.str + [0]) > C.hi(t): continue      # every value of an op line must be a value of the index type
                c.ops = list(std_ops)
                if r > 0:
                    for k in range(r): c.ops.append(('stride', str(k)))
                if C.prod(ext) > 4096:      # large static extents: corners, unit vectors and a sample
                    idx = [[0] * r, [e - 1 for e in ext]] + [[1 if k == j else 0 for k in range(r)] for j in range(r) if ext[j] > 1] + [[rnd.randrange(e) for e in ext] for _ in range(24)]
                else:
                    idx = all_indices(ext)
                    if len(idx) > 81: idx = rnd.sample(idx, 81)
                    else: c.idx_complete = True
                for i in idx: c.ops.append(('off', C.fmt(i)))
                cases.append(c)
    # ---- default construction (one line per instantiation)
    for inst in insts:
        c = Case(inst, [p if p is not None else 0 for p in inst[2]], strides=[0] * len(inst[2]) if inst[0] == 'stride' else None, stream='default-ctor')
        c.ops = [('dflt', None)]
        if all(p is not None and p > 0 for p in inst[2]) and inst[2]:      # all-static, non-empty: the default mapping has elements
            ext = list(inst[2]); r = len(ext)
            if C.prod(ext) > 81: idx = [[0] * r, [e - 1 for e in ext]] + [[1 if k == j else 0 for k in range(r)] for j in range(r) if ext[j] > 1] + [[rnd.randrange(e) for e in ext] for _ in range(12)]
            else: idx = all_indices(ext); c.idx_complete = True
            seen = set()
            for i in idx:
                if tuple(i) not in seen: seen.add(tuple(i)); c.ops.append(('dfltoff', C.fmt(i)))
        cases.append(c)
    # ---- boundary lattice (admissible and beyond)
    dyn = {}
    for inst in insts:
        if all(p is None for p in inst[2]) and inst[3] in (None, 'D'): dyn[(inst[0], inst[1], len(inst[2]))] = inst
    nb = 60 if not thorough else 600
    for t in C.ITYPES:
        H = C.hi(t)
        for _ in range(nb):
            r = rnd.randint(1, 4 if thorough else 3)
            target = rnd.choice([H, H + 1, H // 2, H * 2, H - 1, math.isqrt(H) ** 2, H // 3, H])
            ext = []; rem = max(target, 1)
            for k in range(r - 1):
                e = rnd.randint(1, max(1, min(int(rem ** (1.0 / (r - k))) * 2, H))); ext.append(e); rem = max(rem // e, 1)
            ext.append(max(1, min(rem, H))); rnd.shuffle(ext)
            if rnd.random() < 0.15: ext[rnd.randrange(r)] = 0
            if rnd.random() < 0.2: ext[rnd.randrange(r)] = 1
            nonempty = all(e > 0 for e in ext)
            idxs = []
            if nonempty: idxs = [[rnd.randrange(e) for e in ext], [e - 1 for e in ext], [0] * r]
            for kind in ('left', 'right', 'stride', 'lpad', 'rpad'):
                inst = dyn.get((kind, t, r))
                if inst is None: continue
                if kind == 'stride':
                    st = chain_strides(rnd, ext)
                    if rnd.random() < 0.3:      # one-element dimensions with huge strides
                        for k in range(r):
                            if ext[k] <= 1: st[k] = rnd.choice([H, H - 1, H // 2 + 1])
                    if max(st) > H: continue
                    c = Case(inst, ext, strides=st, stream='boundary')
                elif kind in ('lpad', 'rpad'):
                    pe = ext[0] if kind == 'lpad' else ext[-1]
                    pv = rnd.choice([1, 2, max(pe, 1), max(1, min(H, pe + 1)), rnd.randint(1, max(1, min(H, pe * 2))), max(1, pe // 2 + 1)])
                    c = Case(inst, ext, pv=pv, stream='boundary')
                else: c = Case(inst, ext, stream='boundary')
                c.ops = [('span', None), ('strides', None), ('stridesarr', None), ('flags', None)] + [('off', C.fmt(i)) for i in idxs]
                cases.append(c)
    # ---- layout_stride with one large gap: the outermost stride is chosen so that stride*extent is congruent to the
    #      element count modulo 2^bits (a product that wraps onto the "exhaustive" value) while the span stays representable
    for t in C.ITYPES:
        H = C.hi(t); bits = C.ITYPES[t][0]
        for r in (2, 3):
            inst = dyn.get(('stride', t, r))
            if inst is None: continue
            for ext in itertools.product((2, 3, 4), repeat=r):
                ext = list(ext); n = C.prod(ext)
                for m in ((1 << bits), (1 << (bits - 1))):
                    if (m + n) % ext[-1]: continue
                    big = (m + n) // ext[-1]; st = [C.prod(ext[:k]) for k in range(r - 1)] + [big]
                    if big > H or 1 + sum((e - 1) * x for e, x in zip(ext, st)) > H or big < C.prod(ext[:-1]): continue
                    c = Case(inst, ext, strides=st, stream='wrap-congruent-gap'); c.idx_complete = True
                    c.ops = [('span', None), ('strides', None), ('flags', None)] + [('off', C.fmt(i)) for i in all_indices(ext)]
                    cases.append(c)
    # ---- layout_stride over an EMPTY index space with several zero / one extents whose strides are at the top of the type: admissible
    #      (zero extents count as one: the span is 1 + the contribution of the remaining dimensions), yet every discarded partial sum is huge
    for t in C.ITYPES:
        H = C.hi(t)
        for r in (2, 3, 4):
            inst = dyn.get(('stride', t, r))
            if inst is None: continue
            for _ in range(6 if not thorough else 40):
                ext = [rnd.choice([0, 0, 1]) for _ in range(r)]
                if ext.count(0) < 2: ext[0] = ext[-1] = 0
                k = rnd.randrange(r)
                if rnd.random() < 0.5: ext[k] = rnd.choice([2, 3])
                st = [rnd.choice([H, H - 1, H // 2 + 1, H // 2 + 2]) if e <= 1 else 1 for e in ext]
                c = Case(inst, ext, strides=st, stream='empty-huge-strides')
                c.ops = [('span', None), ('strides', None), ('stridesarr', None), ('flags', None), ('cvs', None)]
                cases.append(c)
    # ---- layout_stride mappings that are valid only BECAUSE an extent is zero (the standard's permutation condition is vacuous after a zero
    #      extent): the product of the extents is far beyond the index type, the span size with zero extents counted as one is small
    for t in C.ITYPES:
        H = C.hi(t); b = math.isqrt(H) + rnd.randint(2, 40)
        inst = dyn.get(('stride', t, 3))
        if inst is None or 1 + 2 * (b - 1) + 1 > H or b > H: continue
        for zpos in (0, 1, 2):
            ext = [b, b, b]; ext[zpos] = 0; st = [1, 1, 1]; st[zpos] = b
            c = Case(inst, ext, strides=st, stream='valid-because-empty')
            c.ops = [('span', None), ('strides', None), ('flags', None)]
            cases.append(c)
    # ---- padding argument of a NARROWER type than index_type while the extent to pad is beyond that type's range
    for t, pt, big in (('i32', 'u8', 300), ('i32', 'i16', 40000), ('u32', 'u8', 257), ('i64', 'i32', 2 ** 32 + 5), ('u64', 'i16', 70000), ('u16', 'u8', 1000), ('i64', 'u8', 2 ** 40 + 3)):
        for r in (2, 3):
            for kind in ('lpad', 'rpad'):
                inst = dyn.get((kind, t, r))
                if inst is None: continue
                for pv in (8, 3, 1, 100):
                    others = [rnd.choice([1, 2, 3]) for _ in range(r - 1)]
                    ext = [big] + others if kind == 'lpad' else others + [big]
                    c = Case(inst, ext, pv=pv, stream='pad-argument-type'); c.pt = pt
                    idxs = [[x - 1 for x in ext], [0] * r] + [[1 if k == j else 0 for k in range(r)] for j in range(r) if ext[j] > 1]
                    c.ops = [('span', None), ('strides', None), ('stridesarr', None), ('flags', None), ('cvs', None)] + [('off', C.fmt(i)) for i in idxs]
                    cases.append(c)
    # ---- padded boundary: extent-to-pad and padding near the top of the type, other extents 0/1/2
    for t in C.ITYPES:
        H = C.hi(t)
        for _ in range(24 if not thorough else 200):
            r = rnd.randint(2, 3)
            e = rnd.choice([H // 2 + 1, H // 2, H // 3 + 1, H - 1, H, H // 2 + 2, H // 4 + 1])
            pv = max(1, rnd.choice([e, e - 1, (e + 1) // 2, H // 2 + 1, 2, 1, e // 3 + 1, H]))
            others = [rnd.choice([1, 1, 1, 2, 0]) for _ in range(r - 1)]
            for kind in ('lpad', 'rpad'):
                inst = dyn.get((kind, t, r))
                if inst is None: continue
                ext = [e] + others if kind == 'lpad' else others + [e]
                c = Case(inst, ext, pv=pv, stream='boundary-padded')
                idxs = [[x - 1 for x in ext], [0] * r] + [[1 if (k == j and ext[k] > 1) else 0 for k in range(r)] for j in range(r)] if all(x > 0 for x in ext) else []
                c.ops = [('span', None), ('strides', None), ('stridesarr', None), ('flags', None)] + [('off', C.fmt(i)) for i in idxs]
                cases.append(c)
    # ---- random structured, higher rank
    nr = 150 if not thorough else 2500
    keys = sorted(dyn)
    for _ in range(nr):
        kind, t, r = rnd.choice(keys); inst = dyn[(kind, t, r)]; H = C.hi(t)
        budget = H if rnd.random() < 0.8 else H * 4
        ext = []; rem = budget
        for k in range(r):
            e = max(0, min(H, int(math.exp(rnd.uniform(0, math.log(max(rem, 1)) / max(1, r - k) * 1.6))))) if rem > 1 else rnd.choice([0, 1, 1])
            ext.append(e); rem = max(rem // max(e, 1), 1)
        rnd.shuffle(ext)
        nonempty = all(e > 0 for e in ext)
        idxs = [[rnd.randrange(e) for e in ext] for _ in range(3)] + [[e - 1 for e in ext]] if nonempty else []
        for c in variants(inst, ext, 1, 'random'):
            if c.str is not None:
                c.str = chain_strides(rnd, ext)
                if max(c.str + [0]) > H: continue
            c.ops = [('span', None), ('strides', None), ('flags', None)] + [('off', C.fmt(i)) for i in idxs]
            cases.append(c)
    return cases

def build_server(config='gcc20-ubsan', cxx14=False):
    insts = G.instances(cxx14=cxx14)
    exe, secs, cached = C.cxx_build('mapsrv', G.sources(insts), config=config)
    return insts, exe, secs, cached

def run_cases(cases, exe):
    impl_lines = []; model_lines = []
    for c in cases:
        b = c.base()
        model_lines.append(b + ' adm')
        for op, arg in c.ops:
            l = b + ' ' + op + ((' ' + arg) if arg is not None else '')
            impl_lines.append(l); model_lines.append(l)
    iout = C.pipe(exe, impl_lines); mout = C.driver(model_lines)
    pi = pm = 0
    for c in cases:
        c.adm = (mout[pm] == 'ok 1'); pm += 1
        n = len(c.ops)
        c.impl = [canon(x) for x in iout[pi:pi + n]]; c.model = [canon(x) for x in mout[pm:pm + n]]
        pi += n; pm += n
    return len(impl_lines)

def prop_adm_stride(c):
    """admissibility of a layout_stride mapping read literally from the property text and the standard's precondition: positive strides,
    a permutation P with stride(P_i) >= stride(P_{i-1}) * extent(P_{i-1}) (actual extents: a zero extent makes the next condition vacuous),
    every value and the span size with zero extents counted as one representable.  Weaker than the model's Layout.admB (which counts
    zero extents as one in the permutation condition too); used only to judge a trap the model does not predict."""
    if c.kind != 'stride' or c.str is None: return False
    H = C.hi(c.T); e, s = c.ext, c.str; r = len(e)
    if r > 6 or any(x <= 0 for x in s) or any(x > H for x in list(e) + list(s)): return False
    if 1 + sum((max(x, 1) - 1) * y for x, y in zip(e, s)) > H: return False
    for P in itertools.permutations(range(r)):
        if all(s[P[i]] >= s[P[i - 1]] * e[P[i - 1]] for i in range(1, r)): return True
    return False

# ------------------------------------------------------------------ property oracles on the implementation
def least_multiple(p, e):
    return 0 if p == 0 else -(-e // p) * p

def spec_padded_stride(c):
    """the padded stride the *specification* prescribes for this construction (None if rank<2)"""
    kind, t, pat, sp = c.inst
    r = len(c.ext)
    if r < 2: return None
    e = c.ext[0] if kind == 'lpad' else c.ext[-1]
    if c.pv is not None: return least_multiple(c.pv, e)
    if sp == 'D': return e
    return least_multiple(sp, e)

def spec_strides(c):
    """S_r of the property statement C02"""
    kind = c.kind; e = c.ext; r = len(e)
    if kind == 'left': return [C.prod(e[:k]) for k in range(r)]
    if kind == 'right': return [C.prod(e[k + 1:]) for k in range(r)]
    if kind == 'stride': return list(c.str)
    ps = spec_padded_stride(c)
    if r < 2: return [1] * r
    if kind == 'lpad':
        ee = [ps] + e[1:]; return [C.prod(ee[:k]) for k in range(r)]
    ee = e[:-1] + [ps]; return [C.prod(ee[k + 1:]) for k in range(r)]

def offsets_of(c, side='impl'):
    """[(idx list, offset or None)] of the `off` ops"""
    res = []; seen = set()
    for (op, arg), x in zip(c.ops, getattr(c, side)):
        if op == 'off' and arg not in seen:       # the same multi-index may be listed twice (max index == origin for extents of 1)
            seen.add(arg); res.append(([] if arg == '-' else [int(v) for v in arg.split(',')], val(x)))
    return res
