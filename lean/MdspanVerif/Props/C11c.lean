import MdspanVerif.Props.C11b
/-!
# C11 — histories never invent or alter a view

Whatever sequence of construction, copy, move, assignment, move-assignment and swap operations is
applied to a pool of views, every view present at the end is *exactly* (all three components) one of
the views supplied to a constructor during the history, or a view that was in the pool at the
start.  Together with `C11_run` (the stored pairs are read back as the triples) this is "every
multi-index designates the same element as in the source" for arbitrary histories: no operation
changes a handle, a mapping or an accessor, and none creates a combination that was never supplied.
-/
namespace Mdspan

section
variable {H M A : Type}

/-- the views supplied to constructors during a history -/
def consOf : List (POp H M A) → List (MdsView H M A)
  | [] => []
  | .cons _ v :: ops => v :: consOf ops
  | _ :: ops => consOf ops

/-- every element of the pool comes from `srcs` -/
def PoolFrom (p : Pool H M A) (srcs : List (MdsView H M A)) : Prop :=
  ∀ i v, Pool.at p i = some v → v ∈ srcs

theorem Pool.at_put (p : Pool H M A) (i k : Nat) (x : Option (MdsView H M A)) :
    Pool.at (Pool.put p i x) k = if k = i ∧ i < p.length then x else Pool.at p k := by
  unfold Pool.at Pool.put
  by_cases hk : k = i
  · subst hk
    by_cases hi : k < p.length
    · simp [hi]
    · have hle : p.length ≤ k := Nat.le_of_not_lt hi
      simp [hi]
  · have : ¬ (k = i ∧ i < p.length) := fun h => hk h.1
    simp [this, Ne.symm hk]

theorem poolFrom_put (p : Pool H M A) (srcs : List (MdsView H M A)) (hp : PoolFrom p srcs) (i : Nat)
    (x : Option (MdsView H M A)) (hx : ∀ v, x = some v → v ∈ srcs) : PoolFrom (Pool.put p i x) srcs := by
  intro k v hv
  rw [Pool.at_put] at hv
  split at hv
  · exact hx v hv
  · exact hp k v hv

theorem poolFrom_mono (p : Pool H M A) (a b : List (MdsView H M A)) (hp : PoolFrom p a) (hab : ∀ v ∈ a, v ∈ b) :
    PoolFrom p b := fun i v h => hab v (hp i v h)

/-- one step keeps the invariant, with the constructed view added to the sources -/
theorem poolFrom_step (p : Pool H M A) (srcs : List (MdsView H M A)) (hp : PoolFrom p srcs) (op : POp H M A) :
    PoolFrom (Pool.step p op) (consOf [op] ++ srcs) := by
  cases op with
  | cons i v =>
    simp only [consOf, List.cons_append, List.nil_append, Pool.step]
    exact poolFrom_put p _ (poolFrom_mono p _ _ hp (fun w hw => List.mem_cons_of_mem _ hw)) i (some v)
      (fun w hw => by cases hw; exact List.mem_cons_self)
  | copy i j => exact poolFrom_put p _ hp i _ (fun w hw => hp j w hw)
  | move i j => exact poolFrom_put p _ hp i _ (fun w hw => hp j w hw)
  | assign i j => exact poolFrom_put p _ hp i _ (fun w hw => hp j w hw)
  | moveAssign i j => exact poolFrom_put p _ hp i _ (fun w hw => hp j w hw)
  | swap i j =>
    simp only [consOf, List.nil_append, Pool.step]
    exact poolFrom_put _ _ (poolFrom_put p _ hp i _ (fun w hw => hp j w hw)) j _ (fun w hw => hp i w hw)

theorem consOf_cons (op : POp H M A) (ops : List (POp H M A)) : consOf (op :: ops) = consOf [op] ++ consOf ops := by
  cases op <;> simp [consOf]

/-- **C11 (histories)**: after any sequence of operations every view in the pool is one that was
    supplied to a constructor during the sequence, or one the pool held before. -/
theorem C11_history_origin (ops : List (POp H M A)) (p : Pool H M A) (srcs : List (MdsView H M A))
    (hp : PoolFrom p srcs) : PoolFrom (Pool.run p ops) (consOf ops ++ srcs) := by
  induction ops generalizing p srcs with
  | nil => simpa [Pool.run, consOf] using hp
  | cons op ops ih =>
    have h1 := poolFrom_step p srcs hp op
    have h2 := ih (Pool.step p op) (consOf [op] ++ srcs) h1
    simp only [Pool.run, List.foldl] at h2 ⊢
    refine poolFrom_mono _ _ _ h2 (fun v hv => ?_)
    rw [consOf_cons]
    simp only [List.mem_append] at hv ⊢
    rcases hv with h | h | h
    · exact Or.inl (Or.inr h)
    · exact Or.inl (Or.inl h)
    · exact Or.inr h

/-- starting from an empty pool: every view is one that was constructed -/
theorem C11_history_from_empty (ops : List (POp H M A)) (n : Nat) (i : Nat) (v : MdsView H M A)
    (h : Pool.at (Pool.run (List.replicate n none) ops) i = some v) : v ∈ consOf ops := by
  have hp : PoolFrom (List.replicate n (none : Option (MdsView H M A))) [] := by
    intro k w hw
    unfold Pool.at at hw
    rw [List.getElem?_replicate] at hw
    split at hw <;> simp at hw
  have := C11_history_origin ops _ [] hp i v h
  simpa using this
end

/-- non-vacuity: a history with two constructions, an assignment and a swap -/
example : Pool.at (Pool.run [none, none, none]
    [.cons 0 (⟨10, 1, 7⟩ : MdsView Nat Nat Nat), .cons 1 ⟨20, 2, 8⟩, .assign 2 0, .swap 2 1]) 1 = some ⟨10, 1, 7⟩ := by
  decide

end Mdspan
