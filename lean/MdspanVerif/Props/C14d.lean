import MdspanVerif.Props.C14c
/-!
# C14 — layout_stride::required_span_size (early return, zero extents counted as one)
-/
namespace Mdspan

theorem subTi_ok (T : ITy) (e : Nat) (he0 : 0 < e) (he : (e : Int) ≤ T.hi) :
    V.sub ⟨T, e⟩ ⟨.i32, 1⟩ = .ok ⟨T.promote, ((e - 1 : Nat) : Int)⟩ := by
  have hp := T.hi_le_promote
  have h1 : (1 : Int) ≤ T.promote.hi := by cases T <;> decide
  have hcast : ((e - 1 : Nat) : Int) = (e : Int) - 1 := by omega
  have := V.arith_ok (· - ·) ⟨T, e⟩ ⟨.i32, 1⟩ (Int.natCast_nonneg _)
    (by rw [ITy.common_i32_right]; exact Int.le_trans he hp) (by decide)
    (by rw [ITy.common_i32_right]; exact h1)
    (by show 0 ≤ (e : Int) - 1; omega)
    (by rw [ITy.common_i32_right]; show (e : Int) - 1 ≤ T.promote.hi; omega)
  rw [hcast]
  simpa only [V.sub, ITy.common_i32_right] using this

theorem addTP_ok (T : ITy) (a b : Nat) (ha : (a : Int) ≤ T.hi) (h : ((a + b : Nat) : Int) ≤ T.hi) :
    V.add ⟨T, a⟩ ⟨T.promote, b⟩ = .ok ⟨T.promote, ((a + b : Nat) : Int)⟩ := by
  have hp := T.hi_le_promote
  have hab : ((a + b : Nat) : Int) = (a : Int) + b := by simp
  have := V.arith_ok (· + ·) ⟨T, a⟩ ⟨T.promote, b⟩ (Int.natCast_nonneg _)
    (by rw [ITy.common_promote_right]; exact Int.le_trans ha hp)
    (Int.natCast_nonneg _) (by rw [ITy.common_promote_right]; show (b : Int) ≤ T.promote.hi; omega)
    (by show 0 ≤ (a : Int) + b; omega) (by rw [ITy.common_promote_right]; show (a : Int) + b ≤ T.promote.hi; omega)
  rw [hab]
  simpa only [V.add, ITy.common_promote_right] using this

theorem spanStrideGoM_refines (T : ITy) : ∀ (acc : Nat) (es ss : List Nat), es.length = ss.length →
    (∀ e ∈ es, (e : Int) ≤ T.hi) → (∀ s ∈ ss, (s : Int) ≤ T.hi) →
    ((acc + spanM1 (List.zip es ss) : Nat) : Int) ≤ T.hi →
    spanStrideGoM T acc (toI es) (toI ss) = .ok ((spanStrideGo acc es ss : Nat) : Int)
  | acc, [], [], _, _, _, _ => by simp [spanStrideGoM, spanStrideGo]; rfl
  | acc, e :: es, s :: ss, hl, hre, hrs, hadm => by
    have hl' : es.length = ss.length := by simpa using hl
    have he := hre e (by simp)
    have hs := hrs s (by simp)
    simp only [List.zip_cons_cons, spanM1] at hadm
    show spanStrideGoM T acc ((e : Int) :: toI es) ((s : Int) :: toI ss) = _
    unfold spanStrideGoM
    by_cases he0 : e = 0
    · subst he0; simp [spanStrideGo]; rfl
    · have heI : ¬ ((e : Int) = 0) := by omega
      have hepos : 0 < e := Nat.pos_of_ne_zero he0
      simp only [heI, if_false, spanStrideGo, he0]
      rw [subTi_ok T e hepos he]
      simp only [bind, Except.bind]
      have hem1 : ((e - 1 : Nat) : Int) ≤ T.hi := by omega
      rw [narrow_id T _ _ hem1]
      have hterm : (((e - 1) * s : Nat) : Int) ≤ T.hi := by
        have : (((e - 1) * s : Nat) : Int) ≤ ((acc + ((e - 1) * s + spanM1 (List.zip es ss)) : Nat) : Int) :=
          Int.ofNat_le.mpr (by omega)
        omega
      rw [mulT_ok T (e - 1) s hem1 hs hterm]
      simp only
      have hsum : ((acc + (e - 1) * s : Nat) : Int) ≤ T.hi := by
        have : ((acc + (e - 1) * s : Nat) : Int) ≤ ((acc + ((e - 1) * s + spanM1 (List.zip es ss)) : Nat) : Int) :=
          Int.ofNat_le.mpr (by omega)
        omega
      have hacc : (acc : Int) ≤ T.hi := by
        have : (acc : Int) ≤ ((acc + (e - 1) * s : Nat) : Int) := Int.ofNat_le.mpr (by omega)
        omega
      rw [addTP_ok T acc ((e - 1) * s) hacc hsum]
      simp only
      rw [narrow_id T _ _ hsum]
      exact spanStrideGoM_refines T (acc + (e - 1) * s) es ss hl'
        (fun x hx => hre x (List.mem_cons_of_mem _ hx)) (fun x hx => hrs x (List.mem_cons_of_mem _ hx))
        (by have : ((acc + (e - 1) * s + spanM1 (List.zip es ss) : Nat) : Int) =
              ((acc + ((e - 1) * s + spanM1 (List.zip es ss)) : Nat) : Int) := by congr 1; omega
            omega)
  | _, [], _ :: _, hl, _, _, _ => by simp at hl
  | _, _ :: _, [], hl, _, _, _ => by simp at hl

/-- **C14, layout_stride::required_span_size**: no UB and the exact value whenever
    `1 + Σ (max(e,1) - 1)·s` — the span with zero extents counted as one — is representable. -/
theorem C14_span_stride (T : ITy) (es ss : List Nat) (hl : es.length = ss.length)
    (hre : ∀ e ∈ es, (e : Int) ≤ T.hi) (hrs : ∀ s ∈ ss, (s : Int) ≤ T.hi)
    (hadm : ((1 + spanM1 (List.zip es ss) : Nat) : Int) ≤ T.hi) :
    spanStrideM T (toI es) (toI ss) = .ok (((Layout.stride es ss).span : Nat) : Int) :=
  spanStrideGoM_refines T 1 es ss hl hre hrs hadm

end Mdspan
