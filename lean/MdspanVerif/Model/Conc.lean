/-!
# Memory, events and schedules (C19)

An event is one element access performed by a thread through a view; its address is
`handle + offset(mapping, idx)`, a pure function of immutable view state.  A schedule is the
global order in which events happen; the per-thread program is the subsequence of a thread.
-/
namespace Mdspan

abbrev Mem := Nat → Int

structure Ev where
  tid : Nat
  isWrite : Bool
  addr : Nat
  val : Int
deriving DecidableEq, Repr

def upd (m : Mem) (a : Nat) (v : Int) : Mem := fun x => if x = a then v else m x

def stepMem (m : Mem) (e : Ev) : Mem := if e.isWrite then upd m e.addr e.val else m

def runMem (m : Mem) : List Ev → Mem
  | [] => m
  | e :: s => runMem (stepMem m e) s

/-- what thread `t` reads, in its program order -/
def readLog (t : Nat) : Mem → List Ev → List Int
  | _, [] => []
  | m, e :: s =>
    if e.tid = t ∧ e.isWrite = false then m e.addr :: readLog t (stepMem m e) s
    else readLog t (stepMem m e) s

/-- the program of thread `t` -/
def prog (t : Nat) (s : List Ev) : List Ev := s.filter (fun e => e.tid = t)

/-- no thread writes an address that another thread accesses (disjoint index sets give this,
    by injectivity of the mapping: C01, and by the aliasing theorem for sub-views: C04) -/
def RaceFree (s : List Ev) : Prop :=
  ∀ e1 ∈ s, ∀ e2 ∈ s, e1.isWrite = true → e1.addr = e2.addr → e1.tid = e2.tid

theorem raceFree_tail {e : Ev} {s : List Ev} (h : RaceFree (e :: s)) : RaceFree s :=
  fun e1 h1 e2 h2 => h e1 (List.mem_cons_of_mem _ h1) e2 (List.mem_cons_of_mem _ h2)

/-- **isolation**: under race freedom every thread reads exactly what it would read running
    alone on any memory that agrees with the real one on the addresses it accesses -/
theorem readLog_isolated (t : Nat) : ∀ (s : List Ev) (m1 m2 : Mem), RaceFree s →
    (∀ e ∈ s, e.tid = t → m1 e.addr = m2 e.addr) →
    readLog t m1 s = readLog t m2 (prog t s)
  | [], _, _, _, _ => rfl
  | e :: s, m1, m2, hr, hag => by
    by_cases ht : e.tid = t
    · -- own event: both sides execute it
      have hfil : prog t (e :: s) = e :: prog t s := by simp [prog, ht]
      rw [hfil]
      have hnext : ∀ e' ∈ s, e'.tid = t → stepMem m1 e e'.addr = stepMem m2 e e'.addr := by
        intro e' he' ht'
        have := hag e' (List.mem_cons_of_mem _ he') ht'
        unfold stepMem upd
        split <;> simp [this]
      have ih := readLog_isolated t s (stepMem m1 e) (stepMem m2 e) (raceFree_tail hr) hnext
      simp only [readLog, ht, true_and]
      split
      · rw [hag e (by simp) ht, ih]
      · exact ih
    · -- foreign event: it cannot write anything thread t accesses later
      have hfil : prog t (e :: s) = prog t s := by simp [prog, ht]
      rw [hfil]
      have hnext : ∀ e' ∈ s, e'.tid = t → stepMem m1 e e'.addr = m2 e'.addr := by
        intro e' he' ht'
        have hbase := hag e' (List.mem_cons_of_mem _ he') ht'
        unfold stepMem upd
        by_cases hw : e.isWrite = true
        · simp only [hw, if_true]
          by_cases ha : e'.addr = e.addr
          · exfalso
            have := hr e (by simp) e' (List.mem_cons_of_mem _ he') hw ha.symm
            exact ht (this.trans ht')
          · simp [ha, hbase]
        · simp [hw, hbase]
      have ih := readLog_isolated t s (stepMem m1 e) m2 (raceFree_tail hr) hnext
      simp only [readLog, ht, false_and, if_false]
      exact ih

/-- **schedule independence of what every thread observes**: two schedules of the same
    per-thread programs give every thread the same read results -/
theorem readLog_schedule_indep (t : Nat) (s1 s2 : List Ev) (m : Mem)
    (h1 : RaceFree s1) (h2 : RaceFree s2) (hp : prog t s1 = prog t s2) :
    readLog t m s1 = readLog t m s2 := by
  rw [readLog_isolated t s1 m m h1 (fun _ _ _ => rfl),
    readLog_isolated t s2 m m h2 (fun _ _ _ => rfl), hp]

/-- last value written to `a`, if any -/
def lastW (a : Nat) : List Ev → Option Int
  | [] => none
  | e :: s => match lastW a s with
    | some v => some v
    | none => if e.isWrite = true ∧ e.addr = a then some e.val else none

theorem runMem_eq (a : Nat) : ∀ (s : List Ev) (m : Mem), runMem m s a = (lastW a s).getD (m a)
  | [], m => rfl
  | e :: s, m => by
    simp only [runMem, lastW]
    rw [runMem_eq a s (stepMem m e)]
    cases h : lastW a s with
    | some v => simp
    | none =>
      simp only [Option.getD_none]
      unfold stepMem upd
      by_cases hw : e.isWrite = true
      · by_cases ha : e.addr = a
        · simp [hw, ha]
        · have : ¬ a = e.addr := fun h => ha h.symm
          simp [hw, ha, this]
      · simp [hw]

/-- under race freedom the last write to `a` is the last write of its owning thread -/
theorem lastW_prog (a t : Nat) : ∀ (s : List Ev), RaceFree s →
    (∀ e ∈ s, e.isWrite = true → e.addr = a → e.tid = t) → lastW a s = lastW a (prog t s)
  | [], _, _ => rfl
  | e :: s, hr, hown => by
    have ih := lastW_prog a t s (raceFree_tail hr) (fun e' he' => hown e' (List.mem_cons_of_mem _ he'))
    by_cases ht : e.tid = t
    · have hfil : prog t (e :: s) = e :: prog t s := by simp [prog, ht]
      rw [hfil]; simp only [lastW, ih]
    · have hfil : prog t (e :: s) = prog t s := by simp [prog, ht]
      rw [hfil]; simp only [lastW, ih]
      cases lastW a (prog t s) with
      | some v => rfl
      | none =>
        have : ¬ (e.isWrite = true ∧ e.addr = a) := fun ⟨hw, ha⟩ => ht (hown e (by simp) hw ha)
        simp [this]

/-- **schedule independence of the final memory**: every write lands in its own element, and
    the final contents do not depend on the interleaving -/
theorem runMem_schedule_indep (s1 s2 : List Ev) (m : Mem) (h1 : RaceFree s1) (h2 : RaceFree s2)
    (hp : ∀ t, prog t s1 = prog t s2) : runMem m s1 = runMem m s2 := by
  funext a
  rw [runMem_eq a s1 m, runMem_eq a s2 m]
  -- the owner of `a`: the thread of any write to it in s1, or anybody if there is none
  by_cases hex : ∃ e ∈ s1, e.isWrite = true ∧ e.addr = a
  · obtain ⟨e0, he0, hw0, ha0⟩ := hex
    have own1 : ∀ e ∈ s1, e.isWrite = true → e.addr = a → e.tid = e0.tid := by
      intro e he hw ha
      exact h1 e he e0 he0 hw (ha.trans ha0.symm)
    have mem2 : ∀ e, e ∈ s2 → e ∈ prog e.tid s1 := by
      intro e he
      rw [hp e.tid]; simp [prog, he]
    have own2 : ∀ e ∈ s2, e.isWrite = true → e.addr = a → e.tid = e0.tid := by
      intro e he hw ha
      have he1 : e ∈ s1 := (List.mem_filter.mp (mem2 e he)).1
      exact own1 e he1 hw ha
    rw [lastW_prog a e0.tid s1 h1 own1, lastW_prog a e0.tid s2 h2 own2, hp]
  · -- nobody writes `a` in s1, hence nobody in s2
    have none1 : ∀ e ∈ s1, e.isWrite = true → e.addr = a → e.tid = 0 := by
      intro e he hw ha; exact absurd ⟨e, he, hw, ha⟩ hex
    have none2 : ∀ e ∈ s2, e.isWrite = true → e.addr = a → e.tid = 0 := by
      intro e he hw ha
      have : e ∈ prog e.tid s1 := by rw [hp e.tid]; simp [prog, he]
      exact absurd ⟨e, (List.mem_filter.mp this).1, hw, ha⟩ hex
    rw [lastW_prog a 0 s1 h1 none1, lastW_prog a 0 s2 h2 none2, hp]

end Mdspan
