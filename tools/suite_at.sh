#!/bin/bash
# Build and run kokkos/mdspan's own (unedited) test suite for a commit (default: the
# working tree's HEAD) in a scratch worktree outside /repo and /verif; removes it afterwards.
# usage: tools/suite_at.sh [commit]          prints "SUITE <commit> passed=<n> failed=<n>"
set -u
REPO=${VERIF_REPO:-/repo}
C=${1:-HEAD}
D=$(mktemp -d /tmp/mdspan_suite.XXXXXX)
trap 'git -C "$REPO" worktree remove --force "$D/wt" >/dev/null 2>&1; rm -rf "$D"' EXIT
git -C "$REPO" worktree add --detach "$D/wt" "$C" >/dev/null 2>&1 || { echo "SUITE $C worktree-failed"; exit 2; }
cmake -G Ninja -S "$D/wt" -B "$D/b" -DCMAKE_BUILD_TYPE=RelWithDebInfo -DMDSPAN_ENABLE_TESTS=ON \
  -DMDSPAN_USE_SYSTEM_GTEST=ON -DCMAKE_CXX_FLAGS=-Wno-error -DGTest_DIR=/root/miniconda/lib/cmake/GTest >"$D/cfg.log" 2>&1 \
  || { tail -20 "$D/cfg.log"; echo "SUITE $C configure-failed"; exit 2; }
cmake --build "$D/b" -j16 >"$D/build.log" 2>&1 || { grep -E "error|FAILED" "$D/build.log" | head -20; echo "SUITE $C build-failed"; exit 1; }
ctest --test-dir "$D/b" -j8 --timeout 900 --output-junit "$D/junit.xml" >"$D/ctest.log" 2>&1
rc=$?
python3 - "$D/junit.xml" "$C" <<'EOF'
import sys, xml.etree.ElementTree as ET
r = ET.parse(sys.argv[1]).getroot()
tot = int(r.get('tests', 0)); fail = int(r.get('failures', 0))
print("SUITE %s ctest-entries=%d failed=%d" % (sys.argv[2], tot, fail))
EOF
tail -3 "$D/ctest.log"
exit $rc
