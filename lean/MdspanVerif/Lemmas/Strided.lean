import MdspanVerif.Model.Layout
/-!
Injectivity and range of `idx ↦ Σ idx_k * s_k` under the generalised chain
condition, stated on lists of "quads" so that a permutation of the dimensions
acts on the two candidate multi-indices at the same time.
-/
namespace Mdspan

/-- one dimension with two candidate indices -/
structure Quad where
  i : Nat
  j : Nat
  e : Nat
  s : Nat
deriving DecidableEq, Repr

def offI : List Quad → Nat
  | [] => 0
  | q :: qs => q.i * q.s + offI qs
def offJ : List Quad → Nat
  | [] => 0
  | q :: qs => q.j * q.s + offJ qs
/-- Σ (e-1)*s -/
def spanM1 : List (Nat × Nat) → Nat
  | [] => 0
  | d :: ds => (d.1 - 1) * d.2 + spanM1 ds

def Quad.dim (q : Quad) : Nat × Nat := (q.e, q.s)

/-- generalised chain on `(extent, stride)` pairs, head = outermost dimension:
    either at most one index value, or a stride beyond everything the tail spans. -/
def DescC : List (Nat × Nat) → Prop
  | [] => True
  | d :: ds => (d.1 ≤ 1 ∨ spanM1 ds < d.2) ∧ DescC ds

/-- the precondition of `layout_stride::mapping(extents, strides)` in the standard,
    for a list already ordered by the permutation (head = last of the permutation) -/
def StdChain : List (Nat × Nat) → Prop
  | [] => True
  | [d] => 0 < d.2
  | d :: d' :: ds => d'.2 * d'.1 ≤ d.2 ∧ StdChain (d' :: ds)

def QInB (l : List Quad) : Prop := ∀ q ∈ l, q.i < q.e ∧ q.j < q.e

theorem offI_le_span {l : List Quad} (hb : QInB l) : offI l ≤ spanM1 (l.map Quad.dim) := by
  induction l with
  | nil => simp [offI, spanM1]
  | cons q qs ih =>
    have hq := (hb q (by simp)).1
    have := ih (fun x hx => hb x (List.mem_cons_of_mem _ hx))
    simp only [offI, spanM1, List.map, Quad.dim]
    have : q.i * q.s ≤ (q.e - 1) * q.s := Nat.mul_le_mul_right _ (by omega)
    omega

theorem offJ_le_span {l : List Quad} (hb : QInB l) : offJ l ≤ spanM1 (l.map Quad.dim) := by
  induction l with
  | nil => simp [offJ, spanM1]
  | cons q qs ih =>
    have hq := (hb q (by simp)).2
    have := ih (fun x hx => hb x (List.mem_cons_of_mem _ hx))
    simp only [offJ, spanM1, List.map, Quad.dim]
    have : q.j * q.s ≤ (q.e - 1) * q.s := Nat.mul_le_mul_right _ (by omega)
    omega

/-- injectivity along a generalised chain -/
theorem desc_inj {l : List Quad} (h : DescC (l.map Quad.dim)) (hb : QInB l)
    (heq : offI l = offJ l) : ∀ q ∈ l, q.i = q.j := by
  induction l with
  | nil => intro q hq; cases hq
  | cons q qs ih =>
    have hb' : QInB qs := fun x hx => hb x (List.mem_cons_of_mem _ hx)
    have hi := offI_le_span hb'
    have hj := offJ_le_span hb'
    have hq := hb q (by simp)
    simp only [List.map, DescC, Quad.dim] at h
    simp only [offI, offJ] at heq
    have hqi : q.i = q.j := by
      rcases h.1 with h1 | hlt
      · omega
      · rcases Nat.lt_trichotomy q.i q.j with hlt' | heq' | hgt'
        · exfalso
          have : (q.i + 1) * q.s ≤ q.j * q.s := Nat.mul_le_mul_right _ hlt'
          rw [Nat.succ_mul] at this
          omega
        · exact heq'
        · exfalso
          have : (q.j + 1) * q.s ≤ q.i * q.s := Nat.mul_le_mul_right _ hgt'
          rw [Nat.succ_mul] at this
          omega
    intro x hx
    rcases List.mem_cons.mp hx with rfl | hx
    · exact hqi
    · rw [hqi] at heq
      exact ih h.2 hb' (by omega) x hx

theorem pred_mul_add (e s : Nat) (h : 0 < e) : (e - 1) * s + s = s * e := by
  have : e = (e - 1) + 1 := by omega
  calc (e - 1) * s + s = ((e - 1) + 1) * s := by rw [Nat.add_mul, Nat.one_mul]
    _ = e * s := by rw [← this]
    _ = s * e := Nat.mul_comm _ _

/-- along the standard's chain, everything up to and including the head spans less than
    `head.stride * head.extent` -/
theorem stdChain_span_lt : ∀ (l : List (Nat × Nat)) (x : Nat × Nat),
    (∀ d ∈ x :: l, 0 < d.1) → StdChain (x :: l) → spanM1 (x :: l) < x.2 * x.1
  | [], x, hp, hx => by
    have hx1 : 0 < x.1 := hp x (by simp)
    have := pred_mul_add x.1 x.2 hx1
    simp only [StdChain] at hx
    simp only [spanM1]; omega
  | y :: ys, x, hp, hx => by
    have hy := stdChain_span_lt ys y (fun d hd => hp d (List.mem_cons_of_mem _ hd)) hx.2
    have hx1 : 0 < x.1 := hp x (by simp)
    have := pred_mul_add x.1 x.2 hx1
    have := hx.1
    simp only [spanM1] at hy ⊢
    omega

/-- the standard's chain implies the generalised one when every extent is positive -/
theorem stdChain_desc : ∀ (l : List (Nat × Nat)), (∀ d ∈ l, 0 < d.1) → StdChain l → DescC l
  | [], _, _ => trivial
  | [d], _, h => ⟨by simp only [spanM1]; simp only [StdChain] at h; omega, trivial⟩
  | d :: d' :: ds, hpos, h => by
    have hp' : ∀ x ∈ d' :: ds, 0 < x.1 := fun x hx => hpos x (List.mem_cons_of_mem _ hx)
    have key := stdChain_span_lt ds d' hp' h.2
    exact ⟨Or.inr (by have := h.1; omega), stdChain_desc (d' :: ds) hp' h.2⟩

end Mdspan
