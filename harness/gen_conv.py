"""conversion / comparison op server (C08): ordered pairs of mapping types, all-dynamic extents (so that the
padded mandates are vacuous), ranks 0-3, several index-type pairs and padding values."""
from vf.common import ITYPES
from harness.gen_map import cxx_extents, KINDS
TPAIRS = [('i32', 'i32'), ('i32', 'i64'), ('u8', 'i32'), ('i64', 'u16'), ('u64', 'u64'), ('i16', 'u32')]
LAYS = [('left', None), ('right', None), ('stride', None), ('lpad', 'D'), ('lpad', 2), ('lpad', 4), ('rpad', 'D'), ('rpad', 2), ('rpad', 4)]
def instances():
    out = []
    for (t, u) in TPAIRS:
        for r in range(0, 4):
            for (sk, ssp) in LAYS:
                for (dk, dsp) in LAYS:
                    # padded -> padded of the same side: mandate P == Q unless one is dynamic
                    if sk == dk and sk in ('lpad', 'rpad') and ssp != 'D' and dsp != 'D' and ssp != dsp: continue
                    if (t, u) != ('i32', 'i32') and (ssp not in (None, 'D', 4) or dsp not in (None, 'D', 4)): continue
                    out.append((sk, ssp, t, dk, dsp, u, r))
    return out
def sp(x): return 'md::dynamic_extent' if x in (None, 'D') else str(x)
def key(kind, i): return '%s:%s:%s:%s' % (kind, i[0], i[2], '%s,%s,%s,%s,%d' % (i[1], i[3], i[4], i[5], i[6]))
def line(kind, i): return '%s %s %s k=%s' % (kind, i[0], i[2], '%s,%s,%s,%s,%d' % (i[1], i[3], i[4], i[5], i[6]))
def lite(insts):
    return [i for i in insts if (i[2], i[5]) in (('i32', 'i32'), ('u8', 'i32')) and i[6] <= 2]

def sources(ntu=16, insts=None):
    tus = [[] for _ in range(ntu)]
    for n, i in enumerate(insts if insts is not None else instances()):
        sk, ssp, t, dk, dsp, u, r = i
        tus[n % ntu].append('  regConv<%s, %s, %s, %s, %s, %s>("%s", "%s");' % (KINDS[sk], cxx_extents(t, [None] * r), sp(ssp), KINDS[dk], cxx_extents(u, [None] * r), sp(dsp), key('conv', i), key('mapeq', i)))
    srcs = [('conv_tu%d.cpp' % i, '#include "convsrv.hpp"\nusing namespace vh;\nvoid reg_conv_%d() {\n%s\n}\n' % (i, '\n'.join(b))) for i, b in enumerate(tus)]
    srcs.append(('conv_main.cpp', '#include "vh.hpp"\n' + ''.join('void reg_conv_%d();\n' % i for i in range(ntu)) + 'int main() {\n' + ''.join('  reg_conv_%d();\n' % i for i in range(ntu)) + '  return vh::serve();\n}\n'))
    return srcs
