import Driver.Map
import Driver.Sub
import Driver.Types
import Driver.Ext
import Driver.C20
import Driver.Conv
import Driver.View
import Driver.Arr
import Driver.C16
import Driver.C18
import Driver.C17
import Driver.ConcD
import MdspanVerif.Model.ValidB
open Mdspan Drv

def step (line : String) : String :=
  match line.trimAscii.toString.splitOn " " with
  | "map" :: kind :: ty :: rest => mapLine kind ty rest
  | "sub" :: kind :: ty :: rest => subLine kind ty rest
  | "subtype" :: lay :: _ :: rest => subtypeLine lay rest
  | "ext" :: t :: s :: rest => extLine t s rest
  | "extconv" :: t :: u :: rest => extconvLine t u rest
  | "exteq" :: t :: u :: rest => exteqLine t u rest
  | "c20" :: kind :: t :: rest => c20Line kind t rest
  | "c20s" :: kind :: t :: rest => c20Line kind t (("k=" ++ t ++ ":2") :: rest.filter (fun x => !(x.startsWith "k=")))
  | "view" :: kind :: ty :: rest => viewLine kind ty rest
  | "v14" :: kind :: ty :: rest => v14Line kind ty rest
  | "arr" :: kind :: _ :: rest => arrLine kind rest
  | "c16" :: fam :: rest => c16Line fam rest
  | "c18" :: lay :: ty :: rest => c18Line lay ty rest
  | "c17" :: fam :: rest => c17Line fam rest
  | "conc" :: kind :: _ :: rest => concLine kind rest
  | "conv" :: kind :: _ :: rest => convLine kind rest
  | "mapeq" :: kind :: _ :: rest => mapeqLine kind rest
  | "dot" :: rest =>
    let ss := (parseList ((getKey rest "str").getD "-")).map Int.toNat
    let is := (parseList ((getKey rest "idx").getD "-")).map Int.toNat
    s!"ok {dot is ss}"
  | "valid" :: rest =>
    let es := (parseList ((getKey rest "ext").getD "-")).map Int.toNat
    let ss := (parseList ((getKey rest "str").getD "-")).map Int.toNat
    s!"valid={fmtB (validStridesB es ss)} span={spanStride es ss}"
  | _ => "bad-op"

partial def loop (h : IO.FS.Stream) : IO Unit := do
  let line ← h.getLine
  if line.isEmpty then return ()
  IO.println (step line)
  loop h

def main : IO Unit := do loop (← IO.getStdin)
