#!/usr/bin/env python3
"""Entry point of the verification machinery.
   python3 check.py --setup                      build the Lean library, the model driver and warm the op-server cache
   python3 check.py Cnn [--tier quick|thorough]  decide property Cnn on /repo's current working tree
   python3 check.py Cnn --replay <file>          re-run a reported violation
   python3 check.py --reindex                    (maintainer) recompute lean/Index.json statement hashes
Exit 0: property held on everything explored; 1: VIOLATION line(s) printed; 2: infrastructure failure."""
import sys, os, argparse, json, time, importlib, traceback
HERE = os.path.dirname(os.path.abspath(__file__))
sys.path.insert(0, HERE)
from vf import common as C

CHECKS = {
    'C01': 'vf.checks_map', 'C02': 'vf.checks_map', 'C05': 'vf.checks_map', 'C07': 'vf.checks_map', 'C14': 'vf.checks_c14', 'C04': 'vf.checks_sub', 'C10': 'vf.checks_sub', 'C09': 'vf.checks_c09', 'C06': 'vf.checks_c06', 'C20': 'vf.checks_c20', 'C08': 'vf.checks_c08', 'C03': 'vf.checks_view', 'C11': 'vf.checks_view', 'C13': 'vf.checks_view', 'C12': 'vf.checks_c12', 'C16': 'vf.checks_c16', 'C18': 'vf.checks_c18', 'C17': 'vf.checks_c17', 'C19': 'vf.checks_c19', 'C15': 'vf.checks_c15', 
}

def setup():
    ok, log = C.lean_build(force=True)
    print(log if ok else 'lake build FAILED:\n' + log)
    if not ok: return 2
    # warm the op-server cache for the current tree (checks rebuild by content hash anyway)
    for p, modname in sorted(CHECKS.items()):
        mod = importlib.import_module(modname)
        if hasattr(mod, 'warm'):
            try: mod.warm(p)
            except C.BuildError as e: print('warm %s: %s' % (p, e))
    return 0

def reindex():
    ok, log = C.lean_build(force=True)
    if not ok: print(log); return 2
    names = json.load(open(os.path.join(C.LEAN, 'index_names.json')))
    out = {}
    for prop, e in sorted(names.items()):
        hs = C.statement_hashes(e['modules'], e['theorems'])
        ths = []
        for n in e['theorems']:
            if n not in hs: print('MISSING', prop, n); return 1
            ths.append(dict(name=n, hash=hs[n][0], statement=hs[n][1]))
        out[prop] = dict(modules=e['modules'], theorems=ths)
    json.dump(out, open(os.path.join(C.LEAN, 'Index.json'), 'w'), indent=1)
    print('indexed %d properties, %d theorems' % (len(out), sum(len(v['theorems']) for v in out.values())))
    return 0

def main():
    ap = argparse.ArgumentParser()
    ap.add_argument('prop', nargs='?'); ap.add_argument('--tier', default=os.environ.get('VERIF_TIER', 'quick'), choices=['quick', 'thorough'])
    ap.add_argument('--replay'); ap.add_argument('--setup', action='store_true'); ap.add_argument('--reindex', action='store_true')
    a = ap.parse_args()
    if a.setup: sys.exit(setup())
    if a.reindex: sys.exit(reindex())
    if a.prop not in CHECKS: print('unknown property', a.prop); sys.exit(2)
    seed = int(os.environ.get('VERIF_SEED', '1'))
    os.environ['VERIF_TIER_EFFECTIVE'] = a.tier
    mod = importlib.import_module(CHECKS[a.prop])
    try:
        rc = mod.check(a.prop, a.tier, seed, replay=json.load(open(a.replay)) if a.replay else None)
    except C.Infra as e:
        print('INFRASTRUCTURE FAILURE: %s' % e); sys.exit(2)
    sys.exit(rc)

if __name__ == '__main__':
    main()
