#!/usr/bin/env python3
"""Applies every seeded change under seeded/<id>/patch.diff to a scratch worktree of /repo (one per worker, under /tmp,
removed afterwards; /repo itself is never touched), runs the quick check of the property it targets (plus any listed in
meta.json 'also_run') against that worktree (VERIF_REPO) with its own cache, evidence and replay directories, and
prints / writes the detection table (seeded/RESULTS.md).
usage: tools/run_seeded.py [-j N] [id ...]"""
import os, sys, json, subprocess, glob, time, tempfile, shutil, concurrent.futures
HERE = os.path.dirname(os.path.dirname(os.path.abspath(__file__)))
def run(cmd, **kw): return subprocess.run(cmd, capture_output=True, text=True, **kw)

def worker(args):
    k, ids, root = args
    wt = os.path.join(root, 'wt%d' % k); rows = []
    run(['git', '-C', '/repo', 'worktree', 'add', '--detach', wt, 'HEAD'])
    env = dict(os.environ, VERIF_REPO=wt, VERIF_CACHE_ROOT=os.path.join(root, 'cache%d' % k), VERIF_EVIDENCE_DIR=os.path.join(root, 'ev%d' % k),
               VERIF_REPLAY_DIR=os.path.join(root, 'replays%d' % k), VERIF_JOBS=str(max(2, 16 // max(1, NJ))))
    try:
        for i in ids:
            d = os.path.join(HERE, 'seeded', i); meta = json.load(open(os.path.join(d, 'meta.json')))
            props = [meta['property']] + meta.get('also_run', [])
            a = run(['git', '-C', wt, 'apply', os.path.join(d, 'patch.diff')])
            if a.returncode != 0: rows.append((i, meta['property'], 'PATCH DOES NOT APPLY', '')); continue
            try:
                res = []
                for p in props:
                    r = run(['timeout', '3000', 'python3', os.path.join(HERE, 'check.py'), p, '--tier', 'quick'], cwd=HERE, env=env)
                    viol = [l for l in r.stdout.split('\n') if l.startswith('VIOLATION')]
                    kind = ''
                    if viol:
                        rp = viol[0].split('replay=')[1].split()[0]
                        try:
                            rj = json.load(open(rp)); kind = rj.get('kind') or rj.get('correspondence') or rj.get('record', '')
                        except Exception: pass
                        res.append('%s: REPORTED%s (%s)' % (p, ' [no-failing-input-found]' if 'no-failing-input-found' in viol[0] else '', kind[:90]))
                    else: res.append('%s: quiet (rc=%d)' % (p, r.returncode))
            finally:
                run(['git', '-C', wt, 'checkout', '--', '.'])
            rows.append((i, meta['property'], '; '.join(res), meta.get('needs', '')))
            print(i, '|', '; '.join(res), flush=True)
    finally:
        run(['git', '-C', '/repo', 'worktree', 'remove', '--force', wt])
    return rows

NJ = 1
def main():
    global NJ
    argv = sys.argv[1:]
    if argv[:1] == ['-j']: NJ = int(argv[1]); argv = argv[2:]
    ids = argv or sorted(os.path.basename(os.path.dirname(p)) for p in glob.glob(os.path.join(HERE, 'seeded', '*', 'patch.diff')))
    root = tempfile.mkdtemp(prefix='seedw', dir='/tmp'); rows = []
    try:
        # same-property changes go to the same worker (they share most of a build only through the compiler cache anyway); round-robin by property
        groups = [[] for _ in range(NJ)]
        for n, i in enumerate(ids): groups[n % NJ].append(i)
        with concurrent.futures.ThreadPoolExecutor(NJ) as ex:
            for r in ex.map(worker, [(k, g, root) for k, g in enumerate(groups) if g]): rows += r
    finally:
        shutil.rmtree(root, ignore_errors=True); run(['git', '-C', '/repo', 'worktree', 'prune'])
    seed = os.environ.get('VERIF_SEED', '1'); sfx = '' if seed == '1' else '_seed' + seed      # robustness runs at other seeds are kept apart
    jp = os.path.join(HERE, 'seeded', 'RESULTS%s.json' % sfx)
    allr = json.load(open(jp)) if os.path.exists(jp) else {}
    for r in rows: allr[r[0]] = dict(property=r[1], quick=r[2], needs=str(r[3]))
    json.dump(allr, open(jp, 'w'), indent=1, sort_keys=True)
    with open(os.path.join(HERE, 'seeded', 'RESULTS%s.md' % sfx), 'w') as f:
        f.write('Detection table of the seeded changes (written by tools/run_seeded.py; quick tier, seed ' + seed + ').\n\n| seeded change | property | quick checks | needs to manifest (from the seeding agent\'s notes) |\n|---|---|---|---|\n')
        for k in sorted(allr): f.write('| %s | %s | %s | %s |\n' % (k, allr[k]['property'], allr[k]['quick'], allr[k]['needs'].replace('|', '/').replace('\n', ' ')[:260]))
    return 0
sys.exit(main())
