// extents op family: construction paths, conversion, comparison
#pragma once
#include "vh.hpp"
#if defined(__cpp_lib_span) || __cplusplus >= 202002L
#include <span>
#define VH_HAS_SPAN 1
#endif
namespace vh {
template <class E> std::string obsExt(const E& e) {
  std::string s = "rank=" + std::to_string(E::rank()) + " rd=" + std::to_string(E::rank_dynamic()) + " se=";
  if (E::rank() == 0) s += "-";
  for (size_t k = 0; k < E::rank(); k++) { if (k) s += ","; s += E::static_extent(k) == md::dynamic_extent ? std::string("D") : std::to_string(E::static_extent(k)); }
  s += " e=" + extList(e);
  return s;
}
enum CtorPath { PackDyn, PackAll, ArrayDyn, ArrayAll, SpanDyn, SpanAll };
template <class E, class S, size_t... K> E fromPack(const std::vector<long long>& v, std::index_sequence<K...>) { return E(static_cast<S>(v[K])...); }
template <class E, class S, size_t N> E fromArray(const std::vector<long long>& v) {
  std::array<S, N> a{}; for (size_t k = 0; k < N; k++) a[k] = static_cast<S>(v[k]); return E(a);
}
#ifdef VH_HAS_SPAN
template <class E, class S, size_t N> E fromSpan(const std::vector<long long>& v) {
  std::array<S, N> a{}; for (size_t k = 0; k < N; k++) a[k] = static_cast<S>(v[k]);
  if constexpr (N == 0) return E(std::span<S, 0>()); else return E(std::span<S, N>(a.data(), N));
}
#endif
template <class E, class S, CtorPath P> void regExt(const std::string& key) {
  registry()[key] = [](const Op& o) -> std::string {
    std::vector<long long> v = parseList(o.get("vals"));
    constexpr size_t N = (P == PackDyn || P == ArrayDyn || P == SpanDyn) ? E::rank_dynamic() : E::rank();
    if (v.size() != N) return "bad-op";
    if constexpr (P == PackDyn || P == PackAll) return obsExt(fromPack<E, S>(v, std::make_index_sequence<N>()));
    else if constexpr (P == ArrayDyn || P == ArrayAll) return obsExt(fromArray<E, S, N>(v));
#ifdef VH_HAS_SPAN
    else return obsExt(fromSpan<E, S, N>(v));
#else
    else return "no-op";
#endif
  };
}
template <class E, class F> void regExtPair(const std::string& kconv, const std::string& keq) {
  // conversion E(F) exists only for compatible types; comparison exists for every pair
  if constexpr (std::is_constructible_v<E, const F&>) {
    registry()[kconv] = [](const Op& o) -> std::string {
      F f = makeExt<F>(parseList(o.get("vals")));
      E e(f);
      return obsExt(e) + " impl=" + num(std::is_convertible_v<const F&, E>);
    };
  }
  registry()[keq] = [](const Op& o) -> std::string {
    E e = makeExt<E>(parseList(o.get("vals"))); F f = makeExt<F>(parseList(o.get("vals2")));
    return std::string("eq=") + num(e == f) + " ne=" + num(e != f) + " rev=" + num(f == e);
  };
}
} // namespace vh
