"""C16: overload participation and explicitness — Lean theorems Impl = Spec (extents, mappings,
accessors, mdspan, argument packs) + trait probes (is_constructible_v / is_convertible_v /
is_invocable_v) over a generated universe of type pairs, plus instantiation of every conversion the
traits accept (a constructor whose body does not compile is a violation: that is how F9 surfaced)."""
import random, itertools, re
from . import common as C

LAYS = ['left', 'right', 'stride', 'lpadD', 'lpad2', 'lpad4', 'rpadD', 'rpad2', 'rpad4']
TYS = ['i32', 'i64', 'u8']
def pats(r): return [tuple(p) for p in itertools.product([None, 4, 5], repeat=r)]
def pat_str(p): return ','.join('D' if x is None else str(x) for x in p) if p else '-'
def cxx_map(lay, t, p):
    I = C.ITYPES[t][2]; E = 'md::extents<%s%s>' % (I, ''.join(', %s' % ('md::dynamic_extent' if x is None else x) for x in p))
    if lay in ('left', 'right', 'stride'): return 'md::layout_%s::mapping<%s>' % (lay, E)
    side = 'left' if lay.startswith('l') else 'right'; P = lay[4:]
    return 'mdx::layout_%s_padded<%s>::mapping<%s>' % (side, 'md::dynamic_extent' if P == 'D' else P, E)
def cxx_layout(lay):
    if lay in ('left', 'right', 'stride'): return 'md::layout_%s' % lay
    side = 'left' if lay.startswith('l') else 'right'; P = lay[4:]
    return 'mdx::layout_%s_padded<%s>' % (side, 'md::dynamic_extent' if P == 'D' else P)
def cxx_ext(t, p):
    return 'md::extents<%s%s>' % (C.ITYPES[t][2], ''.join(', %s' % ('md::dynamic_extent' if x is None else x) for x in p))
def desc(m): return '%s:%s:%s' % (m[0], m[1], pat_str(m[2]))

def universe():
    return [(l, t, p) for r in (0, 1, 2) for p in pats(r) for l in LAYS for t in TYS]

def gen_pairs(seed, tier):
    rnd = random.Random(seed); U = universe(); n = 3500 if tier == 'quick' else 20000
    by_rank = {}
    for m in U: by_rank.setdefault(len(m[2]), []).append(m)
    out = set()
    for m in U: out.add((m, m))
    while len(out) < n:
        c = rnd.random()
        if c < 0.85:
            r = rnd.choice([0, 1, 1, 2, 2, 2]); a, b = rnd.choice(by_rank[r]), rnd.choice(by_rank[r])
            if rnd.random() < 0.5: b = (b[0], b[1], a[2] if rnd.random() < 0.5 else b[2])      # same pattern more often
        else: a, b = rnd.choice(U), rnd.choice(U)
        out.add((a, b))
    return sorted(out, key=str)

# name: (C++ type, convertible, nothrow-constructible) for by-value index packs; ARGK_C for the `const T&` forms (array / span constructors)
ARGK = {'int': ('int', 1, 1), 'size_t': ('size_t', 1, 1), 'double': ('double', 1, 1), 'NotConv': ('vh::NotConv', 0, 0), 'ThrowConv': ('vh::ThrowConv', 1, 0), 'uchar': ('unsigned char', 1, 1),
        'NCConv': ('vh::NCConv', 1, 1), 'CThrow': ('vh::CThrow', 1, 0)}
ARGK_C = dict(ARGK); ARGK_C['NCConv'] = ('vh::NCConv', 0, 0); ARGK_C['CThrow'] = ('vh::CThrow', 1, 1)

PRELUDE = '''#include "probe.hpp"
namespace vh { struct NotConv {}; struct ThrowConv { operator long() const noexcept(false) { return 1; } };
  struct NCConv { operator long() noexcept { return 1; } };                                           // converts only as a non-const object
  struct CThrow { operator long() const noexcept { return 1; } operator long() noexcept(false) { return 1; } };   // the non-const conversion may throw
  template <class V, class A, class = void> struct canBr : std::false_type {};
  template <class V, class A> struct canBr<V, A, std::void_t<decltype(std::declval<const V&>()[std::declval<A>()])>> : std::true_type {}; }
using namespace vh;
'''

def sources(pairs, model, mds_pairs, args, ntu=16):
    """probe i prints one line; conversions accepted by the traits (and not a mandated hard error) are instantiated"""
    tus = [[] for _ in range(ntu)]; defs = [[] for _ in range(ntu)]; k = 0
    for (d, s), m in zip(pairs, model):
        D, S = cxx_map(*d), cxx_map(*s)
        body = '  out[%d] = std::string("ctor=") + num(std::is_constructible_v<%s, const %s&>) + " conv=" + num(std::is_convertible_v<const %s&, %s>);' % (k, D, S, S, D)
        if m.get('ctor') == '1' and m.get('hard') == '0' and m.get('ok') == '1':
            defs[k % ntu].append('void inst_%d(const %s& s) { %s d(s); (void)d; }   // PROBE %d' % (k, S, D, k))
        tus[k % ntu].append(body); k += 1
    for (de, d, se, s) in mds_pairs:
        mk = lambda e, m: 'md::mdspan<%s, %s, %s>' % ('const int' if e.endswith('c') else 'int', cxx_ext(m[1], m[2]), cxx_layout(m[0])) if e[0] == '0' else \
                          'md::mdspan<%s, %s, %s>' % ('const double' if e.endswith('c') else 'double', cxx_ext(m[1], m[2]), cxx_layout(m[0]))
        D, S = mk(de, d), mk(se, s)
        tus[k % ntu].append('  out[%d] = std::string("ctor=") + num(std::is_constructible_v<%s, const %s&>) + " conv=" + num(std::is_convertible_v<const %s&, %s>);' % (k, D, S, S, D)); k += 1
    for a in args:
        what, rank, rd, n, ak, lay = a; T = ARGK[ak][0]; pack = ', '.join([T] * n)
        E = 'md::extents<int%s>' % ''.join([', md::dynamic_extent'] * rd + [', 3'] * (rank - rd))
        if what == 'ext': ex = 'std::is_constructible_v<%s%s>' % (E, (', ' + pack) if n else '')
        elif what == 'call': ex = 'std::is_invocable_v<const md::layout_%s::mapping<%s>&%s>' % (lay, E, (', ' + pack) if n else '')
        elif what == 'arr':
            ex = 'std::is_constructible_v<%s, const std::array<%s, %d>&>' % (E, T, n)
            tus[k % ntu].append('  out[%d] = std::string("ok ") + num(%s) + " expl=" + num(%s && !std::is_convertible_v<const std::array<%s, %d>&, %s>);' % (k, ex, ex, T, n, E)); k += 1; continue
        elif what in ('sarr', 'sspan'):      # layout_stride::mapping(extents, array / span of strides): constrained on `const T&`
            M = 'md::layout_stride::mapping<%s>' % E
            if what == 'sarr': ex = 'std::is_constructible_v<%s, const %s&, const std::array<%s, %d>&>' % (M, E, T, n)
            else:
                tus[k % ntu].append('#if __cplusplus >= 202002L\n  out[%d] = std::string("ok ") + num(std::is_constructible_v<%s, const %s&, std::span<%s, %d>>);\n#else\n  out[%d] = "na";\n#endif' % (k, M, E, T, n, k)); k += 1; continue
        elif what == 'br1': ex = 'vh::canBr<md::mdspan<int, %s, md::layout_%s>, %s>::value' % (E, lay, T)
        else: ex = 'std::is_constructible_v<md::mdspan<int, %s, md::layout_%s>, int*%s>' % (E, lay, (', ' + pack) if n else '')
        tus[k % ntu].append('  out[%d] = std::string("ok ") + num(%s);' % (k, ex)); k += 1
    srcs = []
    for i, body in enumerate(tus):
        srcs.append(('c16_tu%d.cpp' % i, PRELUDE + '\n'.join(defs[i]) + '\nvoid c16_%d(std::vector<std::string>& out) {\n%s\n}\n' % (i, '\n'.join(body))))
    main = '#include "probe.hpp"\n' + ''.join('void c16_%d(std::vector<std::string>&);\n' % i for i in range(ntu)) + \
           'int main() { std::vector<std::string> out(%d);\n' % k + ''.join('  c16_%d(out);\n' % i for i in range(ntu)) + '  for (auto& s : out) puts(s.c_str());\n}\n'
    srcs.append(('c16_main.cpp', main))
    return srcs

def kv(s): return dict(x.split('=') for x in s.split() if '=' in x)

CV = {'': '', 'c': 'const ', 'v': 'volatile ', 'cv': 'const volatile '}
def acc_cv_probes(cfg, rep):
    """default_accessor<T> from default_accessor<U> and mdspan<T,...> from mdspan<U,...> for every combination of cv-qualifiers on both
    sides (and another base type): participates iff U(*)[] -> T(*)[] (a qualification conversion: no qualifier dropped), always implicit"""
    pairs = [(db, dq, sb, sq) for dq in CV for sq in CV for (db, sb) in ((0, 0), (1, 1))] + [(1, dq, 0, sq) for dq in ('', 'c', 'cv') for sq in ('', 'v')]
    base = {0: 'int', 1: 'double'}
    T = lambda b, q: CV[q] + base[b]
    body = []
    for k, (db, dq, sb, sq) in enumerate(pairs):
        D, S = T(db, dq), T(sb, sq)
        body.append('  out[%d] = std::string("ctor=") + num(std::is_constructible_v<md::default_accessor<%s>, const md::default_accessor<%s>&>) + " conv=" + num(std::is_convertible_v<const md::default_accessor<%s>&, md::default_accessor<%s>>)'
                    ' + " mctor=" + num(std::is_constructible_v<md::mdspan<%s, md::dextents<int, 2>>, const md::mdspan<%s, md::dextents<int, 2>>&>) + " mconv=" + num(std::is_convertible_v<const md::mdspan<%s, md::dextents<int, 2>>&, md::mdspan<%s, md::dextents<int, 2>>>);' % (k, D, S, S, D, D, S, S, D))
    src = [('c16acc.cpp', '#include "probe.hpp"\nusing namespace vh;\nint main() { std::vector<std::string> out(%d);\n%s\n  for (auto& s : out) puts(s.c_str());\n}\n' % (len(pairs), '\n'.join(body)))]
    try: exe, secs, cached = C.cxx_build('c16acc', src, config=cfg)
    except C.BuildError as e:
        rep.broke(dict(correspondence='C16 accessor cv probe build (%s)' % cfg, why=str(e), log=e.log[-2500:])); return
    out = C.run([exe]).stdout.split('\n')
    mout = C.driver(['c16 acccv d=%d%s s=%d%s' % (db, dq, sb, sq) for db, dq, sb, sq in pairs])
    for (db, dq, sb, sq), xi, xm in zip(pairs, out, mout):
        rep.cov['evaluations'] += 1
        want = db == sb and set(sq) <= set(dq); w = '1' if want else '0'
        d = kv(xi); pub = dict(target='default_accessor<%s>' % T(db, dq), source='default_accessor<%s>' % T(sb, sq), config=cfg)
        if d.get('ctor') != w or d.get('conv') != w:
            rep.violation(dict(kind='default_accessor-conversion-%s-although-U(*)[]-%s-to-T(*)[]' % ('participates' if d.get('ctor') == '1' else 'does-not-participate', 'converts' if want else 'does-not-convert'), impl=xi, **pub)); continue
        if d.get('mctor') != w or d.get('mconv') != w:
            rep.violation(dict(kind='mdspan-conversion-differs-from-(mapping-converts-and-accessor-converts)', impl=xi, specified='mctor=%s mconv=%s' % (w, w), **pub)); continue
        if ' '.join(xi.split()[:2]) != xm: rep.broke(dict(correspondence='C16 accessor cv rule (Model/ElemCv.lean)', impl=xi, model=xm, **pub))
        if want and (dq != sq): rep.nontrivial(('acccv', db, dq, sb, sq))

def mandate_probes(hard_pairs, cfg, rep):
    """programs the specification rejects by a Mandates clause must not compile: each sampled pair is
    compiled alone (-fsyntax-only) and must be rejected"""
    import concurrent.futures, os, tempfile
    comp, flags = C.CONFIGS[cfg]
    d = os.path.join(C.cache_dir(), 'c16mandates'); os.makedirs(d, exist_ok=True)
    def one(k_pair):
        k, (dd, ss) = k_pair
        f = os.path.join(d, 'm%d_%d.cpp' % (os.getpid(), k))
        open(f, 'w').write('#include <mdspan/mdspan.hpp>\nnamespace md = Kokkos; namespace mdx = Kokkos::Experimental;\nvoid f(const %s& s) { %s d(s); (void)d; }\n' % (cxx_map(*ss), cxx_map(*dd)))
        r = C.run([comp] + [x for x in flags if not x.startswith('-fsanitize')] + ['-w', '-fsyntax-only', '-I' + os.path.join(C.REPO, 'include'), f])
        os.remove(f)
        return (dd, ss), r.returncode, r.stderr
    n = 0
    with concurrent.futures.ThreadPoolExecutor(C.JOBS) as ex:
        for (dd, ss), rc, err in ex.map(one, list(enumerate(hard_pairs))):
            n += 1
            if rc == 0:
                rep.violation(dict(kind='program-rejected-by-a-Mandates-clause-compiles', pair=[list(dd), list(ss)], target=cxx_map(*dd), source=cxx_map(*ss), config=cfg))
            elif 'static assertion failed' not in err and 'static_assert' not in err:
                rep.broke(dict(correspondence='C16 mandate probe: rejected, but not by a static_assert', pair=[list(dd), list(ss)], errors=[l for l in err.split('\n') if 'error' in l][:3], config=cfg))
    rep.notes['mandate_probes_' + cfg] = n

# ---- the specification's table (appendix B of DESIGN.md), independent of the Lean definitions
def spec_ext_sub(E, F): return len(E[1]) == len(F[1]) and all(a is None or b is None or a == b for a, b in zip(E[1], F[1]))
def spec_ext_expl(E, F): return any(a is not None and b is None for a, b in zip(E[1], F[1])) or C.hi(E[0]) < C.hi(F[0])
def spec_map(d, s):
    """None = does not participate; True = explicit; False = implicit"""
    if d == s: return False
    (dl, dt, dp), (sl, st, sp) = d, s; E, F = (dt, dp), (st, sp); r = len(dp)
    sub = spec_ext_sub(E, F); impl = sub and not spec_ext_expl(E, F)
    fam = lambda l: 'lpad' if l.startswith('lpad') else 'rpad' if l.startswith('rpad') else l
    P = lambda l: None if l[4:] == 'D' else int(l[4:])
    df, sf = fam(dl), fam(sl)
    if not sub: return None
    if df in ('left', 'right'):
        if sf == df: return not impl
        if sf in ('left', 'right'): return (not impl) if r <= 1 else None
        if sf == 'stride': return r > 0
        if (df, sf) in (('left', 'lpad'), ('right', 'rpad')): return not impl
        return None
    if df == 'stride': return not (impl and sf in ('left', 'right', 'stride'))
    # padded targets
    plain = 'left' if df == 'lpad' else 'right'
    if sf == plain: return not impl
    if sf == 'stride': return r > 0
    if sf == df: return r > 1 and (P(dl) is None or P(sl) is None)
    if sf in ('lpad', 'rpad'): return (not impl) if r <= 1 else None
    return None

def check(prop, tier, seed, replay=None):
    rep = C.Report(prop, tier, seed); audit = C.proof_audit(prop); rnd = random.Random(seed); thorough = tier == 'thorough'
    rep.cov['rule'] = ('universe: 9 layouts (left, right, stride, left/right_padded<dyn|2|4>) x 3 index types x all static/dynamic patterns over {dyn,4,5} for rank 0-2 (351 mapping types); '
                       '3500 (thorough 20000) ordered pairs incl. all identity pairs, biased to equal rank; is_constructible_v and is_convertible_v compared with Impl.mapConstructible/mapConvertible '
                       'and with the specification table; every accepted, non-mandate-violating conversion is also instantiated; mdspan pairs (element const-ness x mapping pairs) and index/extent argument packs '
                       '(count x argument kind incl. non-convertible and throwing conversions); non-trivial = non-identity pair of rank >= 1')
    pairs = gen_pairs(seed, tier)
    if replay and replay.get('pair'): pairs = [tuple((m[0], m[1], tuple(m[2])) for m in replay['pair'])]
    mlines = ['c16 map d=%s s=%s' % (desc(d), desc(s)) for d, s in pairs]
    model = [kv(x) for x in C.driver(mlines)]
    # drop pairs naming an ill-formed padded type (class-level static_assert)
    keep = [i for i, m in enumerate(model) if m.get('ok') == '1']
    pairs = [pairs[i] for i in keep]; model = [model[i] for i in keep]; mlines = [mlines[i] for i in keep]
    # mdspan pairs: element (base type id + const) x a sample of mapping pairs
    mds = []
    for (d, s) in rnd.sample(pairs, min(len(pairs), 400 if not thorough else 2000)):
        de, se = rnd.choice(['0', '0c', '1', '1c']), rnd.choice(['0', '0c', '1', '1c'])
        if rnd.random() < 0.6: se = de[0] + rnd.choice(['', 'c'])
        mds.append((de, d, se, s))
    mds_lines = ['c16 mds d=%s s=%s de=%s se=%s' % (desc(d), desc(s), de, se) for de, d, se, s in mds]
    mds_model = [kv(x) for x in C.driver(mds_lines)]
    # a mandated hard error inside the mapping conversion would be instantiated by the mdspan traits?  no: traits do not instantiate bodies
    args = []
    for what in ('ext', 'call', 'arr', 'mds'):
        for rank in range(0, 4):
            for rd in range(0, rank + 1):
                for n in range(0, rank + 2):
                    for ak in ARGK:
                        for lay in (('left', 'stride') if what == 'mds' else ('right',)):
                            if what == 'call' and rd != rank: continue
                            if what == 'arr' and ak in ('NotConv',) and n == 0: continue
                            args.append((what, rank, rd, n, ak, lay))
    for rd in (0, 1):
        for ak in ARGK:
            for lay in ('left', 'stride'): args.append(('br1', 1, rd, 1, ak, lay))
    stride_args = []
    for what in ('sarr', 'sspan'):
        for rank in range(0, 4):
            for n in range(0, rank + 2):
                for ak in ARGK:
                    if ak == 'NotConv' and n == 0: continue
                    stride_args.append((what, rank, rank if rank < 2 else rank - 1, n, ak, 'stride'))
    if not thorough: args = rnd.sample([a for a in args if a[0] != 'br1'], 700) + [a for a in args if a[0] == 'br1']
    args += stride_args
    # an empty pack is vacuously convertible / nothrow-constructible
    KT = lambda a: (ARGK_C if a[0] in ('arr', 'sarr', 'sspan') else ARGK)[a[4]]
    arg_lines = ['c16 args what=%s rank=%d rd=%d n=%d conv=%d nothrow=%d lay=%s' % ('call' if a[0] in ('br1', 'sarr', 'sspan') else a[0], a[1], a[2], a[3], KT(a)[1] if (a[3] or a[0] in ('arr', 'sarr', 'sspan')) else 1, KT(a)[2] if (a[3] or a[0] in ('arr', 'sarr', 'sspan')) else 1, a[5]) for a in args]
    arg_model = C.driver(arg_lines)
    rep.notes['probes'] = dict(mapping_pairs=len(pairs), mdspan_pairs=len(mds), argument_packs=len(args))
    rep.notes['mandated_hard_error_pairs_skipped_for_instantiation'] = sum(1 for m in model if m.get('hard') == '1')
    configs = ['gcc20-O2-ndebug-emul', 'gcc17-O2-assert'] if not thorough else ['gcc20-O2-ndebug-emul', 'clang20-O0-assert', 'gcc23-O0-assert', 'gcc17-O2-assert', 'clang17-O0-ndebug-emul']      # C++17: the enable_if spellings of the constraints
    rep.notes['configs'] = configs
    for cfg in configs:
        cxx17 = '17' in cfg.split('-')[0]
        try: exe, secs, cached = C.cxx_build('c16probe', sources(pairs, model, mds, args), config=cfg)
        except C.BuildError as e:
            m = re.search(r'inst_(\d+)', e.log)
            if not m:
                # gcc names only file:line of the instantiation point: look the probe up in the generated TU
                loc = re.search(r'(c16_tu\d+\.cpp):(\d+):\d+:\s+required from here', e.log)
                if loc:
                    src = dict(sources(pairs, model, mds, args))[loc.group(1)].split('\n')
                    m = re.search(r'// PROBE (\d+)', src[int(loc.group(2)) - 1]) if int(loc.group(2)) - 1 < len(src) else None
            if m:
                k = int(m.group(1)); d, s = pairs[k]
                rep.violation(dict(kind='conversion-accepted-by-its-constraints-does-not-compile', pair=[list(d), list(s)], target=cxx_map(*d), source=cxx_map(*s), config=cfg,
                                   compiler_errors=[l for l in e.log.split('\n') if 'error' in l][:4]))
            else: rep.broke(dict(correspondence='C16 probe build (%s)' % cfg, why=str(e), log=e.log[-3000:]))
            continue
        rep.notes.setdefault('probe_build_s', {})[cfg] = round(secs, 1)
        hard = [p for p, m in zip(pairs, model) if m.get('hard') == '1' and m.get('ctor') == '1']
        mandate_probes(random.Random(seed).sample(hard, min(len(hard), 16 if not thorough else 80)), cfg, rep)
        acc_cv_probes(cfg, rep)
        out = C.run([exe]).stdout.split('\n'); k = 0
        for (d, s), m, ml in zip(pairs, model, mlines):
            xi = kv(out[k]); k += 1; rep.cov['evaluations'] += 1; rep.cov['traces_validated_against_impl'] += 1
            pub = dict(pair=[list(d), list(s)], target=cxx_map(*d), source=cxx_map(*s), config=cfg)
            sp = spec_map(d, s)
            want_ctor = sp is not None; want_conv = (sp is False) or (cxx17 and want_ctor)
            if d != s and len(d[2]) >= 1: rep.nontrivial((d, s))
            if (xi.get('ctor') == '1') != want_ctor:
                rep.violation(dict(kind='conversion-%s-although-the-specification-says-otherwise' % ('participates' if xi.get('ctor') == '1' else 'does-not-participate'), impl=out[k - 1], **pub)); continue
            if (xi.get('conv') == '1') != want_conv:
                rep.violation(dict(kind='conversion-is-%s-but-specified-%s' % ('implicit' if xi.get('conv') == '1' else 'explicit', 'implicit' if want_conv else 'explicit'), impl=out[k - 1], **pub)); continue
            mconv = m['conv'] if not cxx17 else m['ctor']
            if xi.get('ctor') != m['ctor'] or xi.get('conv') != mconv:
                rep.broke(dict(correspondence='C16 mapping traits vs Impl.mapConstructible/mapConvertible', impl=out[k - 1], model=ml + ' -> ' + str(m), **pub)); continue
            if sp is True and len(d[2]) == 2: rep.sample(dict(target=cxx_map(*d), source=cxx_map(*s), traits=out[k - 1]), cap=5)
        for (de, d, se, s), m, ml in zip(mds, mds_model, mds_lines):
            xi = kv(out[k]); k += 1; rep.cov['evaluations'] += 1
            sp = spec_map(d, s); acc = de[0] == se[0] and (not se.endswith('c') or de.endswith('c'))
            want_ctor = sp is not None and acc; want_conv = want_ctor and ((sp is False) or cxx17)
            pub = dict(mdspan_pair=[de, list(d), se, list(s)], config=cfg)
            if (xi.get('ctor') == '1') != want_ctor or (xi.get('conv') == '1') != want_conv:
                rep.violation(dict(kind='mdspan-conversion-differs-from-(mapping-and-accessor-convert)', impl=out[k - 1], specified=dict(ctor=want_ctor, conv=want_conv), **pub)); continue
            mconv = m['conv'] if not cxx17 else m['ctor']
            if xi.get('ctor') != m['ctor'] or xi.get('conv') != mconv: rep.broke(dict(correspondence='C16 mdspan traits vs Impl.mds*', impl=out[k - 1], model=str(m), **pub))
        for a, ml, xm in zip(args, arg_lines, arg_model):
            xi = out[k]; k += 1; rep.cov['evaluations'] += 1
            what, rank, rd, n, ak, lay = a; cst = what in ('arr', 'sarr', 'sspan'); conv, noth = ((ARGK_C if cst else ARGK)[ak][1], (ARGK_C if cst else ARGK)[ak][2]) if (n or cst) else (1, 1)
            if xi == 'na': continue      # std::span forms exist from C++20 on
            if what == 'ext': want = 'ok %d' % (1 if (n == 0 or (conv and noth and n in (rank, rd))) else 0)
            elif what in ('call', 'br1', 'sarr', 'sspan'): want = 'ok %d' % (1 if (conv and noth and n == rank) else 0)
            elif what == 'arr':
                ok = conv and noth and n in (rank, rd); want = 'ok %d expl=%d' % (1 if ok else 0, 1 if (ok and n != rd and not cxx17) else 0)
            else: want = 'ok %d' % (1 if (conv and noth and n in (rank, rd) and lay != 'stride') else 0)
            pub = dict(args=list(a), config=cfg)
            xm2 = xm if what != 'arr' else (xm.split(' expl=')[0] + ' expl=%d' % (1 if (xm.startswith('ok 1') and xm.endswith('expl=1') and not cxx17) else 0))
            if xi != want:
                rep.violation(dict(kind='index/extent-argument-pack-participation-differs-from-the-specification', impl=xi, specified=want, **pub)); continue
            if xi != xm2: rep.broke(dict(correspondence='C16 argument packs vs Impl.indexArgsOK/indexCallOK/arrayArgOK/mdsIndexCtorOK', impl=xi, model=xm, **pub))
    rep.assumptions = ['C++ overload resolution and the type traits are the compiler\'s', 'explicitness exists only from C++20 on (README): C++17 expects convertible == constructible']
    return rep.finish(audit)
