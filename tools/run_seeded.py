#!/usr/bin/env python3
"""Applies every seeded change under seeded/<id>/patch.diff to /repo (one at a time, always
reverted), runs the quick check of the property it targets (plus any listed in meta.json
'also_run'), and prints / writes the detection table (seeded/RESULTS.md).
usage: tools/run_seeded.py [id ...]"""
import os, sys, json, subprocess, glob, time
HERE = os.path.dirname(os.path.dirname(os.path.abspath(__file__)))
def run(cmd, **kw): return subprocess.run(cmd, capture_output=True, text=True, **kw)
def main():
    ids = sys.argv[1:] or sorted(os.path.basename(os.path.dirname(p)) for p in glob.glob(os.path.join(HERE, 'seeded', '*', 'patch.diff')))
    rows = []
    for i in ids:
        d = os.path.join(HERE, 'seeded', i); meta = json.load(open(os.path.join(d, 'meta.json')))
        props = [meta['property']] + meta.get('also_run', [])
        st = run(['git', '-C', '/repo', 'status', '--porcelain', '--untracked-files=no']).stdout.strip()
        if st: print('refusing: /repo has local modifications'); return 2
        a = run(['git', '-C', '/repo', 'apply', os.path.join(d, 'patch.diff')])
        if a.returncode != 0: rows.append((i, meta['property'], 'PATCH DOES NOT APPLY', '')); continue
        try:
            res = []
            for p in props:
                t0 = time.time()
                r = run(['timeout', '3000', 'python3', os.path.join(HERE, 'check.py'), p, '--tier', 'quick'], cwd=HERE)
                viol = [l for l in r.stdout.split('\n') if l.startswith('VIOLATION')]
                kind = ''
                if viol:
                    rp = viol[0].split('replay=')[1].split()[0]
                    try:
                        rj = json.load(open(rp)); kind = rj.get('kind') or rj.get('correspondence') or rj.get('record', '')
                    except Exception: pass
                    res.append('%s: REPORTED%s (%s)' % (p, ' [no-failing-input-found]' if 'no-failing-input-found' in viol[0] else '', kind[:90]))
                else: res.append('%s: quiet (rc=%d)' % (p, r.returncode))
        finally:
            run(['git', '-C', '/repo', 'checkout', '--', '.'])
        rows.append((i, meta['property'], '; '.join(res), meta.get('needs', '')))
        print(i, '|', '; '.join(res), flush=True)
    with open(os.path.join(HERE, 'seeded', 'RESULTS.md'), 'w') as f:
        f.write('| seeded change | property | quick checks | needs to manifest |\n|---|---|---|---|\n')
        for r in rows: f.write('| %s | %s | %s | %s |\n' % (r[0], r[1], r[2], str(r[3]).replace('|', '/').replace('\n', ' ')[:300]))
    return 0
sys.exit(main())
