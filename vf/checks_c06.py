"""C06: extents report what they were built from (6 construction paths, conversion, comparison)."""
import random
from . import common as C
import harness.gen_ext as G
from .mapfam import canon

def build(cfg='gcc20-ubsan'):
    return C.cxx_build('extsrv', G.sources(), config=cfg)
def warm(prop): build()

def rep_vals(rnd, t, s=None):
    """a value generator: mostly small, some at the top of the types, some not representable in the target"""
    H = min(C.hi(t), C.hi(s)) if s else C.hi(t)
    c = rnd.random()
    if c < 0.55: return rnd.randint(0, 6)
    if c < 0.75: return rnd.choice([H, H - 1, H // 2, H // 2 + 1])
    if c < 0.9: return rnd.randint(0, H)
    return None   # caller substitutes an out-of-range value

def parse_obs(s):
    if not s.startswith('rank='): return None
    d = dict(x.split('=') for x in s.split())
    d['e'] = [] if d['e'] == '-' else [int(x) for x in d['e'].split(',')]
    return d

def check(prop, tier, seed, replay=None):
    rep = C.Report(prop, tier, seed); audit = C.proof_audit(prop); rnd = random.Random(seed)
    thorough = tier == 'thorough'
    # the last configuration enables assertions and the library's _MDSPAN_DEBUG precondition checks: valid inputs must not trip them
    configs = (['gcc20-ubsan', 'gcc17-ubsan'] if not thorough else ['gcc20-ubsan', 'clang20-ubsan', 'gcc17-ubsan', 'clang17-O0-ndebug-emul']) + ['gcc23-O0-assert-mdspandebug']      # C++17: the hand-written operator!=
    rep.cov['rule'] = ('all 2^r static/dynamic patterns for rank<=3 (static values in every position; rank 4 for two index types) x 8 index types x 3 source element types x 6 construction paths '
                       '(pack/array/span x dynamic-only/all values); 420 ordered pairs of extents types of rank 0-3 plus 43 pairs of rank 4-7 for conversion and comparison; values small, at the top of the types, and (tie only) not representable; '
                       'non-trivial = rank>=1 and all values representable; distinct by op line')
    cases = []   # (line, kind, meta)
    if replay: cases = [(replay['line'], replay['fam'], replay.get('meta'))]
    else:
        reps = 3 if not thorough else 12
        for i in G.ctor_instances():
            t, s, pat, path = i
            n = sum(1 for p in pat if p is None) if path.endswith('_dyn') else len(pat)
            for _ in range(reps):
                vals = []; adm = True
                for k in range(n):
                    pos = k if not path.endswith('_dyn') else [q for q, p in enumerate(pat) if p is None][k]
                    if not path.endswith('_dyn') and pat[pos] is not None: vals.append(pat[pos]); continue
                    v = rep_vals(rnd, t, s)
                    if v is None:
                        v = rnd.choice([C.hi(s), C.lo(s), -1 if C.lo(s) < 0 else C.hi(s), C.hi(t) + 1 if C.hi(t) < C.hi(s) else C.hi(s)])
                    vals.append(v)
                adm = all(0 <= v <= min(C.hi(t), C.hi(s)) for v in vals)
                cases.append((G.cline(i) + ' vals=%s obs' % C.fmt(vals), 'ctor', dict(inst=[t, s, list(pat), path], vals=vals, adm=adm)))
        for p in G.pair_instances():
            (t, pt), (u, pu) = p
            for _ in range(reps):
                # source values: static positions fixed; where the target is static the value must match (conversion precondition)
                sv = []
                for k, x in enumerate(pu):
                    if x is not None: sv.append(x)
                    elif len(pt) == len(pu) and pt[k] is not None: sv.append(pt[k])
                    else:
                        v = rep_vals(rnd, t, u); sv.append(v if v is not None else rnd.randint(0, 5))
                cases.append((G.pline('extconv', p) + ' vals=%s obs' % C.fmt(sv), 'conv', dict(pair=[[t, list(pt)], [u, list(pu)]], vals=sv)))
                # comparison: equal values, one differing value, or independent
                a = [x if x is not None else (rep_vals(rnd, t) or 1) for x in pt]
                if len(pt) == len(pu) and rnd.random() < 0.6:
                    b = [x if x is not None else a[k] for k, x in enumerate(pu)]
                    if rnd.random() < 0.4 and any(x is None for x in pu):
                        k = rnd.choice([q for q, x in enumerate(pu) if x is None]); b[k] = b[k] + 1 if b[k] < C.hi(u) else b[k] - 1
                    elif rnd.random() < 0.35 and any(x is None for x in pu):
                        # a value that is congruent to the other operand's modulo the narrower type's range (must compare unequal)
                        k = rnd.choice([q for q, x in enumerate(pu) if x is None]); w = b[k] + 2 ** min(C.ITYPES[t][0], C.ITYPES[u][0])
                        if w <= C.hi(u): b[k] = w
                    b = [min(max(x, 0), C.hi(u)) for x in b]
                else: b = [x if x is not None else (rep_vals(rnd, u) or 2) for x in pu]
                cases.append((G.pline('exteq', p) + ' vals=%s vals2=%s obs' % (C.fmt(a), C.fmt(b)), 'eq', dict(pair=[[t, list(pt)], [u, list(pu)]], a=a, b=b)))
    lines = [c[0] for c in cases]
    mout = [canon(x) for x in C.driver(lines)]
    rep.notes['configs'] = configs; rep.notes['families'] = {k: sum(1 for c in cases if c[1] == k) for k in ('ctor', 'conv', 'eq')}
    for cfg in configs:
        try: exe, secs, cached = build(cfg)
        except C.BuildError as e:
            rep.broke(dict(correspondence='ext op server build (%s)' % cfg, why=str(e), log=e.log[-3000:])); continue
        rep.notes.setdefault('server_build_s', {})[cfg] = round(secs, 1)
        partial = C.report_dropped(rep, exe, 'ext op server', cfg)
        if 'mdspandebug' in cfg:
            # debug configuration: only lines whose values satisfy every precondition (a tripped check ends the process)
            def valid(c):
                line, fam, meta = c
                if not meta: return False
                if fam == 'ctor': return meta['adm']
                (t, pt), (u, pu) = meta['pair']
                if fam == 'conv': return all(0 <= v <= min(C.hi(t), C.hi(u)) for v in meta['vals'])
                return all(0 <= v <= C.hi(t) for v in meta['a']) and all(0 <= v <= C.hi(u) for v in meta['b'])
            sel = [k for k, c in enumerate(cases) if valid(c)]
            out = C.pipe(exe, [lines[k] for k in sel]); iout = ['skip'] * len(lines)
            for k, x in zip(sel, out): iout[k] = canon(x)
            died = next((k for k in sel if iout[k].startswith('died')), None)
            if died is not None:
                rep.violation(dict(kind='valid-input-trips-a-debug-check-or-crashes (assertions + _MDSPAN_DEBUG)', line=lines[died], fam=cases[died][1], meta=cases[died][2], impl=iout[died], config=cfg))
                for k in sel:
                    if iout[k].startswith('died'): iout[k] = 'skip'
        else: iout = [canon(x) for x in C.pipe(exe, lines)]
        for (line, fam, meta), xi, xm in zip(cases, iout, mout):
            if xi == 'skip' or (partial and xi == 'no-inst'): continue
            rep.cov['evaluations'] += 1; rep.cov['traces_validated_against_impl'] += 1
            pub = dict(line=line, fam=fam, meta=meta, config=cfg)
            if xi == 'no-inst' and xm == 'no-inst': continue
            if xi == 'no-op' and 'k=span_' in line and '17' in cfg.split('-')[0]: continue     # std::span construction paths exist from C++20 on (README)
            cmp_i, cmp_m = xi, xm
            if '17' in cfg.split('-')[0]:      # explicitness exists from C++20 on (README): before, is_convertible == is_constructible
                cmp_i, cmp_m = xi.split(' impl=')[0], xm.split(' impl=')[0]
            if cmp_i != cmp_m:
                rep.broke(dict(correspondence='ext family, exact transcript', impl=xi, model=xm, **pub))
            # property statement on the implementation
            if fam == 'ctor' and meta and meta['adm']:
                t, s, pat, path = meta['inst']; vals = meta['vals']; d = parse_obs(xi)
                if d is None: rep.violation(dict(kind='extents-construction-undefined', impl=xi, **pub)); continue
                dynpos = [q for q, p in enumerate(pat) if p is None]
                want = [p if p is not None else (vals[dynpos.index(q)] if path.endswith('_dyn') else vals[q]) for q, p in enumerate(pat)]
                se = ','.join('D' if p is None else str(p) for p in pat) if pat else '-'
                if len(pat) >= 1: rep.nontrivial(line)
                if int(d['rank']) != len(pat) or int(d['rd']) != len(dynpos) or d['se'] != se:
                    rep.violation(dict(kind='rank/rank_dynamic/static_extent-not-as-spelled', impl=xi, **pub)); continue
                if d['e'] != want:
                    r = next(q for q in range(len(want)) if q >= len(d['e']) or d['e'][q] != want[q])
                    rep.violation(dict(kind='extent(r)-differs-from-static-extent-or-supplied-value', r=r, impl=d['e'], specified=want, **pub)); continue
                if len(pat) >= 2 and len(dynpos) >= 1: rep.sample(dict(line=line, result=xi))
            elif fam == 'conv' and meta:
                d = parse_obs(xi)
                if d is None:
                    if xi != 'no-inst': rep.violation(dict(kind='extents-conversion-undefined', impl=xi, **pub))
                    continue
                (t, pt), (u, pu) = meta['pair']
                if all(0 <= v <= min(C.hi(t), C.hi(u)) for v in meta['vals']):
                    rep.nontrivial(line)
                    if d['e'] != meta['vals']: rep.violation(dict(kind='converted-extents-differ-from-source', impl=d['e'], specified=meta['vals'], **pub)); continue
            elif fam == 'eq' and meta:
                if not xi.startswith('eq='): rep.violation(dict(kind='extents-comparison-undefined', impl=xi, **pub)); continue
                d = dict(x.split('=') for x in xi.split()); want = meta['a'] == meta['b']
                rep.nontrivial(line)
                if (d['eq'] == '1') != want or (d['ne'] == '1') == want or (d['rev'] == '1') != want:
                    rep.violation(dict(kind='extents-equality-not-(same-rank-and-equal-extents)', impl=xi, specified_equal=want, **pub)); continue
                if want and len(meta['a']) >= 2: rep.sample(dict(line=line, result=xi), cap=12)
    rep.assumptions = ['values outside the index type are compared with the model only (modular conversion), never fed to the property oracle']
    return rep.finish(audit)
