import Driver.Util
import MdspanVerif.Model.LayoutM
import MdspanVerif.Model.Adm
open Mdspan
namespace Drv
/-- `c20 <left|right> <T> k=<U>:<rank> ext= str= [ndebug=1] [adm]` -/
def c20Line (kind t : String) (rest : List String) : String :=
  let ku := ((getKey rest "k").getD "").splitOn ":"
  match parseTy t, parseTy (ku.headD "") with
  | some T, some U =>
    let esU := wrapL U (parseList ((getKey rest "ext").getD "-"))
    let ss := wrapL U (parseList ((getKey rest "str").getD "-"))
    let es := wrapL T esU                       -- the target's extents: converted copy of the source's
    let ndebug := (getKey rest "ndebug").getD "0" == "1"
    if (plainToks rest).contains "adm" then
      -- admissible: a valid source mapping whose span is representable in both index types
      -- admissible: a valid source mapping (in its own index type) and extents whose canonical mapping is representable in the target's
      let ok := !(esU.any (· < 0)) && !(ss.any (· < 0)) &&
        (Layout.stride (esU.map Int.toNat) (ss.map Int.toNat)).admB U && (Layout.left (esU.map Int.toNat)).admB T
      s!"ok {fmtB ok}"
    else if ndebug || es.isEmpty then s!"ok {fmtL es}"
    else
      match (if kind == "left" then walkLeftM T U es ss else walkRightM T U es ss) with
      | .ok true => "abort"
      | .ok false => s!"ok {fmtL es}"
      | .error e => ubStr e
  | _, _ => "bad-op"
end Drv
