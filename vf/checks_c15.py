"""C15: identical results across language modes, compilers, optimisation levels, attribute vs
emulation, bracket vs paren, NDEBUG vs assertions (incl. _MDSPAN_DEBUG): the same op lines are run
by the same op-server sources in every configuration and each transcript is compared with the ONE
model transcript (equality among configurations follows by transitivity); a server that dies on a
valid input (assert / abort) is a violation."""
import random, itertools
from . import common as C
from . import mapfam as F, subfam as S, viewfam as V
import harness.gen_map as GM, harness.gen_sub as GS, harness.gen_view as GV, harness.gen_conv as GC
from . import checks_c08 as K08

QUICK = ['clang23-O2-ndebug', 'clang17-O0-ndebug-emul', 'gcc17-O2-assert', 'gcc23-O0-assert-mdspandebug']
THOROUGH = QUICK + ['gcc20-ubsan', 'gcc20-O2-ndebug-emul', 'clang20-O0-assert', 'gcc23-O0-assert', 'clang20-ubsan', 'gcc23-ubsan', 'gcc17-ubsan']
CXX14 = ['gcc14-O0-assert-emul', 'clang14-O2-ndebug', 'clang14-O0-assert', 'gcc14-O2-ndebug']

def warm(prop):
    pass

def c14_lines(rnd, n):
    lines = []
    for _ in range(n):
        kind = rnd.choice(['left', 'right', 'stride']); t = rnd.choice(['i32', 'u8', 'i64', 'i16', 'u64']); r = rnd.randint(0, 3); H = C.hi(t)
        es = [rnd.choice([0, 1, 2, 3, 4, 5]) for _ in range(r)]
        if rnd.random() < 0.3 and r:
            es = []; rem = H
            for k in range(r):
                e = rnd.randint(1, max(1, int(rem ** (1.0 / (r - k))))); es.append(e); rem = max(1, rem // e)
        ss = F.chain_strides(rnd, es, (1, 1, 2)) if kind == 'stride' else None
        if ss and (max(ss + [0]) > H or 1 + sum((max(e, 1) - 1) * s for e, s in zip(es, ss)) > H): continue
        if C.prod([max(e, 1) for e in es]) > H: continue
        pat = ','.join(['D'] * r) if r else '-'
        base = '%s %s pat=%s ext=%s' % (kind, t, pat, C.fmt(es)) + (' str=%s' % C.fmt(ss) if ss else '')
        lines.append('map ' + base + ' span'); lines.append('map ' + base + ' strides'); lines.append('map ' + base + ' flags')
        if all(e > 0 for e in es):
            ix = [rnd.randrange(e) for e in es]
            lines.append('map ' + base + ' off ' + C.fmt(ix))
            small = 1 + sum((e - 1) * s for e, s in zip(es, ss if ss else ([C.prod(es[:k]) for k in range(r)] if kind == 'left' else [C.prod(es[k + 1:]) for k in range(r)]))) < 2000
            lines.append('v14 ' + base + ' obs' + ((' ' + C.fmt(ix)) if (small and r) else ''))
        else: lines.append('v14 ' + base + ' obs')
    # extents with mixed patterns through the four pre-C++20 construction paths (distinct values at the dynamic positions)
    for t in ('i32', 'u8', 'i64'):
        for pat in ('D,3,D', '2,D,D', 'D,D,4', 'D,3', 'D,D,D', 'D,3,D,D', '2,3'):
            ps = pat.split(',')
            for k in ('pack_all', 'pack_dyn', 'array_all', 'array_dyn'):
                for _ in range(2):
                    dyn = rnd.sample(range(1, 9), len([p for p in ps if p == 'D'])) if any(p == 'D' for p in ps) else []
                    it = iter(dyn); allv = [int(p) if p != 'D' else next(it) for p in ps]
                    vals = allv if k.endswith('_all') else dyn
                    lines.append('ext %s %s pat=%s k=%s vals=%s obs' % (t, t, pat, k, C.fmt(vals)))
    return lines

def check(prop, tier, seed, replay=None):
    rep = C.Report(prop, tier, seed); audit = C.proof_audit(prop); thorough = tier == 'thorough'
    configs = THOROUGH if thorough else QUICK
    # the debug-check sites of the source vs the modelled set (theorem C15_debug_checks_silent)
    from . import sites as SITES
    got, new, gone = SITES.compare(C.os.path.join(C.REPO, 'include'), C.os.path.join(C.LEAN, 'debug_sites.json'))
    rep.notes['debug_check_sites'] = len(got)
    if new or gone:
        rep.broke(dict(correspondence='debug-check sites extracted from the source vs the modelled set (Props/C15b.lean, lean/debug_sites.json): theorem C15_debug_checks_silent no longer covers the code as it is',
                       new_or_changed=[list(x) for x in new][:8], gone=[list(x) for x in gone][:8]))
    rep.cov['rule'] = ('the map, sub and view op families (reduced instantiation matrix in the quick tier) with the generators of C01-C14 restricted to admissible lines, run in every configuration: '
                       '{g++, clang++} x {c++17, 20, 23} x {attribute, emulation} x {O0, O2} x {NDEBUG, assertions, assertions + _MDSPAN_DEBUG} x {bracket, paren}; plus a C++14-only server (mappings, mdspan observers / operator() access: '
                       'fold and concept emulations) in g++/clang++ x O0/O2 x attribute/emulation; every transcript is compared with the single model transcript; non-trivial = admissible op line of rank >= 1')
    rep.notes['configs'] = configs + CXX14[:2 if not thorough else 4]
    minsts = GM.instances() if thorough else GM.lite(GM.instances())
    sinsts = GS.instances() if thorough else GS.lite(GS.instances())
    vinsts = GV.instances() if thorough else GV.lite(GV.instances())
    rep.notes['instantiations'] = dict(map=len(minsts), sub=len(sinsts), view=len(vinsts))
    rnd = random.Random(seed)
    def sample(cs, n): return cs if len(cs) <= n else rnd.sample(cs, n)
    mcases = sample([c for c in F.gen_cases(seed, 'quick', minsts)], 2500 if not thorough else 9000)
    scases = sample(S.gen_cases(seed, 'quick', sinsts), 4000 if not thorough else 20000)
    vset = set(vinsts)
    vcases = [c for c in V.gen_cases(seed, 'quick', {'C11', 'C03', 'C13'}) if c.inst in vset]
    per_cfg = {}
    for cfg in configs:
        n_ok = 0
        for fam, build, cases, run in (('map', lambda: C.cxx_build('mapsrv' + ('' if thorough else '-lite'), GM.sources(minsts), config=cfg), mcases, F.run_cases),
                                       ('sub', lambda: C.cxx_build('subsrv' + ('' if thorough else '-lite'), GS.sources(sinsts), config=cfg), scases, S.run_cases),
                                       ('view', lambda: C.cxx_build('viewsrv' + ('' if thorough else '-lite'), GV.sources(insts=vinsts), config=cfg), vcases, V.run_cases)):
            try: exe, secs, cached = build()
            except C.BuildError as e:
                rep.violation(dict(kind='library-does-not-compile-in-a-supported-configuration', family=fam, config=cfg, errors=[l for l in e.log.split('\n') if 'error' in l][:5])); continue
            rep.notes.setdefault('build_s', {})['%s/%s' % (fam, cfg)] = round(secs, 1)
            run(cases, exe)
            for c in cases:
                if fam == 'view':
                    rep.cov['evaluations'] += 1; rep.cov['traces_validated_against_impl'] += 1
                    if c.model in ('ub',) or 'no-form' in c.model: continue
                    spanless = '17' in cfg.split('-')[0]
                    impl, model = c.impl, c.model
                    if spanless and (':span:' in '/'.join(c.seq) or 'csd:' in '/'.join(c.seq) or 'csa:' in '/'.join(c.seq)): continue     # std::span forms exist from C++20 on (README)
                    if impl != model:
                        dead = impl.startswith('died') or impl in ('segv', 'ub')
                        rep.violation(dict(kind='debug-check-or-crash-on-valid-input' if dead else 'result-differs-between-configurations', family=fam, config=cfg, line=c.line()[:500], impl=impl[:400], model_and_other_configurations=model[:400])); continue
                    n_ok += 1
                    if len(c.ext) >= 1: rep.nontrivial(('view', c.line()))
                    continue
                if not c.adm and getattr(c, 'stream', '') != 'default-ctor': continue      # default construction takes no input: always valid
                for (op, xi, xm) in zip(c.ops, c.impl, c.model):
                    rep.cov['evaluations'] += 1
                    if xm == 'ub': continue
                    if xi != xm:
                        dead = xi.startswith('died') or xi in ('segv', 'ub')
                        rep.violation(dict(kind='debug-check-or-crash-on-valid-input' if dead else 'result-differs-between-configurations', family=fam, config=cfg, line=c.base(), op=op if isinstance(op, str) else list(op), impl=xi[:300], model_and_other_configurations=xm[:300])); break
                    n_ok += 1
                rep.cov['traces_validated_against_impl'] += 1
                if len(c.ext) >= 1: rep.nontrivial((fam, c.base()))
        # mapping conversions and comparisons (C08's family): the debug-only precondition checks must not fire on valid input
        cinsts = GC.instances() if thorough else GC.lite(GC.instances())
        conv, eqs = K08.gen(seed, 'quick', cinsts)
        pre = [x == 'ok 1' for x in C.driver([l + ' pre' for l, _ in conv])]
        clines = [l for (l, _), p in zip(conv, pre) if p] + [l for l, _ in eqs]
        if len(clines) > 6000: clines = random.Random(seed).sample(clines, 6000)
        cm = [F.canon(x) for x in C.driver(clines)]
        try:
            exe, secs, cached = C.cxx_build('convsrv' + ('' if thorough else '-lite'), GC.sources(insts=cinsts), config=cfg)
            co = [F.canon(x) for x in C.pipe(exe, clines)]
            for l, xi, xm in zip(clines, co, cm):
                rep.cov['evaluations'] += 1
                core = xi.split(' impl=')[0]
                if '17' in cfg.split('-')[0] and ' impl=' in xi: pass
                if core != xm:
                    dead = xi.startswith('died') or xi in ('segv', 'ub')
                    rep.violation(dict(kind='debug-check-or-crash-on-valid-input' if dead else 'result-differs-between-configurations', family='conv', config=cfg, line=l, impl=xi[:300], model_and_other_configurations=xm[:300])); break
                n_ok += 1
        except C.BuildError as e:
            rep.violation(dict(kind='library-does-not-compile-in-a-supported-configuration', family='conv', config=cfg, errors=[l for l in e.log.split('\n') if 'error' in l][:5]))
        per_cfg[cfg] = n_ok
    # C++14
    lines14 = c14_lines(random.Random(seed + 14), 400 if not thorough else 3000)
    m14 = [F.canon(x) for x in C.driver(lines14)]
    for cfg in CXX14[:2 if not thorough else 4]:
        try: exe, secs, cached = C.cxx_build('c14srv', [C.os.path.join(C.HARNESS, 'c14srv.cpp')], config=cfg)
        except C.BuildError as e:
            rep.violation(dict(kind='library-does-not-compile-in-a-supported-configuration', family='c++14', config=cfg, errors=[l for l in e.log.split('\n') if 'error' in l][:5])); continue
        out = [F.canon(x) for x in C.pipe(exe, lines14)]; n_ok = 0
        for l, xi, xm in zip(lines14, out, m14):
            rep.cov['evaluations'] += 1; rep.cov['traces_validated_against_impl'] += 1
            if xm == 'ub': continue
            if xi != xm:
                rep.violation(dict(kind='debug-check-or-crash-on-valid-input' if xi.startswith('died') else 'result-differs-between-configurations', family='c++14', config=cfg, line=l, impl=xi[:300], model_and_other_configurations=xm[:300])); continue
            n_ok += 1
            if ' pat=- ' not in l: rep.nontrivial(('c14', l))
            if l.startswith('v14') and ' a=' in xi: rep.sample(dict(config=cfg, line=l, result=xi), cap=4)
        per_cfg[cfg] = n_ok
    rep.notes['agreeing_observations_per_configuration'] = per_cfg
    rep.assumptions = ['that two compilers implement the same abstract machine is an observation on the scenarios run, not a theorem', 'only the README\'s compile-time differences are conditionally compiled in the harness (std::span forms, bracket/paren spelling, C++14 feature set)']
    return rep.finish(audit)
