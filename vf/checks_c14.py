"""C14: admissible inputs execute no UB (UBSan trap observation on every op line the model marks
admissible; the model's own verdict; trap exactly where the machine layer predicts it on signed
beyond-boundary lines) and constant evaluation gives the run-time values."""
import json, random
from . import common as C
from . import mapfam as F
import harness.gen_map as G

def warm(prop):
    F.build_server('gcc20-ubsan')
    from . import subfam as S
    S.build_server('gcc20-ubsan')

def payload(c, **kw):
    d = dict(case=c.pub(), ops=[[o, a] for o, a in c.ops][:40]); d.update(kw); return d

# ------------------------------------------------------------------ constant evaluation
def lit(t, v): return 'static_cast<%s>(%dull)' % (C.ITYPES[t][2], v)

def cx_block(n, c):
    kind, t, pat, sp = c.inst; I = C.ITYPES[t][2]; r = len(c.ext)
    E = G.cxx_extents(t, pat)
    lay = {'left': 'md::layout_left', 'right': 'md::layout_right', 'stride': 'md::layout_stride',
           'lpad': 'mdx::layout_left_padded<%s>' % ('md::dynamic_extent' if sp == 'D' else sp),
           'rpad': 'mdx::layout_right_padded<%s>' % ('md::dynamic_extent' if sp == 'D' else sp)}[kind]
    ext = 'E(%s)' % ', '.join(lit(t, e) for e in c.ext) if r else 'E()'
    if kind == 'stride': ctor = 'M(%s, std::array<I, %d>{%s})' % (ext, r, ', '.join(lit(t, s) for s in c.str))
    elif c.pv is not None: ctor = 'M(%s, %s)' % (ext, lit(t, c.pv))
    else: ctor = 'M(%s)' % ext
    body = ['static void blk_%d() {' % n, '  using I = %s; using E = %s; using M = %s::mapping<E>;' % (I, E, lay), '  constexpr M m = %s;' % ctor]
    k = 0; ops = []
    for op, arg in c.ops:
        v = 'v_%d_%d' % (n, k)
        if op == 'span': body.append('  constexpr I %s = m.required_span_size(); puts(vh::ok<I>(%s).c_str());' % (v, v))
        elif op == 'off':
            idx = [] if arg == '-' else arg.split(',')
            body.append('  constexpr I %s = static_cast<I>(m(%s)); puts(vh::ok<I>(%s).c_str());' % (v, ', '.join(lit(t, int(i)) for i in idx), v))
        elif op == 'stride' and r > 0:
            body.append('  constexpr I %s = m.stride(%s); puts(vh::ok<I>(%s).c_str());' % (v, arg, v))
        elif op == 'strides' and r > 0:
            body.append('  constexpr std::array<I, %d> %s = {%s}; puts(("ok " + vh::list(%s)).c_str());' % (r, v, ', '.join('m.stride(%d)' % q for q in range(r)), v))
        elif op == 'exh':
            body.append('  constexpr int %s = m.is_exhaustive() ? 1 : 0; puts(vh::ok<int>(%s).c_str());' % (v, v))
        else: continue
        ops.append((op, arg)); k += 1
    body.append('}')
    return '\n'.join(body), ops

def constexpr_run(cases, rep, cfg, ntu=8):
    blocks = []; plan = []
    for n, c in enumerate(cases):
        cc = F.Case(c.inst, c.ext, c.str, c.pv, c.stream); cc.ops = [(o, a) for o, a in c.ops if o in ('span', 'off', 'stride', 'strides')] + [('exh', None)]
        src, ops = cx_block(n, cc); blocks.append(src); plan.append((c, ops))
    tus = []
    for i in range(ntu):
        mine = [b for n, b in enumerate(blocks) if n % ntu == i]
        tus.append(('cx_tu%d.cpp' % i, '#include "vh.hpp"\n' + '\n'.join(mine) + '\nvoid cx_run_%d(int n) { switch (n) {\n' % i +
                    ''.join('  case %d: blk_%d(); break;\n' % (n, n) for n in range(len(blocks)) if n % ntu == i) + '  }\n}\n'))
    main = '#include <cstdio>\n' + ''.join('void cx_run_%d(int);\n' % i for i in range(ntu)) + \
           'int main() { for (int n = 0; n < %d; n++) { switch (n %% %d) {\n' % (len(blocks), ntu) + \
           ''.join('  case %d: cx_run_%d(n); break;\n' % (i, i) for i in range(ntu)) + '  } } return 0; }\n'
    tus.append(('cx_main.cpp', main))
    try:
        exe, secs, cached = C.cxx_build('cxmap', tus, config=cfg)
    except C.BuildError as e:
        # which constexpr variable failed?  v_<case>_<k>
        import re
        m = re.search(r"v_(\d+)_(\d+)", e.log)
        if m:
            c, ops = plan[int(m.group(1))]; op = ops[int(m.group(2))]
            errl = [l for l in e.log.split('\n') if 'error' in l][:3]
            rep.violation(payload(c, kind='call-not-usable-in-constant-expression-or-UB-in-constant-evaluation', op=list(op), compiler_errors=errl, config=cfg))
        else:
            rep.broke(dict(correspondence='constant-evaluation build (%s)' % cfg, why=str(e), log=e.log[-3000:]))
        return 0
    out = C.run([exe]).stdout.split('\n'); p = 0; n = 0
    for c, ops in plan:
        for op, arg in ops:
            got = out[p] if p < len(out) else 'missing'; p += 1; n += 1
            if op == 'exh':
                fl = F.vals(c.out('flags')); want = 'ok %d' % fl[1] if fl else None
                if want is None: continue
            else: want = c.out(op, arg)
            if got != want:
                rep.violation(payload(c, kind='constant-evaluation-differs-from-run-time', op=[op, arg], constexpr_value=got, run_time_value=want, config=cfg))
    rep.notes['constexpr_values_compared_' + cfg] = n
    rep.notes.setdefault('constexpr_build_s', {})[cfg] = round(secs, 1)
    return n

def constexpr_conv_sub(rep, cfg):
    """mapping conversions and submdspan_mapping must be usable in constant expressions (C14, last sentence)"""
    I = 'int'; E2 = 'md::extents<int, md::dynamic_extent, md::dynamic_extent>'; E1 = 'md::extents<int, md::dynamic_extent>'
    lay = {'left': 'md::layout_left', 'right': 'md::layout_right', 'stride': 'md::layout_stride', 'lpad': 'mdx::layout_left_padded<md::dynamic_extent>', 'rpad': 'mdx::layout_right_padded<md::dynamic_extent>',
           'lpad4': 'mdx::layout_left_padded<4>', 'rpad4': 'mdx::layout_right_padded<4>'}
    # source mapping expressions over extents (4,3) whose strides are canonical for the target where required
    src = {'left': 'md::layout_left::mapping<E>(E(4, 3))', 'right': 'md::layout_right::mapping<E>(E(4, 3))',
           'stride_l': 'md::layout_stride::mapping<E>(E(4, 3), std::array<int, 2>{1, 4})', 'stride_r': 'md::layout_stride::mapping<E>(E(4, 3), std::array<int, 2>{3, 1})',
           'lpad': 'mdx::layout_left_padded<md::dynamic_extent>::mapping<E>(E(4, 3), 4)', 'rpad': 'mdx::layout_right_padded<md::dynamic_extent>::mapping<E>(E(4, 3), 3)',
           'lpad4': 'mdx::layout_left_padded<4>::mapping<E>(E(4, 3))', 'rpad4': 'mdx::layout_right_padded<4>::mapping<E>(E(3, 4))'}
    pairs = [('left', 'left'), ('right', 'right'), ('left', 'stride'), ('right', 'stride'), ('lpad', 'stride'), ('rpad', 'stride'), ('stride_l', 'stride'),
             ('stride_l', 'left'), ('stride_r', 'right'), ('lpad', 'left'), ('rpad', 'right'), ('lpad4', 'left'), ('rpad4', 'right'), ('left', 'lpad'), ('right', 'rpad'),
             ('stride_l', 'lpad'), ('stride_r', 'rpad'), ('lpad', 'lpad'), ('rpad', 'rpad'), ('lpad4', 'lpad'), ('left', 'lpad4')]
    body = []; names = []
    for k, (s_, d) in enumerate(pairs):
        body.append('  { using E = %s; constexpr auto sm_%d = %s; constexpr %s::mapping<md::extents<long, md::dynamic_extent, md::dynamic_extent>> dm_%d(sm_%d); '
                    'constexpr long cv_%d = static_cast<long>(dm_%d(2, 1)); puts((std::string("conv %s->%s ") + std::to_string(cv_%d) + " " + std::to_string(static_cast<long>(sm_%d(2, 1)))).c_str()); }'
                    % (E2, k, src[s_], lay[d], k, k, k, k, s_, d, k, k))
        names.append('%s->%s' % (s_, d))
    rank1 = [('left', 'right'), ('right', 'left'), ('lpad', 'rpad'), ('rpad', 'lpad')]
    src1 = {'left': 'md::layout_left::mapping<E>(E(5))', 'right': 'md::layout_right::mapping<E>(E(5))', 'lpad': 'mdx::layout_left_padded<md::dynamic_extent>::mapping<E>(E(5), 4)', 'rpad': 'mdx::layout_right_padded<md::dynamic_extent>::mapping<E>(E(5), 4)'}
    for k, (s_, d) in enumerate(rank1):
        body.append('  { using E = %s; constexpr auto sm1_%d = %s; constexpr %s::mapping<E> dm1_%d(sm1_%d); constexpr int cw_%d = static_cast<int>(dm1_%d(3)); puts((std::string("conv1 %s->%s ") + std::to_string(cw_%d) + " 3").c_str()); }'
                    % (E1, k, src1[s_], lay[d], k, k, k, k, s_, d, k))
        names.append('rank1 %s->%s' % (s_, d))
    subs = [('md::layout_left::mapping<E>(E(4, 3))', 'std::pair<int, int>{1, 3}, md::full_extent'), ('md::layout_right::mapping<E>(E(4, 3))', '2, md::strided_slice<int, int, int>{0, 3, 2}'),
            ('md::layout_stride::mapping<E>(E(4, 3), std::array<int, 2>{1, 5})', 'md::full_extent, 1'), ('md::layout_right::mapping<E>(E(4, 3))', 'std::pair<int, int>{4, 4}, std::pair<int, int>{3, 3}')]
    for k, (m, sl) in enumerate(subs):
        body.append('  { using E = %s; constexpr auto bm_%d = %s; constexpr auto sb_%d = submdspan_mapping(bm_%d, %s); constexpr long so_%d = static_cast<long>(sb_%d.offset); puts((std::string("sub%d ") + std::to_string(so_%d)).c_str()); }' % (E2, k, m, k, k, sl, k, k, k, k))
        names.append('submdspan_mapping %d' % k)
    tu = '#include "vh.hpp"\nint main() {\n' + '\n'.join(body) + '\n  return 0;\n}\n'
    try: exe, secs, cached = C.cxx_build('cxconv', [('cxconv.cpp', tu)], config=cfg)
    except C.BuildError as e:
        import re
        m = re.search(r"(sm1?_|dm1?_|cv_|cw_|sb_|so_|bm_)(\d+)", e.log)
        errl = [l for l in e.log.split('\n') if 'error' in l][:3]
        which = None
        if m:
            k = int(m.group(2)); pre = m.group(1)
            which = names[k] if pre in ('sm_', 'dm_', 'cv_') else names[len(pairs) + k] if pre in ('sm1_', 'dm1_', 'cw_') else names[len(pairs) + len(rank1) + k]
        rep.violation(dict(kind='call-not-usable-in-a-constant-expression', call=which, compiler_errors=errl, config=cfg)); return
    out = C.run([exe]).stdout.strip().split('\n'); n = 0
    for l in out:
        p = l.split()
        if p[0].startswith('conv'):
            n += 1
            if p[2] != p[3]: rep.violation(dict(kind='constant-evaluated-conversion-changes-an-offset', line=l, config=cfg))
    want_sub = ['sub0 1', 'sub1 6', 'sub2 5', 'sub3 12']
    if [l for l in out if l.startswith('sub')] != want_sub: rep.violation(dict(kind='constant-evaluated-submdspan_mapping-offset-differs', got=[l for l in out if l.startswith('sub')], specified=want_sub, config=cfg))
    rep.notes['constexpr_conversions_and_submappings_' + cfg] = len(out)

# ------------------------------------------------------------------ run-time observation
def analyse_map(cases, rep, cfg):
    pred_ub = obs_ub = 0
    for c in cases:
        bad = False
        for (op, arg), xi, xm in zip(c.ops, c.impl, c.model):
            rep.cov['evaluations'] += 1
            if xm == 'ub': pred_ub += 1
            if xi == 'ub': obs_ub += 1
            if c.adm:
                if xi == 'ub' or xi.startswith('died'):
                    rep.violation(payload(c, kind='undefined-behaviour-on-admissible-input', op=[op, arg], impl=xi, model=xm, config=cfg)); bad = True; break
                if xm == 'ub':
                    rep.broke(payload(c, correspondence='machine-layer model', why='model reports UB on an input its own predicate calls admissible (refinement theorem would be false here)', op=[op, arg])); bad = True; break
            if (not c.adm) and xi == 'ub' and xm != 'ub' and F.prop_adm_stride(c):
                # admissible by the letter of the property (and valid by the standard's precondition), outside the model's stricter Layout.admB:
                # the model, which mirrors the unchanged code, executes no UB here - the implementation does
                rep.violation(payload(c, kind='undefined-behaviour-on-admissible-input (valid only because an extent is zero)', op=[op, arg], impl=xi, model=xm, config=cfg)); bad = True; break
            if xi != xm and not bad:
                rep.broke(payload(c, correspondence='map family, exact transcript incl. UB verdict', adm=c.adm, op=[op, arg], impl=xi, model=xm, config=cfg)); bad = True; break
        rep.cov['traces_validated_against_impl'] += 1
        if c.adm and len(c.ext) >= 1:
            rep.nontrivial(c.base())
            if c.stream == 'boundary': rep.sample(dict(line=c.base(), span=c.out('span'), stream=c.stream), cap=6)
    rep.notes['predicted_ub_lines_' + cfg] = pred_ub; rep.notes['observed_trap_lines_' + cfg] = obs_ub

def analyse_sub(cases, rep, cfg):
    pred_ub = obs_ub = 0
    for c in cases:
        for op, xi, xm in zip(c.ops, c.impl, c.model):
            rep.cov['evaluations'] += 1
            if op == 'mds' and not c.adm: continue
            if xm == 'ub': pred_ub += 1
            if xi == 'ub': obs_ub += 1
            if c.adm and (xi == 'ub' or xi.startswith('died')):
                rep.violation(dict(case=c.pub(), ops=c.ops, kind='undefined-behaviour-on-admissible-input', op=op, impl=xi, model=xm[:200], config=cfg, family='sub')); break
            if c.adm and xm == 'ub':
                rep.broke(dict(case=c.pub(), ops=c.ops, correspondence='machine-layer model (sub)', why='model reports UB on an input its own predicate calls admissible', op=op)); break
            if xi != xm:
                rep.broke(dict(case=c.pub(), ops=c.ops, correspondence='sub family, exact transcript incl. UB verdict', adm=c.adm, op=op, impl=xi[:300], model=xm[:300], config=cfg)); break
        rep.cov['traces_validated_against_impl'] += 1
        if c.adm:
            rep.nontrivial(c.base())
            if c.stream == 'boundary': rep.sample(dict(line=c.base(), result=c.out('info')), cap=10)
    rep.notes['sub_predicted_ub_lines_' + cfg] = pred_ub; rep.notes['sub_observed_trap_lines_' + cfg] = obs_ub

def check(prop, tier, seed, replay=None):
    rep = C.Report(prop, tier, seed)
    audit = C.proof_audit(prop)
    configs = ['gcc20-ubsan'] if tier == 'quick' else ['gcc20-ubsan', 'clang20-ubsan', 'gcc23-ubsan']
    cx_configs = ['gcc20-ubsan'] if tier == 'quick' else ['gcc20-ubsan', 'clang20-ubsan']
    rep.notes['configs'] = configs
    rep.cov['rule'] = ('map op family (5 layouts x 8 index types x patterns), exhaustive-small + boundary lattice (spans at, just below and beyond the top of each index type, '
                       'one-element dimensions with huge strides, padding near the extent) + random rank<=6; every line is run under UBSan-trap and compared with the machine-layer model; '
                       'admissible lines must not trap; a sample of admissible cases is additionally evaluated as constexpr variables; non-trivial = admissible, rank>=1; distinct by op-line prefix')
    from . import checks_map as CM
    for cfg in configs:
        try:
            insts, exe, secs, cached = F.build_server(cfg)
        except C.BuildError as e:
            rep.broke(dict(correspondence='op server build (%s)' % cfg, why=str(e), log=e.log[-3000:])); continue
        if replay:
            c = CM.case_from_replay(replay, insts) if replay.get('family') != 'sub' else None; cases = [c] if c else []
        else: cases = F.gen_cases(seed, tier, insts)
        F.run_cases(cases, exe)
        analyse_map(cases, rep, cfg)
        if cfg in cx_configs:
            rnd = random.Random(seed)
            adm = [c for c in cases if c.adm and all(x != 'ub' and x == y for x, y in zip(c.impl, c.model))]
            bnd = [c for c in adm if c.stream == 'boundary']; oth = [c for c in adm if c.stream != 'boundary']
            k = 160 if tier == 'quick' else 600
            pick = rnd.sample(bnd, min(len(bnd), k)) + rnd.sample(oth, min(len(oth), k))
            constexpr_run(pick, rep, cfg)
            constexpr_conv_sub(rep, cfg)
        if replay and replay.get('family') != 'sub': continue
        from . import subfam as S, checks_sub as CS
        try:
            sinsts, sexe, secs, cached = S.build_server(cfg)
        except C.BuildError as e:
            rep.broke(dict(correspondence='sub op server build (%s)' % cfg, why=str(e), log=e.log[-3000:])); continue
        if replay:
            c = CS.case_from_replay(replay, sinsts); scases = [c] if c else []
        else: scases = S.gen_cases(seed, tier, sinsts)
        S.run_cases(scases, sexe)
        analyse_sub(scases, rep, cfg)
    rep.assumptions = ['UB kinds other than integer arithmetic and the modelled arrays (lifetime, aliasing) are not modelled; UBSan and constant evaluation witness them on the inputs run',
                       'LP64, two\'s complement']
    return rep.finish(audit)
