"""C17: deduction guides, member types and noexcept are as specified."""
import itertools, random
from . import common as C
from .checks_c16 import cxx_ext

ARGT = {'int': 'int', 'size_t': 'size_t', 'short': 'short', 'uchar': 'unsigned char', 'ic': 'std::integral_constant<int, 3>', 'long': 'long'}
LAYS = {'left': 'md::layout_left', 'right': 'md::layout_right', 'stride': 'md::layout_stride', 'lpadD': 'mdx::layout_left_padded<md::dynamic_extent>', 'rpad4': 'mdx::layout_right_padded<4>'}
def pat_str(p): return ','.join('D' if x is None else str(x) for x in p) if p else '-'

def gen(seed, tier):
    rnd = random.Random(seed); thorough = tier == 'thorough'; probes = []   # (c++ expression producing a string, expected string, model line or None)
    dpat = lambda n: ','.join(['D'] * n) if n else '-'
    # ---- CTAD
    for n in range(0, 5):
        combos = list(itertools.product(ARGT, repeat=n)); combos = combos if len(combos) <= 12 else rnd.sample(combos, min(len(combos), 12 if not thorough else 60))
        for ts in combos:
            args = ', '.join('%s{}' % ARGT[t] if t == 'ic' else 'static_cast<%s>(2)' % ARGT[t] for t in ts)
            probes.append(('descExt<decltype(md::extents(%s))>()' % args, 'idx=u64 pat=%s' % dpat(n), 'c17 ctad extints n=%d' % n))
            if n >= 1:
                for el, en in (('int', 'int'), ('const int', 'cint')):
                    probes.append(('descMds<decltype(md::mdspan(std::declval<%s*>(), %s))>()' % (el, args), 'elem=%s idx=u64 pat=%s lay=right acc=def' % (en, dpat(n)), 'c17 ctad mdsints n=%d' % n))
    for n in range(0, 5):
        for st in ('int', 'size_t', 'short', 'long long', 'unsigned long long', 'signed char', 'unsigned'):
            probes.append(('descMds<decltype(md::mdspan(std::declval<int*>(), std::declval<const std::array<%s, %d>&>()))>()' % (st, n), 'elem=int idx=u64 pat=%s lay=right acc=def' % dpat(n), 'c17 ctad mdsarray n=%d' % n))
            probes.append(('descMds<decltype(md::mdspan(std::declval<int*>(), std::declval<std::span<%s, %d>>()))>()' % (st, n), 'elem=int idx=u64 pat=%s lay=right acc=def' % dpat(n), 'c17 ctad mdsarray n=%d' % n))
    probes.append(('descMds<decltype(md::mdspan(std::declval<int*>()))>()', 'elem=int idx=u64 pat=- lay=right acc=def', 'c17 ctad mdsptr'))
    probes.append(('descMds<decltype(md::mdspan(std::declval<const int*&>()))>()', 'elem=cint idx=u64 pat=- lay=right acc=def', 'c17 ctad mdsptr'))
    for n in (1, 3, 7):
        probes.append(('descMds<decltype(md::mdspan(std::declval<int(&)[%d]>()))>()' % n, 'elem=int idx=u64 pat=%d lay=right acc=def' % n, 'c17 ctad mdscarray n=%d' % n))
    tys = list(C.ITYPES)
    pats = [(), (None,), (3,), (None, 4), (2, None, 3), (None, None, None)]
    for t in tys:
        for n in range(0, 5):
            probes.append(('descExt<md::dextents<%s, %d>>()' % (C.ITYPES[t][2], n), 'idx=%s pat=%s' % (t, dpat(n)), 'c17 ctad dextents %s n=%d' % (t, n)))
        for p in pats:
            E = cxx_ext(t, p)
            probes.append(('descMds<decltype(md::mdspan(std::declval<int*>(), std::declval<const %s&>()))>()' % E, 'elem=int idx=%s pat=%s lay=right acc=def' % (t, pat_str(p)), None))
            for ln, L in LAYS.items():
                M = '%s::mapping<%s>' % (L, E)
                probes.append(('descMds<decltype(md::mdspan(std::declval<double*>(), std::declval<const %s&>()))>()' % M, 'elem=double idx=%s pat=%s lay=%s acc=def' % (t, pat_str(p), ln), None))
                probes.append(('descMds<decltype(md::mdspan(std::declval<int*>(), std::declval<const %s&>(), std::declval<const StAcc<int>&>()))>()' % M, 'elem=int idx=%s pat=%s lay=%s acc=st' % (t, pat_str(p), ln), None))
                probes.append(('descMds<decltype(md::mdspan(std::declval<const int*>(), std::declval<const %s&>(), std::declval<const md::default_accessor<const int>&>()))>()' % M, 'elem=cint idx=%s pat=%s lay=%s acc=def' % (t, pat_str(p), ln), None))
                # accessors whose reference type is not element_type& (proxy reference; value reference of a read-only accessor): element_type comes from the accessor
                probes.append(('descMds<decltype(md::mdspan(std::declval<PxHandle>(), std::declval<const %s&>(), std::declval<const PxAcc<int>&>()))>()' % M, 'elem=int idx=%s pat=%s lay=%s acc=px' % (t, pat_str(p), ln), None))
                probes.append(('descMds<decltype(md::mdspan(std::declval<const int*>(), std::declval<const %s&>(), std::declval<const ValAcc<int>&>()))>()' % M, 'elem=cint idx=%s pat=%s lay=%s acc=val' % (t, pat_str(p), ln), None))
                # mapping deduction: layout_left/right::mapping(extents), layout_stride::mapping(extents, array)
                if ln in ('left', 'right'):
                    probes.append(('descExt<typename decltype(%s::mapping(std::declval<const %s&>()))::extents_type>()' % (L, E), 'idx=%s pat=%s' % (t, pat_str(p)), None))
                if ln == 'stride':
                    probes.append(('descExt<typename decltype(md::layout_stride::mapping(std::declval<const %s&>(), std::declval<const std::array<int, %d>&>()))::extents_type>()' % (E, len(p)), 'idx=%s pat=%s' % (t, pat_str(p)), None))
                # member types and noexcept
                V = 'md::mdspan<const int, %s, %s, %s>' % (E, L, rnd.choice(['md::default_accessor<const int>', 'StAcc<const int>']))
                ut = 'u' + t[1:]
                probes.append(('memberTypes<%s>()' % V, 'size_type=%s mt=%s' % (ut, '1' * 18), 'c17 member %s' % t))
                probes.append(('noexcepts<%s, %s>()' % (V, 'true' if ln in ('lpadD', 'rpad4') else 'false'), 'ne=' + '1' * 27, None))
    # mdspan's own noexcept guarantees over a user layout whose mapping members are not noexcept
    for t in tys:
        for p in pats:
            if not p: continue
            probes.append(('noexceptsMds<md::mdspan<int, %s, NeLayout>>()' % cxx_ext(t, p), 'nem=' + '1' * 11, None))
            probes.append(('memberTypesMds<md::mdspan<int, %s, SzLayout>>()' % cxx_ext(t, p), 'mtm=11111', None))
            probes.append(('strideCtorFacts<%s>()' % cxx_ext(t, p), 'sc=11111', None))
    return probes

def sources(probes, ntu=16):
    tus = [[] for _ in range(ntu)]
    for k, (ex, _, _) in enumerate(probes): tus[k % ntu].append('  out[%d] = %s;' % (k, ex))
    srcs = [('c17_tu%d.cpp' % i, '#include "c17probe.hpp"\nusing namespace vh;\nvoid c17_%d(std::vector<std::string>& out) {\n%s\n}\n' % (i, '\n'.join(b))) for i, b in enumerate(tus)]
    srcs.append(('c17_main.cpp', '#include <vector>\n#include <string>\n#include <cstdio>\n' + ''.join('void c17_%d(std::vector<std::string>&);\n' % i for i in range(ntu)) +
                 'int main() { std::vector<std::string> out(%d);\n' % len(probes) + ''.join('  c17_%d(out);\n' % i for i in range(ntu)) + '  for (auto& s : out) puts(s.c_str());\n}\n'))
    return srcs

def check(prop, tier, seed, replay=None):
    rep = C.Report(prop, tier, seed); audit = C.proof_audit(prop); thorough = tier == 'thorough'
    probes = gen(seed, tier)
    if replay: probes = [tuple(replay['probe'])]
    rep.cov['rule'] = ('CTAD: extents(ints...) and mdspan(ptr, ints...) for 0-4 arguments of 6 argument types (sampled combinations), mdspan(ptr, array/span<S,N>), mdspan(pointer), mdspan(C array), '
                       'mdspan(ptr, extents), mdspan(ptr, mapping) and mdspan(handle, mapping, accessor) for 8 index types x 6 patterns x 5 layouts, layout_left/right/stride::mapping deduction, dextents<I,N>; '
                       'member types (18 identities incl. mdarray) and 27 noexcept facts per instantiation; non-trivial = every probe except rank-0 ones')
    mlines = [(k, m) for k, (_, _, m) in enumerate(probes) if m]
    mout = dict(zip([k for k, _ in mlines], C.driver([m for _, m in mlines])))
    configs = ['gcc20-O2-ndebug-emul', 'gcc17-O2-assert'] + (['clang20-O0-assert', 'gcc23-O0-assert', 'clang17-O0-ndebug-emul'] if thorough else [])
    rep.notes['configs'] = configs; rep.notes['probes'] = len(probes)
    for cfg in configs:
        use = probes if '17' not in cfg.split('-')[0] else [p for p in probes if 'std::span' not in p[0]]
        try: exe, secs, cached = C.cxx_build('c17probe', sources(use), config=cfg)
        except C.BuildError as e:
            # which probe is ill-formed?  every probe is one source line `out[k] = <expression>;` of a generated TU
            import re
            srcs = dict(sources(use)); hit = []
            for m in re.finditer(r'(c17_tu\d+\.cpp):(\d+):\d+:', e.log):
                ln = srcs.get(m.group(1), '').split('\n'); i = int(m.group(2)) - 1
                mm = re.match(r'\s*out\[(\d+)\] = (.*);$', ln[i]) if 0 <= i < len(ln) else None
                if mm and int(mm.group(1)) not in [h[0] for h in hit]: hit.append((int(mm.group(1)), mm.group(2)))
            if hit:
                for k, ex in hit[:3]:
                    rep.violation(dict(kind='a-deduction-/-construction-the-specification-prescribes-is-ill-formed', probe=[use[k][0], use[k][1], use[k][2]], config=cfg,
                                       compiler_errors=[l for l in e.log.split('\n') if 'error' in l][:4]))
            else: rep.broke(dict(correspondence='C17 probe build (%s): a deduction the specification prescribes does not compile' % cfg, why=str(e), log=e.log[:2500] + e.log[-1500:]))
            continue
        out = C.run([exe]).stdout.split('\n')
        for k, (ex, want, m) in enumerate(use):
            rep.cov['evaluations'] += 1; rep.cov['traces_validated_against_impl'] += 1
            xi = out[k] if k < len(out) else 'missing'
            pub = dict(probe=[ex, want, m], config=cfg)
            if 'pat=- ' not in want: rep.nontrivial(ex)
            if xi != want:
                kind = 'member-type-not-as-specified' if ex.startswith('memberTypes') else 'operation-the-specification-declares-noexcept-is-not (or a deduction / construction it prescribes is ill-formed)' if ex.startswith(('noexcept', 'strideCtor')) else 'deduction-guide-gives-another-type-than-specified'
                rep.violation(dict(kind=kind, impl=xi, specified=want, **pub)); continue
            if m and probes.index((ex, want, m)) in mout:
                xm = mout[probes.index((ex, want, m))]
                if xm not in xi: rep.broke(dict(correspondence='C17 rule functions (Props/C17.lean)', impl=xi, model=xm, **pub)); continue
            if 'mdspan(' in ex and 'mapping' in ex: rep.sample(dict(expr=ex[:200], result=xi), cap=5)
    rep.assumptions = ['CTAD and noexcept are evaluated by the compiler; the model states the rules on descriptors', 'noexcept of padded mapping constructors is not fixed by the revision the code follows and is not compared']
    return rep.finish(audit)
