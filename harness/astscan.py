"""Extractor for C19: facts about hidden state in the headers, regenerated from the source on every
run with clang's JSON AST: every variable with static / thread storage duration declared under
/repo/include must be constexpr (or const of literal type), no `mutable` data member, no const_cast,
no atomics / mutexes.  Returns (facts, violations)."""
import json, subprocess, os, tempfile, sys

TU = '#include <cassert>\n#include <mdspan/mdspan.hpp>\n#include <mdspan/mdarray.hpp>\n'
# configurations whose preprocessed source differs: language mode (pre-C++20 branches), the library's debug macro, the emulation hook
SCAN_CONFIGS = [('c++20', ()), ('c++17', ('-DKOKKOS_MDSPAN_VERIF', '-DKOKKOS_MDSPAN_VERIF_FORCE_NUA_EMULATION')), ('c++20', ('-D_MDSPAN_DEBUG',)), ('c++2b', ('-DNDEBUG',))]
def scan_one(args):
    inc, std, defs = args
    return scan(inc, std, defs)
def scan_all(repo_include):
    import concurrent.futures
    with concurrent.futures.ProcessPoolExecutor(len(SCAN_CONFIGS)) as ex:
        res = list(ex.map(scan_one, [(repo_include, s, d) for s, d in SCAN_CONFIGS]))
    facts = {}; viol = []; seen = set()
    for (s, d), (f, v) in zip(SCAN_CONFIGS, res):
        tag = s + (' ' + ' '.join(d) if d else '')
        facts[tag] = f
        for x in v or []:
            key = (x.get('kind'), x.get('name'), x.get('file'), x.get('line'))
            if key in seen: continue
            seen.add(key); viol.append(dict(x, configuration=tag))
    return facts, viol

def scan(repo_include, std='c++20', defines=()):
    with tempfile.TemporaryDirectory(prefix='astscan') as d:
        src = os.path.join(d, 'tu.cpp'); open(src, 'w').write(TU)
        p = subprocess.run(['clang++-14', '-std=' + std, '-fsyntax-only', '-w'] + list(defines) + ['-I' + repo_include, '-Xclang', '-ast-dump=json', src], capture_output=True, text=True)
        if p.returncode != 0 and not p.stdout: return None, [dict(kind='ast-dump-failed', stderr=p.stderr[-2000:])]
        root = json.loads(p.stdout)
    facts = dict(static_vars=0, static_constexpr=0, namespace_vars=0, fields=0, mutable_fields=0, const_casts=0, thread_local=0, functions=0, records=0)
    viol = []
    cur = {'file': None}
    inc = os.path.realpath(repo_include)
    def in_repo(): return cur['file'] is not None and os.path.realpath(cur['file']).startswith(inc)
    def upd(loc):
        if not isinstance(loc, dict): return
        for key in ('spellingLoc', 'expansionLoc'):
            if key in loc: upd(loc[key])
        if 'file' in loc: cur['file'] = loc['file']
    def walk(n, parent_kind, in_func):
        if not isinstance(n, dict): return
        upd(n.get('loc')); r = n.get('range')
        if isinstance(r, dict): upd(r.get('begin'))
        k = n.get('kind')
        here = in_repo()
        if here:
            if k == 'VarDecl':
                sc = n.get('storageClass'); tls = n.get('tls')
                ns_scope = parent_kind in ('NamespaceDecl', 'TranslationUnitDecl', 'LinkageSpecDecl')
                is_static = sc == 'static' or ns_scope or (parent_kind in ('CXXRecordDecl', 'ClassTemplateSpecializationDecl', 'ClassTemplatePartialSpecializationDecl'))
                if tls: facts['thread_local'] += 1; viol.append(dict(kind='thread_local-variable', name=n.get('name'), file=cur['file'], line=(n.get('loc') or {}).get('line')))
                if is_static and not in_func or sc == 'static':
                    facts['static_vars'] += 1
                    if ns_scope: facts['namespace_vars'] += 1
                    qt = (n.get('type') or {}).get('qualType', '')
                    if n.get('constexpr') or qt.startswith('const '): facts['static_constexpr'] += 1
                    else: viol.append(dict(kind='non-constexpr-variable-with-static-storage-duration', name=n.get('name'), type=qt, file=cur['file'], line=(n.get('loc') or {}).get('line')))
            elif k == 'FieldDecl':
                facts['fields'] += 1
                if n.get('mutable'):
                    facts['mutable_fields'] += 1; viol.append(dict(kind='mutable-data-member', name=n.get('name'), file=cur['file'], line=(n.get('loc') or {}).get('line')))
                qt = (n.get('type') or {}).get('qualType', '')
                if 'atomic' in qt or 'mutex' in qt: viol.append(dict(kind='atomic-or-mutex-member', name=n.get('name'), type=qt, file=cur['file']))
            elif k == 'CXXConstCastExpr':
                facts['const_casts'] += 1; viol.append(dict(kind='const_cast', file=cur['file'], line=((n.get('range') or {}).get('begin') or {}).get('line')))
            elif k in ('FunctionDecl', 'CXXMethodDecl', 'CXXConstructorDecl'): facts['functions'] += 1
            elif k == 'CXXRecordDecl': facts['records'] += 1
        nf = in_func or k in ('FunctionDecl', 'CXXMethodDecl', 'CXXConstructorDecl', 'CXXDestructorDecl', 'LambdaExpr', 'CXXConversionDecl')
        for c in n.get('inner', ()) or (): walk(c, k, nf)
    sys.setrecursionlimit(100000)
    walk(root, None, False)
    return facts, viol

if __name__ == '__main__':
    import time; t = time.time(); f, v = scan(sys.argv[1] if len(sys.argv) > 1 else '/repo/include'); print(f, len(v), round(time.time() - t, 1)); print(v[:5])
