import MdspanVerif.Props.C19
import MdspanVerif.Props.C04c
/-!
# C19 — concurrent access through copies and sub-views of a shared view

A thread need not use the shared view itself: it may use a copy of it, or a `submdspan` of
it, or a `submdspan` of a `submdspan` … to any depth.  All of these are pure values computed
from the immutable state of the root view (C04c), and the element a thread touches through
such a chain is the *root* element at the composed index.  Hence: if the threads work on
disjoint index sets **of the root**, each through whatever chain of sub-views it likes, the
execution is race free and schedule independent.
-/
namespace Mdspan

/-- an element access through a chain of `submdspan`s of the shared view (outermost slice
    tuple first; the empty chain is the shared view itself or a copy of it) -/
structure AccV where
  tid : Nat
  isWrite : Bool
  chain : List (List Slice)
  idx : List Nat
  val : Int

/-- the root element the access designates -/
def AccV.rootIdx (a : AccV) : List Nat := composeAll a.chain a.idx

/-- the address is computed by the thread from its own (sub-)view: handle of the root plus
    accumulated sub-view offsets plus the sub-view's mapping at the index -/
def AccV.toEv (v : View) (a : AccV) : Ev :=
  ⟨a.tid, a.isWrite, (v.subs a.chain).addr a.idx, a.val⟩

/-- the same access expressed on the root view -/
def AccV.toAcc (a : AccV) : Acc := ⟨a.tid, a.isWrite, a.rootIdx, a.val⟩

/-- every slice tuple of the chain is valid for the view it slices, and the index is inside
    the innermost view -/
def AccV.WF (v : View) (a : AccV) : Prop :=
  ChainValid v a.chain ∧ InB a.idx (v.subs a.chain).L.extents

/-- threads work on disjoint index sets of the root: a root element written by a thread —
    through any chain — is touched by that thread only -/
def DisjointRoot (s : List AccV) : Prop :=
  ∀ a1 ∈ s, ∀ a2 ∈ s, a1.isWrite = true → a1.rootIdx = a2.rootIdx → a1.tid = a2.tid

/-- a copy of a view is the same value: same handle, same mapping, same addresses -/
theorem View.copy_addr (v w : View) (h : w = v) (js : List Nat) : w.addr js = v.addr js := by
  rw [h]

/-- the event of an access through a chain is the event of the root access (C04c) -/
theorem AccV.toEv_eq (v : View) (hsl : v.L.strides.length = v.L.extents.length) (a : AccV)
    (hw : a.WF v) : a.toEv v = a.toAcc.toEv v.off v.L ∧ InB a.toAcc.idx v.L.extents := by
  obtain ⟨h1, h2⟩ := View.subs_addr a.chain v hsl hw.1 a.idx hw.2
  refine ⟨?_, h2⟩
  simp only [AccV.toEv, AccV.toAcc, AccV.rootIdx, Acc.toEv, h1]
  rfl

theorem AccV.map_toEv (v : View) (hsl : v.L.strides.length = v.L.extents.length) (s : List AccV)
    (hw : ∀ a ∈ s, a.WF v) :
    s.map (AccV.toEv v) = (s.map AccV.toAcc).map (Acc.toEv v.off v.L) := by
  rw [List.map_map]
  apply List.map_congr_left
  intro a ha
  exact (AccV.toEv_eq v hsl a (hw a ha)).1

theorem disjointIdx_of_disjointRoot (s : List AccV) (hd : DisjointRoot s) :
    DisjointIdx (s.map AccV.toAcc) := by
  intro a1 h1 a2 h2 hw hi
  obtain ⟨b1, hb1, rfl⟩ := List.mem_map.mp h1
  obtain ⟨b2, hb2, rfl⟩ := List.mem_map.mp h2
  exact hd b1 hb1 b2 hb2 hw hi

/-- two accesses through arbitrary (different) chains hit the same address exactly when they
    designate the same root element -/
theorem AccV.addr_eq_iff (v : View) (hv : v.L.Valid) (a1 a2 : AccV) (h1 : a1.WF v) (h2 : a2.WF v) :
    (a1.toEv v).addr = (a2.toEv v).addr ↔ a1.rootIdx = a2.rootIdx := by
  have hsl := strides_length v.L hv
  obtain ⟨e1, b1⟩ := AccV.toEv_eq v hsl a1 h1
  obtain ⟨e2, b2⟩ := AccV.toEv_eq v hsl a2 h2
  rw [e1, e2]
  simp only [Acc.toEv, AccV.toAcc] at b1 b2 ⊢
  constructor
  · intro h
    exact C01_inj v.L hv _ _ b1 b2 (by omega)
  · intro h; rw [h]

/-- **C19, sub-views: race freedom.**  Disjoint root index sets give race freedom, whatever
    chains of `submdspan`s (or copies) the threads access through. -/
theorem raceFree_of_disjointRoot (v : View) (hv : v.L.Valid) (s : List AccV)
    (hw : ∀ a ∈ s, a.WF v) (hd : DisjointRoot s) : RaceFree (s.map (AccV.toEv v)) := by
  have hsl := strides_length v.L hv
  rw [AccV.map_toEv v hsl s hw]
  apply raceFree_of_disjoint v.off v.L hv _ _ (disjointIdx_of_disjointRoot s hd)
  intro a ha
  obtain ⟨b, hb, rfl⟩ := List.mem_map.mp ha
  exact (AccV.toEv_eq v hsl b (hw b hb)).2

/-- … and conversely: race freedom of the events *is* disjointness of the root index sets —
    sub-views introduce no aliasing beyond that of the root, and hide none. -/
theorem raceFree_iff_disjointRoot (v : View) (hv : v.L.Valid) (s : List AccV)
    (hw : ∀ a ∈ s, a.WF v) : RaceFree (s.map (AccV.toEv v)) ↔ DisjointRoot s := by
  constructor
  · intro hr a1 h1 a2 h2 hwr hi
    exact hr (a1.toEv v) (List.mem_map_of_mem h1) (a2.toEv v) (List.mem_map_of_mem h2) hwr
      ((AccV.addr_eq_iff v hv a1 a2 (hw a1 h1) (hw a2 h2)).mpr hi)
  · exact raceFree_of_disjointRoot v hv s hw

/-- **C19, sub-views: schedule independence.**  For any two schedules of the same per-thread
    access sequences, each access made through any chain of sub-views (or a copy) of one
    shared valid view, over disjoint index sets of the root: the final buffer contents
    coincide and every thread reads the same values. -/
theorem C19_sub_schedule_indep (v : View) (hv : v.L.Valid) (s1 s2 : List AccV) (m : Mem)
    (hw1 : ∀ a ∈ s1, a.WF v) (hw2 : ∀ a ∈ s2, a.WF v)
    (hd1 : DisjointRoot s1) (hd2 : DisjointRoot s2)
    (hp : ∀ t, prog t (s1.map (AccV.toEv v)) = prog t (s2.map (AccV.toEv v))) :
    runMem m (s1.map (AccV.toEv v)) = runMem m (s2.map (AccV.toEv v)) ∧
    ∀ t, readLog t m (s1.map (AccV.toEv v)) = readLog t m (s2.map (AccV.toEv v)) := by
  have r1 := raceFree_of_disjointRoot v hv s1 hw1 hd1
  have r2 := raceFree_of_disjointRoot v hv s2 hw2 hd2
  exact ⟨runMem_schedule_indep _ _ m r1 r2 hp, fun t => readLog_schedule_indep t _ _ m r1 r2 (hp t)⟩

/-- the same, derived literally from `C19_schedule_indep` on the root: an execution through
    sub-views is indistinguishable from the execution of the root accesses `toAcc` -/
theorem C19_sub_as_root (v : View) (hv : v.L.Valid) (s1 s2 : List AccV) (m : Mem)
    (hw1 : ∀ a ∈ s1, a.WF v) (hw2 : ∀ a ∈ s2, a.WF v)
    (hd1 : DisjointRoot s1) (hd2 : DisjointRoot s2)
    (hp : ∀ t, prog t (s1.map (AccV.toEv v)) = prog t (s2.map (AccV.toEv v))) :
    runMem m (s1.map (AccV.toEv v)) = runMem m ((s2.map AccV.toAcc).map (Acc.toEv v.off v.L)) ∧
    ∀ t, readLog t m (s1.map (AccV.toEv v)) =
      readLog t m ((s2.map AccV.toAcc).map (Acc.toEv v.off v.L)) := by
  have hsl := strides_length v.L hv
  have e1 := AccV.map_toEv v hsl s1 hw1
  have e2 := AccV.map_toEv v hsl s2 hw2
  have hb : ∀ (s : List AccV), (∀ a ∈ s, a.WF v) → ∀ a ∈ s.map AccV.toAcc, InB a.idx v.L.extents := by
    intro s hw a ha
    obtain ⟨b, hb, rfl⟩ := List.mem_map.mp ha
    exact (AccV.toEv_eq v hsl b (hw b hb)).2
  rw [e1]
  rw [e1, e2] at hp
  exact C19_schedule_indep v.off v.L hv _ _ m (hb s1 hw1) (hb s2 hw2)
    (disjointIdx_of_disjointRoot s1 hd1) (disjointIdx_of_disjointRoot s2 hd2) hp

/-- a thread's partition given as a sub-view: if thread `t` only ever uses indices of its own
    sub-view chain `part t`, and the partitions designate disjoint parts of the root, the
    accesses are disjoint on the root -/
theorem disjointRoot_of_partition (s : List AccV) (part : Nat → List (List Slice))
    (hown : ∀ a ∈ s, a.chain = part a.tid)
    (hpart : ∀ t1 t2 js1 js2, t1 ≠ t2 → composeAll (part t1) js1 ≠ composeAll (part t2) js2) :
    DisjointRoot s := by
  intro a1 h1 a2 h2 _ hi
  apply Decidable.byContradiction
  intro hne
  apply hpart a1.tid a2.tid a1.idx a2.idx hne
  simpa [AccV.rootIdx, hown a1 h1, hown a2 h2] using hi

/-! ## non-vacuity: two threads, one on the even rows through a strided sub-view, one on row 1
    through a sub-view of a sub-view, of a 4×6 layout_right view at handle 100 -/

def c19bRoot : View := ⟨100, .right [4, 6]⟩
def c19bAccs : List AccV :=
  [ ⟨0, true, [[.strided 0 4 2, .full]], [1, 5], 7⟩,              -- root element (2,5)
    ⟨1, true, [[.range 1 3, .full], [.idx 0, .range 2 6]], [3], 9⟩, -- root element (1,5)
    ⟨1, false, [], [1, 5], 0⟩,                                      -- the shared view itself
    ⟨0, false, [[.strided 0 4 2, .full]], [1, 5], 0⟩ ]

example : c19bAccs.map AccV.rootIdx = [[2, 5], [1, 5], [1, 5], [2, 5]] := by decide
example : (c19bAccs.map (AccV.toEv c19bRoot)).map Ev.addr = [117, 111, 111, 117] := by decide

theorem c19bAccs_wf : ∀ a ∈ c19bAccs, a.WF c19bRoot := by
  simp [c19bAccs, c19bRoot, AccV.WF, ChainValid, SlicesValid, Slice.Valid, View.sub, View.subs, subLayout,
    Layout.extents, subExts, Slice.ext, preserveRight, subRank, preserveRightAt, Slice.isIdx,
    Slice.isFull, Slice.isRange, InB]

theorem c19bAccs_disjoint : DisjointRoot c19bAccs := by
  intro a1 h1 a2 h2 hw hi
  simp only [c19bAccs, List.mem_cons, List.not_mem_nil, or_false] at h1 h2
  rcases h1 with rfl | rfl | rfl | rfl <;> rcases h2 with rfl | rfl | rfl | rfl <;>
    first | rfl | (exfalso; revert hi; decide) | (exfalso; revert hw; decide)

example : RaceFree (c19bAccs.map (AccV.toEv c19bRoot)) :=
  raceFree_of_disjointRoot c19bRoot trivial c19bAccs c19bAccs_wf c19bAccs_disjoint

-- another interleaving of the same two per-thread programs: thread 1 first, then thread 0
def c19bAccs2 : List AccV :=
  [ ⟨1, true, [[.range 1 3, .full], [.idx 0, .range 2 6]], [3], 9⟩,
    ⟨1, false, [], [1, 5], 0⟩,
    ⟨0, true, [[.strided 0 4 2, .full]], [1, 5], 7⟩,
    ⟨0, false, [[.strided 0 4 2, .full]], [1, 5], 0⟩ ]

example (m : Mem) :
    runMem m (c19bAccs.map (AccV.toEv c19bRoot)) = runMem m (c19bAccs2.map (AccV.toEv c19bRoot)) ∧
    ∀ t, readLog t m (c19bAccs.map (AccV.toEv c19bRoot)) =
      readLog t m (c19bAccs2.map (AccV.toEv c19bRoot)) := by
  have hmem : ∀ a, a ∈ c19bAccs2 → a ∈ c19bAccs := by
    intro a ha
    simp only [c19bAccs2, c19bAccs, List.mem_cons, List.not_mem_nil, or_false] at ha ⊢
    rcases ha with rfl | rfl | rfl | rfl <;> simp
  refine C19_sub_schedule_indep c19bRoot trivial c19bAccs c19bAccs2 m c19bAccs_wf
    (fun a ha => c19bAccs_wf a (hmem a ha)) c19bAccs_disjoint
    (fun a1 h1 a2 h2 => c19bAccs_disjoint a1 (hmem a1 h1) a2 (hmem a2 h2)) ?_
  intro t
  have e1 : c19bAccs.map (AccV.toEv c19bRoot) =
      [⟨0, true, 117, 7⟩, ⟨1, true, 111, 9⟩, ⟨1, false, 111, 0⟩, ⟨0, false, 117, 0⟩] := by decide
  have e2 : c19bAccs2.map (AccV.toEv c19bRoot) =
      [⟨1, true, 111, 9⟩, ⟨1, false, 111, 0⟩, ⟨0, true, 117, 7⟩, ⟨0, false, 117, 0⟩] := by decide
  rw [e1, e2]
  simp only [prog, List.filter]
  by_cases h0 : t = 0
  · subst h0; decide
  · by_cases h1 : t = 1
    · subst h1; decide
    · have a : ¬ (0 = t) := fun h => h0 h.symm
      have b : ¬ (1 = t) := fun h => h1 h.symm
      simp [a, b]

end Mdspan
