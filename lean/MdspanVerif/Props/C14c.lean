import MdspanVerif.Props.C14b
/-!
# C14 — layout_left::operator(), layout_stride::operator() and required_span_size
-/
namespace Mdspan

/-- partial results of the nested recursion never exceed the final offset -/
theorem leftOff_lt (es is : List Nat) (hb : InB is es) : leftOff es is < prod es := by
  have hpos := inB_pos is es hb
  rw [leftOff_eq_dot es is (inB_length _ _ hb)]
  have h1 := dot_le_spanM1 is es (leftStrides es) hb (by simp [leftStrides, leftStridesFrom_length])
  have h2 := span_left_eq 1 es hpos
  simp only [leftStrides] at h1 ⊢; omega

theorem leftOffM_refines (T : ITy) : ∀ (es is : List Nat), InB is es →
    (∀ e ∈ es, (e : Int) ≤ T.hi) → ((prod es : Nat) : Int) ≤ T.hi + 1 →
    leftOffM T (toI es) (toI is) = .ok ((leftOff es is : Nat) : Int)
  | [], [], _, _, _ => by simp [leftOffM, leftOff]; rfl
  | [e], [i], hb, hrep, hadm => by
    simp [leftOffM, leftOff]; rfl
  | e :: e' :: es, i :: i' :: is, hb, hrep, hadm => by
    have hb' : InB (i' :: is) (e' :: es) := hb.2
    have hpos' : 0 < prod (e' :: es) := prod_pos _ (inB_pos _ _ hb')
    have hrest_lt := leftOff_lt (e' :: es) (i' :: is) hb'
    have he := hrep e (by simp)
    have hi := hb.1
    have hadm2 : ((e * prod (e' :: es) : Nat) : Int) ≤ T.hi + 1 := hadm
    -- admissibility of the tail
    have hadm' : ((prod (e' :: es) : Nat) : Int) ≤ T.hi + 1 := by
      have : prod (e' :: es) ≤ e * prod (e' :: es) := Nat.le_mul_of_pos_left _ (by omega)
      have : ((prod (e' :: es) : Nat) : Int) ≤ ((e * prod (e' :: es) : Nat) : Int) := Int.ofNat_le.mpr this
      omega
    have ih := leftOffM_refines T (e' :: es) (i' :: is) hb' (fun x hx => hrep x (List.mem_cons_of_mem _ hx)) hadm'
    -- bounds: rest*e + i < e * prod tail ≤ T.hi + 1
    have hfin : leftOff (e' :: es) (i' :: is) * e + i < e * prod (e' :: es) := by
      have : (leftOff (e' :: es) (i' :: is) + 1) * e ≤ prod (e' :: es) * e := Nat.mul_le_mul_right _ hrest_lt
      rw [Nat.add_mul, Nat.one_mul] at this
      rw [Nat.mul_comm e]; omega
    have hsum : ((leftOff (e' :: es) (i' :: is) * e + i : Nat) : Int) ≤ T.hi := by
      have : ((leftOff (e' :: es) (i' :: is) * e + i + 1 : Nat) : Int) ≤ ((e * prod (e' :: es) : Nat) : Int) :=
        Int.ofNat_le.mpr hfin
      have h2 : ((leftOff (e' :: es) (i' :: is) * e + i + 1 : Nat) : Int) = ((leftOff (e' :: es) (i' :: is) * e + i : Nat) : Int) + 1 := by simp
      omega
    have hmul : ((leftOff (e' :: es) (i' :: is) * e : Nat) : Int) ≤ T.hi := by
      have : ((leftOff (e' :: es) (i' :: is) * e : Nat) : Int) ≤ ((leftOff (e' :: es) (i' :: is) * e + i : Nat) : Int) :=
        Int.ofNat_le.mpr (by omega)
      omega
    have hrest : ((leftOff (e' :: es) (i' :: is) : Nat) : Int) ≤ T.hi := by
      have h1 : leftOff (e' :: es) (i' :: is) ≤ leftOff (e' :: es) (i' :: is) * e := Nat.le_mul_of_pos_right _ (by omega)
      have : ((leftOff (e' :: es) (i' :: is) : Nat) : Int) ≤ ((leftOff (e' :: es) (i' :: is) * e : Nat) : Int) := Int.ofNat_le.mpr h1
      omega
    have hi' : (i : Int) ≤ T.hi := by
      have : ((i : Nat) : Int) ≤ ((leftOff (e' :: es) (i' :: is) * e + i : Nat) : Int) := Int.ofNat_le.mpr (by omega)
      omega
    show leftOffM T ((e : Int) :: (e' : Int) :: toI es) ((i : Int) :: (i' : Int) :: toI is) = _
    unfold leftOffM
    have ih' : leftOffM T ((e' : Int) :: toI es) ((i' : Int) :: toI is) = .ok ((leftOff (e' :: es) (i' :: is) : Nat) : Int) := ih
    rw [ih']
    simp only [bind, Except.bind]
    rw [mulT_ok T _ e hrest he hmul]
    simp only
    rw [addPT_ok T _ i hi' hsum]
    simp only [pure, Except.pure]
    rw [narrow_id T _ _ hsum]
    rfl
  | [], _ :: _, hb, _, _ => by simp [InB] at hb
  | _ :: _, [], hb, _, _ => by simp [InB] at hb
  | [_], _ :: _ :: _, hb, _, _ => by simp [InB] at hb
  | _ :: _ :: _, [_], hb, _, _ => by simp [InB] at hb

/-- **C14, layout_left::operator()** -/
theorem C14_left_offset (T : ITy) (es is : List Nat) (hb : InB is es)
    (hrep : ∀ e ∈ es, (e : Int) ≤ T.hi) (hadm : ((prod es : Nat) : Int) ≤ T.hi) :
    leftOffM T (toI es) (toI is) = .ok (((Layout.left es).offset is : Nat) : Int) :=
  leftOffM_refines T es is hb hrep (by omega)

end Mdspan
