import MdspanVerif.Lemmas.Covers
import MdspanVerif.Props.C02
/-!
# C05 — required_span_size is exact for left/right/stride and safely bounded for padded
-/
namespace Mdspan

theorem prod_eq_zero_iff : ∀ es : List Nat, prod es = 0 ↔ 0 ∈ es
  | [] => by simp [prod]
  | e :: es => by
    simp only [prod, Nat.mul_eq_zero, List.mem_cons, prod_eq_zero_iff es]
    constructor
    · rintro (h | h)
      · exact Or.inl h.symm
      · exact Or.inr h
    · rintro (h | h)
      · exact Or.inl h.symm
      · exact Or.inr h

/-- the largest multi-index -/
def maxIdx (es : List Nat) : List Nat := es.map (· - 1)

theorem maxIdx_inB : ∀ es : List Nat, (∀ e ∈ es, 0 < e) → InB (maxIdx es) es
  | [], _ => trivial
  | e :: es, h => by
    refine ⟨?_, maxIdx_inB es (fun x hx => h x (List.mem_cons_of_mem _ hx))⟩
    have := h e (by simp); simp; omega

theorem dot_maxIdx : ∀ (es ss : List Nat), es.length = ss.length →
    dot (maxIdx es) ss = spanM1 (List.zip es ss)
  | [], [], _ => rfl
  | e :: es, s :: ss, h => by
    simp only [maxIdx, List.map, dot, List.zip_cons_cons, spanM1]
    have := dot_maxIdx es ss (by simpa using h)
    simp only [maxIdx] at this; rw [this]
  | [], _ :: _, h => by simp at h
  | _ :: _, [], h => by simp at h

/-- equality version of `span_right_le` -/
theorem span_right_eq (es : List Nat) (h : ∀ e ∈ es, 0 < e) :
    spanM1 (List.zip es (rightStrides es)) + 1 = prod es := by
  induction es with
  | nil => simp [rightStrides, spanM1, prod]
  | cons e es ih =>
    have ih' := ih (fun x hx => h x (List.mem_cons_of_mem _ hx))
    have he := h e (by simp)
    simp only [rightStrides, List.zip_cons_cons, spanM1, prod]
    have h1 := pred_mul_add e (prod es) he
    rw [Nat.mul_comm (prod es) e] at h1
    omega

theorem span_left_eq : ∀ (p : Nat) (es : List Nat), (∀ e ∈ es, 0 < e) →
    spanM1 (List.zip es (leftStridesFrom p es)) + p = p * prod es
  | p, [], _ => by simp [leftStridesFrom, spanM1, prod]
  | p, e :: es, h => by
    have ih := span_left_eq (p * e) es (fun x hx => h x (List.mem_cons_of_mem _ hx))
    have he := h e (by simp)
    simp only [leftStridesFrom, List.zip_cons_cons, spanM1, prod]
    have h1 := pred_mul_add e p he
    rw [← Nat.mul_assoc]
    omega

/-- **C05, left/right**: the span is the product of the extents: 0 iff some extent is 0,
    otherwise exactly one more than the largest offset, which is attained. -/
theorem C05_lr_zero (es : List Nat) : spanLR es = 0 ↔ 0 ∈ es := prod_eq_zero_iff es

theorem C05_right_exact (es : List Nat) (h : ∀ e ∈ es, 0 < e) :
    (Layout.right es).span = (Layout.right es).offset (maxIdx es) + 1 := by
  have hl : (maxIdx es).length = es.length := by simp [maxIdx]
  rw [C02_right es _ hl, dot_maxIdx es _ (rightStrides_length es).symm]
  exact (span_right_eq es h).symm

theorem C05_left_exact (es : List Nat) (h : ∀ e ∈ es, 0 < e) :
    (Layout.left es).span = (Layout.left es).offset (maxIdx es) + 1 := by
  have hl : (maxIdx es).length = es.length := by simp [maxIdx]
  rw [C02_left es _ hl, dot_maxIdx es _ (by rw [leftStrides, leftStridesFrom_length])]
  have := span_left_eq 1 es h
  simp only [Layout.span, spanLR, leftStrides]; omega

/-- **C05, layout_stride**: 0 if any extent is 0 … -/
theorem C05_stride_zero (es ss : List Nat) (hl : es.length = ss.length) (h0 : 0 ∈ es) :
    (Layout.stride es ss).span = 0 := spanStrideGo_zero 1 es ss h0 hl

/-- … otherwise exactly one more than the largest offset (any strides). -/
theorem C05_stride_exact (es ss : List Nat) (hl : es.length = ss.length) (h : ∀ e ∈ es, 0 < e) :
    (Layout.stride es ss).span = (Layout.stride es ss).offset (maxIdx es) + 1 := by
  simp only [Layout.span, Layout.offset, spanStride]
  rw [spanStrideGo_pos 1 es ss h hl, dot_maxIdx es ss hl]; omega

/-- no offset exceeds the one of the largest index (any layout, through its strides) -/
theorem C05_max (L : Layout) (hlen : L.strides.length = L.extents.length) (is : List Nat)
    (hi : InB is L.extents) : L.offset is ≤ L.offset (maxIdx L.extents) := by
  have hpos := inB_pos is _ hi
  rw [offset_eq_dot L is (inB_length _ _ hi), offset_eq_dot L _ (by simp [maxIdx]),
    dot_maxIdx _ _ hlen.symm]
  exact dot_le_spanM1 is _ _ hi hlen.symm

/-- rank 0: one element -/
theorem C05_rank0 : (Layout.left []).span = 1 ∧ (Layout.right []).span = 1 ∧
    (Layout.stride [] []).span = 1 ∧ ∀ ps, (Layout.lpad [] ps).span = 1 ∧ (Layout.rpad [] ps).span = 1 := by
  refine ⟨rfl, rfl, rfl, fun _ => ⟨rfl, rfl⟩⟩

/-- **C05, padded**: at least one more than the largest offset (for a valid mapping with a
    non-empty index space) and, by definition, the padded stride times the remaining extents. -/
theorem C05_padded_lower (L : Layout) (hv : L.Valid) (hpos : ∀ e ∈ L.extents, 0 < e)
    (hlen : L.strides.length = L.extents.length) :
    L.offset (maxIdx L.extents) + 1 ≤ L.span := by
  rw [offset_eq_dot L _ (by simp [maxIdx]), dot_maxIdx _ _ hlen.symm]
  exact span_ge L hv hpos

theorem C05_lpad_upper (ps e e' : Nat) (es : List Nat) :
    (Layout.lpad (e :: e' :: es) ps).span = ps * prod (e' :: es) := rfl

theorem C05_rpad_upper (ps e e' : Nat) (es : List Nat) :
    (Layout.rpad (e :: e' :: es) ps).span = prod (replaceLast ps (e :: e' :: es)) := by
  simp only [Layout.span, rpadSpan]
  rw [prod_replaceLast ps 1 (e :: e' :: es) (by simp), Nat.one_mul]

end Mdspan
