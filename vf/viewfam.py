"""The `view` op family (mdspan): sequence generators, execution, and the executable statements of
C03 (element access), C11 (construction / copy / move / assign / swap / convert) and C13 (observers)."""
import random, itertools
from . import common as C
from .mapfam import chain_strides, canon
import harness.gen_view as G

def build(cfg): return C.cxx_build('viewsrv', G.sources(), config=cfg)

def lm(p, e): return 0 if p == 0 else -(-e // p) * p
def spec_strides(kind, sp, pat, es, ss, pv):
    r = len(es)
    if kind == 'left': return [C.prod(es[:k]) for k in range(r)]
    if kind == 'right': return [C.prod(es[k + 1:]) for k in range(r)]
    if kind == 'stride': return list(ss)
    if kind == 'ulog': return [2 * C.prod(es[k + 1:]) for k in range(r)]
    if kind == 'urev': return [C.prod(es[k + 1:]) for k in range(r)]
    if kind == 'ubc': return [0] * r
    if r < 2: return [1] * r
    e = es[0] if kind == 'lpad' else es[-1]
    ps = lm(pv, e) if pv is not None else (e if sp in ('D', None) else lm(sp, e))
    if sp not in ('D', None) and (pat[0] if kind == 'lpad' else pat[-1]) is not None: ps = lm(sp, e)
    ee = ([ps] + es[1:]) if kind == 'lpad' else (es[:-1] + [ps])
    return [C.prod(ee[:k]) for k in range(r)] if kind == 'lpad' else [C.prod(ee[k + 1:]) for k in range(r)]

class VCase:
    def __init__(self, inst, ext, strides, pv, seq, purpose, meta=None, alt=None):
        self.inst, self.ext, self.str, self.pv, self.seq, self.purpose, self.meta = inst, ext, strides, pv, seq, purpose, meta or {}
        self.alt = alt        # (ext2, str2, pv2): a second mapping of the same type, used by `cm2`
        self.impl = self.model = None
    def line(self):
        s = G.line(self.inst) + ' ext=%s' % C.fmt(self.ext)
        if self.str is not None: s += ' str=%s' % C.fmt(self.str)
        if self.pv is not None: s += ' pv=%d' % self.pv
        if self.alt is not None:
            s += ' ext2=%s' % C.fmt(self.alt[0])
            if self.alt[1] is not None: s += ' str2=%s' % C.fmt(self.alt[1])
            if self.alt[2] is not None: s += ' pv2=%d' % self.alt[2]
        return s + ' seq=' + '/'.join(self.seq)
    def pub(self): return dict(line=self.line(), purpose=self.purpose, meta=self.meta)

def rand_ext(rnd, pat, hi_, small=True, allow_zero=True):
    es = []
    for p in pat:
        if p is not None: es.append(p)
        else: es.append(rnd.choice([0, 1, 2, 3, 4] if allow_zero else [1, 2, 3, 4]) if small else rnd.randint(0, hi_))
    return es

def dynvals(pat, es): return [e for p, e in zip(pat, es) if p is None]

def gen_cases(seed, tier, purposes):
    rnd = random.Random(seed); thorough = tier == 'thorough'; cases = []
    for inst in G.instances():
        kind, sp, t, pat, acc = inst; r = len(pat); H = C.hi(t)
        reps = 2 if not thorough else 8
        for _ in range(reps):
            es = rand_ext(rnd, pat, H)
            ss = None
            if kind == 'stride':
                ss = chain_strides(rnd, es, (1, 1, 2))
                if max(ss + [0]) > H: continue
            pv = rnd.choice([None, 1, 2, 3]) if (kind in ('lpad', 'rpad') and sp == 'D') else None
            st = spec_strides(kind, sp, pat, es, ss, pv)
            span = 0 if any(e == 0 for e in es) else 1 + sum((e - 1) * s for e, s in zip(es, st)) + (1 if kind == 'ulog' else 0)
            if span > min(H, 900): continue
            # ------------------------------------------------------------ C03: offsets in the upper half of a narrow index type
            if 'C03' in purposes and t in ('u8', 'u16') and any(p is None for p in pat) and all(p != 0 for p in pat) and kind in ('left', 'right', 'stride', 'lpad', 'rpad') and acc in ('def', 'st'):
                S = C.prod([p for p in pat if p is not None]); dpos = [k for k, p in enumerate(pat) if p is None]
                target = rnd.choice([H, H - 1, (H * 3) // 4]) // S
                bes = list(pat); rem = target
                for k in dpos[:-1]: bes[k] = rnd.randint(1, 4); rem //= bes[k]
                bes[dpos[-1]] = max(rem, 1)
                bss = chain_strides(rnd, bes, (1,)) if kind == 'stride' else None
                bst = spec_strides(kind, sp, pat, bes, bss, None)
                bspan = 1 + sum((e - 1) * s for e, s in zip(bes, bst))
                if H // 2 < bspan <= H and max(bst + [0]) <= H:
                    hb = rnd.choice([0, 7]); seq = ['cma:0:%d:%d' % (hb, rnd.randint(1, 9)), 'ob:0']
                    last = [e - 1 for e in bes]; pick = [last] + [[rnd.randrange(e) for e in bes] for _ in range(4)]
                    pick += [[e - 1 if rnd.random() < 0.7 else rnd.randrange(e) for e in bes] for _ in range(3)]
                    forms = ['pack', 'arr', 'cls', 'span'] + (['br1'] if r == 1 else [])
                    for ix in pick:
                        f = rnd.choice(forms); ity = rnd.choice(['i32', 'i64', 'u32', 'u64', t])
                        seq.append('at:0:%s:%s:%s' % (f, ity, C.fmt(list(ix))))
                    val = rnd.randint(1, 999); seq += ['wr:0:%d:%s' % (val, C.fmt(last)), 'df']
                    cases.append(VCase(inst, bes, bss, None, seq, 'C03', dict(h=hb, write=[last, val], large=True)))
            hs = [0, 7, 300, 1000] if acc != 'sh' else [0, 7]
            # ------------------------------------------------------------ C11: histories on the pool
            if 'C11' in purposes:
                tw = list(G.twin(pat))
                if any(p is None for p in pat) and rnd.random() < 0.5 and sp in (None, 'D'):
                    es_c = list(tw)                                  # run-time extents equal to the all-static twin: c3 conversions are valid
                    ss_c = chain_strides(rnd, es_c, (1, 1, 2)) if kind == 'stride' else None
                else: es_c, ss_c = es, ss
                # a second, different mapping of the same type
                es2 = rand_ext(rnd, pat, H); ss2 = chain_strides(rnd, es2, (1, 2, 3)) if kind == 'stride' else None
                pv2 = rnd.choice([None, 1, 2, 3, 5]) if (kind in ('lpad', 'rpad') and sp == 'D') else None
                st2 = spec_strides(kind, sp, pat, es2, ss2, pv2)
                span2 = 0 if any(e == 0 for e in es2) else 1 + sum((e - 1) * x for e, x in zip(es2, st2)) + (1 if kind == 'ulog' else 0)
                stc = spec_strides(kind, sp, pat, es_c, ss_c, pv)
                spanc = 0 if any(e == 0 for e in es_c) else 1 + sum((e - 1) * x for e, x in zip(es_c, stc)) + (1 if kind == 'ulog' else 0)
                if max(span2, spanc) <= min(H, 900) and max((ss2 or [0]) + (ss_c or [0]) + [0]) <= H:
                    seq = ['pr']; tag = [None] * 4
                    ctor_pool = ['cmp', 'cma', 'cm2', 'cm2'] + ([] if kind == 'stride' else ['cpd', 'cpa', 'cad', 'caa', 'csd', 'csa', 'cex'])
                    for slot in range(rnd.randint(2, 3)):
                        c = rnd.choice(ctor_pool); h = rnd.choice(hs)
                        if c in ('cpd', 'cad', 'csd'): seq.append('%s:%d:%d:%s' % (c, slot, h, C.fmt(dynvals(pat, es_c))))
                        elif c in ('cpa', 'caa', 'csa'): seq.append('%s:%d:%d:%s' % (c, slot, h, C.fmt(es_c)))
                        elif c in ('cma', 'cm2'): seq.append('%s:%d:%d:%d' % (c, slot, h, rnd.randint(1, 9)))
                        else: seq.append('%s:%d:%d' % (c, slot, h))
                        tag[slot] = 'B' if c == 'cm2' else 'A'
                        seq.append('ob:%d' % slot)
                    for _ in range(rnd.randint(4, 9) if not thorough else rnd.randint(10, 40)):
                        op = rnd.choice(['cp', 'mv', 'as', 'ma', 'sw', 'sw', 'cv', 'c3'])
                        a, b = rnd.randrange(4), rnd.randrange(4)
                        if op == 'cv': a = rnd.randrange(2); seq += ['cv:%d:%d' % (a, b), 'o2:%d' % a]
                        elif op == 'c3':
                            ok = [q for q in range(4) if tag[q] is not None and (es_c if tag[q] == 'A' else es2) == tw]
                            if not ok or sp not in (None, 'D'): continue
                            a = rnd.randrange(2); b = rnd.choice(ok); seq += ['c3:%d:%d' % (a, b), 'o3:%d' % a]
                        else:
                            seq += ['%s:%d:%d' % (op, a, b), 'ob:%d' % a, 'ob:%d' % b]
                            if op in ('cp', 'mv'): tag[a] = tag[b]
                            elif op in ('as', 'ma') and tag[a] is not None and tag[b] is not None: tag[a] = tag[b]
                            elif op == 'sw' and tag[a] is not None and tag[b] is not None: tag[a], tag[b] = tag[b], tag[a]
                    if acc == 'def': seq += ['c4:0:%d' % rnd.randrange(4)]
                    if acc in ('st', 'px'): seq += ['lg']      # no accessor member was called by any of the operations
                    seq += ['un', 'df']
                    cases.append(VCase(inst, es_c, ss_c, pv, seq, 'C11', alt=(es2, ss2, pv2)))
            # ------------------------------------------------------------ C03: access forms
            if 'C03' in purposes and r >= 0 and span > 0:
                h = rnd.choice([0, 7, 300] if acc != 'sh' else [0, 7]); seq = ['cma:0:%d:%d' % (h, rnd.randint(1, 9)), 'ob:0']
                idxs = list(itertools.product(*[range(e) for e in es]))
                pick = idxs if len(idxs) <= 6 else rnd.sample(idxs, 6)
                forms = ['pack', 'arr', 'cls', 'span'] + (['br1'] if r == 1 else [])
                for ix in pick:
                    for f in (forms if not thorough else forms * 2):
                        ity = rnd.choice(list(C.ITYPES))
                        if any(v > C.hi(ity) for v in ix): ity = 'i64'
                        seq.append('%s:0:%s:%s:%s' % ('at' if acc != 'th' or rnd.random() < 0.4 else 'tx', f, ity, C.fmt(list(ix))))
                wix = rnd.choice(idxs); val = rnd.randint(1, 999)
                if acc == 'sf': seq += ['df']; cases.append(VCase(inst, es, ss, pv, seq, 'C03', dict(h=h)))
                else:
                    seq += ['wr:0:%d:%s' % (val, C.fmt(list(wix))), 'df']
                    cases.append(VCase(inst, es, ss, pv, seq, 'C03', dict(h=h, write=[list(wix), val])))
        # ---------------------------------------------------------------- C13: a valid mapping (broadcast layout, span 1) whose extents multiply beyond
        #                                                                  the index type: size() is formed in size_type and may wrap, empty() must not
        if 'C13' in purposes and kind == 'ubc':
            bits = C.ITYPES[t][0]; hb = 1 << (bits // 2); q = 1 << (bits // 4)
            cand = {2: [(hb, hb), (1 << (bits - 2), 4), (H, H), (H, 2), (3, 5), (hb, hb + 1), (hb * 2, hb // 2)], 3: [(hb, q, q), (H, H, H), (2, 3, 4), (q, hb, q), (hb, hb, hb)]}.get(r, [])
            for es0 in cand:
                es1 = [p if p is not None else e for p, e in zip(pat, es0)]
                if all(0 <= e <= H for e in es1): cases.append(VCase(inst, es1, None, None, ['cmp:0:0', 'ob:0', 'cv:0:0', 'o2:0'], 'C13', dict(wrap=True)))
        if 'C13' in purposes:
            for _ in range(2 if not thorough else 10):
                big = rnd.random() < 0.6
                es = []
                if big and r > 0:
                    rem = rnd.choice([H, H // 2, H - 1, H // 3])
                    for k, p in enumerate(pat):
                        if p is not None: es.append(p); rem = max(rem // max(p, 1), 1)
                        else:
                            e = rnd.randint(1, max(1, int(rem ** (1.0 / max(1, r - k)) * 1.5))) if k < r - 1 else max(1, rem)
                            e = min(e, rem, H); es.append(e); rem = max(rem // max(e, 1), 1)
                    if rnd.random() < 0.25: es[rnd.choice([k for k in range(r) if pat[k] is None] or [0])] = 0 if pat[0] is None or r > 1 else es[0]
                else: es = rand_ext(rnd, pat, H)
                for k, p in enumerate(pat):
                    if p is not None: es[k] = p
                ss = None
                if kind == 'stride':
                    ss = chain_strides(rnd, es, (1, 1, 2))
                    if max(ss + [0]) > H: continue
                st = spec_strides(kind, sp, pat, es, ss, None)
                if 1 + sum((max(e, 1) - 1) * s for e, s in zip(es, st)) > H: continue     # admissible mappings only
                if max(st + [0]) > H or (kind in ('lpad', 'rpad') and len(es) >= 2 and C.prod([max(x, 1) for x in ((st[1:2] + es[1:]) if kind == 'lpad' else (es[:-1] + st[-2:-1]))]) > H): continue
                pv = None
                seq = ['cmp:0:0', 'ob:0', 'cv:0:0', 'o2:0']
                cases.append(VCase(inst, es, ss, pv, seq, 'C13'))
    return cases

def run_cases(cases, exe):
    lines = [c.line() for c in cases]
    adm = C.driver([l.replace('view ', 'view ', 1) for l in lines])
    io = C.pipe(exe, lines)
    for c, xi, xm in zip(cases, io, adm):
        c.impl = canon(xi); c.model = canon(xm)
    return len(lines)

def parse_obs(s):
    if not s.startswith('h='): return None
    d = dict(x.split('=', 1) for x in s.split())
    f = lambda t: [] if t == '-' else [int(x) for x in t.split(',')]
    return dict(h=int(d['h']), e=f(d['e']), s=f(d['s']), acc=int(d['acc']), sz=int(d['sz']), emp=d['emp'] == '1', fl=d['fl'], rk=d['rk'], fw=d['fw'])
