import MdspanVerif.Lemmas.Padded
/-!
Exhaustiveness: for a non-empty index space and a generalised chain, the image of
`idx ↦ Σ idx_k s_k` is all of `[0, span)` exactly when `span = Π e`.
Stated first on dimension lists in chain order, then transported along permutations.
-/
namespace Mdspan

def dotP : List Nat → List (Nat × Nat) → Nat
  | i :: is, d :: ds => i * d.2 + dotP is ds
  | _, _ => 0
def InBP : List Nat → List (Nat × Nat) → Prop
  | [], [] => True
  | i :: is, d :: ds => i < d.1 ∧ InBP is ds
  | _, _ => False
def prodP : List (Nat × Nat) → Nat
  | [] => 1
  | d :: ds => d.1 * prodP ds

def CoversP (l : List (Nat × Nat)) : Prop :=
  ∀ o, o ≤ spanM1 l → ∃ is, InBP is l ∧ dotP is l = o

theorem dotP_le_span : ∀ (is : List Nat) (l : List (Nat × Nat)), InBP is l → dotP is l ≤ spanM1 l
  | [], [], _ => by simp [dotP, spanM1]
  | i :: is, d :: ds, h => by
    have := dotP_le_span is ds h.2
    have h1 : i * d.2 ≤ (d.1 - 1) * d.2 := Nat.mul_le_mul_right _ (by have := h.1; omega)
    simp only [dotP, spanM1]; omega
  | [], _ :: _, h => by simp [InBP] at h
  | _ :: _, [], h => by simp [InBP] at h

theorem prodP_le_span (l : List (Nat × Nat)) (hne : ∀ d ∈ l, 0 < d.1) (h : DescC l) :
    prodP l ≤ spanM1 l + 1 := by
  induction l with
  | nil => simp [prodP, spanM1]
  | cons d ds ih =>
    have ihd := ih (fun x hx => hne x (List.mem_cons_of_mem _ hx)) h.2
    have hd := hne d (by simp)
    simp only [prodP, spanM1]
    rcases h.1 with h1 | h1
    · have : d.1 = 1 := by omega
      simp [this]; exact ihd
    · have a1 : d.1 * prodP ds ≤ d.1 * (spanM1 ds + 1) := Nat.mul_le_mul_left _ ihd
      have a2 := pred_mul_add d.1 (spanM1 ds + 1) hd
      have a3 : (d.1 - 1) * (spanM1 ds + 1) ≤ (d.1 - 1) * d.2 := Nat.mul_le_mul_left _ (by omega)
      rw [Nat.mul_comm (spanM1 ds + 1) d.1] at a2
      omega

theorem coversP_of_eq (l : List (Nat × Nat)) (hne : ∀ d ∈ l, 0 < d.1) (h : DescC l)
    (heq : spanM1 l + 1 = prodP l) : CoversP l := by
  induction l with
  | nil => intro o ho; exact ⟨[], trivial, by simp [spanM1] at ho; simp [dotP, ho]⟩
  | cons d ds ih =>
    have hne' : ∀ x ∈ ds, 0 < x.1 := fun x hx => hne x (List.mem_cons_of_mem _ hx)
    have hd := hne d (by simp)
    have hle := prodP_le_span ds hne' h.2
    simp only [prodP, spanM1] at heq
    have a2 := pred_mul_add d.1 (prodP ds) hd
    rw [Nat.mul_comm (prodP ds) d.1] at a2
    by_cases hk0 : d.1 - 1 = 0
    · have he : d.1 = 1 := by omega
      have hS : spanM1 ds + 1 = prodP ds := by simp [he] at heq; exact heq
      intro o ho
      simp only [spanM1, he] at ho
      obtain ⟨is, hb, hdot⟩ := ih hne' h.2 hS o (by simpa using ho)
      exact ⟨0 :: is, ⟨by omega, hb⟩, by simp [dotP, hdot]⟩
    · have hlt : spanM1 ds < d.2 := by
        rcases h.1 with h1 | h1
        · omega
        · exact h1
      have a3 : (d.1 - 1) * prodP ds ≤ (d.1 - 1) * d.2 := Nat.mul_le_mul_left _ (by omega)
      have hS : spanM1 ds + 1 = prodP ds := by omega
      have hks : (d.1 - 1) * d.2 = (d.1 - 1) * prodP ds := by omega
      have hs : d.2 = prodP ds := Nat.eq_of_mul_eq_mul_left (by omega) hks
      have hspos : 0 < d.2 := by omega
      intro o ho
      simp only [spanM1] at ho
      have hmod : o % d.2 ≤ spanM1 ds := by have := Nat.mod_lt o hspos; omega
      obtain ⟨is, hb, hdot⟩ := ih hne' h.2 hS (o % d.2) hmod
      have hdiv : o / d.2 < d.1 := by
        apply (Nat.div_lt_iff_lt_mul hspos).mpr
        have := pred_mul_add d.1 d.2 hd
        rw [Nat.mul_comm d.2 d.1] at this
        omega
      refine ⟨(o / d.2) :: is, ⟨hdiv, hb⟩, ?_⟩
      simp only [dotP, hdot]
      have := Nat.div_add_mod o d.2
      rw [Nat.mul_comm] at this; exact this

theorem eq_of_coversP (l : List (Nat × Nat)) (hne : ∀ d ∈ l, 0 < d.1) (h : DescC l)
    (hc : CoversP l) : spanM1 l + 1 = prodP l := by
  induction l with
  | nil => simp [spanM1, prodP]
  | cons d ds ih =>
    have hne' : ∀ x ∈ ds, 0 < x.1 := fun x hx => hne x (List.mem_cons_of_mem _ hx)
    have hd := hne d (by simp)
    have hct : CoversP ds := by
      intro o ho
      have : o ≤ spanM1 (d :: ds) := by simp only [spanM1]; omega
      obtain ⟨is, hb, hdot⟩ := hc o this
      match is, hb with
      | i :: is', hb =>
        simp only [dotP] at hdot
        have hi : i = 0 := by
          rcases h.1 with h1 | h1
          · have := hb.1; omega
          · rcases Nat.eq_zero_or_pos i with h0 | hpos
            · exact h0
            · exfalso
              have : d.2 ≤ i * d.2 := Nat.le_mul_of_pos_left _ hpos
              omega
        subst hi
        exact ⟨is', hb.2, by simpa using hdot⟩
    have hS := ih hne' h.2 hct
    simp only [spanM1, prodP]
    by_cases hk0 : d.1 - 1 = 0
    · have : d.1 = 1 := by omega
      simp [this]; exact hS
    · have hlt : spanM1 ds < d.2 := by
        rcases h.1 with h1 | h1
        · omega
        · exact h1
      have hs : d.2 = spanM1 ds + 1 := by
        rcases Nat.lt_or_ge (spanM1 ds + 1) d.2 with hgap | hge
        · exfalso
          have hk1 : d.2 ≤ (d.1 - 1) * d.2 := Nat.le_mul_of_pos_left _ (by omega)
          have : spanM1 ds + 1 ≤ spanM1 (d :: ds) := by simp only [spanM1]; omega
          obtain ⟨is, hb, hdot⟩ := hc (spanM1 ds + 1) this
          match is, hb with
          | i :: is', hb =>
            simp only [dotP] at hdot
            have hle := dotP_le_span is' ds hb.2
            rcases Nat.eq_zero_or_pos i with h0 | hpos
            · subst h0; simp at hdot; omega
            · have : d.2 ≤ i * d.2 := Nat.le_mul_of_pos_left _ hpos
              omega
        · omega
      have a2 := pred_mul_add d.1 (prodP ds) hd
      rw [Nat.mul_comm (prodP ds) d.1] at a2
      rw [← a2, ← hS, ← hs]; omega

theorem coversP_iff (l : List (Nat × Nat)) (hne : ∀ d ∈ l, 0 < d.1) (h : DescC l) :
    CoversP l ↔ spanM1 l + 1 = prodP l :=
  ⟨eq_of_coversP l hne h, coversP_of_eq l hne h⟩

/-! ### transport along permutations of the dimensions -/

theorem spanM1_perm {l1 l2 : List (Nat × Nat)} (h : l1.Perm l2) : spanM1 l1 = spanM1 l2 := by
  induction h with
  | nil => rfl
  | cons x _ ih => simp only [spanM1, ih]
  | swap x y l => simp only [spanM1]; omega
  | trans _ _ ih1 ih2 => exact ih1.trans ih2

theorem prodP_perm {l1 l2 : List (Nat × Nat)} (h : l1.Perm l2) : prodP l1 = prodP l2 := by
  induction h with
  | nil => rfl
  | cons x _ ih => simp only [prodP, ih]
  | swap x y l =>
    simp only [prodP]
    rw [← Nat.mul_assoc, ← Nat.mul_assoc, Nat.mul_comm y.1 x.1]
  | trans _ _ ih1 ih2 => exact ih1.trans ih2

def offT : List (Nat × (Nat × Nat)) → Nat
  | [] => 0
  | t :: ts => t.1 * t.2.2 + offT ts

theorem offT_perm {l1 l2 : List (Nat × (Nat × Nat))} (h : l1.Perm l2) : offT l1 = offT l2 := by
  induction h with
  | nil => rfl
  | cons x _ ih => simp only [offT, ih]
  | swap x y l => simp only [offT]; omega
  | trans _ _ ih1 ih2 => exact ih1.trans ih2

theorem zip_inBP : ∀ (is : List Nat) (l : List (Nat × Nat)), InBP is l →
    (List.zip is l).map Prod.snd = l ∧ (∀ t ∈ List.zip is l, t.1 < t.2.1) ∧
      offT (List.zip is l) = dotP is l
  | [], [], _ => by simp [offT, dotP]
  | i :: is, d :: ds, h => by
    obtain ⟨h1, h2, h3⟩ := zip_inBP is ds h.2
    refine ⟨by simp [h1], ?_, by simp [offT, dotP, h3]⟩
    intro t ht
    simp only [List.zip_cons_cons, List.mem_cons] at ht
    rcases ht with rfl | ht
    · exact h.1
    · exact h2 t ht
  | [], _ :: _, h => by simp [InBP] at h
  | _ :: _, [], h => by simp [InBP] at h

theorem unzip_inBP : ∀ (t : List (Nat × (Nat × Nat))), (∀ x ∈ t, x.1 < x.2.1) →
    InBP (t.map Prod.fst) (t.map Prod.snd) ∧ dotP (t.map Prod.fst) (t.map Prod.snd) = offT t
  | [], _ => by simp [InBP, dotP, offT]
  | x :: t, h => by
    obtain ⟨h1, h2⟩ := unzip_inBP t (fun y hy => h y (List.mem_cons_of_mem _ hy))
    exact ⟨⟨h x (by simp), h1⟩, by simp [dotP, offT, h2]⟩

theorem coversP_perm {l1 l2 : List (Nat × Nat)} (h : l2.Perm l1) (hc : CoversP l1) : CoversP l2 := by
  intro o ho
  rw [spanM1_perm h] at ho
  obtain ⟨is1, hb1, hd1⟩ := hc o ho
  obtain ⟨hz1, hz2, hz3⟩ := zip_inBP is1 l1 hb1
  obtain ⟨t2, ht2, hmap⟩ := perm_map_lift Prod.snd l2 (List.zip is1 l1) (by rw [hz1]; exact h)
  have hb2 : ∀ x ∈ t2, x.1 < x.2.1 := fun x hx => hz2 x (ht2.mem_iff.mp hx)
  obtain ⟨u1, u2⟩ := unzip_inBP t2 hb2
  refine ⟨t2.map Prod.fst, ?_, ?_⟩
  · rw [← hmap]; exact u1
  · rw [← hmap, u2, offT_perm ht2, hz3, hd1]

end Mdspan
